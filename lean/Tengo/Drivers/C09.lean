import Tengo.Sexp
import Tengo.Model.Heap9
/-!
Line protocol of the C09 heap model: `(c09 op op …)`; handles `@n` are plain register numbers, so
aliasing is explicit. Answer: one item per op, joined by ` | `:

  `p<n> snap ; snap`  n handles pushed, with their deep snapshots      `done`   `b0` / `b1`
  `err <kind>`        `fuel` / `bad` (outside the model: the harness stops comparing there)
  `s snap ; snap`     answer of the pseudo-op `(snap x …)`

ops: `(lit u|(i n)|(s #hex)|(o #hex))  (arr cap x…)  (map (#k x)…)  (err x)  (immut 0|1 x)  (get x i)
      (set x v sel…)  (append x newcap item…)  (splice x newcap delcap arg…)  (delete x k)
      (slice x lo hi newcap)  (add x y)  (copy x cap…)  (freeze x)  (iter x)  (eq x y)`
-/
namespace Tengo.Drivers.C09
open Tengo Tengo.Model.Heap9

def nats : List Sexp → Option (List Nat)
  | [] => some []
  | x :: xs => do let a ← x.asNat?; let r ← nats xs; pure (a :: r)

def textOfHex (s : Sexp) : Option String := do
  let bs ← s.asBytes?
  pure (String.ofList (bs.map (fun b => Char.ofNat b.toNat)))

def parseLit : Sexp → Option Lit
  | .atom "u" => some .undef
  | .list [.atom "i", n] => do let k ← n.asInt?; pure (.int k)
  | .list [.atom "s", .atom h] => some (.str h)
  | .list [.atom "o", h] => do let t ← textOfHex h; pure (.opq t)
  | _ => none

def parseKvs : List Sexp → Option (List (String × Nat))
  | [] => some []
  | .list [.atom k, x] :: rest => do let a ← x.asNat?; let r ← parseKvs rest; pure ((k, a) :: r)
  | _ => none

inductive Cmd where
  | op (o : Op)
  | snap (xs : List Nat)

def parseCmd : Sexp → Option Cmd
  | .list (.atom name :: args) =>
    match name, args with
    | "lit", [l] => do let x ← parseLit l; pure (.op (.lit x))
    | "arr", c :: xs => do let cap ← c.asNat?; let es ← nats xs; pure (.op (.mkArr es cap))
    | "map", kvs => do let m ← parseKvs kvs; pure (.op (.mkMap m))
    | "err", [x] => do let a ← x.asNat?; pure (.op (.mkErr a))
    | "immut", [c, x] => do let b ← c.asBool?; let a ← x.asNat?; pure (.op (.immutable b a))
    | "get", [x, i] => do let a ← x.asNat?; let b ← i.asNat?; pure (.op (.idxGet a b))
    | "set", x :: v :: sels => do
        let a ← x.asNat?; let b ← v.asNat?; let ss ← nats sels; pure (.op (.setSel a ss b))
    | "append", x :: nc :: items => do
        let a ← x.asNat?; let c ← nc.asNat?; let is ← nats items; pure (.op (.append a is c))
    | "splice", x :: nc :: dc :: rest => do
        let a ← x.asNat?; let c ← nc.asNat?; let d ← dc.asNat?; let is ← nats rest; pure (.op (.splice a is c d))
    | "delete", [x, k] => do let a ← x.asNat?; let b ← k.asNat?; pure (.op (.delete a b))
    | "slice", [x, lo, hi, nc] => do
        let a ← x.asNat?; let l ← lo.asNat?; let u ← hi.asNat?; let c ← nc.asNat?; pure (.op (.slice a l u c))
    | "add", [x, y] => do let a ← x.asNat?; let b ← y.asNat?; pure (.op (.add a b))
    | "copy", x :: caps => do let a ← x.asNat?; let cs ← nats caps; pure (.op (.copy a cs))
    | "freeze", [x] => do let a ← x.asNat?; pure (.op (.freeze a))
    | "iter", [x] => do let a ← x.asNat?; pure (.op (.iter a))
    | "eq", [x, y] => do let a ← x.asNat?; let b ← y.asNat?; pure (.op (.eq a b))
    | "snap", xs => do let is ← nats xs; pure (.snap is)
    | _, _ => none
  | _ => none

def errName : ErrKind → String
  | .notIndexAssignable => "not-index-assignable" | .notIndexable => "not-indexable"
  | .invalidIndexType => "invalid-index-type" | .indexOutOfBounds => "index-out-of-bounds"
  | .invalidIndexOnError => "invalid-index-on-error" | .invalidOperator => "invalid-operator"
  | .invalidArgFirst => "invalid-arg-first" | .invalidArgSecond => "invalid-arg-second"
  | .invalidArgThird => "invalid-arg-third" | .wrongNumArgs => "wrong-num-args"
  | .invalidSliceIndexType => "invalid-slice-index-type" | .invalidSliceIndex => "invalid-slice-index"

def snapRegs (h : Heap) (xs : List Nat) : String :=
  " ; ".intercalate (xs.map (fun x => match h.regs[x]? with | some v => snap h v | none => "(none)"))

def showOut (h : Heap) : Out → String
  | .pushed n => "p" ++ toString n ++ " " ++ snapRegs h ((List.range n).map (fun i => h.regs.length - n + i))
  | .done => "done"
  | .bool b => if b then "b1" else "b0"
  | .err e => "err " ++ errName e
  | .fuel => "fuel"
  | .bad => "bad"

/-- Runs the commands; stops answering after the first `fuel`/`bad`. Returns the final heap, or `none` when
the run left the model. -/
def runCmds : Heap → List Sexp → List String → Option Heap × List String
  | h, [], acc => (some h, acc.reverse)
  | h, c :: cs, acc =>
    match parseCmd c with
    | none => (none, ("bad-op" :: acc).reverse)
    | some (.snap xs) => runCmds h cs (("s " ++ snapRegs h xs) :: acc)
    | some (.op o) =>
      let (h', out) := step h o
      match out with
      | .fuel => (none, ("fuel" :: acc).reverse)
      | .bad => (none, ("bad" :: acc).reverse)
      | _ => runCmds h' cs (showOut h' out :: acc)

def handle (args : List Sexp) : String := " | ".intercalate (runCmds {} args []).2

/-- `(c09x (prefix cmds) (alt cmds) (alt cmds) …)`: the prefix once, then every alternative on the heap
the prefix produced. Answer parts joined by ` || `. -/
def handleX : List Sexp → String
  | .list pre :: alts =>
    let (h?, ans) := runCmds {} pre []
    let rest := alts.map (fun a =>
      match h?, a with
      | some h, .list cs => " | ".intercalate (runCmds h cs []).2
      | _, _ => "bad")
    " || ".intercalate (" | ".intercalate ans :: rest)
  | _ => "bad-op"

def handlers : List (String × (List Sexp → String)) := [("c09", handle), ("c09x", handleX)]

end Tengo.Drivers.C09

import Tengo.Sexp
import Tengo.Model.Dedup
/-!
Line protocol of the de-duplication model:
`(dedup (bc (main #insts ((off pos)…)) (consts c…)))` with constants `(fn #insts numLocals numParams varargs
((off pos)…) ptr)`, `(i n)`, `(f bits)`, `(c n)`, `(s #hex)`, `(mod #name)`, `(o)` →
`ok (bc …) (kept old…) (map new…)` or `panic <why>`.
-/
namespace Tengo.Drivers.C12
open Tengo Tengo.Model Tengo.Model.Dedup

def parsePairs : List Sexp → Option (List (Nat × Nat))
  | [] => some []
  | Sexp.list [a, b] :: rest => do
      let x ← a.asNat?
      let y ← b.asNat?
      let tl ← parsePairs rest
      pure ((x, y) :: tl)
  | _ => none

def showPairs (m : List (Nat × Nat)) : String :=
  "(" ++ " ".intercalate (m.map (fun (a, b) => "(" ++ toString a ++ " " ++ toString b ++ ")")) ++ ")"

def parseConst : Sexp → Option Const
  | Sexp.list [Sexp.atom "fn", b, nl, np, va, Sexp.list sm, p] => do
      let bs ← b.asBytes?
      let l ← nl.asNat?
      let n ← np.asNat?
      let v ← va.asBool?
      let m ← parsePairs sm
      let q ← p.asNat?
      pure (.fn { ptr := q, insts := bs, numLocals := l, numParams := n, varargs := v, srcMap := m })
  | Sexp.list [Sexp.atom "i", n] => n.asInt?.map .int
  | Sexp.list [Sexp.atom "f", n] => n.asNat?.map .float
  | Sexp.list [Sexp.atom "c", n] => n.asInt?.map .char
  | Sexp.list [Sexp.atom "s", b] => b.asBytes?.map .str
  | Sexp.list [Sexp.atom "mod", b] => b.asBytes?.map .imap
  | Sexp.list [Sexp.atom "o"] => some .other
  | _ => none

def parseConsts : List Sexp → Option (List Const)
  | [] => some []
  | x :: xs => do
      let c ← parseConst x
      let tl ← parseConsts xs
      pure (c :: tl)

def showConst : Const → String
  | .fn f => "(fn #" ++ Sexp.hexOfBytes f.insts ++ " " ++ toString f.numLocals ++ " " ++ toString f.numParams ++ " " ++
      (if f.varargs then "1" else "0") ++ " " ++ showPairs f.srcMap ++ " " ++ toString f.ptr ++ ")"
  | .int v => "(i " ++ toString v ++ ")"
  | .float b => "(f " ++ toString b ++ ")"
  | .char v => "(c " ++ toString v ++ ")"
  | .str b => "(s #" ++ Sexp.hexOfBytes b ++ ")"
  | .imap n => "(mod #" ++ Sexp.hexOfBytes n ++ ")"
  | .other => "(o)"

def parseBytecode : Sexp → Option Bytecode
  | Sexp.list [Sexp.atom "bc", Sexp.list [Sexp.atom "main", b, Sexp.list sm], Sexp.list (Sexp.atom "consts" :: cs)] => do
      let bs ← b.asBytes?
      let m ← parsePairs sm
      let k ← parseConsts cs
      pure { main := bs, mainSrcMap := m, consts := k }
  | _ => none

def showNats (xs : List Nat) : String := " ".intercalate (xs.map toString)

def showBytecode (bc : Bytecode) : String :=
  "(bc (main #" ++ Sexp.hexOfBytes bc.main ++ " " ++ showPairs bc.mainSrcMap ++ ") (consts" ++
    String.join (bc.consts.map (fun c => " " ++ showConst c)) ++ "))"

def handleDedup : List Sexp → String
  | [x] =>
    match parseBytecode x with
    | none => "bad-op"
    | some bc =>
      match dedup bc with
      | .ok (bc', m) =>
        "ok " ++ showBytecode bc' ++ " (kept" ++ String.join ((keptOrigins m bc'.consts.length).map (fun n => " " ++ toString n)) ++
          ") (map " ++ showNats m ++ ")"
      | .error e => "panic " ++ e.replace " " "-"
  | _ => "bad-op"

def handlers : List (String × (List Sexp → String)) := [("dedup", handleDedup)]

end Tengo.Drivers.C12

import Tengo.Sexp
import Tengo.Model.Symtab
/-!
Line protocol of the symbol-table model (C11):

`(symops <op>…)` with `<op>` one of `(define n)`, `(builtin i n)`, `(fork block|func)`, `(parent)`,
`(leave)`, `(resolve n)`, `(resolve n recur)`, `(assign n)`, `(mark n)`, replayed from
`NewSymbolTable()`. Answer: `ok` followed by one `;`-separated item per operation:
`<result> / <chain>` where `<result>` is `sym n SCOPE idx assigned`, `found n SCOPE idx assigned depth`,
`notfound`, `ok` or `nil`, and `<chain>` lists every table from the current one to the root as
`[block max free=(n:SCOPE:idx:assigned …) names=(…sorted…)]`.
-/
namespace Tengo.Drivers.C11
open Tengo Tengo.Model.Symtab

def scopeStr : Scope → String
  | .global => "GLOBAL" | .local => "LOCAL" | .builtin => "BUILTIN" | .free => "FREE"

def b01 (b : Bool) : String := if b then "1" else "0"

def symStr (s : Symbol) : String :=
  s.name ++ " " ++ scopeStr s.scope ++ " " ++ toString s.index ++ " " ++ b01 s.localAssigned

def symColon (s : Symbol) : String :=
  s.name ++ ":" ++ scopeStr s.scope ++ ":" ++ toString s.index ++ ":" ++ b01 s.localAssigned

def insertSorted (x : String) : List String → List String
  | [] => [x]
  | y :: ys => if x ≤ y then x :: y :: ys else y :: insertSorted x ys

def sortStrings (xs : List String) : List String := xs.foldl (fun acc x => insertSorted x acc) []

def tableStr (t : Table) : String :=
  "[" ++ b01 t.block ++ " " ++ toString t.maxDefinition ++
  " free=(" ++ " ".intercalate (t.freeSymbols.map symColon) ++ ")" ++
  " names=(" ++ " ".intercalate (sortStrings (t.store.map (·.1))) ++ ")]"

def chainStr (c : Chain) : String := "".intercalate (c.map tableStr)

def resStr : Res → String
  | .sym s => "sym " ++ symStr s
  | .found s d => "found " ++ symStr s ++ " " ++ toString d
  | .notFound => "notfound"
  | .ok => "ok"
  | .nil => "nil"

def parseOp : Sexp → Option Op
  | .list [.atom "define", .atom n] => some (.define n)
  | .list [.atom "builtin", i, .atom n] => i.asNat?.map (fun k => .builtin k n)
  | .list [.atom "fork", .atom "block"] => some (.fork true)
  | .list [.atom "fork", .atom "func"] => some (.fork false)
  | .list [.atom "parent"] => some .parent
  | .list [.atom "leave"] => some .leave
  | .list [.atom "resolve", .atom n] => some (.resolve n false)
  | .list [.atom "resolve", .atom n, .atom "recur"] => some (.resolve n true)
  | .list [.atom "assign", .atom n] => some (.assign n)
  | .list [.atom "mark", .atom n] => some (.mark n)
  | _ => none

def replay : List Op → Chain → List String
  | [], _ => []
  | o :: os, c =>
    let r := step o c
    (resStr r.1 ++ " / " ++ chainStr r.2) :: replay os r.2

def handleSymops (args : List Sexp) : String :=
  match args.mapM parseOp with
  | some ops => "ok " ++ " ; ".intercalate (replay ops init)
  | none => "bad-op"

def handlers : List (String × (List Sexp → String)) := [("symops", handleSymops)]

end Tengo.Drivers.C11

import Tengo.Sexp
import Tengo.Model.Optimizer
/-! Line protocol of the optimizer model: `(opt #<insts> ((off pos)…) retPos)` -/
namespace Tengo.Drivers.C03
open Tengo Tengo.Model Tengo.Model.Optimizer

def parsePairs : List Sexp → Option (List (Nat × Nat))
  | [] => some []
  | Sexp.list [a, b] :: rest => do
      let x ← a.asNat?
      let y ← b.asNat?
      let tl ← parsePairs rest
      pure ((x, y) :: tl)
  | _ => none

def showPairs (m : List (Nat × Nat)) : String :=
  "(" ++ " ".intercalate (m.map (fun (a, b) => "(" ++ toString a ++ " " ++ toString b ++ ")")) ++ ")"

def handleOpt : List Sexp → String
  | [b, Sexp.list sm, rp] =>
    match b.asBytes?, parsePairs sm, rp.asNat? with
    | some bs, some m, some r =>
      match opt bs m r with
      | .ok res => "ok #" ++ Sexp.hexOfBytes res.bytes ++ " " ++ showPairs res.srcMap ++ " " ++ (if res.appended then "1" else "0")
      | .panic w => "panic " ++ w.replace " " "-"
    | _, _, _ => "bad-op"
  | _ => "bad-op"

/-- `(keptpos #<insts>)` → old positions of kept instructions. -/
def handleKept : List Sexp → String
  | [b] =>
    match b.asBytes? with
    | some bs =>
      match decode bs with
      | some is => "ok (" ++ " ".intercalate ((kept is).map (fun i => toString i.pos)) ++ ")"
      | none => "panic undecodable"
    | none => "bad-op"
  | _ => "bad-op"

def handlers : List (String × (List Sexp → String)) :=
  [("opt", handleOpt), ("keptpos", handleKept)]

end Tengo.Drivers.C03

import Tengo.Sexp
import Tengo.Model.Parser
import Tengo.Model.Printer
/-!
Line protocol of the front-end model (C20, reused by C04):

  (scan  #<src> (oracle…))  → ok ((Tok #lit off)…) ((off msg)…)
  (parse #<src> (oracle…))  → ok <AST S-expression without positions> | error
  (print #<src> (oracle…))  → ok #<File.String()> | error
  (intlit #<lit>) → ok v | range | syntax      (floatok #<lit>) → 1 | 0
  (charlit #<lit>) → ok v | bad                (strlit #<lit>) → ok #<value> | bad

Oracle entries (external functions, DESIGN §2.1): `(f #<lit> bits)` = strconv.ParseFloat succeeded with
these float64 bits; `(u rune cls)` = unicode class of a non-ASCII rune (1 letter, 2 digit).
-/
namespace Tengo.Drivers.C20
open Tengo Tengo.Model.Token Tengo.Model.Scanner Tengo.Model.Ast Tengo.Model.Parser Tengo.Model.Literal
open Tengo.Model.Printer

structure Oracle where
  floats : List (Bs × Nat) := []
  classes : List (Nat × Nat) := []

def parseOracle : List Sexp → Oracle
  | [] => {}
  | Sexp.list [Sexp.atom "f", l, b] :: rest =>
    let o := parseOracle rest
    match l.asBytes?, b.asNat? with
    | some lit, some bits => { o with floats := (lit, bits) :: o.floats }
    | _, _ => o
  | Sexp.list [Sexp.atom "u", r, c] :: rest =>
    let o := parseOracle rest
    match r.asNat?, c.asNat? with
    | some rn, some cl => { o with classes := (rn, cl) :: o.classes }
    | _, _ => o
  | _ :: rest => parseOracle rest

def Oracle.fo (o : Oracle) (lit : Bs) : Option Nat := o.floats.lookup lit
def Oracle.cls (o : Oracle) (r : Nat) : Nat := (o.classes.lookup r).getD 0

def oracleOf : List Sexp → Oracle
  | [Sexp.list es] => parseOracle es
  | _ => {}

def hx (b : Bs) : String := "#" ++ Sexp.hexOfBytes b

def msgStr : Msg → String
  | .nul => "nul" | .utf8 => "utf8" | .bom => "bom"
  | .illegalChar r => "illegalChar:" ++ toString r
  | .commentNotTerminated => "commentNotTerminated"
  | .exponentNoDigits => "exponentNoDigits"
  | .escUnknown => "escUnknown" | .escNotTerminated => "escNotTerminated"
  | .escIllegalChar r => "escIllegalChar:" ++ toString r
  | .escInvalidCodePoint => "escInvalidCodePoint"
  | .runeNotTerminated => "runeNotTerminated" | .illegalRune => "illegalRune"
  | .stringNotTerminated => "stringNotTerminated" | .rawStringNotTerminated => "rawStringNotTerminated"

def handleScan : List Sexp → String
  | b :: rest =>
    match b.asBytes? with
    | some src =>
      let o := scan (oracleOf rest).cls src
      "ok (" ++ " ".intercalate (o.toks.map (fun t => "(" ++ t.tok.name ++ " " ++ hx t.lit ++ " " ++ toString t.off ++ ")")) ++
        ") (" ++ " ".intercalate (o.errs.map (fun e => "(" ++ toString e.off ++ " " ++ msgStr e.msg ++ ")")) ++ ")"
    | none => "bad-op"
  | _ => "bad-op"

def b01 (b : Bool) : String := if b then "1" else "0"
def par (xs : List String) : String := "(" ++ " ".intercalate xs ++ ")"
def identS (n : Bs) : String := "(ident " ++ hx n ++ ")"
def optIdentS : Option Bs → String
  | some n => identS n
  | none => "nil"

mutual
  def dumpExpr : Expr → String
    | .ident n => identS n
    | .int v lit => par ["int", toString v, hx lit]
    | .float bits lit => par ["float", toString bits, hx lit]
    | .char v lit => par ["char", toString v, hx lit]
    | .str val lit => par ["str", hx val, hx lit]
    | .bool b => par ["bool", b01 b]
    | .undef => "(undef)"
    | .bin op l r => par ["bin", op.name, dumpExpr l, dumpExpr r]
    | .un op e => par ["un", op.name, dumpExpr e]
    | .cond c t f => par ["cond", dumpExpr c, dumpExpr t, dumpExpr f]
    | .paren e => par ["paren", dumpExpr e]
    | .arr es => par ["arr", par (dumpExprs es)]
    | .map els => par ["map", par (dumpMapElems els)]
    | .sel e n => par ["sel", dumpExpr e, par ["str", hx n, hx n]]
    | .idx e i => par ["idx", dumpExpr e, dumpOptExpr i]
    | .slice e lo hi => par ["slice", dumpExpr e, dumpOptExpr lo, dumpOptExpr hi]
    | .call f args ell => par ["call", b01 ell, dumpExpr f, par (dumpExprs args)]
    | .func ps va body => par ["func", b01 va, par (ps.map identS), par ["block", par (dumpStmts body)]]
    | .imp n => par ["import", hx n]
    | .error e => par ["error", dumpExpr e]
    | .immutable e => par ["immutable", dumpExpr e]
    | .bad => "(bad)"
  def dumpExprs : Exprs → List String
    | .nil => []
    | .cons e es => dumpExpr e :: dumpExprs es
  def dumpOptExpr : OptExpr → String
    | .none => "nil"
    | .some e => dumpExpr e
  def dumpMapElems : MapElems → List String
    | .nil => []
    | .cons k v r => par [hx k, dumpExpr v] :: dumpMapElems r
  def dumpStmt : Stmt → String
    | .expr e => par ["expr", dumpExpr e]
    | .assign tok l r => par ["assign", tok.name, par (dumpExprs l), par (dumpExprs r)]
    | .incdec tok e => par ["incdec", tok.name, dumpExpr e]
    | .ifS init c body els =>
      par ["if", dumpOptStmt init, dumpExpr c, par ["block", par (dumpStmts body)], dumpOptStmt els]
    | .forS init cond post body =>
      par ["for", dumpOptStmt init, dumpOptExpr cond, dumpOptStmt post, par ["block", par (dumpStmts body)]]
    | .forIn k v it body =>
      par ["forin", optIdentS k, optIdentS v, dumpExpr it, par ["block", par (dumpStmts body)]]
    | .block ss => par ["block", par (dumpStmts ss)]
    | .branch tok label => par ["branch", tok.name, optIdentS label]
    | .ret e => par ["return", dumpOptExpr e]
    | .export e => par ["export", dumpExpr e]
    | .empty imp => par ["empty", b01 imp]
    | .bad => "(badstmt)"
  def dumpStmts : Stmts → List String
    | .nil => []
    | .cons x xs => dumpStmt x :: dumpStmts xs
  def dumpOptStmt : OptStmt → String
    | .none => "nil"
    | .some x => dumpStmt x
end

def dumpFile (ss : Stmts) : String := par ["file", par (dumpStmts ss)]

def withSrc (args : List Sexp) (k : Oracle → Bs → String) : String :=
  match args with
  | b :: rest =>
    match b.asBytes? with
    | some src => k (oracleOf rest) src
    | none => "bad-op"
  | _ => "bad-op"

def handleParse (args : List Sexp) : String :=
  withSrc args fun o src =>
    match parseFile o.fo o.cls src with
    | some ss => "ok " ++ dumpFile ss
    | none => "error"

def handlePrint (args : List Sexp) : String :=
  withSrc args fun o src =>
    match parseFile o.fo o.cls src with
    | some ss => "ok " ++ hx (printFile ss)
    | none => "error"

def handleIntLit (args : List Sexp) : String :=
  withSrc args fun _ lit =>
    match parseInt0 lit with
    | .ok v => "ok " ++ toString v
    | .range => "range"
    | .syntax => "syntax"

def handleFloatOk (args : List Sexp) : String :=
  withSrc args fun _ lit => b01 (floatSyntaxOk lit)

def handleCharLit (args : List Sexp) : String :=
  withSrc args fun _ lit =>
    match charValue lit with
    | some v => "ok " ++ toString v
    | none => "bad"

def handleStrLit (args : List Sexp) : String :=
  withSrc args fun _ lit =>
    match unquote lit with
    | some v => "ok " ++ hx v
    | none => "bad"

def handlers : List (String × (List Sexp → String)) :=
  [("scan", handleScan), ("parse", handleParse), ("print", handlePrint), ("intlit", handleIntLit),
   ("floatok", handleFloatOk), ("charlit", handleCharLit), ("strlit", handleStrLit)]

end Tengo.Drivers.C20

import Tengo.Sexp
import Tengo.Model.SpecEval
/-!
`(spec <fuel> ((#name <value>)…) <file-ast>)` → one of
`ok (#name <value>)…` (sorted by name) | `cerr #msg` | `rerr #msg` | `panic #msg` |
`unsupported <why>` | `excluded <why>` | `fuel`.
Values use the canonical format of harness/lib/canon.go.
-/
namespace Tengo.Drivers.C01
open Tengo Tengo.Model.Spec

def hexOfString (s : String) : String := Sexp.hexOfBytes s.toUTF8.toList

/-- Canonical rendering (maps are stored sorted). -/
def showValue : Nat → St → Value → String
  | 0, _, _ => "(deep)"
  | d + 1, st, v =>
    let elems (r : Nat) : List Value :=
      match st.heap[r]? with
      | some (.arr s off len) =>
        match st.heap[s]? with
        | some (.store vs _) => (vs.toList.drop off).take len
        | _ => []
      | _ => []
    let entries (r : Nat) : List (Bytes × Value) :=
      match st.heap[r]? with
      | some (.map kvs) => kvs
      | _ => []
    let showList (vs : List Value) : String := String.join (vs.map (fun x => " " ++ showValue d st x))
    let showMap (kvs : List (Bytes × Value)) : String :=
      String.join (kvs.map (fun (k, x) => " (#" ++ Sexp.hexOfBytes k ++ " " ++ showValue d st x ++ ")"))
    match v with
    | .undef => "u"
    | .bool b => if b then "(b 1)" else "(b 0)"
    | .int n => s!"(i {n})"
    | .float f => if f.isNaN then "(f 9221120237041090561)" else s!"(f {f.toBits.toNat})"
    | .char c => s!"(c {c})"
    | .str b => "(s #" ++ Sexp.hexOfBytes b ++ ")"
    | .bytes b => "(y #" ++ Sexp.hexOfBytes b ++ ")"
    | .arr r => "(a" ++ showList (elems r) ++ ")"
    | .imarr r => "(ia" ++ showList (elems r) ++ ")"
    | .map r => "(m" ++ showMap (entries r) ++ ")"
    | .immap r => "(im" ++ showMap (entries r) ++ ")"
    | .err r =>
      match st.heap[r]? with
      | some (.err x) => "(e " ++ showValue d st x ++ ")"
      | _ => "(e ?)"
    | .fn _ => "(fn)"
    | .cfn _ => "(fn)"
    | .ptr _ => "(ptr)"
    | .iter r =>
      match st.heap[r]? with
      | some (.arrIt ..) => "(other #" ++ hexOfString "array-iterator" ++ ")"
      | some (.mapIt ..) => "(other #" ++ hexOfString "map-iterator" ++ ")"
      | some (.listIt 0 ..) => "(other #" ++ hexOfString "string-iterator" ++ ")"
      | some (.listIt 1 ..) => "(other #" ++ hexOfString "bytes-iterator" ++ ")"
      | some (.listIt ..) => "u"
      | _ => "(other #6974657261746f72)"
    | .builtin n => "(bf #" ++ hexOfString n ++ ")"

/-- Read an input value, allocating containers in the heap. -/
def readValue : Nat → Sexp → M (Option Value)
  | 0, _ => pure none
  | d + 1, s =>
    match s with
    | .atom "u" => pure (some .undef)
    | .list [.atom "b", x] => pure (x.asBool?.map Value.bool)
    | .list [.atom "i", x] => pure (x.asInt?.map Value.int)
    | .list [.atom "f", x] => pure (x.asNat?.map (fun n => Value.float (Float.ofBits (UInt64.ofNat n))))
    | .list [.atom "c", x] => pure (x.asInt?.map Value.char)
    | .list [.atom "s", x] => pure (x.asBytes?.map Value.str)
    | .list [.atom "y", x] => pure (x.asBytes?.map Value.bytes)
    | .list (.atom "a" :: xs) => do
        let vs ← xs.mapM (readValue d)
        if vs.all Option.isSome then pure (some (.arr (← newArray (vs.filterMap id)))) else pure none
    | .list (.atom "ia" :: xs) => do
        let vs ← xs.mapM (readValue d)
        if vs.all Option.isSome then pure (some (.imarr (← newArray (vs.filterMap id)))) else pure none
    | .list (.atom tag :: xs) =>
      if tag == "m" || tag == "im" then do
        let kvs ← xs.mapM (fun e => match e with
          | .list [k, v] => do
              match k.asBytes?, ← readValue d v with
              | some kb, some vv => pure (some (kb, vv))
              | _, _ => pure none
          | _ => pure none)
        if kvs.all Option.isSome then
          let r ← newMap (kvs.filterMap id)
          pure (some (if tag == "m" then .map r else .immap r))
        else pure none
      else if tag == "e" then
        match xs with
        | [x] => do
            match ← readValue d x with
            | some v => pure (some (.err (← alloc (.err v))))
            | none => pure none
        | _ => pure none
      else pure none
    | _ => pure none

/-- Hidden capacity at the final read-out (DESIGN Appendix B 15): is the store `p` — the store the result
of an `append` got — written since, directly or through further appends made from arrays over it? -/
def staleStore (st : St) : Nat → Nat → Bool
  | 0, _ => false
  | f + 1, p =>
    st.dirty.contains p ||
      (List.range st.heap.size).any (fun h =>
        match st.heap[h]? with
        | some (.arr p' _ _) =>
          p' == p && (match st.appendedFrom.lookup h with
            | some q => staleStore st f q
            | none => false)
        | _ => false)

/-- Does the value, as the host reads it after the run, contain an array to which `append` was applied
and whose result was modified afterwards? What such an array holds depends on spare capacity. -/
def staleValue : Nat → St → Value → Bool
  | 0, _, _ => false
  | d + 1, st, v =>
    let elems (r : Nat) : List Value :=
      match st.heap[r]? with
      | some (.arr s off len) =>
        match st.heap[s]? with
        | some (.store vs _) => (vs.toList.drop off).take len
        | _ => []
      | _ => []
    let here (r : Nat) : Bool :=
      match st.appendedFrom.lookup r with
      | some p => staleStore st 6 p
      | none => false
    match v with
    | .arr r | .imarr r => here r || (elems r).any (staleValue d st)
    | .map r | .immap r =>
      (match st.heap[r]? with
       | some (.map kvs) => kvs.any (fun kv => staleValue d st kv.2)
       | _ => false)
    | .err r =>
      (match st.heap[r]? with
       | some (.err x) => staleValue d st x
       | _ => false)
    | _ => false

def staleText : String := "excluded read-out_of_an_array_after_the_result_of_append_on_it_was_modified_(hidden_capacity)"

def insertByName (p : String × String) : List (String × String) → List (String × String)
  | [] => [p]
  | q :: qs => if p.1 ≤ q.1 then p :: q :: qs else q :: insertByName p qs

def atomize (s : String) : String := s.map (fun c => if c == ' ' || c == '(' || c == ')' || c == '\n' then '_' else c)

def handleSpec : List Sexp → String
  | [fuel, .list ins, ast] =>
    match fuel.asNat?, readFile ast with
    | some fuel, some ss =>
      let readIns : M (Option (List (String × Value))) := do
        let xs ← ins.mapM (fun e => match e with
          | .list [n, v] => do
              match n.asBytes?, ← readValue 64 v with
              | some nb, some vv => pure (some (nameOfBytes nb, vv))
              | _, _ => pure none
          | _ => pure none)
        pure (if xs.all Option.isSome then some (xs.filterMap id) else none)
      match readIns.run {} with
      | .ok (some inputs, st0) =>
        match runProgram fuel inputs st0 ss with
        | .ok gs st =>
          if gs.any (fun (_, v) => staleValue 64 st v) then staleText else
          let shown := gs.map (fun (n, v) => (n, showValue 64 st v))
          let sorted := shown.foldl (fun acc p => insertByName p acc) []
          "ok" ++ String.join (sorted.map (fun (n, v) => " (#" ++ hexOfString n ++ " " ++ v ++ ")"))
        | .compileErr m => "cerr #" ++ hexOfString m
        | .runtimeErr m => "rerr #" ++ hexOfString m
        | .goPanic m => "panic #" ++ hexOfString m
        | .unsupported w => "unsupported " ++ atomize w
        | .excluded w => "excluded " ++ atomize w
        | .fuel => "fuel"
      | _ => "bad-op inputs"
    | _, _ => "bad-op ast"
  | _ => "bad-op"

def handlers : List (String × (List Sexp → String)) := [("spec", handleSpec)]

end Tengo.Drivers.C01

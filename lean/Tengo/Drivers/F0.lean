import Tengo.Sexp
import Tengo.Model.F0Compile
import Tengo.Drivers.C01
/-!
`(f0 <file-ast>)` → `unsupported` | `ok #<main-bytes> <nconsts> <steps> <outcome>` where outcome is
`err` (machine stopped with a run-time error) or `done <value of global 0> …` (machine reached the end).
-/
namespace Tengo.Drivers.F0
open Tengo Tengo.Model.F0 Tengo.Model.Spec

/-- Run the F0 machine until `ip = stop`, counting dispatches. -/
def runTo (cs : Nat → Value) (code : List Ins) (stop : Nat) : Nat → Nat → St Value → Option (Nat × St Value)
  | 0, _, _ => none
  | f + 1, n, s =>
    if s.ip == stop then some (n, s)
    else match step specSem cs code s with
      | .next s' => runTo cs code stop f (n + 1) s'
      | _ => none

/-- Count dispatches until the error. -/
def stepsToErr (cs : Nat → Value) (code : List Ins) (stop : Nat) : Nat → Nat → St Value → Nat
  | 0, n, _ => n
  | f + 1, n, s =>
    if s.ip == stop then n
    else match step specSem cs code s with
      | .next s' => stepsToErr cs code stop f (n + 1) s'
      | _ => n + 1

def handleF0 : List Sexp → String
  | [ast] =>
    match readFile ast with
    | none => "bad-op ast"
    | some ss =>
      match compileMain ss with
      | none => "unsupported"
      | some (bytes, rs, st) =>
        let code := Tengo.Model.F1.compSs 0 st
        let stop := csize code
        let cs : Nat → Value := fun k => (rs.consts[k]?.map constValue).getD .undef
        let s0 : St Value := { ip := 0, stack := [], g := fun _ => .undef }
        let pre := "ok #" ++ Sexp.hexOfBytes bytes ++ " " ++ toString rs.consts.length ++ " "
        match runTo cs code stop 200000 0 s0 with
        | some (n, s) =>
          let vals := (List.range rs.nglob).map (fun i => Tengo.Drivers.C01.showValue 8 {} (s.g i))
          pre ++ toString (n + 1) ++ " done" ++ String.join (vals.map (fun v => " " ++ v))   -- +1: SUSPEND
        | none => pre ++ toString (stepsToErr cs code stop 200000 0 s0) ++ " err"
  | _ => "bad-op"

def handlers : List (String × (List Sexp → String)) := [("f0", handleF0)]

end Tengo.Drivers.F0

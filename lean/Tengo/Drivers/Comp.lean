import Tengo.Sexp
import Tengo.Model.Compiler
import Tengo.Proofs.C02CompileSize
/-!
Line protocol of the whole-compiler model:
`(compile (<#input-name>…) <file-ast>)` →
`ok #<main-hex> (<const>…) <maxGlobals>` with `<const>` = `(fn #hex numLocals numParams varargs)` |
`(v <canonical value>)` (format of harness/lib/canon.go) |
`cerr #<hex of the compiler's message>` | `panic <why>` | `unsupported <why>`.
-/
namespace Tengo.Drivers.Comp
open Tengo Tengo.Model.Compiler

/-- Messages hold one Char per source byte (`Spec.nameOfBytes`). -/
def latin1Bytes (s : String) : List UInt8 := s.toList.map (fun c => UInt8.ofNat c.toNat)

def isNaNBits (b : UInt64) : Bool :=
  (b >>> 52) &&& 0x7ff == 0x7ff && (b &&& 0xfffffffffffff) != 0

def showConst : Const → String
  | .int v => s!"(v (i {v}))"
  | .float b => if isNaNBits b then "(v (f 9221120237041090561))" else s!"(v (f {b.toNat}))"
  | .char v => s!"(v (c {v}))"
  | .str b => "(v (s #" ++ Sexp.hexOfBytes b ++ "))"
  | .fn code nl np va =>
    "(fn #" ++ Sexp.hexOfBytes code ++ s!" {nl} {np} " ++ (if va then "1" else "0") ++ ")"

def atomize (s : String) : String := s.map (fun c => if c == ' ' || c == '(' || c == ')' || c == '\n' then '_' else c)

def readNames : List Sexp → Option (List String)
  | [] => some []
  | x :: xs => do
      let b ← x.asBytes?
      let tl ← readNames xs
      pure (Tengo.Model.Spec.nameOfBytes b :: tl)

/-- `(file (stmts…))` read with a budget that admits long statement and element lists (the reader spends one
unit per list element; `Spec.readFile` stops at 4000). -/
def readFileDeep (s : Sexp) : Option (List Tengo.Model.Spec.Stmt) :=
  match s with
  | .list [.atom "file", .list ss] => Tengo.Model.Spec.readStmts 10000000 ss
  | _ => none

def handleCompile : List Sexp → String
  | [.list ins, ast] =>
    match readNames ins, readFileDeep ast with
    | some inputs, some ss =>
      match compileFile ss inputs with
      | .ok bc =>
        "ok #" ++ Sexp.hexOfBytes bc.main ++ " (" ++ " ".intercalate (bc.consts.map showConst) ++ ") " ++ toString bc.maxGlobals
      | .error (.err m) => "cerr #" ++ Sexp.hexOfBytes (latin1Bytes m)
      | .error (.panic w) => "panic " ++ atomize w
      | .error (.unsupported w) => "unsupported " ++ atomize w
    | _, _ => "unsupported unreadable-ast"
  | _ => "bad-op"

/-- `(compilebounds (<input names>) <ast>)` → `bounds 1` when the program satisfies the three size hypotheses of
`Tengo.Props.C02Compile.compile_verifies` / `compiled_never_faults` (raw code bound ≤ 2^30, at most 65536
constants and globals), `bounds 0` when not, `n/a` when the model does not compile it. -/
def handleCompileBounds : List Sexp → String
  | [.list ins, ast] =>
    match readNames ins, readFileDeep ast with
    | some inputs, some ss =>
      match compileFile ss inputs with
      | .ok bc =>
        if codeBound ss ≤ 2 ^ 30 && bc.consts.length ≤ 65536 && bc.maxGlobals ≤ 65536 then "bounds 1" else "bounds 0"
      | _ => "n/a"
    | _, _ => "n/a"
  | _ => "bad-op"

def handlers : List (String × (List Sexp → String)) :=
  [("compile", handleCompile), ("compilebounds", handleCompileBounds)]

end Tengo.Drivers.Comp

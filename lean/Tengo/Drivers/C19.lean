import Tengo.Sexp
import Tengo.Model.Stdlib
/-!
Line protocol of the stdlib adapter model.

`(adapter <Kind> <mode> <pad> <maxString> <maxBytes> (arg…))` → `<out> <digest|->`

* `Kind`  adapter name without `Func` (e.g. `ASSRS`)
* `mode`  `val` | `err`: whether the probe function returns a Go error (where its type has one)
* `pad`   the probe appends `pad` bytes `x` to string/bytes results (to cross the limits)
* args    `(i n)` `(f bits #shown)` `(s #hex x|bits)` (ParseFloat result of the text) `(b 0|1)` `(c n)` `(y #hex)` `u`
          `(a 0|1 #shown arg…)` `(o #typename #shown)`
* out     `err wrong-num-args | err invalid-arg #name #expected #found | err string-limit | err bytes-limit |
          err ill-typed` or the canonical value (`u`, `(i n)`, `(f bits)`, `(b 0|1)`, `(s #hex)`, `(y #hex)`, `(a …)`, `(e (s #hex))`)
* digest  digest of the arguments the wrapped function was called with (`-` if it was not called)

The probe function's result is a function of the digest of its arguments (same code in harness/cmd/c19).
-/
namespace Tengo.Drivers.C19
open Tengo Tengo.Model.Stdlib

structure Parsed where
  vals : List Value := []
  pf : List (Bytes × Option Nat) := []
  ff : List (Nat × Bytes) := []

mutual
  def parseVal : Sexp → Option (Value × List (Bytes × Option Nat) × List (Nat × Bytes))
    | Sexp.atom "u" => some (.undef, [], [])
    | Sexp.list [Sexp.atom "i", n] => do let v ← n.asInt?; pure (.int v, [], [])
    | Sexp.list [Sexp.atom "f", b, sh] => do
        let bits ← b.asNat?; let s ← sh.asBytes?
        pure (.float bits, [], [(bits, s)])
    | Sexp.list [Sexp.atom "s", h, p] => do
        let s ← h.asBytes?
        let r : Option Nat := match p with | Sexp.atom "x" => none | q => q.asNat?
        pure (.str s, [(s, r)], [])
    | Sexp.list [Sexp.atom "b", x] => do let b ← x.asBool?; pure (.bool b, [], [])
    | Sexp.list [Sexp.atom "c", n] => do let v ← n.asInt?; pure (.char v, [], [])
    | Sexp.list [Sexp.atom "y", h] => do let s ← h.asBytes?; pure (.bytes s, [], [])
    | Sexp.list [Sexp.atom "o", tn, sh] => do
        let t ← tn.asBytes?; let s ← sh.asBytes?
        pure (.other (String.ofList (t.map (fun b => Char.ofNat b.toNat))) s, [], [])
    | Sexp.list (Sexp.atom "a" :: imm :: sh :: elems) => do
        let i ← imm.asBool?; let s ← sh.asBytes?
        let (xs, pf, ff) ← parseVals elems
        pure (.arr i xs s, pf, ff)
    | _ => none
  def parseVals : List Sexp → Option (List Value × List (Bytes × Option Nat) × List (Nat × Bytes))
    | [] => some ([], [], [])
    | x :: rest => do
        let (v, pf, ff) ← parseVal x
        let (vs, pf2, ff2) ← parseVals rest
        pure (v :: vs, pf ++ pf2, ff ++ ff2)
end

def mkOracle (pf : List (Bytes × Option Nat)) (ff : List (Nat × Bytes)) : Oracle :=
  { parseFloat := fun s => (pf.lookup s).getD none
    formatFloat := fun b => (ff.lookup b).getD [] }

/-! ### The probe function -/

def hexB (x : Bytes) : Bytes := ascii (Sexp.hexOfBytes x)

def renderArg : Arg → Bytes
  | .i v => ascii "i" ++ decimal v
  | .f b => ascii "f" ++ decimal (b : Nat)
  | .s x => ascii "s" ++ hexB x
  | .y x => ascii "y" ++ hexB x
  | .ss xs => ascii "l" ++ (xs.map (fun x => hexB x ++ ascii ",")).flatten

def digest (xs : List Arg) : Nat :=
  ((xs.map (fun a => renderArg a ++ ascii ";")).flatten).foldl (fun h b => (h * 131 + b.toNat) % 1000000007) 7

def padding (n : Nat) : Bytes := List.replicate n 120

def probeVal (rk : ResKind) (h pad : Nat) : Res :=
  match rk with
  | .none => .unit
  | .I | .I64 | .IE => .i ((h : Int) - 500000000)
  | .F => .f (0x4000000000000000 + h * 1024)
  | .B => .b (h % 2 == 1)
  | .S | .SE => .s (ascii "R" ++ decimal h ++ padding pad)
  | .YE => .y (ascii "R" ++ decimal h ++ padding pad)
  | .Ss | .SsE => .ss [ascii "a" ++ decimal h, padding pad]
  | .Is | .IsE => .is [(h : Int), -(h : Int), 0]
  | .E => .unit

def hasErr : ResKind → Bool
  | .E | .SE | .YE | .IE | .IsE | .SsE => true
  | _ => false

def probe (k : AdapterKind) (errMode : Bool) (pad : Nat) (xs : List Arg) : Res :=
  let h := digest xs
  if errMode && hasErr (sig k).2 then .err (ascii "E" ++ decimal h) else probeVal (sig k).2 h pad

/-! ### Output -/

def hexS (s : String) : String := "#" ++ Sexp.hexOfBytes (ascii s)
def hexY (b : Bytes) : String := "#" ++ Sexp.hexOfBytes b

def showRet : RetVal → String
  | .undef => "u"
  | .int v => "(i " ++ toString v ++ ")"
  | .float b => "(f " ++ toString b ++ ")"
  | .bool b => "(b " ++ (if b then "1" else "0") ++ ")"
  | .str s => "(s " ++ hexY s ++ ")"
  | .bytes s => "(y " ++ hexY s ++ ")"
  | .strs xs => "(a" ++ String.join (xs.map (fun s => " (s " ++ hexY s ++ ")")) ++ ")"
  | .ints xs => "(a" ++ String.join (xs.map (fun v => " (i " ++ toString v ++ ")")) ++ ")"
  | .error m => "(e (s " ++ hexY m ++ "))"

def showOut : Out → String
  | .runErr .wrongNumArgs => "err wrong-num-args"
  | .runErr (.invalidArg n e f) => "err invalid-arg " ++ hexS n ++ " " ++ hexS e ++ " " ++ hexS f
  | .runErr .stringLimit => "err string-limit"
  | .runErr .bytesLimit => "err bytes-limit"
  | .runErr .illTyped => "err ill-typed"
  | .val v => showRet v

def kindOf (s : String) : Option AdapterKind := allKinds.find? (fun k => kindName k == s)

def handleAdapter : List Sexp → String
  | [Sexp.atom kn, Sexp.atom mode, pad, ms, mb, Sexp.list args] =>
    match kindOf kn, pad.asNat?, ms.asNat?, mb.asNat?, parseVals args with
    | some k, some p, some maxS, some maxB, some (vs, pf, ff) =>
      let O := mkOracle pf ff
      let L : Limits := ⟨maxS, maxB⟩
      let fn := probe k (mode == "err") p
      let out := adapter O L k fn vs
      let called := if vs.length ≠ arity k then "-" else
        match coerceAll O k vs with
        | .ok xs => toString (digest xs)
        | .error _ => "-"
      showOut out ++ " " ++ called
    | _, _, _, _, _ => "bad-op"
  | _ => "bad-op"

def handlers : List (String × (List Sexp → String)) := [("adapter", handleAdapter)]

end Tengo.Drivers.C19

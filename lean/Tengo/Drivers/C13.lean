import Tengo.Sexp
import Tengo.Model.Modules
/-!
Line protocol of the import-resolution model.

`(modgraph <cfg> <env> <fs> <main>)`
  cfg  = `(allowFile #dir (#builtin…) (#hostVar…))`
  env  = `((#name s <parseErr> (item…)) | (#name b) …)`      item = `(i #n)` | `(r #n)` | `(d #n)`
  fs   = `((files (#path #dir <parseErr> (item…))…) (resolve (#dir #name #path)…))`
  main = `(item…)`
answers `ok (compiled #k…) (fetched #n…) (cache #k…) (fs N)` (chronological order) or
`cyclic #path …` | `notfound #name …` | `unresolved #x …` | `parse #path …` | `empty # …` |
`filepath #name …` | `fileread #path …` followed by the same three lists at the moment of the error.

`(modemit <isSource> k)` → instructions of the import expression; `(modexport)` → of the export statement.
`(modrun ticks (export v | none | topreturn v) times)` → values of `times` evaluations and the effect count.
Names travel as `#hex` (bytes ↔ chars below 256).
-/
namespace Tengo.Drivers.C13
open Tengo Tengo.Model.Modules

def strOf (s : Sexp) : Option String := do
  let bs ← s.asBytes?
  pure (String.ofList (bs.map (fun b => Char.ofNat b.toNat)))

def hexOf (s : String) : String := "#" ++ Sexp.hexOfBytes (s.toList.map (fun c => UInt8.ofNat c.toNat))

def strs : List Sexp → Option (List String)
  | [] => some []
  | x :: r => do
    let a ← strOf x
    let tl ← strs r
    pure (a :: tl)

def item : Sexp → Option Item
  | .list [.atom "i", n] => do pure (.imp (← strOf n))
  | .list [.atom "r", n] => do pure (.ref (← strOf n))
  | .list [.atom "d", n] => do pure (.defn (← strOf n))
  | _ => none

def items : List Sexp → Option (List Item)
  | [] => some []
  | x :: r => do
    let a ← item x
    let tl ← items r
    pure (a :: tl)

def envOf : List Sexp → Option Env
  | [] => some []
  | .list [n, .atom "b"] :: r => do
    let nm ← strOf n
    let tl ← envOf r
    pure ((nm, .builtin) :: tl)
  | .list [n, .atom "s", pe, .list its] :: r => do
    let nm ← strOf n
    let p ← pe.asBool?
    let is ← items its
    let tl ← envOf r
    pure ((nm, .src ⟨p, is⟩) :: tl)
  | _ => none

def filesOf : List Sexp → Option (List (String × Body) × List (String × String))
  | [] => some ([], [])
  | .list [p, d, pe, .list its] :: r => do
    let path ← strOf p
    let dir ← strOf d
    let perr ← pe.asBool?
    let is ← items its
    let (fs, ds) ← filesOf r
    pure ((path, ⟨perr, is⟩) :: fs, (path, dir) :: ds)
  | _ => none

def resolveOf : List Sexp → Option (List ((String × String) × String))
  | [] => some []
  | .list [d, n, p] :: r => do
    let dir ← strOf d
    let nm ← strOf n
    let path ← strOf p
    let tl ← resolveOf r
    pure (((dir, nm), path) :: tl)
  | _ => none

def fsOf : Sexp → Option FS
  | .list [.list (.atom "files" :: fl), .list (.atom "resolve" :: rl)] => do
    let (fs, ds) ← filesOf fl
    let rs ← resolveOf rl
    pure { files := fs, resolve := rs, dirs := ds }
  | _ => none

def cfgOf : Sexp → Option Cfg
  | .list [a, d, .list bs, .list hs] => do
    let allow ← a.asBool?
    let dir ← strOf d
    let b ← strs bs
    let h ← strs hs
    pure { allowFileImport := allow, importDir := dir, builtins := b, hostVars := h }
  | _ => none

def showList (tag : String) (xs : List String) : String :=
  "(" ++ tag ++ (xs.reverse.foldl (fun acc x => acc ++ " " ++ hexOf x) "") ++ ")"

def showSt (st : St) : String :=
  showList "compiled" st.compiled ++ " " ++ showList "fetched" st.fetched ++ " " ++ showList "cache" st.cache ++
    " (fs " ++ toString st.fsLog.length ++ ")"

def showErr : Err → String
  | .emptyName => "empty #"
  | .cyclic p => "cyclic " ++ hexOf p
  | .notFound n => "notfound " ++ hexOf n
  | .unresolved x => "unresolved " ++ hexOf x
  | .parse p => "parse " ++ hexOf p
  | .filePath n => "filepath " ++ hexOf n
  | .fileRead p => "fileread " ++ hexOf p

def handleGraph : List Sexp → String
  | [c, .list e, f, .list m] =>
    match cfgOf c, envOf e, fsOf f, items m with
    | some cfg, some env, some fs, some main =>
      match compileGraph cfg env fs main with
      | .ok st => "ok " ++ showSt st
      | .error (err, st) => showErr err ++ " " ++ showSt st
    | _, _, _, _ => "bad-op"
  | _ => "bad-op"

def showInstr : Instr → String
  | .const k => "(const " ++ toString k ++ ")"
  | .call a b => "(call " ++ toString a ++ " " ++ toString b ++ ")"
  | .immutable => "(immutable)"
  | .ret n => "(ret " ++ toString n ++ ")"
  | .tick => "(tick)"
  | .push v => "(push " ++ toString v ++ ")"

def handleEmit : List Sexp → String
  | [s, k] =>
    match s.asBool?, k.asNat? with
    | some b, some n => "ok " ++ " ".intercalate ((emitImport b n).map showInstr)
    | _, _ => "bad-op"
  | _ => "bad-op"

def handleExport : List Sexp → String
  | [] => "ok " ++ " ".intercalate (emitExport.map showInstr)
  | _ => "bad-op"

def endingOf : Sexp → Option Ending
  | .list [.atom "export", v] => do pure (.export (← v.asNat?))
  | .list [.atom "none"] => some .none
  | .list [.atom "topreturn", v] => do pure (.topReturn (← v.asNat?))
  | _ => none

def showVal : Val → String
  | .undefined => "undefined"
  | .mutable v => "(mut " ++ toString v ++ ")"
  | .immutable v => "(imm " ++ toString v ++ ")"

def handleRun : List Sexp → String
  | [t, e, n] =>
    match t.asNat?, endingOf e, n.asNat? with
    | some ticks, some ending, some times =>
      let (vs, c) := evalImports (moduleCode ticks ending) times 0
      "ok (" ++ " ".intercalate (vs.map showVal) ++ ") " ++ toString c
    | _, _, _ => "bad-op"
  | _ => "bad-op"

def handlers : List (String × (List Sexp → String)) :=
  [("modgraph", handleGraph), ("modemit", handleEmit), ("modexport", handleExport), ("modrun", handleRun)]

end Tengo.Drivers.C13

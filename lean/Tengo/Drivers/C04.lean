import Tengo.Sexp
import Tengo.Model.Total
/-!
Line protocol of the C04 models (the `scan` / `parse` lines of `Drivers.C20` are reused as they are):

  (c04pos #<src> (off …))  → ok <number of lines> ((line column) …)
      line table of source_file.go as the scanner fills it, and `Position` of each file-relative offset
-/
namespace Tengo.Drivers.C04
open Tengo Tengo.Model.Total

def natList : List Sexp → Option (List Nat)
  | [] => some []
  | x :: rest => do
    let n ← x.asNat?
    let tl ← natList rest
    pure (n :: tl)

def handlePos : List Sexp → String
  | [b, Sexp.list offs] =>
    match b.asBytes?, natList offs with
    | some src, some os =>
      let lines := Pos.lineTable src
      "ok " ++ toString lines.length ++ " (" ++ " ".intercalate (os.map (fun o =>
        let p := Pos.position lines o
        "(" ++ toString p.line ++ " " ++ toString p.column ++ ")")) ++ ")"
    | _, _ => "bad-op"
  | _ => "bad-op"

def handlers : List (String × (List Sexp → String)) := [("c04pos", handlePos)]

end Tengo.Drivers.C04

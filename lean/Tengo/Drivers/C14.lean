import Tengo.Sexp
import Tengo.Model.SrcPos
/-! Line protocol of the C14 model:
`(srcpos ((off pos)…) ip)` → `ok <pos>` (`SourcePos(ip)`),
`(report <op> <instr-start> ((off pos)…))` → `ok <pos>` (position `VM.Run` reports when the instruction with
opcode byte `op` starting at `instr-start` sets `v.err`) or `no-error-site`,
`(frametrace ((ip (off pos)…)…) vip)` → `ok (<pos>…)`: frames outermost first, each with its saved ip and map. -/
namespace Tengo.Drivers.C14
open Tengo Tengo.Model.SrcPos

def parsePairs : List Sexp → Option (List (Nat × Nat))
  | [] => some []
  | Sexp.list [a, b] :: rest => do
      let x ← a.asNat?
      let y ← b.asNat?
      let tl ← parsePairs rest
      pure ((x, y) :: tl)
  | _ => none

def handleSrcpos : List Sexp → String
  | [Sexp.list sm, ip] =>
    match parsePairs sm, ip.asNat? with
    | some m, some i => "ok " ++ toString (sourcePos m i)
    | _, _ => "bad-op"
  | _ => "bad-op"

def handleReport : List Sexp → String
  | [op, start, Sexp.list sm] =>
    match op.asNat?, start.asNat?, parsePairs sm with
    | some o, some p, some m =>
      match reportAt m o p with
      | some r => "ok " ++ toString r
      | none => "no-error-site"
    | _, _, _ => "bad-op"
  | _ => "bad-op"

def parseFrames : List Sexp → Option (List Frame)
  | [] => some []
  | Sexp.list (ip :: sm) :: rest => do
      let i ← ip.asNat?
      let m ← parsePairs sm
      let tl ← parseFrames rest
      pure ({ sm := m, ip := i } :: tl)
  | _ => none

def handleTrace : List Sexp → String
  | [Sexp.list fs, vip] =>
    match parseFrames fs, vip.asNat? with
    | some frames, some v => "ok (" ++ " ".intercalate ((runTrace frames v).map toString) ++ ")"
    | _, _ => "bad-op"
  | _ => "bad-op"

def handlers : List (String × (List Sexp → String)) :=
  [("srcpos", handleSrcpos), ("report", handleReport), ("frametrace", handleTrace)]

end Tengo.Drivers.C14

import Tengo.Props.C02Compile
import Tengo.Props.C12Univ
import Tengo.Proofs.C12Source
import Tengo.Proofs.C12SourceFloat
/-!
C12 at the SOURCE level: **for every source program that the compiler model compiles (within the
operand-width bounds), de-duplicating the constants of the compiled program preserves behaviour on the
whole-VM model.**

Composition of
* `Tengo.Model.Compiler.compileFile` (the model of the whole compiler) and the structural facts of
  `compile_verifies` (`Tengo.Props.C02Compile`, `Tengo/Proofs/C02Compile*.lean`), with
* the universal de-duplication theorems of `Tengo.Props.C12Univ` (`DedupPre ptr code` ⇒ the `Dedup` model does
  not panic, and the original and the de-duplicated program run alike on `Tengo.Model.VM.run`).

The link is `compiled_dedup_pre`: the compiled program, as the driver runs it
(`compiledCode bc = (initFobjs (toCode bc)).1`), meets `DedupPre id`. It is NOT derived from the acceptance
`checkProgram … = true` of `compile_verifies`: the verifier says nothing about instructions its height table
does not reach nor about function constants no instruction refers to (a function literal after `return`: its
CLOSURE is removed as dead code, the constant stays in the pool), whereas `updateConstIndexes` rewrites every
instruction of every function constant. It is derived from the facts behind `compile_verifies`: every function
is (the optimizer's output for) a closed block (`Tengo/Proofs/C12Source.lean`).

Hypotheses of every theorem: `compileFile ss inputs = .ok bc` and the three size bounds of `compile_verifies`
(`codeBound ss ≤ 2 ^ 30`, at most 65536 constants, at most 65536 globals — operands are truncated to their
widths otherwise). Pointer identity: `ptr = id`, every function constant its own pointer (the compiler creates
a fresh `*CompiledFunction` per function literal; the model has no imports).

Floats. The compiler model creates one constant per literal occurrence, a float constant being
`Float.ofBits b` for the bit pattern `b` the AST carries. In this toolchain `Float` is determined by its bit
pattern (`float_ext`), so equal literals ARE the same `Float`, and `FloatsOK` fails only when the pool holds both
`+0.0` and `-0.0` (which Go's `==` identifies: the known finding C12-F3; the parser never produces a `-0.0`
literal, but an AST can carry one — `negZeroDemo` below). Hence
* the theorems `compiled_dedup_run` … take `FloatsOK (toCode bc)`, which is decidable (`floatsOKB_iff`) and
  follows from `noNegZeroB (toCode bc) = true` (no `-0.0` constant) or from the older, stronger
  `floatsDistinctB (toCode bc) = true` (`compiled_floatsOK_of_noNegZero`, `compiled_floatsOK_of_distinct`);
* the theorems `compiled_dedup_run_expand` … need no float hypothesis: they speak about
  `expandVals (compiledCode bc) code' m`, which is the compiled program except that a zero float constant may
  have the other sign (`compiled_expand_const`), and which IS the compiled program when `FloatsOK`
  (`compiled_expand_eq_self`).
-/
set_option linter.unusedSectionVars false
set_option linter.unusedVariables false
namespace Tengo.Props.C12Source
open Tengo.Model Tengo.Model.Spec Tengo.Model.VM
open Tengo.Model.Compiler (compileFile Bytecode')
open Tengo.Proofs.C02Compile (toCode toCodeR)
open Tengo.Proofs.C12Renum Tengo.Proofs.C12Source Tengo.Props.C12VM Tengo.Props.C12Univ

abbrev codeBound := Tengo.Model.Compiler.codeBound

/-- The compiled program as the driver runs it: the function constants that a CONST instruction loads get
their function objects (`VM.initFobjs`), everything else is `toCode bc`. -/
abbrev compiledCode (bc : Bytecode') : Code := (initFobjs (toCode bc)).1
/-- … and its initial function objects. -/
abbrev compiledFobjs (bc : Bytecode') : Array FnObj := (initFobjs (toCode bc)).2

section source
variable {ss : List Stmt} {inputs : List String} {bc : Bytecode'}
  (h : compileFile ss inputs = .ok bc) (hsz : codeBound ss ≤ 2 ^ 30)
  (hconsts : bc.consts.length ≤ 65536) (hglobals : bc.maxGlobals ≤ 65536)
include h hsz hconsts hglobals

/-! ## 1. Compiled programs meet the precondition -/

/-- **compiled_dedup_pre.** Whatever the compiler model emits meets the precondition of the universal
de-duplication theorems: at most 65536 constants; the main function and EVERY function constant decode, are not
empty, have their CONST / CLOSURE operands inside the pool and their CLOSURE operands on function constants,
their jumps on instruction starts, and no instruction that can fall through at the end; function constants are
distinct pointers. -/
theorem compiled_dedup_pre : DedupPre id (compiledCode bc) :=
  Tengo.Proofs.C12Source.compiled_dedup_pre h (by unfold codeBound Compiler.codeBound at hsz; omega) hconsts hglobals

/-- … with arbitrary heap identities of the function constants (`toCode bc` is `refs = fun _ => 0`). -/
theorem compiled_dedup_pre_refs (refs : Nat → Nat) : DedupPre id (toCodeR refs bc) :=
  compiled_dedup_pre_R h (by unfold codeBound Compiler.codeBound at hsz; omega) hconsts hglobals refs

/-- **compiled_dedup_exists.** The `Dedup` model (`RemoveDuplicates` + `updateConstIndexes`) does not panic on
compiled code, and its index map is defined on every constant. -/
theorem compiled_dedup_exists :
    ∃ code' m, dedupCode id (compiledCode bc) = some (code', m) ∧ m.length = bc.consts.length := by
  obtain ⟨code', m, h1, h2⟩ := deduplicated_exists (compiled_dedup_pre h hsz hconsts hglobals)
  exact ⟨code', m, h1, by rw [h2]; exact initFobjs_size bc⟩

/-- The de-duplicated program passes the renumbering check against the compiled program (no float hypothesis). -/
theorem compiled_dedup_checks {code' : Code} {m : List Nat} (hd : dedupCode id (compiledCode bc) = some (code', m)) :
    checkRenum (compiledCode bc) code' m (codeStarts (compiledCode bc)) = true :=
  (deduplicated_checks (compiled_dedup_pre h hsz hconsts hglobals) hd).1

/-! ## 2. With `FloatsOK`: the compiled program and its de-duplicated form run alike -/

section floats
variable (hfl : FloatsOK (toCode bc)) {code' : Code} {m : List Nat}
  (hd : dedupCode id (compiledCode bc) = some (code', m))
  (keep keep' fuel : Nat) (allocs : Int) (globals : Array Value) (fobjs : Array FnObj) (g : GSt) (heap : St)
include hfl hd

/-- The de-duplicated program is the renumbering of the compiled program. -/
theorem compiled_dedup_renum :
    Renum (compiledCode bc) code' (cmOf m code'.consts.size) (codeStarts (compiledCode bc)) :=
  deduplicated_renum (compiled_dedup_pre h hsz hconsts hglobals) (floatsOK_initFobjs hfl) hd

/-- **compiled_dedup_run.** For every source program the model compiles: the compiled program and its
de-duplicated form take the same number of dispatches, perform the same number of tracked allocations and end in
corresponding outcomes, from the initial configuration, for every fuel, allocation budget, globals, heap and
initial function objects `fobjs` (renumbered on the right; the driver's are `compiledFobjs bc`). -/
theorem compiled_dedup_run :
    OutcomeRelC (cmOf m code'.consts.size) (codeStarts (compiledCode bc))
        (run (compiledCode bc) keep fuel allocs ⟨initCore globals fobjs, g, heap⟩ {}).1
        (run code' keep' fuel allocs ⟨initCore globals (fobjs.map (mapFobj (cmOf m code'.consts.size))), g, heap⟩ {}).1 ∧
      (run code' keep' fuel allocs ⟨initCore globals (fobjs.map (mapFobj (cmOf m code'.consts.size))), g, heap⟩ {}).2.steps =
        (run (compiledCode bc) keep fuel allocs ⟨initCore globals fobjs, g, heap⟩ {}).2.steps ∧
      (run code' keep' fuel allocs ⟨initCore globals (fobjs.map (mapFobj (cmOf m code'.consts.size))), g, heap⟩ {}).2.counted =
        (run (compiledCode bc) keep fuel allocs ⟨initCore globals fobjs, g, heap⟩ {}).2.counted :=
  deduplicated_run (compiled_dedup_pre h hsz hconsts hglobals) (floatsOK_initFobjs hfl) hd
    keep keep' fuel allocs globals fobjs g heap

/-- **compiled_dedup_same_result.** If the compiled program halts, the de-duplicated program halts after the
same number of dispatches with the same stack, `sp`, globals and heap (and the renumbered function objects). -/
theorem compiled_dedup_same_result (cfg : Cfg)
    (hh : (run (compiledCode bc) keep fuel allocs ⟨initCore globals fobjs, g, heap⟩ {}).1 = .halted cfg) :
    ∃ cfg', (run code' keep' fuel allocs
          ⟨initCore globals (fobjs.map (mapFobj (cmOf m code'.consts.size))), g, heap⟩ {}).1 = .halted cfg' ∧
      cfg'.core.regs.stack = cfg.core.regs.stack ∧ cfg'.core.regs.sp = cfg.core.regs.sp ∧
      cfg'.core.regs.globals = cfg.core.regs.globals ∧
      cfg'.core.regs.fobjs = cfg.core.regs.fobjs.map (mapFobj (cmOf m code'.consts.size)) ∧
      cfg'.gst = cfg.gst ∧ cfg'.heap = cfg.heap ∧
      (run code' keep' fuel allocs
          ⟨initCore globals (fobjs.map (mapFobj (cmOf m code'.consts.size))), g, heap⟩ {}).2.steps =
        (run (compiledCode bc) keep fuel allocs ⟨initCore globals fobjs, g, heap⟩ {}).2.steps :=
  deduplicated_same_result (compiled_dedup_pre h hsz hconsts hglobals) (floatsOK_initFobjs hfl) hd
    keep keep' fuel allocs globals fobjs g heap cfg hh

/-- **compiled_dedup_same_error.** If the compiled program fails with error `e` while dispatching the
instruction at offset `ip + 1` of function `idx`, the de-duplicated program fails with the same `e`, the same
stack, globals and heap, at the same offset of the same function (constant `k` is constant `m[k]`), with the
same caller frames. -/
theorem compiled_dedup_same_error (e : Err) (cfg : Cfg)
    (hh : (run (compiledCode bc) keep fuel allocs ⟨initCore globals fobjs, g, heap⟩ {}).1 = .failed e cfg) :
    ∃ cfg', (run code' keep' fuel allocs
          ⟨initCore globals (fobjs.map (mapFobj (cmOf m code'.consts.size))), g, heap⟩ {}).1 = .failed e cfg' ∧
      cfg' = mapCfgC (cmOf m code'.consts.size) cfg ∧
      cfg'.core.regs.stack = cfg.core.regs.stack ∧ cfg'.core.regs.sp = cfg.core.regs.sp ∧
      cfg'.core.regs.globals = cfg.core.regs.globals ∧ cfg'.gst = cfg.gst ∧ cfg'.heap = cfg.heap ∧
      cfg'.core.cur.fnIdx = fim (cmOf m code'.consts.size) cfg.core.cur.fnIdx ∧ cfg'.core.cur.ip = cfg.core.cur.ip ∧
      cfg'.core.callers.map (fun fr => (fr.fnIdx, fr.ip, fr.bp)) =
        cfg.core.callers.map (fun fr => (fim (cmOf m code'.consts.size) fr.fnIdx, fr.ip, fr.bp)) ∧
      ∃ p : Nat, cfg.core.cur.ip + 1 = p ∧ p ∈ codeStarts (compiledCode bc) cfg.core.cur.fnIdx :=
  deduplicated_same_error (compiled_dedup_pre h hsz hconsts hglobals) (floatsOK_initFobjs hfl) hd
    keep keep' fuel allocs globals fobjs g heap e cfg hh

/-- **compiled_dedup_same_kind.** Both end in the same kind of outcome (halt, the same error, the same internal
fault, allocation limit, out of fuel). -/
theorem compiled_dedup_same_kind :
    match (run (compiledCode bc) keep fuel allocs ⟨initCore globals fobjs, g, heap⟩ {}).1,
          (run code' keep' fuel allocs
            ⟨initCore globals (fobjs.map (mapFobj (cmOf m code'.consts.size))), g, heap⟩ {}).1 with
    | .halted _, .halted _ => True
    | .failed e _, .failed e' _ => e' = e
    | .fault ft _, .fault ft' _ => ft' = ft
    | .limit _, .limit _ => True
    | .outOfFuel _, .outOfFuel _ => True
    | _, _ => False :=
  deduplicated_same_kind (compiled_dedup_pre h hsz hconsts hglobals) (floatsOK_initFobjs hfl) hd
    keep keep' fuel allocs globals fobjs g heap

/-- **compiled_dedup_never_faults** (with `compiled_never_faults` of C02): the de-duplicated form of a compiled
program, started as the driver starts it, never ends in an internal fault either. -/
theorem compiled_dedup_never_faults (hG : globals.size = bc.maxGlobals) :
    ∀ ft at_, (run code' keep' fuel allocs
      ⟨initCore globals ((compiledFobjs bc).map (mapFobj (cmOf m code'.consts.size))), g, heap⟩ {}).1 ≠ .fault ft at_ := by
  intro ft at_ he
  have hk := compiled_dedup_same_kind h hsz hconsts hglobals hfl hd keep' keep' fuel allocs globals (compiledFobjs bc) g heap
  have hnf := (Tengo.Props.C02Compile.compiled_never_faults ss inputs bc h hsz hconsts hglobals globals hG
    keep' fuel allocs g heap).1
  rw [he] at hk
  split at hk
  · rename_i h1 h2; cases h2
  · rename_i h1 h2; cases h2
  · rename_i ft0 c0 ft1 c1 h1 h2; exact hnf ft0 c0 h1
  · rename_i h1 h2; cases h2
  · rename_i h1 h2; cases h2
  · exact hk

end floats

/-! ## 3. Without any float hypothesis: through `expandVals` -/

section expand
variable {code' : Code} {m : List Nat} (hd : dedupCode id (compiledCode bc) = some (code', m))
  (keep keep' fuel : Nat) (allocs : Int) (globals : Array Value) (fobjs : Array FnObj) (g : GSt) (heap : St)
include hd

/-- The compiled program with every value constant `k` read from the de-duplicated pool at `m[k]` is renumbered
by the de-duplicated program — whatever the float constants. -/
theorem compiled_dedup_renum_expand :
    Renum (expandVals (compiledCode bc) code' m) code' (cmOf m code'.consts.size) (codeStarts (compiledCode bc)) :=
  deduplicated_renum_expand (compiled_dedup_pre h hsz hconsts hglobals) hd

/-- **What `expandVals` changes** on a compiled program: nothing but, possibly, the sign of float zeros —
same main function, as many constants, and constant `k` is constant `k` of the compiled program up to
`ConstUpToZero` (equal function constants with equal `ref`; equal values, or two float zeros). -/
theorem compiled_expand_const :
    (expandVals (compiledCode bc) code' m).main = (compiledCode bc).main ∧
    (expandVals (compiledCode bc) code' m).consts.size = (compiledCode bc).consts.size ∧
    ∀ (k : Nat) (c : Const), (compiledCode bc).consts[k]? = some c →
      ∃ c', (expandVals (compiledCode bc) code' m).consts[k]? = some c' ∧ ConstUpToZero c' c :=
  expand_const hd

/-- … and nothing at all when `FloatsOK`. -/
theorem compiled_expand_eq_self (hfl : FloatsOK (toCode bc)) :
    expandVals (compiledCode bc) code' m = compiledCode bc :=
  expand_eq_self (compiled_dedup_pre h hsz hconsts hglobals).ptr (floatsOK_initFobjs hfl) hd

/-- **compiled_dedup_run_expand.** `compiled_dedup_run` without a float hypothesis. -/
theorem compiled_dedup_run_expand :
    OutcomeRelC (cmOf m code'.consts.size) (codeStarts (compiledCode bc))
        (run (expandVals (compiledCode bc) code' m) keep fuel allocs ⟨initCore globals fobjs, g, heap⟩ {}).1
        (run code' keep' fuel allocs ⟨initCore globals (fobjs.map (mapFobj (cmOf m code'.consts.size))), g, heap⟩ {}).1 ∧
      (run code' keep' fuel allocs ⟨initCore globals (fobjs.map (mapFobj (cmOf m code'.consts.size))), g, heap⟩ {}).2.steps =
        (run (expandVals (compiledCode bc) code' m) keep fuel allocs ⟨initCore globals fobjs, g, heap⟩ {}).2.steps ∧
      (run code' keep' fuel allocs ⟨initCore globals (fobjs.map (mapFobj (cmOf m code'.consts.size))), g, heap⟩ {}).2.counted =
        (run (expandVals (compiledCode bc) code' m) keep fuel allocs ⟨initCore globals fobjs, g, heap⟩ {}).2.counted :=
  renumbered_run (compiled_dedup_renum_expand h hsz hconsts hglobals hd) keep keep' fuel allocs globals fobjs g heap

/-- **compiled_dedup_same_result_expand.** -/
theorem compiled_dedup_same_result_expand (cfg : Cfg)
    (hh : (run (expandVals (compiledCode bc) code' m) keep fuel allocs ⟨initCore globals fobjs, g, heap⟩ {}).1 =
      .halted cfg) :
    ∃ cfg', (run code' keep' fuel allocs
          ⟨initCore globals (fobjs.map (mapFobj (cmOf m code'.consts.size))), g, heap⟩ {}).1 = .halted cfg' ∧
      cfg'.core.regs.stack = cfg.core.regs.stack ∧ cfg'.core.regs.sp = cfg.core.regs.sp ∧
      cfg'.core.regs.globals = cfg.core.regs.globals ∧
      cfg'.core.regs.fobjs = cfg.core.regs.fobjs.map (mapFobj (cmOf m code'.consts.size)) ∧
      cfg'.gst = cfg.gst ∧ cfg'.heap = cfg.heap ∧
      (run code' keep' fuel allocs
          ⟨initCore globals (fobjs.map (mapFobj (cmOf m code'.consts.size))), g, heap⟩ {}).2.steps =
        (run (expandVals (compiledCode bc) code' m) keep fuel allocs ⟨initCore globals fobjs, g, heap⟩ {}).2.steps :=
  renum_same_result (compiled_dedup_renum_expand h hsz hconsts hglobals hd)
    keep keep' fuel allocs globals fobjs g heap cfg hh

/-- **compiled_dedup_same_error_expand.** -/
theorem compiled_dedup_same_error_expand (e : Err) (cfg : Cfg)
    (hh : (run (expandVals (compiledCode bc) code' m) keep fuel allocs ⟨initCore globals fobjs, g, heap⟩ {}).1 =
      .failed e cfg) :
    ∃ cfg', (run code' keep' fuel allocs
          ⟨initCore globals (fobjs.map (mapFobj (cmOf m code'.consts.size))), g, heap⟩ {}).1 = .failed e cfg' ∧
      cfg' = mapCfgC (cmOf m code'.consts.size) cfg ∧
      cfg'.core.regs.stack = cfg.core.regs.stack ∧ cfg'.core.regs.sp = cfg.core.regs.sp ∧
      cfg'.core.regs.globals = cfg.core.regs.globals ∧ cfg'.gst = cfg.gst ∧ cfg'.heap = cfg.heap ∧
      cfg'.core.cur.fnIdx = fim (cmOf m code'.consts.size) cfg.core.cur.fnIdx ∧ cfg'.core.cur.ip = cfg.core.cur.ip ∧
      cfg'.core.callers.map (fun fr => (fr.fnIdx, fr.ip, fr.bp)) =
        cfg.core.callers.map (fun fr => (fim (cmOf m code'.consts.size) fr.fnIdx, fr.ip, fr.bp)) ∧
      ∃ p : Nat, cfg.core.cur.ip + 1 = p ∧ p ∈ codeStarts (compiledCode bc) cfg.core.cur.fnIdx :=
  renum_same_error (compiled_dedup_renum_expand h hsz hconsts hglobals hd)
    keep keep' fuel allocs globals fobjs g heap e cfg hh

/-- **compiled_dedup_same_kind_expand.** -/
theorem compiled_dedup_same_kind_expand :
    match (run (expandVals (compiledCode bc) code' m) keep fuel allocs ⟨initCore globals fobjs, g, heap⟩ {}).1,
          (run code' keep' fuel allocs
            ⟨initCore globals (fobjs.map (mapFobj (cmOf m code'.consts.size))), g, heap⟩ {}).1 with
    | .halted _, .halted _ => True
    | .failed e _, .failed e' _ => e' = e
    | .fault ft _, .fault ft' _ => ft' = ft
    | .limit _, .limit _ => True
    | .outOfFuel _, .outOfFuel _ => True
    | _, _ => False :=
  renum_same_kind (compiled_dedup_renum_expand h hsz hconsts hglobals hd)
    keep keep' fuel allocs globals fobjs g heap

end expand
end source

/-! ## 4. The float hypothesis, decided -/

/-- `FloatsOK` of a compiled pool is decidable: it is what `floatsOKB` computes. -/
theorem compiled_floatsOK_iff (bc : Bytecode') : floatsOKB (toCode bc) = true ↔ FloatsOK (toCode bc) := floatsOKB_iff

/-- No `-0.0` constant in the compiled pool (the parser produces none): `FloatsOK` holds, however many equal
float literals the source has. -/
theorem compiled_floatsOK_of_noNegZero {bc : Bytecode'} (hz : noNegZeroB (toCode bc) = true) : FloatsOK (toCode bc) :=
  noNegZeroB_sound hz

/-- No two float constants that Go's `==` identifies (the sufficient condition of `Tengo.Props.C12Univ`). -/
theorem compiled_floatsOK_of_distinct {bc : Bytecode'} (hz : floatsDistinctB (toCode bc) = true) :
    FloatsOK (toCode bc) :=
  floatsDistinctB_sound hz

/-- `compiled_dedup_same_kind` stated with the decidable `floatsDistinctB`. -/
theorem compiled_dedup_same_kind_distinct {ss : List Stmt} {inputs : List String} {bc : Bytecode'}
    (h : compileFile ss inputs = .ok bc) (hsz : codeBound ss ≤ 2 ^ 30)
    (hconsts : bc.consts.length ≤ 65536) (hglobals : bc.maxGlobals ≤ 65536)
    (hfl : floatsDistinctB (toCode bc) = true) {code' : Code} {m : List Nat}
    (hd : dedupCode id (compiledCode bc) = some (code', m))
    (keep keep' fuel : Nat) (allocs : Int) (globals : Array Value) (fobjs : Array FnObj) (g : GSt) (heap : St) :
    match (run (compiledCode bc) keep fuel allocs ⟨initCore globals fobjs, g, heap⟩ {}).1,
          (run code' keep' fuel allocs
            ⟨initCore globals (fobjs.map (mapFobj (cmOf m code'.consts.size))), g, heap⟩ {}).1 with
    | .halted _, .halted _ => True
    | .failed e _, .failed e' _ => e' = e
    | .fault ft _, .fault ft' _ => ft' = ft
    | .limit _, .limit _ => True
    | .outOfFuel _, .outOfFuel _ => True
    | _, _ => False :=
  compiled_dedup_same_kind h hsz hconsts hglobals (compiled_floatsOK_of_distinct hfl) hd
    keep keep' fuel allocs globals fobjs g heap

/-- `compiled_dedup_run` stated with the decidable `noNegZeroB`. -/
theorem compiled_dedup_run_noNegZero {ss : List Stmt} {inputs : List String} {bc : Bytecode'}
    (h : compileFile ss inputs = .ok bc) (hsz : codeBound ss ≤ 2 ^ 30)
    (hconsts : bc.consts.length ≤ 65536) (hglobals : bc.maxGlobals ≤ 65536)
    (hfl : noNegZeroB (toCode bc) = true) {code' : Code} {m : List Nat}
    (hd : dedupCode id (compiledCode bc) = some (code', m))
    (keep keep' fuel : Nat) (allocs : Int) (globals : Array Value) (fobjs : Array FnObj) (g : GSt) (heap : St) :
    OutcomeRelC (cmOf m code'.consts.size) (codeStarts (compiledCode bc))
        (run (compiledCode bc) keep fuel allocs ⟨initCore globals fobjs, g, heap⟩ {}).1
        (run code' keep' fuel allocs ⟨initCore globals (fobjs.map (mapFobj (cmOf m code'.consts.size))), g, heap⟩ {}).1 ∧
      (run code' keep' fuel allocs ⟨initCore globals (fobjs.map (mapFobj (cmOf m code'.consts.size))), g, heap⟩ {}).2.steps =
        (run (compiledCode bc) keep fuel allocs ⟨initCore globals fobjs, g, heap⟩ {}).2.steps ∧
      (run code' keep' fuel allocs ⟨initCore globals (fobjs.map (mapFobj (cmOf m code'.consts.size))), g, heap⟩ {}).2.counted =
        (run (compiledCode bc) keep fuel allocs ⟨initCore globals fobjs, g, heap⟩ {}).2.counted :=
  compiled_dedup_run h hsz hconsts hglobals (compiled_floatsOK_of_noNegZero hfl) hd
    keep keep' fuel allocs globals fobjs g heap

/-! ## 5. Non-vacuity -/

/-- `a := 7; s := "A"; f := func(x) { return x + 7 }; b := f(7); t := "A" + s; u := 1.5 + 1.5`:
the int literal `7` three times (once inside the function literal), the string literal `"A"` twice, the float
literal `1.5` twice, one function literal. -/
def demo : List Stmt :=
  [ .assign "Define" [.ident "a"] [.int 7],
    .assign "Define" [.ident "s"] [.str [65]],
    .assign "Define" [.ident "f"] [.func false ["x"] [.ret (some (.bin "Add" (.ident "x") (.int 7)))]],
    .assign "Define" [.ident "b"] [.call false (.ident "f") [.int 7]],
    .assign "Define" [.ident "t"] [.bin "Add" (.str [65]) (.ident "s")],
    .assign "Define" [.ident "u"] [.bin "Add" (.float 0x3FF8000000000000) (.float 0x3FF8000000000000)] ]

/-- The model compiles `demo` (8 constants, 6 globals) within the bounds; no constant is `-0.0` (while
`floatsDistinctB` fails: the two `1.5` are merged); the `Dedup` model returns the index map
`[0, 1, 0, 2, 0, 1, 3, 3]` and a pool of 4 constants; the decidable precondition, evaluated, agrees with
`compiled_dedup_pre`. -/
theorem demo_facts : (match compileFile demo [] with
    | .ok bc => bc.consts.length == 8 && bc.maxGlobals == 6 &&
        decide (bc.consts.length ≤ 65536) && decide (bc.maxGlobals ≤ 65536) &&
        noNegZeroB (toCode bc) && floatsOKB (toCode bc) && !floatsDistinctB (toCode bc) &&
        checkDedupPre id (compiledCode bc) &&
        (match dedupCode id (compiledCode bc) with
         | some (code', m) => m == [0, 1, 0, 2, 0, 1, 3, 3] && code'.consts.size == 4 &&
             decide (code'.consts.size < (compiledCode bc).consts.size) &&
             checkRenum (compiledCode bc) code' m (codeStarts (compiledCode bc))
         | none => false)
    | .error _ => false) = true ∧ codeBound demo ≤ 2 ^ 30 := by
  constructor <;> decide +kernel

/-- The theorems, instantiated: whatever `compileFile` answers for `demo` and whatever the `Dedup` model makes of
it, the two programs end in the same kind of outcome — all hypotheses discharged. -/
example : ∀ bc, compileFile demo [] = .ok bc →
    (∃ code' m, dedupCode id (compiledCode bc) = some (code', m)) ∧
    ∀ code' m, dedupCode id (compiledCode bc) = some (code', m) →
      ∀ (keep keep' fuel : Nat) (allocs : Int) (globals : Array Value) (g : GSt) (heap : St),
        match (run (compiledCode bc) keep fuel allocs ⟨initCore globals (compiledFobjs bc), g, heap⟩ {}).1,
              (run code' keep' fuel allocs
                ⟨initCore globals ((compiledFobjs bc).map (mapFobj (cmOf m code'.consts.size))), g, heap⟩ {}).1 with
        | .halted _, .halted _ => True
        | .failed e _, .failed e' _ => e' = e
        | .fault ft _, .fault ft' _ => ft' = ft
        | .limit _, .limit _ => True
        | .outOfFuel _, .outOfFuel _ => True
        | _, _ => False := by
  intro bc h
  have hb := demo_facts.1
  rw [h] at hb
  simp only [Bool.and_eq_true, decide_eq_true_eq] at hb
  obtain ⟨⟨⟨⟨⟨⟨⟨⟨_, _⟩, hc⟩, hg⟩, hz⟩, _⟩, _⟩, _⟩, _⟩ := hb
  refine ⟨?_, ?_⟩
  · obtain ⟨code', m, hd, _⟩ := compiled_dedup_exists h demo_facts.2 hc hg
    exact ⟨code', m, hd⟩
  · intro code' m hd keep keep' fuel allocs globals g heap
    exact compiled_dedup_same_kind h demo_facts.2 hc hg (compiled_floatsOK_of_noNegZero hz) hd
      keep keep' fuel allocs globals (compiledFobjs bc) g heap

/-- A function literal after `return`: the optimizer removes its CLOSURE as dead code, the function constant
stays in the pool, no instruction refers to it — the verifier's tables need not cover it, `DedupPre` does. -/
def deadDemo : List Stmt :=
  [ .assign "Define" [.ident "f"] [.func false []
      [ .ret (some (.int 1)),
        .assign "Define" [.ident "g"] [.func false [] [.ret (some (.int 1))]] ]] ]

example : (match compileFile deadDemo [] with
    | .ok bc => bc.consts.length == 4 && checkDedupPre id (compiledCode bc) &&
        -- constant 2 (the inner function) is referred to by no instruction of the final code
        !((constLoaded (toCode bc)).contains 2) &&
        (match verifyProgram (toCode bc) bc.maxGlobals with
         | .ok t => !((referenced t).contains 2) && (t.tab 3).isNone
         | .error _ => false) &&
        (match dedupCode id (compiledCode bc) with
         | some (code', m) => m == [0, 0, 1, 2] && code'.consts.size == 3
         | none => false)
    | .error _ => false) = true := by decide +kernel

/-- **The float hypothesis is needed**: an AST with the literals `0.0` and `-0.0` (bit pattern
`0x8000000000000000`; the parser reads `-0.0` as a unary minus and never produces it) compiles to a pool with
both zeros, which `RemoveDuplicates` merges — `FloatsOK` is false, the `Dedup` model maps both to constant 0, and
`expandVals` is the compiled program with `-0.0` replaced by `0.0`. -/
def negZeroDemo : List Stmt :=
  [ .assign "Define" [.ident "p"] [.float 0],
    .assign "Define" [.ident "n"] [.float 0x8000000000000000] ]

theorem negZeroDemo_facts : (match compileFile negZeroDemo [] with
    | .ok bc => bc.consts.length == 2 && !floatsOKB (toCode bc) && !noNegZeroB (toCode bc) &&
        (match dedupCode id (compiledCode bc) with
         | some (code', m) => m == [0, 0] && code'.consts.size == 1
         | none => false)
    | .error _ => false) = true := by decide +kernel

example : ∀ bc, compileFile negZeroDemo [] = .ok bc → ¬ FloatsOK (toCode bc) := by
  intro bc h hfl
  have hb := negZeroDemo_facts
  rw [h] at hb
  simp only [Bool.and_eq_true, Bool.not_eq_true'] at hb
  have := floatsOKB_complete hfl
  rw [hb.1.1.2] at this
  cases this

/-! ## 6. `checkProgram` acceptance alone does not give `DedupPre`

A general lemma `checkProgram code G t = true → DedupPre id code` is false, for two reasons; this is why
`compiled_dedup_pre` goes through the structure of compiled code. -/

/-- An instruction the height table does not reach is not checked for falling off the end:
`SUSPEND; NULL` is accepted by the verifier, and does not meet `DedupPre`. -/
def gapUnreached : Code :=
  { main := { insts := #[41, 13], numLocals := 0, numParams := 0, varargs := false }, consts := #[] }
example : (match verifyProgram gapUnreached 0 with | .ok _ => true | .error _ => false) = true ∧
    checkDedupPre id gapUnreached = false := by decide

/-- A function constant no instruction refers to is not verified at all: here it does not even decode (a
truncated CONST), the verifier accepts the program, and the `Dedup` model panics on it. -/
def gapUnreferenced : Code :=
  { main := { insts := #[41], numLocals := 0, numParams := 0, varargs := false },
    consts := #[.fn { insts := #[0], numLocals := 0, numParams := 0, varargs := false } 0] }
example : (match verifyProgram gapUnreferenced 0 with | .ok _ => true | .error _ => false) = true ∧
    checkDedupPre id gapUnreferenced = false ∧ (dedupCode id gapUnreferenced).isNone = true := by decide

end Tengo.Props.C12Source

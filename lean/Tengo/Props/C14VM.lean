import Tengo.Props.C14
import Tengo.Proofs.C14VM
import Tengo.Proofs.C14VMErr
import Tengo.Proofs.C03Decode
/-!
C14 on the WHOLE-VM model (`Tengo.Model.VM`): where the `ip`s stand when a run of a verified program ends
in an error, and which source-map entries `VM.Run` (vm.go) therefore prints.

Representation. `Outcome.failed e at_` keeps the configuration `at_` whose dispatch failed: `at_.core.cur.ip`
is the frame's ip BEFORE the dispatch (index of the last consumed byte, `start − 1`); the model does not move
it inside an instruction. vm.go does `v.ip++` (opcode byte) and then moves over `a` operand bytes before the
`v.err = …` site, where `a` is the row of the regenerated table `Tengo.Gen.ErrIpAdvance.table`
(`gen_advance_eq`, `gen_advance_inside_instr`, `vm_go_ip_convention`); so vm.go's `v.ip` at the error is
`goIp at_.core a = cur.ip + 1 + a`, and `VM.Run` prints `SourcePos(v.ip − 1)`. Suspended frames keep, in the
model as in vm.go (`v.curFrame.ip = v.ip` after `v.ip += 2`), the index of the CALL's last operand byte, and
`VM.Run` prints `SourcePos(frame.ip − 1)` for them.

1. `error_ip_in_failing_instruction` — the dispatched instruction `i` is a member of the decoded instruction
   list of the current function (an instruction boundary), starts at `cur.ip + 1`, is what `fetch` decodes;
   `v.ip ∈ [start, start + size)` for every error site, `v.ip − 1 ∈ [start, start + size)` for opcodes with
   operand bytes, and `v.ip − 1 = start − 1` (last byte of the layout predecessor — what vm.go really does)
   for the seven opcodes without.
   `failing_opcode_has_error_site` / `runtime_error_reported_ip` — when the error is a run-time error
   (`Err.runtime`, vm.go's `v.err`) or the allocation-limit error, the failing opcode HAS an error site (row of
   the regenerated table): no other opcode raises a run-time error in the model, in any state
   (Proofs/C14VMErr.lean).
2. `outer_frames_in_call` — every suspended frame's `ip − 1` lies inside a CALL instruction of the decoded
   instruction list of its function (frame invariant `InvC` = `Inv` of the safety proof + `InCall`).
3. `reported_position_failing`, `reported_position_outer`, `vm_error_trace` — with source maps that are
   `SrcMapComplete` the printed positions are the source-map entry of the failing instruction (operand
   opcodes) / of its layout predecessor (the others), and of the CALL instruction of each outer frame.
-/
namespace Tengo.Props.C14VM
open Tengo.Model Tengo.Model.Opcodes Tengo.Model.SrcPos Tengo.Model.Verifier
open Tengo.Proofs.C03 Tengo.Props.C14
open Tengo.Model.VM (Code Fn Core Cfg Outcome ProgTabs FnTab Inv InvC InCall checkProgram initOk initCore run)

/-! ## 0. vm.go's convention, regenerated -/

/-- `advanceOf`, read from the REGENERATED table. -/
def genAdvanceOf (op : Nat) : Option Nat :=
  match opName op with
  | none => none
  | some n =>
    match Tengo.Gen.ErrIpAdvance.table.lookup n with
    | some [a] => some a
    | _ => none

/-- The advance used below is the one vm.go has now, for every opcode byte. -/
theorem gen_advance_eq (op : Nat) : genAdvanceOf op = advanceOf op := by
  unfold genAdvanceOf advanceOf
  rw [ip_advance_matches]
  cases opName op with
  | none => rfl
  | some n =>
    dsimp only
    cases List.lookup n ipAdvance with
    | none => rfl
    | some l =>
      match l with
      | [] => rfl
      | [a] => rfl
      | _ :: _ :: _ => rfl

/-- Directly on the regenerated table: at every `v.err = …` site `v.ip` has not left the instruction, and it
still stands on the opcode byte exactly for the opcodes without operand bytes. -/
theorem gen_advance_inside_instr : ∀ r ∈ Opcodes.table, ∀ a, genAdvanceOf r.2.1 = some a →
    a ≤ r.2.2.2.sum ∧ (a = 0 ↔ r.2.2.2 = []) := by decide

/-- `VM.Run` asks `SourcePos(v.ip − 1)` for the failing frame and `SourcePos(frame.ip − 1)` for the outer
ones; CALL saves `v.ip` after its two operand bytes — the `ip + 2` of the model's `execCall` — and that is
also where CALL's own error sites stand. -/
theorem vm_go_ip_convention :
    Tengo.Gen.ErrIpAdvance.runSourcePosArgs = [("v.ip", -1), ("v.curFrame.ip", -1)] ∧
    Tengo.Gen.ErrIpAdvance.callSavedIp = [2] ∧ genAdvanceOf opCall = some 2 := by decide

/-- vm.go's `v.ip` at an error site of the dispatch of `c` that has moved over `a` operand bytes. -/
def goIp (c : Core) (a : Nat) : Int := c.cur.ip + 1 + a

/-! ## 1. The failing frame -/

/-- `i` is the instruction that frame `fr` is about to dispatch: a member of the decoded instruction list of
its function (so it starts at an instruction boundary), starting right after `fr.ip`, and it is what
`VM.fetch` decodes there. -/
structure Dispatching (code : Code) (t : ProgTabs) (fr : VM.Frame) (ft : FnTab) (f : Fn) (i : Instr) : Prop where
  tab : t.tab fr.fnIdx = some ft
  fn : code.fn fr.fnIdx = some f
  dec : decode f.insts.toList = some ft.is
  mem : i ∈ ft.is
  start : fr.ip + 1 = (i.pos : Int)
  inside : i.pos < f.insts.size
  fetched : VM.fetch f (fr.ip + 1) =
    { op := i.op, a0 := i.args.headD 0, a1 := (i.args.drop 1).headD 0, size := i.size }

/-- Any configuration satisfying the safety invariant dispatches an instruction of the decoded list. -/
theorem dispatching_of_inv {code : Code} {t : ProgTabs} {G : Nat} (hck : checkProgram code G t = true)
    {c : Core} (hinv : Inv code t G c) : ∃ ft f i, Dispatching code t c.cur ft f i := by
  obtain ⟨ft, f, i, htab, hfn, hdec, hmem, hip, _, hlt⟩ := VM.cur_instr hck hinv
  refine ⟨ft, f, i, htab, hfn, hdec, hmem, hip, hlt, ?_⟩
  rw [hip]
  exact VM.fetch_decoded f ft.is hdec i hmem

/-- The arithmetic of an error site: where `v.ip` and the reported `v.ip − 1` stand. -/
theorem error_site_bounds {c : Core} {i : Instr} (hstart : c.cur.ip + 1 = (i.pos : Int)) {a : Nat}
    (ha : advanceOf i.op = some a) :
    goIp c a = ((i.pos + a : Nat) : Int) ∧
    (i.pos : Int) ≤ goIp c a ∧ goIp c a < (i.pos : Int) + i.size ∧
    (i.size ≠ 1 → (i.pos : Int) ≤ goIp c a - 1 ∧ goIp c a - 1 < (i.pos : Int) + i.size) ∧
    (i.size = 1 → goIp c a - 1 = c.cur.ip) := by
  obtain ⟨h1, h2⟩ := advance_lt_size ha
  unfold goIp
  rw [hstart]
  refine ⟨by push_cast; rfl, by omega, by omega, ?_, ?_⟩
  · intro hne
    have : a ≠ 0 := fun h0 => hne (h2.mp h0)
    omega
  · intro h1'
    have : a = 0 := h2.mpr h1'
    omega

/-- The run ended in an error raised by the dispatch of configuration `at_`: any error of the value layer
(`failed`: a run-time error `Err.runtime` = vm.go's `v.err`, or one of the model's other classes) or the
allocation-limit error (`limit`, also a `v.err` of vm.go). -/
def EndsInErrorAt (o : Outcome) (at_ : Cfg) : Prop := (∃ e, o = .failed e at_) ∨ o = .limit at_

section run
variable {code : Code} {t : ProgTabs} {G : Nat} (hck : checkProgram code G t = true)
  (globals : Array Spec.Value) (hG : globals.size = G) (fobjs : Array VM.FnObj) (hi : initOk code t fobjs = true)
  (keep fuel : Nat) (allocs : Int) (g : Spec.GSt) (heap : Spec.St) (at_ : Cfg)
  (hrun : EndsInErrorAt (run code keep fuel allocs ⟨initCore globals fobjs, g, heap⟩ {}).1 at_)
include hck hG hi hrun

/-- The configuration whose dispatch failed satisfies the strengthened frame invariant. -/
theorem failed_invC : InvC code t G at_.core := by
  rcases VM.run_invC hck keep fuel allocs ⟨initCore globals fobjs, g, heap⟩ {} (VM.init_invC hck globals hG fobjs hi)
    with h | ⟨c, h⟩
  · rcases hrun with ⟨e, hrun⟩ | hrun <;> (rw [hrun] at h; exact h)
  · rcases hrun with ⟨e, hrun⟩ | hrun <;> (rw [hrun] at h; cases h)

/-- **error_ip_in_failing_instruction.** A run of a verified program, started as `VM.Run` starts it (any
fuel, allocation budget, heap, globals), ends in an error at configuration `at_`. Then the instruction `i`
whose dispatch failed is a member of the decoded instruction list of the current function — it starts at an
instruction boundary, at `cur.ip + 1`, and is what `fetch` decoded — and for every error site of its
opcode (advance `a` of the regenerated table) vm.go's `v.ip` lies in `[start, start + size)`; the REPORTED
`v.ip − 1` lies in `[start, start + size)` when the opcode has operand bytes, and is `start − 1` (the last
byte before the instruction) when it has none. -/
theorem error_ip_in_failing_instruction :
    ∃ ft f i, Dispatching code t at_.core.cur ft f i ∧
      ∀ a, advanceOf i.op = some a →
        goIp at_.core a = ((i.pos + a : Nat) : Int) ∧
        (i.pos : Int) ≤ goIp at_.core a ∧ goIp at_.core a < (i.pos : Int) + i.size ∧
        (i.size ≠ 1 → (i.pos : Int) ≤ goIp at_.core a - 1 ∧ goIp at_.core a - 1 < (i.pos : Int) + i.size) ∧
        (i.size = 1 → goIp at_.core a - 1 = at_.core.cur.ip) := by
  have hinv := failed_invC hck globals hG fobjs hi keep fuel allocs g heap at_ hrun
  obtain ⟨ft, f, i, d⟩ := dispatching_of_inv hck hinv.inv
  exact ⟨ft, f, i, d, fun a ha => error_site_bounds d.start ha⟩

/-- **outer_frames_in_call.** In the same situation every OUTER frame's saved `ip` is `pos + 2` for a CALL
instruction at `pos` of the decoded instruction list of that frame's function: `ip − 1` lies in
`[pos, pos + size)` of that CALL (size 3). -/
theorem outer_frames_in_call :
    ∀ fr ∈ at_.core.callers, ∃ ft f i, t.tab fr.fnIdx = some ft ∧ code.fn fr.fnIdx = some f ∧
      decode f.insts.toList = some ft.is ∧ i ∈ ft.is ∧ i.op = opCall ∧ i.size = 3 ∧
      fr.ip = (i.pos : Int) + 2 ∧ (i.pos : Int) ≤ fr.ip - 1 ∧ fr.ip - 1 < (i.pos : Int) + i.size := by
  have hinv := failed_invC hck globals hG fobjs hi keep fuel allocs g heap at_ hrun
  intro fr hfr
  obtain ⟨ft, f, i, htab, hfn, hdec, hmem, hop, hip⟩ := hinv.calls fr hfr
  have hsz : i.size = 3 := by simp [Instr.size, hop]; decide
  exact ⟨ft, f, i, htab, hfn, hdec, hmem, hop, hsz, hip, by omega, by omega⟩

omit hck hG hi hrun in
/-- The opcodes of `errSiteOps` are exactly the opcodes with a row in the advance table. -/
theorem err_site_ops_match :
    (∀ op ∈ VM.errSiteOps, (advanceOf op).isSome = true) ∧
    (∀ r ∈ Opcodes.table, (advanceOf r.2.1).isSome = true → r.2.1 ∈ VM.errSiteOps) := by decide

omit hrun in
/-- **failing_opcode_has_error_site.** If the run ends in a run-time error (`Err.runtime`: what vm.go
returns through `v.err`) or in the allocation-limit error, the failing instruction's opcode has an error
site in vm.go's `VM.run` (a row of the regenerated advance table): opcodes without one never raise a
run-time error in the model, in any state. -/
theorem failing_opcode_has_error_site
    (hrt : (∃ m, (run code keep fuel allocs ⟨initCore globals fobjs, g, heap⟩ {}).1 = .failed (.runtime m) at_) ∨
      (run code keep fuel allocs ⟨initCore globals fobjs, g, heap⟩ {}).1 = .limit at_) :
    ∃ ft f i, Dispatching code t at_.core.cur ft f i ∧ ∃ a, advanceOf i.op = some a := by
  have hrun : EndsInErrorAt (run code keep fuel allocs ⟨initCore globals fobjs, g, heap⟩ {}).1 at_ := by
    rcases hrt with ⟨m, h⟩ | h
    · exact Or.inl ⟨_, h⟩
    · exact Or.inr h
  obtain ⟨ft, f, i, d, _⟩ := error_ip_in_failing_instruction hck globals hG fobjs hi keep fuel allocs g heap at_ hrun
  obtain ⟨f', hf', hop⟩ := VM.run_error_site code keep fuel allocs _ {} at_ hrt
  have : f' = f := by rw [d.fn] at hf'; injection hf' with h; exact h.symm
  subst this
  have hb : VM.byteAt f' (at_.core.cur.ip + 1) = i.op := by
    have := congrArg VM.Fetched.op d.fetched
    rw [VM.fetch_op] at this
    exact this
  rw [hb] at hop
  have hsome := err_site_ops_match.1 i.op hop
  obtain ⟨a, ha⟩ := Option.isSome_iff_exists.mp hsome
  exact ⟨ft, f', i, d, a, ha⟩

omit hrun in
/-- **runtime_error_reported_ip.** The two together, without a hypothesis on the opcode: a run-time error
(or the allocation-limit error) is raised at an error site `a` of an instruction `i` of the decoded
instruction list, and vm.go's `v.ip` / reported `v.ip − 1` stand as in `error_ip_in_failing_instruction`. -/
theorem runtime_error_reported_ip
    (hrt : (∃ m, (run code keep fuel allocs ⟨initCore globals fobjs, g, heap⟩ {}).1 = .failed (.runtime m) at_) ∨
      (run code keep fuel allocs ⟨initCore globals fobjs, g, heap⟩ {}).1 = .limit at_) :
    ∃ ft f i a, Dispatching code t at_.core.cur ft f i ∧ advanceOf i.op = some a ∧
      (i.pos : Int) ≤ goIp at_.core a ∧ goIp at_.core a < (i.pos : Int) + i.size ∧
      (i.size ≠ 1 → (i.pos : Int) ≤ goIp at_.core a - 1 ∧ goIp at_.core a - 1 < (i.pos : Int) + i.size) ∧
      (i.size = 1 → goIp at_.core a - 1 = at_.core.cur.ip) := by
  obtain ⟨ft, f, i, d, a, ha⟩ := failing_opcode_has_error_site hck globals hG fobjs hi keep fuel allocs g heap at_ hrt
  obtain ⟨_, h1, h2, h3, h4⟩ := error_site_bounds d.start ha
  exact ⟨ft, f, i, a, d, ha, h1, h2, h3, h4⟩

end run

/-! ## 2. Source maps -/

/-- The decidable source-map hypothesis: entries only at instruction starts, and an entry at the start of
every instruction except SUSPEND (`Compiler.emit` records one per emitted instruction; the final SUSPEND of
the main function is appended by `Bytecode()` without one). -/
def SrcMapComplete (sm : SrcMap) (is : List Instr) : Bool :=
  sm.all (fun e => is.any (fun i => i.pos == e.1)) &&
  is.all (fun i => i.op == opSuspend || (sm.lookup i.pos).isSome)

/-- … for every tabulated function of the program (`sms idx`: source map of function `idx`). -/
def ProgSrcMapComplete (sms : Nat → SrcMap) (t : ProgTabs) : Bool :=
  t.fns.all (fun ft => SrcMapComplete (sms ft.idx) ft.is)

theorem complete_onlyStarts {sm : SrcMap} {is : List Instr} (h : SrcMapComplete sm is = true) :
    OnlyStarts sm is := by
  intro k s hk
  unfold SrcMapComplete at h
  simp only [Bool.and_eq_true] at h
  have := (List.all_eq_true.mp h.1) (k, s) (lookup_some_mem hk)
  obtain ⟨x, hx, hxk⟩ := List.any_eq_true.mp this
  exact ⟨x, hx, by simpa using hxk⟩

theorem complete_entry {sm : SrcMap} {is : List Instr} (h : SrcMapComplete sm is = true) {i : Instr}
    (hi : i ∈ is) (hns : i.op ≠ opSuspend) : ∃ s, sm.lookup i.pos = some s := by
  unfold SrcMapComplete at h
  simp only [Bool.and_eq_true] at h
  have := (List.all_eq_true.mp h.2) i hi
  simp only [Bool.or_eq_true, beq_iff_eq] at this
  rcases this with h1 | h1
  · exact absurd h1 hns
  · exact Option.isSome_iff_exists.mp h1

theorem prog_complete {sms : Nat → SrcMap} {t : ProgTabs} (h : ProgSrcMapComplete sms t = true) {idx : Nat}
    {ft : FnTab} (ht : t.tab idx = some ft) : SrcMapComplete (sms idx) ft.is = true := by
  obtain ⟨hmem, hidx⟩ := VM.tab_mem ht
  have := (List.all_eq_true.mp h) ft hmem
  rwa [hidx] at this

/-- Every instruction but the first has a layout predecessor. -/
theorem layout_pred {s0 : Nat} {l : List Instr} (h : Layout s0 l) {x : Instr} (hx : x ∈ l)
    (hne : x.pos ≠ s0) : ∃ w ∈ l, w.pos + w.size = x.pos := by
  induction l generalizing s0 with
  | nil => cases hx
  | cons a l ih =>
    obtain ⟨h1, h2⟩ := h
    rcases List.mem_cons.mp hx with rfl | hx'
    · exact absurd h1 hne
    · by_cases hp : x.pos = s0 + a.size
      · exact ⟨a, List.mem_cons_self, by omega⟩
      · obtain ⟨w, hw, hadj⟩ := ih h2 hx' hp
        exact ⟨w, List.mem_cons_of_mem _ hw, hadj⟩

theorem advance_suspend_none : advanceOf opSuspend = none := by decide

/-- What `VM.Run` prints for a failing instruction `i` of a decoded function with a complete source map. -/
theorem reported_of_dispatching {bs : Bytes} {is : List Instr} (hdec : decode bs = some is) {sm : SrcMap}
    (hsm : SrcMapComplete sm is = true) {i : Instr} (hmem : i ∈ is) {a : Nat} (ha : advanceOf i.op = some a) :
    (i.size ≠ 1 → ∃ s, sm.lookup i.pos = some s ∧ reportedPos sm (i.pos + a) = s) ∧
    (i.size = 1 → i.pos = 0 → reportedPos sm (i.pos + a) = 0) ∧
    (i.size = 1 → i.pos ≠ 0 → ∃ w ∈ is, w.pos + w.size = i.pos ∧
      (w.op ≠ opSuspend → ∃ s, sm.lookup w.pos = some s ∧ reportedPos sm (i.pos + a) = s)) := by
  have hl : Layout 0 is := decode_layout hdec
  have ho := complete_onlyStarts hsm
  obtain ⟨h1, h2⟩ := advance_lt_size ha
  refine ⟨?_, ?_, ?_⟩
  · intro hne
    have hns : i.op ≠ opSuspend := by
      intro h; rw [h, advance_suspend_none] at ha; cases ha
    obtain ⟨s, hs⟩ := complete_entry hsm hmem hns
    have ha1 : 1 ≤ a := by
      rcases Nat.eq_zero_or_pos a with h0 | h0
      · exact absurd (h2.mp h0) hne
      · exact h0
    exact ⟨s, hs, report_own_entry hl ho hmem hs ha1 h1⟩
  · intro hs1 hp0
    have : a = 0 := h2.mpr hs1
    subst this
    rw [hp0]; rfl
  · intro hs1 hp0
    have : a = 0 := h2.mpr hs1
    subst this
    obtain ⟨w, hw, hadj⟩ := layout_pred hl hmem hp0
    refine ⟨w, hw, hadj, ?_⟩
    intro hns
    obtain ⟨s, hs⟩ := complete_entry hsm hw hns
    exact ⟨s, hs, report_prev_entry hl ho hw hadj hs⟩

section run
variable {code : Code} {t : ProgTabs} {G : Nat} (hck : checkProgram code G t = true)
  (globals : Array Spec.Value) (hG : globals.size = G) (fobjs : Array VM.FnObj) (hi : initOk code t fobjs = true)
  (keep fuel : Nat) (allocs : Int) (g : Spec.GSt) (heap : Spec.St) (at_ : Cfg)
  (hrun : EndsInErrorAt (run code keep fuel allocs ⟨initCore globals fobjs, g, heap⟩ {}).1 at_)
  (sms : Nat → SrcMap) (hsms : ProgSrcMapComplete sms t = true)
include hck hG hi hrun hsms

/-- **reported_position_failing.** With complete source maps, the position `VM.Run` prints first —
`SourcePos(v.ip − 1)` on the current function's map, `v.ip = goIp at_.core a` — is: the source-map entry of
the failing instruction itself when its opcode has operand bytes; `NoPos` when a zero-operand instruction
fails at offset 0; otherwise the entry of the instruction laid out just before it. -/
theorem reported_position_failing :
    ∃ ft f i, Dispatching code t at_.core.cur ft f i ∧
      ∀ a, advanceOf i.op = some a →
        (goIp at_.core a).toNat = i.pos + a ∧
        (i.size ≠ 1 → ∃ s, (sms at_.core.cur.fnIdx).lookup i.pos = some s ∧
          reportedPos (sms at_.core.cur.fnIdx) (goIp at_.core a).toNat = s) ∧
        (i.size = 1 → i.pos = 0 → reportedPos (sms at_.core.cur.fnIdx) (goIp at_.core a).toNat = 0) ∧
        (i.size = 1 → i.pos ≠ 0 → ∃ w ∈ ft.is, w.pos + w.size = i.pos ∧
          (w.op ≠ opSuspend → ∃ s, (sms at_.core.cur.fnIdx).lookup w.pos = some s ∧
            reportedPos (sms at_.core.cur.fnIdx) (goIp at_.core a).toNat = s)) := by
  obtain ⟨ft, f, i, d, hb⟩ := error_ip_in_failing_instruction hck globals hG fobjs hi keep fuel allocs g heap at_ hrun
  refine ⟨ft, f, i, d, ?_⟩
  intro a ha
  have hnat : (goIp at_.core a).toNat = i.pos + a := by rw [(hb a ha).1]; exact Int.toNat_natCast _
  rw [hnat]
  exact ⟨rfl, reported_of_dispatching d.dec (prog_complete hsms d.tab) d.mem ha⟩

/-- **reported_position_outer.** Each further trace line — `SourcePos(frame.ip − 1)` on the map of the
frame's function — is the source-map entry of the CALL instruction the frame is suspended in. -/
theorem reported_position_outer :
    ∀ fr ∈ at_.core.callers, ∃ ft f i s, t.tab fr.fnIdx = some ft ∧ code.fn fr.fnIdx = some f ∧
      decode f.insts.toList = some ft.is ∧ i ∈ ft.is ∧ i.op = opCall ∧ fr.ip = (i.pos : Int) + 2 ∧
      (sms fr.fnIdx).lookup i.pos = some s ∧ reportedPos (sms fr.fnIdx) fr.ip.toNat = s := by
  intro fr hfr
  obtain ⟨ft, f, i, htab, hfn, hdec, hmem, hop, hsz, hip, _, _⟩ :=
    outer_frames_in_call hck globals hG fobjs hi keep fuel allocs g heap at_ hrun fr hfr
  have hsm := prog_complete hsms htab
  obtain ⟨s, hs⟩ := complete_entry hsm hmem (by rw [hop]; decide)
  refine ⟨ft, f, i, s, htab, hfn, hdec, hmem, hop, hip, hs, ?_⟩
  have : fr.ip.toNat = i.pos + 2 := by rw [hip]; omega
  rw [this]
  exact report_own_entry (decode_layout hdec) (complete_onlyStarts hsm) hmem hs (by omega) (by omega)

/-- The frames of a configuration as `VM.Run`'s decoration sees them (outermost first). -/
def traceFrames (sms : Nat → SrcMap) (c : Core) : List SrcPos.Frame :=
  c.callers.reverse.map (fun fr => ⟨sms fr.fnIdx, fr.ip.toNat⟩) ++ [⟨sms c.cur.fnIdx, 0⟩]

/-- The source-map entry two bytes below a saved `ip`. -/
def callEntry (sms : Nat → SrcMap) (fr : VM.Frame) : Nat := ((sms fr.fnIdx).lookup (fr.ip.toNat - 2)).getD 0

omit hck hG hi hrun hsms in
theorem traceFrames_map (sms : Nat → SrcMap) (l : List VM.Frame) :
    ((l.reverse.map (fun fr => (⟨sms fr.fnIdx, fr.ip.toNat⟩ : SrcPos.Frame))).reverse.map
      (fun F => (F.sm.lookup (F.ip - 2)).getD 0)) = l.map (callEntry sms) := by
  rw [← List.map_reverse, List.reverse_reverse, List.map_map]
  rfl

/-- **vm_error_trace.** The whole decoration, on the model `runTrace` of `VM.Run`'s frame walk: the failing
frame's report (see `reported_position_failing`) followed, innermost first, by exactly the entry of the
CALL instruction of each suspended frame — for any `v.ip`. -/
theorem vm_error_trace (vip : Nat) :
    runTrace (traceFrames sms at_.core) vip =
      reportedPos (sms at_.core.cur.fnIdx) vip :: at_.core.callers.map (callEntry sms) ∧
    ∀ fr ∈ at_.core.callers, ∃ ft f i, t.tab fr.fnIdx = some ft ∧ code.fn fr.fnIdx = some f ∧
      decode f.insts.toList = some ft.is ∧ i ∈ ft.is ∧ i.op = opCall ∧ fr.ip = (i.pos : Int) + 2 ∧
      (sms fr.fnIdx).lookup i.pos = some (callEntry sms fr) := by
  have hout := reported_position_outer hck globals hG fobjs hi keep fuel allocs g heap at_ hrun sms hsms
  have hentry : ∀ fr ∈ at_.core.callers, ∃ ft f i, t.tab fr.fnIdx = some ft ∧ code.fn fr.fnIdx = some f ∧
      decode f.insts.toList = some ft.is ∧ i ∈ ft.is ∧ i.op = opCall ∧ fr.ip = (i.pos : Int) + 2 ∧
      (sms fr.fnIdx).lookup i.pos = some (callEntry sms fr) := by
    intro fr hfr
    obtain ⟨ft, f, i, s, htab, hfn, hdec, hmem, hop, hip, hs, _⟩ := hout fr hfr
    refine ⟨ft, f, i, htab, hfn, hdec, hmem, hop, hip, ?_⟩
    have : fr.ip.toNat - 2 = i.pos := by rw [hip]; omega
    unfold callEntry
    rw [this, hs]; rfl
  refine ⟨?_, hentry⟩
  unfold traceFrames
  rw [trace_frames _ _ vip (fun F => (F.sm.lookup (F.ip - 2)).getD 0), traceFrames_map]
  intro F hF
  obtain ⟨fr, hfr, rfl⟩ := List.mem_map.mp hF
  obtain ⟨ft, f, i, htab, hfn, hdec, hmem, hop, hip, hs⟩ := hentry fr (List.mem_reverse.mp hfr)
  have hsm := prog_complete hsms htab
  have hnat : fr.ip.toNat = i.pos + 2 := by rw [hip]; omega
  refine ⟨0, ft.is, i, decode_layout hdec, complete_onlyStarts hsm, hmem, hop, hnat, ?_⟩
  show (sms fr.fnIdx).lookup i.pos = some (((sms fr.fnIdx).lookup (fr.ip.toNat - 2)).getD 0)
  exact hs

end run

/-! ## 3. Non-vacuity: `f := func() { return -"x" }; f()` and `… { return "x" * "x" } …`

main = `CONST 0; CALL 0 0; POP; SUSPEND` (offsets 0, 3, 6, 7); `exNeg` = `CONST 1; MINUS; RET 1` (0, 3, 4):
MINUS has no operand byte, the run fails in frame 1 with `cur.ip = 2` and main suspended with `ip = 5`. -/

def exMainFn : Fn := { insts := #[0, 0, 0, 20, 0, 0, 2, 41], numLocals := 0, numParams := 0, varargs := false }
def exNeg : Fn := { insts := #[0, 0, 1, 7, 21, 1], numLocals := 0, numParams := 0, varargs := false }
def exMul : Fn := { insts := #[0, 0, 1, 0, 0, 1, 40, 13, 21, 1], numLocals := 0, numParams := 0, varargs := false }
def exCodeNeg : Code := { main := exMainFn, consts := #[.fn exNeg 0, .val (.str [120])] }
def exCodeMul : Code := { main := exMainFn, consts := #[.fn exMul 0, .val (.str [120])] }
def exSmsNeg : Nat → SrcMap
  | 0 => [(0, 6), (3, 40), (6, 40)]
  | _ => [(0, 25), (3, 24), (4, 17)]
def exSmsMul : Nat → SrcMap
  | 0 => [(0, 6), (3, 40), (6, 40)]
  | _ => [(0, 24), (3, 30), (6, 24), (8, 17)]

def isFailed : Outcome → Bool
  | .failed (.runtime _) _ => true
  | _ => false

theorem failed_of_isFailed {o : Outcome} (h : isFailed o = true) : ∃ m at_, o = .failed (.runtime m) at_ := by
  cases o with
  | failed e at_ => cases e <;> first | exact ⟨_, _, rfl⟩ | cases h
  | _ => cases h

def exRun (code : Code) : Outcome := (run code 0 10 100 ⟨initCore #[] #[(0, [])], {}, {}⟩ {}).1
def exTabs (code : Code) : ProgTabs :=
  match VM.verifyProgram code 0 with
  | .ok t => t
  | .error _ => ⟨[], []⟩

/-- Both programs are accepted by the verifier, start from an admissible function-object store, and the
source maps are complete for them. -/
theorem ex_hyps :
    (checkProgram exCodeNeg 0 (exTabs exCodeNeg) = true ∧ initOk exCodeNeg (exTabs exCodeNeg) #[(0, [])] = true ∧
      ProgSrcMapComplete exSmsNeg (exTabs exCodeNeg) = true) ∧
    (checkProgram exCodeMul 0 (exTabs exCodeMul) = true ∧ initOk exCodeMul (exTabs exCodeMul) #[(0, [])] = true ∧
      ProgSrcMapComplete exSmsMul (exTabs exCodeMul) = true) := by decide

set_option maxRecDepth 100000 in
/-- … and both runs end in a run-time error. -/
theorem ex_fail : isFailed (exRun exCodeNeg) = true ∧ isFailed (exRun exCodeMul) = true := by decide

/-- The theorems apply to the failing run of `-"x"` inside `f` … -/
example : ∃ m at_, exRun exCodeNeg = .failed (.runtime m) at_ ∧
    (∃ ft f i, Dispatching exCodeNeg (exTabs exCodeNeg) at_.core.cur ft f i ∧ ∃ a, advanceOf i.op = some a) ∧
    (∀ vip, runTrace (traceFrames exSmsNeg at_.core) vip =
      reportedPos (exSmsNeg at_.core.cur.fnIdx) vip :: at_.core.callers.map (callEntry exSmsNeg)) := by
  obtain ⟨e, at_, h⟩ := failed_of_isFailed ex_fail.1
  obtain ⟨h1, h2, h3⟩ := ex_hyps.1
  exact ⟨e, at_, h, failing_opcode_has_error_site h1 #[] rfl #[(0, [])] h2 0 10 100 {} {} at_ (Or.inl ⟨e, h⟩),
    fun vip => (vm_error_trace h1 #[] rfl #[(0, [])] h2 0 10 100 {} {} at_ (Or.inl ⟨_, h⟩) exSmsNeg h3 vip).1⟩

set_option maxRecDepth 100000 in
/-- … where MINUS at offset 3 of `f` fails with `cur.ip = 2`, main is suspended with `ip = 5` (its CALL is at
3), vm.go's `v.ip` is 3 (advance 0) and the decoration is: the entry 25 of the CONST laid out before MINUS
(not MINUS's own 24), then the entry 40 of main's CALL. -/
example : (match exRun exCodeNeg with
    | .failed _ at_ => at_.core.cur.fnIdx == 1 && at_.core.cur.ip == 2 && at_.core.callers.map VM.Frame.ip == [5] &&
        advanceOf (VM.fetch exNeg (at_.core.cur.ip + 1)).op == some 0 &&
        runTrace (traceFrames exSmsNeg at_.core) (goIp at_.core 0).toNat == [25, 40]
    | _ => false) = true := by decide

set_option maxRecDepth 100000 in
/-- `"x" * "x"`: BINARYOP at offset 6 (advance 1, `v.ip = 7`) reports its own entry 24. -/
example : (match exRun exCodeMul with
    | .failed _ at_ => at_.core.cur.fnIdx == 1 && at_.core.cur.ip == 5 && at_.core.callers.map VM.Frame.ip == [5] &&
        advanceOf (VM.fetch exMul (at_.core.cur.ip + 1)).op == some 1 &&
        runTrace (traceFrames exSmsMul at_.core) (goIp at_.core 1).toNat == [24, 40]
    | _ => false) = true := by decide

/-- The allocation limit: `[]` as a statement (`ARRAY 0; POP; SUSPEND`) with `v.allocs = 1`. -/
def exCodeArr : Code :=
  { main := { insts := #[14, 0, 0, 2, 41], numLocals := 0, numParams := 0, varargs := false }, consts := #[] }

set_option maxRecDepth 100000 in
example : checkProgram exCodeArr 0 (exTabs exCodeArr) = true ∧ initOk exCodeArr (exTabs exCodeArr) #[] = true ∧
    (match (run exCodeArr 0 10 1 ⟨initCore #[] #[], {}, {}⟩ {}).1 with
     | .limit at_ => at_.core.cur.ip == -1 && advanceOf (VM.fetch exCodeArr.main (at_.core.cur.ip + 1)).op == some 2
     | _ => false) = true := by decide

/-- `error_site_bounds` is not vacuous: BINARYOP at 6 with `cur.ip = 5`. -/
example : advanceOf (⟨6, opBinaryOp, [13]⟩ : Instr).op = some 1 := by decide

end Tengo.Props.C14VM

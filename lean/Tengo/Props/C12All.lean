import Tengo.Props.C12
import Tengo.Props.C12VM
import Tengo.Props.C12Univ
import Tengo.Props.C12Source
/-! C12: the theorems about the model of `RemoveDuplicates` / the gob round trip (`C12`) and the whole-VM
theorems about a passed renumbering check (`C12VM`: the real `RemoveDuplicates` output, validated per
program by the driver line `renum`, runs like the original on the VM model for every input), as one
module for the checker. -/

import Std.Data.String.ToNat
import Tengo.Proofs.C01BridgeCompile
import Tengo.Proofs.C01BridgeBoundedStmts
import Tengo.Proofs.C01BridgeVMRun
import Tengo.Proofs.C01BridgeRange
import Tengo.Proofs.C01BridgeSpecRun
/-!
C01 bridge — the abstract compiler-correctness theorem of fragment F1 (`Tengo.Props.C01.program_correct_F1`)
holds OF THE BIG MODELS on the fragment:

* `Tengo.Model.Compiler.compileFile` (the whole compiler model, tied byte for byte to compiler.go by the
  `comp` stream) emits, for the embedding `toAstSs` of a fragment program into the real AST, exactly the
  bytes of the fragment's own compiler followed by SUSPEND, and the fragment's constant table
  (`compileFile_fragment`, Proofs/C01BridgeCompile.lean);
* `Tengo.Model.VM.exec` / `VM.run` (the whole VM model, tied in lock step to vm.go by the `vm` stream)
  step on those bytes exactly like the fragment's machine (`step_sim`, `runs_halt`, `fails_failed`,
  Proofs/C01BridgeVMStep.lean, C01BridgeVMRun.lean), with the data semantics `vmSem` built from the
  operations the opcodes call (`Spec.binaryOp`, `Spec.equalsV`, `Spec.isFalsy`, …) on scalar values;
* hence (`compile_run_correct_fragment`): whenever the fragment's reference evaluator `F1.exec`
  finishes with globals `g'`, `VM.run` of the code `compileFile` emits halts with those globals (and
  an empty operand stack, and the heap untouched); a run-time error of the evaluator is a `failed` outcome of
  `VM.run`.

Hypotheses of the headline, all decidable on a concrete program: well-formedness of the embedding
(`wfSs`: slots below `n`, operator tokens, literals numbered in compilation order), nesting within the
compiler model's traversal budget, expression depth within the VM's 2048 stack slots (`depthSs` — a
deeper expression makes the REAL VM panic, so this hypothesis is necessary), operands within their
encoded widths (≤ 65536 globals and constants, code shorter than 2^32 bytes), allocation limit off.

* and the fragment's evaluator is tied to the REFERENCE INTERPRETER: whenever `F1.exec vmSem` finishes / fails,
  `Spec.runProgram` (static check, inputs, interpreter, read-out) on `toAstSs ss` answers `ok` with the same
  globals / a run-time failure (`runProgram_fragment`, Proofs/C01BridgeSpecRun.lean). Together
  (`reference_and_vm_agree_fragment`): the globals the reference interpreter reports ARE the globals
  `VM.run` halts with, on the bytecode `compileFile` emits — a statement about the three big models, with
  the fragment's evaluator only as the witness that the program terminates.

NOT proved here (kept as `…_TODO` at the end): the converse direction for the interpreter (a run of
`runProgram` that answers `ok` forces the fragment's evaluator to terminate), which would remove that witness.
-/
namespace Tengo.Props.C01Bridge
open Tengo.Model Tengo.Model.F0 Tengo.Model.Opcodes Tengo.Proofs.C01Bridge
open Tengo.Model.Spec (Value GSt)

/-! ### from the compiler model's output to the VM model's input -/

/-- A constant of the compiler model's pool as the VM model loads it. -/
def constVal : Compiler.Const → VM.Const
  | .int v => .val (.int v)
  | .float b => .val (.float (Float.ofBits b))
  | .char v => .val (.char v)
  | .str b => .val (.str b)
  | .fn code nl np va => .fn ⟨code.toArray, nl, np, va⟩ 0

/-- The compiled program as the VM model runs it (main function: no locals, no parameters). -/
def codeOf (bc : Compiler.Bytecode') : VM.Code :=
  { main := ⟨bc.main.toArray, 0, 0, false⟩, consts := (bc.consts.map constVal).toArray }

theorem constVal_constOf (c : F0.Const) : constVal (constOf c) = .val (constValue c) := by cases c <;> rfl

/-! ### a canonical injective naming of the global slots: `g0, g1, …` -/

def gname (i : Nat) : String := "g" ++ Nat.repr i

theorem gname_inj {i j : Nat} (h : gname i = gname j) : i = j := by
  unfold gname at h
  apply Nat.repr_injective
  have := congrArg String.toList h
  simp only [String.toList_append] at this
  exact String.toList_inj.mp (List.append_cancel_left this)

/-! ### the code relation for compiled fragment programs -/

theorem codeRel_compiled (ctab : Nat → F0.Const) (n : Nat) (ss : F1.Stms)
    (hwf : wfSs n 0 ss = true) (hn : n ≤ 65536) (hK : nlitsSs ss ≤ 65536) (hsize : F1.sssize ss < 4294967296) :
    CodeRel (F1.compSs 0 ss) (nlitsSs ss) n (svConst ctab)
      (codeOf { main := encodeIns (F1.compSs 0 ss) ++ [UInt8.ofNat opSuspend],
                consts := constTable ctab (nlitsSs ss), maxGlobals := n }) := by
  have hgood := compSs_good n (nlitsSs ss) ss 0 0 hwf (by omega)
  refine ⟨rfl, ?_, fun i hi => ((hgood i hi).fits hK hn (by omega)).1,
    fun i hi => ((hgood i hi).fits hK hn (by omega)).2⟩
  intro k hk
  simp only [codeOf, constTable, List.map_map, List.getElem?_toArray, List.getElem?_map,
    List.getElem?_range hk, Option.map_some, Function.comp_apply, constVal_constOf]
  rfl

/-! ### the headline -/

/-- **C01 on fragment F1, for the big models.** For every program `ss` of the fragment (expressions with
all operators, `==` `!=` `!` `?:` `&&` `||`, assignments to global slots, `if` / `else`, `for cond {…}`,
`for {…}`), every injective naming `names` of its `n` global slots, every constant table `ctab`, every
fuel `f` of the fragment's reference evaluator, every initial globals:

1. the compiler model compiles the embedded AST (slots pre-declared as inputs) to the fragment compiler's
   bytes followed by SUSPEND and the fragment's constant table;
2. if the reference evaluator finishes with globals `g'`, `VM.run` on that bytecode halts — for every
   sufficient fuel, with the heap untouched — with globals `g'` and an empty operand stack;
3. if the reference evaluator reports a run-time error, `VM.run` ends in a `failed` outcome. -/
theorem compile_run_correct_fragment
    (names : Nat → String) (ctab : Nat → F0.Const) (n : Nat) (ss : F1.Stms) (f : Nat)
    (hinj : ∀ i j, i < n → j < n → names i = names j → i = j)
    (hwf : wfSs n 0 ss = true) (hbud : budSs ss ≤ Compiler.fuel)
    (hdepth : F1.depthSs ss ≤ VM.stackSize)
    (hn : n ≤ 65536) (hK : nlitsSs ss ≤ 65536) (hsize : F1.sssize ss < 4294967296)
    (g : Nat → SV) (globals : Array Value) (hgs : globals.size = n)
    (hg : ∀ i, i < n → globals.getD i .undef = (g i).1)
    (keep : Nat) (allocs : Int) (ha : allocs ≤ 0) (log : VM.Log) (gst : GSt) (heap : Spec.St) :
    ∃ bc, Compiler.compileFile (toAstSs names ctab ss) (inputsOf names n) = .ok bc ∧
      bc.main = encodeIns (F1.compSs 0 ss) ++ [UInt8.ofNat opSuspend] ∧
      bc.consts = constTable ctab (nlitsSs ss) ∧
      (∀ g', F1.exec vmSem (svConst ctab) f (.inr ss) g = .done g' →
        ∃ fuel c', (∀ i, i < n → c'.regs.globals.getD i .undef = (g' i).1) ∧
          c'.regs.globals.size = n ∧ c'.regs.sp = 0 ∧
          ∀ k, (VM.run (codeOf bc) keep (fuel + k) allocs ⟨VM.initCore globals #[], gst, heap⟩ log).1 =
            .halted ⟨c', gst, heap⟩) ∧
      (F1.exec vmSem (svConst ctab) f (.inr ss) g = .err →
        ∃ fuel e at_, e ≠ Spec.Err.fuel ∧
          ∀ k, (VM.run (codeOf bc) keep (fuel + k) allocs ⟨VM.initCore globals #[], gst, heap⟩ log).1 =
            .failed e at_) := by
  refine ⟨_, compileFile_fragment names ctab n ss hinj hwf hbud, rfl, rfl, ?_, ?_⟩
  · intro g' hdone
    have hcode := codeRel_compiled ctab n ss hwf hn hK hsize
    have hrel := rel_init (n := n) globals g hgs hg
    have hruns := (F1.program_correct_F1_bounded VM.stackSize vmSem (svConst ctab) g ss f hdepth).1 g' hdone
    rw [← F1.csize_compSs ss 0] at hruns
    obtain ⟨m, c', hglb, hsp, hrun⟩ := runs_halt hcode hrel [] g' hruns keep allocs log gst heap ha
    exact ⟨m + 1, c', hglb.2, hglb.1, hsp, hrun⟩
  · intro herr
    have hcode := codeRel_compiled ctab n ss hwf hn hK hsize
    have hrel := rel_init (n := n) globals g hgs hg
    have hfails := (F1.program_correct_F1_bounded VM.stackSize vmSem (svConst ctab) g ss f hdepth).2 herr
    obtain ⟨m, e, at_, hne, hrun⟩ := fails_failed hcode hrel hfails keep allocs log gst heap ha
    exact ⟨m + 1, e, at_, hne, hrun⟩

/-! ### non-vacuity: a concrete program with a loop and an if -/

/-- `g0 = 0; for g0 < 3 { if g0 == 1 { g1 = g1 + 10 } else { g1 = g1 + 1 }; g0 = g0 + 1 }` -/
def exProg : F1.Stms :=
  .cons (.assign 0 (.lit 0))
  (.cons (.whil (.bin 38 (.glob 0) (.lit 1))
    (.cons (.ifelse (.eq (.glob 0) (.lit 2))
        (.cons (.assign 1 (.bin 11 (.glob 1) (.lit 3))) .nil)
        (.cons (.assign 1 (.bin 11 (.glob 1) (.lit 4))) .nil))
    (.cons (.assign 0 (.bin 11 (.glob 0) (.lit 5))) .nil))) .nil)

def exCtab (k : Nat) : F0.Const := .int ([0, 3, 1, 10, 1, 1].getD k 0)

def exG : Nat → SV := fun _ => ⟨.int 0, rfl⟩

example : wfSs 2 0 exProg = true ∧ budSs exProg ≤ Compiler.fuel ∧ F1.depthSs exProg ≤ VM.stackSize ∧
    nlitsSs exProg = 6 ∧ F1.sssize exProg < 4294967296 := by decide

set_option maxRecDepth 100000 in
example :
    (match F1.exec vmSem (svConst exCtab) 40 (.inr exProg) exG with
     | .done g' =>
       (match (g' 0).1, (g' 1).1 with
        | .int a, .int b => a == 3 && b == 12
        | _, _ => false)
     | _ => false) = true := by
  decide


/-- A run-time error of the reference evaluator is reachable: `g0 = -"a"`. -/
example :
    (match F1.exec vmSem (svConst (fun _ => .str [97])) 5 (.inr (.cons (.assign 0 (.neg (.lit 0))) .nil)) exG with
     | .err => true
     | _ => false) = true := by
  decide

/-- All hypotheses of the headline hold of the concrete program (slots named `g0`, `g1`): the compiler model
compiles it to the fragment's bytes, and `VM.run` halts with `g0 = 3`, `g1 = 12` whenever the evaluator
says so (it does: previous example). -/
example (keep : Nat) (log : VM.Log) (gst : GSt) (heap : Spec.St) :=
  compile_run_correct_fragment gname exCtab 2 exProg 40 (fun _ _ _ _ h => gname_inj h)
    (by decide) (by decide) (by decide) (by decide) (by decide) (by decide)
    exG #[.int 0, .int 0] rfl (by intro i hi; match i, hi with | 0, _ => rfl | 1, _ => rfl)
    keep 0 (by decide) log gst heap

/-! ### the three big models together -/

/-- **Reference interpreter = compile-and-run, on fragment F1.** For every fragment program (hypotheses as in
`compile_run_correct_fragment`, nesting within the static check's budget of 4000): whenever the fragment's
evaluator terminates with fuel `f` (the termination witness),

* `Spec.runProgram` on the embedded AST — from every initial heap, for every fuel `F ≥ 4 f + budSs ss` —
  answers `ok gs st`,
* `Compiler.compileFile` compiles the embedded AST, and `VM.run` of that bytecode halts (every sufficient
  fuel, heap untouched, operand stack empty),

and `gs` is exactly the list of the slot names with the values of the VM's globals array at the halt. If the
fragment's evaluator reports an error, the interpreter reports a run-time failure (not `ok`, not a compile
error, not fuel exhaustion) and `VM.run` ends in a `failed` outcome. -/
theorem reference_and_vm_agree_fragment
    (names : Nat → String) (ctab : Nat → F0.Const) (n : Nat) (ss : F1.Stms) (f : Nat)
    (hinj : ∀ i j, i < n → j < n → names i = names j → i = j)
    (hwf : wfSs n 0 ss = true) (hbud : budSs ss ≤ 4000)
    (hdepth : F1.depthSs ss ≤ VM.stackSize)
    (hn : n ≤ 65536) (hK : nlitsSs ss ≤ 65536) (hsize : F1.sssize ss < 4294967296)
    (g : Nat → SV) (globals : Array Value) (hgs : globals.size = n)
    (hg : ∀ i, i < n → globals.getD i .undef = (g i).1)
    (keep : Nat) (allocs : Int) (ha : allocs ≤ 0) (log : VM.Log) (gst : GSt) (heap : Spec.St) :
    ∃ bc, Compiler.compileFile (toAstSs names ctab ss) (inputsOf names n) = .ok bc ∧
      (∀ g', F1.exec vmSem (svConst ctab) f (.inr ss) g = .done g' →
        ∃ gs fuel c',
          (∀ F initHeap, 4 * f + budSs ss ≤ F →
            ∃ st, Spec.runProgram F (inputsV names n g) initHeap (toAstSs names ctab ss) = .ok gs st) ∧
          (∀ k, (VM.run (codeOf bc) keep (fuel + k) allocs ⟨VM.initCore globals #[], gst, heap⟩ log).1 =
            .halted ⟨c', gst, heap⟩) ∧
          c'.regs.sp = 0 ∧
          gs = (List.range n).map (fun i => (names i, c'.regs.globals.getD i .undef))) ∧
      (F1.exec vmSem (svConst ctab) f (.inr ss) g = .err →
        (∀ F initHeap, 4 * f + budSs ss ≤ F →
          ∃ err, err ≠ Spec.Err.fuel ∧
            Spec.runProgram F (inputsV names n g) initHeap (toAstSs names ctab ss) = errOutcome err) ∧
        ∃ fuel e at_, e ≠ Spec.Err.fuel ∧
          ∀ k, (VM.run (codeOf bc) keep (fuel + k) allocs ⟨VM.initCore globals #[], gst, heap⟩ log).1 =
            .failed e at_) := by
  obtain ⟨bc, hbc, _, _, hdone, herr⟩ := compile_run_correct_fragment names ctab n ss f hinj hwf
    (by unfold Compiler.fuel; omega) hdepth hn hK hsize g globals hgs hg keep allocs ha log gst heap
  refine ⟨bc, hbc, ?_, ?_⟩
  · intro g' hg'
    obtain ⟨fuel, c', hgl, _, hsp, hrun⟩ := hdone g' hg'
    refine ⟨globalsV names n g', fuel, c', ?_, hrun, hsp, ?_⟩
    · intro F initHeap hF
      exact (runProgram_fragment names ctab n ss f F hinj hwf hbud hF g initHeap).1 g' hg'
    · unfold globalsV
      apply List.map_congr_left
      intro i hi
      rw [hgl i (by simpa using hi)]
  · intro he
    refine ⟨?_, herr he⟩
    intro F initHeap hF
    exact (runProgram_fragment names ctab n ss f F hinj hwf hbud hF g initHeap).2 he

/-- The concrete program: the reference interpreter and the VM both end with `g0 = 3`, `g1 = 12`. -/
example (keep : Nat) (log : VM.Log) (gst : GSt) (heap : Spec.St) :=
  reference_and_vm_agree_fragment gname exCtab 2 exProg 40 (fun _ _ _ _ h => gname_inj h)
    (by decide) (by decide) (by decide) (by decide) (by decide) (by decide)
    exG #[.int 0, .int 0] rfl (by intro i hi; match i, hi with | 0, _ => rfl | 1, _ => rfl)
    keep 0 (by decide) log gst heap

/-! ### not proved

`runProgram_converse_TODO`: if `Spec.runProgram F (inputsV names n g) initHeap (toAstSs names ctab ss) = .ok gs st`
then there is a fuel `f` with `F1.exec vmSem (svConst ctab) f (.inr ss) g = .done g'` and `gs = globalsV names n g'`
(and likewise for run-time failures). With it the termination witness `F1.exec … = .done g'` of
`reference_and_vm_agree_fragment` could be replaced by the interpreter's own answer. Not attempted: it is a
second simulation (interpreter ⇒ fragment evaluator, by induction on the interpreter's fuel) of about the
size of Proofs/C01BridgeSpecStmt.lean; the forward direction proved here already gives, for every
terminating fragment program, equality of the two big models' answers. -/

end Tengo.Props.C01Bridge

import Tengo.Props.C10Heap
import Tengo.Props.C09Inv
import Tengo.Proofs.C10HeapInvRun
import Tengo.Proofs.C10HeapInvDag
/-!
C10 — "a copy shares no mutable state with its original": the hypotheses become invariants, and internal sharing.

(1) `Closed`, `RefsOk` (as `Wf`: plus the handles) and `HdrOk` are invariants of the C09 machine (`Props/C09Inv`), so the
    copy theorems of `Props/C10Heap` hold on every heap BUILT by operation sequences without side hypotheses on the heap:
    `…_on_built_heaps`.
(2) Separation is an invariant too. `step_keeps_sep`: if every operand handle of an operation holds a value that shares
    no cell with `b`, then the operation leaves every cell of `b` unchanged and afterwards the operand handles AND the
    handles it pushed still share no cell with `b` — for all sixteen operations. Hence `ops_on_side_keep`: a whole
    sequence reading only handles of a set `S` (initially disjoint from `b`) and handles pushed later keeps `b`; no
    per-step hypothesis (`OpsAway` of `ops_away_keep`) is left, only a condition on the TEXT of the sequence (`OpsUse`:
    which handle indices it mentions). Corollaries `copy_then_any_ops_keep_original`, `copy_then_ops_on_old_keep_copy`.
(3) Values with internal sharing (the same array reachable twice: a DAG) are data values (`isData` bounds the depth,
    it does not ask for a tree): `copy_fresh`, `copy_disjoint`, `copy_equal` apply to them as they are. `Copy` duplicates
    the shared part: the copy of ANY data value is a TREE (`copy_is_tree`: the list of the cells of the copy, one entry
    per path, has no duplicates) — as Go's `Copy` does (`[s, s]` becomes `[s', s'']`).
-/
namespace Tengo.Props.C10HeapInv
open Tengo.Model.Heap9 Tengo.Model.HeapCopy Tengo.Props.C09 Tengo.Proofs.C09Eq Tengo.Proofs.C10Heap
open Tengo.Props.C09Eq Tengo.Props.C10Heap Tengo.Props.C09Inv

/-! ### (2) Separation is kept by every operation -/

/-- One operation, all of whose operand handles hold values sharing no cell with `b`: every cell of `b` is unchanged,
its deep snapshot too, and the operand handles as well as every handle pushed by the operation share no cell with `b`
afterwards. -/
theorem step_keeps_sep {h : Heap} {b : Val} (c : Closed h) (w : Wf h) (ob : OldVal h b) (op : Op)
    (sep : ∀ x ∈ operands op, ∀ v, h.regs[x]? = some v → Sep h v b) :
    KeptF h (step h op).1 b ∧ (∀ n, snapN n (step h op).1 b = snapN n h b) ∧
    ∀ (i : Nat) (v : Val), (step h op).1.regs[i]? = some v → (i ∈ operands op ∨ h.regs.length ≤ i) →
      Sep (step h op).1 v b := by
  have := handles_ops_keep c w (fun i => i ∈ operands op) ob (fun i v si hv => sep i si v hv) [op]
    (by intro o ho x hx; rw [List.mem_singleton] at ho; subst ho; exact .inl hx)
  exact this

/-- Any operation sequence that reads only handles of the set `S` — holding values that INITIALLY share no cell with
`b` — and handles pushed later: every cell of `b` is unchanged, its snapshot too, and all those handles still share
no cell with `b` at the end. -/
theorem ops_on_side_keep {h : Heap} {b : Val} (c : Closed h) (w : Wf h) (S : Nat → Prop) (ob : OldVal h b)
    (sep : ∀ (i : Nat) (v : Val), S i → h.regs[i]? = some v → Sep h v b) (ops : List Op)
    (use : OpsUse (fun i => S i ∨ h.regs.length ≤ i) ops) :
    KeptF h (run h ops) b ∧ (∀ n, snapN n (run h ops) b = snapN n h b) ∧
    ∀ (i : Nat) (v : Val), (run h ops).regs[i]? = some v → (S i ∨ h.regs.length ≤ i) → Sep (run h ops) v b :=
  handles_ops_keep c w S ob sep ops use

theorem copy_regs {h : Heap} {x : Nat} {v : Val} (hx : h.regs[x]? = some v) (c : Closed h) (d : isData h v = true)
    (caps : List Nat) : (step h (.copy x caps)).1.regs = h.regs ++ [(copyValCaps caps h v).2] := by
  obtain ⟨caps', e⟩ := copyVal_runs c d caps
  have hr := copyN_regs _ _ _ _ _ _ _ e _ rfl
  rw [(step_copy_eq hx c d caps).1]
  simp [Heap.push, hr]

/-- After `c := copy(x)` ANY operation sequence that reads only the new handle `c` and handles pushed later (whatever
is built from the copy: elements, slices, appends, frozen or immutable versions, new literals …) leaves every cell of
every old value `o` — the original included — unchanged, and its deep snapshot is the one before the copy. Only the
initial disjointness (`copy_disjoint`) is used. -/
theorem copy_then_any_ops_keep_original {h : Heap} {x : Nat} {v : Val} (hx : h.regs[x]? = some v) (c : Closed h) (w : Wf h)
    (d : isData h v = true) (caps : List Nat) {o : Val} (oo : OldVal h o) (ops : List Op)
    (use : OpsUse (fun i => h.regs.length ≤ i) ops) :
    KeptF (step h (.copy x caps)).1 (run (step h (.copy x caps)).1 ops) o ∧
    (∀ n, snapN n (run (step h (.copy x caps)).1 ops) o = snapN n h o) ∧
    ∀ (i : Nat) (u : Val), (run (step h (.copy x caps)).1 ops).regs[i]? = some u → h.regs.length ≤ i →
      Sep (run (step h (.copy x caps)).1 ops) u o := by
  have hregs := copy_regs hx c d caps
  have hs := (copy_handle_sep hx c w.refs d caps oo).2.2
  have x1 : Ext h (step h (.copy x caps)).1 := step_ext_of_pure h _ rfl
  have c1 : Closed (step h (.copy x caps)).1 := closed_invariant c [.copy x caps]
  have w1 := refsOk_invariant w (.copy x caps)
  have oo1 : OldVal (step h (.copy x caps)).1 o := oo.mono (ext_olen x1)
  obtain ⟨k, sn, sp⟩ := handles_ops_keep c1 w1 (fun i => h.regs.length ≤ i) oo1 (by
      intro i u hi hu
      rw [hregs, List.getElem?_append_right hi] at hu
      have := List.mem_of_getElem? hu
      rw [List.mem_singleton] at this
      rw [this]; exact hs) ops (fun op ho y hy => .inl (use op ho y hy))
  refine ⟨k, ?_, fun i u hu hi => sp i u hu (.inl hi)⟩
  intro n
  rw [sn n]
  exact KeptF.snap c w.refs n o oo (keptF_of_ext x1 o)

/-- Vice versa: after `c := copy(x)` any operation sequence that never mentions the handle of the copy (operations on
the original, on any other old handle, on whatever is built from them later) leaves every cell of the copy and its deep
snapshot unchanged. -/
theorem copy_then_ops_on_old_keep_copy {h : Heap} {x : Nat} {v : Val} (hx : h.regs[x]? = some v) (c : Closed h) (w : Wf h)
    (d : isData h v = true) (caps : List Nat) (ops : List Op) (use : OpsUse (fun i => i ≠ h.regs.length) ops) :
    KeptF (step h (.copy x caps)).1 (run (step h (.copy x caps)).1 ops) (copyValCaps caps h v).2 ∧
    (∀ n, snapN n (run (step h (.copy x caps)).1 ops) (copyValCaps caps h v).2 =
      snapN n (step h (.copy x caps)).1 (copyValCaps caps h v).2) ∧
    ∀ (i : Nat) (u : Val), (run (step h (.copy x caps)).1 ops).regs[i]? = some u → i ≠ h.regs.length →
      Sep (run (step h (.copy x caps)).1 ops) u (copyValCaps caps h v).2 := by
  have hregs := copy_regs hx c d caps
  have c1 : Closed (step h (.copy x caps)).1 := closed_invariant c [.copy x caps]
  have w1 := refsOk_invariant w (.copy x caps)
  have hlen : (step h (.copy x caps)).1.regs.length = h.regs.length + 1 := by rw [hregs]; simp
  have oc : OldVal (step h (.copy x caps)).1 (copyValCaps caps h v).2 :=
    w1.regs _ (by rw [hregs]; simp)
  have conv : ∀ i, i ≠ h.regs.length → (i < h.regs.length ∨ (step h (.copy x caps)).1.regs.length ≤ i) := by
    intro i hi; rw [hlen]; omega
  obtain ⟨k, sn, sp⟩ := handles_ops_keep c1 w1 (fun i => i < h.regs.length) oc (by
      intro i u hi hu
      rw [hregs, List.getElem?_append_left hi] at hu
      exact ((copy_handle_sep hx c w.refs d caps (old_reg w hu)).2.2).symm) ops
    (fun op ho y hy => conv y (use op ho y hy))
  exact ⟨k, sn, fun i u hu hi => sp i u hu (conv i hi)⟩

/-! ### (1) The copy theorems on built heaps -/

theorem wf_of_built (ops : List Op) : Wf (run {} ops) := wf_of_ops ops

/-- `copy_fresh` on every built heap. -/
theorem copy_fresh_on_built_heaps (ops0 : List Op) {v : Val} (d : isData (run {} ops0) v = true) (caps : List Nat) :
    (∀ x, Reach (copyValCaps caps (run {} ops0) v).1 (copyValCaps caps (run {} ops0) v).2 x → IsNew (run {} ops0) x) ∧
    CopyRel (run {} ops0) v (copyValCaps caps (run {} ops0) v).2 :=
  copy_fresh (closed_of_built ops0) d caps

/-- `copy_disjoint` on every built heap, for the value of every handle. -/
theorem copy_disjoint_on_built_heaps (ops0 : List Op) {v : Val} (d : isData (run {} ops0) v = true) (caps : List Nat)
    {y : Nat} {o : Val} (hy : (run {} ops0).regs[y]? = some o) :
    Sep (copyValCaps caps (run {} ops0) v).1 (copyValCaps caps (run {} ops0) v).2 o :=
  copy_disjoint (closed_of_built ops0) (wf_of_built ops0).refs d caps (old_reg (wf_of_built ops0) hy)

/-- `copy_frame` on every built heap. -/
theorem copy_frame_on_built_heaps (ops0 : List Op) {v : Val} (d : isData (run {} ops0) v = true) (caps : List Nat)
    {y : Nat} {o : Val} (hy : (run {} ops0).regs[y]? = some o) :
    Ext (run {} ops0) (copyValCaps caps (run {} ops0) v).1 ∧
    ∀ x, Reach (copyValCaps caps (run {} ops0) v).1 o x ↔ Reach (run {} ops0) o x :=
  ⟨(copy_frame (closed_of_built ops0) d caps).1,
   (copy_frame (closed_of_built ops0) d caps).2 o (wf_of_built ops0).refs (old_reg (wf_of_built ops0) hy)⟩

/-- `copy_equal` / `copy_equalsN` on every built heap: no `Closed`, no `HdrOk` hypothesis. -/
theorem copy_equal_on_built_heaps (ops0 : List Op) {v : Val} (d : isPlain (run {} ops0) v = true) (caps : List Nat) :
    Eqv (copyValCaps caps (run {} ops0) v).1 (copyValCaps caps (run {} ops0) v).2 v ∧
    equalsN (copyValCaps caps (run {} ops0) v).1.fuel (copyValCaps caps (run {} ops0) v).1
      (copyValCaps caps (run {} ops0) v).2 v = some true :=
  ⟨copy_equal (closed_of_built ops0) d caps, copy_equalsN (closed_of_built ops0) (hdrOk_of_built ops0) d caps⟩

/-- `ops_away_keep` on every built heap: the snapshot half needs no `RefsOk`/`OldVal` hypothesis. -/
theorem ops_away_keep_on_built_heaps (ops0 : List Op) {y : Nat} {b : Val} (hy : (run {} ops0).regs[y]? = some b)
    (ops : List Op) (ok : OpsAway b (run {} ops0) ops) :
    KeptF (run {} ops0) (run (run {} ops0) ops) b ∧ ∀ n, snapN n (run (run {} ops0) ops) b = snapN n (run {} ops0) b :=
  ⟨(ops_away_keep (closed_of_built ops0) ops ok).1,
   (ops_away_keep (closed_of_built ops0) ops ok).2 (wf_of_built ops0).refs (old_reg (wf_of_built ops0) hy)⟩

/-- The whole story on built heaps, handles only: build any heap, copy the value of handle `x` (a data value), then run
any operations that mention only the copy's handle and later ones: the value of every old handle `y` prints as before. -/
theorem copy_then_any_ops_keep_original_on_built_heaps (ops0 : List Op) {x y : Nat} {v o : Val}
    (hx : (run {} ops0).regs[x]? = some v) (hy : (run {} ops0).regs[y]? = some o)
    (d : isData (run {} ops0) v = true) (caps : List Nat) (ops : List Op)
    (use : OpsUse (fun i => (run {} ops0).regs.length ≤ i) ops) :
    ∀ n, snapN n (run {} (ops0 ++ .copy x caps :: ops)) o = snapN n (run {} ops0) o := by
  have := (copy_then_any_ops_keep_original hx (closed_of_built ops0) (wf_of_built ops0) d caps
    (old_reg (wf_of_built ops0) hy) ops use).2.1
  have e : run {} (ops0 ++ .copy x caps :: ops) = run (step (run {} ops0) (.copy x caps)).1 ops := by
    simp [run, List.foldl_append]
  rw [e]; exact this

/-! ### (3) Internal sharing -/

/-- The copy of ANY data value — tree or DAG — is a tree: listing the cells of the copy once per path gives no cell
twice (and the list is exactly the reachable set: `treeAt_mem_iff_reach`). Go's `Copy` duplicates shared parts. -/
theorem copy_is_tree {h : Heap} {v : Val} (c : Closed h) (d : isData h v = true) (caps : List Nat) :
    IsTree (copyValCaps caps h v).1 (copyValCaps caps h v).2 :=
  Tengo.Proofs.C10Heap.copy_is_tree c d caps

/-- … in particular two different elements of a copied array share no cell, even when they are copies of the SAME
shared element of the original. -/
theorem copy_elems_sep {h : Heap} {v : Val} (c : Closed h) (d : isData h v = true) (caps : List Nat)
    {r s off len cap i j : Nat} {m : Bool} {a b : Val} (ev : (copyValCaps caps h v).2 = .ref r)
    (ho : (copyValCaps caps h v).1.obj r = Obj.arr m s off len cap) (hij : i ≠ j)
    (ha : ((copyValCaps caps h v).1.content s off len)[i]? = some a)
    (hb : ((copyValCaps caps h v).1.content s off len)[j]? = some b) : Sep (copyValCaps caps h v).1 a b := by
  have t := copy_is_tree c d caps
  rw [ev] at t
  exact isTree_elems_sep t ho hij ha hb

/-- Fresh, disjoint, equal and tree-shaped at once, for DAG-shaped (or tree-shaped) acyclic data without errors/NaN,
on a built heap. -/
theorem copy_dag_on_built_heaps (ops0 : List Op) {x : Nat} {v : Val} (hx : (run {} ops0).regs[x]? = some v)
    (d : isPlain (run {} ops0) v = true) (dd : isData (run {} ops0) v = true) (caps : List Nat) :
    (∀ y, Reach (copyValCaps caps (run {} ops0) v).1 (copyValCaps caps (run {} ops0) v).2 y → IsNew (run {} ops0) y) ∧
    Sep (copyValCaps caps (run {} ops0) v).1 (copyValCaps caps (run {} ops0) v).2 v ∧
    Eqv (copyValCaps caps (run {} ops0) v).1 (copyValCaps caps (run {} ops0) v).2 v ∧
    IsTree (copyValCaps caps (run {} ops0) v).1 (copyValCaps caps (run {} ops0) v).2 :=
  ⟨(copy_fresh_on_built_heaps ops0 dd caps).1, copy_disjoint_on_built_heaps ops0 dd caps hx,
   (copy_equal_on_built_heaps ops0 d caps).1, copy_is_tree (closed_of_built ops0) dd caps⟩

/-! ### Non-vacuity -/

theorem exH_wf : Wf exH := wf_of_built _

/-- After `c := copy(x)` (handle @11): writes, appends, splices, slices, immutable and frozen versions, all through
the copy and what is derived from it. Only handles ≥ 11 are mentioned: a condition on the text, checked by `decide`. -/
def exOps2 : List Op := [.lit (.int 7), .lit (.int 0), .lit (.int 1), .setSel 11 [13, 14] 12, .idxGet 11 13,
  .append 15 [12] 4, .splice 11 [14, 14] 0 0, .immutable false 15, .lit .undef, .slice 15 13 19 0, .setSel 20 [13] 12,
  .freeze 11, .mkArr [11, 15] 2, .setSel 22 [14, 13] 12]

theorem exOps2_use : OpsUse (fun i => exH.regs.length ≤ i) exOps2 := by
  unfold OpsUse; decide

/-- `copy_then_any_ops_keep_original`: the original (handle @10 = `.ref 5`) prints the same after the whole sequence … -/
example : ∀ n, snapN n (run (step exH (.copy 10 [])).1 exOps2) (.ref 5) = snapN n exH (.ref 5) :=
  (copy_then_any_ops_keep_original (x := 10) exH_regs.1 exH_closed exH_wf exH_data [] (data_old exH_data) exOps2
    exOps2_use).2.1

/-- … while the sequence did write: the copy's first array (store 4) and the copy's header (object 10) changed. -/
example : (run (step exH (.copy 10 [])).1 exOps2).astores[4]? = some [.int 7, .int 7] ∧
    (step exH (.copy 10 [])).1.astores[4]? = some [.int 1, .int 2] ∧
    (run (step exH (.copy 10 [])).1 exOps2).objs[10]? = some (.arr true 7 0 2 3) ∧
    (step exH (.copy 10 [])).1.objs[10]? = some (.arr true 7 0 3 3) := by decide

/-- `copy_then_ops_on_old_keep_copy`: operations on the original and on other old handles keep the copy. -/
example := copy_then_ops_on_old_keep_copy (x := 10) exH_regs.1 exH_closed exH_wf exH_data []
  [.lit (.int 7), .lit (.int 0), .setSel 10 [13, 13] 12, .splice 10 [13] 0 0, .append 2 [12] 0]
  (by unfold OpsUse; decide)

/-- `step_keeps_sep` on one in-place `append` aimed at `[1, 2]` (handle @2), with `b` the immutable `[3]` (@5). -/
example := step_keeps_sep exH_closed exH_wf (b := .ref 3) (fun r e => by cases e; decide) (.append 2 [0] 0)
  (by
    intro x hx v hv
    have hx' : x = 2 ∨ x = 0 := by simpa [operands] using hx
    rcases hx' with rfl | rfl
    · have : v = .ref 0 := by
        have : exH.regs[2]? = some (.ref 0) := by decide
        rw [this] at hv; injection hv with hv; exact hv.symm
      subst this
      exact sep_of_sepB (n := 12) (by decide)
    · have : v = .int 1 := by
        have : exH.regs[0]? = some (.int 1) := by decide
        rw [this] at hv; injection hv with hv; exact hv.symm
      subst this
      exact sep_scalar (by intro r; simp))

/-- Internal sharing: `x := [s, s]` with `s := [1, 2]` is a data value, not a tree; its copy is fresh, disjoint, equal,
and a tree (`[s', s'']` with two different new arrays). -/
example := copy_dag_on_built_heaps [.lit (.int 1), .lit (.int 2), .mkArr [0, 1] 2, .mkArr [2, 2] 2] (x := 3)
  exDag_regs.1 exDag_plain exDag_data []

example : ¬ IsTree exDag (.ref 1) := exDag_not_tree

example : (copyVal exDag (.ref 1)).1.astores.drop 2 = [[.int 1, .int 2], [.int 1, .int 2], [.ref 2, .ref 3]] := by decide

end Tengo.Props.C10HeapInv

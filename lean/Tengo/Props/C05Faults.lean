import Tengo.Gen.FaultSites
import Tengo.Gen.RunContextShape
import Tengo.Model.FaultSites
import Tengo.Proofs.ConcShape
/-!
C05 — `fault_sites_covered`: the run-time fault-site inventory as a regenerated fact with a proved cover.

`Gen.FaultSites` (harness/cmd/extract/gen_faultsites.go) lists, for vm.go, objects.go, builtins.go, iterator.go,
formatter.go, tengo.go and script.go of /repo as they are NOW, every explicit `panic`, type assertion without
comma-ok, index and slice expression that is not statically in range, integer division by a non-constant, `make` of
a slice or channel with a size that is neither constant nor `len(x)`, and
every call that closes a cycle of native recursion (`recurse`), as (file, function, kind, text, occurrences).
`Model.FaultSites.Expect.expected` is the hand-written inventory with one justification per site.

* `fault_sites_match`: the regenerated list EQUALS the expected list (a new, moved, duplicated or removed site
  breaks this proof), likewise the file list, the recursive functions and the `recover()` calls.
* `every_panic_kind_recoverable`: every regenerated site of kind panic/assert/index/slice/div/make has a justification
  whose worst outcome is not `fatal`; if it can fire as a Go panic (`goPanic`) its function is not one that runs on
  the host's goroutine, and the goroutine of `Compiled.RunContext` it does run on has — in the source as it is
  now (`Gen.RunContextShape`) — a deferred function that calls `recover()` behind a non-nil guard and sends on the
  result channel in every clause of its type switch: the shape from which `Props/C05.goPanic_becomes_error` derives
  "a Go panic is returned as an error".
* `fatal_sites_are_native_recursion`: the sites whose outcome is `fatal` are exactly the `recurse` sites of the
  listed O9 functions (`Equals`/`String`/`Copy` of the container types and of `Error`, `ToInterface`,
  `freezeObject`); every other `recurse` site is bounded by construction or follows a host value.

What these theorems are NOT: a proof about Go that a site classed `cannotFire` cannot fire — the justification is
a reason on record (read off /repo site by site), exactly as in C04's `panic_sites_covered`. What is machine-checked
is that the record is complete for the source as it is now and that its classification has the stated form.
-/
namespace Tengo.Props.C05Faults
open Tengo.Model.FaultSites Tengo.Proofs.ConcShape

/-- **fault_sites_match.** The inventory regenerated from /repo equals the expected inventory. -/
theorem fault_sites_match : Tengo.Gen.FaultSites.sites = Expect.sites := by rfl

/-- **fault_sites_covered** (DESIGN §5): every regenerated site is an entry of the expected inventory. -/
theorem fault_sites_covered : ∀ s ∈ Tengo.Gen.FaultSites.sites, s ∈ Expect.sites :=
  fault_sites_match ▸ fun _ h => h

/-- The inventoried files are the anchored run-time files; the recursive declarations and the `recover()` calls
of these files are the expected ones. -/
theorem fault_inventory_scope :
    Tengo.Gen.FaultSites.files = Expect.files ∧
    Tengo.Gen.FaultSites.recursiveFunctions = Expect.recursiveFunctions ∧
    Tengo.Gen.FaultSites.recoverCalls = Expect.recoverCalls := ⟨rfl, rfl, rfl⟩

/-- Occurrences per kind (a changed count also breaks `fault_sites_match`). -/
theorem fault_kind_counts : Tengo.Gen.FaultSites.kindCounts =
    [("panic", 11), ("assert", 9), ("index", 314), ("slice", 44), ("div", 2), ("make", 14), ("recurse", 40)] := by decide

/-- The deferred function of RunContext's goroutine, in the source as it is now, recovers and sends in every clause. -/
def RecoverHandlesPanics : Prop :=
  "script.go: Compiled.RunContext" ∈ Tengo.Gen.FaultSites.recoverCalls ∧
  genRc.goBody = ["defer-func", "send ch v.Run()"] ∧ genRc.recoverGuard = true ∧
  genRc.recoverCases ≠ [] ∧ (∀ c ∈ genRc.recoverCases, c.2 = true) ∧ genRc.chanCap = some 1

theorem recover_handles_panics : RecoverHandlesPanics := by
  refine ⟨by decide, by decide, by decide, by decide, by decide, by decide⟩

/-- Boolean form of the per-entry condition of `every_panic_kind_recoverable`. -/
def panicEntryOk (p : Site × Just) : Bool :=
  !(panicKinds.contains p.1.kind) ||
    (p.2.outcome != .fatal && (p.2.outcome != .goPanic || !(Expect.hostSide.contains (p.1.file, p.1.fn))))

theorem panic_entries_ok : Expect.expected.all panicEntryOk = true := by decide

/-- **every_panic_kind_recoverable.** -/
theorem every_panic_kind_recoverable :
    ∀ s ∈ Tengo.Gen.FaultSites.sites, Site.kind s ∈ panicKinds →
      ∃ j, (s, j) ∈ Expect.expected ∧ j.outcome ≠ .fatal ∧
        (j.outcome = .goPanic → (Site.file s, Site.fn s) ∉ Expect.hostSide) ∧ RecoverHandlesPanics := by
  intro s hs hk
  rw [fault_sites_match] at hs
  obtain ⟨p, hp, rfl⟩ := List.mem_map.1 hs
  have h := List.all_eq_true.1 panic_entries_ok p hp
  have hk' : panicKinds.contains p.1.kind = true := List.contains_iff_mem.2 hk
  simp only [panicEntryOk, hk', Bool.not_true, Bool.false_or, Bool.and_eq_true, Bool.or_eq_true,
    bne_iff_ne, ne_eq, Bool.not_eq_true'] at h
  refine ⟨p.2, hp, h.1, ?_, recover_handles_panics⟩
  intro hg hmem
  rcases h.2 with h2 | h2
  · exact h2 hg
  · have := List.contains_iff_mem.2 hmem
    rw [h2] at this
    exact Bool.noConfusion this

/-- Non-vacuity: the stack push of the dispatch loop is a panic-kind site that CAN fire (the Go bounds check is the
stack-overflow detector) and is classed `goPanic`, not on the host side; integer division likewise. -/
example : (("vm.go", "VM.run", "index", "v.stack[v.sp]", 38) : Site) ∈ Tengo.Gen.FaultSites.sites ∧
    (("vm.go", "VM.run", "index", "v.stack[v.sp]", 38), Just.stackBoundsCheck) ∈ Expect.expected ∧
    Just.stackBoundsCheck.outcome = .goPanic ∧
    (("objects.go", "Int.BinaryOp", "div", "o.Value / rhs.Value", 1), Just.recoveredByRunContext) ∈ Expect.expected ∧
    (("builtins.go", "builtinBytes", "make", "make([]byte, int(n.Value))", 1), Just.recoveredByRunContext) ∈ Expect.expected := by
  decide

/-- Boolean form of the per-entry condition of `fatal_sites_are_native_recursion`. -/
def fatalEntryOk (p : Site × Just) : Bool :=
  (p.2.outcome == .fatal) ==
    (p.1.kind == "recurse" && Expect.nativeRecursion.contains (p.1.file, p.1.fn))

theorem fatal_entries_ok : Expect.expected.all fatalEntryOk = true := by decide

/-- **fatal_sites_are_native_recursion.** A regenerated site has a justification of outcome `fatal` exactly when it
is a `recurse` site of one of the listed native-recursion functions (the O9 class); every such function has one. -/
theorem fatal_sites_are_native_recursion :
    (∀ p ∈ Expect.expected, p.1 ∈ Tengo.Gen.FaultSites.sites ∧
      (p.2.outcome = .fatal ↔ p.1.kind = "recurse" ∧ (p.1.file, p.1.fn) ∈ Expect.nativeRecursion)) ∧
    (∀ f ∈ Expect.nativeRecursion, ∃ p ∈ Expect.expected, (p.1.file, p.1.fn) = f ∧ p.2.outcome = .fatal) := by
  refine ⟨?_, by set_option maxRecDepth 100000 in decide⟩
  intro p hp
  refine ⟨fault_sites_match ▸ List.mem_map.2 ⟨p, hp, rfl⟩, ?_⟩
  have h := List.all_eq_true.1 fatal_entries_ok p hp
  simp only [fatalEntryOk, beq_iff_eq] at h
  constructor
  · intro hf
    have : (p.2.outcome == Outcome.fatal) = true := by simp [hf]
    rw [h, Bool.and_eq_true] at this
    exact ⟨by simpa using this.1, List.contains_iff_mem.1 this.2⟩
  · rintro ⟨hk, hm⟩
    have : (p.1.kind == "recurse" && Expect.nativeRecursion.contains (p.1.file, p.1.fn)) = true := by
      rw [Bool.and_eq_true]; exact ⟨by simp [hk], List.contains_iff_mem.2 hm⟩
    rw [← h] at this
    simpa using this

/-- Non-vacuity: the site of O9 (`a == a` on a self-containing array) is in the regenerated inventory and fatal. -/
example : (("objects.go", "Array.Equals", "recurse", "e.Equals(xVal[i])", 1) : Site) ∈ Tengo.Gen.FaultSites.sites ∧
    (("objects.go", "Array.Equals", "recurse", "e.Equals(xVal[i])", 1), Just.unboundedNativeRecursion) ∈ Expect.expected ∧
    Just.unboundedNativeRecursion.outcome = .fatal := by decide

/-- Every `recurse` site that is NOT fatal is bounded by construction (formatter's `badVerb` cycle) or follows a
host-supplied value. -/
theorem nonfatal_recursion_classes :
    ∀ p ∈ Expect.expected, p.1.kind = "recurse" → p.2.outcome ≠ .fatal →
      p.2 = .boundedRecursion ∨ p.2 = .hostValueRecursion := by
  set_option maxRecDepth 100000 in decide

/-- Sites of functions that run on the host's goroutine (no tengo `recover()` on the stack) never have the outcome
`goPanic`: they cannot fire, are off the run path, or are the host-side native recursion of O9 (`ToInterface`). -/
theorem host_side_sites_do_not_panic :
    ∀ p ∈ Expect.expected, (p.1.file, p.1.fn) ∈ Expect.hostSide → p.2.outcome ≠ .goPanic ∧ p.2.outcome ≠ .returnedError := by
  set_option maxRecDepth 100000 in decide

end Tengo.Props.C05Faults

import Tengo.Props.C14
import Tengo.Props.C14VM
/-! C14: the source-position model theorems (`C14`: backward walk, advance table, frame walk, optimizer) and
the whole-VM theorems (`C14VM`: which instruction a failing dispatch of a verified program is in, where the
suspended frames stand, and what `VM.Run` therefore prints), as one module for the checker. -/

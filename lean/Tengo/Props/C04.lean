import Tengo.Gen.PanicSites
import Tengo.Model.Total
import Tengo.Model.Parser
import Tengo.Proofs.C04Scan
/-!
C04 — Scanner, parser and compiler are total on arbitrary source bytes.

1. Inventory ties: every partial operation (explicit `panic`, index, slice, type assertion, integer division)
   that the extractor finds in the front end and compiler files of /repo is in the hand-written expected
   inventory `Model.Total.Expect` (each with the reason it cannot fire); ParseFile's deferred function has the
   expected shape (recovers `bailout` only); `stmtStart` and the `advance` call sites are as modelled.
2. Scanner model (c20's `Model.Scanner`, defined without fuel): for EVERY byte string and EVERY unicode
   classification the token stream has at most |src| + 2 tokens, every token offset and every error offset
   is in [0, |src|], offsets are non-decreasing, the stream ends with the one and only EOF token at |src|;
   each `Scan()` step consumes at least one byte, except the automatic `;` in front of a comment, which
   clears `insertSemi` (so the measure `2·chars + insertSemi` strictly decreases).
3. Parser model: total on every byte string for what it models (first error ⇒ `none`), `parse_total_partial`.
   Error recovery is modelled separately (`Model.Total.Recover`): `advance_progress`, the fuel-free worst-case
   recovery loop and its bound, the error list cap.
4. Position arithmetic of source_file.go: binary search specification, 1 ≤ line ≤ number of lines,
   column ≥ 1, the offset lies on the reported line, for every offset.
-/
namespace Tengo.Props.C04
open Tengo.Model.Token Tengo.Model.Scanner Tengo.Model.Total Tengo.Proofs.C04Scan

/-! ## 1. Panic-site inventory -/

/-- **panic_sites_covered.** Every partial operation found in /repo (regenerated on every run) is an entry of
the expected inventory, with the same enclosing function, kind, text and number of occurrences. -/
theorem panic_sites_covered : ∀ s ∈ Tengo.Gen.PanicSites.sites, s ∈ Expect.sites := by
  first
    | exact (show Tengo.Gen.PanicSites.sites = Expect.sites from rfl) ▸ fun _ h => h
    | (set_option maxRecDepth 100000 in decide)  -- some expected site no longer exists: slower route

/-- The files inventoried are the anchored ones. -/
theorem inventory_files : Tengo.Gen.PanicSites.files =
    ["parser/scanner.go", "parser/parser.go", "parser/source_file.go", "compiler.go", "symbol_table.go",
     "script.go", "bytecode.go", "instructions.go"] := by decide

/-- No type assertion without comma-ok and no integer division with a non-constant divisor exists in these
files (a new one would also break `panic_sites_covered`). -/
theorem no_assert_no_div : Tengo.Gen.PanicSites.kindCounts.lookup "assert" = some 0 ∧
    Tengo.Gen.PanicSites.kindCounts.lookup "div" = some 0 := by decide

/-- **recovered-bailout shape.** The function deferred by ParseFile swallows exactly `bailout` and re-raises
everything else; `bailout` is raised only by `Parser.error`; no other `recover()` exists in the front end. -/
theorem parse_file_recover_shape :
    Tengo.Gen.PanicSites.parseFileDeferred = Expect.parseFileDeferred ∧
    Tengo.Gen.PanicSites.recoverCalls = Expect.recoverCalls ∧
    Tengo.Gen.PanicSites.bailoutRaised = Expect.bailoutRaised := by decide

/-- The synchronisation set of `advance` is the modelled one, at every call site. -/
theorem stmt_start_matches :
    Tengo.Gen.PanicSites.stmtStart = Recover.stmtStartToks.map Tok.name ∧
    Tengo.Gen.PanicSites.advanceSets = ["stmtStart"] := by decide

/-- `advance` and `error` of parser.go have the statement skeleton that `Recover.advance` / `Recover.report`
transcribe (progress guard `syncPos`/`syncCount < 10`; same-line suppression; bailout above 10 errors); `expect`
consumes a token also on a mismatch and `expectSemi` falls back to `advance`. -/
theorem recovery_shape_matches :
    Tengo.Gen.PanicSites.advanceBody = Expect.advanceBody ∧
    Tengo.Gen.PanicSites.errorBody = Expect.errorBody ∧
    Tengo.Gen.PanicSites.expectBody = Expect.expectBody ∧
    Tengo.Gen.PanicSites.expectSemiBody = Expect.expectSemiBody := ⟨rfl, rfl, rfl, rfl⟩

/-! ## 2. Scanner -/


/-! ### The theorems of the property -/

/-- **scan_total / scan_no_panic.** The scanner model is a total function of the source bytes (no fuel, no
partial indexing); for every byte string and every unicode classification it returns a token list that
ends with the EOF token at offset |src|, and no earlier token is EOF. -/
theorem scan_total (cls : Nat → Nat) (src : Bs) :
    ∃ ts, (scan cls src).toks = ts ++ [⟨.EOF, [], src.length⟩] ∧ ∀ t ∈ ts, t.tok ≠ .EOF := by
  have hl := (scan_ok cls src).last
  have hne : (scan cls src).toks ≠ [] := by intro h; simp [h] at hl
  refine ⟨(scan cls src).toks.dropLast, ?_, ?_⟩
  · have h1 := List.dropLast_concat_getLast hne
    have h2 := List.getLast?_eq_some_getLast hne
    rw [hl] at h2
    rw [← Option.some.inj h2] at h1
    exact h1.symm
  · intro t ht
    have hone : ∀ cs off ins, ∀ t ∈ (scanLoop cls cs off ins).toks.dropLast, t.tok ≠ .EOF :=
      scanLoop_one_eof cls
    revert t
    unfold scan
    generalize decodeAt 0 src = cs
    cases cs with
    | nil => dsimp only; exact hone _ _ _
    | cons c rest => dsimp only; split <;> exact hone _ _ _

/-- **scan_terminates (explicit bound).** At most |src| + 2 tokens (automatic `;` and EOF included). -/
theorem scan_token_bound (cls : Nat → Nat) (src : Bs) : (scan cls src).toks.length ≤ src.length + 2 :=
  (scan_ok cls src).count

/-- Every token starts inside the input (EOF at |src|). -/
theorem scan_offsets_in_input (cls : Nat → Nat) (src : Bs) : ∀ t ∈ (scan cls src).toks, t.off ≤ src.length :=
  (scan_ok cls src).offsets

/-- Token offsets never decrease. -/
theorem scan_offsets_sorted (cls : Nat → Nat) (src : Bs) :
    (scan cls src).toks.Pairwise (fun a b => a.off ≤ b.off) := (scan_ok cls src).sorted

/-- **error_pos_in_input (scanner).** Every error position lies in [0, |src|]. -/
theorem error_pos_in_input (cls : Nat → Nat) (src : Bs) : ∀ e ∈ (scan cls src).errs, e.off ≤ src.length :=
  (scan_ok cls src).errs

/-- The measure `scanLoop` recurses on. -/
def scanMeasure (cs : List Ch) (ins : Bool) : Nat := 2 * cs.length + (if ins then 1 else 0)

/-- **scan_progress.** One `Scan()` step on a non-empty rest (`c` has at least one byte, as every decoded
character has) moves the offset forward by at least one byte and strictly lowers the measure; the only step
that consumes nothing (automatic `;` before a comment, taken when `insertSemi` is set) clears the flag, which
also lowers the measure. At the end of input the loop stops. -/
theorem scan_progress (cls : Nat → Nat) (ins : Bool) (c : Ch) (rest : List Ch) (off : Nat)
    (hc : 1 ≤ c.bytes.length) :
    off < off + width (c :: rest.take (scan1 cls ins c rest).m) ∧
    scanMeasure (rest.drop (scan1 cls ins c rest).m) (scan1 cls ins c rest).ins < scanMeasure (c :: rest) ins ∧
    scanMeasure (c :: rest) false < scanMeasure (c :: rest) true := by
  refine ⟨?_, ?_, ?_⟩
  · rw [width_cons]; omega
  · simp only [scanMeasure, List.length_drop, List.length_cons]
    split <;> split <;> omega
  · simp [scanMeasure]

/-- Characters of any source have at least one byte and together exactly the bytes of the source. -/
theorem decode_covers (src : Bs) :
    width (decodeAt 0 src) = src.length ∧ ∀ c ∈ decodeAt 0 src, 1 ≤ c.bytes.length :=
  ⟨width_decodeAt 0 src, bytes_pos_of_mem_decodeAt 0 src⟩

/-! Non-vacuity: the bounds are attained / the hypotheses are met by concrete inputs. -/
example : (scan (fun _ => 0) [97]).toks.map (·.tok) = [.Ident, .Semicolon, .EOF] := by
  simp [scan, decodeAt, decodeRune, nextErr, scanLoop, scan1, scanR, isLetter, isAsciiLetter, identLen, litOf,
    Tok.lookup, Tok.keywords, Tok.all, Tok.isKeyword, Tok.code, Tok.keywordBeg, Tok.keywordEnd, Tok.bytes,
    Tok.str, identSemi, bomR, atComment, width]

/-! ## 3. Parser -/
section Parser
open Tengo.Model.Parser

/-- **parse_total_partial.** On every byte string the parser model answers: an AST (then the scanner reported
no error and the whole token stream up to EOF was consumed by statements) or `none` (the first scanner or
parser error). PARTIAL: the model stops at the first error; the error list (recovery by `advance`, same-line
suppression, the more-than-10-errors bailout, positions) is not produced by `parseFile`; those mechanisms are
modelled and proved terminating separately in section 5. -/
theorem parse_total_partial (fo : Bs → Option Nat) (cls : Nat → Nat) (src : Bs) :
    (∃ ss, parseFile fo cls src = some ss ∧ (scan cls src).errs = [] ∧
      ∃ r, parseStmtList fo (scan cls src).toks = some r ∧ r.val = ss ∧ tk r.rest = .EOF) ∨
    parseFile fo cls src = none := by
  unfold parseFile
  simp only
  split
  · rename_i he
    unfold parseToks
    split
    · exact Or.inr rfl
    · rename_i ss r hlt hp
      split
      · rename_i heof
        refine Or.inl ⟨ss, rfl, by simpa using he, ⟨ss, r, hlt⟩, hp, rfl, by simpa using heof⟩
      · exact Or.inr rfl
  · exact Or.inr rfl

/-- Every parsing function of the model returns strictly fewer tokens than its bound: the statement-level
functions consume at least one token, which is what makes the statement-list loop terminate on error-free
input (the bound is part of the result type, so this holds by construction). -/
theorem parse_stmt_consumes (fo : Bs → Option Nat) (ts : Toks) (r : Ok Tengo.Model.Ast.Stmt ts.length)
    (_ : parseStmt fo ts = some r) : r.rest.length < ts.length := r.lt

theorem parse_expr_consumes (fo : Bs → Option Nat) (ts : Toks) (r : Ok Tengo.Model.Ast.Expr ts.length)
    (_ : parseExpr fo ts = some r) : r.rest.length < ts.length := r.lt

end Parser

/-! ## 4. Position arithmetic -/
namespace Pos
open Tengo.Model.Total.Pos

/-- Monotone reading of a table. -/
def Mono (a : List Nat) : Prop := ∀ m n, m ≤ n → n < a.length → a.getD m 0 ≤ a.getD n 0

theorem mono_of_pairwise {a : List Nat} (h : a.Pairwise (· < ·)) : Mono a := by
  intro m n hmn hn
  rcases Nat.lt_or_eq_of_le hmn with hlt | rfl
  · have hm : m < a.length := by omega
    have := (List.pairwise_iff_getElem.mp h) m n hm hn hlt
    simp only [List.getD_eq_getElem?_getD, List.getElem?_eq_getElem hm, List.getElem?_eq_getElem hn,
      Option.getD_some]
    omega
  · exact Nat.le_refl _

/-- `searchInts`: every probe `a[h]` is inside the slice, and on return the entries below the result are
`≤ x`, those from the result on are `> x`. -/
theorem searchLoop_spec (a : List Nat) (x i j : Nat) (hm : Mono a) (hij : i ≤ j) (hj : j ≤ a.length)
    (hlo : ∀ n, n < i → a.getD n 0 ≤ x) (hhi : ∀ n, j ≤ n → n < a.length → x < a.getD n 0) :
    i ≤ searchLoop a x i j ∧ searchLoop a x i j ≤ j ∧
    (∀ n, n < searchLoop a x i j → a.getD n 0 ≤ x) ∧
    (∀ n, searchLoop a x i j ≤ n → n < a.length → x < a.getD n 0) := by
  fun_induction searchLoop a x i j with
  | case1 i j hlt h hle ih =>
    have hh : i ≤ h ∧ h < j := by simp only [h]; omega
    have := ih (by omega) hj
      (by
        intro n hn
        have : a.getD n 0 ≤ a.getD h 0 := hm n h (by omega) (by omega)
        omega)
      hhi
    exact ⟨by omega, this.2.1, this.2.2.1, this.2.2.2⟩
  | case2 i j hlt h hgt ih =>
    have hh : i ≤ h ∧ h < j := by simp only [h]; omega
    have := ih (by omega) (by omega) hlo
      (by
        intro n hn hnl
        have : a.getD h 0 ≤ a.getD n 0 := hm h n hn hnl
        omega)
    exact ⟨this.1, by omega, this.2.2.1, this.2.2.2⟩
  | case3 i j hge =>
    have : i = j := by omega
    subst this
    exact ⟨Nat.le_refl _, Nat.le_refl _, hlo, hhi⟩
theorem searchInts_spec (a : List Nat) (x : Nat) (hm : Mono a) :
    searchInts a x ≤ a.length ∧ (∀ n, n < searchInts a x → a.getD n 0 ≤ x) ∧
    (∀ n, searchInts a x ≤ n → n < a.length → x < a.getD n 0) := by
  have := searchLoop_spec a x 0 a.length hm (Nat.zero_le _) (Nat.le_refl _)
    (by intro n hn; omega) (by intro n h1 h2; omega)
  exact ⟨this.2.1, this.2.2.1, this.2.2.2⟩

theorem wf_head {lines : List Nat} (h : WF lines) : 0 < lines.length ∧ lines.getD 0 0 = 0 := by
  cases lines with
  | nil => simp [WF] at h
  | cons x xs => simp [WF] at h; simp [h.1]

/-- `position`: line and column are at least 1, the line exists, the offset lies on it. -/
theorem position_spec (lines : List Nat) (off : Nat) (h : WF lines) :
    1 ≤ (position lines off).line ∧ (position lines off).line ≤ lines.length ∧
    1 ≤ (position lines off).column ∧
    lines.getD ((position lines off).line - 1) 0 ≤ off ∧
    (position lines off).column = off - lines.getD ((position lines off).line - 1) 0 + 1 ∧
    ((position lines off).line < lines.length → off < lines.getD (position lines off).line 0) ∧
    (position lines off).offset = off := by
  have hs := searchInts_spec lines off (mono_of_pairwise h.2)
  have hh := wf_head h
  have hk : 1 ≤ searchInts lines off := by
    rcases Nat.eq_zero_or_pos (searchInts lines off) with h0 | h0
    · have := hs.2.2 0 (by omega) hh.1
      omega
    · exact h0
  have hp : position lines off =
      ⟨off, searchInts lines off, off - lines.getD (searchInts lines off - 1) 0 + 1⟩ := by
    simp only [position]; rw [if_pos hk]
  rw [hp]
  have hk1 : searchInts lines off - 1 < searchInts lines off := by omega
  refine ⟨hk, hs.1, Nat.le_add_left _ _, hs.2.1 _ hk1, rfl, ?_, rfl⟩
  intro hlt
  exact hs.2.2 _ (Nat.le_refl _) hlt

theorem le_getLast_of_pairwise {l : List Nat} {z : Nat} (hp : l.Pairwise (· < ·))
    (hz : l.getLast? = some z) : ∀ x ∈ l, x ≤ z := by
  induction l with
  | nil => simp
  | cons a as ih =>
    intro x hx
    cases as with
    | nil => simp at hz hx; omega
    | cons b bs =>
      have hz' : (b :: bs).getLast? = some z := by simpa [List.getLast?_cons_cons] using hz
      have hp' := (List.pairwise_cons.mp hp)
      have hbz := ih hp'.2 hz'
      rcases List.mem_cons.mp hx with rfl | h
      · have := hp'.1 b (by simp)
        have := hbz b (by simp)
        omega
      · exact hbz x h

theorem addLine_wf (size : Nat) (lines : List Nat) (off : Nat) (h : WF lines) :
    WF (addLine size lines off) := by
  unfold addLine
  split
  · rename_i hn
    have := wf_head h
    cases lines with
    | nil => simp at this
    | cons x xs => simp at hn
  · rename_i l hl
    split
    · rename_i hc
      refine ⟨?_, ?_⟩
      · cases lines with
        | nil => simp at hl
        | cons x xs => simpa [WF] using h.1
      · rw [List.pairwise_append]
        refine ⟨h.2, by simp, ?_⟩
        intro a ha b hb
        simp only [List.mem_singleton] at hb
        subst hb
        have := le_getLast_of_pairwise h.2 hl a ha
        omega
    · exact h

theorem foldl_addLine_wf (size : Nat) (offs lines : List Nat) (h : WF lines) :
    WF (offs.foldl (addLine size) lines) := by
  induction offs generalizing lines with
  | nil => exact h
  | cons o os ih => exact ih _ (addLine_wf size lines o h)

theorem lineTable_wf (src : Bs) : WF (lineTable src) :=
  foldl_addLine_wf _ _ _ (by simp [WF])

theorem addLine_lt (size : Nat) (lines : List Nat) (off : Nat)
    (h : ∀ x ∈ lines, x = 0 ∨ x < size) : ∀ x ∈ addLine size lines off, x = 0 ∨ x < size := by
  unfold addLine
  split <;> split <;> (try exact h)
  all_goals
    intro x hx
    rcases List.mem_append.mp hx with h1 | h1
    · exact h x h1
    · simp only [List.mem_singleton] at h1; subst h1; omega

theorem lineTable_lt (src : Bs) : ∀ x ∈ lineTable src, x = 0 ∨ x < src.length := by
  unfold lineTable
  generalize nlOffsets 0 src = offs
  have : ∀ x ∈ [0], x = 0 ∨ x < src.length := by simp
  revert this
  generalize [0] = l
  induction offs generalizing l with
  | nil => intro h; exact h
  | cons o os ih => intro h; exact ih _ (addLine_lt _ _ _ h)
end Pos

/-! ### Line table of a source -/
namespace Pos
open Tengo.Model.Total.Pos

/-- **position arithmetic.** For EVERY source and EVERY offset the position computed from the line table the
scanner builds has a line in 1 … number of lines and a column ≥ 1; the offset is not before the start of
that line and is before the start of the next line, if there is one. Line starts are 0 or inside the file. -/
theorem position_in_file (src : Bs) (off : Nat) :
    1 ≤ (position (lineTable src) off).line ∧
    (position (lineTable src) off).line ≤ (lineTable src).length ∧
    1 ≤ (position (lineTable src) off).column ∧
    (lineTable src).getD ((position (lineTable src) off).line - 1) 0 ≤ off ∧
    (position (lineTable src) off).column =
      off - (lineTable src).getD ((position (lineTable src) off).line - 1) 0 + 1 ∧
    ((position (lineTable src) off).line < (lineTable src).length →
      off < (lineTable src).getD (position (lineTable src) off).line 0) ∧
    (position (lineTable src) off).offset = off :=
  position_spec _ off (lineTable_wf src)

/-- The column never exceeds offset + 1 (so for `off ≤ |src|` it is at most |src| + 1). -/
theorem column_le (src : Bs) (off : Nat) : (position (lineTable src) off).column ≤ off + 1 := by
  have := position_in_file src off
  omega

/-- Non-vacuity: "a\nbc\n" has two lines (the final newline opens none); offset 2 ('b') is 2:1, offset 5
(EOF) is 2:4, offset 1 (the newline) is 1:2. -/
example : lineTable [97, 10, 98, 99, 10] = [0, 2] := by decide
example : position [0, 2] 2 = ⟨2, 2, 1⟩ ∧ position [0, 2] 5 = ⟨5, 2, 4⟩ ∧ position [0, 2] 1 = ⟨1, 1, 2⟩ := by
  simp [position, searchInts, searchLoop]

end Pos

/-! ## 5. Error recovery -/
namespace Recover
open Tengo.Model.Total.Recover

/-- `advance` returns a suffix of its input: it only ever skips tokens. -/
theorem advance_suffix (to : Tok → Bool) (ts : List Token) (s : Sync) :
    ∃ pre, ts = pre ++ (advance to ts s).1 := by
  induction ts with
  | nil => exact ⟨[], rfl⟩
  | cons t ts ih =>
    unfold advance
    split
    · exact ⟨[], rfl⟩
    · split
      · exact ⟨[], rfl⟩
      · split
        · exact ⟨[], rfl⟩
        · obtain ⟨pre, h⟩ := ih
          exact ⟨t :: pre, by rw [List.cons_append, ← h]⟩

/-- **advance_progress** (restated from the model, where it is the termination proof of `recoverLoop`). -/
theorem advance_progress' (to : Tok → Bool) (ts : List Token) (s : Sync) (h : tk ts ≠ .EOF) :
    potential (advance to ts s).1 (advance to ts s).2 < potential ts s :=
  advance_progress to ts s h

/-- The worst-case recovery loop makes at most `potential` ≤ 12·tokens + 11 rounds: even if every statement
fails without consuming anything, error recovery reaches EOF. -/
theorem recoverLoop_bound (to : Tok → Bool) (ts : List Token) (s : Sync) :
    recoverLoop to ts s ≤ potential ts s ∧ potential ts s ≤ 12 * ts.length + 11 := by
  refine ⟨?_, ?_⟩
  · fun_induction recoverLoop to ts s with
    | case1 ts s h => exact Nat.zero_le _
    | case2 ts s h ih =>
      have := advance_progress to ts s h
      omega
  · have := slack_le ts s
    simp only [potential]; omega

/-- **error list cap.** `p.error` either keeps the list (same line), appends (only while it has at most 10
entries) or bails out: a list that was within 11 entries stays within 11 entries. -/
theorem report_bounded (errs : List Nat) (line : Nat) (errs' : List Nat)
    (h : report errs line = some errs') : errs'.length ≤ max errs.length 11 := by
  unfold report at h
  split at h
  · split at h
    · simp at h; subst h; omega
    · split at h
      · simp at h
      · simp at h; subst h; simp only [List.length_append, List.length_singleton]; omega
  · simp at h; subst h; simp only [List.length_singleton]; omega

/-- Non-vacuity: on `} } }` style garbage (three tokens that start no statement, at offsets 0 2 4, then EOF)
with the real `stmtStart` set, `advance` skips to EOF; on `if if` it stops at the first `if` and, called again
at the same place, 10 more times, after which it must move on. -/
example : (advance stmtStart
    [⟨.RBrace, [], 0⟩, ⟨.RBrace, [], 2⟩, ⟨.RBrace, [], 4⟩, ⟨.EOF, [], 5⟩] {}).1 = [⟨.EOF, [], 5⟩] := by
  simp [advance, stmtStart, stmtStartToks]
example : (advance stmtStart [⟨.If, [], 0⟩, ⟨.If, [], 3⟩, ⟨.EOF, [], 5⟩] { pos := 1, cnt := 10 }).1 =
    [⟨.If, [], 3⟩, ⟨.EOF, [], 5⟩] := by
  simp [advance, stmtStart, stmtStartToks, posOf]
example : tk [⟨Tok.If, [], 0⟩] ≠ .EOF := by simp [tk]
example : report [1, 2, 3, 4, 5, 6, 7, 8, 9, 10, 11] 12 = none ∧ report [1, 2] 2 = some [1, 2] ∧
    report [1, 2] 3 = some [1, 2, 3] := by decide

end Recover
end Tengo.Props.C04

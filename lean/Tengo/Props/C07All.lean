import Tengo.Props.C07
import Tengo.Props.C07VM
import Tengo.Props.C07VMCompiled
/-! C07: the protocol theorems over `Model/Conc` (`C07`) and cancellation on the whole-VM model together with
the protocol theorems instantiated with the behaviour of a VM configuration (`C07VM`), and the two looping programs compiled from source and started from
`VM.initCore` (`C07VMCompiled`) — as one module for the checker. -/

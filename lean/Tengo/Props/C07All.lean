import Tengo.Props.C07
import Tengo.Props.C07VM
/-! C07: the protocol theorems over `Model/Conc` (`C07`) and cancellation on the whole-VM model together with
the protocol theorems instantiated with the behaviour of a VM configuration (`C07VM`) — as one module for the
checker. -/

import Tengo.Props.C02Compile
import Tengo.Props.C03Univ
import Tengo.Proofs.C03SourceCheck
/-!
C03 at SOURCE level — **dead-code elimination never changes what a compiled program does.**

For every source program the compiler model (`Tengo.Model.Compiler.compileFile`, compared byte for byte
with the real compiler on every run) compiles, within the three size hypotheses of `compile_verifies`:

* the compiled program is the dead-code-eliminated version of an UNOPTIMIZED TWIN: the same main
  function, the same constants, the same function layouts, every function body replaced by a raw body
  followed by `RET 0`; each raw body is a closed statement block (what the compiler proof records at
  `optimizeFunc`), and the stored body is exactly what the optimizer model makes of it
  (`compiled_is_optimized_twin`);
* the twin and the compiled program run alike on the whole-VM model (`Tengo.Model.VM.run`): the same
  number of dispatches and of tracked allocations and corresponding outcomes, for every fuel, allocation
  budget, globals, function-object store and heap, whatever heap identities the function constants
  carry (`compiled_runs_like_unoptimized`, `compiled_same_result`, `compiled_same_error`,
  `compiled_same_kind`), in particular as `VM.Run` starts the program (`compiled_run_init`).

The twin is given existentially (`∃ raws`): the raw bodies are the ones the invariant of the compiler
proof (`Tengo.Proofs.C02Compile.FnRec`) records when a function literal is closed. `checkUnopt` is the
decidable form for given raw bodies (used for the concrete instance below).

Hypotheses (those of `compile_verifies`, all decidable, evaluated per program by the driver line
`compilebounds`): `codeBound ss ≤ 2^30` (upper bound of the emitted bytes of every function: jump operands
are 4 bytes wide), at most 65536 constants and 65536 globals (2-byte operands). Without them operands are
truncated by `MakeInstruction` and the raw bodies need not decode to what was emitted.
-/
set_option linter.unusedSectionVars false
set_option linter.unusedVariables false
namespace Tengo.Props.C03Source
open Tengo.Model Tengo.Model.Spec Tengo.Model.Opcodes Tengo.Model.Optimizer Tengo.Model.VM
open Tengo.Model.Compiler (compileFile Bytecode')
open Tengo.Model.Spec (Expr Stmt)
open Tengo.Proofs.C03 Tengo.Proofs.C03Reloc Tengo.Props.C03Sim Tengo.Props.C03VM Tengo.Props.C03Univ
open Tengo.Proofs.C02Compile (toCode toCodeR)
open Tengo.Proofs.C03Source

abbrev codeBound := Tengo.Model.Compiler.codeBound

/-! ## 1. The compiled program is the optimized twin -/

/-- **compiled_is_optimized_twin (C03, source level).** Whatever the compiler model compiles has an
unoptimized twin: raw bodies `raws` (one per function constant, each a closed statement block shorter
than `2^30` bytes — `RawClosed`) such that, whatever heap identities `refs` the function constants carry,

* `twinOf (toCodeR refs bc) raws` — main, constants and function layouts of the compiled program, every
  function body replaced by `raws (k + 1)` followed by `RET 0` — has the shape `TwinCode` of the universal
  relocation theorem, and
* the compiled program is that twin with every function body replaced by the optimizer model's output
  on the raw body (`optBodies`). -/
theorem compiled_is_optimized_twin (ss : List Stmt) (inputs : List String) (bc : Bytecode')
    (h : compileFile ss inputs = .ok bc) (hsz : codeBound ss ≤ 2 ^ 30)
    (hconsts : bc.consts.length ≤ 65536) (hglobals : bc.maxGlobals ≤ 65536) :
    ∃ (mainIs : List Instr) (raws : Nat → Model.Bytes),
      UnoptTwin bc mainIs raws ∧
      (∃ B, mainIs = B ++ [⟨totalSize B, opSuspend, []⟩]) ∧
      (∀ k code nl np va, bc.consts[k]? = some (Compiler.Const.fn code nl np va) →
        RawClosed (raws (k + 1)) ∧ optBody (raws (k + 1)) = code.toArray) ∧
      ∀ refs : Nat → Nat,
        TwinCode (twinOf (toCodeR refs bc) raws) mainIs raws ∧
        (twinOf (toCodeR refs bc) raws).main = (toCodeR refs bc).main ∧
        (twinOf (toCodeR refs bc) raws).consts.size = (toCodeR refs bc).consts.size ∧
        (∀ k : Nat, (twinOf (toCodeR refs bc) raws).consts[k]? =
          ((toCodeR refs bc).consts[k]?).map (fun x => match x with
            | .fn f r => VM.Const.fn { f with insts := (twinBytes (raws (k + 1))).toArray } r
            | x => x)) ∧
        withBodies (twinOf (toCodeR refs bc) raws) (optBodies (twinOf (toCodeR refs bc) raws) raws) =
          toCodeR refs bc := by
  obtain ⟨mainIs, raws, htw, hB, hraw⟩ :=
    unopt_twin_exists h (by unfold codeBound Compiler.codeBound at hsz; omega) hconsts hglobals
  refine ⟨mainIs, raws, htw, hB, fun k code nl np va hk => ⟨hraw k code nl np va hk, (htw.fns k code nl np va hk).2.2⟩,
    fun refs => ⟨unopt_twin_code htw refs, twinOf_main _ _, twinOf_size _ _, twinOf_const _ _,
      unopt_twin_optimized htw refs⟩⟩

/-! ## 2. The twin and the compiled program run alike (for given raw bodies) -/

section run
variable {bc : Bytecode'} {mainIs : List Instr} {raws : Nat → Model.Bytes} (htw : UnoptTwin bc mainIs raws)
  (refs : Nat → Nat) (keep keep' fuel : Nat) (allocs : Int) (globals : Array Value) (fobjs : Array FnObj)
  (g : GSt) (h : St)
include htw

/-- **unopt_twin_run.** The unoptimized twin and the compiled program take the same number of
dispatches, perform the same number of tracked allocations and end in corresponding outcomes. -/
theorem unopt_twin_run :
    OutcomeRel (pmOf (optTabs mainIs raws))
        (run (twinOf (toCodeR refs bc) raws) keep fuel allocs ⟨initCore globals fobjs, g, h⟩ {}).1
        (run (toCodeR refs bc) keep' fuel allocs ⟨initCore globals fobjs, g, h⟩ {}).1 ∧
      (run (toCodeR refs bc) keep' fuel allocs ⟨initCore globals fobjs, g, h⟩ {}).2.steps =
        (run (twinOf (toCodeR refs bc) raws) keep fuel allocs ⟨initCore globals fobjs, g, h⟩ {}).2.steps ∧
      (run (toCodeR refs bc) keep' fuel allocs ⟨initCore globals fobjs, g, h⟩ {}).2.counted =
        (run (twinOf (toCodeR refs bc) raws) keep fuel allocs ⟨initCore globals fobjs, g, h⟩ {}).2.counted := by
  have htc := unopt_twin_code htw refs
  have := optimized_run htc (optBodies (twinOf (toCodeR refs bc) raws) raws) rfl (optBodies_are_opt htc)
    keep keep' fuel allocs globals fobjs g h
  rw [unopt_twin_optimized htw refs] at this
  exact this

/-- If the twin halts, the compiled program halts with the same stack, globals, function objects and
heap. -/
theorem unopt_twin_same_result (cfg : Cfg)
    (hh : (run (twinOf (toCodeR refs bc) raws) keep fuel allocs ⟨initCore globals fobjs, g, h⟩ {}).1 = .halted cfg) :
    ∃ cfg', (run (toCodeR refs bc) keep' fuel allocs ⟨initCore globals fobjs, g, h⟩ {}).1 = .halted cfg' ∧
      cfg'.core.regs = cfg.core.regs ∧ cfg'.gst = cfg.gst ∧ cfg'.heap = cfg.heap := by
  have htc := unopt_twin_code htw refs
  have := optimized_same_result htc (optBodies (twinOf (toCodeR refs bc) raws) raws) rfl (optBodies_are_opt htc)
    keep keep' fuel allocs globals fobjs g h cfg hh
  rw [unopt_twin_optimized htw refs] at this
  exact this

/-- If the twin fails with error `e` at offset `p` of function `idx`, the compiled program fails with the
same `e`, the same registers and heap, at the offset the position table gives for `p` in the same
function. -/
theorem unopt_twin_same_error (e : Err) (cfg : Cfg)
    (hh : (run (twinOf (toCodeR refs bc) raws) keep fuel allocs ⟨initCore globals fobjs, g, h⟩ {}).1 = .failed e cfg) :
    ∃ cfg', (run (toCodeR refs bc) keep' fuel allocs ⟨initCore globals fobjs, g, h⟩ {}).1 = .failed e cfg' ∧
      cfg' = mapCfg (pmOf (optTabs mainIs raws)) cfg ∧
      cfg'.core.regs = cfg.core.regs ∧ cfg'.gst = cfg.gst ∧ cfg'.heap = cfg.heap ∧
      cfg'.core.cur.fnIdx = cfg.core.cur.fnIdx ∧
      ∃ p q : Nat, cfg.core.cur.ip + 1 = p ∧ (optTabs mainIs raws cfg.core.cur.fnIdx).lookup p = some q ∧
        cfg'.core.cur.ip + 1 = q := by
  have htc := unopt_twin_code htw refs
  have := optimized_same_error htc (optBodies (twinOf (toCodeR refs bc) raws) raws) rfl (optBodies_are_opt htc)
    keep keep' fuel allocs globals fobjs g h e cfg hh
  rw [unopt_twin_optimized htw refs] at this
  exact this

/-- Both end in the same kind of outcome (halt, the same error, the same internal fault, allocation
limit, out of fuel). -/
theorem unopt_twin_same_kind :
    match (run (twinOf (toCodeR refs bc) raws) keep fuel allocs ⟨initCore globals fobjs, g, h⟩ {}).1,
          (run (toCodeR refs bc) keep' fuel allocs ⟨initCore globals fobjs, g, h⟩ {}).1 with
    | .halted _, .halted _ => True
    | .failed e _, .failed e' _ => e' = e
    | .fault ft _, .fault ft' _ => ft' = ft
    | .limit _, .limit _ => True
    | .outOfFuel _, .outOfFuel _ => True
    | _, _ => False := by
  have htc := unopt_twin_code htw refs
  have := optimized_same_kind htc (optBodies (twinOf (toCodeR refs bc) raws) raws) rfl (optBodies_are_opt htc)
    keep keep' fuel allocs globals fobjs g h
  rw [unopt_twin_optimized htw refs] at this
  exact this

end run

/-! ## 3. … for every source program -/

/-- **compiled_runs_like_unoptimized (C03, source level).** For every source program the compiler model
compiles: there is an unoptimized twin (`compiled_is_optimized_twin`) such that for every fuel,
allocation budget, globals, function-object store, heap and heap identities of the function constants
the twin and the compiled program take the same number of dispatches, perform the same number of tracked
allocations and end in corresponding outcomes. -/
theorem compiled_runs_like_unoptimized (ss : List Stmt) (inputs : List String) (bc : Bytecode')
    (h : compileFile ss inputs = .ok bc) (hsz : codeBound ss ≤ 2 ^ 30)
    (hconsts : bc.consts.length ≤ 65536) (hglobals : bc.maxGlobals ≤ 65536) :
    ∃ (mainIs : List Instr) (raws : Nat → Model.Bytes), UnoptTwin bc mainIs raws ∧
      ∀ (refs : Nat → Nat) (keep keep' fuel : Nat) (allocs : Int) (globals : Array Value) (fobjs : Array FnObj)
        (g : GSt) (heap : St),
        OutcomeRel (pmOf (optTabs mainIs raws))
          (run (twinOf (toCodeR refs bc) raws) keep fuel allocs ⟨initCore globals fobjs, g, heap⟩ {}).1
          (run (toCodeR refs bc) keep' fuel allocs ⟨initCore globals fobjs, g, heap⟩ {}).1 ∧
        (run (toCodeR refs bc) keep' fuel allocs ⟨initCore globals fobjs, g, heap⟩ {}).2.steps =
          (run (twinOf (toCodeR refs bc) raws) keep fuel allocs ⟨initCore globals fobjs, g, heap⟩ {}).2.steps ∧
        (run (toCodeR refs bc) keep' fuel allocs ⟨initCore globals fobjs, g, heap⟩ {}).2.counted =
          (run (twinOf (toCodeR refs bc) raws) keep fuel allocs ⟨initCore globals fobjs, g, heap⟩ {}).2.counted := by
  obtain ⟨mainIs, raws, htw, _⟩ := compiled_is_optimized_twin ss inputs bc h hsz hconsts hglobals
  exact ⟨mainIs, raws, htw, fun refs keep keep' fuel allocs globals fobjs g heap =>
    unopt_twin_run htw refs keep keep' fuel allocs globals fobjs g heap⟩

/-- **compiled_same_result.** If the unoptimized twin halts, the compiled program halts with the same
stack, globals, function objects and heap. -/
theorem compiled_same_result (ss : List Stmt) (inputs : List String) (bc : Bytecode')
    (h : compileFile ss inputs = .ok bc) (hsz : codeBound ss ≤ 2 ^ 30)
    (hconsts : bc.consts.length ≤ 65536) (hglobals : bc.maxGlobals ≤ 65536) :
    ∃ (mainIs : List Instr) (raws : Nat → Model.Bytes), UnoptTwin bc mainIs raws ∧
      ∀ (refs : Nat → Nat) (keep keep' fuel : Nat) (allocs : Int) (globals : Array Value) (fobjs : Array FnObj)
        (g : GSt) (heap : St) (cfg : Cfg),
        (run (twinOf (toCodeR refs bc) raws) keep fuel allocs ⟨initCore globals fobjs, g, heap⟩ {}).1 = .halted cfg →
        ∃ cfg', (run (toCodeR refs bc) keep' fuel allocs ⟨initCore globals fobjs, g, heap⟩ {}).1 = .halted cfg' ∧
          cfg'.core.regs = cfg.core.regs ∧ cfg'.gst = cfg.gst ∧ cfg'.heap = cfg.heap := by
  obtain ⟨mainIs, raws, htw, _⟩ := compiled_is_optimized_twin ss inputs bc h hsz hconsts hglobals
  exact ⟨mainIs, raws, htw, fun refs keep keep' fuel allocs globals fobjs g heap cfg hh =>
    unopt_twin_same_result htw refs keep keep' fuel allocs globals fobjs g heap cfg hh⟩

/-- **compiled_same_error.** If the unoptimized twin fails with error `e`, the compiled program fails with
the same `e`, the same registers and heap, in the same function, at the offset the position table gives. -/
theorem compiled_same_error (ss : List Stmt) (inputs : List String) (bc : Bytecode')
    (h : compileFile ss inputs = .ok bc) (hsz : codeBound ss ≤ 2 ^ 30)
    (hconsts : bc.consts.length ≤ 65536) (hglobals : bc.maxGlobals ≤ 65536) :
    ∃ (mainIs : List Instr) (raws : Nat → Model.Bytes), UnoptTwin bc mainIs raws ∧
      ∀ (refs : Nat → Nat) (keep keep' fuel : Nat) (allocs : Int) (globals : Array Value) (fobjs : Array FnObj)
        (g : GSt) (heap : St) (e : Err) (cfg : Cfg),
        (run (twinOf (toCodeR refs bc) raws) keep fuel allocs ⟨initCore globals fobjs, g, heap⟩ {}).1 = .failed e cfg →
        ∃ cfg', (run (toCodeR refs bc) keep' fuel allocs ⟨initCore globals fobjs, g, heap⟩ {}).1 = .failed e cfg' ∧
          cfg' = mapCfg (pmOf (optTabs mainIs raws)) cfg ∧
          cfg'.core.regs = cfg.core.regs ∧ cfg'.gst = cfg.gst ∧ cfg'.heap = cfg.heap ∧
          cfg'.core.cur.fnIdx = cfg.core.cur.fnIdx ∧
          ∃ p q : Nat, cfg.core.cur.ip + 1 = p ∧ (optTabs mainIs raws cfg.core.cur.fnIdx).lookup p = some q ∧
            cfg'.core.cur.ip + 1 = q := by
  obtain ⟨mainIs, raws, htw, _⟩ := compiled_is_optimized_twin ss inputs bc h hsz hconsts hglobals
  exact ⟨mainIs, raws, htw, fun refs keep keep' fuel allocs globals fobjs g heap e cfg hh =>
    unopt_twin_same_error htw refs keep keep' fuel allocs globals fobjs g heap e cfg hh⟩

/-- **compiled_same_kind.** The unoptimized twin and the compiled program end in the same kind of outcome
(halt, the same error, the same internal fault, allocation limit, out of fuel): dead-code elimination
introduces no error or fault and removes none. -/
theorem compiled_same_kind (ss : List Stmt) (inputs : List String) (bc : Bytecode')
    (h : compileFile ss inputs = .ok bc) (hsz : codeBound ss ≤ 2 ^ 30)
    (hconsts : bc.consts.length ≤ 65536) (hglobals : bc.maxGlobals ≤ 65536) :
    ∃ (mainIs : List Instr) (raws : Nat → Model.Bytes), UnoptTwin bc mainIs raws ∧
      ∀ (refs : Nat → Nat) (keep keep' fuel : Nat) (allocs : Int) (globals : Array Value) (fobjs : Array FnObj)
        (g : GSt) (heap : St),
        match (run (twinOf (toCodeR refs bc) raws) keep fuel allocs ⟨initCore globals fobjs, g, heap⟩ {}).1,
              (run (toCodeR refs bc) keep' fuel allocs ⟨initCore globals fobjs, g, heap⟩ {}).1 with
        | .halted _, .halted _ => True
        | .failed e _, .failed e' _ => e' = e
        | .fault ft _, .fault ft' _ => ft' = ft
        | .limit _, .limit _ => True
        | .outOfFuel _, .outOfFuel _ => True
        | _, _ => False := by
  obtain ⟨mainIs, raws, htw, _⟩ := compiled_is_optimized_twin ss inputs bc h hsz hconsts hglobals
  exact ⟨mainIs, raws, htw, fun refs keep keep' fuel allocs globals fobjs g heap =>
    unopt_twin_same_kind htw refs keep keep' fuel allocs globals fobjs g heap⟩

/-! ## 4. … as `VM.Run` starts the program -/

/-- **compiled_run_init.** The program as the VM model runs it (`VM.initFobjs (toCode bc)`: the function
constants loaded by CONST get their function objects) is the optimized version of a twin of the shape
`TwinCode`, and from the initial configuration of `VM.Run` the twin and the program run alike. Together
with `compiled_never_faults` (C02): the twin never faults either, and halts with an empty operand stack
whenever it halts. -/
theorem compiled_run_init (ss : List Stmt) (inputs : List String) (bc : Bytecode')
    (h : compileFile ss inputs = .ok bc) (hsz : codeBound ss ≤ 2 ^ 30)
    (hconsts : bc.consts.length ≤ 65536) (hglobals : bc.maxGlobals ≤ 65536) :
    ∃ (mainIs : List Instr) (raws : Nat → Model.Bytes) (twin : Code),
      TwinCode twin mainIs raws ∧ twin = twinOf (initFobjs (toCode bc)).1 raws ∧
      withBodies twin (optBodies twin raws) = (initFobjs (toCode bc)).1 ∧
      ∀ (keep keep' fuel : Nat) (allocs : Int) (globals : Array Value) (g : GSt) (heap : St),
        (OutcomeRel (pmOf (optTabs mainIs raws))
          (run twin keep fuel allocs ⟨initCore globals (initFobjs (toCode bc)).2, g, heap⟩ {}).1
          (run (initFobjs (toCode bc)).1 keep' fuel allocs ⟨initCore globals (initFobjs (toCode bc)).2, g, heap⟩ {}).1 ∧
        (run (initFobjs (toCode bc)).1 keep' fuel allocs ⟨initCore globals (initFobjs (toCode bc)).2, g, heap⟩ {}).2.steps =
          (run twin keep fuel allocs ⟨initCore globals (initFobjs (toCode bc)).2, g, heap⟩ {}).2.steps) ∧
        (globals.size = bc.maxGlobals →
          (∀ ft at_, (run twin keep fuel allocs ⟨initCore globals (initFobjs (toCode bc)).2, g, heap⟩ {}).1 ≠ .fault ft at_) ∧
          (∀ cfg, (run twin keep fuel allocs ⟨initCore globals (initFobjs (toCode bc)).2, g, heap⟩ {}).1 = .halted cfg →
            cfg.core.regs.sp = 0)) := by
  obtain ⟨mainIs, raws, htw, _⟩ := compiled_is_optimized_twin ss inputs bc h hsz hconsts hglobals
  obtain ⟨refs, hrefs⟩ := initFobjs_toCode bc
  refine ⟨mainIs, raws, twinOf (initFobjs (toCode bc)).1 raws, ?_, rfl, ?_, ?_⟩
  · rw [hrefs]; exact unopt_twin_code htw refs
  · rw [hrefs]; exact unopt_twin_optimized htw refs
  · intro keep keep' fuel allocs globals g heap
    have hrun := unopt_twin_run htw refs keep keep' fuel allocs globals (initFobjs (toCode bc)).2 g heap
    have hres := unopt_twin_same_result htw refs keep keep fuel allocs globals (initFobjs (toCode bc)).2 g heap
    have hkind := unopt_twin_same_kind htw refs keep keep fuel allocs globals (initFobjs (toCode bc)).2 g heap
    rw [← hrefs] at hrun hres hkind
    refine ⟨⟨hrun.1, hrun.2.1⟩, fun hG => ?_⟩
    obtain ⟨hnf, hhalt⟩ := Tengo.Props.C02Compile.compiled_never_faults ss inputs bc h hsz hconsts hglobals
      globals hG keep fuel allocs g heap
    constructor
    · intro ft at_ he
      rw [he] at hkind
      revert hkind
      cases hc : (run (initFobjs (toCode bc)).1 keep fuel allocs ⟨initCore globals (initFobjs (toCode bc)).2, g, heap⟩ {}).1 with
      | fault ft' at' => exact fun _ => hnf ft' at' hc
      | _ => exact fun hk => hk
    · intro cfg he
      obtain ⟨cfg', hc', hregs, _, _⟩ := hres cfg he
      have := (hhalt cfg' hc').1
      rw [hregs] at this
      exact this

/-! ## Non-vacuity -/

/-- `f := func(a) { if a < 0 { return 0; a = 7 }; return a + 1; a = 2 }; x := f(1)` — a function with code
after both of its `return`s. -/
def demo : List Stmt :=
  [ .assign "Define" [.ident "f"] [.func false ["a"]
      [ .ifs none (.bin "Less" (.ident "a") (.int 0)) [.ret (some (.int 0)), .assign "Assign" [.ident "a"] [.int 7]] none,
        .ret (some (.bin "Add" (.ident "a") (.int 1))),
        .assign "Assign" [.ident "a"] [.int 2] ]],
    .assign "Define" [.ident "x"] [.call false (.ident "f") [.int 1]] ]

/-- the raw body the compiler emits for `f` (constant 5) before `optimizeFunc`: 36 bytes
`GETL 0; CONST 0; BINOP <; JMPF 22; CONST 1; RET 1; CONST 2; SETL 0; GETL 0; CONST 3; BINOP +; RET 1; CONST 4; SETL 0` -/
def demoRaws : Nat → Model.Bytes
  | 6 => [25, 0, 0, 0, 0, 40, 38, 9, 0, 0, 0, 22, 0, 0, 1, 21, 1, 0, 0, 2, 26, 0, 25, 0, 0, 0, 3, 40, 11, 21, 1,
          0, 0, 4, 26, 0]
  | _ => []

/-- The hypotheses of the theorems of this file hold for `demo` (the model compiles it, within the
bounds), `demoRaws` are raw bodies of the compiled program in the sense of `UnoptTwin` (the decidable form
`checkUnopt`, evaluated), and something is really removed: the compiled body of `f` has 26 bytes (both
`SETL`s and their operands' `CONST`s are gone), the twin's body 38. -/
example : (match compileFile demo [] with
    | .ok bc => decide (bc.consts.length ≤ 65536) && decide (bc.maxGlobals ≤ 65536) && checkUnopt bc demoRaws &&
        (match bc.consts[5]? with
         | some (Compiler.Const.fn code _ _ _) => decide (code.length = 26) && decide ((twinBytes (demoRaws 6)).length = 38)
         | _ => false)
    | .error _ => false) = true ∧ codeBound demo ≤ 2 ^ 30 := by
  constructor <;> decide +kernel

/-- the conclusion of `compiled_runs_like_unoptimized` for `demo`, from the theorem -/
example : ∀ bc, compileFile demo [] = .ok bc → ∃ mainIs raws, UnoptTwin bc mainIs raws ∧
    ∀ refs keep fuel allocs globals fobjs g heap,
      (run (toCodeR refs bc) keep fuel allocs ⟨initCore globals fobjs, g, heap⟩ {}).2.steps =
        (run (twinOf (toCodeR refs bc) raws) keep fuel allocs ⟨initCore globals fobjs, g, heap⟩ {}).2.steps := by
  intro bc h
  have hb : (match compileFile demo [] with
      | .ok bc => decide (bc.consts.length ≤ 65536) && decide (bc.maxGlobals ≤ 65536)
      | .error _ => false) = true := by decide +kernel
  rw [h] at hb
  simp only [Bool.and_eq_true, decide_eq_true_eq] at hb
  obtain ⟨mainIs, raws, htw, hrun⟩ := compiled_runs_like_unoptimized demo [] bc h (by decide +kernel) hb.1 hb.2
  exact ⟨mainIs, raws, htw, fun refs keep fuel allocs globals fobjs g heap =>
    (hrun refs keep keep fuel allocs globals fobjs g heap).2.1⟩

/-- … and for the explicit twin of `demo` (body of `f` = `demoRaws 6 ++ RET 0`): it runs like the compiled
program, by `unopt_twin_run` from the evaluated check. -/
example : ∀ bc, compileFile demo [] = .ok bc → ∀ refs keep fuel allocs globals fobjs g heap,
    (run (toCodeR refs bc) keep fuel allocs ⟨initCore globals fobjs, g, heap⟩ {}).2.steps =
      (run (twinOf (toCodeR refs bc) demoRaws) keep fuel allocs ⟨initCore globals fobjs, g, heap⟩ {}).2.steps := by
  intro bc h refs keep fuel allocs globals fobjs g heap
  have hb : (match compileFile demo [] with
      | .ok bc => checkUnopt bc demoRaws
      | .error _ => false) = true := by decide +kernel
  rw [h] at hb
  obtain ⟨mainIs, htw⟩ := checkUnopt_sound hb
  exact (unopt_twin_run htw refs keep keep fuel allocs globals fobjs g heap).2.1

/-! ## 5. Given raw bodies (decidable form) -/

/-- **checked_unopt_run.** For raw bodies handed in from outside (the real compiler's optimizer inputs, hook
`VerifOptInput`): if the evaluated check `checkUnopt bc raws` passes, the twin built from THESE raw bodies
has the shape `TwinCode`, the compiled program is its optimized version, and the two run alike. -/
theorem checked_unopt_run (bc : Bytecode') (raws : Nat → Model.Bytes) (hc : checkUnopt bc raws = true) :
    ∃ mainIs : List Instr, UnoptTwin bc mainIs raws ∧
      ∀ (refs : Nat → Nat),
        TwinCode (twinOf (toCodeR refs bc) raws) mainIs raws ∧
        withBodies (twinOf (toCodeR refs bc) raws) (optBodies (twinOf (toCodeR refs bc) raws) raws) =
          toCodeR refs bc ∧
        ∀ (keep keep' fuel : Nat) (allocs : Int) (globals : Array Value) (fobjs : Array FnObj) (g : GSt) (heap : St),
          OutcomeRel (pmOf (optTabs mainIs raws))
            (run (twinOf (toCodeR refs bc) raws) keep fuel allocs ⟨initCore globals fobjs, g, heap⟩ {}).1
            (run (toCodeR refs bc) keep' fuel allocs ⟨initCore globals fobjs, g, heap⟩ {}).1 ∧
          (run (toCodeR refs bc) keep' fuel allocs ⟨initCore globals fobjs, g, heap⟩ {}).2.steps =
            (run (twinOf (toCodeR refs bc) raws) keep fuel allocs ⟨initCore globals fobjs, g, heap⟩ {}).2.steps ∧
          (run (toCodeR refs bc) keep' fuel allocs ⟨initCore globals fobjs, g, heap⟩ {}).2.counted =
            (run (twinOf (toCodeR refs bc) raws) keep fuel allocs ⟨initCore globals fobjs, g, heap⟩ {}).2.counted := by
  obtain ⟨mainIs, htw⟩ := checkUnopt_sound hc
  exact ⟨mainIs, htw, fun refs => ⟨unopt_twin_code htw refs, unopt_twin_optimized htw refs,
    fun keep keep' fuel allocs globals fobjs g heap => unopt_twin_run htw refs keep keep' fuel allocs globals fobjs g heap⟩⟩

/-
`compileFileTwin_spec_TODO` (NOT proved; no placeholder in the code). The constructive form of the twin:

  def compileFileTwin : List Stmt → List String → Except CompileErr Bytecode'
    -- `Tengo.Model.Compiler.compileFile` with `optimizeFunc` replaced by `discard <| emit opReturn [0]`

  theorem compileFileTwin_spec (h : compileFile ss inputs = .ok bc) (hsz : codeBound ss ≤ 2 ^ 30)
      (hconsts : bc.consts.length ≤ 65536) (hglobals : bc.maxGlobals ≤ 65536) :
      ∃ bct mainIs, compileFileTwin ss inputs = .ok bct ∧ bct.main = bc.main ∧ bct.maxGlobals = bc.maxGlobals ∧
        UnoptTwin bc mainIs (fun idx => rawOf of constant idx - 1 of bct) ∧
        ∀ refs, toCodeR refs bct = twinOf (toCodeR refs bc) (…)

What is proved instead: the raw bodies exist (`compiled_is_optimized_twin`, taken from the records `FnRec` of
the compiler proof, whose witness in `espec_func` is the instruction list of the function scope at
`optimizeFunc`), every statement about runs holds for ALL raw bodies satisfying `UnoptTwin`
(`unopt_twin_run` …), and per function literal (`Tengo.Proofs.C03Source.func_literal_stored`,
`func_literal_raw`): the constant stored for a literal is `optBody` of the instructions emitted for its body,
and from a state satisfying the compiler invariant these instructions are a closed block with well-formed
jumps below `2^30` bytes. Missing for the constructive form: a simulation between `compileFile` and the
instrumented compiler through all 35 cases of the traversal that also carries the table / constant part of
the invariant `Inv` to every function literal (needed to apply `all_spec` to the body); `FnRec` hides its
raw body existentially, so it cannot be read off the final invariant.
-/

end Tengo.Props.C03Source

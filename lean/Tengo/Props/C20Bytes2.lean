import Tengo.Props.C20Bytes
import Tengo.Proofs.C20Bytes2Print
/-!
C20 — byte level, round 2: literal operands and postfix chains.

`Props/C20Bytes` proves `parseFile (printFile [ExprStmt x]) = [ExprStmt y]`, `y.strip = x.strip` for operator trees over
identifiers / true / false / undefined. Here the fragment (`Frag2`) also has

* Int literals in every spelling the scanner reads as one Int token and `strconv.ParseInt(lit, 0, 64)` accepts
  (`intOk` + `intVal`: `0`, `42`, `017`, `1_000`, `0x1F`, `0o17`, `0b101`; the literal text is what the printer
  emits) and decimal Float literals — digits, fraction and/or exponent (`floatOk`: `1.5`, `1.`, `1e9`, `2.5E-3`; the
  value is the external `fo`),
* interpreted String literals and Char literals whose body consists of plain ASCII characters (1…127 except
  newline, the quote, the backslash), the simple escapes `\a \b \f \n \r \t \v \\` and `\"` resp. `\'`, and the
  numeric escapes `\ooo` (≤ 255) `\xhh` `\uhhhh` `\Uhhhhhhhh` (valid code point) — every escape `scanEscape` accepts
  (`strOk`, `chrOk`; decidable),
* selectors `a.b` (on an Int literal operand printed `(1).b`), index `a[i]`, slices `a[lo:hi]` (either bound
  optional), calls `f(x, y)` and `f(x, y...)` (the spread argument not a number literal: `f(1...)` does NOT re-scan,
  see `notes/C20.md`, candidate finding C20-4) — any nesting, any chain, on any operand of the fragment,
* array literals `[x, y]`, map literals `{a: x, b: y}` with identifier keys, `error(x)`, `immutable(x)` and
  `import("name")` (the name a plain string: `stringValue "name" = name`),

and the result is explicit: the parser returns `pf x`, the same tree with a ParenExpr around every operator node.

Why no precedence argument is needed here: `Node.String()` parenthesises every operator node, so the printed form
of EVERY expression is a primary expression (operand + postfix chain); `primOk` proves that `parsePrimaryExpr` on its
tokens, followed by ANY continuation, behaves like its postfix loop started with `pf x` on that continuation.
-/
namespace Tengo.Props.C20Bytes2
open Tengo.Model.Token Tengo.Model.Scanner Tengo.Model.Ast Tengo.Model.Parser Tengo.Model.Printer
open Tengo.Model.Literal
open Tengo.Proofs.C20Parser Tengo.Proofs.C20BytesScan Tengo.Proofs.C20BytesParse Tengo.Proofs.C20BytesPrint
open Tengo.Proofs.C20Bytes2Scan Tengo.Proofs.C20Bytes2Stream Tengo.Proofs.C20Bytes2Parse
open Tengo.Proofs.C20Bytes2Print
open Tengo.Proofs.C20BytesStream (endToks)

variable (fo : Bs → Option Nat) (cls : Nat → Nat)

/-! ## 1. Scanner steps -/

/-- **Delimiters.** Every operator / delimiter of the expression grammar, now including `.` `,` `[` `]` `{` `}` `...`: on its
spelling followed by ASCII text whose first rune does not extend it (`fuses2`: the table `fuses`, and for `.` a digit
— `.5` is a number — or another `.`) the scanner returns that token, consumes exactly its spelling, reports nothing,
and sets `insertSemi` iff the token is `)`, `]` or `}`. -/
theorem scan_operator2 (t : Tok) (hop : fragOp2 t = true) (bs : Bs) (off : Nat) (ins : Bool)
    (hf : fuses2 t (cur (chs bs)) = false) :
    scanLoop cls (chs t.bytes ++ chs bs) off ins =
      { toks := ⟨t, [], off⟩ :: (scanLoop cls (chs bs) (off + t.bytes.length) (insOp t)).toks,
        errs := (scanLoop cls (chs bs) (off + t.bytes.length) (insOp t)).errs } :=
  scanLoop_op2 cls t hop bs off ins hf

example : fragOp2 .Period = true ∧ fuses2 .Period 97 = false ∧ fuses2 .Period 53 = true ∧ fuses2 .Period 46 = true ∧
    fragOp2 .Comma = true ∧ fragOp2 .LBrack = true ∧ fragOp2 .RBrack = true ∧ insOp .RBrack = true ∧
    fragOp2 .Ellipsis = true ∧
    fuses2 .Sub 45 = true := by decide

/-- **Int literals.** An Int spelling (`intOk`: a digit followed by digits / `_` — decimal, legacy octal —, or `0b` `0o`
`0x` in either case followed by digits of that base / `_`) followed by a rune that is no letter, digit, `_` or `.`
(ASCII, or the end of input) scans as one Int token with the spelling as literal; `insertSemi` is set. -/
theorem scan_int_literal (ds : Bs) (hok : intOk ds = true) (bs : Bs) (off : Nat) (ins : Bool)
    (hs : litStop (cur (chs bs)) = true) :
    scanLoop cls (chs ds ++ chs bs) off ins =
      { toks := ⟨.Int, ds, off⟩ :: (scanLoop cls (chs bs) (off + ds.length) true).toks,
        errs := (scanLoop cls (chs bs) (off + ds.length) true).errs } :=
  scanLoop_int cls ds hok bs off ins hs

example : intOk "0123".toUTF8.toList = true ∧ intOk "12a".toUTF8.toList = false ∧ intOk "0xFf_1".toUTF8.toList = true ∧
    intOk "1_000".toUTF8.toList = true ∧ intOk "0b102".toUTF8.toList = false ∧ floatOk "3.25".toUTF8.toList = true ∧
    floatOk "1.".toUTF8.toList = true ∧ floatOk "1e5".toUTF8.toList = true ∧ floatOk "2.5E-3".toUTF8.toList = true ∧
    floatOk "1e+".toUTF8.toList = false ∧ floatOk ".5".toUTF8.toList = false ∧ litStop 41 = true ∧
    litStop 46 = false ∧ litStop 101 = false ∧ litStop 95 = false ∧ litStop eofR = true := by decide +kernel

/-- **Float literals.** Digits, then a fraction `.` digits (digits possibly none) and/or an exponent `e`/`E`, optional
sign, digits (`floatOk`), followed by a rune that cannot continue a number, scans as one Float token. -/
theorem scan_float_literal (lit : Bs) (hok : floatOk lit = true) (bs : Bs) (off : Nat) (ins : Bool)
    (hs : litStop (cur (chs bs)) = true) :
    scanLoop cls (chs lit ++ chs bs) off ins =
      { toks := ⟨.Float, lit, off⟩ :: (scanLoop cls (chs bs) (off + lit.length) true).toks,
        errs := (scanLoop cls (chs bs) (off + lit.length) true).errs } :=
  scanLoop_float cls lit hok bs off ins hs

/-- **String literals.** An interpreted string literal of the class `strOk` scans as one String token, whatever
follows. -/
theorem scan_string_literal (lit : Bs) (hok : strOk lit = true) (bs : Bs) (off : Nat) (ins : Bool) :
    scanLoop cls (chs lit ++ chs bs) off ins =
      { toks := ⟨.String, lit, off⟩ :: (scanLoop cls (chs bs) (off + lit.length) true).toks,
        errs := (scanLoop cls (chs bs) (off + lit.length) true).errs } :=
  scanLoop_str cls lit hok bs off ins

/-- **Char literals.** -/
theorem scan_char_literal (lit : Bs) (hok : chrOk lit = true) (bs : Bs) (off : Nat) (ins : Bool) :
    scanLoop cls (chs lit ++ chs bs) off ins =
      { toks := ⟨.Char, lit, off⟩ :: (scanLoop cls (chs bs) (off + lit.length) true).toks,
        errs := (scanLoop cls (chs bs) (off + lit.length) true).errs } :=
  scanLoop_chr cls lit hok bs off ins

example : strOk "\"a\\n b\\\"\"".toUTF8.toList = true ∧ strOk "\"\"".toUTF8.toList = true ∧
    strOk "\"a\\x41\\u00e9\\101\"".toUTF8.toList = true ∧ strOk "\"\\400\"".toUTF8.toList = false ∧
    strOk "\"\\ud800\"".toUTF8.toList = false ∧ strOk "\"\\q\"".toUTF8.toList = false ∧
    chrOk "'\\x41'".toUTF8.toList = true ∧ strOk "\"a".toUTF8.toList = false ∧
    chrOk "'x'".toUTF8.toList = true ∧ chrOk "'\\''".toUTF8.toList = true ∧ chrOk "'ab'".toUTF8.toList = false ∧
    chrOk "''".toUTF8.toList = false := by decide +kernel

/-- **scan_print_tokens2.** A source that is a printed token stream over the wider alphabet `Item2` (operators and
delimiters incl. `.` `,` `[` `]`; ASCII words; Int / String / Char literals of the classes above; blanks), every token
followed by a rune that neither fuses with it nor continues it (`StreamOk2`), scans to exactly those tokens (kind,
literal, byte offset: `place2 0`), then the automatic ";" iff the last token is in the insert-semicolon set, then
EOF; the scanner reports no error. -/
theorem scan_print_tokens2 (els : List El2) (h : StreamOk2 els eofR) :
    (scan cls (render2 els)).toks = place2 0 els ++ endToks (render2 els).length (lastIns2 false els) ∧
    (scan cls (render2 els)).errs = [] :=
  Tengo.Proofs.C20Bytes2Stream.scan_print_tokens2 cls els h

/-! ## 2. Printer, parser -/

/-- **print_lay2.** For every expression of the fragment the printer model emits, byte for byte, the stream `layE`. -/
theorem print_lay2 (x : Expr) (h : Frag2 fo x) : printExpr x = render2 (layE x) :=
  Tengo.Proofs.C20Bytes2Print.print_lay2 x h

/-- **The printed stream never fuses**, whatever non-identifier ASCII rune (or the end of input) follows. -/
theorem stream_lay2 (x : Expr) (h : Frag2 fo x) : StreamOk2 (layE x) eofR :=
  stream_lay x h eofR (by decide) (fun _ => by decide)

/-- **Token level.** On any token list with the (kind, literal) sequence of the printed form of `x` — whatever the
offsets — followed by any continuation `rest`, `parsePrimaryExpr` = its postfix loop started with `pf x` on `rest`;
in particular `parseExpr` returns `pf x` when `rest` starts with `)` `]` `,` `:` `;`. -/
theorem parse_print_tokens2 (x : Expr) (h : Frag2 fo x) (ts rest : Toks) (hk : ts.map key = keysOf (layE x)) :
    run (parsePrimary fo (ts ++ rest)) = run (postfixLoop fo (pf x) rest) ∧
    (Stop0 rest → run (parseExpr fo (ts ++ rest)) = some (pf x, rest)) :=
  ⟨(primOk x h).prim ts rest hk, fun hs => (primOk x h).expr ts rest hk hs⟩

/-- **parseFile_stream2.** Any layout (`StreamOk2`, last token in the insert-semicolon set) of the tokens of the
printed form of `x` parses, from BYTES, to the one expression statement `pf x`. -/
theorem parseFile_stream2 (x : Expr) (h : Frag2 fo x) (els : List El2) (hk : keysOf els = keysOf (layE x))
    (hok : StreamOk2 els eofR) (hlast : lastIns2 false els = true) :
    parseFile fo cls (render2 els) = some (.cons (.expr (pf x)) .nil) :=
  Tengo.Proofs.C20Bytes2Print.parseFile_stream2 fo cls x h els hk hok hlast

/-- **parse ∘ scan ∘ print on bytes, fragment 2.** For every expression `x` of `Frag2` the bytes `File.String()`
(model) emits for the file `x` parse back — scanner with UTF-8 decoding, maximal munch, literal automata and the
end-of-input semicolon; statement parser; expression parser with its postfix loop, call-argument loop and
index/slice parser — to exactly one expression statement, namely `pf x` (a ParenExpr around every operator node),
which is `x` up to ParenExpr nodes. `_partial`: see the module text of `notes/C20.md` for what `Frag2` leaves out
(hex floats, floats starting with `.` or with `_`, raw strings, non-ASCII text, `...` behind a number literal, map keys that
are not identifiers, function literals; the source is one expression statement). -/
theorem parse_scan_print_expr2_partial (x : Expr) (h : Frag2 fo x) :
    parseFile fo cls (printFile (.cons (.expr x) .nil)) = some (.cons (.expr (pf x)) .nil) ∧
    (pf x).strip = x.strip := by
  refine ⟨?_, pf_strip x⟩
  have h0 : printFile (.cons (.expr x) .nil) = printExpr x := rfl
  rw [h0, print_lay2 fo x h]
  exact parseFile_stream2 fo cls x h (layE x) rfl (stream_lay2 fo x h) (last_lay x h false)

/-- **Layout invariance (fragment 2, printer's token sequence).** Any two layouts — blanks anywhere between tokens, as
long as no token fuses with what follows — of the tokens of the printed form of `x` parse to the same statement list,
the one the printer's own layout gives. -/
theorem parse_layout_invariant2_partial (x : Expr) (h : Frag2 fo x) (l1 l2 : List El2)
    (h1 : keysOf l1 = keysOf (layE x)) (h2 : keysOf l2 = keysOf (layE x))
    (o1 : StreamOk2 l1 eofR) (o2 : StreamOk2 l2 eofR) (e1 : lastIns2 false l1 = true) (e2 : lastIns2 false l2 = true) :
    parseFile fo cls (render2 l1) = parseFile fo cls (render2 l2) ∧
    parseFile fo cls (render2 l1) = parseFile fo cls (printFile (.cons (.expr x) .nil)) := by
  rw [parseFile_stream2 fo cls x h l1 h1 o1 e1, parseFile_stream2 fo cls x h l2 h2 o2 e2,
    (parse_scan_print_expr2_partial fo cls x h).1]
  exact ⟨rfl, rfl⟩

/-- A second layout of the tokens of `(a)` (blanks inside the parentheses) that the theorem covers: same keys, different bytes. -/
example : keysOf (layE (.paren (.ident [97]))) = keysOf [opE .LParen, .sp, .it (.word [97]), .sp, opE .RParen] ∧
    render2 (layE (.paren (.ident [97]))) ≠ render2 [opE .LParen, .sp, .it (.word [97]), .sp, opE .RParen] ∧
    StreamOk2 [opE .LParen, .sp, .it (.word [97]), .sp, opE .RParen] eofR := by
  refine ⟨by decide +kernel, by decide +kernel, ?_⟩
  simp only [StreamOk2, opE, Item2.ok, Item2.sepOk, firstR2, Item2.text]
  decide +kernel

/-- `Frag2` contains the fragment of `Props/C20Bytes`. -/
theorem frag_frag2 : (x : Expr) → Tengo.Props.C20Bytes.Frag x → Frag2 fo x
  | .ident n, h => by simpa [Frag2, Tengo.Props.C20Bytes.Frag] using h
  | .bool _, _ => by simp [Frag2]
  | .undef, _ => by simp [Frag2]
  | .bin op l r, h => by
    simp only [Tengo.Props.C20Bytes.Frag] at h
    simp only [Frag2]
    exact ⟨h.1, frag_frag2 l h.2.1, frag_frag2 r h.2.2⟩
  | .un op e, h => by
    simp only [Tengo.Props.C20Bytes.Frag] at h
    simp only [Frag2]
    exact ⟨h.1, frag_frag2 e h.2⟩
  | .cond c t f, h => by
    simp only [Tengo.Props.C20Bytes.Frag] at h
    simp only [Frag2]
    exact ⟨frag_frag2 c h.1, frag_frag2 t h.2.1, frag_frag2 f h.2.2⟩
  | .paren e, h => by
    simp only [Tengo.Props.C20Bytes.Frag] at h
    simp only [Frag2]
    exact frag_frag2 e h
  | .int _ _, h => by simp [Tengo.Props.C20Bytes.Frag] at h
  | .float _ _, h => by simp [Tengo.Props.C20Bytes.Frag] at h
  | .char _ _, h => by simp [Tengo.Props.C20Bytes.Frag] at h
  | .str _ _, h => by simp [Tengo.Props.C20Bytes.Frag] at h
  | .arr _, h => by simp [Tengo.Props.C20Bytes.Frag] at h
  | .map _, h => by simp [Tengo.Props.C20Bytes.Frag] at h
  | .sel _ _, h => by simp [Tengo.Props.C20Bytes.Frag] at h
  | .idx _ _, h => by simp [Tengo.Props.C20Bytes.Frag] at h
  | .slice _ _ _, h => by simp [Tengo.Props.C20Bytes.Frag] at h
  | .call _ _ _, h => by simp [Tengo.Props.C20Bytes.Frag] at h
  | .func _ _ _, h => by simp [Tengo.Props.C20Bytes.Frag] at h
  | .imp _, h => by simp [Tengo.Props.C20Bytes.Frag] at h
  | .error _, h => by simp [Tengo.Props.C20Bytes.Frag] at h
  | .immutable _, h => by simp [Tengo.Props.C20Bytes.Frag] at h
  | .bad, h => by simp [Tengo.Props.C20Bytes.Frag] at h

/-! ### Non-vacuity -/

def bs (x : String) : Bs := x.toUTF8.toList

/-- `f(a[0x1F:], "s\n", 'c', [1, error(2)]).x[i] - 7 .y` (the selector on the Int literal `7` is printed `(7).y`). -/
def ex2 : Expr :=
  .bin .Sub
    (.idx
      (.sel
        (.call (.ident (bs "f"))
          (.cons (.slice (.ident (bs "a")) (.some (.int 31 (bs "0x1F"))) .none)
            (.cons (.str (bs "s\n") (bs "\"s\\n\"")) (.cons (.char 99 (bs "'c'"))
              (.cons (.arr (.cons (.int 1 (bs "1")) (.cons (.error (.int 2 (bs "2"))) .nil))) .nil)))) false)
        (bs "x"))
      (.some (.ident (bs "i"))))
    (.sel (.int 7 (bs "7")) (bs "y"))

theorem ex2_frag : Frag2 fo ex2 := by
  simp only [ex2, Frag2, Frag2s, Frag2O, Frag2I, isIntLit]
  decide +kernel

/-- What the printer model writes for it, and the instance of the theorem. -/
example : printFile (.cons (.expr ex2) .nil) = bs "(f(a[0x1F:], \"s\\n\", 'c', [1, error(2)]).x[i] - (7).y)" := by decide +kernel

example : parseFile fo cls (bs "(f(a[0x1F:], \"s\\n\", 'c', [1, error(2)]).x[i] - (7).y)") = some (.cons (.expr (pf ex2)) .nil) := by
  have h := (parse_scan_print_expr2_partial fo cls ex2 (ex2_frag fo)).1
  have hp : printFile (.cons (.expr ex2) .nil) = bs "(f(a[0x1F:], \"s\\n\", 'c', [1, error(2)]).x[i] - (7).y)" := by decide +kernel
  rw [hp] at h
  exact h

/-- `g(a, b...)` is in the fragment and printed like that; the spread of a number literal is not in the fragment:
`g(1...)` would scan as `g` `(` `1.` `.` `.` `)` (finding C20-4, repaired: the printer now writes `g((1)...)`, whose
re-parsed tree has a ParenExpr around the literal). -/
example : Frag2 fo (.call (.ident (bs "g")) (.cons (.ident (bs "a")) (.cons (.ident (bs "b")) .nil)) true) ∧
    printFile (.cons (.expr (.call (.ident (bs "g")) (.cons (.ident (bs "a")) (.cons (.ident (bs "b")) .nil)) true)) .nil) =
      bs "g(a, b...)" ∧
    ¬ Frag2 fo (.call (.ident (bs "g")) (.cons (.int 1 (bs "1")) .nil) true) ∧
    printFile (.cons (.expr (.call (.ident (bs "g")) (.cons (.int 1 (bs "1")) .nil) true)) .nil) = bs "g((1)...)" := by
  refine ⟨?_, by decide +kernel, ?_, by decide +kernel⟩
  · simp only [Frag2, Frag2s]
    decide +kernel
  · simp only [Frag2, Frag2s]
    decide +kernel

/-- A map literal with an array and a call inside. -/
example : Frag2 fo (.map (.cons (bs "a") (.int 1 (bs "1")) (.cons (bs "b")
      (.arr (.cons (.call (.ident (bs "f")) .nil false) .nil)) .nil))) ∧
    printFile (.cons (.expr (.map (.cons (bs "a") (.int 1 (bs "1")) (.cons (bs "b")
      (.arr (.cons (.call (.ident (bs "f")) .nil false) .nil)) .nil)))) .nil) = bs "{a: 1, b: [f()]}" := by
  refine ⟨?_, by decide +kernel⟩
  simp only [Frag2, Frag2s, Frag2M]
  decide +kernel

/-- `import("fmt").println` -/
example : Frag2 fo (.sel (.imp (bs "fmt")) (bs "println")) ∧
    printFile (.cons (.expr (.sel (.imp (bs "fmt")) (bs "println"))) .nil) = bs "import(\"fmt\").println" := by
  refine ⟨?_, by decide +kernel⟩
  simp only [Frag2]
  decide +kernel

/-- A Float literal is in the fragment whenever `strconv.ParseFloat` (the parameter `fo`) yields a value for it. -/
example (b : Nat) (h : fo (bs "2.5") = some b) :
    Frag2 fo (.bin .Mul (.float b (bs "2.5")) (.idx (.float b (bs "2.5")) (.some (.int 8 (bs "0o10"))))) := by
  simp only [Frag2, Frag2I, h]
  decide +kernel

end Tengo.Props.C20Bytes2

import Tengo.Props.C03Sim
import Tengo.Props.C03VM
/-! C03: the optimizer-model theorems (`C03`, `C03Sim`) and the whole-VM theorems about a passed
relocation check (`C03VM`), as one module for the checker. -/

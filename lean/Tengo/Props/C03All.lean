import Tengo.Props.C03Sim
import Tengo.Props.C03VM
import Tengo.Props.C03Univ
import Tengo.Proofs.C03Twin
import Tengo.Props.C03Source
import Tengo.Proofs.C03SourceLit
/-! C03: the optimizer-model theorems (`C03`, `C03Sim`) and the whole-VM theorems about a passed
relocation check (`C03VM`), and the universal theorem that the optimizer model's output always passes
that check against the unoptimized twin (`C03Univ`), as one module for the checker. -/

import Tengo.Model.SrcPos
import Tengo.Gen.ErrIpAdvance
import Tengo.Props.C03Sim
/-!
C14 — Run-time errors point at the statement that failed.

What is proved here is about the model `Tengo.Model.SrcPos` (`SourcePos`'s backward walk, the per-opcode
advance of `v.ip` at the error sites of `VM.run`, `VM.Run`'s frame walk) and, through `Tengo.Props.C03Sim`,
about the optimizer model. The advance table and the shape of `VM.Run` / `SourcePos` are regenerated from
vm.go / objects.go on every run (`ip_advance_matches`, `run_decoration_matches`). The compiler is not
modelled: the two compiler facts the end-to-end claim needs (`StmtAttribution`) are hypotheses here and are
checked on every compiled function by the `static` stream of harness/cmd/c14.
-/
namespace Tengo.Props.C14
open Tengo.Model Tengo.Model.Opcodes Tengo.Model.Optimizer Tengo.Model.SrcPos
open Tengo.Proofs.C03 Tengo.Props.C03Sim

/-! ## 1. Regenerated facts -/

/-- The hand-written advance table is what vm.go says now. -/
theorem ip_advance_matches : Tengo.Gen.ErrIpAdvance.table = Tengo.Model.SrcPos.ipAdvance := by decide

/-- CALL saves `v.ip` after both operand bytes. -/
theorem call_saved_ip_matches : Tengo.Gen.ErrIpAdvance.callSavedIp = Tengo.Model.SrcPos.callSavedIp := by
  decide

/-- `VM.Run` decorates with these formats, asks `SourcePos(ip − 1)`, and walks the frames downwards;
`SourcePos` is the backward walk modelled by `sourcePos`. -/
theorem run_decoration_matches :
    Tengo.Gen.ErrIpAdvance.runFormats = Tengo.Model.SrcPos.runFormats ∧
    Tengo.Gen.ErrIpAdvance.runSourcePosArgs = Tengo.Model.SrcPos.runSourcePosArgs ∧
    Tengo.Gen.ErrIpAdvance.runFrameWalk = Tengo.Model.SrcPos.runFrameWalk ∧
    Tengo.Gen.ErrIpAdvance.sourcePosShape = Tengo.Model.SrcPos.sourcePosShape := by
  refine ⟨?_, ?_, ?_, ?_⟩ <;> decide

/-- Every decoration format consumes the error with `%w` (so `errors.Is/As` see through it). That
`%w` keeps the chain is a fact about Go's fmt/errors, tested by the `unwrap` searcher. -/
theorem run_wraps_with_w : ∀ f ∈ Tengo.Model.SrcPos.runFormats, firstVerb f = some 'w' := by decide

/-- The advance never leaves the instruction, and it is zero exactly for opcodes without operand
bytes (finite: all rows of the opcode table). -/
theorem advance_inside_instr : ∀ r ∈ Opcodes.table, ∀ a, advanceOf r.2.1 = some a →
    a ≤ r.2.2.2.sum ∧ (a = 0 ↔ r.2.2.2 = []) := by decide

/-- The opcodes whose error sites see `v.ip` still on the opcode byte. -/
theorem zero_advance_ops : (Opcodes.table.filter (fun r => advanceOf r.2.1 == some 0)).map (fun r => r.1) =
    ["OpBComplement", "OpMinus", "OpError", "OpImmutable", "OpIndex", "OpSliceIndex", "OpIteratorInit"] := by
  decide

/-! ## 2. The backward walk -/

/-- Only instruction starts carry source-map entries. -/
def OnlyStarts (sm : SrcMap) (is : List Instr) : Prop :=
  ∀ k s, sm.lookup k = some s → ∃ x ∈ is, x.pos = k

/-- The walk stops at the first entry below. -/
theorem sourcePos_walk {sm : SrcMap} {p s : Nat} (hp : sm.lookup p = some s) :
    ∀ q, p ≤ q → (∀ k, p < k → k ≤ q → sm.lookup k = none) → sourcePos sm q = s := by
  intro q
  induction q with
  | zero =>
    intro h0 _
    have : p = 0 := by omega
    subst this
    simp [sourcePos, hp]
  | succ q ih =>
    intro hle hnone
    by_cases hpq : p = q + 1
    · subst hpq; simp [sourcePos, hp]
    · have hn : sm.lookup (q + 1) = none := hnone (q + 1) (by omega) (Nat.le_refl _)
      simp only [sourcePos, hn]
      exact ih (by omega) (fun k h1 h2 => hnone k h1 (by omega))

/-- No entry at or below `q`: `NoPos`. -/
theorem sourcePos_none {sm : SrcMap} : ∀ q, (∀ k, k ≤ q → sm.lookup k = none) → sourcePos sm q = 0 := by
  intro q
  induction q with
  | zero => intro h; simp [sourcePos, h 0 (Nat.le_refl _)]
  | succ q ih =>
    intro h
    simp only [sourcePos, h (q + 1) (Nat.le_refl _)]
    exact ih (fun k hk => h k (by omega))

theorem layout_sep {s0 : Nat} {l : List Instr} (h : Layout s0 l) {x y : Instr} (hx : x ∈ l) (hy : y ∈ l)
    (hlt : x.pos < y.pos) : x.pos + x.size ≤ y.pos := by
  induction l generalizing s0 with
  | nil => cases hx
  | cons a l ih =>
    obtain ⟨h1, h2⟩ := h
    rcases List.mem_cons.mp hx with rfl | hx' <;> rcases List.mem_cons.mp hy with rfl | hy'
    · omega
    · have := layout_ge h2 y hy'; omega
    · have := layout_ge h2 x hx'; have := size_pos y; omega
    · exact ih h2 hx' hy'

/-- **srcpos_finds_instr_start.** If only instruction starts carry entries and the instruction `x` has
the entry `s`, then `SourcePos(q)` for every byte `q` of `x` is `s`: the walk never returns a
neighbour's entry. -/
theorem srcpos_finds_instr_start {s0 : Nat} {is : List Instr} {sm : SrcMap} (hl : Layout s0 is)
    (ho : OnlyStarts sm is) {x : Instr} (hx : x ∈ is) {s : Nat} (hs : sm.lookup x.pos = some s)
    {q : Nat} (h1 : x.pos ≤ q) (h2 : q < x.pos + x.size) : sourcePos sm q = s := by
  apply sourcePos_walk hs q h1
  intro k hk1 hk2
  cases hk : sm.lookup k with
  | none => rfl
  | some s' =>
    exfalso
    obtain ⟨y, hy, hyk⟩ := ho k s' hk
    have := layout_sep hl hx hy (by omega)
    omega

/-- **report_own_entry.** An error raised after `v.ip` moved `a ≥ 1` bytes into the instruction (but not
past it) is reported at the instruction's own entry. -/
theorem report_own_entry {s0 : Nat} {is : List Instr} {sm : SrcMap} (hl : Layout s0 is)
    (ho : OnlyStarts sm is) {x : Instr} (hx : x ∈ is) {s : Nat} (hs : sm.lookup x.pos = some s)
    {a : Nat} (ha1 : 1 ≤ a) (ha2 : a < x.size) : reportedPos sm (x.pos + a) = s := by
  unfold reportedPos
  rw [if_neg (by omega)]
  exact srcpos_finds_instr_start hl ho hx hs (by omega) (by omega)

/-- **report_prev_entry.** With advance 0 (`v.ip` still on the opcode byte) `SourcePos(ip − 1)` starts in
the layout predecessor `w`: the report is the PREDECESSOR's entry, not the failing instruction's. -/
theorem report_prev_entry {s0 : Nat} {is : List Instr} {sm : SrcMap} (hl : Layout s0 is)
    (ho : OnlyStarts sm is) {x w : Instr} (hw : w ∈ is) (hadj : w.pos + w.size = x.pos)
    {t : Nat} (ht : sm.lookup w.pos = some t) : reportedPos sm (x.pos + 0) = t := by
  have := size_pos w
  unfold reportedPos
  rw [if_neg (by omega)]
  exact srcpos_finds_instr_start hl ho hw ht (by omega) (by omega)

/-- A zero-advance error at offset 0 would be reported at `NoPos`. -/
theorem report_nopos_at_zero (sm : SrcMap) : reportedPos sm 0 = 0 := rfl

theorem size_of_widths {x : Instr} {ws : List Nat} (h : widths x.op = some ws) : x.size = 1 + ws.sum := by
  simp [Instr.size, h]

theorem widths_of_opName {op : Nat} {n : String} (h : opName op = some n) :
    ∃ r ∈ Opcodes.table, r.2.1 = op ∧ widths op = some r.2.2.2 := by
  unfold opName at h
  cases hf : Opcodes.table.find? (fun r => r.2.1 == op) with
  | none => rw [hf] at h; cases h
  | some r =>
    refine ⟨r, List.mem_of_find?_eq_some hf, ?_, ?_⟩
    · simpa using List.find?_some hf
    · simp [widths, hf]

/-- For every opcode (not just the table rows): an error site's advance stays inside the instruction
and is 0 exactly when the opcode has no operand bytes. -/
theorem advance_lt_size {x : Instr} {a : Nat} (h : advanceOf x.op = some a) :
    a < x.size ∧ (a = 0 ↔ x.size = 1) := by
  have hn : ∃ n, opName x.op = some n := by
    unfold advanceOf at h
    cases ho : opName x.op with
    | none => rw [ho] at h; cases h
    | some n => exact ⟨n, rfl⟩
  obtain ⟨n, hn⟩ := hn
  obtain ⟨r, hr, hop, hw⟩ := widths_of_opName hn
  have := advance_inside_instr r hr a (by rw [hop]; exact h)
  rw [size_of_widths hw]
  refine ⟨by omega, ?_⟩
  constructor
  · intro h0; rw [this.2.mp h0]; rfl
  · intro h1
    have hs : r.2.2.2.sum = 0 := by omega
    omega

/-- **error_report_own.** Errors of opcodes with operand bytes (BINARYOP, CALL, ARR, MAP, SETSEL*,
CLOSURE) are reported at the failing instruction's own source-map entry. -/
theorem error_report_own {s0 : Nat} {is : List Instr} {sm : SrcMap} (hl : Layout s0 is)
    (ho : OnlyStarts sm is) {x : Instr} (hx : x ∈ is) {s : Nat} (hs : sm.lookup x.pos = some s)
    {a : Nat} (ha : advanceOf x.op = some a) (hpos : x.size ≠ 1) : reportAt sm x.op x.pos = some s := by
  obtain ⟨h1, h2⟩ := advance_lt_size ha
  have : 1 ≤ a := by
    rcases Nat.eq_zero_or_pos a with h0 | h0
    · exact absurd (h2.mp h0) hpos
    · exact h0
  simp only [reportAt, ha, Option.map_some]
  rw [report_own_entry hl ho hx hs this h1]

/-- **error_report_prev.** Errors of opcodes without operand bytes (INDEX, SLICE, both NEGs, ITER, ERROR,
IMMUT) are reported at the entry of the instruction laid out just before the failing one. -/
theorem error_report_prev {s0 : Nat} {is : List Instr} {sm : SrcMap} (hl : Layout s0 is)
    (ho : OnlyStarts sm is) {x w : Instr} (ha : advanceOf x.op = some 0) (hw : w ∈ is)
    (hadj : w.pos + w.size = x.pos) {t : Nat} (ht : sm.lookup w.pos = some t) :
    reportAt sm x.op x.pos = some t := by
  simp only [reportAt, ha, Option.map_some]
  rw [report_prev_entry hl ho hw hadj ht]

/-! ## 3. Statements -/

/-- Half-open byte span of a statement, in file-set positions. -/
structure Span where
  lo : Nat
  hi : Nat
  deriving Repr, DecidableEq

def Span.has (sp : Span) (p : Nat) : Prop := sp.lo ≤ p ∧ p < sp.hi

/-- The two compiler facts the end-to-end claim rests on. `stmtOf p` is the span of the innermost
statement whose compilation emitted the instruction at `p`; `live p` says the instruction at `p` can
execute (dead-code removal may leave an unreachable tail behind a jump target whose jumps were removed,
e.g. the `NEG; RET` of a dead `return -(3 || 10)`: such instructions never run and never fail).
* `entry_in_stmt` (srcmap_complete): every live instruction that can fail and has operand bytes has an
  entry and it lies in its statement (instructions that cannot fail may carry `NoPos`, e.g. the `CONST 1` of
  `x++`, or no entry at all, e.g. main's final SUSPEND);
* `first_instr_safe`: a live instruction whose errors are reported through its predecessor HAS a
  predecessor, and that predecessor's entry lies in the same statement.
The compiler is not modelled in this package; both are checked on every function of every generated
program by the `static` stream (real compiler, real parser spans, control-flow reachability for `live`). -/
structure StmtAttribution (is : List Instr) (sm : SrcMap) (stmtOf : Nat → Span) (live : Nat → Prop) : Prop where
  entry_in_stmt : ∀ x ∈ is, live x.pos → (∃ a, advanceOf x.op = some a) → x.size ≠ 1 →
    ∃ s, sm.lookup x.pos = some s ∧ (stmtOf x.pos).has s
  first_instr_safe : ∀ x ∈ is, live x.pos → advanceOf x.op = some 0 →
    ∃ w ∈ is, w.pos + w.size = x.pos ∧ ∃ t, sm.lookup w.pos = some t ∧ (stmtOf x.pos).has t

/-- **error_pos_in_stmt (partial: relative to `StmtAttribution`).** Whatever live instruction fails, the
reported position lies in the span of the statement the failing instruction belongs to. -/
theorem error_pos_in_stmt_partial {s0 : Nat} {is : List Instr} {sm : SrcMap} {stmtOf : Nat → Span}
    {live : Nat → Prop} (hl : Layout s0 is) (ho : OnlyStarts sm is) (hc : StmtAttribution is sm stmtOf live)
    {x : Instr} (hx : x ∈ is) (hlive : live x.pos) {a : Nat} (ha : advanceOf x.op = some a) :
    ∃ r, reportAt sm x.op x.pos = some r ∧ (stmtOf x.pos).has r := by
  by_cases h1 : x.size = 1
  · have h0 : a = 0 := (advance_lt_size ha).2.mpr h1
    subst h0
    obtain ⟨w, hw, hadj, t, ht, hin⟩ := hc.first_instr_safe x hx hlive ha
    exact ⟨t, error_report_prev hl ho ha hw hadj ht, hin⟩
  · obtain ⟨s, hs, hin⟩ := hc.entry_in_stmt x hx hlive ⟨a, ha⟩ h1
    exact ⟨s, error_report_own hl ho hx hs ha h1, hin⟩

/-! ## 4. Frames -/

theorem runTrace_snoc (outer : List Frame) (cur : Frame) (vip : Nat) :
    runTrace (outer ++ [cur]) vip =
      reportedPos cur.sm vip :: outer.reverse.map (fun f => reportedPos f.sm f.ip) := by
  simp [runTrace]

/-- One entry per active frame. -/
theorem trace_length (frames : List Frame) (vip : Nat) : (runTrace frames vip).length = frames.length := by
  unfold runTrace
  cases h : frames.reverse with
  | nil => simp [List.reverse_eq_nil_iff.mp h]
  | cons c o =>
    have : frames.length = (c :: o).length := by rw [← h, List.length_reverse]
    simp [this]

/-- A caller's saved `ip` points at the last operand byte of its CALL: `SourcePos(ip − 1)` is the CALL's
own entry. -/
theorem caller_entry {s0 : Nat} {is : List Instr} {f : Frame} (hl : Layout s0 is) (ho : OnlyStarts f.sm is)
    {c : Instr} (hc : c ∈ is) (hop : c.op = opCall) (hip : f.ip = c.pos + 2) {s : Nat}
    (hs : f.sm.lookup c.pos = some s) : reportedPos f.sm f.ip = s := by
  have hsz : c.size = 3 := by simp [Instr.size, hop]; decide
  rw [hip]
  exact report_own_entry hl ho hc hs (by omega) (by omega)

/-- What has to hold of a suspended frame: it is stopped in a CALL whose entry is `callPos`. -/
def Suspended (f : Frame) (callPos : Nat) : Prop :=
  ∃ (s0 : Nat) (is : List Instr) (c : Instr), Layout s0 is ∧ OnlyStarts f.sm is ∧ c ∈ is ∧ c.op = opCall ∧
    f.ip = c.pos + 2 ∧ f.sm.lookup c.pos = some callPos

/-- **trace_frames.** The decoration lists the failing frame's report first and then, innermost first,
for each suspended frame exactly the entry of the CALL it is suspended in. -/
theorem trace_frames (outer : List Frame) (cur : Frame) (vip : Nat) (callPos : Frame → Nat)
    (hs : ∀ f ∈ outer, Suspended f (callPos f)) :
    runTrace (outer ++ [cur]) vip = reportedPos cur.sm vip :: outer.reverse.map callPos := by
  rw [runTrace_snoc]
  congr 1
  apply List.map_congr_left
  intro f hf
  obtain ⟨s0, is, c, hl, ho, hc, hop, hip, hlk⟩ := hs f (List.mem_reverse.mp hf)
  exact caller_entry hl ho hc hop hip hlk

/-! ## 5. Optimized code -/

/-- The optimizer's source map has entries at output instruction starts only (whatever the input map). -/
theorem opt_srcmap_only_starts {is : List Instr} {endPos : Nat} {sm : SrcMap} {rp : Nat} {r : Result}
    (h : optInstrs is endPos sm rp = .ok r) (hl : Layout 0 is) : OnlyStarts r.srcMap r.insts := by
  intro k s hk
  have hs := optInstrs_ok h
  have hm := lookup_some_mem hk
  rw [hs.srcMap] at hm
  rcases List.mem_append.mp (mem_sortMap hm) with hm | hm
  · obtain ⟨p, _, hn⟩ := mem_smKept.mp hm
    obtain ⟨x, hx, hxp, _, _⟩ := posmap_dom hn
    subst hxp
    obtain ⟨y, hy, _⟩ := opt_out_instr h hl hx hn
    exact ⟨y, (fetch_some_mem hy).1, (fetch_some_mem hy).2⟩
  · cases ha : r.appended with
    | false => simp [ha] at hm
    | true =>
      simp only [ha, if_true, List.mem_singleton, Prod.mk.injEq] at hm
      refine ⟨retInstr (totalSize (kept is)), ?_, by simp [retInstr, hm.1]⟩
      rw [hs.insts, ha]; simp

/-- **opt_preserves_report (advance ≥ 1).** The optimized function reports the same position for the
same failing instruction: if `x` (kept, at `n` in the output) fails after `v.ip` advanced `a ≥ 1`
bytes, both reports are `x`'s original entry. -/
theorem opt_preserves_report {is : List Instr} {endPos : Nat} {sm : SrcMap} {rp : Nat} {r : Result}
    (h : optInstrs is endPos sm rp = .ok r) (hl : Layout 0 is)
    (hf : ∀ p s s', (p, s) ∈ sm → (p, s') ∈ sm → s = s') (ho : OnlyStarts sm is)
    {x : Instr} (hx : x ∈ is) {n : Nat} (hn : newPos is x.pos = some n) {s : Nat}
    (hs : sm.lookup x.pos = some s) {a : Nat} (ha1 : 1 ≤ a) (ha2 : a < x.size) :
    reportedPos r.srcMap (n + a) = s ∧ reportedPos sm (x.pos + a) = s := by
  refine ⟨?_, report_own_entry hl ho hx hs ha1 ha2⟩
  obtain ⟨y, hy, hyp, _, hysz, _⟩ := opt_out_instr h hl hx hn
  have hlk : r.srcMap.lookup y.pos = some s := by
    rw [hyp, opt_srcpos_eq h hl hf hn, hs]
  have := report_own_entry (opt_out_layout h) (opt_srcmap_only_starts h hl) (fetch_some_mem hy).1 hlk
    ha1 (by omega)
  rwa [hyp] at this

/-- **opt_preserves_report (advance 0).** If the layout predecessor `w` of `x` is kept and is no RETURN
(true of every zero-advance instruction the compiler emits: its operands are pushed by the
instructions just before it), the optimized function still reports `w`'s entry. When dead-code
removal changes the predecessor the report may change; the `static` stream checks it never does. -/
theorem opt_preserves_report_zero {is : List Instr} {endPos : Nat} {sm : SrcMap} {rp : Nat} {r : Result}
    (h : optInstrs is endPos sm rp = .ok r) (hl : Layout 0 is)
    (hf : ∀ p s s', (p, s) ∈ sm → (p, s') ∈ sm → s = s') (ho : OnlyStarts sm is)
    {x w : Instr} (hx : x ∈ is) (hw : w ∈ is) (hadj : w.pos + w.size = x.pos) (hwr : w.op ≠ opReturn)
    {m n : Nat} (hm : newPos is w.pos = some m) (hn : newPos is x.pos = some n) {t : Nat}
    (ht : sm.lookup w.pos = some t) :
    reportedPos r.srcMap (n + 0) = t ∧ reportedPos sm (x.pos + 0) = t := by
  refine ⟨?_, report_prev_entry hl ho hw hadj ht⟩
  have hnm : n = m + w.size := by
    rcases posmap_succ hl hw hm hwr with h1 | ⟨h1, _, _⟩
    · rw [hadj, hn] at h1; exact Option.some.inj h1
    · have := layout_end hl x hx
      have := size_pos x
      omega
  obtain ⟨y, hy, hyp, _, hysz, _⟩ := opt_out_instr h hl hw hm
  have hlk : r.srcMap.lookup y.pos = some t := by
    rw [hyp, opt_srcpos_eq h hl hf hm, ht]
  have hsz := size_pos w
  have hq := srcpos_finds_instr_start (opt_out_layout h) (opt_srcmap_only_starts h hl)
    (fetch_some_mem hy).1 hlk (q := n - 1) (by omega) (by omega)
  unfold reportedPos
  rw [if_neg (by omega)]
  exact hq

/-- **opt_same_report.** In the lock-step runs of C03 (`opt_simulates`), when the unoptimized run is at an
instruction `x` that fails with advance `a ≥ 1`, the optimized run is at its image with the same data
state and reports the same position. -/
theorem opt_same_report {σ ρ : Type} (M : Machine σ ρ) {is : List Instr} {endPos : Nat} {sm : SrcMap}
    {rp : Nat} {r : Result} (h : optInstrs is endPos sm rp = .ok r) (hl : Layout 0 is)
    (he : endPos = totalSize is) (hw : WFJumps is endPos) (h1 : OneOperand is)
    (hf : ∀ p s s', (p, s) ∈ sm → (p, s') ∈ sm → s = s') (ho : OnlyStarts sm is)
    (st : σ) (k : Nat) {x : Instr} (hx : x ∈ is) (st' : σ)
    (hrun : runN M is (some endPos) k (.running 0 st) = .running x.pos st')
    {s : Nat} (hs : sm.lookup x.pos = some s) {a : Nat} (ha1 : 1 ≤ a) (ha2 : a < x.size) :
    ∃ q, runN M r.insts none k (.running 0 st) = .running q st' ∧
      reportedPos r.srcMap (q + a) = reportedPos sm (x.pos + a) := by
  have hsim := opt_simulates M h hl he hw h1 st k
  rw [hrun] at hsim
  cases hc : runN M r.insts none k (.running 0 st) with
  | running q s'' =>
    rw [hc] at hsim
    obtain ⟨rfl, hq | ⟨hpe, _, _⟩⟩ := hsim
    · obtain ⟨e1, e2⟩ := opt_preserves_report h hl hf ho hx hq hs ha1 ha2
      exact ⟨q, rfl, e1.trans e2.symm⟩
    · have := layout_end hl x hx
      have := size_pos x
      omega
  | halted v => rw [hc] at hsim; exact hsim.elim
  | stuck => rw [hc] at hsim; exact hsim.elim

/-! ## 6. Non-vacuity -/

/-- `GETL 0; MINUS; CONST 0; BINARYOP 11; RET 1` at offsets 0,2,3,6,8. -/
def exF : List Instr :=
  [⟨0, opGetLocal, [0]⟩, ⟨2, opMinus, []⟩, ⟨3, opConstant, [0]⟩, ⟨6, opBinaryOp, [11]⟩, ⟨8, opReturn, [1]⟩]
def exFsm : SrcMap := [(0, 41), (2, 40), (3, 45), (6, 40), (8, 33)]

theorem exF_layout : Layout 0 exF := ⟨rfl, rfl, rfl, rfl, rfl, trivial⟩
theorem exF_only : OnlyStarts exFsm exF := by
  intro k s hk
  have hm := lookup_some_mem hk
  simp only [exFsm, List.mem_cons, Prod.mk.injEq, List.not_mem_nil, or_false] at hm
  rcases hm with ⟨rfl, _⟩ | ⟨rfl, _⟩ | ⟨rfl, _⟩ | ⟨rfl, _⟩ | ⟨rfl, _⟩ <;> simp [exF]

/-- BINARYOP (advance 1): its own entry 40; MINUS (advance 0): the entry of GETL, 41 — not its own 40. -/
example : reportAt exFsm opBinaryOp 6 = some 40 :=
  error_report_own exF_layout exF_only (x := ⟨6, opBinaryOp, [11]⟩) (by decide) (by decide) (a := 1)
    (by decide) (by decide)
example : reportAt exFsm opMinus 2 = some 41 :=
  error_report_prev exF_layout exF_only (x := ⟨2, opMinus, []⟩) (w := ⟨0, opGetLocal, [0]⟩) (by decide)
    (by decide) (by decide) (by decide)
example : sourcePos exFsm 7 = 40 ∧ sourcePos exFsm 5 = 45 ∧ sourcePos exFsm 1 = 41 ∧ sourcePos [] 9 = 0 := by
  decide

/-- Statement attribution for the example: one statement `return -a + 1` spanning [33, 50). -/
example : StmtAttribution exF exFsm (fun _ => ⟨33, 50⟩) (fun _ => True) := by
  constructor
  · intro x hx _ _ _
    simp only [exF, List.mem_cons, List.not_mem_nil, or_false] at hx
    rcases hx with rfl | rfl | rfl | rfl | rfl
    · exact ⟨41, by decide, by decide, by decide⟩
    · exact ⟨40, by decide, by decide, by decide⟩
    · exact ⟨45, by decide, by decide, by decide⟩
    · exact ⟨40, by decide, by decide, by decide⟩
    · exact ⟨33, by decide, by decide, by decide⟩
  · intro x hx _ ha
    simp only [exF, List.mem_cons, List.not_mem_nil, or_false] at hx
    rcases hx with rfl | rfl | rfl | rfl | rfl
    · exact absurd ha (by decide)
    · exact ⟨⟨0, opGetLocal, [0]⟩, by decide, by decide, 41, by decide, by decide, by decide⟩
    · exact absurd ha (by decide)
    · exact absurd ha (by decide)
    · exact absurd ha (by decide)

/-- Two frames: main suspended in `CALL 0 0` at offset 3 (entry 7), callee failing in BINARYOP at 6. -/
def exMain : List Instr := [⟨0, opConstant, [0]⟩, ⟨3, opCall, [0, 0]⟩, ⟨6, opPop, []⟩, ⟨7, opSuspend, []⟩]
def exMainSm : SrcMap := [(0, 5), (3, 7), (6, 7), (7, 0)]

example : runTrace [⟨exMainSm, 5⟩, ⟨exFsm, 0⟩] 7 = [40, 7] := by decide
example : Suspended ⟨exMainSm, 5⟩ 7 := by
  refine ⟨0, exMain, ⟨3, opCall, [0, 0]⟩, ⟨rfl, rfl, rfl, rfl, trivial⟩, ?_, by decide, rfl, rfl, by decide⟩
  intro k s hk
  have hm := lookup_some_mem hk
  simp only [exMainSm, List.mem_cons, Prod.mk.injEq, List.not_mem_nil, or_false] at hm
  rcases hm with ⟨rfl, _⟩ | ⟨rfl, _⟩ | ⟨rfl, _⟩ | ⟨rfl, _⟩ <;> simp [exMain]

/-- The C03 running example meets the hypotheses of `opt_preserves_report`: `RET 1` at 5 ↦ 5, advance 1. -/
example : OnlyStarts exSm ex := by
  intro k s hk
  have hm := lookup_some_mem hk
  simp only [exSm, List.mem_cons, Prod.mk.injEq, List.not_mem_nil, or_false] at hm
  rcases hm with ⟨rfl, _⟩ | ⟨rfl, _⟩ | ⟨rfl, _⟩ | ⟨rfl, _⟩ <;> simp [ex]
example : newPos ex 5 = some 5 ∧ exSm.lookup 5 = some 101 ∧
    reportedPos exOut.srcMap (5 + 1) = 101 ∧ reportedPos exSm (5 + 1) = 101 := by decide

end Tengo.Props.C14

import Tengo.Proofs.C02CompileProg
import Tengo.Proofs.C02CompileRun
import Tengo.Proofs.VMSafe
/-!
C02 — `compile_verifies`: **whatever the compiler model emits is accepted by the bytecode verifier.**

`Tengo.Model.Compiler` is the model of the whole compiler (compared byte for byte with the real compiler
on every run by the `comp` stream of C01); `Tengo.Model.Verifier` / `Tengo.Model.VM.checkProgram` is the
verifier whose acceptance implies, on the whole-VM model, that no run faults (`Tengo.Props.C02`). This
file closes the gap between the two for EVERY program: if `compileFile ss inputs = .ok bc` then there are
tables `t` with `checkProgram (toCode bc) bc.maxGlobals t = true` — every function of the program decodes,
every jump lands on an instruction start of its function, the operand-stack height at every instruction is
the same along all paths and never negative, no path runs off the end (every path ends in RETURN, or
SUSPEND in the main function), every constant / local / free / builtin / global operand names an existing
slot, and a CALL followed by RETURN has the tail-call shape.

The proof is in layers (`Tengo/Proofs/C02Compile*.lean`):

1. layout (`emit_appends`, `changeOperand_patches`, `emitted_decodes`);
2. expressions (`compileExpr_block`): the code of an expression is a closed block from height `a` to
   `a + 1`, for every `a`;
3. statements (`compileStmt_block`): the code of a statement is a block from height 0 to height 0, closed
   except for the pending `break` / `continue` jumps of the enclosing loop, whatever they are patched to;
4. functions and programs (`compile_verifies`), with the optimizer (`opt_transfer`).

Hypotheses of `compile_verifies` (all decidable, evaluated by the driver per program): the code-size bound
`codeBound ss ≤ 2 ^ 30` (`Tengo.Model.Compiler.szSs`, an upper bound of the emitted bytes of every function
before optimization: the jump operands are 4 bytes wide, and the ill-formed AST node "spread call without
argument", which the parser never produces, is given the size `2 ^ 32`), at most 65536 constants and at most
65536 globals (2-byte operands). Without them the statement is false (operands are truncated to their
widths by `MakeInstruction`).
-/
set_option linter.unusedVariables false
namespace Tengo.Props.C02Compile
open Tengo.Model Tengo.Model.Opcodes Tengo.Model.Compiler Tengo.Model.Optimizer Tengo.Model.Verifier
open Tengo.Model.VM
open Tengo.Model.Spec (Expr Stmt)
open Tengo.Proofs.C03 Tengo.Proofs.C03Reloc Tengo.Proofs.C02Compile

/-! ## 1. Layout -/

/-- **emit_appends.** `emit op args` appends exactly the instruction `⟨size, op, args⟩` to the (ideal)
instruction list of the current function and returns its position. -/
theorem emit_appends {s : CState} {L : List Instr} (h : Emitted s L) {op : Nat} {args : List Nat}
    (hs : Shape ⟨totalSize L, op, args⟩) :
    emit op args s = .ok (totalSize L, emitS op args s) ∧
    Emitted (emitS op args s) (L ++ [⟨totalSize L, op, args⟩]) := by
  refine ⟨?_, emit_emitted h hs⟩
  rw [emit_run, h.size]

/-- **changeOperand_patches.** `changeOperand p t` rewrites only the operand of the jump at `p`; sizes,
positions and all other instructions are unchanged. -/
theorem changeOperand_patches {s : CState} {L : List Instr} (h : Emitted s L) {i : Instr} {p t : Nat}
    (hi : i ∈ L) (hp : i.pos = p) (hj : isJump i.op = true) :
    changeOperand p t s = .ok ((), chgS p t s) ∧ Emitted (chgS p t s) (L.map (patchI p t)) :=
  ⟨changeOperand_run p t s, changeOperand_emitted h hi hp (widths_jump hj)⟩

/-- **emitted_decodes.** Once every operand fits its width, the bytes of the current function decode
(`iterateInstructions`) to the list of emitted instructions. -/
theorem emitted_decodes {s : CState} {L : List Instr} (h : Emitted s L)
    (hfit : ∀ i ∈ L, ∀ ws, widths i.op = some ws → ArgsFit ws i.args) : decode s.insts.toList = some L :=
  emitted_decode h hfit

/-! ## 2. Expressions -/

/-- What `EBlk lo hi a B` says, spelled out: a height function `H` with `H lo = a`, `H hi = a + 1`, for
which no instruction of `B` underflows and every abstract successor (`Verifier.succs`) of every
instruction is an instruction start of `B` or its end `hi`, with the height `H` says; and `B` contains
neither POP nor RETURN. -/
theorem eblk_meaning {lo hi a : Nat} {B : List Instr} (h : EBlk lo hi a B) :
    ∃ H : Nat → Nat, H lo = a ∧ H hi = a + 1 ∧ Layout lo B ∧ hi = lo + totalSize B ∧
      (∀ i ∈ B, ∃ l, succs i (H i.pos) = some l ∧
        ∀ q ∈ l, (q.1 = hi ∨ ∃ j ∈ B, j.pos = q.1) ∧ H q.1 = q.2) ∧
      (∀ i ∈ B, i.op ≠ opPop ∧ i.op ≠ opReturn) := by
  obtain ⟨H, hc, hn, _⟩ := h
  refine ⟨H, hc.hlo, hc.hhi, hc.lay, hc.hi_eq, ?_, hn⟩
  intro i hi
  obtain ⟨l, hl, hq⟩ := hc.ok i hi
  refine ⟨l, hl, fun q hqm => ?_⟩
  rcases hq q hqm with h1 | h1
  · exact h1
  · exact h1.elim

/-- **compileExpr_block** (every expression form, function literals included). Compiling an
expression extends the instruction list of the current function by a block `B` that, entered at ANY
height `a`, leaves exactly one more value (`EBlk`), keeps the loop stack and the enclosing scopes, and
keeps the invariant `Inv` (operands of everything emitted so far in range; every finished function
constant recorded with its raw body). -/
theorem compileExpr_block (d : Nat) (e : Expr) (s s' : CState) (L : List Instr) (F : List Nat)
    (h : compileExpr d e s = .ok ((), s')) (hinv : Inv s L F) (hsz : szE d e < 2 ^ 30) :
    ∃ B F', Inv s' (L ++ B) F' ∧ Emitted s' (L ++ B) ∧ s'.loops = s.loops ∧ s'.saved = s.saved ∧
      totalSize B ≤ szE d e ∧ ∀ a, EBlk (totalSize L) (totalSize L + totalSize B) a B := by
  obtain ⟨B, F', ho, hb⟩ := (all_spec d).e e s s' L F h hinv hsz
  exact ⟨B, F', ho.inv, ho.inv.em, ho.loops, ho.step.saved, ho.size, hb⟩

/-! ## 3. Statements -/

/-- **compileStmt_block** (every statement form). Compiling a statement extends the instruction list by
a block `B` from height 0 to height 0 (`SBlk`): closed, for whatever targets the pending jumps `bs`
(`break`) / `cs` (`continue`) it adds to the innermost enclosing loop are finally patched to; outside a
loop there are none. -/
theorem compileStmt_block (d : Nat) (st : Stmt) (s s' : CState) (L : List Instr) (F : List Nat)
    (h : compileStmt d st s = .ok ((), s')) (hinv : Inv s L F) (hsz : szS d st < 2 ^ 30) :
    ∃ B F' bs cs, Inv s' (L ++ B) F' ∧ Emitted s' (L ++ B) ∧ s'.loops = addPend s.loops bs cs ∧
      (s.loops = [] → bs = [] ∧ cs = []) ∧ s'.saved = s.saved ∧ totalSize B ≤ szS d st ∧
      SBlk (totalSize L) (totalSize L + totalSize B) B bs cs := by
  obtain ⟨B, F', bs, cs, ho⟩ := (all_spec d).s st s s' L F h hinv hsz
  exact ⟨B, F', bs, cs, ho.inv, ho.inv.em, ho.loops, ho.nopend, ho.step.saved, ho.size, ho.blk⟩

/-- … and for a statement list (a function body, the main program). -/
theorem compileStmts_block (d : Nat) (ss : List Stmt) (s s' : CState) (L : List Instr) (F : List Nat)
    (h : compileStmts d ss s = .ok ((), s')) (hinv : Inv s L F) (hsz : szSs d ss < 2 ^ 30) :
    ∃ B F' bs cs, Inv s' (L ++ B) F' ∧ s'.loops = addPend s.loops bs cs ∧
      (s.loops = [] → bs = [] ∧ cs = []) ∧ SBlk (totalSize L) (totalSize L + totalSize B) B bs cs := by
  obtain ⟨B, F', bs, cs, ho⟩ := (all_spec d).ss ss s s' L F h hinv hsz
  exact ⟨B, F', bs, cs, ho.inv, ho.loops, ho.nopend, ho.blk⟩

/-- a statement block without pending jumps is closed: all its jumps land on its own instruction
starts or its end, heights consistent, from 0 to 0 -/
theorem sblk_closed_meaning {lo hi : Nat} {B : List Instr} (h : SBlk lo hi B [] []) :
    ∃ H : Nat → Nat, H lo = 0 ∧ H hi = 0 ∧
      ∀ i ∈ B, ∃ l, succs i (H i.pos) = some l ∧
        ∀ q ∈ l, (q.1 = hi ∨ ∃ j ∈ B, j.pos = q.1) ∧ H q.1 = q.2 := by
  obtain ⟨H, hc⟩ := h.closed
  refine ⟨H, hc.hlo, hc.hhi, fun i hi => ?_⟩
  obtain ⟨l, hl, hq⟩ := hc.ok i hi
  refine ⟨l, hl, fun q hqm => ?_⟩
  rcases hq q hqm with h1 | h1
  · exact h1
  · exact h1.elim

/-! ## 4. Functions and programs -/

/-- **opt_preserves_discipline** (`optimizeFunc`). If the raw body of a function is a closed block from
height 0 to height 0, the optimized body is closed for a height function that is 0 at the entry; it
keeps opcodes and non-jump operands, and the only instruction it adds is `RET 0`. -/
theorem opt_preserves_discipline {raw : Tengo.Model.Bytes} {is : List Instr} {H : Nat → Nat} {r : Result}
    {sm : List (Nat × Nat)} {rp : Nat}
    (hdec : decode raw = some is) (hlen : raw.length < 2 ^ 32)
    (hopt : Optimizer.opt raw sm rp = .ok r)
    (hcore : Core 0 raw.length 0 0 H is NoT) :
    ∃ H' : Nat → Nat, decode r.bytes = some r.insts ∧ H' 0 = 0 ∧ (∃ i ∈ r.insts, i.pos = 0) ∧
      Closed H' r.insts ∧
      (∀ y ∈ r.insts, (∃ x ∈ is, y.op = x.op ∧ (isJump x.op = false → y.args = x.args)) ∨
                      (y.op = opReturn ∧ y.args = [0])) := by
  obtain ⟨H', h1, h2, h3, h4, _, h6, _, _⟩ := opt_transfer hdec hlen hopt hcore
  exact ⟨H', h1, h2, h3, h4, h6⟩

/-- Upper bound of the code size of the whole file, see `Tengo.Model.Compiler.szSs`. -/
abbrev codeBound := Tengo.Model.Compiler.codeBound

/-- **compile_verifies (C02, universal).** Whatever the compiler model emits is accepted by the
whole-program check of the bytecode verifier: there are tables (decoded instructions, height table per
function, capture counts) for which `checkProgram` holds. The function constants may carry any heap
identities `refs` (the VM model assigns them in `initFobjs`; the verifier does not look at them). -/
theorem compile_verifies (ss : List Stmt) (inputs : List String) (bc : Bytecode')
    (h : compileFile ss inputs = .ok bc) (hsz : codeBound ss ≤ 2 ^ 30)
    (hconsts : bc.consts.length ≤ 65536) (hglobals : bc.maxGlobals ≤ 65536) (refs : Nat → Nat) :
    ∃ t : ProgTabs, checkProgram (toCodeR refs bc) bc.maxGlobals t = true :=
  compile_checks h (by unfold codeBound Compiler.codeBound at hsz; omega) hconsts hglobals refs

/-- … for `toCode bc` (all identities 0). -/
theorem compile_verifies_toCode (ss : List Stmt) (inputs : List String) (bc : Bytecode')
    (h : compileFile ss inputs = .ok bc) (hsz : codeBound ss ≤ 2 ^ 30)
    (hconsts : bc.consts.length ≤ 65536) (hglobals : bc.maxGlobals ≤ 65536) :
    ∃ t : ProgTabs, checkProgram (toCode bc) bc.maxGlobals t = true :=
  compile_verifies ss inputs bc h hsz hconsts hglobals (fun _ => 0)

/-- **compiled_run_safe.** Consequence on the whole-VM model: a compiled program, started as `VM.Run`
starts it with function objects that agree with the tables (`initOk`, evaluated by the driver), never
ends in an internal fault, whatever the run length, the allocation budget, the heap and the globals;
if it halts, the operand stack is empty and no frame is left. -/
theorem compiled_run_safe (ss : List Stmt) (inputs : List String) (bc : Bytecode')
    (h : compileFile ss inputs = .ok bc) (hsz : codeBound ss ≤ 2 ^ 30)
    (hconsts : bc.consts.length ≤ 65536) (hglobals : bc.maxGlobals ≤ 65536) (refs : Nat → Nat) :
    ∃ t : ProgTabs, checkProgram (toCodeR refs bc) bc.maxGlobals t = true ∧
      ∀ (globals : Array Spec.Value) (hG : globals.size = bc.maxGlobals) (fobjs : Array FnObj)
        (hi : initOk (toCodeR refs bc) t fobjs = true) (keep fuel : Nat) (allocs : Int) (g : Spec.GSt) (heap : Spec.St),
        GoodOutcome (toCodeR refs bc) t bc.maxGlobals
          (run (toCodeR refs bc) keep fuel allocs ⟨initCore globals fobjs, g, heap⟩ {}).1 := by
  obtain ⟨t, ht⟩ := compile_verifies ss inputs bc h hsz hconsts hglobals refs
  exact ⟨t, ht, fun globals hG fobjs hi keep fuel allocs g heap =>
    run_safe ht keep fuel allocs _ {} (init_inv ht globals hG fobjs hi)⟩

/-- **compile_run_ready.** For the program as the driver runs it (`VM.initFobjs (toCode bc)`: the function
constants loaded by CONST get their function objects) there are tables for which BOTH `checkProgram` and
`initOk` hold — the two hypotheses of the safety theorem of the whole-VM model. The capture table of
these tables lists exactly the function constants some CONST / CLOSURE instruction refers to. -/
theorem compile_run_ready (ss : List Stmt) (inputs : List String) (bc : Bytecode')
    (h : compileFile ss inputs = .ok bc) (hsz : codeBound ss ≤ 2 ^ 30)
    (hconsts : bc.consts.length ≤ 65536) (hglobals : bc.maxGlobals ≤ 65536) :
    ∃ t : ProgTabs, checkProgram (initFobjs (toCode bc)).1 bc.maxGlobals t = true ∧
      initOk (initFobjs (toCode bc)).1 t (initFobjs (toCode bc)).2 = true :=
  Tengo.Proofs.C02Compile.compile_run_ready h (by unfold codeBound Compiler.codeBound at hsz; omega) hconsts hglobals

/-- **compiled_never_faults (C02, end to end on the models).** Whatever the compiler model emits, run by
the whole-VM model as `VM.Run` runs it — any run length, any allocation budget, any heap, any initial
globals — never ends in an internal fault (unknown opcode, operand outside its table, closure over a
non-function, fetch outside the instruction stream, operand-stack underflow, return from the main
function), and if it halts the operand stack is empty and no call frame is left. No residual
hypothesis besides the three size bounds. -/
theorem compiled_never_faults (ss : List Stmt) (inputs : List String) (bc : Bytecode')
    (h : compileFile ss inputs = .ok bc) (hsz : codeBound ss ≤ 2 ^ 30)
    (hconsts : bc.consts.length ≤ 65536) (hglobals : bc.maxGlobals ≤ 65536)
    (globals : Array Spec.Value) (hG : globals.size = bc.maxGlobals)
    (keep fuel : Nat) (allocs : Int) (g : Spec.GSt) (heap : Spec.St) :
    (∀ ft at_, (run (initFobjs (toCode bc)).1 keep fuel allocs
        ⟨initCore globals (initFobjs (toCode bc)).2, g, heap⟩ {}).1 ≠ .fault ft at_) ∧
    (∀ cfg', (run (initFobjs (toCode bc)).1 keep fuel allocs
        ⟨initCore globals (initFobjs (toCode bc)).2, g, heap⟩ {}).1 = .halted cfg' →
      cfg'.core.regs.sp = 0 ∧ cfg'.core.callers = []) := by
  obtain ⟨t, hck, hio⟩ := compile_run_ready ss inputs bc h hsz hconsts hglobals
  have hgood := run_safe hck keep fuel allocs ⟨initCore globals (initFobjs (toCode bc)).2, g, heap⟩ {}
    (init_inv hck globals hG _ hio)
  constructor
  · intro ft at_ he
    rw [he] at hgood
    exact hgood
  · intro cfg' he
    rw [he] at hgood
    exact hgood

/-! ## Non-vacuity -/

/-- `f := func(a) { return a + 1 }; x := 0; for i := 0; i < 3; i++ { if i == 1 { continue }; x = f(x) }` -/
def demo : List Stmt :=
  [ .assign "Define" [.ident "f"] [.func false ["a"] [.ret (some (.bin "Add" (.ident "a") (.int 1)))]],
    .assign "Define" [.ident "x"] [.int 0],
    .fors (some (.assign "Define" [.ident "i"] [.int 0])) (some (.bin "Less" (.ident "i") (.int 3)))
      (some (.incdec "Inc" (.ident "i")))
      [ .ifs none (.bin "Equal" (.ident "i") (.int 1)) [.branch "Continue"] none,
        .assign "Assign" [.ident "x"] [.call false (.ident "f") [.ident "x"]] ] ]

/-- the hypotheses of `compile_verifies` hold for `demo`: the model compiles it (77 bytes of main code, 7
constants of which one function, 3 globals), within the bounds -/
example : (match compileFile demo [] with
    | .ok bc => bc.main.length == 77 && bc.consts.length == 7 && bc.maxGlobals == 3 &&
        decide (bc.consts.length ≤ 65536) && decide (bc.maxGlobals ≤ 65536)
    | .error _ => false) = true ∧ codeBound demo ≤ 2 ^ 30 := by
  constructor <;> decide +kernel

/-- … and, as the theorem says, the verifier accepts what was emitted (here the computed tables of
`verifyProgram`, two functions tabulated) -/
example : (match compileFile demo [] with
    | .ok bc => (match verifyProgram (toCode bc) bc.maxGlobals with | .ok t => t.fns.length == 2 | .error _ => false)
    | .error _ => false) = true := by decide +kernel

/-- the conclusion of `compile_verifies` for `demo`, from the theorem -/
example : ∀ bc, compileFile demo [] = .ok bc → ∃ t, checkProgram (toCode bc) bc.maxGlobals t = true := by
  intro bc h
  have hb : (match compileFile demo [] with
      | .ok bc => decide (bc.consts.length ≤ 65536) && decide (bc.maxGlobals ≤ 65536)
      | .error _ => false) = true := by decide +kernel
  rw [h] at hb
  simp only [Bool.and_eq_true, decide_eq_true_eq] at hb
  exact compile_verifies_toCode demo [] bc h (by decide +kernel) hb.1 hb.2

/-- the size hypothesis is needed for the spread call without argument (`f(...)` with no argument is not
produced by the parser): its bound is `2 ^ 32` -/
example : codeBound [.expr (.call true (.ident "len") [])] > 2 ^ 30 := by decide +kernel

end Tengo.Props.C02Compile

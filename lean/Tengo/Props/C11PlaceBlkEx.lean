import Tengo.Props.C11PlaceBlk
import Tengo.Props.C11PlaceIife
/-!
C11: non-vacuity of `placement_global_vs_local_nested_define_fragment3_vm_partial` — a program with a declaration in
a nested block, both placements as byte code of the fragment compiler, the concrete data semantics `env3`.
-/
set_option linter.unusedVariables false
namespace Tengo.Props.C11PlaceBlk.ExampleVM
open Tengo.Model Tengo.Model.F3
open Tengo.Model.Spec (Value GSt Err)
open Tengo.Model.VM (Core Code Cfg Log)
open Tengo.Proofs.C11Place
open Tengo.Proofs.C01BridgeF3 (FV sem3 env3 dataRel3 fnOf rel_init3 CodeRel3)
open Tengo.Props.C11Place.ExampleVM (vRefs vUnref vCs)
open Tengo.Props.C11PlaceIife.ExampleVM (vRefs_inj vUnref_ref poolG x0is2)
open Tengo.Props.C01F3Bridge (WithinVM withinVM_of_check)

/-- `x = 0; if x < 2 { y := x + 1; x = y + y }` — `x` outer (slot 0), `y` declared in the `if` body (slot 1);
constants 0 ↦ 0, 1 ↦ 2, 2 ↦ 1, 3 ↦ the function. -/
def blkV : Stms :=
  .cons (.setl 0 (.lit 0))
  (.cons (.ifs (.bin 38 (.loc 0) (.lit 1))
    (.cons (.defl 1 (.bin 11 (.loc 0) (.lit 2))) (.cons (.setl 0 (.bin 11 (.loc 1) (.loc 1))) .nil))) .nil)

def poolL : Array VM.Const :=
  #[.val (.int 0), .val (.int 2), .val (.int 1), .fn (fnOf (compFn (fnDefB 1 2 blkV))) 0]

theorem progLB_fns {k : Nat} {fd : FnDef} (h : (progLB 1 2 3 blkV).fns k = some fd) : k = 3 ∧ fd = fnDefB 1 2 blkV := by
  by_cases hk : k = 3
  · subst hk; simp only [progLB, if_true, Option.some.injEq] at h; exact ⟨rfl, h.symm⟩
  · simp only [progLB, if_neg hk] at h; cases h

theorem blkV_scoped : Scoped (env3 vUnref vCs) (progLB 1 2 3 blkV) where
  fns := by
    intro k fd h
    obtain ⟨rfl, rfl⟩ := progLB_fns h
    decide
  main := by decide
  closed := by
    intro v k h
    have h1 := Tengo.Proofs.C01BridgeF3.asFn3_some vUnref vRefs vUnref_ref vCs v k h
    obtain ⟨x, hx⟩ := v
    simp only at h1
    subst h1
    have h2 : vUnref (vRefs k) = some k := h
    simp only [vUnref] at h2
    by_cases hr : vRefs k = 0
    · rw [if_pos hr] at h2; injection h2 with h2; subst h2
      exact ⟨fnDefB 1 2 blkV, by simp only [progLB, if_true]⟩
    · rw [if_neg hr] at h2; cases h2

theorem okG : ProgOk (progG (globSs blkV)) where
  fns := by intro k fd h; simp [progG] at h
  main := by decide

theorem okL : ProgOk (progLB 1 2 3 blkV) where
  fns := by
    intro k fd h
    obtain ⟨rfl, rfl⟩ := progLB_fns h
    exact ⟨by decide, by decide⟩
  main := by decide

theorem codeRelG : CodeRel3 (compProg (progG (globSs blkV))) 3 2 (env3 vUnref vCs) Subtype.val vRefs
    (codeOf (compProg (progG (globSs blkV))) poolG) :=
  codeRel_of _ 3 2 3 none vRefs poolG (fun k => by simp [compProg, progG])
    (fun cf h => by cases h)
    (fun k hk _ => by
      match k, hk with
      | 0, _ => rfl
      | 1, _ => rfl
      | 2, _ => rfl)
    vRefs_inj vUnref_ref (by decide) (fun cf h => by cases h)

theorem codeRelL : CodeRel3 (compProg (progLB 1 2 3 blkV)) 4 3 (env3 vUnref vCs) Subtype.val vRefs
    (codeOf (compProg (progLB 1 2 3 blkV)) poolL) :=
  codeRel_of _ 4 3 3 (some (compFn (fnDefB 1 2 blkV))) vRefs poolL
    (fun k => by
      by_cases hk : k = 3
      · subst hk; rfl
      · simp only [compProg, progLB, if_neg hk, Option.map_none])
    (fun cf h => by injection h with h; subst h; exact ⟨rfl, rfl⟩)
    (fun k hk hf => by
      match k, hk with
      | 0, _ => rfl
      | 1, _ => rfl
      | 2, _ => rfl
      | 3, _ => simp [compProg, progLB] at hf)
    vRefs_inj vUnref_ref (by decide) (fun cf h => by injection h with h; subst h; decide)

theorem hWG : WithinVM (env3 vUnref vCs) (compProg (progG (globSs blkV)))
    (St.init (fun _ => (env3 vUnref vCs).S.undef) (fun _ => (sem3 vUnref).undef)) :=
  withinVM_of_check 40 _ (by decide)

theorem hWL : WithinVM (env3 vUnref vCs) (compProg (progLB 1 2 3 blkV))
    (St.init (fun _ => (env3 vUnref vCs).S.undef) (fun _ => (sem3 vUnref).undef)) :=
  withinVM_of_check 60 _ (by decide)

/-- **Non-vacuity of `placement_global_vs_local_nested_define_fragment3_vm_partial`**: every hypothesis holds for
the program with `y := …` inside the `if` body; both `VM.run`s (`y` = `SETG 1` resp. `DEFL 1` in the function
constant) halt with the integer 2 in global slot 0. -/
example (keep : Nat) (allocs : Int) (ha : allocs ≤ 0) (log : Log) (gst : GSt) (heap : Spec.St) :
    ∃ (cG' cL' : Core) (mG mL : Nat),
      (∀ k, (VM.run (codeOf (compProg (progG (globSs blkV))) poolG) keep (mG + 1 + k) allocs
        ⟨VM.initCore #[.undef, .undef] #[], gst, heap⟩ log).1 = .halted ⟨cG', gst, heap⟩) ∧
      (∀ k, (VM.run (codeOf (compProg (progLB 1 2 3 blkV)) poolL) keep (mL + 1 + k) allocs
        ⟨VM.initCore #[.undef, .undef, .undef] #[(3, [])], gst, heap⟩ log).1 = .halted ⟨cL', gst, heap⟩) ∧
      cG'.regs.globals.getD 0 .undef = .int 2 ∧ cL'.regs.globals.getD 0 .undef = .int 2 := by
  have hrelG := rel_init3 (M := compProg (progG (globSs blkV))) (ref := vRefs)
    (val := (Subtype.val : FV vUnref → Value))
    #[.undef, .undef] #[] (fun _ => (env3 vUnref vCs).S.undef) (fun _ => (sem3 vUnref).undef) rfl
    (fun i hi => by
      have hi1 : i < 2 := hi
      match i, hi1 with
      | 0, _ => rfl
      | 1, _ => rfl)
    (fun _ _ => rfl) (fun k cf h => by simp [compProg, progG] at h)
  have hrelL := rel_init3 (M := compProg (progLB 1 2 3 blkV)) (ref := vRefs)
    (val := (Subtype.val : FV vUnref → Value))
    #[.undef, .undef, .undef] #[(3, [])] (fun _ => (env3 vUnref vCs).S.undef) (fun _ => (sem3 vUnref).undef) rfl
    (fun i hi => by
      have hi1 : i < 3 := hi
      match i, hi1 with
      | 0, _ => rfl
      | 1, _ => rfl
      | 2, _ => rfl)
    (fun _ _ => rfl) (fun k cf h => by
      by_cases hk : k = 3
      · subst hk; rfl
      · simp only [compProg, progLB, if_neg hk, Option.map_none] at h; cases h)
  obtain ⟨hdone, _⟩ := placement_global_vs_local_nested_define_fragment3_vm_partial (env3 vUnref vCs) 1 2 3 blkV
    (by decide) (by decide) rfl blkV_scoped okG okL (fun _ => (sem3 vUnref).undef)
    (fun _ => (env3 vUnref vCs).S.undef) (by decide : 1 ≤ 2) (by decide : 1 ≤ 3) codeRelG codeRelL (dataRel3 vUnref)
    hrelG hrelL hWG hWL keep allocs log gst heap ha
  have hev : x0is2 (F3.exec (env3 vUnref vCs) (progG (globSs blkV)) 20 (fun _ => (sem3 vUnref).undef)) = true := by
    decide
  cases he : F3.exec (env3 vUnref vCs) (progG (globSs blkV)) 20 (fun _ => (sem3 vUnref).undef) with
  | done g' =>
    rw [he] at hev
    obtain ⟨cG', cL', mG, mL, hrG, hrL, _, _, hval⟩ := hdone 20 g' he
    have hv : (g' 0).1 = .int 2 := by
      simp only [x0is2] at hev
      split at hev
      · assumption
      · cases hev
    exact ⟨cG', cL', mG, mL, hrG, hrL, by rw [(hval 0 (by decide)).1, hv], by rw [(hval 0 (by decide)).2, hv]⟩
  | err => rw [he] at hev; cases hev
  | out => rw [he] at hev; cases hev
  | bad => rw [he] at hev; cases hev

end Tengo.Props.C11PlaceBlk.ExampleVM

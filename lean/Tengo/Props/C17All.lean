import Tengo.Props.C17
import Tengo.Props.C17Multi
import Tengo.Props.C17Star
import Tengo.Props.C17Hex
import Tengo.Props.C17U
/-! C17: the per-directive theorems (`C17`: tables, progress, no panic, length, integer digits, `M = G`
per verb family and for single-directive formats) and `M = G` for whole format strings with any number
of directives, `%%` and literal text (`C17Multi`), and with the full directive syntax — flag sets, `*`, `[n]` and
the BAD* renderings (`C17Star`) —, and `M = G` for `%x`/`%X` on strings and byte slices incl. whole format strings
with such directives (`C17Hex`), and `M = G` for `%U` on ints (`C17U`), as one module for the checker. -/

import Tengo.Proofs.C11PlaceRhoMain
import Tengo.Props.C11Place
/-!
C11 — PLACEMENT global ↦ local on fragment F3 with BLOCK-SCOPED DECLARATIONS and the compiler's RE-USE OF LOCAL
SLOTS (the general form of `Props/C11PlaceBlk`, without its "never `bad`" hypothesis).

Global placement: `body`, statements over the global slots `< N` — every declared variable has its own global slot
(the root table never re-uses an index). `ρ` maps a variable to its local slot in the function; it need not be
injective: variables of sibling blocks share slots (what `symbol_table.go` does: a block continues its parent's
numbering and the numbering is reset when the block ends). The static discipline `chkSs ρ N (d0 m) body` is name
resolution with block scope: expressions read variables in scope only (outer variables `< m`, and variables whose
declaration precedes in the same or an enclosing block); a write never hits the local slot of ANOTHER variable in
scope. The local placement `bodyR ρ m body` writes variable `j` to slot `ρ j`, as `x := e` (`DEFL`) when `j` is
not yet in scope at that point and as `x = e` (`SETL`) when it is.

`placement_global_vs_local_block_scope_fragment3_sem`: on `F3.exec`, in both directions: same final values of the
outer variables, run-time errors, stray `break` / `continue`, divergence — no further hypothesis.
Not covered: `Compiler.compileFile` for these programs (`compileFile_fragment3_partial` has `:=` only at the top
level of a function body), that the compiler's actual slot assignment satisfies `chkSs` (it does by
`Props/C11.visible_locals_distinct`; the link is not formalised).
-/
set_option linter.unusedVariables false
namespace Tengo.Props.C11PlaceRho
open Tengo.Model Tengo.Model.F3
open Tengo.Model.F0 (Sem upd)
open Tengo.Proofs.C11Place

/-- **Same fuel, statement by statement, shared local slots.** -/
theorem placement_block_scope_same_fuel {V : Type} (E : Env V) (ρ : Nat → Nat) (N : Nat) (P P' : Prog) (f : Nat)
    (ss : Stms) (d : Nat → Bool) (g : Nat → V) (lG : Locals V) (gL : Nat → V) (l : Locals V)
    (hc : chkSs ρ N d ss = true) (hd : DB N d) (hR : Rr ρ d g l) :
    SimQ (Rr ρ (outRs d ss)) (Rr ρ d) gL (execSs E P' f (renRSs ρ d ss) gL l) (execSs E P f ss g lG) :=
  (simRho_all E ρ N P P' f).ss ss d g lG gL l hc hd hR

/-- **Placement global ↦ local with block-scoped declarations and shared local slots, reference semantics.**
`m ≤ N` outer variables with `ρ j = j`, `body` statically scoped (`hc`), `E.asFn (E.cs L) = some L`, any start
globals `g`; `gL = upd g N (E.cs L)`. The local placement ends with `g''` iff the global one ends with some `g'` and
`g'' = mkG m gL g'`; run-time error iff run-time error; `bad` iff `bad`; divergence iff divergence. -/
theorem placement_global_vs_local_block_scope_fragment3_sem {V : Type} (E : Env V) (ρ : Nat → Nat) (m N L : Nat)
    (body : Stms) (hmN : m ≤ N) (hρ : ∀ j, j < m → ρ j = j) (hc : chkSs ρ N (d0 m) body = true)
    (hfn : E.asFn (E.cs L) = some L) (g : Nat → V) :
    (∀ g'', (∃ F, F3.exec E (progLB m N L (bodyR ρ m body)) F g = .done g'') ↔
      ∃ f g', F3.exec E (progG body) f g = .done g' ∧ g'' = mkG m (upd g N (E.cs L)) g') ∧
    ((∃ F, F3.exec E (progLB m N L (bodyR ρ m body)) F g = .err) ↔ ∃ f, F3.exec E (progG body) f g = .err) ∧
    ((∃ F, F3.exec E (progLB m N L (bodyR ρ m body)) F g = .bad) ↔ ∃ f, F3.exec E (progG body) f g = .bad) ∧
    ((∀ F, F3.exec E (progLB m N L (bodyR ρ m body)) F g = .out) ↔ ∀ f, F3.exec E (progG body) f g = .out) := by
  have fwd := placementR_forward (E := E) ρ m N L body hmN hρ hc hfn
  have bwd := placementR_backward (E := E) ρ m N L body hmN hρ hc hfn
  have prg := placementR_progress (E := E) ρ m N L body hmN hρ hc hfn
  refine ⟨fun g'' => ⟨?_, ?_⟩, ⟨?_, ?_⟩, ⟨?_, ?_⟩, ⟨?_, ?_⟩⟩
  · rintro ⟨F, hF⟩
    obtain ⟨f, r, hr, hne, heq⟩ := bwd F g _ hF (by simp)
    cases r with
    | done g' => simp only [tP, PRes.done.injEq] at heq; exact ⟨f, g', hr, heq⟩
    | err => cases heq
    | out => cases heq
    | bad => cases heq
  · rintro ⟨f, g', hf, rfl⟩
    exact fwd f g _ hf (by simp)
  · rintro ⟨F, hF⟩
    obtain ⟨f, r, hr, hne, heq⟩ := bwd F g _ hF (by simp)
    cases r with
    | done g' => cases heq
    | err => exact ⟨f, hr⟩
    | out => cases heq
    | bad => cases heq
  · rintro ⟨f, hf⟩
    exact fwd f g _ hf (by simp)
  · rintro ⟨F, hF⟩
    obtain ⟨f, r, hr, hne, heq⟩ := bwd F g _ hF (by simp)
    cases r with
    | done g' => cases heq
    | err => cases heq
    | out => cases heq
    | bad => exact ⟨f, hr⟩
  · rintro ⟨f, hf⟩
    exact fwd f g _ hf (by simp)
  · intro h f
    cases hr : F3.exec E (progG body) f g with
    | out => rfl
    | done g' => obtain ⟨F, hF⟩ := fwd f g _ hr (by simp); rw [h F] at hF; cases hF
    | err => obtain ⟨F, hF⟩ := fwd f g _ hr (by simp); rw [h F] at hF; cases hF
    | bad => obtain ⟨F, hF⟩ := fwd f g _ hr (by simp); rw [h F] at hF; cases hF
  · intro h F
    cases hr : F3.exec E (progLB m N L (bodyR ρ m body)) F g with
    | out => rfl
    | done g' => obtain ⟨f, hf⟩ := prg F g (by rw [hr]; simp); exact absurd (h f) hf
    | err => obtain ⟨f, hf⟩ := prg F g (by rw [hr]; simp); exact absurd (h f) hf
    | bad => obtain ⟨f, hf⟩ := prg F g (by rw [hr]; simp); exact absurd (h f) hf

/-! ### non-vacuity -/

namespace Example
open Tengo.Props.C11Place.Example (natEnv ends)

/-- `if x < 3 { y := x + 1; x = y + y };  for x < 3 { t := x; x = t + 3 }` at the top level: `x` = global 0,
`y` = global 1, `t` = global 2 (constants of `natEnv`: 1 ↦ 3, 2 ↦ 1; 38 is `<`, 11 is `+`). -/
def body3 : Stms :=
  .cons (.ifs (.bin 38 (.glob 0) (.lit 1))
    (.cons (.assign 1 (.bin 11 (.glob 0) (.lit 2))) (.cons (.assign 0 (.bin 11 (.glob 1) (.glob 1))) .nil)))
  (.cons (.whil (.bin 38 (.glob 0) (.lit 1))
    (.cons (.assign 2 (.glob 0)) (.cons (.assign 0 (.bin 11 (.glob 2) (.lit 1))) .nil))) .nil)

/-- In the function `y` and `t`, variables of sibling blocks, SHARE local slot 1. -/
def rho3 : Nat → Nat := fun j => if j = 2 then 1 else j

example : chkSs rho3 3 (d0 1) body3 = true := by decide

/-- The local placement is `if x < 3 { y := … (DEFL 1); x = … }; for x < 3 { t := … (DEFL 1); x = … }`. -/
example : bodyR rho3 1 body3 =
    .cons (.ifs (.bin 38 (.loc 0) (.lit 1))
      (.cons (.defl 1 (.bin 11 (.loc 0) (.lit 2))) (.cons (.setl 0 (.bin 11 (.loc 1) (.loc 1))) .nil)))
    (.cons (.whil (.bin 38 (.loc 0) (.lit 1))
      (.cons (.defl 1 (.loc 0)) (.cons (.setl 0 (.bin 11 (.loc 1) (.lit 1))) .nil))) .nil) := rfl

/-- **Non-vacuity of `placement_global_vs_local_block_scope_fragment3_sem`**: the global placement ends with `x = 5`
(fuel 30), hence so does the local one with the shared slot; checked directly as well. -/
example : ∃ F g'', F3.exec natEnv (progLB 1 3 4 (bodyR rho3 1 body3)) F (fun _ => 0) = .done g'' ∧ g'' 0 = 5 := by
  have hG : ends 5 1 (F3.exec natEnv (progG body3) 30 (fun _ => 0)) = true := by decide
  cases he : F3.exec natEnv (progG body3) 30 (fun _ => 0) with
  | done g' =>
    rw [he] at hG
    simp only [ends, Bool.and_eq_true, beq_iff_eq] at hG
    obtain ⟨F, hF⟩ := ((placement_global_vs_local_block_scope_fragment3_sem natEnv rho3 1 3 4 body3 (by decide)
      (fun j hj => by
        have : j = 0 := by omega
        subst this; rfl) (by decide) (by decide) (fun _ => 0)).1 _).2 ⟨30, g', he, rfl⟩
    exact ⟨F, _, hF, by simp only [mkG]; exact hG.1⟩
  | err => rw [he] at hG; cases hG
  | out => rw [he] at hG; cases hG
  | bad => rw [he] at hG; cases hG

example : ends 5 0 (F3.exec natEnv (progLB 1 3 4 (bodyR rho3 1 body3)) 40 (fun _ => 0)) = true := by decide

/-- The discipline rejects a read out of scope (`if … { y := 1 }; x = y`) and a write into the slot of a variable in
scope (`y` and `t` both live, same slot). -/
example : chkSs rho3 3 (d0 1)
    (.cons (.ifs .fls (.cons (.assign 1 (.lit 2)) .nil)) (.cons (.assign 0 (.glob 1)) .nil)) = false := by decide
example : chkSs rho3 3 (d0 1)
    (.cons (.assign 1 (.lit 2)) (.cons (.assign 2 (.lit 2)) .nil)) = false := by decide

end Example

end Tengo.Props.C11PlaceRho

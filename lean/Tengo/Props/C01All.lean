import Tengo.Props.C01
import Tengo.Props.C01Bridge
import Tengo.Props.C01Converse
import Tengo.Props.C01F2
import Tengo.Props.C01F3
import Tengo.Props.C01F3Bridge
import Tengo.Props.C01F3Source
import Tengo.Props.C01F3Spec
import Tengo.Props.C01F3Converse
/-! C01: the abstract compiler-correctness theorems for the fragments F0/F1 (`C01`) and their bridge to the big
models (`C01Bridge`): on the fragment, the reference interpreter `Spec.runProgram`, the compiler model
`Compiler.compileFile` and the whole-VM model `VM.run` agree — as one module for the checker. -/

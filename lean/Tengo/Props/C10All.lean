import Tengo.Props.C10
import Tengo.Props.C10Heap
import Tengo.Props.C10HeapInv
import Tengo.Props.C10Trans
/-! C10: the laws over tree-shaped model values (`C10`) and "a copy shares no mutable state with its original"
over the heap model of C09 (`C10Heap`: copy_fresh, copy_disjoint, copy_frame, writes through one side keep the
other, copy_equal) and "the hypotheses are invariants, separation is derived from the initial disjointness, the copy of a DAG is a
tree" (`C10HeapInv`) — as one module for the checker. -/

import Tengo.Props.C10
import Tengo.Props.C10Heap
/-! C10: the laws over tree-shaped model values (`C10`) and "a copy shares no mutable state with its original"
over the heap model of C09 (`C10Heap`: copy_fresh, copy_disjoint, copy_frame, writes through one side keep the
other, copy_equal) — as one module for the checker. -/

import Tengo.Props.C01Bridge
import Tengo.Proofs.F2Program
import Tengo.Proofs.C01BridgeF2Compile
import Tengo.Proofs.C01BridgeF2Range
import Tengo.Proofs.C01BridgeF2SpecRun
import Tengo.Proofs.C01BridgeF2ConvRun
import Tengo.Proofs.C01BridgeF2ConvVM
/-!
C01 on fragment F2 = F1 + `break` + `continue` + the three-clause loop `for ; cond; post { body }`.

* `program_correct_F2` / `program_correct_F2_bounded` (Proofs/F2Stmts.lean, F2Program.lean): abstract compiler
  correctness — the code `F2.compSs` emits (`break` = `JMP` to the first byte after the innermost loop,
  `continue` = `JMP` to the first byte after its body: the post statement of a three-clause loop, otherwise the
  jump back to the condition) computes on the fragment's machine what the fuel-indexed reference evaluator
  `F2.exec` computes, for every program, every data semantics.
* `compileFile_fragment2` (Proofs/C01BridgeF2Compile.lean): the WHOLE compiler model emits exactly those bytes
  for the embedded AST (`BranchStmt`s), its back-patching of `loop.breaks` / `loop.continues` included.
* `runProgram_fragment2` (Proofs/C01BridgeF2SpecRun.lean): the reference interpreter (`Flow.brk` / `Flow.cont`,
  `loopFor`) computes what `F2.exec` computes.
* `reference_and_vm_agree_fragment2`: the three big models together, as `reference_and_vm_agree_fragment`.
* `runProgram_converse2`, `vm_converse2`, `reference_and_vm_agree_fragment2_full`: both directions, WITHOUT the
  fragment's evaluator as a termination witness (as Props/C01Converse.lean for F1).
The VM bridge (`step_sim`, `runs_halt`, `fails_failed`) is about single instructions and is reused unchanged.
-/
namespace Tengo.Props.C01F2
open Tengo.Model Tengo.Model.F0 Tengo.Model.Opcodes Tengo.Proofs.C01Bridge Tengo.Props.C01Bridge
open Tengo.Model.Spec (Value GSt)

/-! ### the abstract theorem -/

/-- **C01 on fragment F2** (see `Tengo.Model.F2.program_correct_F2`): for every program, every fuel, every data
semantics: if the reference semantics finishes with globals `g'`, the compiled code run on the fragment machine
from offset 0 with an empty stack reaches the end with an empty stack and globals `g'`; an error of the evaluator
is an error of the machine. For a program whose `break` / `continue` are inside loops these are the only results
besides fuel exhaustion (`exec_program_cases`), and the code does not depend on outer jump targets
(`compSs_scoped`). -/
theorem program_correct_F2 {V : Type} (S : Sem V) (cs g : Nat → V) (ss : F2.Stms) (f : Nat) :
    (∀ g', F2.exec S cs f (.inr ss) g = .done g' →
      Runs S cs (F2.compProg ss) ⟨0, [], g⟩ ⟨F2.sssize ss, [], g'⟩) ∧
    (F2.exec S cs f (.inr ss) g = .err → Fails S cs (F2.compProg ss) ⟨0, [], g⟩) :=
  F2.program_correct_F2 S cs g ss f

theorem exec_program_cases {V : Type} (S : Sem V) (cs g : Nat → V) (ss : F2.Stms) (f : Nat)
    (h : F2.scopedSs false ss = true) :
    (∃ g', F2.exec S cs f (.inr ss) g = .done g') ∨ F2.exec S cs f (.inr ss) g = .err ∨
      F2.exec S cs f (.inr ss) g = .out :=
  F2.exec_program_cases S cs g ss f h

/-- A small concrete data semantics (as `natSem'` of Props/C01.lean): values are naturals, token 38 is `<`, every
other binary operator addition, 0 is falsy. -/
def natSem2 : Sem Nat where
  binop := fun t a b => if t == 38 then some (if a < b then 1 else 0) else some (a + b)
  eqv := fun a b => a == b
  falsy := fun a => a == 0
  neg := fun _ => none
  bnot := fun a => some a
  ofBool := fun b => if b then 1 else 0
  undef := 0

/-- Non-vacuity of the abstract theorem (data semantics `natSem2`): `for ; g0 < 10; g0 = g0 + 1 { if g0 == 2 { continue } else { if g0 == 5
{ break } }; g1 = g1 + g0 }` ends with `g0 = 5` (the `break`), `g1 = 0 + 1 + 3 + 4 = 8` (the `continue` skipped
the addition of 2 but not the post statement). -/
def exLoop : F2.Stms :=
  .cons (.assign 0 (.lit 0))
  (.cons (.for3 (.bin 38 (.glob 0) (.lit 1))
    (.cons (.ifelse (.eq (.glob 0) (.lit 2))
        (.cons .cont .nil)
        (.cons (.ifs (.eq (.glob 0) (.lit 3)) (.cons .brk .nil)) .nil))
    (.cons (.assign 1 (.bin 11 (.glob 1) (.glob 0))) .nil))
    (.assign 0 (.bin 11 (.glob 0) (.lit 4)))) .nil)

example :
    let cs : Nat → Nat := fun k => [0, 10, 2, 5, 1].getD k 0
    (match F2.exec natSem2 cs 40 (.inr exLoop) (fun _ => 0) with
     | .done g' => g' 0 == 5 && g' 1 == 8
     | _ => false) = true := by
  decide

/-! ### the code relation for compiled F2 programs -/

theorem codeRel_compiled2 (ctab : Nat → F0.Const) (n : Nat) (ss : F2.Stms)
    (hwf : wfSs2 n 0 ss = true) (hn : n ≤ 65536) (hK : nlitsSs2 ss ≤ 65536) (hsize : F2.sssize ss < 4294967296) :
    CodeRel (F2.compProg ss) (nlitsSs2 ss) n (svConst ctab)
      (codeOf { main := encodeIns (F2.compProg ss) ++ [UInt8.ofNat opSuspend],
                consts := constTable ctab (nlitsSs2 ss), maxGlobals := n }) := by
  have hgood := compSs2_good n (nlitsSs2 ss) (F2.sssize ss) ss 0 0 0 0 hwf (by omega) (by omega) (by omega)
    (by omega)
  refine ⟨rfl, ?_, fun i hi => ((hgood i hi).fits hK hn (by omega)).1,
    fun i hi => ((hgood i hi).fits hK hn (by omega)).2⟩
  intro k hk
  simp only [codeOf, constTable, List.map_map, List.getElem?_toArray, List.getElem?_map,
    List.getElem?_range hk, Option.map_some, Function.comp_apply, constVal_constOf]
  rfl

/-! ### compile and run -/

/-- **C01 on fragment F2, for the compiler model and the VM model.** As `compile_run_correct_fragment`, for
programs with `break` / `continue` (inside loops: `F2.scopedSs false ss`) and three-clause loops. -/
theorem compile_run_correct_fragment2
    (names : Nat → String) (ctab : Nat → F0.Const) (n : Nat) (ss : F2.Stms) (f : Nat)
    (hinj : ∀ i j, i < n → j < n → names i = names j → i = j)
    (hwf : wfSs2 n 0 ss = true) (hsc : F2.scopedSs false ss = true) (hbud : budSs2 ss ≤ Compiler.fuel)
    (hdepth : F2.depthSs ss ≤ VM.stackSize)
    (hn : n ≤ 65536) (hK : nlitsSs2 ss ≤ 65536) (hsize : F2.sssize ss < 4294967296)
    (g : Nat → SV) (globals : Array Value) (hgs : globals.size = n)
    (hg : ∀ i, i < n → globals.getD i .undef = (g i).1)
    (keep : Nat) (allocs : Int) (ha : allocs ≤ 0) (log : VM.Log) (gst : GSt) (heap : Spec.St) :
    ∃ bc, Compiler.compileFile (toAstSs2 names ctab ss) (inputsOf names n) = .ok bc ∧
      bc.main = encodeIns (F2.compProg ss) ++ [UInt8.ofNat opSuspend] ∧
      bc.consts = constTable ctab (nlitsSs2 ss) ∧
      (∀ g', F2.exec vmSem (svConst ctab) f (.inr ss) g = .done g' →
        ∃ fuel c', (∀ i, i < n → c'.regs.globals.getD i .undef = (g' i).1) ∧
          c'.regs.globals.size = n ∧ c'.regs.sp = 0 ∧
          ∀ k, (VM.run (codeOf bc) keep (fuel + k) allocs ⟨VM.initCore globals #[], gst, heap⟩ log).1 =
            .halted ⟨c', gst, heap⟩) ∧
      (F2.exec vmSem (svConst ctab) f (.inr ss) g = .err →
        ∃ fuel e at_, e ≠ Spec.Err.fuel ∧
          ∀ k, (VM.run (codeOf bc) keep (fuel + k) allocs ⟨VM.initCore globals #[], gst, heap⟩ log).1 =
            .failed e at_) := by
  refine ⟨_, compileFile_fragment2 names ctab n ss hinj hwf hsc hbud, rfl, rfl, ?_, ?_⟩
  · intro g' hdone
    have hcode := codeRel_compiled2 ctab n ss hwf hn hK hsize
    have hrel := rel_init (n := n) globals g hgs hg
    have hruns := (F2.program_correct_F2_bounded VM.stackSize vmSem (svConst ctab) g ss f hdepth).1 g' hdone
    rw [← F2.csize_compSs ss 0 0 0] at hruns
    obtain ⟨m, c', hglb, hsp, hrun⟩ := runs_halt hcode hrel [] g' hruns keep allocs log gst heap ha
    exact ⟨m + 1, c', hglb.2, hglb.1, hsp, hrun⟩
  · intro herr
    have hcode := codeRel_compiled2 ctab n ss hwf hn hK hsize
    have hrel := rel_init (n := n) globals g hgs hg
    have hfails := (F2.program_correct_F2_bounded VM.stackSize vmSem (svConst ctab) g ss f hdepth).2 herr
    obtain ⟨m, e, at_, hne, hrun⟩ := fails_failed hcode hrel hfails keep allocs log gst heap ha
    exact ⟨m + 1, e, at_, hne, hrun⟩

/-! ### the three big models together -/

/-- **Reference interpreter = compile-and-run, on fragment F2** (expressions with all operators, assignments to
global slots, `if` / `else`, `for cond {…}`, `for {…}`, `for ; cond; post {…}`, `break`, `continue`). For every
program of the fragment whose `break` / `continue` are inside loops and whose post statements are expression
statements or assignments (hypotheses otherwise as in `reference_and_vm_agree_fragment`: well-formed embedding,
nesting within the static check's budget of 4000, expression depth within the VM's stack, operands within their
encoded widths, allocation limit off): whenever the fragment's evaluator terminates with fuel `f` (the
termination witness),

* `Spec.runProgram` on the embedded AST — from every initial heap, for every fuel `F ≥ 4 f + budSs2 ss` —
  answers `ok gs st`,
* `Compiler.compileFile` compiles the embedded AST, and `VM.run` of that bytecode halts (every sufficient
  fuel, heap untouched, operand stack empty),

and `gs` is exactly the list of the slot names with the values of the VM's globals array at the halt. If the
fragment's evaluator reports an error, the interpreter reports a run-time failure (not `ok`, not a compile
error, not fuel exhaustion) and `VM.run` ends in a `failed` outcome. -/
theorem reference_and_vm_agree_fragment2
    (names : Nat → String) (ctab : Nat → F0.Const) (n : Nat) (ss : F2.Stms) (f : Nat)
    (hinj : ∀ i j, i < n → j < n → names i = names j → i = j)
    (hwf : wfSs2 n 0 ss = true) (hsc : F2.scopedSs false ss = true) (hsp : simplePostSs ss = true)
    (hbud : budSs2 ss ≤ 4000)
    (hdepth : F2.depthSs ss ≤ VM.stackSize)
    (hn : n ≤ 65536) (hK : nlitsSs2 ss ≤ 65536) (hsize : F2.sssize ss < 4294967296)
    (g : Nat → SV) (globals : Array Value) (hgs : globals.size = n)
    (hg : ∀ i, i < n → globals.getD i .undef = (g i).1)
    (keep : Nat) (allocs : Int) (ha : allocs ≤ 0) (log : VM.Log) (gst : GSt) (heap : Spec.St) :
    ∃ bc, Compiler.compileFile (toAstSs2 names ctab ss) (inputsOf names n) = .ok bc ∧
      (∀ g', F2.exec vmSem (svConst ctab) f (.inr ss) g = .done g' →
        ∃ gs fuel c',
          (∀ F initHeap, 4 * f + budSs2 ss ≤ F →
            ∃ st, Spec.runProgram F (inputsV names n g) initHeap (toAstSs2 names ctab ss) = .ok gs st) ∧
          (∀ k, (VM.run (codeOf bc) keep (fuel + k) allocs ⟨VM.initCore globals #[], gst, heap⟩ log).1 =
            .halted ⟨c', gst, heap⟩) ∧
          c'.regs.sp = 0 ∧
          gs = (List.range n).map (fun i => (names i, c'.regs.globals.getD i .undef))) ∧
      (F2.exec vmSem (svConst ctab) f (.inr ss) g = .err →
        (∀ F initHeap, 4 * f + budSs2 ss ≤ F →
          ∃ err, err ≠ Spec.Err.fuel ∧
            Spec.runProgram F (inputsV names n g) initHeap (toAstSs2 names ctab ss) = errOutcome err) ∧
        ∃ fuel e at_, e ≠ Spec.Err.fuel ∧
          ∀ k, (VM.run (codeOf bc) keep (fuel + k) allocs ⟨VM.initCore globals #[], gst, heap⟩ log).1 =
            .failed e at_) := by
  obtain ⟨bc, hbc, _, _, hdone, herr⟩ := compile_run_correct_fragment2 names ctab n ss f hinj hwf hsc
    (by unfold Compiler.fuel; omega) hdepth hn hK hsize g globals hgs hg keep allocs ha log gst heap
  refine ⟨bc, hbc, ?_, ?_⟩
  · intro g' hg'
    obtain ⟨fuel, c', hgl, _, hsp', hrun⟩ := hdone g' hg'
    refine ⟨globalsV names n g', fuel, c', ?_, hrun, hsp', ?_⟩
    · intro F initHeap hF
      exact (runProgram_fragment2 names ctab n ss f F hinj hwf hsc hsp hbud hF g initHeap).1 g' hg'
    · unfold globalsV
      apply List.map_congr_left
      intro i hi
      rw [hgl i (by simpa using hi)]
  · intro he
    refine ⟨?_, herr he⟩
    intro F initHeap hF
    exact (runProgram_fragment2 names ctab n ss f F hinj hwf hsc hsp hbud hF g initHeap).2 he

/-! ### non-vacuity on the big models -/

def exCtab (k : Nat) : F0.Const := .int ([0, 10, 2, 5, 1].getD k 0)

example : wfSs2 2 0 exLoop = true ∧ F2.scopedSs false exLoop = true ∧ simplePostSs exLoop = true ∧
    budSs2 exLoop ≤ 4000 ∧ F2.depthSs exLoop ≤ VM.stackSize ∧ nlitsSs2 exLoop = 5 ∧
    F2.sssize exLoop < 4294967296 := by decide

/-- The loop with `continue` on one branch and `break` on the other, under the VM's own data semantics: the
fragment's evaluator terminates with `g0 = 5`, `g1 = 8`. -/
theorem exLoop_result :
    (match F2.exec vmSem (svConst exCtab) 40 (.inr exLoop) exG with
     | .done g' =>
       (match (g' 0).1, (g' 1).1 with
        | .int a, .int b => a == 5 && b == 8
        | _, _ => false)
     | _ => false) = true := by
  decide

/-- All hypotheses of the headline hold of the concrete program (slots named `g0`, `g1`): the reference
interpreter and the VM both end with `g0 = 5`, `g1 = 8`. -/
example (keep : Nat) (log : VM.Log) (gst : GSt) (heap : Spec.St) :=
  reference_and_vm_agree_fragment2 gname exCtab 2 exLoop 40 (fun _ _ _ _ h => gname_inj h)
    (by decide) (by decide) (by decide) (by decide) (by decide) (by decide) (by decide) (by decide)
    exG #[.int 0, .int 0] rfl (by intro i hi; match i, hi with | 0, _ => rfl | 1, _ => rfl)
    keep 0 (by decide) log gst heap

/-! ### both directions, without the termination witness -/

/-- **Converse of `runProgram_fragment2`** (Proofs/C01BridgeF2ConvRun.lean): an `ok` answer of the reference
interpreter forces the fragment's evaluator to finish with the same globals — with fuel `F` and every larger
fuel —, an answer that is neither `ok` nor fuel exhaustion forces it to report an error. -/
theorem runProgram_converse2 (names : Nat → String) (ctab : Nat → F0.Const) (n : Nat) (ss : F2.Stms) (F : Nat)
    (hinj : ∀ i j, i < n → j < n → names i = names j → i = j)
    (hwf : wfSs2 n 0 ss = true) (hsc : F2.scopedSs false ss = true) (hsp : simplePostSs ss = true)
    (hbud : budSs2 ss ≤ 4000)
    (g : Nat → SV) (initHeap : Spec.St) :
    (∀ gs st, Spec.runProgram F (inputsV names n g) initHeap (toAstSs2 names ctab ss) = .ok gs st →
      ∃ g', (∀ f, F ≤ f → F2.exec vmSem (svConst ctab) f (.inr ss) g = .done g') ∧ gs = globalsV names n g') ∧
    ((∀ gs st, Spec.runProgram F (inputsV names n g) initHeap (toAstSs2 names ctab ss) ≠ .ok gs st) →
      Spec.runProgram F (inputsV names n g) initHeap (toAstSs2 names ctab ss) ≠ .fuel →
      ∀ f, F ≤ f → F2.exec vmSem (svConst ctab) f (.inr ss) g = .err) :=
  Tengo.Proofs.C01Bridge.runProgram_converse2 names ctab n ss F hinj hwf hsc hsp hbud g initHeap

/-- **Converse of `compile_run_correct_fragment2`.** If `VM.run` on the bytecode of the F2 program answers
anything but `outOfFuel`, the fragment's evaluator terminates (finishes or reports an error) with some fuel. -/
theorem vm_converse2 (ctab : Nat → F0.Const) (n : Nat) (ss : F2.Stms)
    (hwf : wfSs2 n 0 ss = true) (hsc : F2.scopedSs false ss = true) (hdepth : F2.depthSs ss ≤ VM.stackSize)
    (hn : n ≤ 65536) (hK : nlitsSs2 ss ≤ 65536) (hsize : F2.sssize ss < 4294967296)
    (g : Nat → SV) (globals : Array Value) (hgs : globals.size = n)
    (hg : ∀ i, i < n → globals.getD i .undef = (g i).1)
    (keep : Nat) (allocs : Int) (ha : allocs ≤ 0) (log : VM.Log) (gst : GSt) (heap : Spec.St) (m : Nat)
    (hrun : ∀ cfg,
      (VM.run
        (codeOf { main := encodeIns (F2.compProg ss) ++ [UInt8.ofNat opSuspend],
                  consts := constTable ctab (nlitsSs2 ss), maxGlobals := n })
        keep m allocs ⟨VM.initCore globals #[], gst, heap⟩ log).1 ≠ .outOfFuel cfg) :
    (∃ f g', F2.exec vmSem (svConst ctab) f (.inr ss) g = .done g') ∨
    (∃ f, F2.exec vmSem (svConst ctab) f (.inr ss) g = .err) := by
  rcases exec_cases2 vmSem (svConst ctab) ss g hsc with hout | h | h
  · exfalso
    obtain ⟨cfg, hc⟩ := diverges_outOfFuel2 (codeRel_compiled2 ctab n ss hwf hn hK hsize)
      (rel_init (n := n) globals g hgs hg) hdepth hout keep allocs log gst heap ha m
    exact hrun cfg hc
  · exact .inl h
  · exact .inr h

/-- **Reference interpreter = compile-and-run, on fragment F2, both directions, no termination witness.** For
every F2 program `ss` (hypotheses exactly those of `reference_and_vm_agree_fragment2`): `Compiler.compileFile`
compiles the embedded AST to some `bc`, and — speaking only about `Spec.runProgram`, `Compiler.compileFile` and
`VM.run` —

1. if `Spec.runProgram` (any fuel `F`, any initial heap) answers `ok gs st`, then `VM.run` of `bc` halts — for
   every sufficient fuel, heap and declaration table untouched, operand stack empty — and `gs` is exactly the
   list of the slot names with the values of the VM's globals array at the halt;
2. if `Spec.runProgram` answers anything that is neither `ok` nor fuel exhaustion, `VM.run` ends in a `failed`
   outcome (an error other than fuel), for every sufficient fuel;
3. if `VM.run` with some fuel `m` answers `halted cfg`, then `cfg` has an empty operand stack, the heap and
   table it started with, and `Spec.runProgram` — every sufficient fuel, every initial heap — answers `ok` with
   exactly the slot names and `cfg`'s globals;
4. if `VM.run` with some fuel answers `failed e at_`, `Spec.runProgram` — every sufficient fuel, every initial
   heap — answers the outcome of an error other than fuel exhaustion (never `ok`, never a compile error);
5. `VM.run` answers `halted`, `failed` or `outOfFuel` at every fuel (never `fault`, never `limit`). -/
theorem reference_and_vm_agree_fragment2_full
    (names : Nat → String) (ctab : Nat → F0.Const) (n : Nat) (ss : F2.Stms)
    (hinj : ∀ i j, i < n → j < n → names i = names j → i = j)
    (hwf : wfSs2 n 0 ss = true) (hsc : F2.scopedSs false ss = true) (hsp : simplePostSs ss = true)
    (hbud : budSs2 ss ≤ 4000)
    (hdepth : F2.depthSs ss ≤ VM.stackSize)
    (hn : n ≤ 65536) (hK : nlitsSs2 ss ≤ 65536) (hsize : F2.sssize ss < 4294967296)
    (g : Nat → SV) (globals : Array Value) (hgs : globals.size = n)
    (hg : ∀ i, i < n → globals.getD i .undef = (g i).1)
    (keep : Nat) (allocs : Int) (ha : allocs ≤ 0) (log : VM.Log) (gst : GSt) (heap : Spec.St) :
    ∃ bc, Compiler.compileFile (toAstSs2 names ctab ss) (inputsOf names n) = .ok bc ∧
      (∀ F initHeap gs st,
        Spec.runProgram F (inputsV names n g) initHeap (toAstSs2 names ctab ss) = .ok gs st →
        ∃ fuel c',
          (∀ k, (VM.run (codeOf bc) keep (fuel + k) allocs ⟨VM.initCore globals #[], gst, heap⟩ log).1 =
            .halted ⟨c', gst, heap⟩) ∧
          c'.regs.sp = 0 ∧
          gs = (List.range n).map (fun i => (names i, c'.regs.globals.getD i .undef))) ∧
      (∀ F initHeap,
        (∀ gs st, Spec.runProgram F (inputsV names n g) initHeap (toAstSs2 names ctab ss) ≠ .ok gs st) →
        Spec.runProgram F (inputsV names n g) initHeap (toAstSs2 names ctab ss) ≠ .fuel →
        ∃ fuel e at_, e ≠ Spec.Err.fuel ∧
          ∀ k, (VM.run (codeOf bc) keep (fuel + k) allocs ⟨VM.initCore globals #[], gst, heap⟩ log).1 =
            .failed e at_) ∧
      (∀ m cfg,
        (VM.run (codeOf bc) keep m allocs ⟨VM.initCore globals #[], gst, heap⟩ log).1 = .halted cfg →
        cfg.gst = gst ∧ cfg.heap = heap ∧ cfg.core.regs.sp = 0 ∧
        ∃ F0, ∀ F initHeap, F0 ≤ F →
          ∃ st, Spec.runProgram F (inputsV names n g) initHeap (toAstSs2 names ctab ss) =
            .ok ((List.range n).map (fun i => (names i, cfg.core.regs.globals.getD i .undef))) st) ∧
      (∀ m e at_,
        (VM.run (codeOf bc) keep m allocs ⟨VM.initCore globals #[], gst, heap⟩ log).1 = .failed e at_ →
        ∃ F0, ∀ F initHeap, F0 ≤ F →
          ∃ err, err ≠ Spec.Err.fuel ∧
            Spec.runProgram F (inputsV names n g) initHeap (toAstSs2 names ctab ss) = errOutcome err) ∧
      (∀ m,
        (∃ cfg, (VM.run (codeOf bc) keep m allocs ⟨VM.initCore globals #[], gst, heap⟩ log).1 = .halted cfg) ∨
        (∃ e at_, (VM.run (codeOf bc) keep m allocs ⟨VM.initCore globals #[], gst, heap⟩ log).1 = .failed e at_) ∨
        (∃ cfg, (VM.run (codeOf bc) keep m allocs ⟨VM.initCore globals #[], gst, heap⟩ log).1 = .outOfFuel cfg)) := by
  have hbudC : budSs2 ss ≤ Compiler.fuel := by unfold Compiler.fuel; omega
  obtain ⟨bc, hbc, hmain, hconsts, _, _⟩ := compile_run_correct_fragment2 names ctab n ss 0 hinj hwf hsc hbudC
    hdepth hn hK hsize g globals hgs hg keep allocs ha log gst heap
  -- what the forward headline gives at each fuel of the fragment's evaluator, for THIS `bc`
  have key : ∀ f,
      (∀ g', F2.exec vmSem (svConst ctab) f (.inr ss) g = .done g' →
        ∃ fuel c', (∀ i, i < n → c'.regs.globals.getD i .undef = (g' i).1) ∧ c'.regs.sp = 0 ∧
          ∀ k, (VM.run (codeOf bc) keep (fuel + k) allocs ⟨VM.initCore globals #[], gst, heap⟩ log).1 =
            .halted ⟨c', gst, heap⟩) ∧
      (F2.exec vmSem (svConst ctab) f (.inr ss) g = .err →
        ∃ fuel e at_, e ≠ Spec.Err.fuel ∧
          ∀ k, (VM.run (codeOf bc) keep (fuel + k) allocs ⟨VM.initCore globals #[], gst, heap⟩ log).1 =
            .failed e at_) := by
    intro f
    obtain ⟨bc', hbc', _, _, hdone, herr⟩ := compile_run_correct_fragment2 names ctab n ss f hinj hwf hsc hbudC
      hdepth hn hK hsize g globals hgs hg keep allocs ha log gst heap
    have e : bc' = bc := by
      rw [hbc] at hbc'
      injection hbc' with hbc'
      exact hbc'.symm
    subst e
    refine ⟨fun g' hg' => ?_, herr⟩
    obtain ⟨fuel, c', hgl, _, hsp', hrun⟩ := hdone g' hg'
    exact ⟨fuel, c', hgl, hsp', hrun⟩
  have hglob : ∀ (g' : Nat → SV) (c' : VM.Core), (∀ i, i < n → c'.regs.globals.getD i .undef = (g' i).1) →
      globalsV names n g' = (List.range n).map (fun i => (names i, c'.regs.globals.getD i .undef)) := by
    intro g' c' hgl
    unfold globalsV
    apply List.map_congr_left
    intro i hi
    rw [hgl i (by simpa using hi)]
  have hcode : bc =
      { main := encodeIns (F2.compProg ss) ++ [UInt8.ofNat opSuspend],
        consts := constTable ctab (nlitsSs2 ss), maxGlobals := bc.maxGlobals } := by
    cases bc
    simp only at hmain hconsts
    subst hmain hconsts
    rfl
  have hdiv : (∀ f, F2.exec vmSem (svConst ctab) f (.inr ss) g = .out) →
      ∀ m, ∃ cfg, (VM.run (codeOf bc) keep m allocs ⟨VM.initCore globals #[], gst, heap⟩ log).1 = .outOfFuel cfg := by
    intro hout m
    have hrel := codeRel_compiled2 ctab n ss hwf hn hK hsize
    have hcodeOf : codeOf bc =
        codeOf { main := encodeIns (F2.compProg ss) ++ [UInt8.ofNat opSuspend],
                 consts := constTable ctab (nlitsSs2 ss), maxGlobals := n } := by
      rw [hcode]; rfl
    rw [hcodeOf]
    exact diverges_outOfFuel2 hrel (rel_init (n := n) globals g hgs hg) hdepth hout keep allocs log gst heap ha m
  refine ⟨bc, hbc, ?_, ?_, ?_, ?_, ?_⟩
  · -- 1. interpreter ok ⇒ VM halts with the same globals
    intro F initHeap gs st hrun
    obtain ⟨g', hR, hgs'⟩ :=
      (Tengo.Proofs.C01Bridge.runProgram_converse2 names ctab n ss F hinj hwf hsc hsp hbud g initHeap).1 gs st hrun
    obtain ⟨fuel, c', hgl, hsp', hvm⟩ := (key F).1 g' (hR F (Nat.le_refl F))
    exact ⟨fuel, c', hvm, hsp', by rw [hgs', hglob g' c' hgl]⟩
  · -- 2. interpreter fails ⇒ VM fails
    intro F initHeap hnok hnfuel
    have herr :=
      (Tengo.Proofs.C01Bridge.runProgram_converse2 names ctab n ss F hinj hwf hsc hsp hbud g initHeap).2 hnok hnfuel F
        (Nat.le_refl F)
    exact (key F).2 herr
  · -- 3. VM halts ⇒ interpreter ok with the same globals
    intro m cfg hrun
    rcases exec_cases2 vmSem (svConst ctab) ss g hsc with hout | ⟨f, g', hf⟩ | ⟨f, hf⟩
    · obtain ⟨c, hc⟩ := hdiv hout m
      rw [hrun] at hc; cases hc
    · obtain ⟨fuel, c', hgl, hsp', hvm⟩ := (key f).1 g' hf
      rcases run_agree _ keep m fuel allocs _ log _ hvm with ⟨c, hc⟩ | h
      · rw [hrun] at hc; cases hc
      · rw [hrun] at h
        injection h with h
        subst h
        refine ⟨rfl, rfl, hsp', 4 * f + budSs2 ss, fun F initHeap hF => ?_⟩
        obtain ⟨st, hst⟩ := (runProgram_fragment2 names ctab n ss f F hinj hwf hsc hsp hbud hF g initHeap).1 g' hf
        exact ⟨st, by rw [hst, hglob g' c' hgl]⟩
    · obtain ⟨fuel, e, at_, _, hvm⟩ := (key f).2 hf
      rcases run_agree _ keep m fuel allocs _ log _ hvm with ⟨c, hc⟩ | h
      · rw [hrun] at hc; cases hc
      · rw [hrun] at h; cases h
  · -- 4. VM fails ⇒ interpreter fails
    intro m e at_ hrun
    rcases exec_cases2 vmSem (svConst ctab) ss g hsc with hout | ⟨f, g', hf⟩ | ⟨f, hf⟩
    · obtain ⟨c, hc⟩ := hdiv hout m
      rw [hrun] at hc; cases hc
    · obtain ⟨fuel, c', hgl, hsp', hvm⟩ := (key f).1 g' hf
      rcases run_agree _ keep m fuel allocs _ log _ hvm with ⟨c, hc⟩ | h
      · rw [hrun] at hc; cases hc
      · rw [hrun] at h; cases h
    · exact ⟨4 * f + budSs2 ss, fun F initHeap hF =>
        (runProgram_fragment2 names ctab n ss f F hinj hwf hsc hsp hbud hF g initHeap).2 hf⟩
  · -- 5. nothing else
    intro m
    rcases exec_cases2 vmSem (svConst ctab) ss g hsc with hout | ⟨f, g', hf⟩ | ⟨f, hf⟩
    · exact .inr (.inr (hdiv hout m))
    · obtain ⟨fuel, c', hgl, hsp', hvm⟩ := (key f).1 g' hf
      rcases run_agree _ keep m fuel allocs _ log _ hvm with hc | h
      · exact .inr (.inr hc)
      · exact .inl ⟨_, h⟩
    · obtain ⟨fuel, e, at_, _, hvm⟩ := (key f).2 hf
      rcases run_agree _ keep m fuel allocs _ log _ hvm with hc | h
      · exact .inr (.inr hc)
      · exact .inr (.inl ⟨_, _, h⟩)

/-! ### non-vacuity of the full headline -/

theorem exLoop_done : ∃ g', F2.exec vmSem (svConst exCtab) 40 (.inr exLoop) exG = .done g' := by
  have h := exLoop_result
  cases hr : F2.exec vmSem (svConst exCtab) 40 (.inr exLoop) exG with
  | done g' => exact ⟨g', rfl⟩
  | brk g' => rw [hr] at h; cases h
  | cont g' => rw [hr] at h; cases h
  | err => rw [hr] at h; cases h
  | out => rw [hr] at h; cases h

/-- The hypothesis of direction 1 is met: the reference interpreter answers `ok` on the concrete program (the
loop with `continue` and `break`), with fuel 200, from the empty heap. -/
theorem exLoop_runProgram_ok :
    ∃ gs st, Spec.runProgram 200 (inputsV gname 2 exG) {} (toAstSs2 gname exCtab exLoop) = .ok gs st := by
  obtain ⟨g', hg'⟩ := exLoop_done
  obtain ⟨st, hst⟩ := (runProgram_fragment2 gname exCtab 2 exLoop 40 200 (fun _ _ _ _ h => gname_inj h)
    (by decide) (by decide) (by decide) (by decide) (by decide) exG {}).1 g' hg'
  exact ⟨_, st, hst⟩

/-- All hypotheses of the full headline hold of the concrete program, and direction 1 fires on it: the
interpreter's `ok` answer (fuel 200) is matched by a halting run of `VM.run` on `compileFile`'s bytecode, with the
interpreter's globals. -/
example (keep : Nat) (log : VM.Log) (gst : GSt) (heap : Spec.St) :
    ∃ bc gs st fuel c',
      Compiler.compileFile (toAstSs2 gname exCtab exLoop) (inputsOf gname 2) = .ok bc ∧
      Spec.runProgram 200 (inputsV gname 2 exG) {} (toAstSs2 gname exCtab exLoop) = .ok gs st ∧
      (∀ k, (VM.run (codeOf bc) keep (fuel + k) 0 ⟨VM.initCore #[.int 0, .int 0] #[], gst, heap⟩ log).1 =
        .halted ⟨c', gst, heap⟩) ∧
      gs = (List.range 2).map (fun i => (gname i, c'.regs.globals.getD i .undef)) := by
  obtain ⟨bc, hbc, h1, _⟩ := reference_and_vm_agree_fragment2_full gname exCtab 2 exLoop
    (fun _ _ _ _ h => gname_inj h)
    (by decide) (by decide) (by decide) (by decide) (by decide) (by decide) (by decide) (by decide)
    exG #[.int 0, .int 0] rfl (by intro i hi; match i, hi with | 0, _ => rfl | 1, _ => rfl)
    keep 0 (by decide) log gst heap
  obtain ⟨gs, st, hrun⟩ := exLoop_runProgram_ok
  obtain ⟨fuel, c', hvm, _, hgs⟩ := h1 200 {} gs st hrun
  exact ⟨bc, gs, st, fuel, c', hbc, hrun, hvm, hgs⟩

end Tengo.Props.C01F2

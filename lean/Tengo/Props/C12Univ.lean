import Tengo.Props.C12VM
import Tengo.Proofs.C12Renum
/-!
C12 — the universal link: **what the `Dedup` model (`RemoveDuplicates` + `updateConstIndexes`) makes of a
program always passes the whole-VM renumbering check against the original**, hence, for EVERY program that
meets `DedupPre` (decidable: `checkDedupPre`), the original and the de-duplicated program run alike on the
whole-VM model (`Tengo.Model.VM.run`) from the initial configuration — for every fuel, allocation budget,
globals, initial function objects and heap.

Until now `checkRenum` was only evaluated by the driver on the programs of a run
(`Tengo.Props.C12VM.checked_programs_run`); these theorems say what it answers on the model's output for all
of them. Definitions: `Tengo/Model/DedupVM.lean` (`toDedup`, `renumCode`, `dedupCode`, `checkDedupPre`,
`outputIsModel`); proofs: `Tengo/Proofs/C12Scan.lean`, `Tengo/Proofs/C12Renum.lean`.

Hypotheses (`DedupPre ptr code`, all decidable — `checkDedupPre_sound`):
* at most 65536 constants (the CONST / CLOSURE operand is two bytes wide);
* every function (main and every function constant) decodes and is not empty; its CONST / CLOSURE operands
  are indexes of the pool (otherwise `updateConstIndexes` panics) and its CLOSURE operands name function
  constants (`checkRenum` demands a function on both sides); its jumps land on instructions and no
  instruction that can fall through is the last one (`checkRenum` wants the set of starts closed);
* `PtrOK ptr code`: function constants with the same pointer `ptr k` (the key of the Go map `fns`) are the same
  function with the same `ref`. Trivial for `ptr = id` (all function constants are distinct pointers: the
  programs the harness sends); for `ptr = refPtr code` it says "same `ref` ⇒ same function".
and, for the agreement of the value constants only,
* `FloatsOK code`: float constants that Go's `==` identifies (`floatEq` of the bit patterns: `+0 == -0`) are
  the same `Float`. It replaces `NoNegZeroConst` of `Tengo.Props.C12` and is needed because `Float` is opaque
  in core Lean (`Float.toBits` is not provably injective). Decidable sufficient condition: `floatsDistinctB`
  (no two float constants are merged). Without it the statement holds for `expandVals`
  (`deduplicated_renum_expand`).
-/
set_option linter.unusedSectionVars false
set_option linter.unusedVariables false
namespace Tengo.Props.C12Univ
open Tengo.Model Tengo.Model.Spec Tengo.Model.Opcodes Tengo.Model.VM
open Tengo.Proofs.C12Renum Tengo.Props.C12VM

/-! ## 1. The check passes on the model's output -/

/-- **The model does not panic** on a program that meets the precondition. -/
theorem deduplicated_exists {ptr : Nat → Nat} {code : Code} (hpre : DedupPre ptr code) :
    ∃ code' m, dedupCode ptr code = some (code', m) ∧ m.length = code.consts.size := by
  obtain ⟨bc', m, h1, h2⟩ := dedup_total hpre
  exact ⟨renumCode code bc' m, m, by simp [dedupCode, h1], h2⟩

/-- **deduplicated_checks.** For every program that meets the precondition, the de-duplicated program passes
the renumbering check against the original (table = the model's index map, starts = decoded instruction
positions); the value constants agree when `FloatsOK`; the initial function objects correspond by
construction. These are the three hypotheses of `Tengo.Props.C12VM.checked_programs_run`. -/
theorem deduplicated_checks {ptr : Nat → Nat} {code code' : Code} {m : List Nat} (hpre : DedupPre ptr code)
    (hd : dedupCode ptr code = some (code', m)) :
    checkRenum code code' m (codeStarts code) = true ∧
    (FloatsOK code → ValsAgree code code' (cmOf m code'.consts.size)) ∧
    ∀ fobjs : Array FnObj,
      initRelB fobjs (fobjs.map (mapFobj (cmOf m code'.consts.size))) m code'.consts.size = true := by
  obtain ⟨bc', hd', rfl⟩ := dedupCode_some hd
  refine ⟨dedup_code_renum hpre hd', fun hfl => dedup_code_vals hpre.ptr hfl hd', ?_⟩
  intro fobjs
  simp [initRelB]

/-- One function: the model's rewritten bytes of any function of a fit program pass `checkFnRenum` against
the original function. -/
theorem deduplicated_fn_checks {ptr : Nat → Nat} {code : Code} {bc' : Dedup.Bytecode} {m : List Nat}
    (hpre : DedupPre ptr code) (hd : Dedup.dedup (toDedup ptr code) = .ok (bc', m)) {idx : Nat} {f : Fn}
    (hf : code.fn idx = some f) {bs' : Model.Bytes} (hu : Dedup.updateConstIndexes m f.insts.toList = .ok bs') :
    checkFnRenum code (renumCode code bc' m) (cmOf m (renumCode code bc' m).consts.size) f
      { f with insts := bs'.toArray } (codeStarts code idx) = true :=
  fn_renum_code hpre hd hf hu

/-! ## 2. Every fit program and its de-duplicated form run alike -/

section univ
variable {ptr : Nat → Nat} {code code' : Code} {m : List Nat}
  (hpre : DedupPre ptr code) (hfl : FloatsOK code) (hd : dedupCode ptr code = some (code', m))
  (keep keep' fuel : Nat) (allocs : Int) (globals : Array Value) (fobjs : Array FnObj) (g : GSt) (h : St)
include hpre hfl hd

/-- The de-duplicated program is the renumbering of the original. -/
theorem deduplicated_renum : Renum code code' (cmOf m code'.consts.size) (codeStarts code) := by
  obtain ⟨bc', hd', rfl⟩ := dedupCode_some hd
  exact dedup_code_renumbers hpre hfl hd'

/-- **deduplicated_run.** For EVERY program that meets the precondition: the original and the de-duplicated
program take the same number of dispatches, perform the same number of tracked allocations and end in
corresponding outcomes, from the initial configuration, for every fuel, allocation budget, globals, initial
function objects (renumbered on the right) and heap. -/
theorem deduplicated_run :
    OutcomeRelC (cmOf m code'.consts.size) (codeStarts code)
        (run code keep fuel allocs ⟨initCore globals fobjs, g, h⟩ {}).1
        (run code' keep' fuel allocs ⟨initCore globals (fobjs.map (mapFobj (cmOf m code'.consts.size))), g, h⟩ {}).1 ∧
      (run code' keep' fuel allocs ⟨initCore globals (fobjs.map (mapFobj (cmOf m code'.consts.size))), g, h⟩ {}).2.steps =
        (run code keep fuel allocs ⟨initCore globals fobjs, g, h⟩ {}).2.steps ∧
      (run code' keep' fuel allocs ⟨initCore globals (fobjs.map (mapFobj (cmOf m code'.consts.size))), g, h⟩ {}).2.counted =
        (run code keep fuel allocs ⟨initCore globals fobjs, g, h⟩ {}).2.counted :=
  renumbered_run (deduplicated_renum hpre hfl hd) keep keep' fuel allocs globals fobjs g h

/-- **deduplicated_same_result.** If the original halts, the de-duplicated program halts after the same
number of dispatches with the same stack, `sp`, globals and heap (and the renumbered function objects). -/
theorem deduplicated_same_result (cfg : Cfg)
    (hh : (run code keep fuel allocs ⟨initCore globals fobjs, g, h⟩ {}).1 = .halted cfg) :
    ∃ cfg', (run code' keep' fuel allocs
          ⟨initCore globals (fobjs.map (mapFobj (cmOf m code'.consts.size))), g, h⟩ {}).1 = .halted cfg' ∧
      cfg'.core.regs.stack = cfg.core.regs.stack ∧ cfg'.core.regs.sp = cfg.core.regs.sp ∧
      cfg'.core.regs.globals = cfg.core.regs.globals ∧
      cfg'.core.regs.fobjs = cfg.core.regs.fobjs.map (mapFobj (cmOf m code'.consts.size)) ∧
      cfg'.gst = cfg.gst ∧ cfg'.heap = cfg.heap ∧
      (run code' keep' fuel allocs
          ⟨initCore globals (fobjs.map (mapFobj (cmOf m code'.consts.size))), g, h⟩ {}).2.steps =
        (run code keep fuel allocs ⟨initCore globals fobjs, g, h⟩ {}).2.steps :=
  renum_same_result (deduplicated_renum hpre hfl hd) keep keep' fuel allocs globals fobjs g h cfg hh

/-- **deduplicated_same_error.** If the original fails with error `e` while dispatching the instruction at
offset `ip + 1` of function `idx`, the de-duplicated program fails with the same `e`, the same stack,
globals and heap, at the same offset of the same function (main stays main, function constant `k` is
constant `m[k]`); every caller frame has the same return position, `bp` and captured cells. -/
theorem deduplicated_same_error (e : Err) (cfg : Cfg)
    (hh : (run code keep fuel allocs ⟨initCore globals fobjs, g, h⟩ {}).1 = .failed e cfg) :
    ∃ cfg', (run code' keep' fuel allocs
          ⟨initCore globals (fobjs.map (mapFobj (cmOf m code'.consts.size))), g, h⟩ {}).1 = .failed e cfg' ∧
      cfg' = mapCfgC (cmOf m code'.consts.size) cfg ∧
      cfg'.core.regs.stack = cfg.core.regs.stack ∧ cfg'.core.regs.sp = cfg.core.regs.sp ∧
      cfg'.core.regs.globals = cfg.core.regs.globals ∧ cfg'.gst = cfg.gst ∧ cfg'.heap = cfg.heap ∧
      cfg'.core.cur.fnIdx = fim (cmOf m code'.consts.size) cfg.core.cur.fnIdx ∧ cfg'.core.cur.ip = cfg.core.cur.ip ∧
      cfg'.core.callers.map (fun fr => (fr.fnIdx, fr.ip, fr.bp)) =
        cfg.core.callers.map (fun fr => (fim (cmOf m code'.consts.size) fr.fnIdx, fr.ip, fr.bp)) ∧
      ∃ p : Nat, cfg.core.cur.ip + 1 = p ∧ p ∈ codeStarts code cfg.core.cur.fnIdx :=
  renum_same_error (deduplicated_renum hpre hfl hd) keep keep' fuel allocs globals fobjs g h e cfg hh

/-- **deduplicated_same_kind.** Both end in the same kind of outcome (halt, the same error, the same
internal fault, allocation limit, out of fuel): de-duplication introduces no fault or error and removes
none. -/
theorem deduplicated_same_kind :
    match (run code keep fuel allocs ⟨initCore globals fobjs, g, h⟩ {}).1,
          (run code' keep' fuel allocs
            ⟨initCore globals (fobjs.map (mapFobj (cmOf m code'.consts.size))), g, h⟩ {}).1 with
    | .halted _, .halted _ => True
    | .failed e _, .failed e' _ => e' = e
    | .fault ft _, .fault ft' _ => ft' = ft
    | .limit _, .limit _ => True
    | .outOfFuel _, .outOfFuel _ => True
    | _, _ => False :=
  renum_same_kind (deduplicated_renum hpre hfl hd) keep keep' fuel allocs globals fobjs g h

/-- Same number of dispatches and of tracked allocations. -/
theorem deduplicated_same_cost :
    (run code' keep' fuel allocs
        ⟨initCore globals (fobjs.map (mapFobj (cmOf m code'.consts.size))), g, h⟩ {}).2.steps =
      (run code keep fuel allocs ⟨initCore globals fobjs, g, h⟩ {}).2.steps ∧
    (run code' keep' fuel allocs
        ⟨initCore globals (fobjs.map (mapFobj (cmOf m code'.consts.size))), g, h⟩ {}).2.counted =
      (run code keep fuel allocs ⟨initCore globals fobjs, g, h⟩ {}).2.counted :=
  renum_same_cost (deduplicated_renum hpre hfl hd) keep keep' fuel allocs globals fobjs g h

end univ

/-- Without any hypothesis on floats: the original *with every value constant `k` read from the
de-duplicated pool at index `m[k]`* (`expandVals`; the constant there is the original constant at the first
index of the same kind with an equal key) is the renumbering — so `renumbered_run` & co. apply to it. -/
theorem deduplicated_renum_expand {ptr : Nat → Nat} {code code' : Code} {m : List Nat} (hpre : DedupPre ptr code)
    (hd : dedupCode ptr code = some (code', m)) :
    Renum (expandVals code code' m) code' (cmOf m code'.consts.size) (codeStarts code) := by
  obtain ⟨bc', hd', rfl⟩ := dedupCode_some hd
  exact dedup_code_renumbers_expand hpre hd'

/-- The same for a program as the driver prepares it (`initFobjs P`: the function constants loaded by CONST
get their function objects): from the driver's initial configuration of `P`, the prepared original and what
the model makes of it run alike — the de-duplicated program starts from the renumbered function objects. -/
theorem deduplicated_program_run {ptr : Nat → Nat} (P : Code) {code' : Code} {m : List Nat}
    (hpre : DedupPre ptr (initFobjs P).1) (hfl : FloatsOK (initFobjs P).1)
    (hd : dedupCode ptr (initFobjs P).1 = some (code', m))
    (keep keep' fuel : Nat) (allocs : Int) (globals : Array Value) (g : GSt) (h : St) :
    OutcomeRelC (cmOf m code'.consts.size) (codeStarts (initFobjs P).1)
        (run (initFobjs P).1 keep fuel allocs ⟨initCore globals (initFobjs P).2, g, h⟩ {}).1
        (run code' keep' fuel allocs
          ⟨initCore globals ((initFobjs P).2.map (mapFobj (cmOf m code'.consts.size))), g, h⟩ {}).1 ∧
      (run code' keep' fuel allocs
          ⟨initCore globals ((initFobjs P).2.map (mapFobj (cmOf m code'.consts.size))), g, h⟩ {}).2.steps =
        (run (initFobjs P).1 keep fuel allocs ⟨initCore globals (initFobjs P).2, g, h⟩ {}).2.steps ∧
      (run code' keep' fuel allocs
          ⟨initCore globals ((initFobjs P).2.map (mapFobj (cmOf m code'.consts.size))), g, h⟩ {}).2.counted =
        (run (initFobjs P).1 keep fuel allocs ⟨initCore globals (initFobjs P).2, g, h⟩ {}).2.counted :=
  deduplicated_run hpre hfl hd keep keep' fuel allocs globals (initFobjs P).2 g h

/- `deduplicated_programs_run_TODO` (not proved, not needed for the theorems above): the form of
`Tengo.Props.C12VM.checked_programs_run` with `initFobjs` applied to BOTH programs, i.e. for
`dedupCode id P = some (P', m)`:
  `checkRenum (initFobjs P).1 (initFobjs P').1 m starts = true` and
  `initRelB (initFobjs P).2 (initFobjs P').2 m (initFobjs P').1.consts.size = true`.
Missing: that `initFobjs` commutes with `renumCode` — `constLoaded` of the renumbered program is the image of
`constLoaded` of the original under `m`, and `initFobjs` numbers the function objects in pool order, which the
scan preserves. (The dangling `ref`s of function constants that no CONST loads differ: `consts.size + 1` of the
respective pool; `checkRenum` never reads them.) The theorems above avoid this by preparing the ORIGINAL only
and renumbering its function objects (`fobjs.map (mapFobj cm)`), for arbitrary `fobjs`. -/

/-! ## 3. From the decidable forms (what the driver evaluates per program) -/

/-- A program the driver has classified (`checkDedupPre`, `floatsDistinctB`) is one the universal theorems
speak about: the model returns a de-duplicated program, and it is the renumbering of the original. -/
theorem covered_program {ptr : Nat → Nat} {code : Code} (h1 : checkDedupPre ptr code = true)
    (h2 : floatsDistinctB code = true) :
    ∃ code' m, dedupCode ptr code = some (code', m) ∧
      Renum code code' (cmOf m code'.consts.size) (codeStarts code) := by
  have hpre := checkDedupPre_sound h1
  obtain ⟨code', m, hd, _⟩ := deduplicated_exists hpre
  exact ⟨code', m, hd, deduplicated_renum hpre (floatsDistinctB_sound h2) hd⟩

/-- With `checkDedupPre` alone (float constants may be merged): the original with its value constants read
from the de-duplicated pool (`expandVals` — the driver checks that this replaces every constant by one that is
written the same) is the renumbering. -/
theorem covered_program_expand {ptr : Nat → Nat} {code : Code} (h1 : checkDedupPre ptr code = true) :
    ∃ code' m, dedupCode ptr code = some (code', m) ∧ checkRenum code code' m (codeStarts code) = true ∧
      Renum (expandVals code code' m) code' (cmOf m code'.consts.size) (codeStarts code) := by
  have hpre := checkDedupPre_sound h1
  obtain ⟨code', m, hd, _⟩ := deduplicated_exists hpre
  exact ⟨code', m, hd, (deduplicated_checks hpre hd).1, deduplicated_renum_expand hpre hd⟩

/-- A program pair the driver has classified (`checkDedupPre`, `outputIsModel`): the real output `code'` is
the model's output `c` up to value constants (compared as written by the driver) and `ref`s (assigned by the
driver), and `c` passes the renumbering check against the original — by proof, not by evaluation. -/
theorem covered_renum {ptr : Nat → Nat} {code code' : Code} {tab : List Nat}
    (h1 : checkDedupPre ptr code = true) (h2 : outputIsModel ptr code code' tab = true) :
    ∃ c, dedupCode ptr code = some (c, tab) ∧ SameUpToVals c code' ∧
      checkRenum code c tab (codeStarts code) = true :=
  Tengo.Proofs.C12Renum.covered_renum h1 h2

/-! ## 4. Non-vacuity -/

def exFn (k : Nat) : Fn :=
  { insts := #[opConstant.toUInt8, 0, k.toUInt8, opReturn.toUInt8, 1], numLocals := 0, numParams := 0, varargs := false }

def exMain (k1 k2 k3 k4 k5 : Nat) : Fn :=
  { insts := #[opConstant.toUInt8, 0, k1.toUInt8, opPop.toUInt8,      -- 0, 3
               opConstant.toUInt8, 0, k2.toUInt8, opPop.toUInt8,      -- 4, 7
               opClosure.toUInt8, 0, k3.toUInt8, 0,                   -- 8
               opCall.toUInt8, 0, 0, opPop.toUInt8,                   -- 12, 15
               opConstant.toUInt8, 0, k4.toUInt8, opPop.toUInt8,      -- 16, 19
               opConstant.toUInt8, 0, k5.toUInt8, opPop.toUInt8,      -- 20, 23
               opSuspend.toUInt8],                                    -- 24
    numLocals := 0, numParams := 0, varargs := false }

/-- Pool `[7, 7, <fn>, 1.5, "A"]`: main loads the two `7`s, instantiates the function with CLOSURE and calls
it (the function loads the duplicate `7`, constant 1), then loads the float and the string. -/
def exCode : Code :=
  { main := exMain 0 1 2 3 4,
    consts := #[.val (.int 7), .val (.int 7), .fn (exFn 1) 0, .val (.float 1.5), .val (.str [65])] }

/-- What `RemoveDuplicates` makes of it: pool `[7, <fn>, 1.5, "A"]`; the function constant moves from index 2
to 1 (the CLOSURE operand is rewritten), its CONST operand from 1 to 0. -/
def exMain' : Fn := exMain 0 0 1 2 3

/-- The decidable precondition holds for the example (all function constants distinct pointers) … -/
theorem exCode_pre : checkDedupPre id exCode = true := by decide
/-- … and with pointers by `ref` … -/
example : checkDedupPre (refPtr exCode) exCode = true := by decide
/-- … no two float constants are merged (one float constant: nothing to compare) … -/
theorem exCode_floats : floatsDistinctB exCode = true := by decide
/-- … the model returns the index map `[0, 0, 1, 2, 3]`, a pool of four constants, the rewritten main and the
rewritten function body … -/
example : (dedupCode id exCode).map (·.2) = some [0, 0, 1, 2, 3] := by decide
def exExpected (c : Code) : Bool :=
  c.consts.size == 4 && fnEqB c.main exMain' &&
    (match (c.consts[1]? : Option Const) with | some (.fn f r) => fnEqB f (exFn 0) && r == 0 | _ => false) &&
    (match (c.consts[0]? : Option Const), (c.consts[2]? : Option Const), (c.consts[3]? : Option Const) with
      | some (.val (.int 7)), some (.val (.float _)), some (.val (.str [65])) => true
      | _, _, _ => false)
example : (dedupCode id exCode).any (fun p => exExpected p.1) = true := by decide
/-- … and the check, evaluated, says the same as the theorem. -/
example : (dedupCode id exCode).any (fun p => checkRenum exCode p.1 p.2 (codeStarts exCode)) = true := by decide

/-- The hypotheses of the universal theorems are met by the example. -/
theorem exCode_fit : DedupPre id exCode := checkDedupPre_sound exCode_pre
theorem exCode_floatsOK : FloatsOK exCode := floatsDistinctB_sound exCode_floats

example : ∃ code' m, dedupCode id exCode = some (code', m) ∧
    Renum exCode code' (cmOf m code'.consts.size) (codeStarts exCode) :=
  covered_program exCode_pre exCode_floats

/-- `deduplicated_same_kind`, instantiated: whatever the model returns for the example runs like the example. -/
example {code' : Code} {m : List Nat} (hd : dedupCode id exCode = some (code', m)) (keep keep' fuel : Nat)
    (allocs : Int) (globals : Array Value) (fobjs : Array FnObj) (g : GSt) (h : St) :
    match (run exCode keep fuel allocs ⟨initCore globals fobjs, g, h⟩ {}).1,
          (run code' keep' fuel allocs
            ⟨initCore globals (fobjs.map (mapFobj (cmOf m code'.consts.size))), g, h⟩ {}).1 with
    | .halted _, .halted _ => True
    | .failed e _, .failed e' _ => e' = e
    | .fault ft _, .fault ft' _ => ft' = ft
    | .limit _, .limit _ => True
    | .outOfFuel _, .outOfFuel _ => True
    | _, _ => False :=
  deduplicated_same_kind exCode_fit exCode_floatsOK hd keep keep' fuel allocs globals fobjs g h

/-- The real output, as the driver would parse it (`ref`s and value constants as written), is classified as
the model's output. -/
def exCode' : Code :=
  { main := exMain', consts := #[.val (.int 7), .fn (exFn 0) 5, .val (.float 1.5), .val (.str [65])] }
example : outputIsModel id exCode exCode' [0, 0, 1, 2, 3] = true := by decide
/-- … a program whose CLOSURE operand was not rewritten is not. -/
example : outputIsModel id exCode { exCode' with main := exMain 0 0 2 2 3 } [0, 0, 1, 2, 3] = false := by decide

/-- The precondition is not trivially true: a CONST operand past the pool, a CLOSURE naming a value
constant, a function that falls off its end. -/
example : checkDedupPre id { exCode with main := exMain 0 1 2 3 5 } = false := by decide
example : checkDedupPre id { exCode with main := exMain 0 1 3 3 4 } = false := by decide
def exFalls : Const := .fn { exFn 0 with insts := #[opConstant.toUInt8, 0, 0] } 0
example : checkDedupPre id { exCode with consts := exCode.consts.push exFalls } = false := by decide

/-- Function constants can be merged too: two constants standing for the same function object (same `ref`,
same function) are one pointer under `refPtr`; the model keeps one of them and both CONSTs name it. -/
def exShared : Code :=
  { main := { insts := #[opConstant.toUInt8, 0, 0, opPop.toUInt8, opConstant.toUInt8, 0, 1, opPop.toUInt8,
                         opSuspend.toUInt8], numLocals := 0, numParams := 0, varargs := false },
    consts := #[.fn (exFn 2) 0, .fn (exFn 2) 0, .val (.int 3)] }
example : checkDedupPre (refPtr exShared) exShared = true := by decide
example : (dedupCode (refPtr exShared) exShared).map (·.2) = some [0, 0, 1] := by decide
example : (dedupCode (refPtr exShared) exShared).any (fun p =>
    checkRenum exShared p.1 p.2 (codeStarts exShared) && valsAgreeB exShared p.1 p.2) = true := by decide
/-- Same pointer but different functions: `PtrOK` fails, the program is not covered. -/
example : checkDedupPre (refPtr exShared)
    { exShared with consts := #[.fn (exFn 2) 0, .fn (exFn 1) 0, .val (.int 3)] } = false := by decide

end Tengo.Props.C12Univ

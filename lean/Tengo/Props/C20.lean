import Tengo.Gen.Tokens
import Tengo.Model.Parser
import Tengo.Model.Printer
import Tengo.Proofs.C20Parser
/-!
C20 — Parsing reflects the documented grammar and its own printed form.

Theorems about the front-end model (`Model/Token`, `Scanner`, `Literal`, `Parser`). The model is tied
to /repo by the `scan` / `parse` / `print` / `litmodel` correspondence streams of harness/cmd/c20 and by
the regenerated token table (`Tengo.Gen.Tokens`).
-/
namespace Tengo.Props.C20
open Tengo.Model.Token Tengo.Model.Scanner Tengo.Model.Ast Tengo.Model.Parser Tengo.Model.Literal
open Tengo.Proofs.C20Parser

/-! ## 1. Token table and precedence -/

/-- The hand-written token type is the const block of token/token.go: names, values, spellings (the
unexported range markers are the entries with an empty spelling). -/
theorem token_table_matches :
    Tengo.Gen.Tokens.table.filter (fun e => e.2.2 != "") = Tok.all.map (fun t => (t.name, t.code, t.str)) := by
  decide

/-- Range markers (`IsLiteral`, `IsOperator`, `IsKeyword`) and the keyword set built by `init()`. -/
theorem token_ranges_match :
    Tengo.Gen.Tokens.literalBeg = Tok.literalBeg ∧ Tengo.Gen.Tokens.literalEnd = Tok.literalEnd ∧
    Tengo.Gen.Tokens.operatorBeg = Tok.operatorBeg ∧ Tengo.Gen.Tokens.operatorEnd = Tok.operatorEnd ∧
    Tengo.Gen.Tokens.keywordBeg = Tok.keywordBeg ∧ Tengo.Gen.Tokens.keywordEnd = Tok.keywordEnd ∧
    Tok.keywords = [.Break, .Continue, .Else, .For, .Func, .Error, .Immutable, .If, .Return, .Export,
      .True, .False, .In, .Undefined, .Import] := by
  decide

/-- The five binary levels of docs/tutorial.md "Operator Precedences". -/
def docPrecedence : List (Nat × List Tok) :=
  [(5, [.Mul, .Quo, .Rem, .Shl, .Shr, .And, .AndNot]),
   (4, [.Add, .Sub, .Or, .Xor]),
   (3, [.Equal, .NotEqual, .Less, .LessEq, .Greater, .GreaterEq]),
   (2, [.LAnd]),
   (1, [.LOr])]

def docPrec (t : Tok) : Nat :=
  match docPrecedence.find? (fun e => e.2.contains t) with
  | some e => e.1
  | none => 0

/-- `Token.Precedence()` as extracted from token.go = the model's table = the documented table. -/
theorem prec_table :
    Tengo.Gen.Tokens.precedence = (Tok.all.filter (fun t => t.prec != 0)).map (fun t => (t.name, t.prec)) ∧
    Tengo.Gen.Tokens.precedenceDefault = 0 ∧
    ∀ t : Tok, t.prec = docPrec t := by
  refine ⟨by decide, by decide, ?_⟩
  intro t
  cases t <;> decide

/-! ## 2. Automatic semicolon insertion -/

/-- The documented set: identifier, literals, `break continue return export true false undefined`,
`++ -- ) ] }`. -/
def semiSet : Tok → Bool
  | .Ident | .Int | .Float | .Char | .String
  | .Break | .Continue | .Return | .Export | .True | .False | .Undefined
  | .Inc | .Dec | .RParen | .RBrack | .RBrace => true
  | _ => false

/-- What one `Scan()` step must satisfy: the new `insertSemi` is membership of the returned token in the
documented set (an Illegal token keeps the flag; white space and comments return no token). -/
def StepOk (st : Step) : Prop :=
  ∀ t lit, st.tok = some (t, lit) → t ≠ .Illegal → st.ins = semiSet t

theorem lookup_cases (lit : Bs) : Tok.lookup lit = .Ident ∨ Tok.lookup lit ∈ Tok.keywords := by
  unfold Tok.lookup
  split
  · next k hk => exact Or.inr (List.mem_of_find?_eq_some hk)
  · exact Or.inl rfl

theorem identSemi_eq (lit : Bs) : identSemi (Tok.lookup lit) = semiSet (Tok.lookup lit) := by
  have hk : ∀ t ∈ Tok.keywords, identSemi t = semiSet t := by decide
  rcases lookup_cases lit with h | h
  · rw [h]; rfl
  · exact hk _ h

theorem scanNumber_tok (cs : List Ch) : (scanNumber cs).2.1 = .Int ∨ (scanNumber cs).2.1 = .Float := by
  unfold scanNumber
  simp only
  split
  · exact Or.inr rfl
  · split
    · exact Or.inr rfl
    · exact Or.inl rfl

theorem stepOk_op (mt : Nat × Tok) (i : Bool) (h : mt.2 ≠ .Illegal → i = semiSet mt.2) : StepOk (op mt i) := by
  intro t lit ht hne
  simp only [op, Option.some.injEq, Prod.mk.injEq] at ht
  rw [← ht.1] at hne ⊢
  exact h hne

theorem switch2_cases (cs : List Ch) (a b : Tok) : (switch2 cs a b).2 = a ∨ (switch2 cs a b).2 = b := by
  unfold switch2; split <;> simp

theorem switch3_cases (cs : List Ch) (a b : Tok) (c : Nat) (d : Tok) :
    (switch3 cs a b c d).2 = a ∨ (switch3 cs a b c d).2 = b ∨ (switch3 cs a b c d).2 = d := by
  unfold switch3; repeat' split
  all_goals simp

theorem switch4_cases (cs : List Ch) (a b : Tok) (c : Nat) (d e : Tok) :
    (switch4 cs a b c d e).2 = a ∨ (switch4 cs a b c d e).2 = b ∨ (switch4 cs a b c d e).2 = d ∨
      (switch4 cs a b c d e).2 = e := by
  unfold switch4; repeat' split
  all_goals simp

/-- **semi_rule (flag).** After every token the scanner's `insertSemi` flag is exactly membership in the
documented set — for every character class, operator spelling and literal form of `Scan()`. -/
theorem stepOk_ite {c : Prop} [Decidable c] {a b : Step} (ha : StepOk a) (hb : StepOk b) :
    StepOk (if c then a else b) := by
  split <;> assumption

theorem semi_rule_flagR (cls : Nat → Nat) (ins : Bool) (r : Nat) (c : Ch) (cs : List Ch) : StepOk (scanR cls ins r c cs) := by
  unfold scanR
  repeat' apply stepOk_ite
  all_goals first
    | (intro t lit ht _; simp at ht; done)
    | (intro t lit ht hne
       simp only [Option.some.injEq, Prod.mk.injEq] at ht
       first
         | (rw [← ht.1]; exact identSemi_eq _)
         | (rw [← ht.1]; rcases scanNumber_tok (c :: cs) with h | h <;> rw [h] <;> rfl)
         | (rw [← ht.1]; rfl)
         | (exact absurd ht.1.symm hne))
    | (apply stepOk_op; intro _; first
        | rfl
        | (rcases switch2_cases cs _ _ with h | h <;> rw [h] <;> rfl)
        | (rcases switch3_cases cs _ _ _ _ with h | h | h <;> rw [h] <;> rfl)
        | (rcases switch4_cases cs _ _ _ _ _ with h | h | h | h <;> rw [h] <;> rfl)
        | (rcases switch2_cases (cs.drop 1) Tok.AndNot Tok.AndNotAssign with h | h <;> simp only [h] <;> rfl))

theorem semi_rule_flag (cls : Nat → Nat) (ins : Bool) (c : Ch) (cs : List Ch) : StepOk (scan1 cls ins c cs) :=
  semi_rule_flagR cls ins c.r c cs

/-- **semi_rule (EOF).** At the end of input a ";" with literal "\n" is emitted exactly when the flag is set. -/
theorem semi_rule_eof (cls : Nat → Nat) (off : Nat) (ins : Bool) :
    (scanLoop cls [] off ins).toks =
      if ins then [⟨.Semicolon, [10], off⟩, ⟨.EOF, [], off⟩] else [⟨.EOF, [], off⟩] := by
  rw [scanLoop]
  cases ins <;> rfl

theorem scanR_newline (cls : Nat → Nat) (c : Ch) (cs : List Ch) :
    scanR cls true 10 c cs = { m := 0, tok := some (.Semicolon, [10]), ins := false } ∧
    scanR cls false 10 c cs = { m := 0, tok := none, ins := false } := by
  constructor <;> simp [scanR, isLetter, isAsciiLetter, isDec]

theorem width_single (c : Ch) : width [c] = c.bytes.length := by simp [width]

/-- **semi_rule (newline).** A newline becomes a ";" exactly when the flag is set; otherwise it is white
space. -/
theorem semi_rule_newline (cls : Nat → Nat) (c : Ch) (rest : List Ch) (off : Nat) (h : c.r = 10) :
    (scanLoop cls (c :: rest) off true).toks =
        ⟨.Semicolon, [10], off⟩ :: (scanLoop cls rest (off + c.bytes.length) false).toks ∧
    (scanLoop cls (c :: rest) off false).toks = (scanLoop cls rest (off + c.bytes.length) false).toks := by
  have hc : atComment c rest = false := by simp [atComment, h]
  constructor
  · rw [scanLoop]
    simp only [hc, Bool.false_eq_true, and_false, dite_false]
    simp [scan1, h, (scanR_newline cls c rest).1, width_single]
  · rw [scanLoop]
    simp only [Bool.false_eq_true, false_and, dite_false]
    simp [scan1, h, (scanR_newline cls c rest).2, width_single]

/-- **semi_rule (comment).** With the flag set, a comment that runs to the end of the line (`findLineEnd`)
is preceded by the ";" and then scanned with the flag cleared. -/
theorem semi_rule_comment (cls : Nat → Nat) (c : Ch) (rest : List Ch) (off : Nat)
    (hc : atComment c rest = true) (hf : (findLineEnd .head rest).1 = true) :
    (scanLoop cls (c :: rest) off true).toks = ⟨.Semicolon, [10], off⟩ :: (scanLoop cls (c :: rest) off false).toks := by
  rw [scanLoop]
  simp [hc, hf]

/-- `findLineEnd` answers yes for a line comment, for a general comment containing a newline and for a
general comment followed only by blanks up to a newline or the end of input. -/
theorem findLineEnd_line (c1 : Ch) (cs : List Ch) (h : c1.r = 47) : (findLineEnd .head (c1 :: cs)).1 = true := by
  simp [findLineEnd, h]

theorem findLineEnd_block_newline (c1 c2 : Ch) (cs : List Ch) (h1 : c1.r = 42) (h2 : c2.r = 10) :
    (findLineEnd .head (c1 :: c2 :: cs)).1 = true := by
  simp [findLineEnd, h1, h2]

/-- Non-vacuity of `semi_rule_comment`: `// x` and `/*` + newline after a token of the set. -/
example : atComment ⟨47, [47], none⟩ [⟨47, [47], none⟩, ⟨120, [120], none⟩] = true ∧
    (findLineEnd .head [⟨47, [47], none⟩, ⟨120, [120], none⟩]).1 = true ∧
    (findLineEnd .head [⟨42, [42], none⟩, ⟨10, [10], none⟩]).1 = true ∧
    (findLineEnd .head [⟨42, [42], none⟩, ⟨42, [42], none⟩, ⟨47, [47], none⟩, ⟨120, [120], none⟩]).1 = false := by
  decide

/-- Non-vacuity: the flag after `)` and after `+`, an Illegal token keeps it. -/
example : (scanR (fun _ => 0) false 41 ⟨41, [41], none⟩ []).ins = true ∧ (scanR (fun _ => 0) true 43 ⟨43, [43], none⟩ []).ins = false ∧
    (scanR (fun _ => 0) true 64 ⟨64, [64], none⟩ []).tok = some (.Illegal, [64]) ∧
    (scanR (fun _ => 0) true 64 ⟨64, [64], none⟩ []).ins = true := by decide

/-! ## 3. Integer literal values (`strconv.ParseInt(lit, 0, 64)` as the parser calls it) -/

/-- One digit of a spelling: its value, whether a hex letter is upper case, whether an underscore
precedes it. -/
structure Dg where
  d : Nat
  upper : Bool := false
  us : Bool := false

def digitByte (d : Nat) (upper : Bool) : UInt8 :=
  if d < 10 then UInt8.ofNat (48 + d) else UInt8.ofNat ((if upper then 55 else 87) + d)

/-- The digits as written: an optional "_" before each digit (so never two in a row, never at the end). -/
def render : List Dg → Bs
  | [] => []
  | g :: gs => (if g.us then [95] else []) ++ digitByte g.d g.upper :: render gs

/-- Go's value of the digit string in `base`, continuing from `n`. -/
def value (base : Nat) (n : Nat) : List Dg → Nat
  | [] => n
  | g :: gs => value base (n * base + g.d) gs

theorem digit_facts : ∀ d : Fin 16, ∀ up : Bool,
    digitOf (digitByte d.val up) = some d.val ∧ (digitByte d.val up == 95) = false ∧
    (((48 ≤ (digitByte d.val up).toNat && (digitByte d.val up).toNat ≤ 57) ||
      (true && 97 ≤ lowerN (digitByte d.val up).toNat && lowerN (digitByte d.val up).toNat ≤ 102)) = true) ∧
    (d.val < 10 → ((48 ≤ (digitByte d.val up).toNat && (digitByte d.val up).toNat ≤ 57) = true)) ∧
    ((digitByte d.val up).toNat == 95) = false := by
  decide

theorem value_ge (base : Nat) (hb : 1 ≤ base) : ∀ (gs : List Dg) (n : Nat), n ≤ value base n gs := by
  intro gs
  induction gs with
  | nil => intro n; exact Nat.le_refl n
  | cons g gs ih =>
    intro n
    have h1 := ih (n * base + g.d)
    have h2 : n ≤ n * base := Nat.le_mul_of_pos_right n hb
    simp only [value]
    omega

theorem cutoff_le (base n : Nat) (hb : 1 ≤ base) (h : cutoff base ≤ n) : two64 ≤ n * base := by
  unfold cutoff at h
  have h1 : (two64 - 1) / base < n := by omega
  have h2 := (Nat.div_lt_iff_lt_mul (by omega : 0 < base)).mp h1
  have : two64 = 18446744073709551616 := rfl
  omega

theorem uintLoop_us (base : Nat) (cs : Bs) (n : Nat) (u : Bool) :
    uintLoop base (95 :: cs) n u = uintLoop base cs n true := by
  simp [uintLoop]

theorem uintLoop_digit (base d : Nat) (up : Bool) (cs : Bs) (n : Nat) (u : Bool) (hb : 1 ≤ base)
    (hd : d < base) (h16 : base ≤ 16) :
    uintLoop base (digitByte d up :: cs) n u =
      if two64 ≤ n * base + d then .range else uintLoop base cs (n * base + d) u := by
  have hf := digit_facts ⟨d, by omega⟩ up
  simp only at hf
  rw [uintLoop]
  simp only [hf.2.1, Bool.false_eq_true, if_false, hf.1]
  have hnd : ¬ d ≥ base := by omega
  simp only [hnd, if_false]
  by_cases hc : n ≥ cutoff base
  · have := cutoff_le base n hb hc
    have h2 : two64 ≤ n * base + d := by omega
    simp [hc, h2]
  · simp only [hc, if_false]

/-- The digit loop computes the Go value, or reports a range error exactly when the value needs more
than 64 bits. Stated for every digit list, proved by induction. -/
theorem uintLoop_render (base : Nat) (hb : 2 ≤ base) (h16 : base ≤ 16) :
    ∀ (gs : List Dg) (n : Nat) (u : Bool), (∀ g ∈ gs, g.d < base) → n < two64 →
      uintLoop base (render gs) n u =
        if value base n gs < two64 then .done (value base n gs) (u || gs.any (·.us)) else .range := by
  intro gs
  induction gs with
  | nil => intro n u _ hn; simp [render, uintLoop, value, hn]
  | cons g gs ih =>
    intro n u hd hn
    have hg : g.d < base := hd g (List.mem_cons_self)
    have hrest : ∀ x ∈ gs, x.d < base := fun x hx => hd x (List.mem_cons_of_mem _ hx)
    have step : ∀ u', uintLoop base (digitByte g.d g.upper :: render gs) n u' =
        if value base (n * base + g.d) gs < two64 then .done (value base (n * base + g.d) gs) (u' || gs.any (·.us))
        else .range := by
      intro u'
      rw [uintLoop_digit base g.d g.upper _ n u' (by omega) hg h16]
      by_cases ho : two64 ≤ n * base + g.d
      · have := value_ge base (by omega) gs (n * base + g.d)
        have hv : ¬ value base (n * base + g.d) gs < two64 := by omega
        simp [ho, hv]
      · simp only [ho, if_false]
        exact ih (n * base + g.d) u' hrest (by omega)
    simp only [render, value, List.any_cons]
    cases hus : g.us
    · simp only [Bool.false_eq_true, if_false, List.nil_append, Bool.false_or]
      exact step u
    · simp only [if_true, List.cons_append, List.nil_append, uintLoop_us, Bool.true_or, Bool.or_true]
      have := step true
      simpa using this

theorem render_ne_nil (gs : List Dg) (h : gs ≠ []) : ∃ b bs, render gs = b :: bs := by
  cases gs with
  | nil => exact absurd rfl h
  | cons g gs => cases hus : g.us <;> simp [render, hus]

/-- Underscores as `render` places them satisfy `underscoreOK`'s automaton (after a digit or a base
prefix, before a digit). `hex = false` needs decimal digits. -/
theorem underscoreLoop_render (hex : Bool) :
    ∀ gs : List Dg, (∀ g ∈ gs, g.d < (if hex then 16 else 10)) → underscoreLoop hex (render gs) .digit = true := by
  intro gs
  induction gs with
  | nil => intro _; simp [render, underscoreLoop]
  | cons g gs ih =>
    intro hd
    have hg := hd g (List.mem_cons_self)
    have hrest := ih (fun x hx => hd x (List.mem_cons_of_mem _ hx))
    have h16 : g.d < 16 := by cases hex <;> simp at hg <;> omega
    have hf := digit_facts ⟨g.d, h16⟩ g.upper
    simp only at hf
    have hdig : underscoreLoop hex (digitByte g.d g.upper :: render gs) .digit = true ∧
        underscoreLoop hex (digitByte g.d g.upper :: render gs) .under = true := by
      cases hex
      · have h10 : g.d < 10 := by simpa using hg
        have := hf.2.2.2.1 h10
        constructor <;> (rw [underscoreLoop]; simp only [this, Bool.true_or, if_true]; exact hrest)
      · have := hf.2.2.1
        constructor <;> (rw [underscoreLoop]; simp only [this, if_true]; exact hrest)
    simp only [render]
    cases hus : g.us
    · simpa using hdig.1
    · simp only [if_true, List.cons_append, List.nil_append]
      have h95 : lowerN 95 = 127 := by decide
      rw [underscoreLoop]
      simp [hdig.2, h95]

theorem isB_excl {p : UInt8} {x y : Nat} (h : isB p x = true) (hxy : x ≠ y) : isB p y = false := by
  simp only [isB, beq_iff_eq] at h
  simp [isB, h, hxy]

/-- **int_literal_value (prefixed).** `0b`/`0o`/`0x` (either case), an optional underscore after the prefix
and between digits: the literal denotes its digit value in that base; it is rejected as out of range
exactly when the value exceeds MaxInt64. -/
theorem int_literal_value_prefixed (base : Nat) (p : UInt8) (gs : List Dg)
    (hp : (isB p 98 = true ∧ base = 2) ∨ (isB p 111 = true ∧ base = 8) ∨ (isB p 120 = true ∧ base = 16))
    (hne : gs ≠ []) (hd : ∀ g ∈ gs, g.d < base) :
    parseInt0 (48 :: p :: render gs) = if value base 0 gs < two63 then .ok (value base 0 gs) else .range := by
  obtain ⟨b, bs, hr⟩ := render_ne_nil gs hne
  have hb2 : 2 ≤ base ∧ base ≤ 16 := by rcases hp with ⟨_, h⟩ | ⟨_, h⟩ | ⟨_, h⟩ <;> omega
  have hsplit : splitBase (48 :: p :: render gs) = (base, render gs) := by
    rw [hr]
    rcases hp with ⟨h, hb⟩ | ⟨h, hb⟩ | ⟨h, hb⟩
    · simp [splitBase, h, hb]
    · simp [splitBase, h, hb, isB_excl h (by decide : (111 : Nat) ≠ 98)]
    · simp [splitBase, h, hb, isB_excl h (by decide : (120 : Nat) ≠ 98), isB_excl h (by decide : (120 : Nat) ≠ 111)]
  have hus : underscoreOK (48 :: p :: render gs) = true := by
    have hany : (isB p 98 || isB p 111 || isB p 120) = true := by
      rcases hp with ⟨h, _⟩ | ⟨h, _⟩ | ⟨h, _⟩ <;> simp [h]
    simp only [underscoreOK, hany, if_true]
    apply underscoreLoop_render
    intro g hg
    have := hd g hg
    rcases hp with ⟨h, hb⟩ | ⟨h, hb⟩ | ⟨h, hb⟩
    · have hx := isB_excl h (by decide : (98 : Nat) ≠ 120); simp [hx]; omega
    · have hx := isB_excl h (by decide : (111 : Nat) ≠ 120); simp [hx]; omega
    · simp [h]; omega
  have hloop := uintLoop_render base hb2.1 hb2.2 gs 0 false hd (by decide)
  unfold parseInt0
  simp only [List.isEmpty_cons, Bool.false_eq_true, if_false, hsplit, hloop]
  have h63 : two63 < two64 := by decide
  by_cases hv : value base 0 gs < two64
  · simp only [hv, if_true, hus, Bool.not_true, Bool.and_false, Bool.false_eq_true, if_false]
    by_cases h3 : value base 0 gs < two63
    · have : ¬ value base 0 gs ≥ two63 := by omega
      simp [h3, this]
    · have : value base 0 gs ≥ two63 := by omega
      simp [h3, this]
  · have : ¬ value base 0 gs < two63 := by omega
    simp [hv, this]

theorem splitBase_dec (b : UInt8) (bs : Bs) (h : b ≠ 48) : splitBase (b :: bs) = (10, b :: bs) := by
  unfold splitBase
  split
  · next heq => simp only [List.cons.injEq] at heq; exact absurd heq.1 h
  · rfl

theorem underscoreOK_dec (b : UInt8) (bs : Bs) (h : b ≠ 48) :
    underscoreOK (b :: bs) = underscoreLoop false (b :: bs) .start := by
  unfold underscoreOK
  split
  · next heq => simp only [List.cons.injEq] at heq; exact absurd heq.1 h
  · rfl

theorem dec_first : ∀ d : Fin 10, ∀ up : Bool, 1 ≤ d.val → digitByte d.val up ≠ 48 := by decide

/-- The result of `parseInt0` from the outcome of the digit loop when the underscores are fine. -/
theorem parseInt0_of_loop (s : Bs) (base : Nat) (ds : Bs) (v : Nat) (u : Bool) (hs : s.isEmpty = false)
    (hsplit : splitBase s = (base, ds)) (hus : underscoreOK s = true)
    (hloop : uintLoop base ds 0 false = if v < two64 then .done v u else .range) :
    parseInt0 s = if v < two63 then .ok v else .range := by
  unfold parseInt0
  simp only [hs, Bool.false_eq_true, if_false, hsplit, hloop]
  have h63 : two63 < two64 := by decide
  by_cases hv : v < two64
  · simp only [hv, if_true, hus, Bool.not_true, Bool.and_false, Bool.false_eq_true, if_false]
    by_cases h3 : v < two63
    · have : ¬ v ≥ two63 := by omega
      simp [h3, this]
    · have : v ≥ two63 := by omega
      simp [h3, this]
  · have : ¬ v < two63 := by omega
    simp [hv, this]

/-- **int_literal_value (decimal).** A first digit 1–9 followed by decimal digits with single underscores
between them denotes its decimal value (range error above MaxInt64). -/
theorem int_literal_value_decimal (g0 : Dg) (gs : List Dg) (h0 : 1 ≤ g0.d ∧ g0.d < 10) (hus0 : g0.us = false)
    (hd : ∀ g ∈ gs, g.d < 10) :
    parseInt0 (render (g0 :: gs)) =
      if value 10 0 (g0 :: gs) < two63 then .ok (value 10 0 (g0 :: gs)) else .range := by
  have hall : ∀ g ∈ g0 :: gs, g.d < 10 := by
    intro g hg
    rcases List.mem_cons.mp hg with h | h
    · rw [h]; exact h0.2
    · exact hd g h
  have hne : digitByte g0.d g0.upper ≠ 48 := dec_first ⟨g0.d, h0.2⟩ g0.upper h0.1
  have hr : render (g0 :: gs) = digitByte g0.d g0.upper :: render gs := by simp [render, hus0]
  have hloop := uintLoop_render 10 (by decide) (by decide) (g0 :: gs) 0 false hall (by decide)
  apply parseInt0_of_loop _ 10 (render (g0 :: gs)) _ _ (by rw [hr]; rfl) (by rw [hr]; exact splitBase_dec _ _ hne) _ hloop
  rw [hr, underscoreOK_dec _ _ hne]
  have hf := digit_facts ⟨g0.d, by omega⟩ g0.upper
  simp only at hf
  have h10 := hf.2.2.2.1 h0.2
  rw [underscoreLoop]
  simp only [h10, Bool.true_or, if_true]
  exact underscoreLoop_render false gs (by simpa using hd)

theorem oct_first : ∀ d : Fin 8, ∀ up : Bool,
    isB (digitByte d.val up) 98 = false ∧ isB (digitByte d.val up) 111 = false ∧ isB (digitByte d.val up) 120 = false := by
  decide

theorem render_head_not_prefix (gs : List Dg) (hd : ∀ g ∈ gs, g.d < 8) (x : UInt8) (rest : Bs)
    (h : render gs = x :: rest) : isB x 98 = false ∧ isB x 111 = false ∧ isB x 120 = false := by
  cases gs with
  | nil => simp [render] at h
  | cons g gs =>
    have hg := hd g (List.mem_cons_self)
    cases hus : g.us
    · simp only [render, hus, Bool.false_eq_true, if_false, List.nil_append, List.cons.injEq] at h
      rw [← h.1]
      exact oct_first ⟨g.d, hg⟩ g.upper
    · simp only [render, hus, if_true, List.cons_append, List.nil_append, List.cons.injEq] at h
      rw [← h.1]
      decide

/-- **int_literal_value (legacy octal).** A leading `0` followed by octal digits (an underscore may follow
the `0` and separate digits) denotes the octal value; `0` alone is zero. -/
theorem int_literal_value_legacy_octal (gs : List Dg) (hd : ∀ g ∈ gs, g.d < 8) :
    parseInt0 (48 :: render gs) = if value 8 0 gs < two63 then .ok (value 8 0 gs) else .range := by
  have hloop := uintLoop_render 8 (by decide) (by decide) gs 0 false hd (by decide)
  have hsplit : splitBase (48 :: render gs) = (8, render gs) := by
    cases hr : render gs with
    | nil => simp [splitBase]
    | cons x rest =>
      cases rest with
      | nil => simp [splitBase]
      | cons y rest' =>
        obtain ⟨h1, h2, h3⟩ := render_head_not_prefix gs hd x (y :: rest') hr
        simp [splitBase, h1, h2, h3]
  have hus : underscoreOK (48 :: render gs) = true := by
    have hloop10 : underscoreLoop false (render gs) .digit = true :=
      underscoreLoop_render false gs (fun g hg => by have := hd g hg; simp; omega)
    have hstart : underscoreLoop false (48 :: render gs) .start = true := by
      rw [underscoreLoop]
      simpa using hloop10
    cases hr : render gs with
    | nil => rw [hr] at hstart; simpa [underscoreOK] using hstart
    | cons x rest =>
      obtain ⟨h1, h2, h3⟩ := render_head_not_prefix gs hd x rest hr
      rw [hr] at hstart
      simpa [underscoreOK, h1, h2, h3] using hstart
  exact parseInt0_of_loop _ 8 (render gs) _ _ rfl hsplit hus hloop

/-- Non-vacuity: `0x_1F` is 31, `0b1_0` is 2, `0o17` is 15, `0x8000000000000000` is out of range. -/
example : parseInt0 [48, 120, 95, 49, 70] = .ok 31 ∧ parseInt0 [48, 98, 49, 95, 48] = .ok 2 ∧
    parseInt0 [48, 111, 49, 55] = .ok 15 ∧
    parseInt0 (48 :: 120 :: 56 :: List.replicate 15 48) = .range ∧
    parseInt0 [48, 120, 49, 95, 95, 48] = .syntax ∧ parseInt0 [48, 98, 49, 95] = .syntax ∧ parseInt0 [48, 56] = .syntax := by
  decide

example : render [⟨1, false, true⟩, ⟨15, true, false⟩] = [95, 49, 70] ∧ value 16 0 [⟨1, false, true⟩, ⟨15, true, false⟩] = 31 := by
  decide

/-! ## 4. Grouping: precedence climbing on minimally parenthesised token lists

`PE` (Proofs/C20Parser) are expression trees over operand tokens with binary, unary and ternary
operators and explicit parentheses; `PE.body` prints a tree with the fewest parentheses the documented
grammar needs (left operand of a level-k operator at level k, right operand at k+1, unary operand at
level 6, condition of `?:` at level 1, branches at level 0); `PE.ast` is the same tree with a ParenExpr
exactly where a parenthesis was printed, `PE.tree` the tree without any ParenExpr. -/

variable (fo : Bs → Option Nat)

/-- **parse_printMin (token level).** For every well-formed tree — all 19 binary operators of the five
levels, the four unary operators, the ternary operator, parentheses, any depth — parsing its minimally
parenthesised token list with the model's `parseExpr` gives back exactly that tree (and consumes exactly
its tokens), for every continuation that cannot extend an expression. `_partial`: the statement is over
token lists; the composition with the scanner on the printed bytes is covered by the `scan`/`parse`
correspondence streams, not by proof, and operands are identifier / string / true / false / undefined
tokens. -/
theorem parse_printMin_partial (e : PE) (hw : e.WF) (rest : Toks) (hs : Stop0 rest) :
    run (parseExpr fo (e.body ++ rest)) = some (e.ast, rest) ∧ e.ast.strip = e.tree :=
  ⟨(climb fo e hw).expr rest hs, strip_ast e⟩

/-- The same through `parseBinaryExpr(p)` for an operand position of level `p`: what follows may be any
operator of lower or equal level than the tree's own (it is left for the caller's loop). -/
theorem parse_printMin_binary (e : PE) (hw : e.WF) (hl : 1 ≤ e.level) (p : Nat) (hp : 1 ≤ p) (hpl : p ≤ e.level)
    (rest : Toks) (hn : NoPostfix rest) (hr : (tk rest).prec < p) :
    run (parseBinary fo p (e.body ++ rest)) = some (e.ast, rest) := by
  rw [(climb fo e hw).binary hl p rest hp hpl hn (by omega)]
  exact binLoop_stop fo p e.ast rest hr

def mkAtom (name : Bs) : Token := ⟨.Ident, name, 0⟩

/-- **parse_assoc.** `a op1 b op2 c` groups to the left when `op2` does not bind stronger than `op1`
(in particular for equal precedence: left associativity), and to the right exactly when `op2` binds
stronger — for all binary operator tokens. -/
theorem parse_assoc (a b c : Bs) (o1 o2 : Token) (h1 : 1 ≤ o1.tok.prec) (h2 : 1 ≤ o2.tok.prec)
    (rest : Toks) (hs : Stop0 rest) :
    run (parseExpr fo (mkAtom a :: o1 :: mkAtom b :: o2 :: mkAtom c :: rest)) =
      some (if o1.tok.prec < o2.tok.prec then .bin o1.tok (.ident a) (.bin o2.tok (.ident b) (.ident c))
            else .bin o2.tok (.bin o1.tok (.ident a) (.ident b)) (.ident c), rest) := by
  have hat : ∀ n, (PE.atom (mkAtom n)).WF := fun _ => rfl
  have h5a := prec_le_five o1.tok
  have h5b := prec_le_five o2.tok
  have e7a : Nat.blt 7 o1.tok.prec = false := blt_false (by omega)
  have e7b : Nat.blt 7 o2.tok.prec = false := blt_false (by omega)
  have e7c : Nat.blt 7 (o1.tok.prec + 1) = false := blt_false (by omega)
  have e7d : Nat.blt 7 (o2.tok.prec + 1) = false := blt_false (by omega)
  by_cases hlt : o1.tok.prec < o2.tok.prec
  · let e := PE.bin o1 (.atom (mkAtom a)) (.bin o2 (.atom (mkAtom b)) (.atom (mkAtom c)))
    have hn : Nat.blt o2.tok.prec (o1.tok.prec + 1) = false := blt_false (by omega)
    have hb : e.body ++ rest = mkAtom a :: o1 :: mkAtom b :: o2 :: mkAtom c :: rest := by
      simp only [e, PE.body, PE.level, PE.wrapT, e7a, e7b, e7d, hn]; simp
    have ha : e.ast = .bin o1.tok (.ident a) (.bin o2.tok (.ident b) (.ident c)) := by
      simp only [e, PE.ast, PE.level, PE.wrapA, e7a, e7b, e7d, hn]; simp [atomAst, mkAtom]
    have := (climb fo e ⟨h1, hat a, h2, hat b, hat c⟩).expr rest hs
    rw [hb, ha] at this
    simpa [hlt] using this
  · let e := PE.bin o2 (.bin o1 (.atom (mkAtom a)) (.atom (mkAtom b))) (.atom (mkAtom c))
    have hn : Nat.blt o1.tok.prec o2.tok.prec = false := blt_false hlt
    have hb : e.body ++ rest = mkAtom a :: o1 :: mkAtom b :: o2 :: mkAtom c :: rest := by
      simp only [e, PE.body, PE.level, PE.wrapT, e7a, e7c, e7d, hn]; simp
    have ha : e.ast = .bin o2.tok (.bin o1.tok (.ident a) (.ident b)) (.ident c) := by
      simp only [e, PE.ast, PE.level, PE.wrapA, e7a, e7c, e7d, hn]; simp [atomAst, mkAtom]
    have := (climb fo e ⟨h2, ⟨h1, hat a, hat b⟩, hat c⟩).expr rest hs
    rw [hb, ha] at this
    simpa [hlt] using this

/-- Unary operators bind stronger than every binary operator: `- a op b` is `(-a) op b`. -/
theorem parse_unary_binds_tighter (a b : Bs) (u o : Token) (hu : isUnaryOp u.tok = true) (ho : 1 ≤ o.tok.prec)
    (rest : Toks) (hs : Stop0 rest) :
    run (parseExpr fo (u :: mkAtom a :: o :: mkAtom b :: rest)) =
      some (.bin o.tok (.un u.tok (.ident a)) (.ident b), rest) := by
  have hat : ∀ n, (PE.atom (mkAtom n)).WF := fun _ => rfl
  have h5 := prec_le_five o.tok
  let e := PE.bin o (.un u (.atom (mkAtom a))) (.atom (mkAtom b))
  have n1 : Nat.blt 6 o.tok.prec = false := blt_false (by omega)
  have n2 : Nat.blt 7 (o.tok.prec + 1) = false := blt_false (by omega)
  have n3 : Nat.blt 7 6 = false := by decide
  have hb : e.body ++ rest = u :: mkAtom a :: o :: mkAtom b :: rest := by
    simp only [e, PE.body, PE.level, PE.wrapT, n1, n2, n3]; simp
  have ha : e.ast = .bin o.tok (.un u.tok (.ident a)) (.ident b) := by
    simp only [e, PE.ast, PE.level, PE.wrapA, n1, n2, n3]; simp [atomAst, mkAtom]
  have := (climb fo e ⟨ho, ⟨hu, hat a⟩, hat b⟩).expr rest hs
  rw [hb, ha] at this
  exact this

/-- The ternary operator binds weakest: a binary operator in front of `?` belongs to the condition. -/
theorem parse_ternary_lowest (a b c d : Bs) (o : Token) (ho : 1 ≤ o.tok.prec) (rest : Toks) (hs : Stop0 rest) :
    run (parseExpr fo (mkAtom a :: o :: mkAtom b :: tkn .Question :: mkAtom c :: tkn .Colon :: mkAtom d :: rest)) =
      some (.cond (.bin o.tok (.ident a) (.ident b)) (.ident c) (.ident d), rest) := by
  have hat : ∀ n, (PE.atom (mkAtom n)).WF := fun _ => rfl
  have h5 := prec_le_five o.tok
  let e := PE.cond (.bin o (.atom (mkAtom a)) (.atom (mkAtom b))) (.atom (mkAtom c)) (.atom (mkAtom d))
  have n1 : Nat.blt o.tok.prec 1 = false := blt_false (by omega)
  have n2 : Nat.blt 7 o.tok.prec = false := blt_false (by omega)
  have n3 : Nat.blt 7 (o.tok.prec + 1) = false := blt_false (by omega)
  have hb : e.body ++ rest =
      mkAtom a :: o :: mkAtom b :: tkn .Question :: mkAtom c :: tkn .Colon :: mkAtom d :: rest := by
    simp only [e, PE.body, PE.level, PE.wrapT, n1, n2, n3]; simp
  have ha : e.ast = .cond (.bin o.tok (.ident a) (.ident b)) (.ident c) (.ident d) := by
    simp only [e, PE.ast, PE.level, PE.wrapA, n1, n2, n3]; simp [atomAst, mkAtom]
  have := (climb fo e ⟨⟨ho, hat a, hat b⟩, hat c, hat d⟩).expr rest hs
  rw [hb, ha] at this
  exact this

/-! ### The printed form of the operator fragment

`Node.String()` wraps every binary, unary and ternary node in parentheses. At the token level this is
the tree in which every operator node sits under an explicit `paren`: such a tree needs no further
parentheses, so `parse_printMin` applies to it. -/

/-- Operator trees without parentheses (what `norm` leaves). -/
def fullParen : PE → PE
  | .atom t => .atom t
  | .bin op l r => .paren (.bin op (fullParen l) (fullParen r))
  | .un op e => .paren (.un op (fullParen e))
  | .cond c t f => .paren (.cond (fullParen c) (fullParen t) (fullParen f))
  | .paren e => .paren (fullParen e)

theorem fullParen_wf (e : PE) (hw : e.WF) : (fullParen e).WF := by
  induction e with
  | atom t => exact hw
  | bin op l r ihl ihr => exact ⟨hw.1, ihl hw.2.1, ihr hw.2.2⟩
  | un op e ih => exact ⟨hw.1, ih hw.2⟩
  | cond c t f ihc iht ihf => exact ⟨ihc hw.1, iht hw.2.1, ihf hw.2.2⟩
  | paren e ih => exact ih hw

theorem fullParen_tree (e : PE) : (fullParen e).tree = e.tree := by
  induction e with
  | atom t => rfl
  | bin op l r ihl ihr => simp [fullParen, PE.tree, ihl, ihr]
  | un op e ih => simp [fullParen, PE.tree, ih]
  | cond c t f ihc iht ihf => simp [fullParen, PE.tree, ihc, iht, ihf]
  | paren e ih => simp [fullParen, PE.tree, ih]

/-- **parse_print (operator fragment, token level).** The fully parenthesised form the printer produces
for an operator tree parses again, and the result is the original tree up to ParenExpr nodes (`strip`).
`_partial`: token level, expression operators only; statements, composite literals, calls, selectors and
the byte-level printer are covered by the `print` correspondence stream and the reprint searcher. -/
theorem parse_print_partial (e : PE) (hw : e.WF) (rest : Toks) (hs : Stop0 rest) :
    ∃ x, run (parseExpr fo ((fullParen e).body ++ rest)) = some (x, rest) ∧ x.strip = e.tree := by
  refine ⟨(fullParen e).ast, (climb fo _ (fullParen_wf e hw)).expr rest hs, ?_⟩
  rw [strip_ast, fullParen_tree]

/-- Non-vacuity: `a + b * c - d` (identifier tokens, followed by EOF) satisfies the hypotheses; its
minimal token list has no parentheses while the right-nested `a - (b - c)` keeps one pair. -/
example :
    let t (k : Tok) : Token := ⟨k, [], 0⟩
    let e := PE.bin (t .Sub) (.bin (t .Add) (.atom (mkAtom [97])) (.bin (t .Mul) (.atom (mkAtom [98])) (.atom (mkAtom [99]))))
      (.atom (mkAtom [100]))
    e.WF ∧ Stop0 [t .EOF] ∧ (e.body.map (·.tok)) = [.Ident, .Add, .Ident, .Mul, .Ident, .Sub, .Ident] := by
  refine ⟨⟨by decide, ⟨by decide, rfl, by decide, rfl, rfl⟩, rfl⟩, ⟨⟨by decide, by decide, by decide⟩, by decide, by decide⟩, by decide⟩

example :
    let t (k : Tok) : Token := ⟨k, [], 0⟩
    ((PE.bin (t .Sub) (.atom (mkAtom [97])) (.bin (t .Sub) (.atom (mkAtom [98])) (.atom (mkAtom [99])))).body.map (·.tok)) =
      [.Ident, .Sub, .LParen, .Ident, .Sub, .Ident, .RParen] := by
  decide

/-! ### Selector on an integer literal (finding C20-1, repaired in /repo by b2c2f52)

`SelectorExpr.String()` used to print `1.a` for a selector on an int literal (source `1 .a`), which scans
as the float `1.` followed by `a`. The printer now parenthesises an `*IntLit` operand; the model
(`Printer.printExpr`, case `.sel (.int ..)`) does the same. -/

open Tengo.Model.Printer in
/-- **print_selector_int_paren.** The printed form of a selector on an int literal is, byte for byte, the
printed form of the same selector on the parenthesised literal: `(<lit>).<name>`. -/
theorem print_selector_int_paren (v : Int) (lit n : Bs) :
    printExpr (.sel (.int v lit) n) = s "(" ++ lit ++ s ")." ++ n ∧
    printExpr (.sel (.int v lit) n) = printExpr (.sel (.paren (.int v lit)) n) := by
  have h : s ")." = s ")" ++ s "." := by decide +kernel
  refine ⟨by simp [printExpr], ?_⟩
  simp [printExpr, h, List.append_assoc]

theorem run_parseOperand_int (t : Token) (rest : Toks) (v : Nat) (ht : t.tok = .Int) (hv : parseInt0 t.lit = .ok v) :
    run (parseOperand fo (t :: rest)) = some (.int v t.lit, rest) := by
  rw [parseOperand]
  simp [ht, hv]

theorem run_postfixLoop_sel (x : Expr) (p i : Token) (rest : Toks) (hp : p.tok = .Period) (hi : i.tok = .Ident) :
    run (postfixLoop fo x (p :: i :: rest)) = run (postfixLoop fo (.sel x i.lit) rest) := by
  rw [postfixLoop]
  simp only [hp, hi, beq_self_eq_true, if_true]
  cases h : postfixLoop fo (Expr.sel x i.lit) rest with
  | none => simp
  | some o => obtain ⟨y, r, hr⟩ := o; simp

/-- **parse_print (selector on an int literal, token level).** The token list of the printed form
`( <int> ) . <name>` parses to the selector on the parenthesised literal and consumes exactly these five
tokens; without ParenExpr nodes (`strip`) it is the selector on the literal itself, for every legal int
spelling (`parseInt0 lit = ok v`, see `int_literal_value_*`) and every continuation that cannot extend an
expression. No exception for int-literal selectors remains in the print → parse claim. `_partial`: token
level (the scanner on the printed bytes is covered by the `scan`/`print` correspondence streams and the
reprint searcher). -/
theorem parse_print_selector_int_partial (lit n : Bs) (v : Nat) (hv : parseInt0 lit = .ok v) (o1 o2 : Nat)
    (rest : Toks) (hs : Stop0 rest) :
    ∃ x, run (parseExpr fo (tkn .LParen :: ⟨.Int, lit, o1⟩ :: tkn .RParen :: tkn .Period :: ⟨.Ident, n, o2⟩ :: rest)) =
        some (x, rest) ∧ x = .sel (.paren (.int v lit)) n ∧ x.strip = .sel (.int v lit) n := by
  refine ⟨_, ?_, rfl, by simp [Expr.strip]⟩
  have hstopR : ∀ r, NoPostfix (tkn .RParen :: r) := fun r =>
    ⟨by show Tok.RParen ≠ _; decide, by show Tok.RParen ≠ _; decide, by show Tok.RParen ≠ _; decide⟩
  -- inner expression `<int>` up to `)`
  have hin : ∀ r, run (parseExpr fo (⟨.Int, lit, o1⟩ :: tkn .RParen :: r)) = some (.int v lit, tkn .RParen :: r) := by
    intro r
    rw [run_parseExpr, run_parseBinary, run_parseUnary_cons]
    have hu : isUnaryOp (Tok.Int) = false := by decide
    simp only [hu, Bool.false_eq_true, if_false]
    rw [run_parsePrimary, run_parseOperand_int fo ⟨.Int, lit, o1⟩ _ v rfl hv]
    simp only
    rw [run_postfixLoop_stop fo _ _ (hstopR r)]
    simp only
    rw [binLoop_stop fo 1 _ _ (by show Tok.RParen.prec < 1; decide)]
    simp [tkn]
  rw [run_parseExpr, run_parseBinary, run_parseUnary_cons]
  have hu : isUnaryOp (tkn .LParen).tok = false := by decide
  simp only [hu, Bool.false_eq_true, if_false]
  rw [run_parsePrimary, run_parseOperand_lparen fo (tkn .LParen) _ rfl, hin]
  have hr : (tkn .RParen).tok = .RParen := rfl
  simp only [hr, if_true]
  rw [run_postfixLoop_sel fo _ (tkn .Period) ⟨.Ident, n, o2⟩ rest rfl rfl, run_postfixLoop_stop fo _ _ hs.1]
  simp only
  rw [binLoop_stop fo 1 _ _ (by have := hs.2.1; omega)]
  cases rest with
  | nil => rfl
  | cons t r1 =>
    have hq : t.tok ≠ .Question := hs.2.2
    simp [hq]

/-- Non-vacuity: `(0o7).F` followed by EOF — the spelling of the first disagreement seen after the repair. -/
example : parseInt0 [48, 111, 55] = .ok 7 ∧ Stop0 [tkn .EOF] := by
  refine ⟨by decide, ⟨by decide, by decide, by decide⟩, by decide, by decide⟩

open Tengo.Model.Printer in
example : printFile (.cons (.expr (.sel (.int 7 [48, 111, 55]) [70])) .nil) = "(0o7).F".toUTF8.toList := by
  decide +kernel

end Tengo.Props.C20

import Tengo.Model.Format
import Tengo.Model.FormatSpec
import Tengo.Proofs.FormatGood
import Tengo.Proofs.FormatParse
import Tengo.Gen.FormatVerbs
/-!
C17 — format() and sprintf agree with Go's fmt for every documented verb.

`M` = `Tengo.Model.Format` (model of /repo/formatter.go, tied by the `fmt` correspondence stream on
all three entry points and by the regenerated verb tables); `G` = `Tengo.Model.FormatSpec` (declarative
spec of `fmt.Sprintf` per directive family, tied to the real `fmt.Sprintf` by the `gspec` stream).
-/
namespace Tengo.Props.C17
open Tengo.Model.Format Tengo.Model.FormatSpec Tengo.Proofs.FormatGood Tengo.Proofs.FormatParse

/-! ### The regenerated tables are the ones the model dispatches on -/

/-- Verb dispatch tables, flag characters, the `tooLarge` bound and the limit guards of
formatter.go as they are now. -/
theorem verbs_match :
    Tengo.Gen.FormatVerbs.flagChars = flagChars ∧ Tengo.Gen.FormatVerbs.boolVerbs = boolVerbs ∧
    Tengo.Gen.FormatVerbs.intVerbs = intVerbs ∧ Tengo.Gen.FormatVerbs.floatVerbs = floatVerbs ∧
    Tengo.Gen.FormatVerbs.stringVerbs = stringVerbs ∧ Tengo.Gen.FormatVerbs.bytesVerbs = bytesVerbs ∧
    Tengo.Gen.FormatVerbs.printArgVerbs = printArgVerbs ∧ Tengo.Gen.FormatVerbs.tooLargeBound = tooLargeBound ∧
    Tengo.Gen.FormatVerbs.limitGuards = limitGuards := by decide

/-- The model's typed dispatch follows its tables: a verb outside the table of the operand's type
(and not `T`/`v`) is a bad verb (for bytes: prints nothing, `fmtBytes` has no default arm). -/
theorem dispatch_follows_tables (O : Oracle) (L : Nat) (f : Fl) (buf : Bytes) (verb : Nat)
    (hT : verb ∉ printArgVerbs) :
    (∀ v, verb ∉ intVerbs → printArg O L f buf (.int v) verb = badVerb O L f buf (.int v) verb) ∧
    (∀ b, verb ∉ floatVerbs → printArg O L f buf (.float b) verb = badVerb O L f buf (.float b) verb) ∧
    (∀ s, verb ∉ stringVerbs → printArg O L f buf (.str s) verb = badVerb O L f buf (.str s) verb) ∧
    (∀ b, verb ∉ boolVerbs → printArg O L f buf (.bool b) verb = badVerb O L f buf (.bool b) verb) ∧
    (∀ s, verb ∉ bytesVerbs → printArg O L f buf (.bytes s) verb = .ok buf) := by
  simp only [printArgVerbs, List.mem_cons, List.not_mem_nil, or_false, not_or] at hT
  refine ⟨?_, ?_, ?_, ?_, ?_⟩
  · intro v h
    simp only [intVerbs, List.mem_cons, List.not_mem_nil, or_false, not_or] at h
    simp [printArg, printInt, hT, h]
  · intro b h
    simp only [floatVerbs, List.mem_cons, List.not_mem_nil, or_false, not_or] at h
    simp [printArg, printFloat, hT, h]
  · intro s h
    simp only [stringVerbs, List.mem_cons, List.not_mem_nil, or_false, not_or] at h
    simp [printArg, printStr, hT, h]
  · intro b h
    simp only [boolVerbs, List.mem_cons, List.not_mem_nil, or_false, not_or] at h
    simp [printArg, printBool, hT, h]
  · intro s h
    simp only [bytesVerbs, List.mem_cons, List.not_mem_nil, or_false, not_or] at h
    simp [printArg, printBytes, hT, h]

/-! ### Termination -/

/-- **Progress.** Every iteration of the format loop consumes at least one byte: after the literal
run (`litLen r` bytes), the `%` and whatever the directive parser consumed (`n` bytes, any value),
strictly fewer bytes are left. `loop` is defined by well-founded recursion on exactly this measure
(no fuel), so formatting terminates on every byte string and every argument list. -/
theorem directive_parse_progress (r r1 : Bytes) (c : UInt8) (n : Nat)
    (h : r.drop (litLen r) = c :: r1) : (r1.drop n).length < r.length :=
  drop_lit_lt r r1 c h n

/-- Non-vacuity: in `"ab%5d!"` the iteration that starts at `a` leaves `"!"`. -/
example : let r : Bytes := [97, 98, 37, 53, 100, 33]
    r.drop (litLen r) = 37 :: [53, 100, 33] ∧ (parseDirective [some 7] 0 [53, 100, 33]).n = 2 := by decide

/-! ### No panic, length -/

/-- **Totality / no panic.** For arbitrary format bytes, arbitrary arguments and arbitrary answers
of the external functions, `Format` yields a string, the string-limit error, or `unsupported` (an
oracle answer was missing or malformed) — never the `panic` outcome that marks a write below index 0
of `fmtInteger`'s / `fmtUnicode`'s scratch buffer. -/
theorem format_no_panic (O : Oracle) (L : Nat) (fmt : Bytes) (args : List Arg) :
    format O L fmt args ≠ .error .panic := by
  have h := format_good O L fmt args
  intro hp
  rw [hp] at h
  exact h rfl

theorem format_total (O : Oracle) (L : Nat) (fmt : Bytes) (args : List Arg) :
    (∃ s, format O L fmt args = .ok s) ∨ format O L fmt args = .error .limit ∨ format O L fmt args = .error .unsupported := by
  have h := format_no_panic O L fmt args
  cases hf : format O L fmt args with
  | ok s => exact Or.inl ⟨s, rfl⟩
  | error e =>
    cases e with
    | limit => exact Or.inr (Or.inl rfl)
    | panic => exact absurd hf h
    | unsupported => exact Or.inr (Or.inr rfl)

/-- **Length.** A returned string never exceeds MaxStringLen (`%x`/`%X` on strings and bytes
included: O11 is repaired, `sbx_width` shows the guard in `fmtSbx` covers exactly what is appended). -/
theorem format_len (O : Oracle) (L : Nat) (fmt : Bytes) (args : List Arg) (s : Bytes)
    (h : format O L fmt args = .ok s) : s.length ≤ L := by
  have hg := format_good O L fmt args
  rw [h] at hg
  exact hg

/-- Non-vacuity of `format_len` / the limit error, at the verb level (`%x` on a string under a
10-byte limit: fits, then exceeds — the O11 input), and for `Format` itself on a literal. -/
def noOracle : Oracle := ⟨fun _ _ _ => none, fun _ => none, fun _ => none, fun _ => none, fun _ => none, fun _ => none, fun _ => none, fun _ => none, fun _ => none⟩
example : printArg noOracle 10 {} [] (.str [97, 98, 99]) 120 = .ok [54, 49, 54, 50, 54, 51] := rfl
example : printArg noOracle 10 {} [] (.str [97, 98, 99, 100, 101, 102, 103, 104]) 120 = .error .limit := rfl
example : format noOracle 10 [] [] = .ok [] := by
  unfold format; rw [show resolveInts noOracle [] = some [] from rfl]; simp only []; rw [loop]; rfl

/-! ### Integer digits -/

def charVal (c : UInt8) : Nat :=
  if 48 ≤ c.toNat ∧ c.toNat ≤ 57 then c.toNat - 48 else if 97 ≤ c.toNat ∧ c.toNat ≤ 102 then c.toNat - 87 else c.toNat - 55

/-- Read a digit string back in its base. -/
def readBack (b : Nat) (s : Bytes) : Nat := s.foldl (fun acc c => acc * b + charVal c) 0

theorem charVal_digitChar : ∀ (d : Fin 16) (up : Bool), charVal (digitChar up d.val) = d.val := by decide

theorem readBack_digits (b : Nat) (up : Bool) : ∀ l : List Nat, (∀ d ∈ l, d < 16) →
    readBack b (l.reverse.map (digitChar up)) = evalRev b l := by
  intro l
  induction l with
  | nil => intro _; rfl
  | cons d ds ih =>
    intro h
    have hd : d < 16 := h d (by simp)
    have := ih (fun x hx => h x (by simp [hx]))
    unfold readBack at this ⊢
    simp only [List.reverse_cons, List.map_append, List.foldl_append, List.map_cons, List.map_nil, List.foldl_cons, List.foldl_nil]
    rw [this]
    have hc := charVal_digitChar ⟨d, hd⟩ up
    simp only at hc
    rw [hc]
    simp only [evalRev]
    rw [Nat.mul_comm, Nat.add_comm]

/-- `u = -u` on uint64 gives the magnitude, MinInt64 included. -/
theorem mag_eq_natAbs (v : BitVec 64) : mag v = v.toInt.natAbs ∧ isNeg v = decide (v.toInt < 0) := by
  unfold mag isNeg
  rw [BitVec.toInt_eq_msb_cond]
  have hlt := BitVec.isLt v
  cases hm : v.msb
  · simp
  · have h63 : 2 ^ 63 ≤ v.toNat := by
      have := BitVec.msb_eq_decide v
      rw [hm] at this
      simpa using this.symm
    simp only [if_true, BitVec.toNat_neg]
    constructor
    · omega
    · simp; omega

/-- **Integer digits.** For every 64-bit value and every base the formatter uses, the digit string
`fmtInteger` writes, read back in that base, is the magnitude `|n|` (MinInt64 included), and the
sign it records is the sign of `n`. -/
theorem int_digits_correct (v : BitVec 64) (base : Nat) (up : Bool) (hb : 2 ≤ base) (hb16 : base ≤ 16) :
    readBack base (digitsOf up base (mag v)) = v.toInt.natAbs ∧ isNeg v = decide (v.toInt < 0) := by
  refine ⟨?_, (mag_eq_natAbs v).2⟩
  unfold digitsOf
  rw [readBack_digits base up _ (fun d hd => by
    have := digitsRev_lt base hb (mag v) (mag v) (Nat.le_refl _) d hd; omega)]
  rw [evalRev_digitsRev base (mag v) (mag v) (Nat.le_refl _)]
  exact (mag_eq_natAbs v).1

/-- Non-vacuity: MinInt64 in base 16 is written as 8000000000000000 with the sign recorded. -/
example : digitsOf false 16 (mag (BitVec.ofInt 64 (-9223372036854775808))) = [56, 48, 48, 48, 48, 48, 48, 48, 48, 48, 48, 48, 48, 48, 48, 48] ∧
    isNeg (BitVec.ofInt 64 (-9223372036854775808)) = true := by
  constructor
  · simp [digitsOf, digitsRev, mag, digitChar]
  · decide

/-! ### `M = G`, family by family -/

/-- What `pad` appends. -/
def padded (f : Fl) (b : Bytes) : Bytes :=
  if !f.widPresent || f.wid == 0 then b
  else if !f.minus then List.replicate (f.wid - runeCount b) (if f.zero then 48 else 32) ++ b
  else b ++ List.replicate (f.wid - runeCount b) (if f.zero then 48 else 32)

theorem writePadding_eq (L : Nat) (z : Bool) (buf : Bytes) (a b : Nat) (h : buf.length ≤ L) :
    writePadding L z buf ((a : Int) - (b : Int)) = write L buf (List.replicate (a - b) (if z then 48 else 32)) := by
  unfold writePadding write
  by_cases hab : a ≤ b
  · have h0 : a - b = 0 := by omega
    have : (a : Int) - (b : Int) ≤ 0 := by omega
    simp [this, h0]; omega
  · have : ¬ ((a : Int) - (b : Int) ≤ 0) := by omega
    have ht : ((a : Int) - (b : Int)).toNat = a - b := by omega
    simp [this, ht]

theorem write_write (L : Nat) (buf a c : Bytes) :
    (write L buf a >>= fun b' => write L b' c) = write L buf (a ++ c) := by
  unfold write
  simp only [bind, Except.bind]
  by_cases h1 : buf.length + a.length > L
  · have h2 : buf.length + (a ++ c).length > L := by simp; omega
    simp only [h1, h2, if_true]
  · simp only [h1, if_false]
    by_cases h2 : (buf ++ a).length + c.length > L
    · have h3 : buf.length + (a ++ c).length > L := by simp at h2 ⊢; omega
      simp only [h2, h3, if_true]
    · have h3 : ¬ buf.length + (a ++ c).length > L := by simp at h2 ⊢; omega
      simp only [h2, h3, if_false, List.append_assoc]

theorem write_then_padding (L : Nat) (z : Bool) (buf a : Bytes) (x y : Nat) :
    (write L buf a >>= fun b' => writePadding L z b' ((x : Int) - (y : Int))) =
      write L buf (a ++ List.replicate (x - y) (if z then 48 else 32)) := by
  by_cases h1 : buf.length + a.length > L
  · have h2 : buf.length + (a ++ List.replicate (x - y) (if z then (48 : UInt8) else 32)).length > L := by simp; omega
    simp only [write, bind, Except.bind, h1, h2, if_true]
  · have hw : write L buf a = .ok (buf ++ a) := by simp only [write, h1, if_false]
    rw [hw]
    simp only [bind, Except.bind]
    rw [writePadding_eq L z (buf ++ a) x y (by simp; omega)]
    unfold write
    simp only [List.length_append, List.append_assoc, Nat.add_assoc]

/-- `pad` is one guarded write of the padded text. -/
theorem pad_eq_write (L : Nat) (f : Fl) (buf b : Bytes) (h : buf.length ≤ L) :
    pad L f buf b = write L buf (padded f b) := by
  unfold pad padded
  by_cases h0 : (!f.widPresent || f.wid == 0) = true
  · simp only [h0, if_true]
  · simp only [h0]
    by_cases hm : f.minus = true
    · simp only [hm, Bool.not_true, Bool.false_eq_true, if_false]
      exact write_then_padding L f.zero buf b f.wid (runeCount b)
    · have hm' : f.minus = false := by simpa using hm
      simp only [hm', Bool.not_false, if_true, Bool.false_eq_true, if_false]
      rw [writePadding_eq L f.zero buf f.wid (runeCount b) h]
      exact write_write L buf _ b

/-- Padding as the model does it = the documentation's field rule. -/
theorem padded_eq_field (d : GDir) (zeroOk : Bool) (s : Bytes) :
    padded { flOf d with zero := zeroOk && (flOf d).zero } s = field d zeroOk s := by
  unfold padded field flOf runes
  cases hw : d.width with
  | none => simp
  | some w =>
    by_cases hm : d.minus = true
    · simp [hm]
      intro h0; subst h0; simp
    · have hm' : d.minus = false := by simpa using hm
      simp [hm']
      intro h0; subst h0; simp

theorem flOf_zero (d : GDir) : { flOf d with zero := true && (flOf d).zero } = flOf d := by
  simp [flOf]

theorem firstRunes_eq : ∀ (n : Nat) (s : Bytes), firstRunes n s = takeRunes n s := by
  intro n
  induction n with
  | zero => intro s; simp [firstRunes, takeRunes]
  | succ n ih =>
    intro s
    cases s with
    | nil => simp [firstRunes, takeRunes]
    | cons b t => simp only [firstRunes, takeRunes, ih]

/-- **`%s`** on strings and bytes, with `-`, `0`, width and precision: `M = G`. -/
theorem M_eq_G_str (O : Oracle) (L : Nat) (d : GDir) (buf s : Bytes) (hv : d.verb = 115) (h : buf.length ≤ L) :
    printArg O L (flOf d) buf (.str s) d.verb = write L buf (renderStr d s) ∧
    printArg O L (flOf d) buf (.bytes s) d.verb = write L buf (renderStr d s) := by
  have key : fmtS L (flOf d) buf s = write L buf (renderStr d s) := by
    unfold fmtS renderStr
    rw [pad_eq_write L _ buf _ h, ← padded_eq_field d true, flOf_zero]
    congr 2
    unfold truncate
    cases hp : d.prec with
    | none => simp [flOf, hp]
    | some p => simp [flOf, hp, firstRunes_eq]
  constructor
  · simp [printArg, printStr, hv, key]
  · simp [printArg, printBytes, hv, key]

/-- **`%t`**: `M = G`. -/
theorem M_eq_G_bool (O : Oracle) (L : Nat) (d : GDir) (buf : Bytes) (b : Bool) (hv : d.verb = 116) (h : buf.length ≤ L) :
    printArg O L (flOf d) buf (.bool b) d.verb = write L buf (renderBool d b) := by
  simp only [printArg, printBool, hv]
  simp only [show (116 : Nat) ≠ 84 by decide, show (116 : Nat) ≠ 118 by decide, if_false, if_true]
  unfold renderBool
  rw [pad_eq_write L _ buf _ h, ← padded_eq_field d true, flOf_zero]
  rfl

/-- **`%c`**: `M = G` (negative values and values above U+10FFFF print U+FFFD). -/
theorem M_eq_G_char (O : Oracle) (L : Nat) (d : GDir) (buf : Bytes) (v : BitVec 64) (hv : d.verb = 99) (h : buf.length ≤ L) :
    printArg O L (flOf d) buf (.int v) d.verb = write L buf (renderChar d v.toInt) := by
  simp only [printArg, printInt, hv]
  simp only [show (99 : Nat) ≠ 84 by decide, show (99 : Nat) ≠ 118 by decide, show (99 : Nat) ≠ 100 by decide,
    show (99 : Nat) ≠ 98 by decide, show (99 : Nat) ≠ 111 by decide, show (99 : Nat) ≠ 79 by decide,
    show (99 : Nat) ≠ 120 by decide, show (99 : Nat) ≠ 88 by decide, if_false, if_true, or_self]
  unfold fmtC renderChar
  rw [pad_eq_write L _ buf _ h, ← padded_eq_field d true, flOf_zero]
  congr 3
  have hlt := BitVec.isLt v
  rw [BitVec.toInt_eq_msb_cond]
  have hmsb := BitVec.msb_eq_decide v
  cases hm : v.msb
  · rw [hm] at hmsb
    have : ¬ (2 ^ 63 ≤ v.toNat) := by simpa using hmsb.symm
    simp only [Bool.false_eq_true, if_false]
    by_cases hc : v.toNat > 0x10FFFF
    · have : ((v.toNat : Int) < 0 ∨ (v.toNat : Int) > 0x10FFFF) := Or.inr (by omega)
      simp [hc, this]
    · have : ¬ ((v.toNat : Int) < 0 ∨ (v.toNat : Int) > 0x10FFFF) := by omega
      simp [hc, this]
  · rw [hm] at hmsb
    have h63 : 2 ^ 63 ≤ v.toNat := by simpa using hmsb.symm
    have hc : v.toNat > 0x10FFFF := by omega
    simp [hc]
    omega

/-- **`%%`**: a literal percent sign, whatever flags, width or precision. -/
theorem M_eq_G_percent (O : Oracle) (L : Nat) (args : List Arg) (d : Dir) (buf : Bytes)
    (hv : d.verb = some 37) (hw : d.badWidth = false) (hp : d.badPrec = false) :
    renderDirective O L args d buf = write L buf [37] := by
  simp [renderDirective, hv, hw, hp, bind, Except.bind]

/-! #### integers: `%b %d %o %O %x %X` -/

theorem intBody_eq (f : Fl) (u : Nat) (neg : Bool) (base verb : Nat) (up : Bool)
    (hb : 2 ≤ base) (hu : u < 2 ^ 64) (hv : verb = 79 → base = 8) :
    intBody f u neg base verb up =
      some (signBytes f neg ++ oPrefix verb ++
        sharpPrefix f base up (intZeroPad (intBufLen f) (intPrec f neg) (digitsOf up base u)) ++
        intZeroPad (intBufLen f) (intPrec f neg) (digitsOf up base u)) := by
  obtain ⟨out, ho⟩ := intBody_isSome f u neg base verb up hb hu hv
  unfold intBody at ho ⊢
  simp only [] at ho ⊢
  split at ho
  · simp at ho
  · rename_i hlen
    rw [if_neg hlen]

theorem intZeroPad_eq (bl prec : Nat) (ds : Bytes) (h : prec ≤ bl) :
    intZeroPad bl prec ds = List.replicate (prec - ds.length) 48 ++ ds := by
  unfold intZeroPad zeros
  congr 2
  split <;> omega

theorem writePadding_nat (L : Nat) (z : Bool) (buf : Bytes) (a : Nat) (h : buf.length ≤ L) :
    writePadding L z buf (a : Int) = write L buf (List.replicate a (if z then 48 else 32)) := by
  have := writePadding_eq L z buf a 0 h
  simpa using this

def gSign (d : GDir) (n : Int) : Bytes := if n < 0 then [45] else if d.plus then [43] else if d.space then [32] else []

theorem signBytes_flOf (d : GDir) (n : Int) : signBytes (flOf d) (decide (n < 0)) = gSign d n := by
  unfold signBytes gSign flOf
  by_cases h : n < 0 <;> simp [h]

theorem intPrec_flOf (d : GDir) (n : Int) :
    intPrec (flOf d) (decide (n < 0)) =
      (match d.prec with
       | some p => p
       | none => (if d.zero && !d.minus then d.width.getD 0 - (gSign d n).length else 0)) := by
  unfold intPrec flOf gSign
  cases hp : d.prec with
  | some p => simp
  | none =>
    cases hw : d.width with
    | none => simp
    | some w =>
      by_cases hz : (d.zero && !d.minus) = true
      · simp only [hz, Option.isSome_none, Bool.false_eq_true, if_false, Option.isSome_some, Bool.and_self, if_true, Option.getD_some]
        by_cases hn : n < 0
        · simp [hn]
        · cases d.plus <;> cases d.space <;> simp [hn]
      · have hz' : (d.zero && !d.minus) = false := by simpa using hz
        simp [hz']

theorem sharpPrefix_flOf (d : GDir) (base : Nat) (up : Bool) (body : Bytes) :
    sharpPrefix (flOf d) base up body =
      (if d.sharp then
        (if base = 2 then [48, 98]
         else if base = 8 then (if body.head? = some 48 then [] else [48])
         else if base = 16 then [48, if up then 88 else 120]
         else [])
      else []) := by
  unfold sharpPrefix flOf
  cases d.sharp <;> simp

/-- The six integer verbs dispatch to `fmtInteger` with the base `G` uses. -/
theorem printInt_eq (O : Oracle) (L : Nat) (f : Fl) (buf : Bytes) (v : BitVec 64) (verb : Nat)
    (hv : verb = 100 ∨ verb = 98 ∨ verb = 111 ∨ verb = 79 ∨ verb = 120 ∨ verb = 88) :
    printArg O L f buf (.int v) verb =
      fmtInteger L f buf (mag v) (isNeg v) (baseOf verb) verb (decide (verb = 88)) := by
  rcases hv with h | h | h | h | h | h <;> subst h <;> simp [printArg, printInt, baseOf]

theorem baseOf_ge (verb : Nat) : 2 ≤ baseOf verb ∧ (verb = 79 → baseOf verb = 8) := by
  unfold baseOf
  constructor
  · split <;> (try split) <;> (try split) <;> omega
  · intro h; subst h; simp

/-- **Integers** `%b %d %o %O %x %X` with every flag, width and precision, for every int64
(MinInt64 included): `M = G`. -/
theorem M_eq_G_int (O : Oracle) (L : Nat) (d : GDir) (buf : Bytes) (v : BitVec 64)
    (hv : d.verb = 100 ∨ d.verb = 98 ∨ d.verb = 111 ∨ d.verb = 79 ∨ d.verb = 120 ∨ d.verb = 88) (h : buf.length ≤ L) :
    printArg O L (flOf d) buf (.int v) d.verb = write L buf (renderInt d v.toInt) := by
  rw [printInt_eq O L _ buf v d.verb hv]
  obtain ⟨hmag, hneg⟩ := mag_eq_natAbs v
  obtain ⟨hb2, hb8⟩ := baseOf_ge d.verb
  have hu := mag_lt v
  unfold fmtInteger renderInt
  rw [intBody_eq (flOf d) (mag v) (isNeg v) (baseOf d.verb) d.verb _ hb2 hu hb8]
  rw [intZeroPad_eq _ _ _ (by have := intPrec_le (flOf d) (isNeg v); omega)]
  rw [hneg, signBytes_flOf, intPrec_flOf, sharpPrefix_flOf]
  have hds : digitsOf (decide (d.verb = 88)) (baseOf d.verb) (mag v) = digitsText (decide (d.verb = 88)) (baseOf d.verb) v.toInt.natAbs := by
    rw [hmag]; rfl
  rw [hds]
  have hzero : (mag v == 0) = decide (v.toInt = 0) := by
    rw [hmag]; by_cases hz : v.toInt = 0 <;> simp [hz]
  cases hp : d.prec with
  | some p =>
    simp only [flOf, hp, Option.isSome_some, Option.getD_some, Bool.true_and, hzero]
    by_cases hc : p = 0 ∧ v.toInt = 0
    · obtain ⟨hp0, hv0⟩ := hc
      simp only [hp0, hv0, beq_self_eq_true, decide_true, Bool.and_self, if_true, and_self]
      exact writePadding_nat L false buf _ h
    · have hc' : ¬ ((p == 0 && decide (v.toInt = 0)) = true) := by
        simp only [Bool.and_eq_true, beq_iff_eq, decide_eq_true_eq]; exact hc
      simp only [hc', hc, if_false]
      rw [pad_eq_write L _ buf _ h]
      have := padded_eq_field d false
      simp only [flOf, Bool.false_and, hp] at this
      simp only [renderInt.finish, gSign]
      rw [← this]
      rfl
  | none =>
    simp only [flOf, hp, Option.isSome_none, Bool.false_and, Bool.false_eq_true, if_false]
    rw [pad_eq_write L _ buf _ h]
    have := padded_eq_field d false
    simp only [flOf, Bool.false_and, hp] at this
    simp only [renderInt.finish, gSign]
    rw [← this]
    rfl

/-- Non-vacuity: `%+08.3x`-like shapes. `%#O` of -8 with width 8, and `%.0d` of 0 with width 3. -/
example : renderInt { sharp := true, width := some 8, verb := 79 } (-8) = [32, 32, 45, 48, 111, 48, 49, 48] := by
  simp [renderInt, renderInt.finish, field, runes, runeCount, decodeRune, baseOf, digitsText, digitsRev, digitChar]
example : renderInt { prec := some 0, width := some 3, verb := 100 } 0 = [32, 32, 32] := by
  simp [renderInt]

/-- **`M = G` (partial), verb level.** Proved: the integer verbs `b d o O x X`, `%c`, `%s` (strings and
bytes), `%t`, for all flags/width/precision and all values; `format_eq_G_single` below lifts this to whole
format strings consisting of one canonical directive (through `parser_recovers_directive`). Missing:
format strings with several directives or literal text around them, non-canonical flag order, `*`, `[n]`
and the error renderings; `G` and the equality for `%q %U`, hex of strings/bytes, the float verbs;
`%v`/`%T` are excluded (known findings O22/O23). -/
theorem M_eq_G_partial (O : Oracle) (L : Nat) (d : GDir) (buf : Bytes) (h : buf.length ≤ L) :
    (∀ v : BitVec 64, (d.verb = 100 ∨ d.verb = 98 ∨ d.verb = 111 ∨ d.verb = 79 ∨ d.verb = 120 ∨ d.verb = 88) →
      printArg O L (flOf d) buf (.int v) d.verb = write L buf (renderInt d v.toInt)) ∧
    (∀ v : BitVec 64, d.verb = 99 → printArg O L (flOf d) buf (.int v) d.verb = write L buf (renderChar d v.toInt)) ∧
    (∀ s : Bytes, d.verb = 115 → printArg O L (flOf d) buf (.str s) d.verb = write L buf (renderStr d s) ∧
      printArg O L (flOf d) buf (.bytes s) d.verb = write L buf (renderStr d s)) ∧
    (∀ b : Bool, d.verb = 116 → printArg O L (flOf d) buf (.bool b) d.verb = write L buf (renderBool d b)) :=
  ⟨fun v hv => M_eq_G_int O L d buf v hv h, fun v hv => M_eq_G_char O L d buf v hv h,
   fun s hv => M_eq_G_str O L d buf s hv h, fun b hv => M_eq_G_bool O L d buf b hv h⟩

/-! ### The parser link and single-directive formats end to end -/

/-- **Parser link.** See `Tengo.Proofs.FormatParse.parse_show`: the directive parser of `doFormat` maps
the canonical text of a directive to `flOf d`, consuming exactly that text. -/
theorem parser_recovers_directive (ints : List (Option Int)) (argNum : Nat) (d : GDir) (vb : UInt8) (rest : Bytes)
    (hv : vb.toNat = d.verb) (hpv : PlainVerb vb)
    (hw : ∀ w, d.width = some w → 1 ≤ w ∧ w ≤ 1000000) (hp : ∀ p, d.prec = some p → p ≤ 1000000) :
    parseDirective ints argNum (dirText d vb rest) = expected d argNum (dirText d vb []).length :=
  parse_show ints argNum d vb rest hv hpv hw hp

theorem loop_nil (O : Oracle) (L : Nat) (args : List Arg) (ints : List (Option Int)) (st : LoopOut) :
    loop O L args ints [] st = .ok st := by
  rw [loop]; simp

theorem renderDirective_expected (O : Oracle) (L : Nat) (a : Arg) (d : GDir) (n : Nat) (buf : Bytes)
    (h37 : d.verb ≠ 37) (h118 : d.verb ≠ 118) :
    renderDirective O L [a] (expected d 0 n) buf = printArg O L (flOf d) buf a d.verb := by
  simp [renderDirective, expected, h37, h118, bind, Except.bind]

theorem resolveInts_length (O : Oracle) : ∀ (args : List Arg) (ints : List (Option Int)),
    resolveInts O args = some ints → ints.length = args.length := by
  intro args
  induction args with
  | nil => intro ints h; simp [resolveInts] at h; subst h; rfl
  | cons a rest ih =>
    intro ints h
    simp only [resolveInts] at h
    split at h
    · rename_i v vs _ hvs
      simp at h; subst h
      simp [ih vs hvs]
    · simp at h

/-- One iteration of the loop at a `%`. -/
theorem loop_percent (O : Oracle) (L : Nat) (args : List Arg) (ints : List (Option Int)) (t : Bytes) (st : LoopOut) :
    loop O L args ints (37 :: t) st =
      (match renderDirective O L args (parseDirective ints st.argNum t) st.buf with
       | .error e => .error e
       | .ok buf =>
         if (parseDirective ints st.argNum t).verb.isNone then
           .ok { buf := buf, argNum := nextArgNum args.length (parseDirective ints st.argNum t),
                 reordered := st.reordered || (parseDirective ints st.argNum t).reordered }
         else loop O L args ints (t.drop (parseDirective ints st.argNum t).n)
           { buf := buf, argNum := nextArgNum args.length (parseDirective ints st.argNum t),
             reordered := st.reordered || (parseDirective ints st.argNum t).reordered }) := by
  rw [loop]
  simp only [List.cons_ne_nil, if_false, litLen, if_true, Nat.lt_irrefl]
  split
  · rename_i heq; simp at heq
  · rename_i c r1 heq
    have hr1 : r1 = t := by
      injection heq with _ h2; exact h2.symm
    subst hr1
    rfl

/-- A format string that is one canonical directive, applied to one operand: if the verb-level
rendering is a guarded write of `out` (what `M_eq_G_*` establish with `out` = `G`'s text), then
`Format` as a whole returns `out` (or the limit error when it does not fit). -/
theorem format_single_directive (O : Oracle) (L : Nat) (d : GDir) (vb : UInt8) (a : Arg) (out : Bytes)
    (ints : List (Option Int)) (hints : resolveInts O [a] = some ints)
    (hv : vb.toNat = d.verb) (hpv : PlainVerb vb) (h37 : d.verb ≠ 37) (h118 : d.verb ≠ 118)
    (hw : ∀ w, d.width = some w → 1 ≤ w ∧ w ≤ 1000000) (hp : ∀ p, d.prec = some p → p ≤ 1000000)
    (hM : printArg O L (flOf d) [] a d.verb = write L [] out) :
    format O L (37 :: dirText d vb []) [a] = write L [] out := by
  have hlen : ints.length = 1 := resolveInts_length O [a] ints hints
  unfold format
  rw [hints]
  simp only []
  rw [loop_percent, parse_show ints 0 d vb [] hv hpv hw hp]
  rw [renderDirective_expected O L a d _ [] h37 h118, hM]
  cases hwr : write L [] out with
  | error e => rfl
  | ok b =>
    simp only [expected, Option.isNone_some, Bool.false_eq_true, if_false, List.drop_length, loop_nil]
    simp [nextArgNum, h37]

theorem plainVerb_of (vb : UInt8) (k : Nat) (hv : vb.toNat = k)
    (hk : k = 100 ∨ k = 98 ∨ k = 111 ∨ k = 79 ∨ k = 120 ∨ k = 88 ∨ k = 115 ∨ k = 116 ∨ k = 99) : PlainVerb vb := by
  unfold PlainVerb
  rcases hk with h | h | h | h | h | h | h | h | h <;>
    (refine ⟨by omega, ?_, ?_, ?_, ?_, ?_, ?_, ?_, ?_, by omega⟩ <;> (intro hc; rw [hc] at hv; simp at hv; omega))

/-- **`M = G` end to end on single-directive formats.** `format("%<flags><width><.prec><verb>", x)` —
the whole of `Format`: directive parser, operand selection, verb dispatch, padding, limit, surplus
check — is `G`'s text (or the string-limit error if that text does not fit), for `%b %d %o %O %x %X`
and `%c` on every int64, `%s` on every string and byte slice, `%t` on booleans. -/
theorem format_eq_G_single (O : Oracle) (L : Nat) (d : GDir) (vb : UInt8) (hv : vb.toNat = d.verb)
    (hw : ∀ w, d.width = some w → 1 ≤ w ∧ w ≤ 1000000) (hp : ∀ p, d.prec = some p → p ≤ 1000000) :
    (∀ v : BitVec 64, (d.verb = 100 ∨ d.verb = 98 ∨ d.verb = 111 ∨ d.verb = 79 ∨ d.verb = 120 ∨ d.verb = 88) →
      format O L (37 :: dirText d vb []) [.int v] = write L [] (renderInt d v.toInt)) ∧
    (∀ v : BitVec 64, d.verb = 99 →
      format O L (37 :: dirText d vb []) [.int v] = write L [] (renderChar d v.toInt)) ∧
    (∀ s : Bytes, d.verb = 115 →
      format O L (37 :: dirText d vb []) [.str s] = write L [] (renderStr d s) ∧
      format O L (37 :: dirText d vb []) [.bytes s] = write L [] (renderStr d s)) ∧
    (∀ b : Bool, d.verb = 116 →
      format O L (37 :: dirText d vb []) [.bool b] = write L [] (renderBool d b)) := by
  refine ⟨?_, ?_, ?_, ?_⟩
  · intro v hverb
    have hpv := plainVerb_of vb d.verb hv (by omega)
    exact format_single_directive O L d vb (.int v) _ [some v.toInt] rfl hv hpv (by omega) (by omega) hw hp
      (M_eq_G_int O L d [] v hverb (by simp))
  · intro v hverb
    have hpv := plainVerb_of vb d.verb hv (by omega)
    exact format_single_directive O L d vb (.int v) _ [some v.toInt] rfl hv hpv (by omega) (by omega) hw hp
      (M_eq_G_char O L d [] v hverb (by simp))
  · intro s hverb
    have hpv := plainVerb_of vb d.verb hv (by omega)
    exact ⟨format_single_directive O L d vb (.str s) _ [parseInt s] rfl hv hpv (by omega) (by omega) hw hp
        (M_eq_G_str O L d [] s hverb (by simp)).1,
      format_single_directive O L d vb (.bytes s) _ [none] rfl hv hpv (by omega) (by omega) hw hp
        (M_eq_G_str O L d [] s hverb (by simp)).2⟩
  · intro b hverb
    have hpv := plainVerb_of vb d.verb hv (by omega)
    exact format_single_directive O L d vb (.bool b) _ [some (if b then 1 else 0)] rfl hv hpv (by omega) (by omega) hw hp
      (M_eq_G_bool O L d [] b hverb (by simp))

/-- Non-vacuity: `%-#08.3x` has a canonical text and satisfies the hypotheses. -/
example : dirText { minus := true, sharp := true, zero := true, width := some 8, prec := some 3, verb := 120 } 120 [] =
    [45, 35, 48, 56, 46, 51, 120] := by
  simp [dirText, flagText, widthText, precText, decimal, digitsText, digitsRev, digitChar]

end Tengo.Props.C17

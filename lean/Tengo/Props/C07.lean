import Tengo.Model.Conc
import Tengo.Proofs.Conc
import Tengo.Proofs.ConcLive
import Tengo.Proofs.ConcShape
/-!
C07 — Cancellation stops any running script promptly and cleanly.

Theorems over the protocol system `Tengo.Model.Conc` (one `Compiled.RunContext` call: caller, runner
goroutine, cancelling environment, arbitrary scheduler), for ALL program behaviours (finite or infinite)
and ALL schedules. The model is tied to script.go/vm.go by `shape_matches` (regenerated skeleton facts) and
by the cancel-at-instruction-k stream of harness/cmd/c07.

Assumptions made by the model and stated here once: every single instruction step terminates (it is one
atomic transition: a long-running native call is outside the bound, as the property says); liveness needs
a fair scheduler (`Fair`, an explicit hypothesis); wall-clock time and goroutine reclamation are Go-runtime
behaviour the model cannot exhibit (they are measured by the harness).
-/
namespace Tengo.Props.C07
open Tengo.Model.Conc Tengo.Proofs.Conc Tengo.Proofs.ConcShape

/-- The skeleton of `RunContext`, of the dispatch loop head, of `Abort` and of `Run` that the model
transcribes is the one script.go / vm.go have now. -/
theorem shape_matches : genRc = expectRc ∧ genVm = expectVm := by decide

/-- **Safety.** In every terminal state reachable under any scheduler, unless the process was killed by a
Go-fatal condition: the caller has returned; with `ctx.Err()` only if the context was cancelled (and then
`Abort` was called), with the run's own result only if the run finished by itself (and then `Abort` was
never called); the channel carried exactly one value and is drained; the lock is free; the runner
goroutine has no step left. -/
theorem rc_safety (b : Beh) (pre : Bool) (s : State) (hr : Reach b pre s) (ht : Terminal b s)
    (hnc : s.rpc ≠ .crashed) :
    ∃ r, s.cpc = .returned r ∧ s.lockHeld = false ∧ s.rpc = .done ∧ s.sends = 1 ∧ s.recvs = 1 ∧ s.chan = none ∧
      (r = .ctxErr → s.cancelled = true ∧ s.abortCalled = true) ∧
      (∀ m, r = .res m → s.abortCalled = false ∧ ∃ o i, FinishesAt b i o ∧ o.msg = m ∧ s.runOut = some o) := by
  have hi := inv_reach hr
  have hret : Returned s := by
    apply Classical.byContradiction
    intro hnr
    -- a caller that has not returned is enabled, or blocked with the runner enabled
    cases he : callerEn s with
    | true =>
      obtain ⟨t, ht', _⟩ := caller_enabled_step true he
      have := ht.1 true
      simp [step, hnc, ht'] at this
    | false =>
      have hw := disabled_blocked hi he hnr
      have hrun : step b s .runner = none := ht.2
      simp only [step, if_neg hnc] at hrun
      have hlock := hi.lock
      have hst := hi.started
      have hcf := hi.chanFull
      have hrd := hi.recvDone
      unfold callerEn at he
      rcases hw with hw | hw <;> rw [hw] at he hst hcf <;> simp [preGo, received] at he hst hcf
      all_goals
        cases hrp : s.rpc <;> simp_all [runnerStep]
        all_goals (split at hrun <;> simp_all)
  obtain ⟨r, hr'⟩ := hret
  exact ⟨r, hr', returned_facts hi hr'⟩

/-- The process can only be lost through a Go-fatal instruction. -/
theorem crashed_only_fatal (b : Beh) (pre : Bool) (s : State) (hr : Reach b pre s) (hc : s.rpc = .crashed) :
    ReachesFatal b := (inv_reach hr).crashedFatal hc

/-- Weak fairness, the explicit scheduler hypothesis of the liveness theorems. -/
abbrev Fair := Tengo.Proofs.Conc.Fair

/-- **Bound after Abort** (no fairness needed): in every reachable state the runner has taken at most one
instruction step and at most four transitions in total (that instruction, the loop-head poll that sees the
flag, the store in `Run`, the send) since `v.Abort()`. -/
theorem abort_bound (b : Beh) (pre : Bool) (s : State) (hr : Reach b pre s) :
    s.instrAfterAbort ≤ 1 ∧ s.stepsAfterAbort ≤ 4 := by
  have hi := inv_reach hr
  cases ha : s.abortCalled with
  | false => have := hi.boundZero ha; omega
  | true => have h1 := hi.boundSteps ha; have h2 := hi.boundInstr ha; omega

/-- **Promptness.** From any reachable state in which the context is cancelled, for ANY program behaviour
that does not hit a Go-fatal condition (infinite loops and unbounded tail recursion included), every fair
schedule makes the caller return; when it has returned the runner goroutine is finished, the lock is
free, and the runner did at most 1 instruction step + 3 bookkeeping transitions after `Abort`. -/
theorem rc_prompt (b : Beh) (pre : Bool) (s : State) (hr : Reach b pre s) (hc : s.cancelled = true)
    (hnf : ¬ ReachesFatal b) (σ : Nat → Choice) (hf : Fair σ) :
    ∃ n r, (run b σ s n).cpc = .returned r ∧ (run b σ s n).rpc = .done ∧ (run b σ s n).lockHeld = false ∧
      (run b σ s n).instrAfterAbort ≤ 1 ∧ (run b σ s n).stepsAfterAbort ≤ 4 := by
  have hl : Live b 0 s := ⟨inv_reach hr, hnf, Or.inl hc⟩
  obtain ⟨n, r, hret⟩ := eventually_returns _ s hl rfl σ hf
  have hreach := run_reach σ hr n
  have hfacts := returned_facts (inv_reach hreach) hret
  have hb := abort_bound b pre _ hreach
  exact ⟨n, r, hret, hfacts.2.1, hfacts.1, hb.1, hb.2⟩

/-- **Already-cancelled context.** The call returns (fair scheduler), with `ctx.Err()` or with the result
of a run that finished by itself. -/
theorem rc_pre_cancelled (b : Beh) (hnf : ¬ ReachesFatal b) (σ : Nat → Choice) (hf : Fair σ) :
    ∃ n r, (run b σ (init true) n).cpc = .returned r ∧
      (r = .ctxErr ∨ ∃ o i, FinishesAt b i o ∧ r = .res o.msg) := by
  obtain ⟨n, r, hret, _⟩ := rc_prompt b true (init true) Reach.init rfl hnf σ hf
  refine ⟨n, r, hret, ?_⟩
  have hfacts := returned_facts (inv_reach (run_reach σ (Reach.init (b := b) (pre := true)) n)) hret
  cases r with
  | ctxErr => exact Or.inl rfl
  | res m =>
    obtain ⟨_, o, i, hfin, hm, _⟩ := hfacts.2.2.2.2.2.2 m rfl
    exact Or.inr ⟨o, i, hfin, by rw [hm]⟩

/-- **Reusable.** When a call has returned, the next `RunContext` on the same `Compiled` starts exactly
like a first call: the lock is free and `NewVM` gives a VM whose abort flag is 0 — so every theorem about
`init` applies to it. -/
theorem rc_reusable (b : Beh) (pre : Bool) (s : State) (hr : Reach b pre s) (r : Ret)
    (hret : s.cpc = .returned r) (pre' : Bool) :
    nextCall s pre' = init pre' ∧ (nextCall s pre').aborting = false ∧ (nextCall s pre').lockHeld = false := by
  have h := (returned_facts (inv_reach hr) hret).1
  simp [nextCall, h, init]

/-- … and an uncancelled run of a terminating program returns the run's own result. -/
theorem rc_uncancelled_result (b : Beh) (hnf : ¬ ReachesFatal b) (i : Nat) (o : Outcome) (hfin : FinishesAt b i o)
    (σ : Nat → Choice) (hf : Fair σ) (hnever : ∀ n, σ n ≠ .cancel) :
    ∃ n, (run b σ (init false) n).cpc = .returned (.res o.msg) := by
  have hl : Live b i (init false) := ⟨inv_init b false, hnf, Or.inr ⟨o, hfin⟩⟩
  obtain ⟨n, r, hret⟩ := eventually_returns _ _ hl rfl σ hf
  refine ⟨n, ?_⟩
  have hfacts := returned_facts (inv_reach (run_reach σ (Reach.init (b := b) (pre := false)) n)) hret
  cases r with
  | ctxErr =>
    have := (hfacts.2.2.2.2.2.1 rfl).1
    rw [run_never_cancel hnever n] at this
    simp [init] at this
  | res m =>
    obtain ⟨_, o', i', hfin', hm, _⟩ := hfacts.2.2.2.2.2.2 m rfl
    obtain ⟨_, ho⟩ := finishesAt_unique hfin hfin'
    rw [hret, ← hm, ho]

/-- Why the fresh VM matters: the VM of a finished call can be left with `aborting = 1` (`Run` clears the
flag, then the caller's `Abort` sets it). A `RunContext` that reused the VM would abort its next run at
once. Concrete schedule: the program finishes, the context is cancelled, the select takes `ctx.Done()`. -/
theorem stale_abort_reachable :
    ∃ s, Reach (Prog.fin 0 .ok).beh false s ∧ s.cpc = .returned .ctxErr ∧ s.aborting = true :=
  ⟨runList (Prog.fin 0 .ok).beh (init false)
      [.caller false, .caller false, .runner, .runner, .runner, .runner, .runner, .cancel,
       .caller true, .caller true, .caller true, .caller true],
    runList_reach _ Reach.init, by decide, by decide⟩

/-- **Every path through the loop body returns to the loop head.** An instruction that continues
(including the self tail call, the only `continue` of the loop: `shape_matches`) is followed by the poll
of the abort flag, and a poll that sees the flag leaves the loop without dispatching. -/
theorem tailcall_polls (b : Beh) (s t : State) (i : Nat) (hs : s.rpc = .exec i) (hb : b i = .cont)
    (ht : runnerStep b s = some t) :
    t.rpc = .poll (i + 1) ∧
    ∀ u, t.aborting = true → runnerStep b t = some u → ∃ m, u.rpc = .ranOut m := by
  have h1 : t.rpc = .poll (i + 1) := by
    simp [runnerStep, hs, hb] at ht
    subst ht
    rfl
  refine ⟨h1, ?_⟩
  intro u ha hu
  simp [runnerStep, h1, ha] at hu
  subst hu
  exact ⟨_, rfl⟩

/-- `for {}` and unbounded self tail recursion (behaviour: every instruction continues) are cancellable:
once the context is cancelled every fair schedule returns `ctx.Err()`, at most one instruction after
`Abort`. -/
theorem inf_cancellable (pre : Bool) (s : State) (hr : Reach Prog.inf.beh pre s) (hc : s.cancelled = true)
    (σ : Nat → Choice) (hf : Fair σ) :
    ∃ n, (run Prog.inf.beh σ s n).cpc = .returned .ctxErr ∧ (run Prog.inf.beh σ s n).instrAfterAbort ≤ 1 := by
  have hnf : ¬ ReachesFatal Prog.inf.beh := by
    intro ⟨i, _, h⟩
    simp [Prog.beh] at h
  obtain ⟨n, r, hret, _, _, hb, _⟩ := rc_prompt _ pre s hr hc hnf σ hf
  refine ⟨n, ?_, hb⟩
  have hfacts := returned_facts (inv_reach (run_reach σ hr n)) hret
  cases r with
  | ctxErr => exact hret
  | res m =>
    obtain ⟨_, o, i, hfin, _⟩ := hfacts.2.2.2.2.2.2 m rfl
    have := hfin.2
    simp [Prog.beh] at this

/-! ### Non-vacuity: concrete schedules and hypotheses that are met -/

/-- Round-robin caller / runner / cancel is a fair schedule. -/
def roundRobin : Nat → Choice := fun n =>
  if n % 3 = 0 then .caller true else if n % 3 = 1 then .runner else .cancel

theorem roundRobin_fair : Fair roundRobin := by
  constructor
  · intro n
    exact ⟨3 * n, by omega, by simp [roundRobin, Choice.isCaller]⟩
  · intro n
    refine ⟨3 * n + 1, by omega, ?_⟩
    have h1 : (3 * n + 1) % 3 = 1 := by omega
    simp [roundRobin, h1]

/-- caller / runner alternation never cancels and is fair. -/
def noCancel : Nat → Choice := fun n => if n % 2 = 0 then .caller false else .runner

theorem noCancel_fair : Fair noCancel ∧ ∀ n, noCancel n ≠ .cancel := by
  refine ⟨⟨fun n => ⟨2 * n, by omega, by simp [noCancel, Choice.isCaller]⟩,
    fun n => ⟨2 * n + 1, by omega, ?_⟩⟩, ?_⟩
  · have h1 : (2 * n + 1) % 2 = 1 := by omega
    simp [noCancel, h1]
  · intro n
    unfold noCancel
    split <;> simp

theorem fin_noFatal (n : Nat) (o : Outcome) (ho : o ≠ .fatal) : ¬ ReachesFatal (Prog.fin n o).beh := by
  intro ⟨i, _, h⟩
  simp only [Prog.beh] at h
  split at h
  · cases h
  · cases h; exact ho rfl

/-- rc_prompt / inf_cancellable hypotheses are met: an infinite loop, cancelled while running. -/
example : ∃ s, Reach Prog.inf.beh false s ∧ s.cancelled = true ∧ s.rpc = .exec 2 :=
  ⟨runList Prog.inf.beh (init false)
      [.caller false, .caller false, .runner, .runner, .runner, .runner, .runner, .runner, .cancel],
    runList_reach _ Reach.init, by decide, by decide⟩

/-- The round-robin schedule run on `for {}`: cancelled at step 2, returned `ctx.Err()` with one
instruction after Abort. -/
example : (run Prog.inf.beh roundRobin (init false) 30).cpc = .returned .ctxErr ∧
    (run Prog.inf.beh roundRobin (init false) 30).instrAfterAbort ≤ 1 := by decide

/-- Terminal states of each kind are reached (rc_safety is not vacuous). -/
def exState1 : State := runList (Prog.fin 1 .ok).beh (init false)
      [.caller false, .caller false, .runner, .runner, .runner, .runner, .runner, .runner, .runner, .caller false, .caller false]

example : exState1.cpc = .returned (.res .nilErr) ∧ exState1.rpc = .done ∧ exState1.lockHeld = false ∧ exState1.sends = 1 ∧ exState1.recvs = 1 := by decide

def exState2 : State := runList (Prog.fin 1 .err).beh (init false)
      [.caller false, .caller false, .runner, .runner, .runner, .runner, .runner, .runner, .runner, .caller false, .caller false]

example : exState2.cpc = .returned (.res .runErr) ∧ exState2.rpc = .done ∧ exState2.lockHeld = false := by decide

/-- cancelled mid-run: the run is aborted (it never finished) and `ctx.Err()` is returned -/
def exState3 : State := runList (Prog.fin 5 .ok).beh (init false)
      [.caller false, .caller false, .runner, .runner, .cancel, .caller true, .caller true,
       .runner, .runner, .runner, .runner, .caller true, .caller true]

example : exState3.cpc = .returned .ctxErr ∧ exState3.rpc = .done ∧ exState3.runOut = none ∧ exState3.instrAfterAbort = 1 ∧ exState3.lockHeld = false := by
  decide

/-- already cancelled: Abort lands before the goroutine has dispatched anything -/
def exState4 : State := runList Prog.inf.beh (init true)
      [.caller true, .caller true, .caller true, .caller true, .runner, .runner, .runner, .runner, .caller true, .caller true]

example : exState4.cpc = .returned .ctxErr ∧ exState4.rpc = .done ∧ exState4.instrAfterAbort = 0 := by decide

/-- rc_uncancelled_result hypotheses are met -/
example : ∃ n, (run (Prog.fin 3 .err).beh noCancel (init false) n).cpc = .returned (.res .runErr) :=
  rc_uncancelled_result _ (fin_noFatal 3 .err (by decide)) 3 .err
    ⟨fun j hj => by simp [Prog.beh, hj], by simp [Prog.beh]⟩ noCancel noCancel_fair.1 noCancel_fair.2

end Tengo.Props.C07

import Tengo.Proofs.C05AcyclicCall
import Tengo.Props.C05VM
/-!
C05 — no fatal outcome on ACYCLIC values of bounded nesting depth (`no_fatal_acyclic`, part 1: the value model).

`Model/VMAbort.classify` classes exactly one kind of dispatch `fatal`: one that fails with `Err.fuel`, i.e. one of the
natively recursive operations of the value model (`equalsV`, `toStringV`, `copyV`; started with fuel 64 by the VM
model) ran out of recursion budget. This is the model's image of known finding O9: the Go functions
`Equals`/`String`/`Copy` recurse natively without any guard, so on a CYCLIC value they exhaust the Go stack.

**What the model's 64 stands for.** The real code has NO depth bound: on an acyclic value of any depth that fits the
Go stack (1 GB by default, i.e. nesting in the millions) the Go functions simply return. The model replaces "the
recursion does not come back" by "more than 64 nested native calls". So a model run classed `fatal` is EITHER an
image of O9 (a cyclic value: the Go process dies) OR an acyclic value nested more than 63 deep, for which the model
is merely conservative (Go completes; the differential streams do not generate such values). The theorems below
show the converse direction: on a value whose reachable heap part is a tree/DAG of nesting depth `d < 64`, these
functions never answer `Err.fuel` — so fatal NEEDS a cycle or a nesting deeper than the model's budget.

`Shallow h v d`: `v` is well-formed in heap `h` (no dangling reference, headers point to stores) and every path of
container/error-payload edges from `v` has at most `d` edges; in particular no cycle is reachable from `v`
(`cyclic_not_shallow`). It is a decidable (boolean, `fits`) predicate.
-/
namespace Tengo.Props.C05Acyclic
open Tengo.Model Tengo.Model.Spec Tengo.Model.VM Tengo.Model.VMAbort Tengo.Model.Conc Tengo.Proofs.C05Acyclic
open Tengo.Proofs.Conc Tengo.Proofs.C07VMLoops Tengo.Props.C07VM

/-- The part of heap `h` reachable from `v` is well-formed and a tree/DAG of nesting depth ≤ `d` (no cycle). -/
def Shallow (h : St) (v : Value) (d : Nat) : Prop := fits h (d + 1) v = true

instance (h : St) (v : Value) (d : Nat) : Decidable (Shallow h v d) := by unfold Shallow; infer_instance

/-- Deeper bounds are weaker. -/
theorem Shallow.mono {h : St} {v : Value} {d d' : Nat} (hs : Shallow h v d) (hle : d ≤ d') : Shallow h v d' :=
  fits_mono h _ _ v hs (by omega)

/-- A value that contains itself directly is not `Shallow` for any depth … -/
theorem cyclic_not_shallow (h : St) (v : Value) (ks : List Value) (hk : kids h v = some ks) (hself : v ∈ ks) (d : Nat) :
    ¬ Shallow h v d := fun hs => fits_self_false h v ks hk hself (d + 1) hs

/-- **`equalsV` never exhausts its recursion budget on a shallow left (or right) operand**: with any fuel above the
depth (`VM.exec` and the reference interpreter use 64) the answer is not `Err.fuel`; and the heap is not changed. -/
theorem equalsV_no_fuel_error (h : St) (a b : Value) (d fuel : Nat) (hs : Shallow h a d ∨ Shallow h b d) (hd : d < fuel) :
    equalsV fuel a b h ≠ .error Err.fuel ∧ ∀ r h', equalsV fuel a b h = .ok (r, h') → h' = h := by
  have := equalsV_RO2 h (d + 1) fuel a b hs (by omega)
  unfold RO at this
  constructor
  · intro he; rw [he] at this; exact this rfl
  · intro r h' he; rw [he] at this; exact this.1

/-- **`toStringV` never exhausts its recursion budget on a shallow value.** -/
theorem toStringV_no_fuel_error (h : St) (v : Value) (d fuel : Nat) (hs : Shallow h v d) (hd : d < fuel) :
    toStringV fuel v h ≠ .error Err.fuel ∧ ∀ r h', toStringV fuel v h = .ok (r, h') → h' = h := by
  have := toStringV_RO h (d + 1) fuel v hs (by omega)
  unfold RO at this
  constructor
  · intro he; rw [he] at this; exact this rfl
  · intro r h' he; rw [he] at this; exact this.1

/-- **`copyV` never exhausts its recursion budget on a shallow value**; it only extends the heap (`Ext`: every
object that was there stays), whatever the interpreter-side state `g`. -/
theorem copyV_no_fuel_error (g : GSt) (h : St) (v : Value) (d fuel : Nat) (hs : Shallow h v d) (hd : d < fuel) :
    copyV fuel v g h ≠ .error Err.fuel ∧ ∀ r h', copyV fuel v g h = .ok (r, h') → Ext h h' := by
  have := copyV_GR (d + 1) fuel v g h hs (by omega)
  unfold GR at this
  constructor
  · intro he; rw [he] at this; exact this rfl
  · intro r h' he; rw [he] at this; exact this

/-! ### Non-vacuity -/

/-- `[[1], "x"]`: object 1 = header over store 0 = `[1]`; object 3 = header over store 2 = `[array 1, "x"]`. -/
def demoHeap : St :=
  { heap := #[.store #[.int 1] 1, .arr 0 0 1, .store #[.arr 1, .str [120]] 1, .arr 2 0 2, .map [([107], .arr 3)]] }

example : Shallow demoHeap (.arr 3) 2 := by decide
example : Shallow demoHeap (.map 4) 3 := by decide
example : ¬ Shallow demoHeap (.arr 3) 1 := by decide
/-- The hypotheses of the three theorems are met with the model's fuel 64 … -/
example : equalsV 64 (.arr 3) (.arr 3) demoHeap ≠ .error Err.fuel :=
  (equalsV_no_fuel_error demoHeap _ _ 2 64 (.inl (by decide)) (by decide)).1
example : toStringV 64 (.map 4) demoHeap ≠ .error Err.fuel :=
  (toStringV_no_fuel_error demoHeap _ 3 64 (by decide) (by decide)).1
example : copyV 64 (.map 4) {} demoHeap ≠ .error Err.fuel :=
  (copyV_no_fuel_error {} demoHeap _ 3 64 (by decide) (by decide)).1
/-- … and the image of O9 (`a := [0]; a[0] = a`, `Proofs/C07VMLoops.cycHeap`) is not shallow for any depth. -/
example (d : Nat) : ¬ Shallow Tengo.Proofs.C07VMLoops.cycHeap (.arr 0) d :=
  cyclic_not_shallow _ _ [.arr 0] rfl (by simp) d


/-! ## One dispatch of the whole-VM model; runs whose stack stays shallow -/

/-- Every slot of the operand-stack array of `cfg` (live or stale) holds a value that is `Shallow` of depth `d` in
`cfg`'s heap. (Globals, locals boxed in cells and container elements need NOT be shallow: a dispatch of the VM model
hands only operand-stack values, and for a spread call the elements of the topmost one, to the natively recursive
functions.) -/
def StackShallow (cfg : Cfg) (d : Nat) : Prop := ∀ i, Shallow cfg.heap (getSlot cfg.core.regs i) d

theorem StackShallow.ss {cfg : Cfg} {d : Nat} (h : StackShallow cfg d) (hd : d < 64) : SS cfg.core.regs cfg.heap :=
  fun i => fits_mono _ _ _ _ (h i) (by omega)

/-- One dispatch from a stack-shallow configuration does not fail with `Err.fuel` … -/
theorem dispatch_no_fuel (code : Code) (allocs : Int) (cfg : Cfg) (d : Nat) (hd : d < 64) (hs : StackShallow cfg d)
    (at_ : Cfg) : dispatch code allocs cfg ≠ .stop (.failed .fuel at_) := by
  have hx : (((exec code cfg.core).run).run cfg.gst).run cfg.heap ≠ .error Err.fuel :=
    exec_XG code cfg.core cfg.gst cfg.heap (hs.ss hd)
  unfold dispatch
  generalize (((exec code cfg.core).run).run cfg.gst).run cfg.heap = x at hx
  split
  · rename_i e; intro h; cases h; exact hx rfl
  · intro h; cases h
  · intro h; cases h
  · intro h; cases h
  · split <;> (intro h; cases h)

/-- **`no_fatal_shallow`: a dispatch of `VM.exec` in a configuration whose operand stack is shallow (depth < 64, the
model's native recursion budget) is never classed `fatal`.** -/
theorem no_fatal_shallow (code : Code) (allocs : Int) (cfg : Cfg) (d : Nat) (hd : d < 64) (hs : StackShallow cfg d) :
    (∀ o, dispatch code allocs cfg = .stop o → classify o ≠ .fatal) ∧ behOf code allocs cfg 0 ≠ .fin .fatal := by
  have key : ∀ o, dispatch code allocs cfg = .stop o → classify o ≠ .fatal := by
    intro o ho hc
    have hne := dispatch_no_fuel code allocs cfg d hd hs
    cases o with
    | failed e at_ => cases e <;> first | exact hne _ ho | cases hc
    | fault f at_ => cases f <;> cases hc
    | _ => cases hc
  refine ⟨key, ?_⟩
  show behFrom code 0 allocs cfg ≠ _
  unfold behFrom
  split
  · rename_i o ho; intro h; exact key o ho (by injection h)
  · intro h; cases h

/-- **Runs whose operand stack stays shallow never reach the fatal class** (`vm_no_fatal_within`, trace form): if
the configurations at the loop head before each of the first `k` dispatches are stack-shallow, no run of at most `k`
dispatches fails with `Err.fuel`. The hypothesis is about the configurations the run passes through, not only about
the initial one: that `k` dispatches deepen a value by at most `k` (`depth_grows_by_one_per_dispatch`) is NOT proved. -/
theorem vm_no_fatal_within_partial (code : Code) (d : Nat) (hd : d < 64) : ∀ (k : Nat) (allocs : Int) (cfg : Cfg),
    (∀ i < k, ∀ cfg' a', cfgAt code i allocs cfg = some (cfg', a') → StackShallow cfg' d) →
    ∀ (keep fuel : Nat) (log : Log) (at_ : Cfg), fuel ≤ k → (VM.run code keep fuel allocs cfg log).1 ≠ .failed .fuel at_
  | _, allocs, cfg, _, keep, 0, log, at_, _ => by rw [Tengo.Model.VMAbort.run_zero]; intro h; cases h
  | 0, _, _, _, _, fuel + 1, _, _, hle => by omega
  | k + 1, allocs, cfg, hinv, keep, fuel + 1, log, at_, hle => by
    rw [Tengo.Model.VMAbort.run_dispatch]
    have h0 := dispatch_no_fuel code allocs cfg d hd (hinv 0 (by omega) cfg allocs rfl)
    split
    · rename_i o ho
      intro h
      exact h0 at_ (by rw [ho]; exact congrArg _ h)
    · rename_i cfg' allocs' counted hgo
      refine vm_no_fatal_within_partial code d hd k allocs' cfg' ?_ keep fuel _ at_ (by omega)
      intro i hi c a hc
      refine hinv (i + 1) (by omega) c a ?_
      show (match dispatch code allocs cfg with | .stop _ => none | .go cfg' allocs' _ => cfgAt code i allocs' cfg') = _
      rw [hgo]; exact hc

/-- The hypothesis `NoNativeDepthExhaustion` of the `vm_*` theorems of `Props/C05VM`, discharged for the runs whose
operand stack stays shallow. -/
theorem noNativeDepthExhaustion_of_shallow (code : Code) (allocs : Int) (cfg : Cfg) (d : Nat) (hd : d < 64)
    (hinv : ∀ i cfg' a', cfgAt code i allocs cfg = some (cfg', a') → StackShallow cfg' d) :
    NoNativeDepthExhaustion code allocs cfg :=
  fun fuel at_ => vm_no_fatal_within_partial code d hd fuel allocs cfg (fun i _ => hinv i) 0 fuel {} at_ (Nat.le_refl _)

/-- **Host survives on shallow runs**: `C05VM.vm_host_survives_partial` without the hypothesis about native depth. -/
theorem vm_host_survives_shallow (code : Code) (allocs : Int) (cfg : Cfg) (d : Nat) (hd : d < 64)
    (hinv : ∀ i cfg' a', cfgAt code i allocs cfg = some (cfg', a') → StackShallow cfg' d)
    (pre : Bool) (s : State) (hr : Reach (behOf code allocs cfg) pre s) : s.rpc ≠ .crashed :=
  C05VM.vm_host_survives_partial code allocs cfg (noNativeDepthExhaustion_of_shallow code allocs cfg d hd hinv) pre s hr


/-! ### Non-vacuity (whole VM) -/

/-- `EQUAL` (the code of the O9 image, `cycCode`) on a stack holding the ACYCLIC array `[[1], "x"]` twice. -/
def demoCfg : Cfg := ⟨startCore #[.arr 3, .arr 3] 2 (-1), {}, demoHeap⟩

theorem demo_stackShallow : StackShallow demoCfg 2 := by
  intro i
  match i with
  | 0 => decide
  | 1 => decide
  | n + 2 => exact (by decide : Shallow demoHeap .undef 2)

/-- no_fatal_shallow: the same instruction that is fatal on the cyclic heap (`C05VM.vm_fatal_witness`) is not fatal
on the acyclic one. -/
example (a : Int) : behOf cycCode a demoCfg 0 ≠ .fin .fatal := (no_fatal_shallow cycCode a demoCfg 2 (by decide) demo_stackShallow).2
/-- … and its hypothesis fails for the O9 image, as it must. -/
example (d : Nat) : ¬ StackShallow cycCfg d := fun h => cyclic_not_shallow cycHeap (.arr 0) [.arr 0] rfl (by simp) d (h 0)

theorem leafStack_shallow (v : Value) (hv : Shallow {} v 0) (ip : Int) (sp : Nat) : StackShallow (okCfg ip sp #[v]) 0 := by
  intro i
  match i with
  | 0 => exact hv
  | n + 1 => exact (by decide : Shallow {} .undef 0)

/-- vm_no_fatal_within_partial / noNativeDepthExhaustion_of_shallow / vm_host_survives_shallow: the trace hypothesis
is met by `TRUE; POP; SUSPEND` (three dispatches). -/
theorem ok_trace_shallow (a : Int) :
    ∀ i cfg' a', cfgAt okCode i a okStart = some (cfg', a') → StackShallow cfg' 0 := by
  intro i cfg' a' h
  match i with
  | 0 => cases h; exact leafStack_shallow _ (by decide) _ _
  | 1 =>
    have : cfgAt okCode 1 a okStart = some (okCfg 0 1 #[.bool true], a) := by
      show (match dispatch okCode a okStart with | .stop _ => none | .go c al _ => cfgAt okCode 0 al c) = _
      rw [ok_dispatch0]; rfl
    rw [this] at h; cases h; exact leafStack_shallow _ (by decide) _ _
  | 2 =>
    have : cfgAt okCode 2 a okStart = some (okCfg 1 0 #[.bool true], a) := by
      show (match dispatch okCode a okStart with | .stop _ => none | .go c al _ => cfgAt okCode 1 al c) = _
      rw [ok_dispatch0]
      show (match dispatch okCode a (okCfg 0 1 #[.bool true]) with | .stop _ => none | .go c al _ => cfgAt okCode 0 al c) = _
      rw [ok_dispatch1]; rfl
    rw [this] at h; cases h; exact leafStack_shallow _ (by decide) _ _
  | n + 3 =>
    have : cfgAt okCode (n + 3) a okStart = none := by
      show (match dispatch okCode a okStart with | .stop _ => none | .go c al _ => cfgAt okCode (n + 2) al c) = _
      rw [ok_dispatch0]
      show (match dispatch okCode a (okCfg 0 1 #[.bool true]) with | .stop _ => none | .go c al _ => cfgAt okCode (n + 1) al c) = _
      rw [ok_dispatch1]
      show (match dispatch okCode a (okCfg 1 0 #[.bool true]) with | .stop _ => none | .go c al _ => cfgAt okCode n al c) = _
      rw [ok_dispatch2]
    rw [this] at h; cases h

example (a : Int) : NoNativeDepthExhaustion okCode a okStart :=
  noNativeDepthExhaustion_of_shallow okCode a okStart 0 (by decide) (ok_trace_shallow a)
example (a : Int) (s : State) (hr : Reach (behOf okCode a okStart) false s) : s.rpc ≠ .crashed :=
  vm_host_survives_shallow okCode a okStart 0 (by decide) (ok_trace_shallow a) false s hr

end Tengo.Props.C05Acyclic

import Tengo.Props.C20Bytes2
import Tengo.Proofs.C20StmtStream
import Tengo.Proofs.C20StmtBrace
/-!
C20 — round trip for STATEMENT LISTS: print, then scan, then parse gives the statements back (byte level).

`Props/C20Bytes2` proves print → scan → parse for ONE expression statement. Here the source is a statement LIST over
the statement fragment `FragS` / `FragSs` (expressions from `Frag2`):

* expression statements; assignments `a, b = x, y`, `a, b := x, y` (non-empty lists, any `Frag2` expressions as
  targets: identifiers, selectors, index expressions …), `a op= x` for the eleven op-assignments; `x++` / `x--`;
* `return`, `return e`; `break`, `continue`, `break l`, `continue l`;
* `if c {…}`, `if init; c {…}`, each with `else {…}` / `else if …` (any chain); `for {…}`, `for c {…}`, the three-clause
  `for init; c; post {…}` (each part optional; printed `for init ; c  ; post{…}`), `for k, v in x {…}`;
  init / post are expression statements, assignments or `++` / `--`;
* blocks as bodies / else branches, nested to any depth.

What is proved:

1. `print_layS`: the printer model emits, byte for byte, the layout `laySs ss` (statements joined by `"; "`, blanks as
   `Node.String()` puts them);
2. `scan_stmt_operator`, `scan_semicolon`, `scan_print_tokens3`, `stream_layS`: the scanner on that layout — the
   statement operators `=` `:=` `op=` `++` `--` and the explicit `;` added to the alphabet of `scan_print_tokens2` —
   yields exactly the tokens `place2 0 (laySs ss)`, then the automatic `;` and EOF, no error: no token of a printed
   statement list fuses with what follows;
3. `parse_print_stmts_partial` (token level: ANY token list with the (kind, literal) sequence of the layout, any
   offsets), `parse_print_stmt_tokens`, `parse_print_block_tokens` (one statement / one block with any continuation);
4. **`parse_scan_print_stmts_partial`**: `parseFile (printFile ss) = some (pfSs ss)` and `(pfSs ss).strip = ss.strip`
   — `pfSs ss` is `ss` with a ParenExpr around every operator node.

The explicit side conditions of the fragment: the condition of an `if` and of a `for` printed in the SHORT form (no
init, no post) must not START with `{` in its printed form (`braceFirst c = false`): `for {a: 1}.b {}` is what
`ForStmt.String()` prints for a loop whose condition is a selector on a map literal, and it parses as the loop
`for {a: 1}` … (finding C20-3). `braceFirst_c203` shows the side condition is exactly what fails there, and that the
parenthesised condition `({a: 1}).b` is inside the fragment; `braceFirst_three_clause`: with an init or post statement
the three-clause form is printed and the same condition is inside the fragment. For the same reason the init of an
`if` / `for` and the post of a `for` must not start with `{` (`firstExprBrace s = false`: `for ; c ; {a: 1}.b{}` would
read the post statement as the body).

`_partial` because outside `FragS`: `export`, function literals, a BlockStmt as a statement of its own (the parser
never produces one: `{` starts a map literal), EmptyStmt, a for-in with one name (the parser always yields key `_` and
the value); and everything `Frag2` leaves out for expressions (see `Props/C20Bytes2`). Only the printer's own layout
is covered at byte level.
-/
namespace Tengo.Props.C20Stmt
open Tengo.Model.Token Tengo.Model.Scanner Tengo.Model.Ast Tengo.Model.Parser Tengo.Model.Printer
open Tengo.Model.Literal
open Tengo.Proofs.C20Parser Tengo.Proofs.C20BytesScan Tengo.Proofs.C20BytesParse Tengo.Proofs.C20BytesPrint
open Tengo.Proofs.C20Bytes2Scan Tengo.Proofs.C20Bytes2Stream Tengo.Proofs.C20Bytes2Parse
open Tengo.Proofs.C20StmtEq Tengo.Proofs.C20Stmt Tengo.Proofs.C20StmtScan
open Tengo.Proofs.C20BytesStream (endToks)

variable (fo : Bs → Option Nat) (cls : Nat → Nat)

/-- **The printer model emits `laySs`**: `File.String()` on a statement list of the fragment, byte for byte. -/
theorem print_layS (ss : Stmts) (h : FragSs fo ss) : printFile ss = render2 (laySs ss) :=
  printFile_lay ss h

/-- `pfSs ss` is `ss` up to ParenExpr nodes (and EmptyStmt, of which there are none here). -/
theorem pfSs_strip_eq (ss : Stmts) : (pfSs ss).strip = ss.strip := pfSs_strip ss

/-- **One statement, any continuation.** On tokens with the keys of the printed statement followed by `;` or `}`,
`parseStmt` returns `pfS s`, consumes the `;` and leaves a `}`. -/
theorem parse_print_stmt_tokens (s : Stmt) (h : FragS fo s) (hb : isBlock s = false) (ts rest : Toks)
    (hk : ts.map key = keysOf (layS s)) (hn : SemiNext rest) :
    run (parseStmt fo (ts ++ rest)) = some (pfS s, dropSemi rest) :=
  (stmtOk s h hb).parse ts rest hk hn

/-- **A block**: `{ s1; s2; … }`, whatever follows. -/
theorem parse_print_block_tokens (ss : Stmts) (h : FragSs fo ss) (ts rest : Toks)
    (hk : ts.map key = keysOf (blk (laySs ss))) :
    run (parseBlock fo (ts ++ rest)) = some (pfSs ss, rest) :=
  bOk_of ss (stmtsOk ss h) ts rest hk

/-- **parse ∘ print for statement lists, token level.** -/
theorem parse_print_stmts_partial (s : Stmt) (ss : Stmts) (h : FragSs fo (.cons s ss)) (ts : Toks) (semi eof : Token)
    (hk : ts.map key = keysOf (laySs (.cons s ss))) (hsemi : semi.tok = .Semicolon) (heof : eof.tok = .EOF) :
    printFile (.cons s ss) = render2 (laySs (.cons s ss)) ∧
    parseToks fo (ts ++ [semi, eof]) = some (pfSs (.cons s ss)) ∧
    (pfSs (.cons s ss)).strip = (Stmts.cons s ss).strip :=
  ⟨printFile_lay _ h, parseToks_stmts s ss h ts semi eof hk hsemi heof, pfSs_strip _⟩

/-- The same on the token list with the byte offsets of the printed file and the scanner's end-of-input tokens. -/
theorem parse_print_stmts_placed (s : Stmt) (ss : Stmts) (h : FragSs fo (.cons s ss)) (n : Nat) :
    parseToks fo (place2 0 (laySs (.cons s ss)) ++ endToks n true) = some (pfSs (.cons s ss)) := by
  have := parseToks_stmts s ss h (place2 0 (laySs (.cons s ss))) ⟨.Semicolon, [10], n⟩ ⟨.EOF, [], n⟩
    (place2_keys _ 0) rfl rfl
  simpa [endToks] using this

/-- The empty file. -/
theorem parse_print_empty (eof : Token) (heof : eof.tok = .EOF) :
    printFile .nil = [] ∧ parseToks fo [eof] = some .nil :=
  ⟨rfl, parseToks_empty eof heof⟩


/-! ### Scanner -/

/-- **Statement operators.** `=` `:=` `+=` `-=` `*=` `/=` `%=` `&=` `|=` `^=` `<<=` `>>=` `&^=` `++` `--` followed by
ASCII text that does not extend them (only `=` can grow, to `==`): the scanner returns that token, consumes exactly
its spelling and sets `insertSemi` iff the token is `++` or `--`. -/
theorem scan_stmt_operator (t : Tok) (hop : stmtOp t = true) (b : Bs) (off : Nat) (ins : Bool)
    (hf : fuses3 t (cur (chs b)) = false) :
    scanLoop cls (chs t.bytes ++ chs b) off ins =
      { toks := ⟨t, [], off⟩ :: (scanLoop cls (chs b) (off + t.bytes.length) (insOp3 t)).toks,
        errs := (scanLoop cls (chs b) (off + t.bytes.length) (insOp3 t)).errs } :=
  scanLoop_op3 cls t hop b off ins hf

/-- **The explicit `;`**: token Semicolon with literal ";", `insertSemi` cleared. -/
theorem scan_semicolon (b : Bs) (off : Nat) (ins : Bool) :
    scanLoop cls (chs [59] ++ chs b) off ins =
      { toks := ⟨.Semicolon, [59], off⟩ :: (scanLoop cls (chs b) (off + 1) false).toks,
        errs := (scanLoop cls (chs b) (off + 1) false).errs } :=
  scanLoop_semi cls b off ins

example : stmtOp .Define = true ∧ stmtOp .AndNotAssign = true ∧ stmtOp .Inc = true ∧ stmtOp .Equal = false ∧
    fuses3 .Assign 61 = true ∧ fuses3 .Assign 32 = false ∧ insOp3 .Dec = true ∧ insOp3 .Assign = false := by decide

/-- **scan_print_tokens3.** `scan_print_tokens2` with the statement operators and `;` in the alphabet (`StreamOk3`). -/
theorem scan_print_tokens3 (els : List El2) (h : StreamOk3 els eofR) :
    (scan cls (render2 els)).toks = place2 0 els ++ endToks (render2 els).length (lastIns3 false els) ∧
    (scan cls (render2 els)).errs = [] :=
  Tengo.Proofs.C20StmtScan.scan_print_tokens3 cls els h

/-- **The printed statement list never fuses**, and its last token sets `insertSemi`. -/
theorem stream_layS (s : Stmt) (ss : Stmts) (h : FragSs fo (.cons s ss)) :
    StreamOk3 (laySs (.cons s ss)) eofR ∧ lastIns3 false (laySs (.cons s ss)) = true := by
  refine ⟨streamSs _ h eofR (Or.inr (Or.inr (Or.inl rfl))), ?_⟩
  have h' := h
  simp only [FragSs] at h'
  simp only [laySs]
  exact lastSs s ss h'.2.1 h'.2.2 false

/-! ### Byte level -/

/-- **parse ∘ scan ∘ print on bytes, statement lists.** For every non-empty statement list of the fragment the bytes
`File.String()` (model) emits parse back — scanner with UTF-8 decoding, maximal munch, literal automata, the explicit
and the end-of-input semicolon; statement parser with `expectSemi`, blocks, if / else chains, for; expression parser — to
`pfSs (s :: ss)`, which is the list up to ParenExpr nodes. -/
theorem parse_scan_print_stmts_partial (s : Stmt) (ss : Stmts) (h : FragSs fo (.cons s ss)) :
    parseFile fo cls (printFile (.cons s ss)) = some (pfSs (.cons s ss)) ∧
    (pfSs (.cons s ss)).strip = (Stmts.cons s ss).strip :=
  ⟨parseFile_stmts cls s ss h, pfSs_strip _⟩

/-- The empty file prints as the empty string and parses to the empty list. -/
theorem parse_scan_print_nil : parseFile fo cls (printFile .nil) = some .nil := parseFile_nil cls

/-! ### Finding C20-3 and the side condition -/

/-- **The side condition in structural form.** For an expression of `Frag2` the printed form starts with `{` iff the
expression is a map literal or a selector (not on an Int literal: that one is printed `(1).a`) / index / slice / call
chain on an expression that does (`startsBrace`). -/
theorem braceFirst_structural (x : Expr) (h : Frag2 fo x) : braceFirst x = startsBrace x :=
  braceFirst_eq x h

example : startsBrace (.sel (.map .nil) [98]) = true ∧ startsBrace (.paren (.sel (.map .nil) [98])) = false ∧
    startsBrace (.call (.idx (.map .nil) (.some (.ident [97]))) .nil false) = true ∧
    startsBrace (.arr (.cons (.map .nil) .nil)) = false := by decide


def bs (x : String) : Bs := x.toUTF8.toList

/-- `{a: 1}.b` -/
def c203 : Expr := .sel (.map (.cons (bs "a") (.int 1 (bs "1")) .nil)) (bs "b")

/-- The loop `for {a: 1}.b {}` of finding C20-3: its condition is in `Frag2`, is printed with `{` first, and fails
exactly the side condition; with the condition parenthesised the statement is in the fragment. -/
theorem braceFirst_c203 :
    Frag2 fo c203 ∧ braceFirst c203 = true ∧
    printFile (.cons (.forS .none (.some c203) .none .nil) .nil) = bs "for {a: 1}.b {}" ∧
    ¬ FragS fo (.forS .none (.some c203) .none .nil) ∧
    FragS fo (.forS .none (.some (.paren c203)) .none .nil) := by
  have h1 : Frag2 fo c203 := by
    simp only [c203, Frag2, Frag2M]
    decide +kernel
  refine ⟨h1, by decide +kernel, by decide +kernel, ?_, ?_⟩
  · simp only [FragS]
    intro h
    exact absurd (h.2.2.2.1 rfl) (by decide +kernel)
  · simp only [FragS, FragInit, FragSs, Frag2O, Frag2]
    exact ⟨trivial, trivial, h1, fun _ => by decide +kernel, trivial⟩

/-- In the three-clause form the same condition is harmless: `for i := 0 ; {a: 1}.b  ; i++{}` is inside the fragment
(the parser reads the condition after the first `;` with `parseSimpleStmt`, not as a body). -/
theorem braceFirst_three_clause :
    FragS fo (.forS (.some (.assign .Define (.cons (.ident (bs "i")) .nil) (.cons (.int 0 (bs "0")) .nil)))
      (.some c203) (.some (.incdec .Inc (.ident (bs "i")))) .nil) := by
  have h1 : Frag2 fo c203 := (braceFirst_c203 fo).1
  simp only [FragS, FragInit, FragSs, Frag2O, Frag2, Frag2s, Frag2M]
  repeat' apply And.intro
  all_goals first | trivial | exact h1 | decide +kernel | (intro h; exact absurd h (by decide))

/-! ### Non-vacuity -/

def idn (x : String) : Expr := .ident (bs x)
def one (e : Expr) : Exprs := .cons e .nil

/-- `x := 1; if (x < 2) {x += 1; f(x)} else if y {return} else {y--}; for {break}; for x {continue l; a, b.c = b, a}; return x` -/
def prog : Stmts :=
  .cons (.assign .Define (one (idn "x")) (one (.int 1 (bs "1"))))
  (.cons (.ifS .none (.bin .Less (idn "x") (.int 2 (bs "2")))
      (.cons (.assign .AddAssign (one (idn "x")) (one (.int 1 (bs "1"))))
        (.cons (.expr (.call (idn "f") (one (idn "x")) false)) .nil))
      (.some (.ifS .none (idn "y") (.cons (.ret .none) .nil)
        (.some (.block (.cons (.incdec .Dec (idn "y")) .nil))))))
  (.cons (.forS .none .none .none (.cons (.branch .Break none) .nil))
  (.cons (.forS .none (.some (idn "x")) .none
      (.cons (.branch .Continue (some (bs "l")))
        (.cons (.assign .Assign (.cons (idn "a") (one (.sel (idn "b") (bs "c")))) (.cons (idn "b") (one (idn "a")))) .nil)))
  (.cons (.ret (.some (idn "x"))) .nil))))

theorem prog_frag : FragSs fo prog := by
  simp only [prog, one, idn, FragSs, FragS, FragEl, FragInit, Frag2, Frag2s, Frag2O]
  repeat' apply And.intro
  all_goals decide +kernel

example : printFile prog =
    bs "x := 1; if (x < 2) {x += 1; f(x)} else if y {return} else {y--}; for {break}; for x {continue l; a, b.c = b, a}; return x" := by
  decide +kernel

/-- The instance of the theorem: the tokens of the printed program (with their offsets) parse to `pfSs prog`. -/
example (n : Nat) : parseToks fo (place2 0 (laySs prog) ++ endToks n true) = some (pfSs prog) :=
  parse_print_stmts_placed fo _ _ (prog_frag fo) n

/-- The byte-level instance. -/
example : parseFile fo cls
    (bs "x := 1; if (x < 2) {x += 1; f(x)} else if y {return} else {y--}; for {break}; for x {continue l; a, b.c = b, a}; return x") =
    some (pfSs prog) := by
  have h := (parse_scan_print_stmts_partial fo cls _ _ (prog_frag fo)).1
  have hp : printFile prog =
      bs "x := 1; if (x < 2) {x += 1; f(x)} else if y {return} else {y--}; for {break}; for x {continue l; a, b.c = b, a}; return x" := by
    decide +kernel
  rw [← hp]
  exact h

/-- `if v := f(x); v {a = 1}; for i := 0 ; (i < 3)  ; i++{g(i)}; for  ; x  ; x--{}; for k, v in m {h(k, v)}` — the forms
with an init statement, the three-clause `for` (as `ForStmt.String()` lays it out) and for-in. -/
def prog2 : Stmts :=
  .cons (.ifS (.some (.assign .Define (one (idn "v")) (one (.call (idn "f") (one (idn "x")) false)))) (idn "v")
      (.cons (.assign .Assign (one (idn "a")) (one (.int 1 (bs "1")))) .nil) .none)
  (.cons (.forS (.some (.assign .Define (one (idn "i")) (one (.int 0 (bs "0")))))
      (.some (.bin .Less (idn "i") (.int 3 (bs "3")))) (.some (.incdec .Inc (idn "i")))
      (.cons (.expr (.call (idn "g") (one (idn "i")) false)) .nil))
  (.cons (.forS .none (.some (idn "x")) (.some (.incdec .Dec (idn "x"))) .nil)
  (.cons (.forIn (some (bs "k")) (some (bs "v")) (idn "m")
      (.cons (.expr (.call (idn "h") (.cons (idn "k") (one (idn "v"))) false)) .nil)) .nil)))

theorem prog2_frag : FragSs fo prog2 := by
  simp only [prog2, one, idn, FragSs, FragS, FragEl, FragInit, Frag2, Frag2s, Frag2O]
  repeat' apply And.intro
  all_goals first | decide +kernel | (intro h; exact absurd h (by decide))

example : parseFile fo cls
    (bs "if v := f(x); v {a = 1}; for i := 0 ; (i < 3)  ; i++{g(i)}; for  ; x  ; x--{}; for k, v in m {h(k, v)}") =
    some (pfSs prog2) := by
  have h := (parse_scan_print_stmts_partial fo cls _ _ (prog2_frag fo)).1
  have hp : printFile prog2 =
      bs "if v := f(x); v {a = 1}; for i := 0 ; (i < 3)  ; i++{g(i)}; for  ; x  ; x--{}; for k, v in m {h(k, v)}" := by
    decide +kernel
  rw [← hp]
  exact h

end Tengo.Props.C20Stmt

import Tengo.Props.C11
import Tengo.Props.C11Compile
import Tengo.Props.C11Place
import Tengo.Props.C11PlaceBlk
import Tengo.Props.C11PlaceBlkEx
import Tengo.Props.C11PlaceRho
import Tengo.Props.C11PlacePar
import Tengo.Props.C11PlaceIife
import Tengo.Props.C11PlaceCall
/-! C11: the symbol-table theorems (`C11`) and rename invariance of the whole compiler model
(`C11Compile`: a consistently renamed program compiles to the SAME bytecode), and the PLACEMENT theorem global ↦ local on
fragment F3 (`C11Place`: the same statements over global variables / over locals of a called function compute
the same values, on `F3.exec` and on `compileFile` + `VM.run`; `C11PlaceBlk`: with `:=` in nested blocks; `C11PlacePar`:
variables passed as parameters; `C11PlaceIife`: immediately invoked function literal), as one module for the checker. -/

import Tengo.Props.C11
import Tengo.Props.C11Compile
/-! C11: the symbol-table theorems (`C11`) and rename invariance of the whole compiler model
(`C11Compile`: a consistently renamed program compiles to the SAME bytecode), as one module for the
checker. -/

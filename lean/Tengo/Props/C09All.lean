import Tengo.Props.C09
import Tengo.Props.C09Eq
/-! C09: the frozen-store invariant, freeze theorems and source inventory (`C09`) and "the executable equality
`equalsN` decides the relation `Eqv` of the freeze theorems" (`C09Eq`) — as one module for the checker. -/

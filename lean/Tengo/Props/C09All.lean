import Tengo.Props.C09
import Tengo.Props.C09Eq
import Tengo.Props.C09Inv
/-! C09: the frozen-store invariant, freeze theorems and source inventory (`C09`) and "the executable equality
`equalsN` decides the relation `Eqv` of the freeze theorems" (`C09Eq`) and "the well-formedness hypotheses HdrOk / RefsOk are invariants of every operation, the equality theorems on built
heaps" (`C09Inv`) — as one module for the checker. -/

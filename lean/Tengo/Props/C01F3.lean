import Tengo.Proofs.F3Program
import Tengo.Proofs.F3NoBad
/-!
C01 on fragment F3 = F2 + FIRST-ORDER FUNCTIONS (`Tengo.Model.F3`): function constants with fixed arity,
parameters and local variables in frame slots, calls in expression position and as statements, recursion,
`return e` / `return`.

* `program_correct_F3` (Proofs/F3*.lean): abstract compiler correctness — what the fuel-indexed reference
  evaluator `F3.exec` computes (call = evaluate callee and arguments left to right, check callable and argument
  count, bind fresh locals, run the body, yield the returned value or undefined) is what the code of `F3.compProg`
  computes on the machine `F3.step`, which has ONE value stack with `sp`, frames with base pointers and the
  caller list exactly as `Tengo.Model.VM` (`CALL n`: `bp = sp - n`, `sp = bp + NumLocals`, the other local slots
  keep what the stack held; `RET`: result over the callee slot `bp - 1`, `sp = bp`) INCLUDING the self-tail-call
  rule of vm.go (`return f(…)` and `f(…)` directly before a `RET` reuse the frame; the `discardResult` mark).
  Generic in the data semantics. Hypothesis `ProgOk`: parameters among the locals, bodies write only their own
  local slots, main has no local slots (decidable; the real compiler guarantees it by construction).
* The optimizer: `F3.compFn` is the body followed by `RET 0` — the "unoptimized twin" of
  `Tengo.Props.C03Source.compiled_is_optimized_twin`; `compiled_runs_like_unoptimized` there says that the
  dead-code-eliminated function the real compiler stores runs like the twin on `VM.run`.
* Bridge to the big models: `Tengo/Proofs/C01BridgeF3VM*.lean` (`step_sim3`: one `F3.step` is one `VM.exec`
  dispatch in every frame, both `CALL` branches and `RET` included; `runs_halt3` / `fails_failed3`: bounded runs
  are `VM.run`s), `Tengo/Proofs/C01BridgeF3Comp*.lean` (`compileFile_fragment3_partial`: `Compiler.compileFile`
  on the embedded program emits `F3.compProg`'s main code and, per function, the optimizer's output on
  `F3.compSs 0 0 0 body`). Combined in `Tengo/Props/C01F3Bridge.lean`. NOT done: `Spec.runProgram` against
  `F3.exec` (function values are heap closures there), the stack / frame limits in `program_correct_F3`.
-/
namespace Tengo.Props.C01F3
open Tengo.Model
open Tengo.Model.F0 (Sem upd)
open Tengo.Model.F3

/-- **C01 on fragment F3** (see `Tengo.Model.F3.program_correct_F3`): for every data semantics, every `ProgOk`
program, every fuel, globals and initial stack content: if the reference semantics finishes with globals `g'`,
the compiled program started as `VM.Run` starts it reaches the end of the main code in the main frame with an
empty stack and globals `g'`; a run-time error of the reference semantics is a run-time error of the machine —
on the machine WITH the frame reuse of self tail calls. -/
theorem program_correct_F3 {V : Type} (E : Env V) (P : Prog) (hP : ProgOk P) (f : Nat)
    (g stk : Nat → V) :
    (∀ g', F3.exec E P f g = .done g' →
      ∃ stk', Runs E (compProg P) (St.init stk g) ⟨0, sssize P.main, 0, 0, stk', g', false, []⟩) ∧
    (F3.exec E P f g = .err → Fails E (compProg P) (St.init stk g)) :=
  F3.program_correct_F3 E P hP f g stk

/-- The invariant behind it, for every fuel: expressions, argument lists, the call proper, statements and
statement lists in EVERY frame at every placement (see `OkE`, `OkEs`, `OkCall`, `OkS`, `OkSs`). -/
theorem all_ok {V : Type} (E : Env V) (P : Prog) (hP : ProgOk P) (f : Nat) : AllOk E P f :=
  F3.all_ok E P hP f

/-- **The results of statically checked programs** (`Tengo.Model.F3.exec_cases`): for a `Scoped` program — definite
assignment of locals, `break` / `continue` inside loops, `return` inside functions, callable values denote
function constants of the program: what the real compiler's name resolution and compile errors enforce — the
reference semantics ends `done`, in a run-time error, or the fuel runs out; `bad` (the result about which
`program_correct_F3` says nothing) does not occur. -/
theorem exec_cases {V : Type} (E : Env V) (P : Prog) (hS : Scoped E P) (f : Nat) (g : Nat → V) :
    (∃ g', F3.exec E P f g = .done g') ∨ F3.exec E P f g = .err ∨ F3.exec E P f g = .out :=
  F3.exec_cases hS f g

/-! ### non-vacuity -/

/-- Kind of a program result (decidable view). -/
def tag {V : Type} : PRes V → Nat
  | .done _ => 0 | .err => 1 | .out => 2 | .bad => 3

theorem eq_err_of_tag {V : Type} {r : PRes V} (h : tag r = 1) : r = .err := by
  cases r <;> first | rfl | cases h

/-- Values are naturals; token 38 is `<`, 13 is `*`, 12 is (truncated) `-`, every other operator `+`; 0 is
falsy. -/
def natSem3 : Sem Nat where
  binop := fun t a b =>
    if t == 38 then some (if a < b then 1 else 0) else if t == 13 then some (a * b)
    else if t == 12 then some (a - b) else some (a + b)
  eqv := fun a b => a == b
  falsy := fun a => a == 0
  neg := fun _ => none
  bnot := fun a => some a
  ofBool := fun b => if b then 1 else 0
  undef := 0

/-- Constant pool: 0 ↦ the function `fact` (its value is 1000), 1 ↦ 0, 2 ↦ 1, 3 ↦ 5. -/
def exEnv : Env Nat :=
  { S := natSem3, cs := fun k => [1000, 0, 1, 5].getD k 0, asFn := fun v => if v == 1000 then some 0 else none }

/-- `func(n) { if n == 0 { return 1 }; r := n * fact(n - 1); return r }` with `fact` in global slot 0, `n` in
local slot 0, `r` in local slot 1. -/
def factBody : Stms :=
  .cons (.ifs (.eq (.loc 0) (.lit 1)) (.cons (.ret (.lit 2)) .nil))
  (.cons (.defl 1 (.bin 13 (.loc 0) (.call (.glob 0) (.cons (.bin 12 (.loc 0) (.lit 2)) .nil))))
  (.cons (.ret (.loc 1)) .nil))

def factDef : FnDef := { nparams := 1, nlocals := 2, body := factBody }

/-- `fact := func …; i := 0; for ; i < 5; i = i + 1 { s = s + fact(i) }` (globals: 0 `fact`, 1 `i`, 2 `s`). -/
def exProg : Prog where
  fns := fun k => if k = 0 then some factDef else none
  main :=
    .cons (.assign 0 (.lit 0))
    (.cons (.assign 1 (.lit 1))
    (.cons (.for3 (.bin 38 (.glob 1) (.lit 3))
       (.cons (.assign 2 (.bin 11 (.glob 2) (.call (.glob 0) (.cons (.glob 1) .nil)))) .nil)
       (.assign 1 (.bin 11 (.glob 1) (.lit 2)))) .nil))

theorem exProg_ok : ProgOk exProg where
  fns := by
    intro k fd h
    have : fd = factDef := by
      unfold exProg at h
      dsimp only at h
      split at h
      · exact (Option.some.inj h).symm
      · cases h
    subst this
    exact ⟨by decide, by decide⟩
  main := by decide

theorem exProg_scoped : Scoped exEnv exProg where
  fns := by
    intro k fd h
    unfold exProg at h
    dsimp only at h
    split at h
    · cases h; decide
    · cases h
  main := by decide
  closed := by
    intro v k h
    simp only [exEnv] at h
    split at h
    · cases h; exact ⟨factDef, rfl⟩
    · cases h

/-- The reference semantics of the example: recursion to depth 5 from a loop; `s = 0! + 1! + 2! + 3! + 4! = 34`,
`i = 5`, `fact` still in slot 0. -/
example :
    (match F3.exec exEnv exProg 60 (fun _ => 0) with
     | .done g' => g' 0 == 1000 && g' 1 == 5 && g' 2 == 34
     | _ => false) = true := by
  decide

/-- … hence (non-vacuity of `program_correct_F3`) the compiled example halts on the machine with those
globals, whatever the stack held. -/
example (stk : Nat → Nat) :
    ∃ g' stk', Runs exEnv (compProg exProg) (St.init stk (fun _ => 0))
        ⟨0, sssize exProg.main, 0, 0, stk', g', false, []⟩ ∧ g' 1 = 5 ∧ g' 2 = 34 := by
  cases h : F3.exec exEnv exProg 60 (fun _ => 0) with
  | done g' =>
    obtain ⟨stk', hr⟩ := (program_correct_F3 exEnv exProg exProg_ok 60 (fun _ => 0) stk).1 g' h
    have hv : (match F3.exec exEnv exProg 60 (fun _ => 0) with
        | .done g' => g' 1 == 5 && g' 2 == 34
        | _ => false) = true := by decide
    rw [h] at hv
    simp only [Bool.and_eq_true, beq_iff_eq] at hv
    exact ⟨g', stk', hr, hv.1, hv.2⟩
  | err => exact absurd (h ▸ (by decide : tag (F3.exec exEnv exProg 60 (fun _ => 0)) = 0)) (by decide)
  | out => exact absurd (h ▸ (by decide : tag (F3.exec exEnv exProg 60 (fun _ => 0)) = 0)) (by decide)
  | bad => exact absurd (h ▸ (by decide : tag (F3.exec exEnv exProg 60 (fun _ => 0)) = 0)) (by decide)

/-- A run-time error inside a function activation (`fact` called with two arguments from the loop) is an error
of the machine. -/
def exProgErr : Prog where
  fns := exProg.fns
  main := .cons (.assign 0 (.lit 0)) (.cons (.expr (.call (.glob 0) (.cons (.lit 2) (.cons (.lit 2) .nil)))) .nil)

example (stk : Nat → Nat) : Fails exEnv (compProg exProgErr) (St.init stk (fun _ => 0)) :=
  (program_correct_F3 exEnv exProgErr ⟨exProg_ok.fns, by decide⟩ 20 (fun _ => 0) stk).2
    (eq_err_of_tag (by decide))

/-! ### self tail calls (frame reuse) -/

/-- Constant pool: 0 ↦ `facc` (value 1000), 1 ↦ 0, 2 ↦ 1, 3 ↦ 6, 4 ↦ `count` (value 2000). -/
def tEnv : Env Nat :=
  { S := natSem3, cs := fun k => [1000, 0, 1, 6, 2000].getD k 0,
    asFn := fun v => if v == 1000 then some 0 else if v == 2000 then some 4 else none }

/-- `facc := func(n, acc) { if n == 0 { return acc }; return facc(n - 1, acc * n) }`: `CALL 2; RET 1`. -/
def faccDef : FnDef :=
  { nparams := 2, nlocals := 2,
    body := .cons (.ifs (.eq (.loc 0) (.lit 1)) (.cons (.ret (.loc 1)) .nil))
      (.cons (.ret (.call (.glob 0) (.cons (.bin 12 (.loc 0) (.lit 2)) (.cons (.bin 13 (.loc 1) (.loc 0)) .nil))))
      .nil) }

/-- `count := func(n) { if n == 0 { return }; g2 = g2 + n; count(n - 1) }`: `CALL 1; POP; RET 0` (the `RET 0`
appended to the body). -/
def countDef : FnDef :=
  { nparams := 1, nlocals := 1,
    body := .cons (.ifs (.eq (.loc 0) (.lit 1)) (.cons .ret0 .nil))
      (.cons (.assign 2 (.bin 11 (.glob 2) (.loc 0)))
      (.cons (.expr (.call (.glob 3) (.cons (.bin 12 (.loc 0) (.lit 2)) .nil))) .nil)) }

/-- `facc = func…; count = func…; g1 = facc(6, 1); count(6)` (globals: 0 `facc`, 1, 2, 3 `count`). -/
def tProg : Prog where
  fns := fun k => if k = 0 then some faccDef else if k = 4 then some countDef else none
  main :=
    .cons (.assign 0 (.lit 0))
    (.cons (.assign 3 (.lit 4))
    (.cons (.assign 1 (.call (.glob 0) (.cons (.lit 3) (.cons (.lit 2) .nil))))
    (.cons (.expr (.call (.glob 3) (.cons (.lit 3) .nil))) .nil)))

theorem tProg_ok : ProgOk tProg where
  fns := by
    intro k fd h
    unfold tProg at h
    dsimp only at h
    split at h
    · cases h; exact ⟨by decide, by decide⟩
    · split at h
      · cases h; exact ⟨by decide, by decide⟩
      · cases h
  main := by decide

theorem tProg_scoped : Scoped tEnv tProg where
  fns := by
    intro k fd h
    unfold tProg at h
    dsimp only at h
    split at h
    · cases h; decide
    · split at h
      · cases h; decide
      · cases h
  main := by decide
  closed := by
    intro v k h
    simp only [tEnv] at h
    split at h
    · cases h; exact ⟨faccDef, rfl⟩
    · split at h
      · cases h; exact ⟨countDef, rfl⟩
      · cases h

/-- Both functions have a `CALL` in tail position (`noTail` fails): the machine reuses their frames. -/
example : noTail (compFn faccDef).code = false ∧ noTail (compFn countDef).code = false := by decide

/-- The reference semantics: `g1 = 6! = 720`, `g2 = 6 + 5 + … + 1 = 21`. -/
example :
    (match F3.exec tEnv tProg 60 (fun _ => 0) with
     | .done g' => g' 1 == 720 && g' 2 == 21
     | _ => false) = true := by
  decide

/-- … and so (by `program_correct_F3`) the machine halts with them, through 6 reused frames each. -/
example (stk : Nat → Nat) :
    ∃ g' stk', Runs tEnv (compProg tProg) (St.init stk (fun _ => 0))
        ⟨0, sssize tProg.main, 0, 0, stk', g', false, []⟩ ∧ g' 1 = 720 ∧ g' 2 = 21 := by
  cases h : F3.exec tEnv tProg 60 (fun _ => 0) with
  | done g' =>
    obtain ⟨stk', hr⟩ := (program_correct_F3 tEnv tProg tProg_ok 60 (fun _ => 0) stk).1 g' h
    have hv : (match F3.exec tEnv tProg 60 (fun _ => 0) with
        | .done g' => g' 1 == 720 && g' 2 == 21
        | _ => false) = true := by decide
    rw [h] at hv
    simp only [Bool.and_eq_true, beq_iff_eq] at hv
    exact ⟨g', stk', hr, hv.1, hv.2⟩
  | err => exact absurd (h ▸ (by decide : tag (F3.exec tEnv tProg 60 (fun _ => 0)) = 0)) (by decide)
  | out => exact absurd (h ▸ (by decide : tag (F3.exec tEnv tProg 60 (fun _ => 0)) = 0)) (by decide)
  | bad => exact absurd (h ▸ (by decide : tag (F3.exec tEnv tProg 60 (fun _ => 0)) = 0)) (by decide)

/-- The machine really takes the frame-reuse branch on this program: the first `CALL` (dispatch 8) enters `facc`
(function index 1) with one caller frame; after the `CALL` in `return facc(n - 1, acc * n)` (dispatch 20) the
machine is at offset 0 of `facc` again, still with ONE caller frame. -/
example :
    (match runN tEnv (compProg tProg) 8 (St.init (fun _ => 0) (fun _ => 0)),
           runN tEnv (compProg tProg) 20 (St.init (fun _ => 0) (fun _ => 0)) with
     | .at s, .at s' => s.fn == 1 && s.ip == 0 && s.callers.length == 1 &&
         s'.fn == 1 && s'.ip == 0 && s'.callers.length == 1
     | _, _ => false) = true := by
  decide

end Tengo.Props.C01F3

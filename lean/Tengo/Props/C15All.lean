import Tengo.Props.C15
import Tengo.Props.C15Heap
/-! C15: the conversion / accessor / API-refinement theorems over tree values (`C15`) and the API refinement
with aliasing and in-place updates over the heap-based host model (`C15Heap`), as one module for the checker. -/

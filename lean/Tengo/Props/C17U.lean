import Tengo.Props.C17
import Tengo.Model.FormatSpecU
import Tengo.Proofs.C17U
/-!
# C17 — `M = G` for `%U` on integers

`G` = `Tengo.Model.FormatSpecU.renderU printable` (`U+` and at least four — at least `precision` — upper-case hex digits of
the operand as an unsigned 64-bit number; with `#`, a blank and the quoted character when the value is a printable code
point; width pads with blanks, `-` on the right, `0` never pads with zeros). `M` = `fmtUnicode` of `Model/Format.lean`.
Printability (`strconv.IsPrint`) is an ORACLE call of the model and a parameter of the spec: the `#` form is proved under
`OracleAgrees` (the oracle answers `IsPrint u` as `printable u`, never true for a surrogate); without `#`, or above
U+10FFFF, nothing is assumed (`M_eq_G_U_plain`).
-/
namespace Tengo.Props.C17U
open Tengo.Model.Format Tengo.Model.FormatSpec Tengo.Model.FormatSpecU Tengo.Proofs.FormatParse Tengo.Props.C17
  Tengo.Proofs.C17U

/-- **`%U` on ints**, with `#`, `-`, `0`, `+`, ` `, width and precision, every int64 (negative values as `uint64`, values
above U+10FFFF as plain hex): `M = G`, given that the oracle's `IsPrint` is the spec's `printable` where `%#U` asks. -/
theorem M_eq_G_U (O : Oracle) (printable : Nat → Bool) (L : Nat) (d : GDir) (buf : Bytes) (v : BitVec 64) (hv : d.verb = 85)
    (hO : OracleAgrees O printable d.sharp v.toNat) (h : buf.length ≤ L) :
    printArg O L (flOf d) buf (.int v) d.verb = write L buf (renderU printable d v.toInt) := by
  simp only [printArg, printInt, hv]
  simp only [show (85 : Nat) ≠ 84 by decide, show (85 : Nat) ≠ 118 by decide, show (85 : Nat) ≠ 100 by decide,
    show (85 : Nat) ≠ 98 by decide, show (85 : Nat) ≠ 111 by decide, show (85 : Nat) ≠ 79 by decide,
    show (85 : Nat) ≠ 120 by decide, show (85 : Nat) ≠ 88 by decide, show (85 : Nat) ≠ 99 by decide,
    show (85 : Nat) ≠ 113 by decide, if_false, if_true, or_self]
  exact fmtUnicode_eq_G O printable L d buf v hO h

/-- `%U` without `#` (and `%#U` of a value above U+10FFFF): no assumption on the oracle, any `printable`. -/
theorem M_eq_G_U_plain (O : Oracle) (printable : Nat → Bool) (L : Nat) (d : GDir) (buf : Bytes) (v : BitVec 64) (hv : d.verb = 85)
    (hs : d.sharp = false ∨ v.toNat > 0x10FFFF) (h : buf.length ≤ L) :
    printArg O L (flOf d) buf (.int v) d.verb = write L buf (renderU printable d v.toInt) :=
  M_eq_G_U O printable L d buf v hv (by
    intro h1 h2
    rcases hs with hs | hs
    · rw [hs] at h1; cases h1
    · omega) h

/-- The string-limit error exactly when the text does not fit, and no other error. -/
theorem U_limit_iff (O : Oracle) (printable : Nat → Bool) (L : Nat) (d : GDir) (buf : Bytes) (v : BitVec 64) (hv : d.verb = 85)
    (hO : OracleAgrees O printable d.sharp v.toNat) (h : buf.length ≤ L) :
    (printArg O L (flOf d) buf (.int v) d.verb = .error .limit ↔ buf.length + (renderU printable d v.toInt).length > L) ∧
    (∀ e, printArg O L (flOf d) buf (.int v) d.verb = .error e → e = .limit) := by
  rw [M_eq_G_U O printable L d buf v hv hO h]
  unfold write
  by_cases hgt : buf.length + (renderU printable d v.toInt).length > L
  · rw [if_pos hgt]
    exact ⟨⟨fun _ => hgt, fun _ => rfl⟩, fun e he => (by cases he; rfl)⟩
  · rw [if_neg hgt]
    exact ⟨⟨fun hc => (by cases hc), fun hc => absurd hc hgt⟩, fun e he => (by cases he)⟩

theorem plainVerb_U (vb : UInt8) (hv : vb.toNat = 85) : PlainVerb vb := by
  unfold PlainVerb
  refine ⟨by omega, ?_, ?_, ?_, ?_, ?_, ?_, ?_, ?_, by omega⟩ <;> (intro hc; rw [hc] at hv; simp at hv)

/-- **`M = G` end to end on single-directive `%U` formats**: `format("%<flags><width><.prec>U", n)` is `G`'s text (or the
string-limit error when it does not fit). Canonical directive (flags in the order `+-# 0`, width 1..10^6, precision ≤ 10^6). -/
theorem format_eq_G_single_U (O : Oracle) (printable : Nat → Bool) (L : Nat) (d : GDir) (vb : UInt8) (hvb : vb.toNat = d.verb)
    (hv : d.verb = 85) (hw : ∀ w, d.width = some w → 1 ≤ w ∧ w ≤ 1000000) (hp : ∀ p, d.prec = some p → p ≤ 1000000)
    (v : BitVec 64) (hO : OracleAgrees O printable d.sharp v.toNat) :
    format O L (37 :: dirText d vb []) [.int v] = write L [] (renderU printable d v.toInt) :=
  format_single_directive O L d vb (.int v) _ [some v.toInt] rfl hvb (plainVerb_U vb (by omega)) (by omega) (by omega) hw hp
    (M_eq_G_U O printable L d [] v hv hO (by simp))

/-! ### Non-vacuity and the documented examples -/

/-- `%U` of 0x78 = `U+0078`; `%#U` = `U+0078 'x'` (printable); `%.6U` = `U+000078`; `%U` of -1 = `U+FFFFFFFFFFFFFFFF`. -/
example : renderU (fun _ => true) { verb := 85 } 0x78 = [85, 43, 48, 48, 55, 56] := by
  simp [renderU, asUnsigned, field, digitsText, digitsRev, digitChar]
example : renderU (fun _ => true) { sharp := true, verb := 85 } 0x78 = [85, 43, 48, 48, 55, 56, 32, 39, 120, 39] := by
  simp [renderU, asUnsigned, field, digitsText, digitsRev, digitChar, encodeRune]
example : renderU (fun _ => false) { sharp := true, prec := some 6, verb := 85 } 0x78 = [85, 43, 48, 48, 48, 48, 55, 56] := by
  simp [renderU, asUnsigned, field, digitsText, digitsRev, digitChar]
example : renderU (fun _ => true) { sharp := true, verb := 85 } (-1) =
    [85, 43, 70, 70, 70, 70, 70, 70, 70, 70, 70, 70, 70, 70, 70, 70, 70, 70] := by
  simp [renderU, asUnsigned, field, digitsText, digitsRev, digitChar]

/-- An oracle that knows `IsPrint('x')` satisfies `OracleAgrees` for `%#U` of 0x78 (non-vacuity of `M_eq_G_U` with `#`). -/
example : OracleAgrees ⟨fun _ _ _ => none, fun _ => none, fun _ => none, fun _ => none, fun _ => none, fun _ => none,
      fun _ => none, fun _ => none, fun u => if u = 0x78 then some true else none⟩ (fun _ => true) true (0x78#64).toNat := by
  intro _ _
  exact ⟨by decide, fun _ => by decide⟩

/-- Non-vacuity of `format_eq_G_single_U`: `%-#09.5U` has a canonical text. -/
example : dirText { minus := true, sharp := true, zero := true, width := some 9, prec := some 5, verb := 85 } 85 [] =
    [45, 35, 48, 57, 46, 53, 85] := by
  simp [dirText, flagText, widthText, precText, decimal, digitsText, digitsRev, digitChar]

end Tengo.Props.C17U

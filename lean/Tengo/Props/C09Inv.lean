import Tengo.Props.C09Eq
import Tengo.Proofs.C09InvHdr
import Tengo.Proofs.C10HeapInvRefs
/-!
C09 — the well-formedness hypotheses of the equality (and copy) theorems are INVARIANTS of the machine.

* `HdrOk h` (every array header's window lies inside its backing array; hypothesis of the negative half of the
  `equalsN` decision theorems) is kept by every one of the sixteen operations of `Heap9.step` in a `Closed` heap
  (`hdrOk_invariant`; `Closed` is itself invariant: `C09Eq.closed_invariant`), and the empty heap has it:
  `hdrOk_of_built`. `Closed` cannot be dropped (`hdrOk_needs_closed`).
* `RefsOk h` (no dangling reference in a backing array, a Go map or an error value) is not inductive alone —
  operations store handles — `Wf h` = `RefsOk h` + "every handle is a scalar or an allocated reference" is:
  `refsOk_invariant`, `refsOk_of_built`.

So the theorems of `Props/C09Eq` hold on every heap BUILT by operation sequences, without a side hypothesis on the
heap: `…_on_built_heaps` below.
-/
namespace Tengo.Props.C09Inv
open Tengo.Model.Heap9 Tengo.Props.C09 Tengo.Proofs.C09Eq Tengo.Proofs.C10Heap Tengo.Props.C09Eq

/-- Every operation keeps `HdrOk` (in a heap whose headers' stores are allocated). -/
theorem hdrOk_invariant {h : Heap} (c : Closed h) (w : HdrOk h) (op : Op) : HdrOk (step h op).1 :=
  Tengo.Proofs.C09Inv.step_hdrOk c w op

/-- … so does every operation sequence. -/
theorem hdrOk_run {h : Heap} (c : Closed h) (w : HdrOk h) (ops : List Op) : HdrOk (run h ops) :=
  Tengo.Proofs.C09Inv.run_hdrOk ops c w

/-- Every heap the operations can build from the empty heap has `HdrOk`. -/
theorem hdrOk_of_built (ops : List Op) : HdrOk (run {} ops) := Tengo.Proofs.C09Inv.hdrOk_of_ops ops

/-- `Closed` cannot be dropped from `hdrOk_invariant`: over a store that is not allocated the in-place `append` writes
nothing and hands out a header longer than the (empty) store. No operation builds such a heap (`closed_of_built`). -/
theorem hdrOk_needs_closed :
    let h : Heap := { objs := [Obj.arr true 0 0 0 3], regs := [.ref 0, .int 1] }
    HdrOk h ∧ ¬ Closed h ∧ ¬ HdrOk (step h (.append 0 [1] 0)).1 := by
  decide

/-- Every operation keeps the heap free of dangling references (stores, error values and handles). -/
theorem refsOk_invariant {h : Heap} (w : Wf h) (op : Op) : Wf (step h op).1 := step_wf w op

/-- … so does every operation sequence. -/
theorem refsOk_run {h : Heap} (w : Wf h) (ops : List Op) : Wf (run h ops) := run_wf ops w

/-- Every heap the operations can build from the empty heap has `RefsOk`, and all its handles are allocated. -/
theorem refsOk_of_built (ops : List Op) :
    RefsOk (run {} ops) ∧ ∀ v ∈ (run {} ops).regs, OldVal (run {} ops) v :=
  ⟨(wf_of_ops ops).refs, (wf_of_ops ops).regs⟩

/-- `RefsOk` alone is not kept: a dangling HANDLE is stored by `mkArr`. -/
theorem refsOk_alone_not_invariant :
    let h : Heap := { regs := [.ref 7] }
    RefsOk h ∧ ¬ RefsOk (step h (.mkArr [0] 1)).1 := by
  refine ⟨refsOk_of_B (by decide), ?_⟩
  intro ro
  have := ro.arrs [Val.ref 7] (by decide) (.ref 7) (by simp) 7 rfl
  revert this
  decide

/-! ### The equality theorems on built heaps -/

/-- A negative answer of `equalsN` is sound on every built heap, for every fuel and every (possibly cyclic) value. -/
theorem equalsN_false_imp_not_eqv_on_built_heaps (ops : List Op) {fuel : Nat} {a b : Val}
    (e : equalsN fuel (run {} ops) a b = some false) : ¬ Eqv (run {} ops) a b :=
  equalsN_false_imp_not_eqv (hdrOk_of_built ops) e

/-- A positive answer too. -/
theorem equalsN_true_imp_eqv_on_built_heaps (ops : List Op) {fuel : Nat} {a b : Val}
    (e : equalsN fuel (run {} ops) a b = some true) : Eqv (run {} ops) a b :=
  equalsN_true_imp_eqv (closed_of_built ops) e

/-- `equalsN` with the fuel of the model decides `Eqv` on all finite values of every built heap. -/
theorem equalsN_decides_eqv_on_built_heaps (ops : List Op) {n m : Nat} {a b : Val}
    (fa : Fin (run {} ops) n a) (fb : Fin (run {} ops) m b) :
    (equalsN (run {} ops).fuel (run {} ops) a b = some true ↔ Eqv (run {} ops) a b) ∧
    (equalsN (run {} ops).fuel (run {} ops) a b = some false ↔ ¬ Eqv (run {} ops) a b) :=
  equalsN_model_fuel_decides_eqv (closed_of_built ops) (hdrOk_of_built ops) fa fb

/-- The `eq` operation decides `Eqv` on all finite values of every built heap. -/
theorem step_eq_decides_eqv_on_built_heaps (ops : List Op) {x y n m : Nat} {a b : Val}
    (hx : (run {} ops).regs[x]? = some a) (hy : (run {} ops).regs[y]? = some b)
    (fa : Fin (run {} ops) n a) (fb : Fin (run {} ops) m b) :
    (step (run {} ops) (.eq x y) = (run {} ops, .bool true) ↔ Eqv (run {} ops) a b) ∧
    (step (run {} ops) (.eq x y) = (run {} ops, .bool false) ↔ ¬ Eqv (run {} ops) a b) :=
  step_eq_decides_eqv_finite (closed_of_built ops) (hdrOk_of_built ops) hx hy fa fb

/-! ### Non-vacuity -/

/-- In-place `append` into spare capacity: the hypotheses of `hdrOk_invariant` hold and the new header uses the window. -/
example :
    let h := run {} [.lit (.int 1), .mkArr [0] 4, .append 1 [0] 0]
    Closed h ∧ HdrOk h ∧ (step h (.append 2 [0, 0] 0)).1.objs.getLast? = some (Obj.arr true 0 0 4 4) := by
  decide

/-- `exEq` of `Props/C09Eq` IS a built heap: the decision theorem applies with no hypothesis about the heap. -/
example := step_eq_decides_eqv_on_built_heaps
  [.lit (.int 1), .mkArr [0] 1, .lit (.int 2), .mkArr [1, 2] 4, .copy 3 [], .lit (.int 3), .mkArr [0] 1, .mkArr [6, 5] 2]
  (x := 3) (y := 7) exEq_regs.1 exEq_regs.2.2 exEq_fin.1 exEq_fin.2.2

example : Wf exEq := refsOk_run wf_empty _

end Tengo.Props.C09Inv

import Tengo.Props.C17Multi
import Tengo.Model.FormatSpecStar
import Tengo.Proofs.C17Star
/-!
C17 — `M = G` for whole format strings with the FULL directive syntax: flags in any order and with
repeats, `*` width and precision (operand taken from the argument list, negative `*` width = `-` flag),
explicit argument indexes `[n]` before a `*` or the verb (and their invalid uses before a literal width or a
precision), precisions with leading zeros or without a number, and the error renderings `%!(BADWIDTH)`,
`%!(BADPREC)`, `%!verb(BADINDEX)`, `%!verb(MISSING)`, `%!(NOVERB)`.

`M` = `Tengo.Model.Format.format`; `G` = `Tengo.Model.FormatSpecStar.renderAllStar`: the meaning of a
list of STRUCTURED items (`SItem`: literal text | directive = flag list, width, precision, verb index,
verb) over an explicit argument cursor, written from Go's fmt documentation ("Explicit argument
indexes", "Format errors"); it never looks at format bytes. The theorem is about the printed form
`showSItems items`: the byte-level parser of `M` (flag loop, fast path, `argNumber`/`parseArgNumber`,
`parsenum`, `intFromArg`, the `afterIndex`/`goodArgNum`/`reordered` registers), the operand selection,
the verb dispatch, the padding, the `MaxStringLen` guard of every write and the surplus check together
produce exactly `G`'s text, as one guarded write.
-/
namespace Tengo.Props.C17Star
open Tengo.Model.Format Tengo.Model.FormatSpec Tengo.Model.FormatSpecMulti Tengo.Model.FormatSpecStar
  Tengo.Proofs.C17Multi Tengo.Proofs.C17Star Tengo.Props.C17

/-- **`M = G` with `*`, `[n]`, flag sets and the BAD* renderings.** For EVERY argument list without
floats and EVERY list of items that is well-formed along the cursor (`SItemsOk`: literal text has no
`%`; flags are flag characters; literal widths 1..10^6, literal precisions and indexes ≤ 10^6; a format
does not end in `.`; the
operand a `*` meets is an int — known finding O27 otherwise; the verb is one of `b d o O x X c s t %`
and documented for the operand it meets; a directive without verb is the last item) and uses every
operand or an index (`AllUsed`: no `%!(EXTRA …)`), `Format` on the printed format string is one guarded
write of `G`'s text: that text if it fits `MaxStringLen`, the string-limit error if not. Any oracle, any
limit. -/
theorem format_eq_G_star (O : Oracle) (L : Nat) (items : List SItem) (args : List Arg)
    (hnf : ∀ a ∈ args, NoFloat a) (hok : SItemsOk args 0 items) (hused : AllUsed items args) :
    format O L (showSItems items) args = write L [] (renderAllStar items args) := by
  obtain ⟨ints, hints⟩ := resolveInts_noFloat O args hnf
  exact format_sitems O L items args ints hints hok hused

/-- The same with float operands in the list (none of them met by a `*` or a verb, by `SItemsOk`), when
the oracle answers `int64(float)` for them (`resolveInts` converts every argument up front). -/
theorem format_eq_G_star_resolved (O : Oracle) (L : Nat) (items : List SItem) (args : List Arg) (ints : List (Option Int))
    (hints : resolveInts O args = some ints) (hok : SItemsOk args 0 items) (hused : AllUsed items args) :
    format O L (showSItems items) args = write L [] (renderAllStar items args) :=
  format_sitems O L items args ints hints hok hused

/-- The text fits: `Format` returns exactly `G`'s text. -/
theorem format_star_ok (O : Oracle) (L : Nat) (items : List SItem) (args : List Arg)
    (hnf : ∀ a ∈ args, NoFloat a) (hok : SItemsOk args 0 items) (hused : AllUsed items args)
    (hfit : (renderAllStar items args).length ≤ L) :
    format O L (showSItems items) args = .ok (renderAllStar items args) := by
  rw [format_eq_G_star O L items args hnf hok hused]
  unfold write
  have : ¬ (([] : Bytes).length + (renderAllStar items args).length > L) := by simp; omega
  rw [if_neg this, List.nil_append]

/-- The string-limit error exactly when `G`'s text does not fit. -/
theorem format_star_limit_iff (O : Oracle) (L : Nat) (items : List SItem) (args : List Arg)
    (hnf : ∀ a ∈ args, NoFloat a) (hok : SItemsOk args 0 items) (hused : AllUsed items args) :
    format O L (showSItems items) args = .error .limit ↔ (renderAllStar items args).length > L := by
  rw [format_eq_G_star O L items args hnf hok hused]
  unfold write
  by_cases h : ([] : Bytes).length + (renderAllStar items args).length > L
  · rw [if_pos h]; simp at h; exact ⟨fun _ => h, fun _ => rfl⟩
  · rw [if_neg h]; simp at h; exact ⟨fun hc => (by cases hc), fun hc => (by omega)⟩

/-- **Surplus operands (the model's text).** When operands are left over and no index was used, `Format`
appends `%!(EXTRA type=value, …)` to `G`'s text — with Tengo's type names and `String()` values (`str a`
is the operand's `String()`), the formatter's own rendering, NOT Go's (cf. O23/O38): a statement about
`M`, outside the `M = G` claim, as `C17Multi.format_surplus_operands_text`. -/
theorem format_star_surplus_text (O : Oracle) (L : Nat) (items : List SItem) (args : List Arg) (str : Arg → Bytes)
    (hnf : ∀ a ∈ args, NoFloat a) (hok : SItemsOk args 0 items)
    (hre : (renderFrom args 0 false items).reordered = false) (hlt : (renderFrom args 0 false items).argNum < args.length)
    (hstr : ∀ a ∈ args.drop (renderFrom args 0 false items).argNum, argString O a = some (str a)) :
    format O L (showSItems items) args =
      write L [] (renderAllStar items args ++ extraSuffix str (args.drop (renderFrom args 0 false items).argNum)) := by
  obtain ⟨ints, hints⟩ := resolveInts_noFloat O args hnf
  exact format_sitems_surplus O L items args ints str hints hok hre hlt hstr

/-- **The parser link**, for reference: on the printed form of a well-formed structured directive,
whatever follows it, `doFormat`'s directive parser computes the spec's `evalHead` (flag set, width and
precision incl. `*` operands, BADWIDTH/BADPREC, cursor, index validity) and consumes exactly its text. -/
theorem parser_recovers_star_directive (ints : List (Option Int)) (args : List Arg)
    (hr : Tengo.Proofs.C17StarParse.IntsRel ints args) (argNum : Nat) (sd : SDir) (rest : Bytes)
    (hok : SDirOk args argNum sd) (hend : sd.verb = none → rest = []) :
    parseDirective ints argNum (bodyText sd ++ rest) = Tengo.Proofs.C17StarDir.expectedS args argNum sd :=
  Tengo.Proofs.C17StarDir.parse_star ints args hr argNum sd rest hok hend

/-! ### Non-vacuity -/

/-- `"w=%0-0[2]*[1]d|%6.03[1]d%.[9]d%[1].2d%[3]2s%.[1]*[3]s%%%[9]x%++*d%.*"`: repeated flags in a non-canonical order, an
indexed `*` width with a negative operand, a precision with a leading zero, a precision without number
followed by an out-of-range index (doc.go's own BADINDEX example), an index followed by a precision and
one followed by a literal width (invalid uses of an index), an indexed `*` precision, indexed
verbs, `%%`, a `*` and a verb without operand, and a format that ends inside a directive. -/
def sample : List SItem :=
  [.lit [119, 61],
   .dir { flags := [48, 45, 48], width := .star (some 2), vidx := some 1, verb := some 100 },
   .lit [124],
   .dir { width := .lit 6, prec := .dot 1 (some 3), vidx := some 1, verb := some 100 },
   .dir { prec := .dot 0 none, vidx := some 9, verb := some 100 },
   .dir { width := .idx 1, prec := .lit 2, verb := some 100 },
   .dir { width := .ilit 3 2, verb := some 115 },
   .dir { prec := .star (some 1), vidx := some 3, verb := some 115 },
   .dir { verb := some 37 },
   .dir { vidx := some 9, verb := some 120 },
   .dir { flags := [43, 43], width := .star none, verb := some 100 },
   .dir { prec := .star none, verb := none }]

/-- The operands `2, -4, "xyz"`. -/
def sampleArgs : List Arg := [.int 2, .int (-4), .str [120, 121, 122]]

example : showSItems sample =
    [119, 61, 37, 48, 45, 48, 91, 50, 93, 42, 91, 49, 93, 100, 124, 37, 54, 46, 48, 51, 91, 49, 93, 100, 37, 46, 91, 57, 93,
     100, 37, 91, 49, 93, 46, 50, 100, 37, 91, 51, 93, 50, 115, 37, 46, 91, 49, 93, 42, 91, 51, 93, 115, 37, 37, 37, 91, 57,
     93, 120, 37, 43, 43, 42, 100, 37, 46, 42] := by
  simp [sample, showSItems, showSItem, bodyText, widthText, precText, numText, idxText, verbText, decimal, digitsText, digitsRev, digitChar]

/-- `G`'s text and final cursor for the sample — what Go's `fmt.Sprintf` prints for it:
`w=2   |   002%!d(BADINDEX)%!d(BADINDEX)%!s(BADINDEX)xy%%!x(BADINDEX)%!(BADWIDTH)%!d(MISSING)%!(BADPREC)%!(NOVERB)`. -/
theorem sample_out : renderFrom sampleArgs 0 false sample =
    { text := [119, 61, 50, 32, 32, 32, 124, 32, 32, 32, 48, 48, 50, 37, 33, 100, 40, 66, 65, 68, 73, 78, 68, 69, 88, 41, 37, 33, 100,
       40, 66, 65, 68, 73, 78, 68, 69, 88, 41, 37, 33, 115, 40, 66, 65, 68, 73, 78, 68, 69, 88, 41, 120, 121, 37, 37, 33, 120,
       40, 66, 65, 68, 73, 78, 68, 69, 88, 41, 37, 33, 40, 66, 65, 68, 87, 73, 68, 84, 72, 41, 37, 33, 100, 40, 77, 73, 83,
       83, 73, 78, 71, 41, 37, 33, 40, 66, 65, 68, 80, 82, 69, 67, 41, 37, 33, 40, 78, 79, 86, 69, 82, 66, 41], argNum := 3, reordered := true } := by
  simp [sample, sampleArgs, renderFrom, dirOut, dirNext, dirReordered, evalHead, widthStage, precStage, useIdx, starVal,
    baseDir, hasFlag, verbOut, ofArg, renderDir, renderInt, renderInt.finish, renderStr, field, firstRunes, decodeRune, runes,
    runeCount, digitsText, digitsRev, digitChar, baseOf, badWidthText, badPrecText, noVerbText, badIndexText, missingText,
    encodeRune]

theorem sample_ok : SItemsOk sampleArgs 0 sample := by
  simp [sample, sampleArgs, SItemsOk, SDirOk, WidthOk, PrecOk, IdxOk, StarArgOk, VerbArgOk, isKnownVerb, isIntVerb, isFlag,
    dirNext, evalHead, widthStage, precStage, useIdx, starVal, baseDir, hasFlag]

theorem sample_used : AllUsed sample sampleArgs := by
  unfold AllUsed; rw [sample_out]; exact Or.inl rfl

theorem sample_nofloat : ∀ a ∈ sampleArgs, NoFloat a := by
  intro a h; simp [sampleArgs] at h; rcases h with h | h | h <;> subst h <;> intro b hb <;> cases hb

theorem sample_text : renderAllStar sample sampleArgs =
    [119, 61, 50, 32, 32, 32, 124, 32, 32, 32, 48, 48, 50, 37, 33, 100, 40, 66, 65, 68, 73, 78, 68, 69, 88, 41, 37, 33, 100,
     40, 66, 65, 68, 73, 78, 68, 69, 88, 41, 37, 33, 115, 40, 66, 65, 68, 73, 78, 68, 69, 88, 41, 120, 121, 37, 37, 33, 120,
     40, 66, 65, 68, 73, 78, 68, 69, 88, 41, 37, 33, 40, 66, 65, 68, 87, 73, 68, 84, 72, 41, 37, 33, 100, 40, 77, 73, 83,
     83, 73, 78, 71, 41, 37, 33, 40, 66, 65, 68, 80, 82, 69, 67, 41, 37, 33, 40, 78, 79, 86, 69, 82, 66, 41] := by
  unfold renderAllStar; rw [sample_out]

/-- The hypotheses of `format_eq_G_star` are met by the sample: under a limit of 113 bytes the whole text
comes out, under 112 the string-limit error (the last write, `%!(NOVERB)`, does not fit). -/
example : format noOracle 113 (showSItems sample) sampleArgs = .ok (renderAllStar sample sampleArgs) :=
  format_star_ok noOracle 113 sample sampleArgs sample_nofloat sample_ok sample_used (by rw [sample_text]; decide)

example : format noOracle 112 (showSItems sample) sampleArgs = .error .limit :=
  (format_star_limit_iff noOracle 112 sample sampleArgs sample_nofloat sample_ok sample_used).mpr (by rw [sample_text]; decide)

/-- Non-vacuity of the parser link: the first directive of the sample, `0-0[2]*[1]d`, at cursor 0. -/
example : SDirOk sampleArgs 0 { flags := [48, 45, 48], width := .star (some 2), vidx := some 1, verb := some 100 } := by
  simp [sampleArgs, SDirOk, WidthOk, PrecOk, IdxOk, StarArgOk, VerbArgOk, isKnownVerb, isIntVerb, isFlag,
    evalHead, widthStage, precStage, useIdx, starVal, baseDir, hasFlag]

/-- Non-vacuity of `format_eq_G_star_resolved` and of the parser link's `IntsRel`: `ToInt64` of the sample's
operands needs no oracle. -/
example : resolveInts noOracle sampleArgs = some [some 2, some (-4), none] := by
  simp [sampleArgs, resolveInts, toInt64, parseInt, parseDigits]

example : Tengo.Proofs.C17StarParse.IntsRel [some 2, some (-4), none] sampleArgs :=
  intsRel_of_resolve noOracle sampleArgs _ (by simp [sampleArgs, resolveInts, toInt64, parseInt, parseDigits])

/-- Non-vacuity of `format_star_surplus_text`: `"%+d"` on `(5, true)` leaves a boolean over:
`+5%!(EXTRA bool=true)`. -/
def surplusItems : List SItem := [.dir { flags := [43], verb := some 100 }]
def surplusArgs : List Arg := [.int 5, .bool true]

theorem surplus_out : renderFrom surplusArgs 0 false surplusItems = { text := [43, 53], argNum := 1, reordered := false } := by
  simp [surplusItems, surplusArgs, renderFrom, dirOut, dirNext, dirReordered, evalHead, widthStage, precStage, useIdx,
    baseDir, hasFlag, verbOut, ofArg, renderDir, renderInt, renderInt.finish, field, digitsText, digitsRev, digitChar, baseOf]

example : format noOracle 100 (showSItems surplusItems) surplusArgs =
    .ok [43, 53, 37, 33, 40, 69, 88, 84, 82, 65, 32, 98, 111, 111, 108, 61, 116, 114, 117, 101, 41] := by
  have hok : SItemsOk surplusArgs 0 surplusItems := by
    simp [surplusItems, surplusArgs, SItemsOk, SDirOk, WidthOk, PrecOk, IdxOk, VerbArgOk, isKnownVerb, isIntVerb, isFlag,
      evalHead, widthStage, precStage, useIdx, baseDir, hasFlag]
  have hnf : ∀ a ∈ surplusArgs, NoFloat a := by
    intro a h; simp [surplusArgs] at h; rcases h with h | h <;> subst h <;> intro b hb <;> cases hb
  rw [format_star_surplus_text noOracle 100 surplusItems surplusArgs (fun a => (argString noOracle a).getD []) hnf hok
    (by rw [surplus_out]) (by rw [surplus_out]; decide)
    (by rw [surplus_out]; intro a h; simp [surplusArgs] at h; subst h; simp [argString])]
  unfold renderAllStar
  rw [surplus_out]
  simp [surplusArgs, extraSuffix, extrasText, typeName, argString, boolText, write]

end Tengo.Props.C17Star

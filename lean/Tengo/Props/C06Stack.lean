import Tengo.Proofs.C06StackExact
import Tengo.Props.VM
/-!
# C06 — operand-stack and frame capacity of the whole-VM model (`Tengo.Model.VM.run`)

"Recursion deeper than the VM's frame or operand-stack capacity ends in an error (the stack-overflow
error when the frame limit is what runs out), never in unbounded growth."

All statements hold for EVERY code object (no verifier hypothesis), heap, fuel and budget.

* `sp_bounded` — in every configuration a run started from `initCore` reaches: the stack array has its
  initial size `StackSize`; every base pointer is `≤ StackSize`; `sp ≤ StackSize`, or (only directly
  after OpCall, which sets `sp = bp + NumLocals` without a test, as vm.go does) `sp ≤ bp + NumLocals`
  of the running function; hence `sp ≤ StackSize + maxLocals code`. `sp ≤ StackSize` alone is NOT an
  invariant of vm.go nor of the model: `sp_above_array_reachable`.
* `stack_exhaustion_is_error` — a dispatch of a pure push (NULL, TRUE, FALSE, CONST, GETG, GETBI, GETFP
  with a valid operand) at `sp ≥ StackSize` ends the run with
  `Outcome.failed (Err.gopanic "runtime error: index out of range [sp] with length 2048")` at that very
  configuration — not a `fault`, not a larger stack. (For the instructions that compute before they
  push, the push itself is the same `push`: `push_at_full_stack_is_panic`; `sp_bounded` covers them.)
* `frame_exhaustion_is_stack_overflow` — a call (right argument count, no spread, not variadic) of a
  compiled function that is not a self tail call at `framesIndex = MaxFrames` ends the run with
  `Outcome.failed (Err.runtime "stack overflow")` at that very configuration (frame list unchanged);
  `frame_exhaustion_never_proceeds` — whatever the arguments, such a call ends the run with an error
  at that configuration.
* `no_unbounded_growth` — for every fuel: `framesIndex ≤ MaxFrames`, the stack array has `StackSize`
  slots and `sp ≤ StackSize + maxLocals code`.
-/
namespace Tengo.Props.C06Stack
open Tengo.Model.VM Tengo.Model.Spec Tengo.Model.Opcodes

/-- **(1) The operand stack is bounded** in every configuration a run reaches (take the fuel to be the
number of dispatches up to that configuration; `fuel_is_a_bound`). -/
theorem sp_bounded (code : Code) (keep fuel : Nat) (allocs : Int) (globals : Array Value) (fobjs : Array FnObj)
    (g : GSt) (heap : St) :
    let c := (run code keep fuel allocs ⟨initCore globals fobjs, g, heap⟩ {}).1.cfg.core
    c.regs.stack.size = stackSize ∧
    (c.regs.sp ≤ stackSize ∨ ∃ f, code.fn c.cur.fnIdx = some f ∧ c.regs.sp ≤ c.cur.bp + f.numLocals) ∧
    c.cur.bp ≤ stackSize ∧ (∀ fr ∈ c.callers, fr.bp ≤ stackSize) ∧
    c.regs.sp ≤ stackSize + code.maxLocals := by
  have h := run_sinv code keep fuel allocs ⟨initCore globals fobjs, g, heap⟩ {} (SInv_init code globals fobjs)
  exact ⟨h.size, h.sp, h.bp, h.bps, h.sp_le⟩

/-- The same for one dispatch from ANY configuration that satisfies the invariant: the invariant is
inductive (this is what a lock-step comparison with vm.go exercises at every instruction). -/
theorem sp_bounded_step (code : Code) (c : Core) (h : SInv code c) :
    PostX (exec code c) (fun o => match o with | .next c' _ => SInv code c' | .halt c' => SInv code c') := by
  refine PostX_mono (exec_sinv code c h) ?_
  intro o ho
  cases o <;> exact ho

/-- `maxLocals` bounds `NumLocals` of every function of the code object. -/
theorem maxLocals_spec (code : Code) (idx : Nat) (f : Fn) (h : code.fn idx = some f) :
    f.numLocals ≤ code.maxLocals := Code.numLocals_le_max code idx f h

/-- The push primitive at a full stack is the Go index panic — in every instruction that pushes. -/
theorem push_at_full_stack_is_panic (r : Regs) (v : Value) (h : stackSize ≤ r.sp) (g : GSt) (s : St) :
    ((push r v).run g).run s =
      .error (Err.gopanic s!"runtime error: index out of range [{r.sp}] with length {stackSize}") :=
  push_full_run r v h g s

/-- **(2) Operand-stack exhaustion is an error.** If the instruction about to be dispatched is a pure push
(`pushOf … = some v`) and `sp ≥ StackSize`, the run ends right there with the recovered Go panic. -/
theorem stack_exhaustion_is_error (code : Code) (keep fuel : Nat) (allocs : Int) (cfg : Cfg) (log : Log)
    (f : Fn) (v : Value)
    (hf : code.fn cfg.core.cur.fnIdx = some f)
    (hip : 0 ≤ cfg.core.cur.ip + 1 ∧ (cfg.core.cur.ip + 1).toNat < f.insts.size)
    (hpush : pushOf code cfg.core.cur (fetch f (cfg.core.cur.ip + 1)).a0 (fetch f (cfg.core.cur.ip + 1)).op
      cfg.core.regs = some v)
    (hfull : stackSize ≤ cfg.core.regs.sp) :
    run code keep (fuel + 1) allocs cfg log =
      (.failed (Err.gopanic s!"runtime error: index out of range [{cfg.core.regs.sp}] with length {stackSize}") cfg,
       log.tick keep (observe cfg.core allocs)) := by
  rw [run_succ, exec_push_full code cfg.core f v cfg.gst cfg.heap hf hip hpush hfull]
  rfl

/-- **(3) Frame exhaustion is the stack-overflow error** (plain call: right argument count, no spread,
callee not variadic). The outcome carries the configuration of the call itself: no frame was pushed. -/
theorem frame_exhaustion_is_stack_overflow (code : Code) (keep fuel : Nat) (allocs : Int) (cfg : Cfg) (log : Log)
    (f : Fn) (cr k : Nat) (free : List Nat) (cf : Fn) (ref : Nat)
    (hf : code.fn cfg.core.cur.fnIdx = some f)
    (hip : 0 ≤ cfg.core.cur.ip + 1 ∧ (cfg.core.cur.ip + 1).toNat < f.insts.size)
    (hop : byteAt f (cfg.core.cur.ip + 1) = opCall)
    (hspread : (fetch f (cfg.core.cur.ip + 1)).a1 = 0)
    (hneed : (fetch f (cfg.core.cur.ip + 1)).a0 + 1 ≤ cfg.core.regs.sp)
    (hcallee : calleeOf f cfg.core = .cfn cr)
    (hfo : cfg.core.regs.fobjs[cr]? = some (k, free)) (hk : code.consts[k]? = some (.fn cf ref))
    (hva : cf.varargs = false) (hn : (fetch f (cfg.core.cur.ip + 1)).a0 = cf.numParams)
    (hnt : isSelfTail f cfg.core.cur cr (cfg.core.cur.ip + 1 + 2) = false)
    (hfull : cfg.core.depth = maxFrames) :
    run code keep (fuel + 1) allocs cfg log =
      (.failed (Err.runtime "stack overflow") cfg, log.tick keep (observe cfg.core allocs)) := by
  rw [run_succ, exec_call_full_exact code cfg.core f cr k free cf ref cfg.gst cfg.heap hf hip hop hspread hneed hcallee
    hfo hk hva hn hnt (by unfold Core.depth at hfull; omega)]

/-- **(3′) … and whatever the arguments** (spread, variadic, wrong count): a non-tail call of a compiled
function at `framesIndex = MaxFrames` ends the run with an error at the configuration of the call —
never a fault, never another dispatch, never another frame. -/
theorem frame_exhaustion_never_proceeds (code : Code) (keep fuel : Nat) (allocs : Int) (cfg : Cfg) (log : Log)
    (f : Fn) (cr : Nat)
    (hf : code.fn cfg.core.cur.fnIdx = some f)
    (hip : 0 ≤ cfg.core.cur.ip + 1 ∧ (cfg.core.cur.ip + 1).toNat < f.insts.size)
    (hop : byteAt f (cfg.core.cur.ip + 1) = opCall)
    (hneed : (fetch f (cfg.core.cur.ip + 1)).a0 + 1 ≤ cfg.core.regs.sp)
    (hcallee : calleeOf f cfg.core = .cfn cr)
    (hnt : isSelfTail f cfg.core.cur cr (cfg.core.cur.ip + 1 + 2) = false)
    (hfull : cfg.core.depth = maxFrames) :
    ∃ e, run code keep (fuel + 1) allocs cfg log = (.failed e cfg, log.tick keep (observe cfg.core allocs)) := by
  have h := exec_call_full code cfg.core f cr hf hop hip hcallee hneed hnt (by unfold Core.depth at hfull; omega)
  rw [run_succ]
  split
  · rename_i e _; exact ⟨e, rfl⟩
  all_goals
    rename_i heq
    obtain ⟨_, _, hfalse⟩ := h _ _ _ _ _ heq
    exact hfalse.elim

/-- **(4) No unbounded growth**: for every fuel, the frame list and the operand stack of the configuration
reached are bounded by constants of the VM and of the code object. -/
theorem no_unbounded_growth (code : Code) (keep fuel : Nat) (allocs : Int) (globals : Array Value) (fobjs : Array FnObj)
    (g : GSt) (heap : St) :
    let c := (run code keep fuel allocs ⟨initCore globals fobjs, g, heap⟩ {}).1.cfg.core
    c.callers.length + 1 ≤ maxFrames ∧ c.regs.stack.size = stackSize ∧ c.regs.sp ≤ stackSize + code.maxLocals := by
  have h := sp_bounded code keep fuel allocs globals fobjs g heap
  have d := Tengo.Props.VM.depth_bounded code keep fuel allocs globals fobjs g heap
  exact ⟨d, h.1, h.2.2.2.2⟩

/-- **`sp ≤ StackSize` alone is not an invariant** (of vm.go, nor of the model): from a configuration that
satisfies the invariant with `sp = StackSize`, a call of a function with 3 locals continues with
`sp = StackSize + 3` — OpCall sets `sp = bp + NumLocals` without a test. What IS bounded is `sp_bounded`. -/
theorem sp_above_array_reachable :
    ∃ (code : Code) (c c' : Core) (g : GSt) (s : St), SInv code c ∧ c.regs.sp ≤ stackSize ∧
      (((exec code c).run).run g).run s = .ok ((.ok (.next c' false), g), s) ∧
      c'.regs.sp = stackSize + 3 ∧ c'.regs.sp ≤ stackSize + code.maxLocals := by
  refine ⟨witCode, witCore, _, {}, {}, witCore_sinv, Nat.le_refl _,
    exec_call_push_exact witCode witCore witCode.main 0 0 [] witFn 0 {} {} rfl (by decide) (by decide) (by decide)
      (by decide) wit_callee rfl rfl rfl (by decide) (by decide) (by decide), rfl, ?_⟩
  show stackSize - 0 + 3 ≤ stackSize + witCode.maxLocals
  have : witCode.maxLocals = 3 := by decide
  omega

/-! ## non-vacuity -/

/-- main = `NULL; SUSPEND` -/
def pushCode : Code := { main := { insts := #[13, 41], numLocals := 0, numParams := 0, varargs := false }, consts := #[] }
def fullCore : Core :=
  { regs := { stack := Array.replicate stackSize .undef, sp := stackSize, globals := #[], fobjs := #[] },
    cur := { fnIdx := 0, fnRef := none, ip := -1, bp := 0, free := [] }, callers := [] }

example : pushCode.fn fullCore.cur.fnIdx = some pushCode.main := rfl
example : 0 ≤ fullCore.cur.ip + 1 ∧ (fullCore.cur.ip + 1).toNat < pushCode.main.insts.size := by decide
example : pushOf pushCode fullCore.cur (fetch pushCode.main (fullCore.cur.ip + 1)).a0
    (fetch pushCode.main (fullCore.cur.ip + 1)).op fullCore.regs = some .undef := by
  unfold pushOf; rw [if_pos (by decide)]
example : stackSize ≤ fullCore.regs.sp := Nat.le_refl _
example : SInv pushCode fullCore :=
  ⟨by simp [fullCore], Or.inl (Nat.le_refl _), by simp [fullCore, stackSize], by simp [fullCore]⟩

/-- main = `CALL 0 0; SUSPEND`, constant 0 = a function without parameters, `MaxFrames - 1` callers. -/
def callFn : Fn := { insts := #[21, 0], numLocals := 3, numParams := 0, varargs := false }
def callCode : Code := { main := { insts := #[20, 0, 0, 41], numLocals := 0, numParams := 0, varargs := false },
                         consts := #[.fn callFn 0] }
def deepCore : Core :=
  { regs := { stack := #[.cfn 0], sp := 1, globals := #[], fobjs := #[(0, [])] },
    cur := { fnIdx := 0, fnRef := none, ip := -1, bp := 0, free := [] },
    callers := List.replicate 1023 { fnIdx := 0, fnRef := none, ip := 3, bp := 0, free := [] } }

example : callCode.fn deepCore.cur.fnIdx = some callCode.main := rfl
example : 0 ≤ deepCore.cur.ip + 1 ∧ (deepCore.cur.ip + 1).toNat < callCode.main.insts.size := by decide
example : byteAt callCode.main (deepCore.cur.ip + 1) = opCall := by decide
example : (fetch callCode.main (deepCore.cur.ip + 1)).a1 = 0 := by decide
example : (fetch callCode.main (deepCore.cur.ip + 1)).a0 + 1 ≤ deepCore.regs.sp := by decide
example : calleeOf callCode.main deepCore = .cfn 0 := by rfl
example : deepCore.regs.fobjs[0]? = some (0, []) := rfl
example : callCode.consts[0]? = some (.fn callFn 0) := rfl
example : (fetch callCode.main (deepCore.cur.ip + 1)).a0 = callFn.numParams := by decide
example : isSelfTail callCode.main deepCore.cur 0 (deepCore.cur.ip + 1 + 2) = false := by decide
example : deepCore.depth = maxFrames := by
  show (List.replicate 1023 _).length + 1 = 1024
  rw [List.length_replicate]

end Tengo.Props.C06Stack

import Tengo.Props.C17
import Tengo.Model.FormatSpecMulti
import Tengo.Proofs.C17Multi
/-!
C17 — `M = G` for whole format strings: any number of canonical directives, `%%` and literal text.

`M` = `Tengo.Model.Format.format` (model of /repo/formatter.go, `Format`/`doFormat` with the directive
parser, operand selection, verb dispatch, padding, the `MaxStringLen` guard of every buffer write and
the surplus check); `G` = `Tengo.Model.FormatSpecMulti.renderAll` (the literal bytes and the per-directive
renderings of `Tengo.Model.FormatSpec`, concatenated).

The early exit: the real code stops at the first buffer write that would exceed the limit. Every
iteration of the loop is a guarded write of the item's rendering onto a buffer that is within the
limit (the loop invariant of `Proofs/C17Multi.loop_items`), guarded writes compose
(`write L buf a >>= write L · c = write L buf (a ++ c)`), and the only error a write raises is the
string-limit error; so stopping early is unobservable: the result is `write L [] (whole text)`, i.e.
the text if it fits and the string-limit error if it does not.
-/
namespace Tengo.Props.C17Multi
open Tengo.Model.Format Tengo.Model.FormatSpec Tengo.Model.FormatSpecMulti Tengo.Proofs.C17Multi Tengo.Props.C17

theorem compat_exact (items : List GItem) : Compat (operands items) 0 items := by
  intro j a h _
  simpa using h

/-- **`M = G` on whole format strings.** For EVERY list of items — literal text without `%`, canonical
directives `%[+][-][#][ ][0][width][.prec]verb` with `%b %d %o %O %x %X %c` on any int64, `%s` on any
string or byte slice, `%t` on a boolean, and `%%`, in any number and order — `Format` applied to the
printed format string and the items' operands is one guarded write of `G`'s text: the concatenation of
the literal bytes and `G`'s rendering of every directive, or the string-limit error when that text does
not fit `MaxStringLen` (see `format_multi_ok` / `format_multi_limit_iff`). Any oracle (no external
function is consulted on this fragment), any limit `L`. -/
theorem format_eq_G_multi (O : Oracle) (L : Nat) (items : List GItem) (hok : ItemsOk items) :
    format O L (showItems items) (operands items) = write L [] (renderAll items) := by
  obtain ⟨ints, hints⟩ := resolveInts_noFloat O (operands items) (operands_noFloat items)
  rw [format_items O L items (operands items) ints hok (compat_exact items) hints]
  rw [renderAllN_ge items _ (Nat.le_refl _)]
  simp only [Nat.lt_irrefl, if_false]
  cases write L [] (renderAll items) <;> rfl

/-- The text fits: `Format` returns exactly `G`'s text. -/
theorem format_multi_ok (O : Oracle) (L : Nat) (items : List GItem) (hok : ItemsOk items)
    (hfit : (renderAll items).length ≤ L) :
    format O L (showItems items) (operands items) = .ok (renderAll items) := by
  rw [format_eq_G_multi O L items hok]
  unfold write
  have : ¬ (([] : Bytes).length + (renderAll items).length > L) := by simp; omega
  rw [if_neg this, List.nil_append]

/-- The string-limit error exactly when `G`'s text does not fit — wherever in the middle of the
format string the real code gives up. -/
theorem format_multi_limit_iff (O : Oracle) (L : Nat) (items : List GItem) (hok : ItemsOk items) :
    format O L (showItems items) (operands items) = .error .limit ↔ (renderAll items).length > L := by
  rw [format_eq_G_multi O L items hok]
  unfold write
  by_cases h : ([] : Bytes).length + (renderAll items).length > L
  · rw [if_pos h]; simp at h; exact ⟨fun _ => h, fun _ => rfl⟩
  · rw [if_neg h]; simp at h; exact ⟨fun hc => (by cases hc), fun hc => (by omega)⟩

/-- **Too few operands.** When only the first `n` operands are supplied, the directives that still
find one print it as above and every later directive prints `%!verb(MISSING)` (what Go's fmt
documents and prints: "Too few arguments: %!verb(MISSING)"); literal text and `%%` are unaffected; the
limit applies to the whole text as before. (This is `tengo.Format`; the `format` builtin called with
the format string alone returns it verbatim instead — known finding O28, not this function.) -/
theorem format_missing_operands (O : Oracle) (L : Nat) (items : List GItem) (n : Nat) (hok : ItemsOk items) :
    format O L (showItems items) ((operands items).take n) = write L [] (renderAllN n items) := by
  have hnf : ∀ a ∈ (operands items).take n, NoFloat a :=
    fun a ha => operands_noFloat items a (List.mem_of_mem_take ha)
  obtain ⟨ints, hints⟩ := resolveInts_noFloat O _ hnf
  have hc : Compat ((operands items).take n) 0 items := by
    intro j a h hj
    simp only [Nat.zero_add, List.length_take] at hj ⊢
    rw [List.getElem?_take_of_lt (by omega)]
    exact h
  rw [format_items O L items _ ints hok hc hints]
  have hnot : ¬ ((operands items).length < ((operands items).take n).length) := by
    simp only [List.length_take]; omega
  simp only [hnot, if_false]
  simp only [List.length_take, renderAllN_min]
  cases write L [] (renderAllN n items) <;> rfl

/-- **Too many operands (the model's text).** With surplus operands `extra` (none of them a float),
`Format` appends `%!(EXTRA type=value, …)` to `G`'s text — with Tengo's type names and `String()`
values (`str a` is the operand's `String()`, for strings an answer of `strconv.Quote`), which is the
formatter's own rendering, NOT Go's (`%!(EXTRA int64=1)` vs `%!(EXTRA int=1)`; cf. O23/O38): this is
a statement about `M`, outside the `M = G` claim (Go's surplus text is excluded from the property). -/
theorem format_surplus_operands_text (O : Oracle) (L : Nat) (items : List GItem) (extra : List Arg) (str : Arg → Bytes)
    (hok : ItemsOk items) (hne : extra ≠ []) (hnf : ∀ a ∈ extra, NoFloat a)
    (hstr : ∀ a ∈ extra, argString O a = some (str a)) :
    format O L (showItems items) (operands items ++ extra) =
      write L [] (renderAll items ++ extraSuffix str extra) := by
  have hnf' : ∀ a ∈ operands items ++ extra, NoFloat a := by
    intro a ha
    rcases List.mem_append.mp ha with h | h
    · exact operands_noFloat items a h
    · exact hnf a h
  obtain ⟨ints, hints⟩ := resolveInts_noFloat O _ hnf'
  have hc : Compat (operands items ++ extra) 0 items := by
    intro j a h _
    simp only [Nat.zero_add]
    have hj : j < (operands items).length := by
      rcases Nat.lt_or_ge j (operands items).length with h' | h'
      · exact h'
      · rw [List.getElem?_eq_none h'] at h; cases h
    rw [List.getElem?_append_left hj]
    exact h
  have hpos : 0 < extra.length := List.length_pos_iff.mpr hne
  rw [format_items O L items _ ints hok hc hints]
  rw [renderAllN_ge items _ (by simp)]
  have hlt : (operands items).length < (operands items ++ extra).length := by simp; omega
  simp only [hlt, if_true, List.drop_left]
  apply write_then
  intro b hb
  have hbl := (write_ok L [] _ b hb).2
  unfold extraSuffix
  rw [List.append_assoc]
  apply write_then
  intro b1 hb1
  rw [extras_eq O L str extra hstr true b1 (write_ok L b _ b1 hb1).2]
  exact write_write L b1 _ _

/-! ### Non-vacuity -/

/-- `"a=%s%%%t|%c"` with a string, a boolean and an int. -/
def sample : List GItem :=
  [.lit [97, 61], .dir { verb := 115 } (.str [120, 121]), .pct, .dir { verb := 116 } (.bool true), .lit [124],
   .dir { verb := 99 } (.int 65)]

theorem sample_ok : ItemsOk sample := by
  intro it h
  simp only [sample, List.mem_cons, List.not_mem_nil, or_false] at h
  rcases h with h | h | h | h | h | h <;> subst h <;> simp [ItemOk, DirOk, isIntVerb]

example : showItems sample = [97, 61, 37, 115, 37, 37, 37, 116, 124, 37, 99] := by
  simp [sample, showItems, showItem, showDir, encodeRune]

theorem sample_text : renderAll sample = [97, 61, 120, 121, 37, 116, 114, 117, 101, 124, 65] := by
  simp [sample, renderAll, renderItem, renderDir, renderStr, renderBool, renderChar, field, encodeRune]

/-- The hypotheses of `format_eq_G_multi` are met by a format with three directives, `%%` and two
literal runs; under a limit of 11 bytes the whole text comes out, under 10 (the text is cut short in
the last directive, after ten bytes were written) the string-limit error. -/
example : format noOracle 11 (showItems sample) (operands sample) = .ok [97, 61, 120, 121, 37, 116, 114, 117, 101, 124, 65] := by
  rw [format_multi_ok noOracle 11 sample sample_ok (by rw [sample_text]; decide), sample_text]

example : format noOracle 10 (showItems sample) (operands sample) = .error .limit :=
  (format_multi_limit_iff noOracle 10 sample sample_ok).mpr (by rw [sample_text]; decide)

/-- Missing operands: with one operand the `%t` and `%c` print `%!t(MISSING)` and `%!c(MISSING)`. -/
example : renderAllN 1 sample =
    [97, 61, 120, 121, 37, 37, 33, 116, 40, 77, 73, 83, 83, 73, 78, 71, 41, 124, 37, 33, 99, 40, 77, 73, 83, 83, 73, 78, 71, 41] := by
  simp [sample, renderAllN, renderDir, renderStr, field, missingText, encodeRune]

/-- Surplus operands: a boolean and a byte slice left over give `%!(EXTRA bool=true, bytes=A)`. -/
example : extraSuffix (fun a => (argString noOracle a).getD []) [.bool true, .bytes [65]] =
    [37, 33, 40, 69, 88, 84, 82, 65, 32, 98, 111, 111, 108, 61, 116, 114, 117, 101, 44, 32, 98, 121, 116, 101, 115, 61, 65, 41] := by
  simp [extraSuffix, extrasText, typeName, argString, boolText]

example : ([Arg.bool true, Arg.bytes [65]] ≠ []) ∧ (∀ a ∈ [Arg.bool true, Arg.bytes [65]], NoFloat a) ∧
    (∀ a ∈ [Arg.bool true, Arg.bytes [65]], argString noOracle a = some ((fun a => (argString noOracle a).getD []) a)) := by
  refine ⟨by simp, ?_, ?_⟩
  · intro a h; simp at h; rcases h with h | h <;> subst h <;> intro b hb <;> cases hb
  · intro a h; simp at h; rcases h with h | h <;> subst h <;> simp [argString]

end Tengo.Props.C17Multi

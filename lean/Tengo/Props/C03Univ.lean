import Tengo.Props.C03VM
import Tengo.Proofs.C03Reloc
/-!
C03 — the universal link: **the optimizer model's output always passes the whole-VM relocation check
against the unoptimized twin**, hence, for EVERY program of the harness's shape (`TwinCode`), the twin
and the optimized program run alike on the whole-VM model (`Tengo.Model.VM.run`) — for every fuel,
allocation budget, globals, function objects and heap.

Until now `checkReloc` was only evaluated by the driver on the programs of a run; these theorems say
what it answers on the model's output for all of them. Proofs: `Tengo/Proofs/C03Reloc.lean`.

Hypotheses that are not consequences of `decode`:
* `raw.length < 2^32` per function — jump operands are encoded in 4 bytes; a re-targeted operand is a
  position `≤ raw.length`, so it survives `encode`. True of all code the compiler can emit.
* `WFJumps` per function (jump targets are instruction positions or the end of the input) — that is
  what makes `optimizeFunc` not panic (`opt_total`); not needed once `opt … = .ok r` is given.
* main: its jumps and fall-throughs stay inside it (`ClosedJumps`, `ClosedFall`) and it is not empty.
-/
set_option linter.unusedSectionVars false
set_option linter.unusedVariables false
namespace Tengo.Props.C03Univ
open Tengo.Model Tengo.Model.Spec Tengo.Model.Opcodes Tengo.Model.Optimizer Tengo.Model.VM
open Tengo.Proofs.C03 Tengo.Proofs.C03Reloc Tengo.Props.C03Sim Tengo.Props.C03VM

/-! ## 1. Encoding round trip -/

/-- **decode_encode.** For instruction lists laid out from 0 whose opcodes are known and whose operands
fit their widths, decoding the encoding gives the list back. -/
theorem decode_encode (is : List Instr) (hl : Layout 0 is) (hw : WFCode is) : decode (encode is) = some is :=
  Tengo.Proofs.C03Reloc.decode_encode is hl hw

/-- The optimizer's output bytes decode to the optimizer's output instructions. -/
theorem opt_out_decodes {raw : Model.Bytes} {is : List Instr} {sm : List (Nat × Nat)} {rp : Nat} {r : Result}
    (hd : decode raw = some is) (hlen : raw.length < 2 ^ 32) (h : opt raw sm rp = .ok r) :
    decode r.bytes = some r.insts := by
  have h' : optInstrs is raw.length sm rp = .ok r := by simpa [opt, hd] using h
  exact out_decode hd hlen h'

/-- The twin (input + `RET 0`) decodes to the input's instructions and one RETURN at the old end. -/
theorem twin_decodes {raw : Model.Bytes} {is : List Instr} (hd : decode raw = some is) :
    decode (twinBytes raw) = some (is ++ [⟨raw.length, opReturn, [0]⟩]) := decode_append_ret hd

/-! ## 2. One function -/

/-- **opt_fn_reloc.** Whatever the optimizer model returns for a decodable input shorter than `2^32`
bytes passes the relocation check against the twin, with table `posMap (kept is)` + end entry. -/
theorem opt_fn_reloc (f : Fn) (raw : Model.Bytes) (is : List Instr) (sm : List (Nat × Nat)) (rp : Nat) (r : Result)
    (hd : decode raw = some is) (hlen : raw.length < 2 ^ 32) (h : opt raw sm rp = .ok r) :
    checkFnReloc { f with insts := (twinBytes raw).toArray } r.bytes.toArray (fnTable raw is r) = true :=
  Tengo.Proofs.C03Reloc.opt_fn_reloc f raw is sm rp r hd hlen h

/-- With well-formed jumps the optimizer returns something, and it passes. -/
theorem opt_fn_reloc_total (f : Fn) (raw : Model.Bytes) (is : List Instr) (sm : List (Nat × Nat)) (rp : Nat)
    (hd : decode raw = some is) (hw : WFJumps is raw.length) (hlen : raw.length < 2 ^ 32) :
    ∃ r, opt raw sm rp = .ok r ∧
      checkFnReloc { f with insts := (twinBytes raw).toArray } r.bytes.toArray (fnTable raw is r) = true :=
  Tengo.Proofs.C03Reloc.opt_fn_reloc_total f raw is sm rp hd hw hlen

/-- **id_fn_reloc.** An untouched function passes with the identity table. -/
theorem id_fn_reloc (f : Fn) (is : List Instr) (hd : decode f.insts.toList = some is)
    (hj : ClosedJumps is) (hf : ClosedFall is) (hne : is ≠ []) :
    checkFnReloc f f.insts (idTable is) = true :=
  Tengo.Proofs.C03Reloc.id_fn_reloc f is hd hj hf hne

/-! ### non-vacuity: the running example of `C03Sim` (`JMPF →end; RET 1; NULL; JMP →0`) -/

def exRaw : Model.Bytes := [9, 0, 0, 0, 13, 21, 1, 13, 12, 0, 0, 0, 0]
def exFn : Fn := { insts := #[], numLocals := 0, numParams := 0, varargs := false }

theorem exRaw_decodes : decode exRaw = some ex := by decide
theorem exRaw_opt : opt exRaw exSm 99 = .ok exOut := by
  have : optInstrs ex exRaw.length exSm 99 = .ok exOut := ex_ok
  simp [opt, exRaw_decodes, this]

/-- The hypotheses of `opt_fn_reloc` are met by the running example … -/
example : checkFnReloc { exFn with insts := (twinBytes exRaw).toArray } exOut.bytes.toArray
    (fnTable exRaw ex exOut) = true :=
  opt_fn_reloc exFn exRaw ex exSm 99 exOut exRaw_decodes (by decide) exRaw_opt
/-- … whose table moves nothing but the end: `0 ↦ 0, 5 ↦ 5, 13 ↦ 7` (NULL at 7 and JMP at 8 are dropped). -/
example : fnTable exRaw ex exOut = [(0, 0), (5, 5), (13, 7)] := by decide
/-- … and the check, evaluated, says the same as the theorem. -/
example : checkFnReloc { exFn with insts := (twinBytes exRaw).toArray } exOut.bytes.toArray
    [(0, 0), (5, 5), (13, 7)] = true := by decide
/-- The check is not trivially true: the table without the end entry fails (the JMPF target). -/
example : checkFnReloc { exFn with insts := (twinBytes exRaw).toArray } exOut.bytes.toArray
    [(0, 0), (5, 5)] = false := by decide
example : decode exOut.bytes = some exOut.insts := opt_out_decodes exRaw_decodes (by decide) exRaw_opt

/-! ## 3. Whole programs -/

/-- **opt_code_reloc.** Every program of the harness's shape passes `checkReloc` against any bodies
that leave main alone and give each function the optimizer model's bytes for its input. -/
theorem opt_code_reloc {code : Code} {mainIs : List Instr} {raws : Nat → Model.Bytes}
    (h : TwinCode code mainIs raws) (b : Nat → Array UInt8) (hb0 : b 0 = code.main.insts)
    (hb : ∀ idx f, idx ≠ 0 → code.fn idx = some f →
      ∃ sm rp r, opt (raws idx) sm rp = .ok r ∧ b idx = r.bytes.toArray) :
    checkReloc code b (optTabs mainIs raws) = true :=
  Tengo.Proofs.C03Reloc.opt_code_reloc h b hb0 hb

/-- The same for the bodies computed by the model itself. -/
theorem opt_code_reloc_bodies {code : Code} {mainIs : List Instr} {raws : Nat → Model.Bytes}
    (h : TwinCode code mainIs raws) :
    checkReloc code (optBodies code raws) (optTabs mainIs raws) = true :=
  Tengo.Proofs.C03Reloc.opt_code_reloc_bodies h

section univ
variable {code : Code} {mainIs : List Instr} {raws : Nat → Model.Bytes} (htw : TwinCode code mainIs raws)
  (b : Nat → Array UInt8) (hb0 : b 0 = code.main.insts)
  (hb : ∀ idx f, idx ≠ 0 → code.fn idx = some f →
    ∃ sm rp r, opt (raws idx) sm rp = .ok r ∧ b idx = r.bytes.toArray)
  (keep keep' fuel : Nat) (allocs : Int) (globals : Array Value) (fobjs : Array FnObj) (g : GSt) (h : St)
include htw hb0 hb

/-- **optimized_run.** For EVERY program of the harness's shape: the unoptimized twin and the program
with the optimizer model's function bodies take the same number of dispatches, perform the same number
of tracked allocations and end in corresponding outcomes, from the initial configuration, for every
fuel, allocation budget, globals, function objects and heap. -/
theorem optimized_run :
    OutcomeRel (pmOf (optTabs mainIs raws))
        (run code keep fuel allocs ⟨initCore globals fobjs, g, h⟩ {}).1
        (run (withBodies code b) keep' fuel allocs ⟨initCore globals fobjs, g, h⟩ {}).1 ∧
      (run (withBodies code b) keep' fuel allocs ⟨initCore globals fobjs, g, h⟩ {}).2.steps =
        (run code keep fuel allocs ⟨initCore globals fobjs, g, h⟩ {}).2.steps ∧
      (run (withBodies code b) keep' fuel allocs ⟨initCore globals fobjs, g, h⟩ {}).2.counted =
        (run code keep fuel allocs ⟨initCore globals fobjs, g, h⟩ {}).2.counted :=
  relocated_run (checkReloc_sound code b _ (opt_code_reloc htw b hb0 hb)) keep keep' fuel allocs globals fobjs g h

/-- **optimized_same_result.** If the twin halts, the optimized program halts with the same stack,
globals, function objects and heap. -/
theorem optimized_same_result (cfg : Cfg)
    (hh : (run code keep fuel allocs ⟨initCore globals fobjs, g, h⟩ {}).1 = .halted cfg) :
    ∃ cfg', (run (withBodies code b) keep' fuel allocs ⟨initCore globals fobjs, g, h⟩ {}).1 = .halted cfg' ∧
      cfg'.core.regs = cfg.core.regs ∧ cfg'.gst = cfg.gst ∧ cfg'.heap = cfg.heap :=
  checked_same_result code b _ (opt_code_reloc htw b hb0 hb) keep keep' fuel allocs globals fobjs g h cfg hh

/-- **optimized_same_error.** If the twin fails with error `e` at offset `p` of function `idx`, the
optimized program fails with the same `e`, the same registers and heap, at the offset the table gives
for `p` in the same function. -/
theorem optimized_same_error (e : Err) (cfg : Cfg)
    (hh : (run code keep fuel allocs ⟨initCore globals fobjs, g, h⟩ {}).1 = .failed e cfg) :
    ∃ cfg', (run (withBodies code b) keep' fuel allocs ⟨initCore globals fobjs, g, h⟩ {}).1 = .failed e cfg' ∧
      cfg' = mapCfg (pmOf (optTabs mainIs raws)) cfg ∧
      cfg'.core.regs = cfg.core.regs ∧ cfg'.gst = cfg.gst ∧ cfg'.heap = cfg.heap ∧
      cfg'.core.cur.fnIdx = cfg.core.cur.fnIdx ∧
      ∃ p q : Nat, cfg.core.cur.ip + 1 = p ∧ (optTabs mainIs raws cfg.core.cur.fnIdx).lookup p = some q ∧
        cfg'.core.cur.ip + 1 = q :=
  checked_same_error code b _ (opt_code_reloc htw b hb0 hb) keep keep' fuel allocs globals fobjs g h e cfg hh

/-- **optimized_same_kind.** Both end in the same kind of outcome (halt, the same error, the same
internal fault, allocation limit, out of fuel): the optimizer introduces no fault or error and removes
none. -/
theorem optimized_same_kind :
    match (run code keep fuel allocs ⟨initCore globals fobjs, g, h⟩ {}).1,
          (run (withBodies code b) keep' fuel allocs ⟨initCore globals fobjs, g, h⟩ {}).1 with
    | .halted _, .halted _ => True
    | .failed e _, .failed e' _ => e' = e
    | .fault ft _, .fault ft' _ => ft' = ft
    | .limit _, .limit _ => True
    | .outOfFuel _, .outOfFuel _ => True
    | _, _ => False :=
  checked_same_kind code b _ (opt_code_reloc htw b hb0 hb) keep keep' fuel allocs globals fobjs g h

end univ

/-! ### non-vacuity: a program of the shape `TwinCode` (main jumps over a NULL; one function constant,
the twin of the running example) -/

def exMainIs : List Instr := [⟨0, opJump, [6]⟩, ⟨5, opNull, []⟩, ⟨6, opTrue, []⟩, ⟨7, opPop, []⟩, ⟨8, opSuspend, []⟩]
def exU : Code :=
  { main := { insts := (encode exMainIs).toArray, numLocals := 0, numParams := 0, varargs := false },
    consts := #[.fn { insts := (twinBytes exRaw).toArray, numLocals := 0, numParams := 0, varargs := false } 0] }
def exRaws : Nat → Model.Bytes := fun _ => exRaw

theorem exU_twin : TwinCode exU exMainIs exRaws where
  main_dec := by decide
  main_ne := by decide
  main_jumps := by decide
  main_fall := by decide
  fns := by
    intro idx f h0 hf
    match idx, h0, hf with
    | 1, _, hf =>
      have : f = { insts := (twinBytes exRaw).toArray, numLocals := 0, numParams := 0, varargs := false } := by
        simpa [Code.fn, exU] using hf.symm
      subst this
      exact ⟨rfl, ex, exRaw_decodes, ex_wf, by decide⟩
    | k + 2, _, hf => simp [Code.fn, exU] at hf

example : checkReloc exU (optBodies exU exRaws) (optTabs exMainIs exRaws) = true := opt_code_reloc_bodies exU_twin
/-- Evaluated, the check says the same, and the optimized function body is the 9 bytes of `exOut`. -/
example : checkReloc exU (optBodies exU exRaws) (optTabs exMainIs exRaws) = true := by decide
example : optBodies exU exRaws 1 = #[9, 0, 0, 0, 7, 21, 1, 21, 0] := by decide

end Tengo.Props.C03Univ

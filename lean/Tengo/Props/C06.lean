import Tengo.Props.VM
import Tengo.Gen.AllocSites
import Tengo.Gen.Limits
import Tengo.Model.Limits
/-!
# C06 — configured resource limits are honoured by every program

* tables of /repo (regenerated on every run) equal the expectation the model is written against
* `alloc_budget`, `alloc_monotone`, `alloc_unlimited`: for EVERY machine and all fuel, the counter
  wrapper of `VM.Run`/`VM.run` (`runWithBudget`) is in lock-step with the counter-free run until the
  `(N+1)`-th tracked allocation is attempted and influences nothing else
* `len_checked_ops`, `len_checked_ops2`, `fmtbuf_bounded`: the modelled length guards
* `depth_bounded`, `depth_lockstep`: the frame counter
-/
namespace Tengo.Props.C06
open Tengo.Model.Limits

/-! ## ties to the source -/

theorem alloc_sites_match : Tengo.Gen.AllocSites.allocSites = Expect.allocSites := rfl
theorem alloc_reset_matches : Tengo.Gen.AllocSites.allocsOtherWrites = Expect.allocsOtherWrites := rfl
theorem frame_check_matches : Tengo.Gen.AllocSites.frameChecks = Expect.frameChecks := rfl
theorem vm_arrays_match : Tengo.Gen.AllocSites.vmArrays = Expect.vmArrays := rfl
theorem len_checks_match : Tengo.Gen.AllocSites.lenChecks = Expect.lenChecks := rfl
theorem buf_stores_match : Tengo.Gen.AllocSites.bufStores = Expect.bufStores := rfl
theorem vm_limits_match : Tengo.Gen.Limits.maxFrames = maxFrames ∧ Tengo.Gen.Limits.stackSize = stackSize := by decide

/-- every decrement found in /repo is followed at once by the `== 0` test, the result is stored into the
operand stack only after the test, no two decrements share a path, and there are 16 sites -/
theorem alloc_sites_checked :
    sitesChecked Tengo.Gen.AllocSites.allocSites = true ∧
    pathsDisjoint Tengo.Gen.AllocSites.allocSites = true ∧
    siteCount Tengo.Gen.AllocSites.allocSites = 16 := by decide

/-- every function of formatter.go that stores through the buffer pointer compares with MaxStringLen -/
theorem buf_stores_guarded : Tengo.Gen.AllocSites.bufStores.all (·.2) = true := by decide

/-! ## the counter -/

theorem need_pos (c : BitVec 64) : 1 ≤ need c := by
  unfold need
  split
  · decide
  · next h => bv_omega

theorem need_le (c : BitVec 64) : need c ≤ 2 ^ 64 := by
  unfold need
  split
  · exact Nat.le_refl _
  · have := c.isLt; omega

theorem dec_zero_iff (c : BitVec 64) : (c - 1 = 0) ↔ need c = 1 := by
  unfold need
  constructor
  · intro h
    have : c = 1 := by bv_omega
    subst this; decide
  · intro h
    split at h
    · omega
    · bv_omega

theorem need_dec (c : BitVec 64) (h : c - 1 ≠ 0) : need (c - 1) + 1 = need c := by
  unfold need
  rw [if_neg h]
  split
  · next h0 => subst h0; decide
  · next h0 => bv_omega

/-- budget `N ≥ 0`: the counter reaches zero at the `(N+1)`-th decrement -/
theorem need_init_nonneg (N : Int) (h0 : 0 ≤ N) (h1 : N < 2 ^ 63) :
    need (initCounter N) = (N + 1).toNat := by
  unfold need initCounter
  have : (BitVec.ofInt 64 N + 1).toNat = (N + 1).toNat := by
    simp [BitVec.toNat_add, BitVec.toNat_ofInt]
    omega
  split
  · next h => rw [h] at this; simp at this; omega
  · exact this

/-- budget `N < 0`: the counter reaches zero only after `2^64 + N + 1 > 2^63` decrements -/
theorem need_init_neg (N : Int) (h0 : N < 0) (h1 : -2 ^ 63 ≤ N) :
    need (initCounter N) = (2 ^ 64 + N + 1).toNat := by
  have e : (2:Int)^64 = 18446744073709551616 := by decide
  have e' : (2:Nat)^64 = 18446744073709551616 := by decide
  have e3 : (2:Int)^63 = 9223372036854775808 := by decide
  rw [e3] at h1
  unfold need initCounter
  rw [e, e']
  have : (BitVec.ofInt 64 N + 1).toNat = (18446744073709551616 + N + 1).toNat % 18446744073709551616 := by
    simp [BitVec.toNat_add, BitVec.toNat_ofInt]
    omega
  split
  · next h => rw [h] at this; simp at this; omega
  · next h =>
    have hz : (BitVec.ofInt 64 N + 1).toNat ≠ 0 := by
      intro h'; apply h; apply BitVec.eq_of_toNat_eq; simpa using h'
    omega

/-! ## lock-step of the counted run with the free run -/

variable {σ ε : Type}

theorem runFree_not_allocLimit (m : Machine σ ε) :
    ∀ (f : Nat) (s : σ), (runFree m f s).outcome.isAllocLimit = false := by
  intro f
  induction f with
  | zero => intro s; rfl
  | succ f ih =>
    intro s
    unfold runFree
    cases h : m.step s with
    | cont s' => simpa using ih s'
    | alloc s' => simpa [Result.bump] using ih s'
    | halt => rfl
    | fail e => rfl

/-- The counted run equals the free run as long as fewer than `need c` allocations are attempted; otherwise
it stops, with `need c - 1` allocations performed, in the state from which the `need c`-th was attempted. -/
theorem counted_spec (m : Machine σ ε) :
    ∀ (f : Nat) (c : BitVec 64) (s : σ),
      ((runFree m f s).allocs < need c → runCounted m f c s = runFree m f s) ∧
      (need c ≤ (runFree m f s).allocs →
        ∃ s' s'', runCounted m f c s = ⟨.allocLimit s', need c - 1⟩ ∧ m.step s' = .alloc s'') := by
  intro f
  induction f with
  | zero =>
    intro c s
    have := need_pos c
    constructor
    · intro _; rfl
    · intro h; simp [runFree] at h; omega
  | succ f ih =>
    intro c s
    have hp := need_pos c
    unfold runFree runCounted
    cases h : m.step s with
    | cont s' => simpa using ih c s'
    | halt => simp; omega
    | fail e => simp; omega
    | alloc s' =>
      simp only [Result.bump]
      by_cases hz : c - 1 = 0
      · have h1 := (dec_zero_iff c).1 hz
        simp only [hz, if_true]
        constructor
        · intro hlt; omega
        · intro _; exact ⟨s, s', by simp [h1], h⟩
      · have hd := need_dec c hz
        simp only [hz, if_false]
        obtain ⟨ih1, ih2⟩ := ih (c - 1) s'
        constructor
        · intro hlt
          rw [ih1 (by omega)]
        · intro hge
          obtain ⟨t, t', ht, hstep⟩ := ih2 (by omega)
          refine ⟨t, t', ?_, hstep⟩
          have hp1 := need_pos (c - 1)
          have e : need (c - 1) - 1 + 1 = need c - 1 := by omega
          rw [ht]
          simp only [e]

/-- **alloc_budget.** With a budget `N ≥ 0` a run (any machine, any fuel) performs at most `N` tracked
allocations; it stops with the allocation-limit error iff the `(N+1)`-th allocation is attempted (i.e. the
counter-free run attempts at least `N+1` within the same fuel); it then has performed exactly `N`, stops
in a state whose step is an allocation whose result was never stored; otherwise it IS the free run. -/
theorem alloc_budget (m : Machine σ ε) (N : Int) (h0 : 0 ≤ N) (h1 : N < 2 ^ 63) (fuel : Nat) (s : σ) :
    let r := runWithBudget m N fuel s
    (r.allocs : Int) ≤ N ∧
    (r.outcome.isAllocLimit = true ↔ N + 1 ≤ ((runFree m fuel s).allocs : Int)) ∧
    (r.outcome.isAllocLimit = true →
      (r.allocs : Int) = N ∧ ∃ s' s'', r.outcome = .allocLimit s' ∧ m.step s' = .alloc s'') ∧
    (r.outcome.isAllocLimit = false → r = runFree m fuel s) := by
  intro r
  have hn := need_init_nonneg N h0 h1
  obtain ⟨c1, c2⟩ := counted_spec m fuel (initCounter N) s
  have hfree := runFree_not_allocLimit m fuel s
  by_cases hlt : (runFree m fuel s).allocs < need (initCounter N)
  · have hr : r = runFree m fuel s := c1 hlt
    rw [hr]
    refine ⟨by omega, ?_, ?_, fun _ => rfl⟩
    · rw [hfree]; constructor
      · intro h; cases h
      · intro h; omega
    · rw [hfree]; intro h; cases h
  · obtain ⟨s', s'', hrs, hstep⟩ := c2 (by omega)
    have hr : r = ⟨.allocLimit s', need (initCounter N) - 1⟩ := hrs
    rw [hr]
    refine ⟨by simp; omega, ?_, ?_, ?_⟩
    · simp [Outcome.isAllocLimit]; omega
    · intro _; exact ⟨by simp; omega, s', s'', rfl, hstep⟩
    · intro h; simp [Outcome.isAllocLimit] at h

/-- **alloc_monotone.** A run that does not end with the allocation-limit error under budget `N ≥ 0` gives
the SAME result (outcome, final state, allocation count) under every larger budget and under every negative
(unlimited) budget: raising the budget never creates a failure and never changes the result. -/
theorem alloc_monotone (m : Machine σ ε) (N M : Int) (h0 : 0 ≤ N) (h1 : N < 2 ^ 63)
    (hM : (N ≤ M ∧ M < 2 ^ 63) ∨ (M < 0 ∧ -2 ^ 63 ≤ M)) (fuel : Nat) (s : σ)
    (hok : (runWithBudget m N fuel s).outcome.isAllocLimit = false) :
    runWithBudget m M fuel s = runWithBudget m N fuel s := by
  obtain ⟨_, hiff, _, hsame⟩ := alloc_budget m N h0 h1 fuel s
  have hN : ¬ (N + 1 ≤ ((runFree m fuel s).allocs : Int)) := by
    intro h; have := hiff.2 h; rw [hok] at this; cases this
  rw [hsame hok]
  obtain ⟨c1, _⟩ := counted_spec m fuel (initCounter M) s
  apply c1
  rcases hM with ⟨hle, hlt⟩ | ⟨hneg, hge⟩
  · rw [need_init_nonneg M (by omega) hlt]; omega
  · rw [need_init_neg M hneg hge]; omega

/-- **alloc_unlimited.** A negative budget never produces the allocation-limit error within `2^63` tracked
allocations: the run is the counter-free run. -/
theorem alloc_unlimited (m : Machine σ ε) (N : Int) (h0 : N < 0) (h1 : -2 ^ 63 ≤ N) (fuel : Nat) (s : σ)
    (hA : (runFree m fuel s).allocs ≤ 2 ^ 63) :
    runWithBudget m N fuel s = runFree m fuel s := by
  obtain ⟨c1, _⟩ := counted_spec m fuel (initCounter N) s
  apply c1
  rw [need_init_neg N h0 h1]; omega

/-- a run that succeeds under budget `N` also cannot succeed under a budget below its allocation count -/
theorem alloc_needs_budget (m : Machine σ ε) (N : Int) (h0 : 0 ≤ N) (h1 : N < 2 ^ 63) (fuel : Nat) (s : σ)
    (hA : N < ((runFree m fuel s).allocs : Int)) :
    (runWithBudget m N fuel s).outcome.isAllocLimit = true :=
  (alloc_budget m N h0 h1 fuel s).2.1.2 (by omega)

/-! non-vacuity: a five-step run with two allocations -/
example : runWithBudget traceMachine 1 10 "cacah".toList = ⟨.allocLimit "ah".toList, 1⟩ := by decide
example : runWithBudget traceMachine 2 10 "cacah".toList = ⟨.ok "h".toList, 2⟩ := by decide
example : runWithBudget traceMachine 0 10 "cacah".toList = ⟨.allocLimit "acah".toList, 0⟩ := by decide
example : runWithBudget traceMachine (-1) 10 "cacah".toList = runFree traceMachine 10 "cacah".toList := by decide
example : (runWithBudget traceMachine 2 10 "cacah".toList).outcome.isAllocLimit = false ∧
    runWithBudget traceMachine 7 10 "cacah".toList = runWithBudget traceMachine 2 10 "cacah".toList := by decide
example : (2 : Int) + 1 ≤ ((runFree traceMachine 10 "cacaah".toList).allocs : Int) := by decide

/-! ## length guards -/

/-- **len_checked_ops.** Each modelled string/bytes producer (string `+`, bytes `+`, `string()`, `bytes()`,
`bytes(n)`, literals / `FromInterface`, slicing) returns a value within the limit, or the limit error exactly
when the would-be length exceeds the limit. -/
theorem len_checked_ops (L : Nat) (a b v : Bytes) (n : Int) (lo hi : Nat) :
    (∀ r, strAdd L a b = .ok r → r.length ≤ L ∧ r = a ++ b) ∧
    (∀ e, strAdd L a b = .error e → e = .stringLimit ∧ L < a.length + b.length) ∧
    (∀ r, bytesAdd L a b = .ok r → r.length ≤ L ∧ r = a ++ b) ∧
    (∀ e, bytesAdd L a b = .error e → e = .bytesLimit ∧ L < a.length + b.length) ∧
    (∀ r, builtinString L v = .ok r → r.length ≤ L ∧ r = v) ∧
    (∀ e, builtinString L v = .error e → e = .stringLimit ∧ L < v.length) ∧
    (∀ r, builtinBytes L v = .ok r → r.length ≤ L ∧ r = v) ∧
    (∀ e, builtinBytes L v = .error e → e = .bytesLimit ∧ L < v.length) ∧
    (∀ r, builtinBytesN L n = .ok r → r.length ≤ L ∧ (r.length : Int) = n) ∧
    (∀ e, builtinBytesN L n = .error e → (e = .bytesLimit ∧ (L : Int) < n) ∨ (e = .goPanic ∧ n < 0)) ∧
    (∀ r, stringLit L v = .ok r → r.length ≤ L ∧ r = v) ∧
    (∀ e, stringLit L v = .error e → e = .stringLimit ∧ L < v.length) ∧
    (∀ r, bytesVal L v = .ok r → r.length ≤ L ∧ r = v) ∧
    (∀ e, bytesVal L v = .error e → e = .bytesLimit ∧ L < v.length) ∧
    (v.length ≤ L → (sliceVal v lo hi).length ≤ L) := by
  refine ⟨?_, ?_, ?_, ?_, ?_, ?_, ?_, ?_, ?_, ?_, ?_, ?_, ?_, ?_, ?_⟩
  · intro r h; unfold strAdd at h; split at h
    · cases h
    · cases h; simp; omega
  · intro e h; unfold strAdd at h; split at h
    · cases h; exact ⟨rfl, by omega⟩
    · cases h
  · intro r h; unfold bytesAdd at h; split at h
    · cases h
    · cases h; simp; omega
  · intro e h; unfold bytesAdd at h; split at h
    · cases h; exact ⟨rfl, by omega⟩
    · cases h
  · intro r h; unfold builtinString at h; split at h
    · cases h
    · cases h; exact ⟨by omega, rfl⟩
  · intro e h; unfold builtinString at h; split at h
    · cases h; exact ⟨rfl, by omega⟩
    · cases h
  · intro r h; unfold builtinBytes at h; split at h
    · cases h
    · cases h; exact ⟨by omega, rfl⟩
  · intro e h; unfold builtinBytes at h; split at h
    · cases h; exact ⟨rfl, by omega⟩
    · cases h
  · intro r h; unfold builtinBytesN at h; split at h
    · cases h
    · split at h
      · cases h
      · cases h; simp; omega
  · intro e h; unfold builtinBytesN at h; split at h
    · cases h; exact Or.inl ⟨rfl, by omega⟩
    · split at h
      · cases h; exact Or.inr ⟨rfl, by omega⟩
      · cases h
  · intro r h; unfold stringLit at h; split at h
    · cases h
    · cases h; exact ⟨by omega, rfl⟩
  · intro e h; unfold stringLit at h; split at h
    · cases h; exact ⟨rfl, by omega⟩
    · cases h
  · intro r h; unfold bytesVal at h; split at h
    · cases h
    · cases h; exact ⟨by omega, rfl⟩
  · intro e h; unfold bytesVal at h; split at h
    · cases h; exact ⟨rfl, by omega⟩
    · cases h
  · intro h; unfold sliceVal; simp; omega

/-- **len_checked_ops2.** The two producers repaired after O13 / O12. `type_name` returns the name within
the limit, or the limit error exactly when the name does not fit. `Map.IndexSet` keys the map by the text of
the index: a string index is stored as it is (never an error), a key made by converting any other index is
within the limit, or the limit error is raised exactly when that text does not fit; so if every existing
string value is within the limit, so is every key. -/
theorem len_checked_ops2 (L : Nat) (isStr : Bool) (v : Bytes) :
    (∀ r, typeNameResult L v = .ok r → r.length ≤ L ∧ r = v) ∧
    (∀ e, typeNameResult L v = .error e → e = .stringLimit ∧ L < v.length) ∧
    (∀ r, mapKeyOfIndex L isStr v = .ok r → r = v ∧ (isStr = false → r.length ≤ L)) ∧
    (∀ e, mapKeyOfIndex L isStr v = .error e → e = .stringLimit ∧ isStr = false ∧ L < v.length) ∧
    (isStr = true → mapKeyOfIndex L isStr v = .ok v) ∧
    ((isStr = true → v.length ≤ L) → ∀ r, mapKeyOfIndex L isStr v = .ok r → r.length ≤ L) := by
  refine ⟨?_, ?_, ?_, ?_, ?_, ?_⟩
  · intro r h; unfold typeNameResult at h; split at h
    · cases h
    · cases h; exact ⟨by omega, rfl⟩
  · intro e h; unfold typeNameResult at h; split at h
    · cases h; exact ⟨rfl, by omega⟩
    · cases h
  · intro r h; unfold mapKeyOfIndex at h; split at h
    · cases h
    · next hn =>
      cases h
      refine ⟨rfl, ?_⟩
      intro hs; subst hs; simp at hn; omega
  · intro e h; unfold mapKeyOfIndex at h; split at h
    · next hc =>
      cases h
      cases isStr
      · simp at hc; exact ⟨rfl, rfl, by omega⟩
      · simp at hc
    · cases h
  · intro hs; subst hs; simp [mapKeyOfIndex]
  · intro hv r h; unfold mapKeyOfIndex at h; split at h
    · cases h
    · next hn =>
      cases h
      cases isStr
      · simp at hn; omega
      · exact hv rfl

theorem bufStep_bounded (L : Nat) (buf : Bytes) (op : BufOp) (hb : buf.length ≤ L) :
    (∀ r, bufStep L buf op = .ok r → r.length ≤ L ∧ buf.length ≤ r.length) ∧
    (∀ e, bufStep L buf op = .error e → e = .stringLimit) := by
  cases op with
  | write p =>
    simp only [bufStep]; constructor
    · intro r h; split at h
      · cases h
      · cases h; simp; omega
    · intro e h; split at h
      · cases h; rfl
      · cases h
  | byte c =>
    simp only [bufStep]; constructor
    · intro r h; split at h
      · cases h
      · cases h; simp; omega
    · intro e h; split at h
      · cases h; rfl
      · cases h
  | rune enc =>
    simp only [bufStep]; constructor
    · intro r h; split at h
      · cases h
      · cases h; simp; omega
    · intro e h; split at h
      · cases h; rfl
      · cases h
  | pad n c =>
    simp only [bufStep]; constructor
    · intro r h; split at h
      · cases h; omega
      · split at h
        · cases h
        · cases h; simp; omega
    · intro e h; split at h
      · cases h
      · split at h
        · cases h; rfl
        · cases h
  | sbx enc =>
    simp only [bufStep]; constructor
    · intro r h; split at h
      · cases h
      · cases h; simp; omega
    · intro e h; split at h
      · cases h; rfl
      · cases h

/-- **fmtbuf_bounded.** Whatever sequence of guarded buffer writes a `format` call performs, the text it
returns is within the maximum string length, and the only error the guards raise is the string-limit error. -/
theorem fmtbuf_bounded (L : Nat) : ∀ (ops : List BufOp) (buf : Bytes), buf.length ≤ L →
    (∀ r, bufRun L buf ops = .ok r → r.length ≤ L) ∧
    (∀ e, bufRun L buf ops = .error e → e = .stringLimit) := by
  intro ops
  induction ops with
  | nil =>
    intro buf hb
    constructor
    · intro r h; simp [bufRun] at h; cases h; exact hb
    · intro e h; simp [bufRun] at h
  | cons op ops ih =>
    intro buf hb
    obtain ⟨s1, s2⟩ := bufStep_bounded L buf op hb
    unfold bufRun
    cases hs : bufStep L buf op with
    | ok buf' =>
      simp only
      exact ih buf' (s1 buf' hs).1
    | error e0 =>
      simp only
      constructor
      · intro r h; cases h
      · intro e h; cases h; exact s2 e0 hs

/-! non-vacuity: both sides of each boundary -/
example : strAdd 8 [97, 98, 99, 100] [101, 102, 103, 104] = .ok [97, 98, 99, 100, 101, 102, 103, 104] := rfl
example : strAdd 8 [97, 98, 99, 100] [101, 102, 103, 104, 105] = .error .stringLimit := rfl
example : builtinBytesN 8 8 = .ok (List.replicate 8 0) := rfl
example : builtinBytesN 8 9 = .error .bytesLimit := rfl
example : builtinBytesN 8 (-1) = .error .goPanic := rfl
example : typeNameResult 8 [105, 110, 116] = .ok [105, 110, 116] := rfl
example : typeNameResult 2 [105, 110, 116] = .error .stringLimit := rfl
example : mapKeyOfIndex 2 false [49, 50, 51] = .error .stringLimit := rfl
example : mapKeyOfIndex 3 false [49, 50, 51] = .ok [49, 50, 51] := rfl
example : mapKeyOfIndex 2 true [49, 50, 51] = .ok [49, 50, 51] := rfl
example : bufRun 4 [] [.write [1, 2], .byte 3, .pad 1 32] = .ok [1, 2, 3, 32] := rfl
example : bufRun 4 [] [.write [1, 2], .byte 3, .pad 2 32] = .error .stringLimit := rfl

/-! ## frames -/

theorem frames_high_ge {σ : Type} (m : FMachine σ) (K : Nat) :
    ∀ (f fi hi : Nat) (s : σ), hi ≤ (runFrames m K f fi hi s).high := by
  intro f
  induction f with
  | zero => intro fi hi s; exact Nat.le_refl _
  | succ f ih =>
    intro fi hi s
    unfold runFrames
    cases h : m.step s with
    | cont s' => exact ih fi hi s'
    | call s' =>
      simp only
      split
      · exact Nat.le_refl _
      · exact Nat.le_trans (Nat.le_max_left _ _) (ih _ _ s')
    | ret s' =>
      simp only
      split
      · exact Nat.le_refl _
      · exact ih _ _ s'
    | halt => exact Nat.le_refl _

theorem frames_inv {σ : Type} (m : FMachine σ) (K : Nat) :
    ∀ (f fi hi : Nat) (s : σ), 1 ≤ fi → fi ≤ hi → hi ≤ K →
      let r := runFrames m K f fi hi s
      1 ≤ r.fi ∧ r.fi ≤ r.high ∧ r.high ≤ K ∧
      (∀ s', r.outcome = .stackOverflow s' → r.fi = K ∧ ∃ s'', m.step s' = .call s'') := by
  intro f
  induction f with
  | zero =>
    intro fi hi s h1 h2 h3
    exact ⟨h1, h2, h3, by intro s' h; cases h⟩
  | succ f ih =>
    intro fi hi s h1 h2 h3
    unfold runFrames
    cases h : m.step s with
    | cont s' => exact ih fi hi s' h1 h2 h3
    | call s' =>
      simp only
      split
      · next hge =>
        refine ⟨h1, h2, h3, ?_⟩
        intro t ht
        cases ht
        exact ⟨by simp; omega, s', h⟩
      · next hlt =>
        exact ih (fi + 1) (max hi (fi + 1)) s' (by omega) (Nat.le_max_right _ _) (by omega)
    | ret s' =>
      simp only
      split
      · exact ⟨h1, h2, h3, by intro t ht; cases ht⟩
      · exact ih (fi - 1) hi s' (by omega) (by omega) h3
    | halt => exact ⟨h1, h2, h3, by intro t ht; cases ht⟩

/-- **depth_bounded.** In every run (any machine, any fuel) `1 ≤ framesIndex ≤ MaxFrames` holds at the end and
at the high-water mark, and the stack-overflow error is raised only from a state whose step is a call
attempted with `framesIndex = MaxFrames`. -/
theorem depth_bounded {σ : Type} (m : FMachine σ) (K : Nat) (hK : 1 ≤ K) (fuel : Nat) (s : σ) :
    let r := runDepth m K fuel s
    1 ≤ r.fi ∧ r.fi ≤ r.high ∧ r.high ≤ K ∧
    (∀ s', r.outcome = .stackOverflow s' → r.fi = K ∧ ∃ s'', m.step s' = .call s'') :=
  frames_inv m K fuel 1 1 s (Nat.le_refl _) (Nat.le_refl _) hK

theorem frames_lockstep {σ : Type} (m : FMachine σ) (K K' : Nat) (hKK : K < K') :
    ∀ (f fi hi : Nat) (s : σ), fi ≤ hi → hi ≤ K →
      (((runFrames m K' f fi hi s).high ≤ K → runFrames m K f fi hi s = runFrames m K' f fi hi s) ∧
       (K < (runFrames m K' f fi hi s).high → (runFrames m K f fi hi s).outcome.isOverflow = true)) := by
  intro f
  induction f with
  | zero =>
    intro fi hi s h2 h3
    constructor
    · intro _; rfl
    · intro h; simp [runFrames] at h; omega
  | succ f ih =>
    intro fi hi s h2 h3
    unfold runFrames
    cases h : m.step s with
    | cont s' => exact ih fi hi s' h2 h3
    | halt => simp; omega
    | ret s' =>
      simp only
      split
      · simp; omega
      · exact ih (fi - 1) hi s' (by omega) h3
    | call s' =>
      simp only
      by_cases hge : fi ≥ K
      · have hfi : fi = K := by omega
        have hlt : ¬ fi ≥ K' := by omega
        simp only [hge, hlt, if_true, if_false]
        have := frames_high_ge m K' f (fi + 1) (max hi (fi + 1)) s'
        constructor
        · intro hle; omega
        · intro _; rfl
      · have hlt : ¬ fi ≥ K' := by omega
        simp only [hge, hlt, if_false]
        exact ih (fi + 1) (max hi (fi + 1)) s' (Nat.le_max_right _ _) (by omega)

/-- **depth_lockstep.** The stack-overflow error occurs exactly when a call is attempted at the limit: compared
with the same run under any larger frame limit `K'`, the run under `K` ends in stack overflow iff the deeper run
exceeds depth `K`; otherwise the two runs are identical (the limit influences nothing else). -/
theorem depth_lockstep {σ : Type} (m : FMachine σ) (K K' : Nat) (hK : 1 ≤ K) (hKK : K < K') (fuel : Nat) (s : σ) :
    ((runDepth m K fuel s).outcome.isOverflow = true ↔ K < (runDepth m K' fuel s).high) ∧
    ((runDepth m K fuel s).outcome.isOverflow = false → runDepth m K fuel s = runDepth m K' fuel s) := by
  obtain ⟨l1, l2⟩ := frames_lockstep m K K' hKK fuel 1 1 s (Nat.le_refl _) hK
  have key : (runDepth m K fuel s).outcome.isOverflow = true ↔ K < (runDepth m K' fuel s).high := by
    constructor
    · intro h
      by_cases hle : (runDepth m K' fuel s).high ≤ K
      · have heq := l1 hle
        have hinv := depth_bounded m K' (by omega) fuel s
        -- same run: an overflow under K' has fi = K' > K ≥ high ≥ fi, impossible
        have h' : (runDepth m K' fuel s).outcome.isOverflow = true := by
          have : runDepth m K fuel s = runDepth m K' fuel s := heq
          rw [← this]; exact h
        cases ho : (runDepth m K' fuel s).outcome with
        | stackOverflow t =>
          have := (hinv.2.2.2 t ho).1
          have := hinv.2.1
          omega
        | ok t => rw [ho] at h'; cases h'
        | underflow t => rw [ho] at h'; cases h'
        | outOfFuel t => rw [ho] at h'; cases h'
      · omega
    · exact l2
  refine ⟨key, ?_⟩
  intro hno
  apply l1
  by_cases hle : (runDepth m K' fuel s).high ≤ K
  · exact hle
  · have := key.2 (by omega)
    rw [hno] at this; cases this

/-! non-vacuity: nesting depth 2 under limits 2 and 3 (framesIndex starts at 1) -/
example : runDepth frameTraceMachine 3 20 "cocorrh".toList = ⟨.ok "h".toList, 1, 3⟩ := by decide
example : runDepth frameTraceMachine 2 20 "cocorrh".toList = ⟨.stackOverflow "corrh".toList, 2, 2⟩ := by decide
example : (2 : Nat) < (runDepth frameTraceMachine 3 20 "cocorrh".toList).high := by decide

end Tengo.Props.C06

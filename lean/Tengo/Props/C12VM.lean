import Tengo.Proofs.VMRenumCheck
/-!
C12 on the whole-VM model: what a passed renumbering check (`Tengo.Model.VM.checkRenum`, evaluated by
the driver on every generated program and the output of the real `RemoveDuplicates`) says about the runs
of `Tengo.Model.VM.run` — de-duplicating the constant pool yields bytecode that behaves exactly like the
original for every input: same results, same errors, same error positions.

State correspondence (`mapCfgC cm`): stack, `sp`, globals, value heap, and in every frame `ip`, `bp`, the
captured cells and the marks are *equal*; the function index of every frame and the constant index
inside every function object are renumbered by `cm` (function constant `k` lives at `cm k` in the new pool).
-/
set_option linter.unusedSectionVars false
set_option linter.unusedSimpArgs false
set_option linter.unusedVariables false
namespace Tengo.Props.C12VM
open Tengo.Model Tengo.Model.Spec Tengo.Model.Opcodes Tengo.Model.VM

theorem init_inDomC {code code' : Code} {cm : Nat → Nat} {starts : Nat → List Nat}
    (hr : RenumShape code code' cm starts) (globals : Array Value) (fobjs : Array FnObj) :
    InDomCoreC starts (initCore globals fobjs) := by
  refine ⟨⟨0, by simp [initCore], hr.entry 0 code.main (by simp [Code.fn])⟩, ?_⟩
  intro fr hfr
  simp [initCore] at hfr

theorem mapCfgC_init (cm : Nat → Nat) (globals : Array Value) (fobjs : Array FnObj) (g : GSt) (h : St) :
    mapCfgC cm ⟨initCore globals fobjs, g, h⟩ = ⟨initCore globals (fobjs.map (mapFobj cm)), g, h⟩ := rfl

/-- **Renumbered code runs like the original, from the start of the program**: for every fuel,
allocation budget, globals, initial function objects and heap, the two runs take the same number of
dispatches, perform the same number of tracked allocations, and end in corresponding outcomes. -/
theorem renumbered_run {code code' : Code} {cm : Nat → Nat} {starts : Nat → List Nat} (hr : Renum code code' cm starts)
    (keep keep' fuel : Nat) (allocs : Int) (globals : Array Value) (fobjs : Array FnObj) (g : GSt) (h : St) :
    OutcomeRelC cm starts (run code keep fuel allocs ⟨initCore globals fobjs, g, h⟩ {}).1
        (run code' keep' fuel allocs ⟨initCore globals (fobjs.map (mapFobj cm)), g, h⟩ {}).1 ∧
      (run code' keep' fuel allocs ⟨initCore globals (fobjs.map (mapFobj cm)), g, h⟩ {}).2.steps =
        (run code keep fuel allocs ⟨initCore globals fobjs, g, h⟩ {}).2.steps ∧
      (run code' keep' fuel allocs ⟨initCore globals (fobjs.map (mapFobj cm)), g, h⟩ {}).2.counted =
        (run code keep fuel allocs ⟨initCore globals fobjs, g, h⟩ {}).2.counted := by
  have := run_renum hr keep keep' fuel allocs ⟨initCore globals fobjs, g, h⟩ {} {}
    (init_inDomC hr.toRenumShape globals fobjs) ⟨rfl, rfl⟩
  rw [mapCfgC_init] at this
  exact ⟨this.1, this.2.1, this.2.2⟩

section renum
variable {code code' : Code} {cm : Nat → Nat} {starts : Nat → List Nat} (hr : Renum code code' cm starts)
  (keep keep' fuel : Nat) (allocs : Int) (globals : Array Value) (fobjs : Array FnObj) (g : GSt) (h : St)
include hr

/-- Same result. If the original halts, the de-duplicated program halts after the same number of
dispatches with the same stack, `sp`, globals and heap (and the renumbered function objects). -/
theorem renum_same_result (cfg : Cfg)
    (hh : (run code keep fuel allocs ⟨initCore globals fobjs, g, h⟩ {}).1 = .halted cfg) :
    ∃ cfg', (run code' keep' fuel allocs ⟨initCore globals (fobjs.map (mapFobj cm)), g, h⟩ {}).1 = .halted cfg' ∧
      cfg'.core.regs.stack = cfg.core.regs.stack ∧ cfg'.core.regs.sp = cfg.core.regs.sp ∧
      cfg'.core.regs.globals = cfg.core.regs.globals ∧
      cfg'.core.regs.fobjs = cfg.core.regs.fobjs.map (mapFobj cm) ∧
      cfg'.gst = cfg.gst ∧ cfg'.heap = cfg.heap ∧
      (run code' keep' fuel allocs ⟨initCore globals (fobjs.map (mapFobj cm)), g, h⟩ {}).2.steps =
        (run code keep fuel allocs ⟨initCore globals fobjs, g, h⟩ {}).2.steps := by
  obtain ⟨this, hsteps, _⟩ := renumbered_run hr keep keep' fuel allocs globals fobjs g h
  rw [hh] at this
  cases hr' : (run code' keep' fuel allocs ⟨initCore globals (fobjs.map (mapFobj cm)), g, h⟩ {}).1 with
  | halted cfg' =>
    rw [hr'] at this
    have : cfg' = mapCfgC cm cfg := this
    subst this
    exact ⟨_, rfl, rfl, rfl, rfl, rfl, rfl, rfl, hsteps⟩
  | failed _ _ => rw [hr'] at this; exact this.elim
  | fault _ _ => rw [hr'] at this; exact this.elim
  | limit _ => rw [hr'] at this; exact this.elim
  | outOfFuel _ => rw [hr'] at this; exact this.elim

/-- Same error at the same position. If the original fails with error `e` while dispatching the
instruction at offset `ip + 1` of function `idx`, the de-duplicated program fails with the same `e`,
with the same stack, globals and heap, while dispatching the instruction at the same offset of the
same function (index `fim cm idx`: main stays main, function constant `k` is constant `cm k`); every
caller frame likewise has the same `ip` (the return position that decorates the error trace), `bp` and
captured cells. -/
theorem renum_same_error (e : Err) (cfg : Cfg)
    (hh : (run code keep fuel allocs ⟨initCore globals fobjs, g, h⟩ {}).1 = .failed e cfg) :
    ∃ cfg', (run code' keep' fuel allocs ⟨initCore globals (fobjs.map (mapFobj cm)), g, h⟩ {}).1 = .failed e cfg' ∧
      cfg' = mapCfgC cm cfg ∧
      cfg'.core.regs.stack = cfg.core.regs.stack ∧ cfg'.core.regs.sp = cfg.core.regs.sp ∧
      cfg'.core.regs.globals = cfg.core.regs.globals ∧ cfg'.gst = cfg.gst ∧ cfg'.heap = cfg.heap ∧
      cfg'.core.cur.fnIdx = fim cm cfg.core.cur.fnIdx ∧ cfg'.core.cur.ip = cfg.core.cur.ip ∧
      cfg'.core.callers.map (fun fr => (fr.fnIdx, fr.ip, fr.bp)) =
        cfg.core.callers.map (fun fr => (fim cm fr.fnIdx, fr.ip, fr.bp)) ∧
      ∃ p : Nat, cfg.core.cur.ip + 1 = p ∧ p ∈ starts cfg.core.cur.fnIdx := by
  have := (renumbered_run hr keep keep' fuel allocs globals fobjs g h).1
  rw [hh] at this
  cases hr' : (run code' keep' fuel allocs ⟨initCore globals (fobjs.map (mapFobj cm)), g, h⟩ {}).1 with
  | failed e' cfg' =>
    rw [hr'] at this
    obtain ⟨rfl, rfl, hd⟩ := this
    obtain ⟨p, hat⟩ := hd.1
    refine ⟨_, rfl, rfl, rfl, rfl, rfl, rfl, rfl, rfl, rfl, ?_, p, hat.1, hat.2⟩
    simp [mapCfgC, mapCoreC, mapFrameC, List.map_map, Function.comp_def]
  | halted _ => rw [hr'] at this; exact this.elim
  | fault _ _ => rw [hr'] at this; exact this.elim
  | limit _ => rw [hr'] at this; exact this.elim
  | outOfFuel _ => rw [hr'] at this; exact this.elim

/-- The de-duplicated program ends in the same kind of outcome (halt, error, internal fault, allocation
limit, out of fuel) as the original, with the same error / fault — de-duplication introduces no fault
and no error, and removes none. -/
theorem renum_same_kind :
    match (run code keep fuel allocs ⟨initCore globals fobjs, g, h⟩ {}).1,
          (run code' keep' fuel allocs ⟨initCore globals (fobjs.map (mapFobj cm)), g, h⟩ {}).1 with
    | .halted _, .halted _ => True
    | .failed e _, .failed e' _ => e' = e
    | .fault ft _, .fault ft' _ => ft' = ft
    | .limit _, .limit _ => True
    | .outOfFuel _, .outOfFuel _ => True
    | _, _ => False := by
  have := (renumbered_run hr keep keep' fuel allocs globals fobjs g h).1
  revert this
  cases (run code keep fuel allocs ⟨initCore globals fobjs, g, h⟩ {}).1 <;>
    cases (run code' keep' fuel allocs ⟨initCore globals (fobjs.map (mapFobj cm)), g, h⟩ {}).1 <;>
    simp [OutcomeRelC] <;> intros <;> simp_all

/-- Same number of dispatches and of tracked allocations. -/
theorem renum_same_cost :
    (run code' keep' fuel allocs ⟨initCore globals (fobjs.map (mapFobj cm)), g, h⟩ {}).2.steps =
      (run code keep fuel allocs ⟨initCore globals fobjs, g, h⟩ {}).2.steps ∧
    (run code' keep' fuel allocs ⟨initCore globals (fobjs.map (mapFobj cm)), g, h⟩ {}).2.counted =
      (run code keep fuel allocs ⟨initCore globals fobjs, g, h⟩ {}).2.counted :=
  (renumbered_run hr keep keep' fuel allocs globals fobjs g h).2

end renum

/-! ### from the decidable check -/

/-- A passed check, value constants agreeing: `code'` is the renumbering of `code`. -/
theorem checked_renum (code code' : Code) (tab : List Nat) (starts : Nat → List Nat)
    (hc : checkRenum code code' tab starts = true) (hv : valsAgreeB code code' tab = true) :
    Renum code code' (cmOf tab code'.consts.size) starts :=
  checkRenum_sound code code' tab starts hc (valsAgreeB_sound code code' tab hv)

/-- A passed check, value constants read from the de-duplicated pool (pools with float constants). -/
theorem checked_renum_expand (code code' : Code) (tab : List Nat) (starts : Nat → List Nat)
    (hc : checkRenum code code' tab starts = true) :
    Renum (expandVals code code' tab) code' (cmOf tab code'.consts.size) starts :=
  checkRenum_sound_expand code code' tab starts hc

/-- The two programs as the driver runs them (`initFobjs` assigns the function objects of the constants
that a CONST instruction loads): if the check passes for the prepared programs and their initial
function objects correspond (`initRelB`), the runs from the two initial configurations correspond. -/
theorem checked_programs_run (P P' : Code) (tab : List Nat) (starts : Nat → List Nat)
    (hc : checkRenum (initFobjs P).1 (initFobjs P').1 tab starts = true)
    (hv : ValsAgree (initFobjs P).1 (initFobjs P').1 (cmOf tab (initFobjs P').1.consts.size))
    (hi : initRelB (initFobjs P).2 (initFobjs P').2 tab (initFobjs P').1.consts.size = true)
    (keep keep' fuel : Nat) (allocs : Int) (globals : Array Value) (g : GSt) (h : St) :
    OutcomeRelC (cmOf tab (initFobjs P').1.consts.size) starts
        (run (initFobjs P).1 keep fuel allocs ⟨initCore globals (initFobjs P).2, g, h⟩ {}).1
        (run (initFobjs P').1 keep' fuel allocs ⟨initCore globals (initFobjs P').2, g, h⟩ {}).1 ∧
      (run (initFobjs P').1 keep' fuel allocs ⟨initCore globals (initFobjs P').2, g, h⟩ {}).2.steps =
        (run (initFobjs P).1 keep fuel allocs ⟨initCore globals (initFobjs P).2, g, h⟩ {}).2.steps ∧
      (run (initFobjs P').1 keep' fuel allocs ⟨initCore globals (initFobjs P').2, g, h⟩ {}).2.counted =
        (run (initFobjs P).1 keep fuel allocs ⟨initCore globals (initFobjs P).2, g, h⟩ {}).2.counted := by
  have hfo : (initFobjs P').2 = (initFobjs P).2.map (mapFobj (cmOf tab (initFobjs P').1.consts.size)) := by
    unfold initRelB at hi
    apply Array.toList_inj.mp
    rw [Array.toList_map]
    exact eq_of_beq hi
  rw [hfo]
  exact renumbered_run (checkRenum_sound _ _ tab starts hc hv) keep keep' fuel allocs globals _ g h

/-! ### non-vacuity -/

def exFn (k : Nat) : Fn :=
  { insts := #[opConstant.toUInt8, 0, k.toUInt8, opReturn.toUInt8, 1], numLocals := 0, numParams := 0, varargs := false }

def exMain (k1 k2 k3 k4 : Nat) : Fn :=
  { insts := #[opConstant.toUInt8, 0, k1.toUInt8, opPop.toUInt8,      -- 0, 3
               opConstant.toUInt8, 0, k2.toUInt8, opPop.toUInt8,      -- 4, 7
               opConstant.toUInt8, 0, k3.toUInt8,                     -- 8
               opCall.toUInt8, 0, 0, opPop.toUInt8,                   -- 11, 14
               opConstant.toUInt8, 0, k4.toUInt8, opPop.toUInt8,      -- 15, 18
               opSuspend.toUInt8],                                    -- 19
    numLocals := 0, numParams := 0, varargs := false }

/-- Pool `[7, 7, <fn>, 9]`: main loads all four constants and calls the function, which loads the
duplicate `7` (constant 1). -/
def exCode : Code :=
  { main := exMain 0 1 2 3, consts := #[.val (.int 7), .val (.int 7), .fn (exFn 1) 0, .val (.int 9)] }
/-- What `RemoveDuplicates` makes of it: pool `[7, <fn>, 9]`; the function constant moves from index 2 to
index 1, the constant `9` from 3 to 2, and the operands are rewritten. -/
def exCode' : Code :=
  { main := exMain 0 0 1 2, consts := #[.val (.int 7), .fn (exFn 0) 0, .val (.int 9)] }
def exTab : List Nat := [0, 0, 1, 2]
def exStarts : Nat → List Nat
  | 0 => [0, 3, 4, 7, 8, 11, 14, 15, 18, 19]
  | _ => [0, 3]

/-- non-vacuity: a program with a duplicated int constant and a function constant whose index shifts
passes the check, its value constants agree, and the initial function objects correspond -/
example : checkRenum exCode exCode' exTab exStarts = true := by decide
example : valsAgreeB exCode exCode' exTab = true := by decide
example : initRelB #[(2, [])] #[(1, [])] exTab exCode'.consts.size = true := by decide
example : Renum exCode exCode' (cmOf exTab 3) exStarts := checked_renum exCode exCode' exTab exStarts (by decide) (by decide)
/-- the check is not trivially true: without rewriting the operands it fails -/
example : checkRenum exCode { exCode' with main := exMain 0 1 2 3 } exTab exStarts = false := by decide

end Tengo.Props.C12VM

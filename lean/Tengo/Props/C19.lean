import Tengo.Model.Stdlib
import Tengo.Model.StdlibExpect
import Tengo.Gen.StdlibTables
/-!
C19 — Standard-library wrappers compute what the wrapped Go functions compute.

* `module_tables_match`: the five module tables (and the compiled-regexp method table) read from the
  source on this run equal the tables written from the documentation.
* `adapter_sigs_match`: what the extractor reads from the 44 bodies of stdlib/func_typedefs.go (arity
  test, conversions, error literals, limit idioms) is what the model's signature tables say.
* `adapter_spec`: ONE statement for the whole `FuncAxxRyy` family, for every wrapped function and every
  argument list.
* `coercions_documented`: the conversions used are those of docs/runtime-types.md's table.
* `enum_source_matches`, `enum_code_matches`: the embedded enum module is srcmod_enum.tengo / the audited code.

The wrapped Go functions themselves (strings, strconv, regexp, math, encoding, time) are parameters
(`fn`): nothing is assumed of them. That each table entry *behaves* like the named Go function on the
real code is searched by harness/cmd/c19 (direct Go call as oracle).
-/
namespace Tengo.Props.C19
open Tengo.Model.Stdlib

/-! ### Tables -/

theorem text_table_matches : Tengo.Gen.StdlibTables.textTable = Tengo.Model.StdlibExpect.textTable := by decide
theorem regexp_table_matches : Tengo.Gen.StdlibTables.regexpTable = Tengo.Model.StdlibExpect.regexpTable := by decide
theorem math_table_matches : Tengo.Gen.StdlibTables.mathTable = Tengo.Model.StdlibExpect.mathTable := by decide
theorem base64_table_matches : Tengo.Gen.StdlibTables.base64Table = Tengo.Model.StdlibExpect.base64Table := by decide
theorem hex_table_matches : Tengo.Gen.StdlibTables.hexTable = Tengo.Model.StdlibExpect.hexTable := by decide
theorem times_table_matches : Tengo.Gen.StdlibTables.timesTable = Tengo.Model.StdlibExpect.timesTable := by decide

theorem module_tables_match :
    Tengo.Gen.StdlibTables.textTable = Tengo.Model.StdlibExpect.textTable ∧
    Tengo.Gen.StdlibTables.regexpTable = Tengo.Model.StdlibExpect.regexpTable ∧
    Tengo.Gen.StdlibTables.mathTable = Tengo.Model.StdlibExpect.mathTable ∧
    Tengo.Gen.StdlibTables.base64Table = Tengo.Model.StdlibExpect.base64Table ∧
    Tengo.Gen.StdlibTables.hexTable = Tengo.Model.StdlibExpect.hexTable ∧
    Tengo.Gen.StdlibTables.timesTable = Tengo.Model.StdlibExpect.timesTable :=
  ⟨text_table_matches, regexp_table_matches, math_table_matches, base64_table_matches, hex_table_matches,
   times_table_matches⟩

/-- Every adapter a module table uses is one of the 44 modelled ones. -/
theorem adapter_uses_modelled :
    Tengo.Gen.StdlibTables.adapterUses.all (fun n => (allKinds.map funcName).contains n) = true := by decide

/-- What the extractor reads from the bodies of func_typedefs.go is what `sig`, `ordinalName`, `foundIdx`,
`expected`, `limited` say (incl. the two slips: `FuncASSRSs` names its second argument "first",
`FuncASSRI` reports `args[0]`'s type for its second argument; `FuncAYRS` has no limit test). -/
theorem adapter_sigs_match :
    Tengo.Gen.StdlibTables.adapterTypes = adapterTypes ∧ Tengo.Gen.StdlibTables.adapterConvs = adapterConvs ∧
    Tengo.Gen.StdlibTables.adapterErrs = adapterErrs ∧ Tengo.Gen.StdlibTables.adapterIdioms = adapterIdioms := by
  refine ⟨?_, ?_, ?_, ?_⟩ <;> decide

theorem enum_source_matches : Tengo.Gen.StdlibTables.enumSource = Tengo.Gen.StdlibTables.enumFile := by rfl
theorem enum_embedded_flag : Tengo.Gen.StdlibTables.enumEmbeddedEqualsFile = true := by rfl
theorem enum_code_matches : Tengo.Gen.StdlibTables.enumCode = Tengo.Model.StdlibExpect.enumCode := by decide

/-! ### The adapter family -/

/-- **One statement for all 44 adapters**, every wrapped function `fn`, every argument list, any limits and
any behaviour of the external text/float functions: the adapter written out case by case from
func_typedefs.go is: arity test, then the arguments coerced left to right by the conversion of their kind
(first failure ↦ invalid-argument-type error naming ordinal, expected kind and found type), then the call,
then the result wrapped (Go error ↦ error value, nil error ↦ true, over-limit string/bytes ↦ limit error). -/
theorem adapter_spec (O : Oracle) (L : Limits) (k : AdapterKind) (fn : List Arg → Res) (args : List Value) :
    adapter O L k fn args =
      if args.length ≠ arity k then .runErr .wrongNumArgs
      else match coerceAll O k args with
        | .error e => .runErr e
        | .ok xs => wrapResult k L (fn xs) := by
  show adapter O L k fn args = spec O L k fn args
  cases k <;>
  (rcases args with _ | ⟨a0, _ | ⟨a1, _ | ⟨a2, _ | ⟨a3, t⟩⟩⟩⟩) <;>
  simp [adapter, spec, arity, sig, coerceAll, coerceFrom, coerceArg, convert, wrapResult, limited, wrongNum, bad,
    ordinalName, foundIdx, expected, ordinals, toInt] <;>
  (try (split <;> simp_all <;> (try (split <;> simp_all <;> (try (split <;> simp_all))))))

/-- Shape of the error of a scalar argument: ordinal, expected kind, found type name. -/
theorem coerceArg_scalar (O : Oracle) (k : AdapterKind) (args : List Value) (i : Nat) (a : ArgKind) (v : Value)
    (h : a ≠ .Ss) :
    coerceArg O k args i a v =
      match convert O a v with
      | some x => .ok x
      | none => .error (.invalidArg (ordinalName k i) (expected a) (typeName (args.getD (foundIdx k i) .undef))) := by
  cases a <;> first | contradiction | rfl

/-- An array argument: every element through `ToString`; a non-array is rejected as `"first" / "array"`. -/
theorem coerceArg_strings (O : Oracle) (k : AdapterKind) (args : List Value) (imm : Bool) (xs : List Value) (sh : Bytes) :
    coerceArg O k args 0 .Ss (.arr imm xs sh) = (strsOf O xs 0).map .ss := by
  simp only [coerceArg]; cases strsOf O xs 0 <;> rfl

/-- Wrong argument counts are rejected whatever the arguments are. -/
theorem wrong_count_rejected (O : Oracle) (L : Limits) (k : AdapterKind) (fn : List Arg → Res) (args : List Value)
    (h : args.length ≠ arity k) : adapter O L k fn args = .runErr .wrongNumArgs := by
  rw [adapter_spec]; simp [h]

/-- A Go error of the wrapped function surfaces as an error value (never as a run-time error), for every
adapter whose wrapped function can fail. -/
theorem go_error_is_error_value (k : AdapterKind) (L : Limits) (m : Bytes)
    (h : (sig k).2 = .E ∨ (sig k).2 = .SE ∨ (sig k).2 = .YE ∨ (sig k).2 = .IE ∨ (sig k).2 = .IsE ∨ (sig k).2 = .SsE) :
    wrapResult k L (.err m) = .val (.error m) := by
  rcases h with h | h | h | h | h | h <;> simp [wrapResult, h, retErr, orErr]

/-- A string result above `MaxStringLen` is a limit error for every string-returning adapter but `FuncAYRS`. -/
theorem string_limit_enforced (k : AdapterKind) (L : Limits) (x : Bytes) (hk : (sig k).2 = .S) (hl : limited k = true)
    (hx : x.length > L.maxString) : wrapResult k L (.s x) = .runErr .stringLimit := by
  simp [wrapResult, hk, hl, retStr, hx]

/-! ### The coercions are the documented ones (docs/runtime-types.md, Type Conversion/Coercion Table) -/

inductive Ty where | int | string | float | bool | char | bytes | array | other | undefined
  deriving DecidableEq
inductive Dst where | int | string | float | bytes
  deriving DecidableEq
/-- `X` = no conversion; `total` = always converts; `strconv` = converts when Go's strconv parses the text. -/
inductive Rule where | X | total | strconv
  deriving DecidableEq

def tyOf : Value → Ty
  | .int _ => .int | .str _ => .string | .float _ => .float | .bool _ => .bool | .char _ => .char
  | .bytes _ => .bytes | .arr _ _ _ => .array | .other _ _ => .other | .undef => .undefined

/-- Rows Int, String, Float, Bool, Char, Bytes, Array, (Map/Time/Error), Undefined; columns Int, String, Float,
Bytes of the documented table. -/
def docTable : Ty → Dst → Rule
  | .int, .int => .total | .int, .string => .total | .int, .float => .total | .int, .bytes => .X
  | .string, .int => .strconv | .string, .string => .total | .string, .float => .strconv | .string, .bytes => .total
  | .float, .int => .total | .float, .string => .total | .float, .float => .total | .float, .bytes => .X
  | .bool, .int => .total | .bool, .string => .total | .bool, .float => .X | .bool, .bytes => .X
  | .char, .int => .total | .char, .string => .total | .char, .float => .X | .char, .bytes => .X
  | .bytes, .int => .X | .bytes, .string => .total | .bytes, .float => .X | .bytes, .bytes => .total
  | .array, .string => .total | .array, _ => .X
  | .other, .string => .total | .other, _ => .X
  | .undefined, _ => .X

def dstOf : ArgKind → Dst
  | .I => .int | .I64 => .int | .F => .float | .S => .string | .Y => .bytes | .Ss => .string

/-- The coercion every scalar argument kind uses is decided by the documented table: `X` never converts,
`total` always does, `strconv` entries convert exactly when the text parses; and the documented value rules
hold (`1 / 0`, `int64(f)`, `float64(v)`, `[]byte(s)`, `string(y)`, `string(c)`, strconv text of an int). -/
theorem coercions_documented (O : Oracle) (a : ArgKind) (v : Value) (ha : a ≠ .Ss) :
    (docTable (tyOf v) (dstOf a) = .X → convert O a v = none) ∧
    (docTable (tyOf v) (dstOf a) = .total → (convert O a v).isSome = true) ∧
    (∀ s, v = .str s → dstOf a = .int → convert O a v = (parseInt10 s).map .i) ∧
    (∀ s, v = .str s → dstOf a = .float → convert O a v = (O.parseFloat s).map .f) := by
  cases a <;> first | contradiction | (cases v <;> simp [docTable, tyOf, dstOf, convert, toInt, toInt64, toFloat, toStr, toBytes])

theorem coercion_values (O : Oracle) :
    (∀ b, toInt64 (.bool b) = some (if b then 1 else 0)) ∧ (∀ f, toInt64 (.float f) = some (f2i f)) ∧
    (∀ c, toInt64 (.char c) = some c) ∧ (∀ v, toFloat O (.int v) = some (i2f v)) ∧
    (∀ s, toBytes (.str s) = some s) ∧ (∀ y, toStr O (.bytes y) = some y) ∧ (∀ c, toStr O (.char c) = some (utf8 c)) ∧
    (∀ v, toStr O (.int v) = some (decimal v)) ∧ (∀ f, toStr O (.float f) = some (O.formatFloat f)) ∧
    toStr O .undef = none ∧ (∀ v, toInt v = toInt64 v) :=
  ⟨fun _ => rfl, fun _ => rfl, fun _ => rfl, fun _ => rfl, fun _ => rfl, fun _ => rfl, fun _ => rfl, fun _ => rfl,
   fun _ => rfl, rfl, fun _ => rfl⟩

/-! ### Non-vacuity: concrete instances -/

def O0 : Oracle := ⟨fun _ => none, fun _ => ascii "1.5"⟩
def L0 : Limits := ⟨8, 8⟩
/-- a probe: concatenates its string arguments -/
def cat : List Arg → Res
  | [.s a, .s b] => .s (a ++ b)
  | _ => .unit

-- right-typed, coerced (int ↦ strconv text), under the limit
example : adapter O0 L0 .ASSRS cat [.str (ascii "ab"), .int (-12)] = .val (.str (ascii "ab-12")) := by decide
-- over the limit
example : adapter O0 L0 .ASSRS cat [.str (ascii "abcdef"), .str (ascii "ghi")] = .runErr .stringLimit := by decide
-- wrong type, second ordinal
example : adapter O0 L0 .ASSRS cat [.str (ascii "a"), .undef] =
    .runErr (.invalidArg "second" "string(compatible)" "undefined") := by decide
-- the two slips of the source, as they are
example : adapter O0 L0 .ASSRSs cat [.str (ascii "a"), .undef] =
    .runErr (.invalidArg "first" "string(compatible)" "undefined") := by decide
example : adapter O0 L0 .ASSRI cat [.int 1, .undef] = .runErr (.invalidArg "second" "string(compatible)" "int") := by decide
-- wrong count
example : adapter O0 L0 .ASSRS cat [.str []] = .runErr .wrongNumArgs := by decide
-- Go error ↦ error value; nil error ↦ true
example : adapter O0 L0 .ASRE (fun _ => .err (ascii "boom")) [.str []] = .val (.error (ascii "boom")) := by decide
example : adapter O0 L0 .ASRE (fun _ => .unit) [.str []] = .val (.bool true) := by decide
-- float ↦ int64(f) truncation; "12" ↦ 12; bytes are not int-compatible
example : adapter O0 L0 .AI64RI64 (fun | [.i v] => .i (v + 1) | _ => .unit) [.float 0xC00C000000000000] = .val (.int (-2)) := by decide
example : adapter O0 L0 .AI64RI64 (fun | [.i v] => .i (v + 1) | _ => .unit) [.str (ascii "12")] = .val (.int 13) := by decide
example : adapter O0 L0 .AI64RI64 (fun _ => .i 0) [.bytes []] = .runErr (.invalidArg "first" "int(compatible)" "bytes") := by decide
-- array argument, element error
example : adapter O0 L0 .ASsSRS (fun _ => .s []) [.arr false [.str [], .undef] [], .str []] =
    .runErr (.invalidArg "first[1]" "string(compatible)" "undefined") := by decide
-- hypotheses of go_error_is_error_value / string_limit_enforced are met by real adapters
example : (sig .ASRYE).2 = .YE := rfl
example : (sig .ASSRS).2 = .S ∧ limited .ASSRS = true ∧ (ascii "123456789").length > L0.maxString := by decide
example : i2f 3 = 0x4008000000000000 ∧ i2f (-1) = 0xBFF0000000000000 ∧ i2f 9007199254740993 = 0x4340000000000000 ∧
    f2i 0x7FF8000000000001 = minInt64 ∧ f2i 0x43E0000000000000 = minInt64 ∧ f2i 0x3FE0000000000000 = 0 := by decide

end Tengo.Props.C19

import Tengo.Model.Clone
import Tengo.Gen.LockDiscipline
/-!
C08 — clones of a compiled script run concurrently without interference.

Proved here (model: `Tengo/Model/Clone.lean`):
* `clone_separates_partial`  CloneSafe globals: nothing reachable from the clone is reachable from the
  original except shared locations; `clone_separates_false` (O14): false without CloneSafe;
  `clone_same_data`: the clone starts from the same data.
* `noninterference`  for EVERY schedule of any family of machines with `NoInterf` footprints, each
  machine sees exactly its solo run; `interleaving_eq_sequential`, `solo_result`.
* `step_footprint`  owned writes + owned-or-shared accesses ⇒ `NoInterf`;
  `op_writes_owned_partial` for the memory operations of a run; `shared_readonly_false` (O15, O16).
* `api_lock_discipline`, `api_conflict_needs_exclusive`, `rw_compatible`, `api_no_race`,
  `cow_*` about the API of one `Compiled`; `replace_on_cloned_original_writes_shared` (C08-K1).
* `mutators_match`, `fileset_writers_match`, `copy_shape_matches`, `clone_shape_matches`:
  regenerated tables equal the expectation the model was written from.
-/
namespace Tengo.Props.C08
open Tengo.Model.Clone

/-! ## 1. Clone separates -/

mutual
  theorem copy_locs_owner (i : Nat) : ∀ (v : Val) (n : Nat), v.cloneSafe = true →
      ∀ l, l ∈ (copy i v n).1.locs → l.owner = Owner.owned i ∨ l.owner = Owner.shared
    | .single k, n, _, l, hl => by
        simp [copy, Val.locs, singleLoc] at hl; subst hl; exact Or.inr rfl
    | .atom _ a, n, _, l, hl => by
        simp [copy, Val.locs] at hl; subst hl; exact Or.inl rfl
    | .box _ k items, n, hs, l, hl => by
        simp [copy, Val.locs] at hl
        rcases hl with hl | hl
        · subst hl; exact Or.inl rfl
        · exact copyItems_locs_owner i items (n + 1) (by simpa [Val.cloneSafe] using hs) l hl
    | .clos _ fn .nil, n, _, l, hl => by
        simp [copy, Val.locs, Items.locs] at hl; subst hl; exact Or.inl rfl
    | .clos _ fn (.cons _ _ _), n, hs, l, hl => by simp [Val.cloneSafe] at hs
    | .cell _ _, n, hs, l, hl => by simp [Val.cloneSafe] at hs
    | .host _, n, hs, l, hl => by simp [Val.cloneSafe] at hs
  theorem copyItems_locs_owner (i : Nat) : ∀ (g : Items) (n : Nat), g.cloneSafe = true →
      ∀ l, l ∈ (copyItems i g n).1.locs → l.owner = Owner.owned i ∨ l.owner = Owner.shared
    | .nil, n, _, l, hl => by simp [copyItems, Items.locs] at hl
    | .cons key v tl, n, hs, l, hl => by
        simp [Items.cloneSafe] at hs
        simp [copyItems, Items.locs] at hl
        rcases hl with hl | hl
        · exact copy_locs_owner i v n hs.1 l hl
        · exact copyItems_locs_owner i tl _ hs.2 l hl
end

/-- the original lies outside the region the clone allocates in -/
def NotOwnedBy (i : Nat) (g : Items) : Prop := ∀ l, l ∈ g.locs → l.owner ≠ Owner.owned i

/-- **clone_separates** (CloneSafe part). -/
theorem clone_separates_partial (i : Nat) (g : Items) (hs : g.cloneSafe = true) (hn : NotOwnedBy i g) :
    Sep (cloneGlobals i g) g := by
  intro l hc ho
  rcases copyItems_locs_owner i g 0 hs l hc with h | h
  · exact absurd h (hn l ho)
  · exact h

/-- full statement (no CloneSafe hypothesis) -/
def clone_separates_full : Prop :=
  ∀ (i : Nat) (g : Items), NotOwnedBy i g → Sep (cloneGlobals i g) g

/-- O14 witness: global `f` holds a closure that captured one cell (a counter). -/
def o14Globals : Items :=
  .cons "f" (.clos ⟨.owned 0, 0⟩ 1 (.cons "c" (.cell ⟨.owned 0, 1⟩ (.atom ⟨.owned 0, 2⟩ (.int 1))) .nil)) .nil

/-- **clone_separates is false** without CloneSafe (O14): the clone of `o14Globals` reaches the
original's counter cell, which is owned by the original. -/
theorem clone_separates_false : ¬ clone_separates_full := by
  intro h
  have hn : NotOwnedBy 1 o14Globals := by
    intro l hl
    simp [o14Globals, Items.locs, Val.locs] at hl
    rcases hl with hl | hl | hl <;> subst hl <;> simp
  have := h 1 o14Globals hn ⟨.owned 0, 1⟩
    (by simp [cloneGlobals, o14Globals, copyItems, copy, Items.locs, Val.locs])
    (by simp [o14Globals, Items.locs, Val.locs])
  simp at this

/-- non-vacuity of `clone_separates_partial`: an array of a string and a map, a plain function -/
def safeGlobals : Items :=
  .cons "a" (.box ⟨.owned 0, 0⟩ .arr (.cons "0" (.atom ⟨.owned 0, 1⟩ (.str "x"))
      (.cons "1" (.box ⟨.owned 0, 2⟩ .imap (.cons "k" (.atom ⟨.owned 0, 3⟩ (.int 5)) .nil)) .nil)))
  (.cons "f" (.clos ⟨.owned 0, 4⟩ 2 .nil) (.cons "t" (.single 1) .nil))

example : safeGlobals.cloneSafe = true ∧ NotOwnedBy 1 safeGlobals := by
  refine ⟨by decide, ?_⟩
  intro l hl
  simp [safeGlobals, Items.locs, Val.locs, singleLoc] at hl
  rcases hl with hl | hl | hl | hl | hl | hl <;> subst hl <;> simp

mutual
  theorem copy_data (i : Nat) : ∀ (v : Val) (n : Nat), (copy i v n).1.data = v.data
    | .single _, _ => by simp [copy, Val.data]
    | .atom _ _, _ => by simp [copy, Val.data]
    | .box _ k items, n => by
        simp [copy, Val.data, copyItems_data i items (n + 1)]
        cases k <;> rfl
    | .clos _ _ _, _ => by simp [copy, Val.data]
    | .cell _ _, _ => by simp [copy, Val.data]
    | .host _, _ => by simp [copy, Val.data]
  theorem copyItems_data (i : Nat) : ∀ (g : Items) (n : Nat), (copyItems i g n).1.data = g.data
    | .nil, _ => by simp [copyItems, Items.data]
    | .cons key v tl, n => by
        simp [copyItems, Items.data, copy_data i v n, copyItems_data i tl _]
end

/-- the clone starts from the same data as the original (immutables thawed on both sides) -/
theorem clone_same_data (i : Nat) (g : Items) : (cloneGlobals i g).data = g.data :=
  copyItems_data i g 0

/-! ## 2. Non-interference over all schedules -/

section
variable {V : Type}

theorem iter_succ_apply (f : α → α) (n : Nat) (a : α) : iter f (n + 1) a = iter f n (f a) := rfl

/-- key lemma, generalised over the memory the solo run starts from -/
theorem exec_agrees (M : Nat → Machine V) (hN : NoInterf M) (i : Nat) :
    ∀ (s : List Nat) (m m' : Loc → V), (∀ l, (M i).acc l → m l = m' l) →
      ∀ l, (M i).acc l → exec M s m l = iter (M i).step (s.count i) m' l := by
  intro s
  induction s with
  | nil => intro m m' h l hl; simpa [exec, iter] using h l hl
  | cons j t ih =>
    intro m m' h l hl
    by_cases hji : j = i
    · subst hji
      have : (j :: t).count j = t.count j + 1 := by simp
      rw [this, iter_succ_apply]
      exact ih _ _ (fun l hl => (M j).loc m m' h l hl) l hl
    · have hc : (j :: t).count i = t.count i := by
        simp [hji]
      rw [hc]
      refine ih _ _ (fun l hl => ?_) l hl
      have : ¬ (M j).wr l := fun hw => hN j i hji l hw hl
      rw [(M j).frame m l this]
      exact h l hl

/-- **noninterference**: under `NoInterf`, after ANY schedule every machine sees, on everything it
can access, exactly the memory of its solo run with the same number of own steps. -/
theorem noninterference (M : Nat → Machine V) (hN : NoInterf M) (s : List Nat) (m : Loc → V) (i : Nat) :
    ∀ l, (M i).acc l → exec M s m l = iter (M i).step (s.count i) m l :=
  exec_agrees M hN i s m m (fun _ _ => rfl)

/-- locations nobody writes keep their value -/
theorem exec_frame (M : Nat → Machine V) (s : List Nat) :
    ∀ (m : Loc → V) (l : Loc), (∀ i, i ∈ s → ¬ (M i).wr l) → exec M s m l = m l := by
  induction s with
  | nil => intro m l _; rfl
  | cons j t ih =>
    intro m l h
    simp only [exec]
    rw [ih _ l (fun i hi => h i (List.mem_cons_of_mem _ hi))]
    exact (M j).frame m l (h j (List.mem_cons_self ..))

/-- two schedules with the same number of steps per machine end in the same memory: in particular
every interleaving equals the sequential composition. Needs: what a machine writes it can access. -/
theorem interleaving_eq (M : Nat → Machine V) (hN : NoInterf M) (hwa : ∀ i l, (M i).wr l → (M i).acc l)
    (s s' : List Nat) (hc : ∀ i, s.count i = s'.count i) (m : Loc → V) :
    exec M s m = exec M s' m := by
  funext l
  by_cases h : ∃ i, (i ∈ s ∨ i ∈ s') ∧ (M i).wr l
  · obtain ⟨i, _, hw⟩ := h
    rw [noninterference M hN s m i l (hwa i l hw), noninterference M hN s' m i l (hwa i l hw), hc i]
  · have h1 : ∀ i, i ∈ s → ¬ (M i).wr l := fun i hi hw => h ⟨i, Or.inl hi, hw⟩
    have h2 : ∀ i, i ∈ s' → ¬ (M i).wr l := fun i hi hw => h ⟨i, Or.inr hi, hw⟩
    rw [exec_frame M s m l h1, exec_frame M s' m l h2]

theorem count_sequential (c : Nat → Nat) (i : Nat) : ∀ k, (sequential c k).count i = if i < k then c i else 0
  | 0 => by simp [sequential]
  | k + 1 => by
      simp only [sequential, List.count_append, count_sequential c i k, List.count_replicate]
      by_cases h1 : i < k
      · have : ¬ (k == i) = true := by simp; omega
        simp [h1, this]; omega
      · by_cases h2 : i = k
        · subst h2; simp
        · have : ¬ (k == i) = true := by simp; omega
          have h3 : ¬ i < k + 1 := by omega
          simp [h1, this, h3]

/-- **every interleaving of K runs equals their sequential composition** (machines `0 … K-1`). -/
theorem interleaving_eq_sequential (M : Nat → Machine V) (hN : NoInterf M)
    (hwa : ∀ i l, (M i).wr l → (M i).acc l) (K : Nat) (s : List Nat) (hs : ∀ i, i ∈ s → i < K) (m : Loc → V) :
    exec M s m = exec M (sequential (fun i => s.count i) K) m := by
  apply interleaving_eq M hN hwa
  intro i
  rw [count_sequential]
  by_cases h : i < K
  · simp [h]
  · simp [h]
    exact List.count_eq_zero.mpr (fun hi => h (hs i hi))

/-- machine `i` run alone from `m` has finished after `n` steps (further steps change nothing it sees) -/
def Done (M : Nat → Machine V) (i n : Nat) (m : Loc → V) : Prop :=
  ∀ k, n ≤ k → ∀ l, (M i).acc l → iter (M i).step k m l = iter (M i).step n m l

/-- **each clone's result equals its solo result**: in any schedule that gives clone `i` at least the
steps its solo run needs, `i` ends with its solo result. -/
theorem solo_result (M : Nat → Machine V) (hN : NoInterf M) (s : List Nat) (m : Loc → V) (i n : Nat)
    (hd : Done M i n m) (hn : n ≤ s.count i) :
    ∀ l, (M i).acc l → exec M s m l = iter (M i).step n m l := by
  intro l hl
  rw [noninterference M hN s m i l hl]
  exact hd _ hn l hl

/-- **step_footprint ⇒ NoInterf**: machines that write only their own region and access only their own
region and shared locations do not interfere. (`WritesOwned` contains `shared_readonly`.) -/
theorem step_footprint (M : Nat → Machine V) (hw : WritesOwned M) (ha : AccOwnedOrShared M) : NoInterf M := by
  intro i j hij l hwl hal
  have h1 := hw i l hwl
  rcases ha j l hal with h2 | h2
  · rw [h1] at h2; injection h2 with h3; exact hij h3
  · rw [h1] at h2; cases h2

end

/-! ### Non-vacuity: K counters reading one shared constant -/

/-- clone `i` adds the shared constant at `⟨shared,1⟩` to its own cell `⟨owned i,0⟩` -/
def counter (i : Nat) : Machine Int where
  step m l := if l = ⟨.owned i, 0⟩ then m ⟨.owned i, 0⟩ + m ⟨.shared, 1⟩ else m l
  acc l := l = ⟨.owned i, 0⟩ ∨ l = ⟨.shared, 1⟩
  wr l := l = ⟨.owned i, 0⟩
  frame m l h := if_neg h
  loc m m' h l hl := by
    show (if l = ⟨.owned i, 0⟩ then m ⟨.owned i, 0⟩ + m ⟨.shared, 1⟩ else m l)
       = (if l = ⟨.owned i, 0⟩ then m' ⟨.owned i, 0⟩ + m' ⟨.shared, 1⟩ else m' l)
    rw [h ⟨.owned i, 0⟩ (Or.inl rfl), h ⟨.shared, 1⟩ (Or.inr rfl), h l hl]

example : WritesOwned counter ∧ AccOwnedOrShared counter := by
  constructor
  · intro i l h; simp only [counter] at h; rw [h]
  · intro i l h; simp only [counter] at h; rcases h with h | h <;> rw [h] <;> simp

theorem counters_noninterf : NoInterf counter :=
  step_footprint counter (by intro i l h; simp only [counter] at h; rw [h])
    (by intro i l h; simp only [counter] at h; rcases h with h | h <;> rw [h] <;> simp)

/-- a concrete interleaving: clone 0's cell after the schedule [1,0,1,1,0] equals two solo steps -/
example (m : Loc → Int) : exec counter [1, 0, 1, 1, 0] m ⟨.owned 0, 0⟩ = iter (counter 0).step 2 m ⟨.owned 0, 0⟩ :=
  noninterference counter counters_noninterf _ m 0 _ (Or.inl rfl)

/-- a machine that writes a SHARED location (a lazily filled cache, as O15/O16) breaks the hypothesis -/
def cacheFiller (i : Nat) : Machine Int where
  step m l := if l = ⟨.shared, 1⟩ then 1 else m l
  acc l := l = ⟨.owned i, 0⟩ ∨ l = ⟨.shared, 1⟩
  wr l := l = ⟨.shared, 1⟩
  frame m l h := if_neg h
  loc m m' h l hl := by
    show (if l = ⟨.shared, 1⟩ then (1 : Int) else m l) = (if l = ⟨.shared, 1⟩ then 1 else m' l)
    rw [h l hl]

theorem cache_fillers_interfere : ¬ NoInterf cacheFiller := by
  intro h
  exact h 0 1 (by decide) ⟨.shared, 1⟩ rfl (Or.inr rfl)

/-! ## 3. Footprints of the memory operations of a run; shared_readonly -/

/-- full statement: no operation of any clone writes a shared location -/
def shared_readonly_full : Prop :=
  ∀ (i : Nat) (op : Op), op.targetsOwned i → ∀ l, l ∈ op.writes i → l.owner ≠ Owner.shared

/-- **shared_readonly is false** on the unchanged tree. O15: `String.IndexGet`/`Iterate` on a shared
string constant whose rune cache is empty writes `runeStr`; O16: a file-set lookup that misses the
one-entry cache writes `LastFile`. -/
theorem shared_readonly_false : ¬ shared_readonly_full := by
  intro h
  exact h 0 (.indexGet (constLoc 3) true false) (Or.inr rfl) (constLoc 3) (by simp [Op.writes]) rfl

theorem shared_readonly_false_O16 : ¬ shared_readonly_full := by
  intro h
  exact h 0 (.resolvePos false) trivial lastFileLoc (by simp [Op.writes]) rfl

/-- **step_footprint / shared_readonly (partial)**: an operation whose mutated target lies in the
clone's own region (the separation invariant) and that is not one of the two cache fills writes only
locations owned by the clone, and reads only owned or shared ones when its target is. -/
theorem op_writes_owned_partial (i : Nat) (op : Op) (ht : op.targetsOwned i)
    (hc : op.touchesSharedCache = false) : ∀ l, l ∈ op.writes i → l.owner = Owner.owned i := by
  intro l hl
  cases op with
  | constant k => simp [Op.writes] at hl
  | getGlobal g => simp [Op.writes] at hl
  | setGlobal g => simp [Op.writes] at hl; subst hl; rfl
  | indexGet t s c =>
      cases s <;> cases c <;> simp [Op.writes] at hl
      subst hl
      simp [Op.touchesSharedCache] at hc
      rcases ht with h | h
      · exact h
      · exact absurd h hc
  | indexSet t => simp [Op.writes] at hl; subst hl; exact ht
  | iterNext t => simp [Op.writes] at hl; subst hl; exact ht
  | getFree c => simp [Op.writes] at hl
  | setFree c => simp [Op.writes] at hl; subst hl; exact ht
  | resolvePos hit =>
      cases hit
      · simp [Op.touchesSharedCache] at hc
      · simp [Op.writes] at hl

example : (Op.indexSet ⟨.owned 2, 7⟩).targetsOwned 2 ∧ (Op.indexSet ⟨.owned 2, 7⟩).touchesSharedCache = false :=
  ⟨rfl, rfl⟩
/-- indexing a string the clone built itself, cache empty: allowed, writes the clone's own string -/
example : (Op.indexGet ⟨.owned 2, 9⟩ true false).targetsOwned 2 ∧
    (Op.indexGet ⟨.owned 2, 9⟩ true false).touchesSharedCache = false := ⟨Or.inl rfl, by decide⟩

/-! ## 4. API of one `Compiled`: lock discipline -/

def modeLock : Mode → String × String
  | .exclusive => ("Lock", "Unlock")
  | .shared => ("RLock", "RUnlock")

/-- the nine actions in the order of the regenerated table (by method name) -/
def apiByName : List Api := [.clone, .get, .getAll, .isDefined, .replaceBuiltinModule, .run, .runContext, .set, .size]

theorem apiByName_complete (a : Api) : a ∈ apiByName := by cases a <;> decide

/-- expected (method, first lock call, deferred unlock) from the model's API table -/
def expectedLocks : List (String × String × String) :=
  (apiByName.map (fun a => (a.name, (modeLock a.mode).1, (modeLock a.mode).2)))

def genLocks : List (String × String × String) :=
  Tengo.Gen.LockDiscipline.compiledMethods.map (fun r => (r.1, r.2.1, r.2.2.1))

/-- a method of the regenerated table writes receiver state: it assigns a receiver field / element,
hands `globals` to a VM, or calls `Bytecode.ReplaceBuiltinModule` -/
def genIsWriter (r : String × String × String × List String × List String × List String) : Bool :=
  !r.2.2.2.2.1.isEmpty || r.2.2.2.2.2.any (fun c => c == "bytecode.ReplaceBuiltinModule" || c == "NewVM(bytecode,globals,maxAllocs)")

/-- calls through receiver fields the model knows about (anything new breaks the theorem) -/
def knownCalls : List String :=
  ["bytecode.Clone", "bytecode.ReplaceBuiltinModule", "bytecode.Size", "NewVM(bytecode,globals,maxAllocs)"]

/-- **api_lock_discipline** (regenerated from script.go on every run): every method of `*Compiled`
takes the lock in the expected mode in its FIRST statement and defers the matching unlock in its
second; the methods are exactly the nine of the model; every method that writes receiver state takes
the exclusive lock; the methods with a shared lock write nothing; `ReplaceBuiltinModule` copies
`globalIndexes` and `bytecode` before it writes unless `fullClone`; no unknown call receives receiver
fields. -/
theorem api_lock_discipline :
    genLocks = expectedLocks ∧
    (Tengo.Gen.LockDiscipline.compiledMethods.all (fun r => !genIsWriter r || r.2.1 == "Lock")) = true ∧
    (Tengo.Gen.LockDiscipline.compiledMethods.all (fun r => r.2.1 != "RLock" || !genIsWriter r)) = true ∧
    (Tengo.Gen.LockDiscipline.compiledMethods.all (fun r => r.2.2.2.2.2.all knownCalls.contains)) = true ∧
    Tengo.Gen.LockDiscipline.replaceCopiesFirst = true := by decide

/-- the model's write sets agree with the regenerated table on who is a writer -/
theorem api_writers_match :
    (Api.all.map (fun a => (a.name, !a.writes.isEmpty))) =
    (Api.all.map (fun a => (a.name,
      (Tengo.Gen.LockDiscipline.compiledMethods.any (fun r => r.1 == a.name && genIsWriter r))))) := by decide

/-- two API actions that conflict (one writes what the other reads or writes) are never both readers -/
theorem api_conflict_needs_exclusive (a b : Api) (h : a.conflict b = true) :
    a.mode = Mode.exclusive ∨ b.mode = Mode.exclusive := by
  cases a <;> cases b <;> first | (left; rfl) | (right; rfl) | (exact absurd h (by decide))

/-- every writer is exclusive (model table) -/
theorem api_writer_exclusive (a : Api) (h : a.writes ≠ []) : a.mode = Mode.exclusive := by
  cases a <;> first | rfl | (exact absurd rfl h)

theorem lockStep_compatible (h : Holders) (e : LockEv) (h' : Holders)
    (hc : Compatible h) (hs : lockStep h e = some h') : Compatible h' := by
  cases e with
  | acquire t m =>
    simp only [lockStep] at hs
    split at hs
    · rename_i hcan
      injection hs with hs; subst hs
      cases m with
      | exclusive =>
        simp [canAcquire, List.isEmpty_iff] at hcan
        subst hcan; left; simp
      | shared =>
        right
        intro x hx
        simp [canAcquire] at hcan
        rcases List.mem_cons.mp hx with hx | hx
        · subst hx; rfl
        · exact hcan x.1 x.2 hx
    · cases hs
  | release t =>
    simp only [lockStep] at hs
    injection hs with hs; subst hs
    rcases hc with hc | hc
    · left
      exact Nat.le_trans (List.length_filter_le _ _) hc
    · right
      intro x hx
      exact hc x (List.mem_filter.mp hx).1

/-- **rw_compatible**: in every reachable state of the RWMutex, two simultaneous holders are readers -/
theorem rw_compatible : ∀ (es : List LockEv) (h h' : Holders), Compatible h → lockRun h es = some h' → Compatible h'
  | [], h, h', hc, hr => by simp [lockRun] at hr; subst hr; exact hc
  | e :: es, h, h', hc, hr => by
    simp only [lockRun] at hr
    split at hr
    · rename_i h1 hs
      exact rw_compatible es h1 h' (lockStep_compatible h e h1 hc hs) hr
    · cases hr

/-- **api_no_race**: in every reachable state of the mutex, two different simultaneous holders that
execute API actions in the mode the table prescribes do not conflict. -/
theorem api_no_race (es : List LockEv) (h : Holders) (hr : lockRun [] es = some h)
    (t1 t2 : Nat) (a1 a2 : Api) (h1 : (t1, a1.mode) ∈ h) (h2 : (t2, a2.mode) ∈ h)
    (hlen : 2 ≤ h.length) :
    a1.conflict a2 = false := by
  have hc := rw_compatible es [] h (Or.inl (by simp)) hr
  rcases hc with hc | hc
  · omega
  · have m1 := hc _ h1
    have m2 := hc _ h2
    simp at m1 m2
    cases hcf : a1.conflict a2 with
    | false => rfl
    | true =>
      rcases api_conflict_needs_exclusive a1 a2 hcf with h | h
      · rw [h] at m1; cases m1
      · rw [h] at m2; cases m2

/-- non-vacuity: two readers hold the lock together; a writer gets it only alone -/
example : lockRun [] [.acquire 1 .shared, .acquire 2 .shared] = some [(2, .shared), (1, .shared)] := by decide
example : lockRun [] [.acquire 1 .shared, .acquire 2 .exclusive] = none := by decide
example : lockRun [] [.acquire 1 .shared, .release 1, .acquire 2 .exclusive] = some [(2, .exclusive)] := by decide
example : Api.conflict .set .get = true ∧ Api.conflict .get .clone = false := by decide

/-- copy-on-write: `ReplaceBuiltinModule` on a clone writes a `Constants` slice the clone owns, and a
second call writes the same private copy -/
theorem cow_replace_on_clone_owned (i : Nat) (orig : Cow) :
    ((Cow.cloneOf orig).replace i).2 = Owner.owned i ∧
    ((((Cow.cloneOf orig).replace i).1).replace i).2 = Owner.owned i := by
  simp [Cow.cloneOf, Cow.replace]

/-- on a compiled object nobody cloned, the write goes to its own bytecode -/
theorem cow_replace_on_fresh_owned (i : Nat) : ((Cow.compiled i).replace i).2 = Owner.owned i := by
  simp [Cow.compiled, Cow.replace]

/-- finding C08-K1: `Clone` does not reset the ORIGINAL's `fullClone`, so `ReplaceBuiltinModule` on an
original that has clones writes the bytecode its clones share -/
theorem replace_on_cloned_original_writes_shared (i : Nat) :
    (((Cow.compiled i).afterCloned).replace i).2 = Owner.shared := by
  simp [Cow.compiled, Cow.afterCloned, Cow.replace]

/-! ## 5. Regenerated inventories -/

/-- expected mutating-method inventory of objects.go, iterator.go, bytecode.go -/
def expectedMutators : List (String × String × String) := [
  ("Array.IndexSet", "Value", "elem"),
  ("ArrayIterator.Next", "i", "field"),
  ("Bool.GobDecode", "value", "field"),
  ("Bytecode.Decode", "Constants", "addr"),
  ("Bytecode.Decode", "Constants", "elem"),
  ("Bytecode.Decode", "FileSet", "addr"),
  ("Bytecode.Decode", "MainFunction", "addr"),
  ("Bytecode.RemoveDuplicates", "Constants", "elem"),
  ("Bytecode.RemoveDuplicates", "Constants", "field"),
  ("Bytecode.ReplaceBuiltinModule", "Constants", "elem"),
  ("BytesIterator.Next", "i", "field"),
  ("Map.IndexSet", "Value", "elem"),
  ("MapIterator.Next", "i", "field"),
  ("String.IndexGet", "runeStr", "field"),
  ("String.Iterate", "runeStr", "field"),
  ("StringIterator.Next", "i", "field")]

/-- **mutators_match** -/
theorem mutators_match : Tengo.Gen.LockDiscipline.mutators = expectedMutators := by decide

/-- how the model accounts for each mutator -/
inductive MutClass where
  | opIndexSet        -- `Op.indexSet`: target owned by the running clone (separation)
  | opIterNext        -- `Op.iterNext`: iterators are created by the run that uses them
  | sharedCache       -- `Op.indexGet … true false`: may hit a shared constant (O15)
  | loadTime          -- gob decoding / compile time only: no clone exists yet
  | apiCow            -- `Compiled.ReplaceBuiltinModule` under the exclusive lock, copy-on-write
  deriving DecidableEq, Repr

def classify : String → Option MutClass
  | "Array.IndexSet" | "Map.IndexSet" => some .opIndexSet
  | "ArrayIterator.Next" | "BytesIterator.Next" | "MapIterator.Next" | "StringIterator.Next" => some .opIterNext
  | "String.IndexGet" | "String.Iterate" => some .sharedCache
  | "Bool.GobDecode" | "Bytecode.Decode" | "Bytecode.RemoveDuplicates" => some .loadTime
  | "Bytecode.ReplaceBuiltinModule" => some .apiCow
  | _ => none

/-- every mutating method of the regenerated inventory is accounted for by the model, and the only
ones that can write a shared object during a run are the two `runeStr` fills -/
theorem mutators_classified :
    (Tengo.Gen.LockDiscipline.mutators.all (fun r => (classify r.1).isSome)) = true ∧
    (Tengo.Gen.LockDiscipline.mutators.filter (fun r => classify r.1 == some .sharedCache)).map (·.1)
      = ["String.IndexGet", "String.Iterate"] := by decide

def expectedFileSetWriters : List (String × String × String) := [
  ("SourceFile.AddLine", "Lines", "field"),
  ("SourceFileSet.AddFile", "Base", "field"),
  ("SourceFileSet.AddFile", "Files", "field"),
  ("SourceFileSet.AddFile", "LastFile", "field"),
  ("SourceFileSet.file", "LastFile", "field")]

/-- the file set is written at parse time (`AddFile`, `AddLine`) and by the position lookup `file`
(O16: reachable from a failing run through `Position`) -/
theorem fileset_writers_match : Tengo.Gen.LockDiscipline.fileSetWriters = expectedFileSetWriters := by decide

/-- what `Copy()` of each value type returns, as the model's `copy` was written from -/
def expectedCopyShape : List (String × String) := [
  ("Array", "fresh+deep{Value=local}"),
  ("ArrayIterator", "fresh{v=shared:v,i=shared:i,l=shared:l}"),
  ("Bool", "self"),
  ("BuiltinFunction", "fresh{Value=shared:Value}"),
  ("Bytes", "fresh{Value=fresh-slice-same-elems:Value}"),
  ("BytesIterator", "fresh{v=shared:v,i=shared:i,l=shared:l}"),
  ("Char", "fresh{Value=shared:Value}"),
  ("CompiledFunction", "fresh{Instructions=fresh-slice-same-elems:Instructions,NumLocals=shared:NumLocals,NumParameters=shared:NumParameters,VarArgs=shared:VarArgs,Free=fresh-slice-same-elems:Free,SourceMap=shared:SourceMap}"),
  ("Error", "fresh+deep{Value=deep:Value}"),
  ("Float", "fresh{Value=shared:Value}"),
  ("ImmutableArray", "fresh-as:Array+deep{Value=local}"),
  ("ImmutableMap", "fresh-as:Map+deep{Value=local}"),
  ("Int", "fresh{Value=shared:Value}"),
  ("Map", "fresh+deep{Value=local}"),
  ("MapIterator", "fresh{v=shared:v,k=shared:k,i=shared:i,l=shared:l}"),
  ("ObjectImpl", "nil"),
  ("ObjectPtr", "self"),
  ("String", "fresh{Value=shared:Value}"),
  ("StringIterator", "fresh{v=shared:v,i=shared:i,l=shared:l}"),
  ("Time", "fresh{Value=shared:Value}"),
  ("Undefined", "self"),
  ("UserFunction", "fresh{Value=shared:Value,Name=shared:Name}")]

theorem copy_shape_matches : Tengo.Gen.LockDiscipline.copyShape = expectedCopyShape := by rfl

/-- `Compiled.Clone` shares bytecode and index, allocates the globals slice and stores `g.Copy()`;
`Bytecode.Clone` shares everything but the `Constants` slice; `Script.Compile` sets `fullClone` -/
theorem clone_shape_matches :
    Tengo.Gen.LockDiscipline.cloneFields =
      [("bytecode", "shared:bytecode"), ("fullClone", "const:false"), ("globalIndexes", "shared:globalIndexes"),
       ("globals", "fresh"), ("maxAllocs", "shared:maxAllocs")] ∧
    Tengo.Gen.LockDiscipline.cloneCopiesGlobals = true ∧
    Tengo.Gen.LockDiscipline.compileFullClone = "true" ∧
    Tengo.Gen.LockDiscipline.bytecodeCloneFields =
      [("Constants", "fresh-slice-same-elems:Constants"), ("FileSet", "shared:FileSet"),
       ("MainFunction", "shared:MainFunction")] := by decide

end Tengo.Props.C08

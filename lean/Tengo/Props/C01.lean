import Tengo.Props.VM
import Tengo.Proofs.F0Stmts
import Tengo.Proofs.F1Stmts
import Tengo.Model.F0Compile
import Tengo.Model.SpecEval
import Tengo.Gen.Tokens
import Tengo.Gen.Opcodes
import Tengo.Gen.Builtins
/-!
C01 — Compile-and-run agrees with the language's reference semantics.

* The reference semantics is the executable interpreter `Tengo.Model.Spec` (docs/tutorial.md,
  operators.md, runtime-types.md, builtins.md); on every run it is the oracle the real
  `Script.Compile`/`RunContext`/`GetAll` is compared with on generated programs.
* For fragment F0 (expressions over constants and globals with every unary/binary operator, `==`,
  `!=`, `!`, `?:`, `&&`, `||`; expression statements, assignments to globals, if / else) the
  agreement is a THEOREM: the code the compiler model emits — compared byte for byte with the real
  compiler on every run — computes on the VM-step model exactly what the reference evaluator says,
  for every program, every placement, every data semantics (`program_correct_F0`).
* The integer arithmetic of the reference semantics (mathematical integers + `wrap64`) is proved
  equal to 64-bit two's-complement arithmetic (Go's int64).
-/
namespace Tengo.Props.C01
open Tengo.Model.F0 Tengo.Model.Spec

/-! ### ties to the regenerated tables -/

theorem opcode_table_matches : Tengo.Gen.Opcodes.table = Tengo.Model.Opcodes.table := by decide

/-- The token numbers the compiler model puts into BINARYOP operands are token/token.go's. -/
theorem tok_numbers_match :
    tokNumbers.all (fun (n, k) => Tengo.Gen.Tokens.table.any (fun (n', k', _) => n == n' && k == k')) = true := by
  decide

/-- The builtin names the reference semantics knows are exactly the builtin table of builtins.go, in
index order. -/
theorem builtin_names_match : Tengo.Gen.Builtins.table.map Prod.fst = builtinNames := by decide

/-! ### integer arithmetic of the reference semantics = Go int64 -/

theorem wrap64_eq_bmod (x : Int) : wrap64 x = x.bmod (2^64) := by
  unfold wrap64 two63 two64 Int.bmod
  simp only [Nat.reducePow]
  omega

theorem wrap64_range (x : Int) : minInt64 ≤ wrap64 x ∧ wrap64 x ≤ maxInt64 := by
  unfold wrap64 minInt64 maxInt64 two63 two64; omega

theorem wrap64_id (x : Int) (h : minInt64 ≤ x ∧ x ≤ maxInt64) : wrap64 x = x := by
  unfold wrap64 minInt64 maxInt64 two63 two64 at *; omega

theorem add_matches_int64 (a b : Int) : (BitVec.ofInt 64 a + BitVec.ofInt 64 b).toInt = wrap64 (a + b) := by
  rw [wrap64_eq_bmod, BitVec.toInt_add, BitVec.toInt_ofInt, BitVec.toInt_ofInt]; simp [Int.add_bmod]

theorem sub_matches_int64 (a b : Int) : (BitVec.ofInt 64 a - BitVec.ofInt 64 b).toInt = wrap64 (a - b) := by
  rw [wrap64_eq_bmod, BitVec.toInt_sub, BitVec.toInt_ofInt, BitVec.toInt_ofInt]; simp [Int.sub_bmod]

theorem mul_matches_int64 (a b : Int) : (BitVec.ofInt 64 a * BitVec.ofInt 64 b).toInt = wrap64 (a * b) := by
  rw [wrap64_eq_bmod, BitVec.toInt_mul, BitVec.toInt_ofInt, BitVec.toInt_ofInt]; simp [Int.mul_bmod]

/-! ### fragment F0: compiled code agrees with the reference evaluator -/

variable {V : Type}

/-- Expressions: see `Tengo.Model.F0.comp_correct`. Restated for code placed at offset 0. -/
theorem expr_correct_F0 (S : Sem V) (cs g : Nat → V) (e : Ex) (post : List Ins) (st : List V) :
    (∀ v, eval S cs g e = some v → Runs S cs (comp 0 e ++ post) ⟨0, st, g⟩ ⟨esize e, v :: st, g⟩) ∧
    (eval S cs g e = none → Fails S cs (comp 0 e ++ post) ⟨0, st, g⟩) := by
  have h := comp_correct S cs g e [] post st
  simpa [csize] using h

/-- **C01 on fragment F0.** For every program of the fragment, every constant pool, every initial
globals and every data semantics: if the reference semantics runs the program to globals `g'`, the
machine started at offset 0 with an empty operand stack reaches the end of the code with an empty
stack and exactly the globals `g'`; if the reference semantics fails, the machine stops with a
run-time error. (The machine is deterministic, so this also gives the converse.) -/
theorem program_correct_F0 (S : Sem V) (cs g : Nat → V) (ss : Stms) :
    (∀ g', execs S cs ss g = some g' →
      Runs S cs (compSs 0 ss) ⟨0, [], g⟩ ⟨sssize ss, [], g'⟩) ∧
    (execs S cs ss g = none → Fails S cs (compSs 0 ss) ⟨0, [], g⟩) := by
  have h := compSs_correct S cs ss g [] [] []
  simpa [csize] using h

/-! ### fragment F1 = F0 + loops (fuel-indexed reference semantics) -/

/-- **C01 on fragment F1** (F0 plus `for cond {…}`, `for {…}`, and three-clause loops without
break/continue). For every fuel: if the fuel-indexed reference semantics finishes the program with
globals `g'`, the machine started at offset 0 with an empty operand stack reaches the end of the code
with an empty stack and globals `g'`; a run-time error of the reference semantics is an error of the
machine. Nothing is claimed when the fuel runs out (the program may loop forever). -/
theorem program_correct_F1 (S : Sem V) (cs g : Nat → V) (ss : Tengo.Model.F1.Stms) (f : Nat) :
    (∀ g', Tengo.Model.F1.exec S cs f (.inr ss) g = .done g' →
      Runs S cs (Tengo.Model.F1.compSs 0 ss) ⟨0, [], g⟩ ⟨Tengo.Model.F1.sssize ss, [], g'⟩) ∧
    (Tengo.Model.F1.exec S cs f (.inr ss) g = .err → Fails S cs (Tengo.Model.F1.compSs 0 ss) ⟨0, [], g⟩) := by
  have h := Tengo.Model.F1.all_ok S cs f (.inr ss) g [] [] []
  simpa [csize, Tengo.Model.F1.compC, Tengo.Model.F1.codeSize] using h

mutual
  /-- F0 statements are F1 statements. -/
  def embed : Stm → Tengo.Model.F1.Stm
    | .expr e => .expr e
    | .assign i e => .assign i e
    | .ifs c body => .ifs c (embeds body)
    | .ifelse c body els => .ifelse c (embeds body) (embeds els)
  def embeds : Stms → Tengo.Model.F1.Stms
    | .nil => .nil
    | .cons s ss => .cons (embed s) (embeds ss)
end

mutual
  /-- The F1 compiler (the one compared byte for byte with the real compiler on every run) emits for
  an F0 statement exactly the code `program_correct_F0` is about. -/
  theorem compS_embed : ∀ (s : Stm) (o : Nat), Tengo.Model.F1.compS o (embed s) = compS o s
    | .expr e, o => by simp [embed, Tengo.Model.F1.compS, compS]
    | .assign i e, o => by simp [embed, Tengo.Model.F1.compS, compS]
    | .ifs c body, o => by simp [embed, Tengo.Model.F1.compS, compS, compSs_embed body]
    | .ifelse c body els, o => by simp [embed, Tengo.Model.F1.compS, compS, compSs_embed body, compSs_embed els]
  theorem compSs_embed : ∀ (ss : Stms) (o : Nat), Tengo.Model.F1.compSs o (embeds ss) = compSs o ss
    | .nil, o => by simp [embeds, Tengo.Model.F1.compSs, compSs]
    | .cons s ss, o => by simp [embeds, Tengo.Model.F1.compSs, compSs, compS_embed s, compSs_embed ss]
end

/-- Non-vacuity for loops: `i := 0; for i < 3 { i = i + 1 }` terminates with i = 3 under `natSem'`
(binary operator 38 is `<`, everything else addition). -/
def natSem' : Sem Nat where
  binop := fun t a b => if t == 38 then some (if a < b then 1 else 0) else some (a + b)
  eqv := fun a b => a == b
  falsy := fun a => a == 0
  neg := fun _ => none
  bnot := fun a => some a
  ofBool := fun b => if b then 1 else 0
  undef := 0

example :
    let prog : Tengo.Model.F1.Stms := .cons (.assign 0 (.lit 0))
      (.cons (.whil (.bin 38 (.glob 0) (.lit 1)) (.cons (.assign 0 (.bin 11 (.glob 0) (.lit 2))) .nil)) .nil)
    let cs : Nat → Nat := fun k => [0, 3, 1].getD k 0
    (match Tengo.Model.F1.exec natSem' cs 20 (.inr prog) (fun _ => 0) with
     | .done g' => g' 0 == 3
     | _ => false) = true := by
  decide

/-- A small concrete data semantics for non-vacuity checks: values are naturals, every binary
operator is addition, 0 is falsy. -/
def natSem : Sem Nat where
  binop := fun _ a b => some (a + b)
  eqv := fun a b => a == b
  falsy := fun a => a == 0
  neg := fun _ => none
  bnot := fun a => some a
  ofBool := fun b => if b then 1 else 0
  undef := 0

/-- Non-vacuity: `x := 1 + 2; if x { y := x && 7 } else { y := 0 }` (constants 1, 2, 7, 0 at pool
indexes 0..3, globals x = 0, y = 1): the reference evaluator gives y = 7, so the first hypothesis of
`program_correct_F0` is satisfiable; and `z := -1` has no value (the error branch is reachable). -/
example :
    let prog : Stms := .cons (.assign 0 (.bin 11 (.lit 0) (.lit 1)))
      (.cons (.ifelse (.glob 0) (.cons (.assign 1 (.land (.glob 0) (.lit 2))) .nil)
                                (.cons (.assign 1 (.lit 3)) .nil)) .nil)
    let cs : Nat → Nat := fun k => [1, 2, 7, 0].getD k 0
    ((execs natSem cs prog (fun _ => 0)).map (fun g' => (g' 0, g' 1)) = some (3, 7)) ∧
    (execs natSem cs (.cons (.assign 2 (.neg (.lit 0))) .nil) (fun _ => 0)).isNone = true := by
  decide

end Tengo.Props.C01

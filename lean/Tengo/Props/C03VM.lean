import Tengo.Proofs.VMRelocCheck
/-!
C03 on the whole-VM model: what a passed relocation check (`Tengo.Model.VM.checkReloc`, evaluated by
the driver on the unoptimized twin and the real optimizer's output of every function of every
generated program) says about the runs of `Tengo.Model.VM.run`.
-/
set_option linter.unusedSectionVars false
set_option linter.unusedSimpArgs false
namespace Tengo.Props.C03VM
open Tengo.Model Tengo.Model.Spec Tengo.Model.Opcodes Tengo.Model.VM

theorem init_inDom {code code' : Code} {pm : PosMap} (hr : Reloc code code' pm) (globals : Array Value) (fobjs : Array FnObj) :
    InDomCore pm (initCore globals fobjs) := by
  refine ⟨⟨0, 0, by simp [initCore], hr.entry 0 code.main (by simp [Code.fn])⟩, ?_⟩
  intro fr hfr
  simp [initCore] at hfr

theorem mapCfg_init {code code' : Code} {pm : PosMap} (hr : Reloc code code' pm) (globals : Array Value) (fobjs : Array FnObj)
    (g : GSt) (h : St) : mapCfg pm ⟨initCore globals fobjs, g, h⟩ = ⟨initCore globals fobjs, g, h⟩ := by
  have h0 : pm 0 0 = some 0 := hr.entry 0 code.main (by simp [Code.fn])
  simp [mapCfg, mapCore, mapFrame, pmIp, initCore, h0]

/-- **Relocated code runs like the original, from the start of the program**: for every fuel,
allocation budget, globals, function objects and heap, the two runs take the same number of dispatches,
perform the same number of tracked allocations, and end in corresponding outcomes. -/
theorem relocated_run {code code' : Code} {pm : PosMap} (hr : Reloc code code' pm) (keep keep' fuel : Nat) (allocs : Int)
    (globals : Array Value) (fobjs : Array FnObj) (g : GSt) (h : St) :
    OutcomeRel pm (run code keep fuel allocs ⟨initCore globals fobjs, g, h⟩ {}).1
        (run code' keep' fuel allocs ⟨initCore globals fobjs, g, h⟩ {}).1 ∧
      (run code' keep' fuel allocs ⟨initCore globals fobjs, g, h⟩ {}).2.steps =
        (run code keep fuel allocs ⟨initCore globals fobjs, g, h⟩ {}).2.steps ∧
      (run code' keep' fuel allocs ⟨initCore globals fobjs, g, h⟩ {}).2.counted =
        (run code keep fuel allocs ⟨initCore globals fobjs, g, h⟩ {}).2.counted := by
  have := run_reloc hr keep keep' fuel allocs ⟨initCore globals fobjs, g, h⟩ {} {} (init_inDom hr globals fobjs) ⟨rfl, rfl⟩
  rw [mapCfg_init hr] at this
  exact ⟨this.1, this.2.1, this.2.2⟩

section checked
variable (code : Code) (b : Nat → Array UInt8) (tab : Nat → List (Nat × Nat)) (hc : checkReloc code b tab = true)
  (keep keep' fuel : Nat) (allocs : Int) (globals : Array Value) (fobjs : Array FnObj) (g : GSt) (h : St)
include hc

/-- A passed relocation check: same result. If the original halts, the relocated program halts after
the same number of dispatches with the same stack, globals, function objects and heap. -/
theorem checked_same_result (cfg : Cfg)
    (hh : (run code keep fuel allocs ⟨initCore globals fobjs, g, h⟩ {}).1 = .halted cfg) :
    ∃ cfg', (run (withBodies code b) keep' fuel allocs ⟨initCore globals fobjs, g, h⟩ {}).1 = .halted cfg' ∧
      cfg'.core.regs = cfg.core.regs ∧ cfg'.gst = cfg.gst ∧ cfg'.heap = cfg.heap := by
  have := (relocated_run (checkReloc_sound code b tab hc) keep keep' fuel allocs globals fobjs g h).1
  rw [hh] at this
  cases hr' : (run (withBodies code b) keep' fuel allocs ⟨initCore globals fobjs, g, h⟩ {}).1 with
  | halted cfg' =>
    rw [hr'] at this
    obtain ⟨q, rfl⟩ := this
    exact ⟨_, rfl, rfl, rfl, rfl⟩
  | failed _ _ => rw [hr'] at this; exact this.elim
  | fault _ _ => rw [hr'] at this; exact this.elim
  | limit _ => rw [hr'] at this; exact this.elim
  | outOfFuel _ => rw [hr'] at this; exact this.elim

/-- A passed relocation check: same error at the corresponding position. If the original fails with
error `e` while dispatching the instruction at offset `p` of function `idx`, the relocated program fails
with the same `e`, with the same registers and heap, while dispatching the instruction at the offset
the table gives for `p` in the same function; and every caller frame corresponds in the same way. -/
theorem checked_same_error (e : Err) (cfg : Cfg)
    (hh : (run code keep fuel allocs ⟨initCore globals fobjs, g, h⟩ {}).1 = .failed e cfg) :
    ∃ cfg', (run (withBodies code b) keep' fuel allocs ⟨initCore globals fobjs, g, h⟩ {}).1 = .failed e cfg' ∧
      cfg' = mapCfg (pmOf tab) cfg ∧
      cfg'.core.regs = cfg.core.regs ∧ cfg'.gst = cfg.gst ∧ cfg'.heap = cfg.heap ∧
      cfg'.core.cur.fnIdx = cfg.core.cur.fnIdx ∧
      ∃ p q : Nat, cfg.core.cur.ip + 1 = p ∧ (tab cfg.core.cur.fnIdx).lookup p = some q ∧ cfg'.core.cur.ip + 1 = q := by
  have := (relocated_run (checkReloc_sound code b tab hc) keep keep' fuel allocs globals fobjs g h).1
  rw [hh] at this
  cases hr' : (run (withBodies code b) keep' fuel allocs ⟨initCore globals fobjs, g, h⟩ {}).1 with
  | failed e' cfg' =>
    rw [hr'] at this
    obtain ⟨rfl, rfl, hd⟩ := this
    obtain ⟨p, q, hat⟩ := hd.1
    refine ⟨_, rfl, rfl, rfl, rfl, rfl, rfl, p, q, hat.1, hat.2, ?_⟩
    show (mapFrame (pmOf tab) cfg.core.cur).ip + 1 = q
    rw [mapFrame_at hat]; simp
  | halted _ => rw [hr'] at this; exact this.elim
  | fault _ _ => rw [hr'] at this; exact this.elim
  | limit _ => rw [hr'] at this; exact this.elim
  | outOfFuel _ => rw [hr'] at this; exact this.elim

/-- A passed relocation check: the relocated program ends in the same kind of outcome (halt, error,
internal fault, allocation limit, out of fuel) as the original — in particular relocation introduces
no fault and no error, and removes none. -/
theorem checked_same_kind :
    match (run code keep fuel allocs ⟨initCore globals fobjs, g, h⟩ {}).1,
          (run (withBodies code b) keep' fuel allocs ⟨initCore globals fobjs, g, h⟩ {}).1 with
    | .halted _, .halted _ => True
    | .failed e _, .failed e' _ => e' = e
    | .fault ft _, .fault ft' _ => ft' = ft
    | .limit _, .limit _ => True
    | .outOfFuel _, .outOfFuel _ => True
    | _, _ => False := by
  have := (relocated_run (checkReloc_sound code b tab hc) keep keep' fuel allocs globals fobjs g h).1
  revert this
  cases (run code keep fuel allocs ⟨initCore globals fobjs, g, h⟩ {}).1 <;>
    cases (run (withBodies code b) keep' fuel allocs ⟨initCore globals fobjs, g, h⟩ {}).1 <;>
    simp [OutcomeRel] <;> intros <;> simp_all

/-- A passed relocation check: same number of dispatches and of tracked allocations. -/
theorem checked_same_cost :
    (run (withBodies code b) keep' fuel allocs ⟨initCore globals fobjs, g, h⟩ {}).2.steps =
      (run code keep fuel allocs ⟨initCore globals fobjs, g, h⟩ {}).2.steps ∧
    (run (withBodies code b) keep' fuel allocs ⟨initCore globals fobjs, g, h⟩ {}).2.counted =
      (run code keep fuel allocs ⟨initCore globals fobjs, g, h⟩ {}).2.counted :=
  (relocated_run (checkReloc_sound code b tab hc) keep keep' fuel allocs globals fobjs g h).2

end checked

/-! ### non-vacuity -/

def exCode : Code :=
  { main := { insts := #[opJump.toUInt8, 0, 0, 0, 6, opNull.toUInt8, opTrue.toUInt8, opPop.toUInt8, opSuspend.toUInt8], numLocals := 0, numParams := 0, varargs := false },
    consts := #[.fn { insts := #[opTrue.toUInt8, opReturn.toUInt8, 1, opNull.toUInt8, opReturn.toUInt8, 0], numLocals := 0, numParams := 0, varargs := false } 0] }
def exBodies : Nat → Array UInt8
  | 0 => #[opJump.toUInt8, 0, 0, 0, 5, opTrue.toUInt8, opPop.toUInt8, opSuspend.toUInt8]
  | _ => #[opTrue.toUInt8, opReturn.toUInt8, 1]
def exTab : Nat → List (Nat × Nat)
  | 0 => [(0, 0), (6, 5), (7, 6), (8, 7)]
  | _ => [(0, 0), (1, 1)]
/-- non-vacuity: a program with a retargeted jump and a function with code removed after its RETURN passes the check -/
example : checkReloc exCode exBodies exTab = true := by decide

end Tengo.Props.C03VM

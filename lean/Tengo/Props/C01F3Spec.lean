import Tengo.Props.C01F3Source
import Tengo.Proofs.C01BridgeF3SpecRun
/-!
C01 on fragment F3 (first-order functions): **the reference interpreter `Spec.runProgram` against the fragment's
evaluator `F3.exec`, forward direction**, and its composition with `source_to_vm_fragment3_run`.

* `spec_agrees_fragment3`: for every `SrcOk` program, every data semantics that agrees with the VM's value
  operations (`DataRel`, `EnvOk`; values are scalars or compiled-function values), scalar initial globals, and
  evaluator fuel `f ≤ 1800`: if `F3.exec` finishes with globals `g'`, `Spec.runProgram` on the embedded program —
  static check included, every fuel `F ≥ 4 f`, every initial heap — answers `ok gs st` where `gs` lists exactly
  the slot names, each with a value related to `g' i` (`ValRel`: a scalar is the SAME value; the function value of
  function constant `k` is a reference `.fn r` to a heap closure whose parameters and body are `k`'s function
  literal); if `F3.exec` ends in a run-time error, `runProgram` reports the outcome of an error other than fuel
  exhaustion (never `ok`, never a compile error).
  The value RELATION is necessary: the interpreter's function values are heap closures (`.fn r`), the VM's are
  compiled-function objects (`.cfn r`). The fuel bound is necessary: the interpreter answers `excluded` at call
  depth 900 ("call depth near the frame limit"), `F3.exec` does not count depth; `f ≤ 1800` bounds the depth by 900.
* `reference_and_vm_agree_fragment3`: with `source_to_vm_fragment3_run`: `Spec.runProgram (embed P)` and
  `VM.run (compileFile (embed P))` end with related globals / both fail, whenever `F3.exec` terminates (the
  termination witness; hypotheses `WithinVM` and `f ≤ 1800`).
Not proved: the converse (interpreter / VM answers force `F3.exec` to terminate), as `Props/C01Converse` has for F1.
-/
set_option linter.unusedVariables false
namespace Tengo.Props.C01F3Spec
open Tengo.Model Tengo.Model.F3
open Tengo.Model.Spec (Value GSt Err)
open Tengo.Model.VM (Core Code Cfg Log FnObj)
open Tengo.Proofs.C01BridgeF3 (DataRel GlobRel3 FV val3_cases)
open Tengo.Proofs.C01BridgeF3Comp (NamesOK toAstProg budMain nlitsMain)
open Tengo.Proofs.C01Bridge (inputsOf Scalar errOutcome)
open Tengo.Proofs.C02Compile (toCodeR toCode)
open Tengo.Proofs.C01F3Opt
open Tengo.Proofs.C01BridgeF3Spec (ValRel inputs3 runProgram_fragment3)
open Tengo.Props.C01F3Bridge (WithinVM)

/-- **C01 on fragment F3: the reference interpreter computes what `F3.exec` computes** (forward direction; see the
module text for the hypotheses and for `ValRel`). -/
theorem spec_agrees_fragment3 {V : Type} (E : Env V) (val : V → Value) (refs : Nat → Nat)
    (names lnames : Nat → String) (ctab : Nat → F0.Const) (n : Nat) (P : Prog)
    (hN : NamesOK names lnames n) (hb : ∀ i, lnames i ∉ Spec.builtinNames)
    (hs : SrcOk P n) (hbud : budMain P P.main ≤ 4000)
    (hD : DataRel E.S val) (hE : EnvOk P ctab E val refs)
    (hvals : ∀ v, Scalar (val v) = true ∨ ∃ r, val v = .cfn r)
    (hcs : ∀ k, P.fns k = none → val (E.cs k) = F0.constValue (ctab k))
    (f F : Nat) (hf : f ≤ 1800) (hF : 4 * f ≤ F) (g : Nat → V) (hg0 : ∀ i, i < n → Scalar (val (g i)) = true)
    (initHeap : Spec.St) :
    (∀ g', F3.exec E P f g = .done g' →
      ∃ gs st, Spec.runProgram F (inputs3 names val n g) initHeap (toAstProg names lnames ctab P) = .ok gs st ∧
        gs.map Prod.fst = (List.range n).map names ∧
        ∀ i, i < n → ∃ w, gs[i]? = some (names i, w) ∧ ValRel E val P names lnames ctab st (g' i) w) ∧
    (F3.exec E P f g = .err →
      ∃ err, err ≠ Err.fuel ∧
        Spec.runProgram F (inputs3 names val n g) initHeap (toAstProg names lnames ctab P) = errOutcome err) :=
  runProgram_fragment3 E val refs names lnames ctab n P hN hb hs hbud hD hE hvals hcs f F hf hF g hg0 initHeap

theorem csOf_value (P : Prog) (ctab : Nat → F0.Const) (K : Nat) (refs : Nat → Nat) (k : Nat)
    (hf : P.fns k = none) : (csOf P ctab K refs k).1 = F0.constValue (ctab k) := by
  unfold csOf
  rw [dif_neg (by simp [hf])]

/-- **Reference interpreter = compile-and-run on fragment F3, with `F3.exec` as the termination witness.** For
every `SrcOk` program within the budgets and every admissible naming: `Compiler.compileFile` compiles the embedded
program to some `bc`; for the concrete data semantics `envOf P ctab refs`, scalar initial globals, every evaluator
fuel `f ≤ 1800` and every run within the VM's fixed sizes: if `F3.exec` finishes with `g'`, then `Spec.runProgram`
(every fuel `F ≥ 4 f`, every initial heap) answers `ok` with the slot names and values `ValRel`-related to `g'`,
AND `VM.run` on `bc`'s code (optimized bodies) halts with an empty stack and globals `g'` (`GlobRel3`); if
`F3.exec` ends in a run-time error, `runProgram` reports an error outcome other than fuel and `VM.run` ends
`failed` with an error other than fuel. -/
theorem reference_and_vm_agree_fragment3 (names lnames : Nat → String) (ctab : Nat → F0.Const) (n : Nat) (P : Prog)
    (hN : NamesOK names lnames n) (hb : ∀ i, lnames i ∉ Spec.builtinNames)
    (hs : SrcOk P n) (hbud : budMain P P.main ≤ 4000) :
    ∃ bc, Compiler.compileFile (toAstProg names lnames ctab P) (inputsOf names n) = .ok bc ∧
      ∃ refs : Nat → Nat, (VM.initFobjs (toCode bc)).1 = toCodeR refs bc ∧
        ∀ (f : Nat) (g : Nat → FVOf P refs) (globals : Array Value), f ≤ 1800 → globals.size = n →
          (∀ i, i < n → globals.getD i .undef = (g i).1) → (∀ i, i < n → Scalar (g i).1 = true) →
          WithinVM (envOf P ctab refs) (compProg P) (St.init (fun _ => (envOf P ctab refs).S.undef) g) →
          ∀ (keep : Nat) (allocs : Int), allocs ≤ 0 → ∀ (gst : GSt) (heap : Spec.St),
            (∀ g', F3.exec (envOf P ctab refs) P f g = .done g' →
              (∀ F initHeap, 4 * f ≤ F →
                ∃ gs st, Spec.runProgram F (inputs3 names Subtype.val n g) initHeap
                    (toAstProg names lnames ctab P) = .ok gs st ∧
                  gs.map Prod.fst = (List.range n).map names ∧
                  ∀ i, i < n → ∃ w, gs[i]? = some (names i, w) ∧
                    ValRel (envOf P ctab refs) Subtype.val P names lnames ctab st (g' i) w) ∧
              ∃ (c' : Core) (m : Nat), GlobRel3 n Subtype.val g' c'.regs.globals ∧ c'.regs.sp = 0 ∧
                ∀ k, (VM.run (VM.initFobjs (toCode bc)).1 keep (m + 1 + k) allocs
                  ⟨VM.initCore globals (VM.initFobjs (toCode bc)).2, gst, heap⟩ {}).1 = .halted ⟨c', gst, heap⟩) ∧
            (F3.exec (envOf P ctab refs) P f g = .err →
              (∀ F initHeap, 4 * f ≤ F →
                ∃ err, err ≠ Err.fuel ∧ Spec.runProgram F (inputs3 names Subtype.val n g) initHeap
                  (toAstProg names lnames ctab P) = errOutcome err) ∧
              ∃ (e : Err) (at_ : Cfg) (m : Nat), e ≠ Err.fuel ∧
                ∀ k, (VM.run (VM.initFobjs (toCode bc)).1 keep (m + 1 + k) allocs
                  ⟨VM.initCore globals (VM.initFobjs (toCode bc)).2, gst, heap⟩ {}).1 = .failed e at_) := by
  have hbudC : budMain P P.main ≤ Compiler.fuel := by unfold Compiler.fuel; omega
  have hbc := Tengo.Props.C01F3Source.compileFile_srcOk names lnames ctab n P hN hb hs hbudC
  obtain ⟨refs, hinj, hcode, hobj⟩ := init_refs hs ctab
  refine ⟨bcOf P ctab n, hbc, refs, hcode, ?_⟩
  intro f g globals hf hgs hg hsc hW keep allocs ha gst heap
  have hEnv := envOk_env3 hs ctab refs hinj
  obtain ⟨bc', hbc', h1, h2⟩ := Tengo.Props.C01F3Source.source_to_vm_fragment3 (envOf P ctab refs) Subtype.val refs
    names lnames ctab n P hN hb hs hbudC (Tengo.Proofs.C01BridgeF3.dataRel3 _) hEnv f g globals
    (VM.initFobjs (toCode (bcOf P ctab n))).2 hgs hg hobj hW keep allocs ha gst heap
  rw [hbc] at hbc'
  injection hbc' with hbc'
  subst hbc'
  rw [hcode]
  have hspec := fun F initHeap (hF : 4 * f ≤ F) =>
    spec_agrees_fragment3 (envOf P ctab refs) Subtype.val refs names lnames ctab n P hN hb hs hbud
      (Tengo.Proofs.C01BridgeF3.dataRel3 _) hEnv (fun v => val3_cases v.2)
      (fun k hk => csOf_value P ctab _ refs k hk) f F hf hF g hsc initHeap
  exact ⟨fun g' hg' => ⟨fun F initHeap hF => (hspec F initHeap hF).1 g' hg', h1 g' hg'⟩,
    fun he => ⟨fun F initHeap hF => (hspec F initHeap hF).2 he, h2 he⟩⟩

/-! ### non-vacuity: `g = func(x) { return x; x = 7 }; gg = g(5)` -/

namespace Example
open Tengo.Props.C01F3Source.Example
open Tengo.Proofs.C01BridgeF3 (sem3 env3 dataRel3)
open Tengo.Proofs.C01BridgeF3Comp (gname lname demo_builtin)

theorem exD_cs : ∀ k, exD.fns k = none → (exCs k).1 = F0.constValue (exCtab k)
  | 0, _ => rfl
  | 1, h => by simp [exD] at h
  | _ + 2, _ => rfl

/-- **Non-vacuity of `spec_agrees_fragment3`**: every hypothesis is discharged for the concrete program (a function
with a parameter, called with an argument, returning a value; dead code after the `return`), the evaluator
finishes (fuel 14), so the reference interpreter (fuel 56, empty initial heap) answers `ok` with the two slot
names, `gg` holding the integer 5 and `g` a closure reference. -/
example : ∃ gs st, Spec.runProgram 56 (inputs3 gname Subtype.val 2 (fun _ => (sem3 exUnref).undef)) {}
      (toAstProg gname lname exCtab exD) = .ok gs st ∧
    gs.map Prod.fst = [gname 0, gname 1] ∧ gs[1]? = some (gname 1, .int 5) ∧ ∃ r, gs[0]? = some (gname 0, .fn r) := by
  obtain ⟨h1, _⟩ := spec_agrees_fragment3 (env3 exUnref exCs) Subtype.val exRefs gname lname exCtab 2 exD
    exD_names demo_builtin exD_src (by decide) (dataRel3 exUnref) exD_env (fun v => val3_cases v.2) exD_cs
    14 56 (by decide) (by decide) (fun _ => (sem3 exUnref).undef) (fun i hi => rfl) {}
  have hev : gg5 (F3.exec (env3 exUnref exCs) exD 14 (fun _ => (sem3 exUnref).undef)) = true := by decide
  have hev0 : (match F3.exec (env3 exUnref exCs) exD 14 (fun _ => (sem3 exUnref).undef) with
      | .done g => (match (g 0).1 with
        | .cfn 0 => true
        | _ => false)
      | _ => false) = true := by decide
  cases he : F3.exec (env3 exUnref exCs) exD 14 (fun _ => (sem3 exUnref).undef) with
  | done g' =>
    rw [he] at hev hev0
    obtain ⟨gs, st, hrun, hfst, hall⟩ := h1 g' he
    refine ⟨gs, st, hrun, hfst, ?_, ?_⟩
    · obtain ⟨w, hw, hrel⟩ := hall 1 (by decide)
      rw [hw]
      simp only [gg5] at hev
      rcases hrel with ⟨_, rfl⟩ | ⟨k, fd, r, c, hk, _⟩
      · split at hev
        · rename_i h; rw [h]
        · cases hev
      · split at hev
        · rename_i h
          simp only [env3, h] at hk
          cases hk
        · cases hev
    · obtain ⟨w, hw, hrel⟩ := hall 0 (by decide)
      rcases hrel with ⟨hs, rfl⟩ | ⟨k, fd, r, c, hk, _, rfl, _⟩
      · dsimp only at hev0
        split at hev0
        · rename_i h; rw [h] at hs; cases hs
        · cases hev0
      · exact ⟨r, hw⟩
  | err => rw [he] at hev; cases hev
  | out => rw [he] at hev; cases hev
  | bad => rw [he] at hev; cases hev

/-- … and the hypotheses of `reference_and_vm_agree_fragment3` hold for it as well. -/
example := reference_and_vm_agree_fragment3 gname lname exCtab 2 exD exD_names demo_builtin exD_src (by decide)

end Example

end Tengo.Props.C01F3Spec

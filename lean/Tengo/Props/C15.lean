import Tengo.Model.Host
import Tengo.Gen.InteropCases
/-!
C15 — Host/script value exchange is coherent over any sequence of API calls.

Theorems about `Tengo.Model.Host` (tengo.go FromInterface/ToInterface, variable.go, script.go). The model is
tied to the source by the `from`/`to`/`acc`/`api`/`eval` correspondence streams of harness/cmd/c15 and by the
regenerated switch-case lists, method list and documentation tables of `Tengo.Gen.InteropCases`.
-/
namespace Tengo.Props.C15
open Tengo.Model.Host

/-! ## Conversion round trip -/

mutual
/-- Converting a Go value to an object and back is the identity up to the documented normalisation,
for every Go value including nested maps and slices, under any limits and any `String()` rendering. -/
theorem from_to_roundtrip (X : Ext) (L : Limits) :
    ∀ (g : GoVal) (v : TVal), fromInterface L g = .ok v → toInterface X v = normalize X g
  | .nil, v, h => by simp [fromInterface] at h; subst h; simp [toInterface, normalize]
  | .bool b, v, h => by simp [fromInterface] at h; subst h; simp [toInterface, normalize]
  | .int k x, v, h => by
      cases k <;> simp [fromInterface] at h <;> subst h <;> simp [toInterface, normalize]
  | .float64 b, v, h => by simp [fromInterface] at h; subst h; simp [toInterface, normalize]
  | .str s, v, h => by
      simp only [fromInterface] at h
      split at h
      · cases h
      · cases h; simp [toInterface, normalize]
  | .bytes s, v, h => by
      simp only [fromInterface] at h
      split at h
      · cases h
      · cases h; simp [toInterface, normalize]
  | .time s n, v, h => by simp [fromInterface] at h; subst h; simp [toInterface, normalize]
  | .error m, v, h => by simp [fromInterface] at h; subst h; simp [toInterface, normalize]
  | .mapObj m, v, h => by simp [fromInterface] at h; subst h; simp [toInterface, normalize]
  | .mapIface m, v, h => by
      simp only [fromInterface] at h
      split at h
      · rename_i kv hkv
        cases h
        simp [toInterface, normalize, from_to_roundtrip_map X L m kv hkv]
      · cases h
  | .sliceObj xs, v, h => by simp [fromInterface] at h; subst h; simp [toInterface, normalize]
  | .sliceIface xs, v, h => by
      simp only [fromInterface] at h
      split at h
      · rename_i arr harr
        cases h
        simp [toInterface, normalize, from_to_roundtrip_list X L xs arr harr]
      · cases h
  | .object o, v, h => by simp [fromInterface] at h; subst h; simp [normalize]
  | .callable id, v, h => by simp [fromInterface] at h; subst h; simp [toInterface, normalize]
  | .unsupported t, v, h => by simp [fromInterface] at h
theorem from_to_roundtrip_list (X : Ext) (L : Limits) :
    ∀ (gs : List GoVal) (vs : List TVal), fromInterfaceList L gs = .ok vs →
      toInterfaceList X vs = normalizeList X gs
  | [], vs, h => by simp [fromInterfaceList] at h; subst h; simp [toInterfaceList, normalizeList]
  | g :: gs, vs, h => by
      simp only [fromInterfaceList] at h
      split at h
      · cases h
      · rename_i v hv
        split at h
        · rename_i vs' hvs
          cases h
          simp [toInterfaceList, normalizeList, from_to_roundtrip X L g v hv,
            from_to_roundtrip_list X L gs vs' hvs]
        · cases h
theorem from_to_roundtrip_map (X : Ext) (L : Limits) :
    ∀ (m : List (String × GoVal)) (kv : List (String × TVal)), fromInterfaceMap L m = .ok kv →
      toInterfaceMap X kv = normalizeMap X m
  | [], kv, h => by simp [fromInterfaceMap] at h; subst h; simp [toInterfaceMap, normalizeMap]
  | (k, g) :: m, kv, h => by
      simp only [fromInterfaceMap] at h
      split at h
      · cases h
      · rename_i v hv
        split at h
        · rename_i kv' hkv
          cases h
          simp [toInterfaceMap, normalizeMap, from_to_roundtrip X L g v hv,
            from_to_roundtrip_map X L m kv' hkv]
        · cases h
end

/-- Non-vacuity: a nested value with every normalised kind converts, and the round trip is what the
documentation says (int ↦ int64, byte ↦ rune, error ↦ error text, []Object ↦ []interface{}). -/
def sampleGo : GoVal :=
  .mapIface [("a", .int .int 7), ("b", .sliceIface [.int .uint8 65, .nil, .error [98]]),
             ("c", .sliceObj [.immArray [.int 1]]), ("d", .callable 3)]

example (X : Ext) : ∃ v, fromInterface ⟨10, 10⟩ sampleGo = .ok v ∧ toInterface X v =
    .mapIface [("a", .int .int64 7), ("b", .sliceIface [.int .int32 65, .nil, .error (errorText X (.str [98]))]),
               ("c", .sliceIface [.sliceIface [.int .int64 1]]), ("d", .object (.userFn 3))] :=
  ⟨_, rfl, rfl⟩

/-! ## Totality: FromInterface fails exactly on unsupported types and over-limit strings/bytes -/

/-- Integer kinds FromInterface has a case for: int64, int, rune (int32), byte (uint8). -/
def supportedKind : IntKind → Bool
  | .int64 | .int | .int32 | .uint8 => true
  | _ => false

/-- `LeafErr L e g`: somewhere inside `g`, reachable through `map[string]interface{}` and `[]interface{}`
only, sits a value of an unsupported Go type (error `cannotConvert` with its type name), a string longer
than MaxStringLen or a byte slice longer than MaxBytesLen. -/
inductive LeafErr (L : Limits) : ConvErr → GoVal → Prop
  | unsupported (t : String) : LeafErr L (.cannotConvert t) (.unsupported t)
  | intKind (k : IntKind) (v : Int) : supportedKind k = false → LeafErr L (.cannotConvert k.goName) (.int k v)
  | str (s : Bytes) : s.length > L.maxStringLen → LeafErr L .stringLimit (.str s)
  | bytes (b : Bytes) : b.length > L.maxBytesLen → LeafErr L .bytesLimit (.bytes b)
  | mapElem {e : ConvErr} {k : String} {g : GoVal} {m : List (String × GoVal)} :
      (k, g) ∈ m → LeafErr L e g → LeafErr L e (.mapIface m)
  | sliceElem {e : ConvErr} {g : GoVal} {xs : List GoVal} : g ∈ xs → LeafErr L e g → LeafErr L e (.sliceIface xs)

mutual
/-- Every conversion error is the error of such a leaf. -/
theorem from_error_leaf (L : Limits) : ∀ (g : GoVal) (e : ConvErr), fromInterface L g = .error e → LeafErr L e g
  | .nil, e, h => by simp [fromInterface] at h
  | .bool b, e, h => by simp [fromInterface] at h
  | .int k x, e, h => by
      cases k <;> simp [fromInterface] at h <;> subst h <;> exact LeafErr.intKind _ _ rfl
  | .float64 b, e, h => by simp [fromInterface] at h
  | .str s, e, h => by
      simp only [fromInterface] at h
      split at h
      · cases h; exact LeafErr.str _ (by assumption)
      · cases h
  | .bytes s, e, h => by
      simp only [fromInterface] at h
      split at h
      · cases h; exact LeafErr.bytes _ (by assumption)
      · cases h
  | .time s n, e, h => by simp [fromInterface] at h
  | .error m, e, h => by simp [fromInterface] at h
  | .mapObj m, e, h => by simp [fromInterface] at h
  | .mapIface m, e, h => by
      simp only [fromInterface] at h
      split at h
      · cases h
      · rename_i e' he
        cases h
        obtain ⟨k, g, hm, hl⟩ := from_error_leaf_map L m e he
        exact LeafErr.mapElem hm hl
  | .sliceObj xs, e, h => by simp [fromInterface] at h
  | .sliceIface xs, e, h => by
      simp only [fromInterface] at h
      split at h
      · cases h
      · rename_i e' he
        cases h
        obtain ⟨g, hm, hl⟩ := from_error_leaf_list L xs e he
        exact LeafErr.sliceElem hm hl
  | .object o, e, h => by simp [fromInterface] at h
  | .callable id, e, h => by simp [fromInterface] at h
  | .unsupported t, e, h => by simp [fromInterface] at h; subst h; exact LeafErr.unsupported t
theorem from_error_leaf_list (L : Limits) : ∀ (gs : List GoVal) (e : ConvErr),
    fromInterfaceList L gs = .error e → ∃ g, g ∈ gs ∧ LeafErr L e g
  | [], e, h => by simp [fromInterfaceList] at h
  | g :: gs, e, h => by
      simp only [fromInterfaceList] at h
      split at h
      · rename_i e' he
        cases h
        exact ⟨g, List.mem_cons_self, from_error_leaf L g e he⟩
      · split at h
        · cases h
        · rename_i e' he
          cases h
          obtain ⟨g', hm, hl⟩ := from_error_leaf_list L gs e he
          exact ⟨g', List.mem_cons_of_mem _ hm, hl⟩
theorem from_error_leaf_map (L : Limits) : ∀ (m : List (String × GoVal)) (e : ConvErr),
    fromInterfaceMap L m = .error e → ∃ k g, (k, g) ∈ m ∧ LeafErr L e g
  | [], e, h => by simp [fromInterfaceMap] at h
  | (k, g) :: m, e, h => by
      simp only [fromInterfaceMap] at h
      split at h
      · rename_i e' he
        cases h
        exact ⟨k, g, List.mem_cons_self, from_error_leaf L g e he⟩
      · split at h
        · cases h
        · rename_i e' he
          cases h
          obtain ⟨k', g', hm, hl⟩ := from_error_leaf_map L m e he
          exact ⟨k', g', List.mem_cons_of_mem _ hm, hl⟩
end

theorem list_error_of_mem (L : Limits) : ∀ (gs : List GoVal) (g : GoVal), g ∈ gs →
    (∃ e, fromInterface L g = .error e) → ∃ e, fromInterfaceList L gs = .error e
  | [], g, hm, _ => by cases hm
  | g0 :: gs, g, hm, he => by
      simp only [fromInterfaceList]
      cases h0 : fromInterface L g0 with
      | error e0 => exact ⟨e0, rfl⟩
      | ok v0 =>
        have hm' : g ∈ gs := by
          cases hm with
          | head => obtain ⟨e, he⟩ := he; rw [h0] at he; cases he
          | tail _ h => exact h
        obtain ⟨e, hl⟩ := list_error_of_mem L gs g hm' he
        exact ⟨e, by simp [hl]⟩

theorem map_error_of_mem (L : Limits) : ∀ (m : List (String × GoVal)) (k : String) (g : GoVal), (k, g) ∈ m →
    (∃ e, fromInterface L g = .error e) → ∃ e, fromInterfaceMap L m = .error e
  | [], k, g, hm, _ => by cases hm
  | (k0, g0) :: m, k, g, hm, he => by
      simp only [fromInterfaceMap]
      cases h0 : fromInterface L g0 with
      | error e0 => exact ⟨e0, rfl⟩
      | ok v0 =>
        have hm' : (k, g) ∈ m := by
          cases hm with
          | head => obtain ⟨e, he⟩ := he; rw [h0] at he; cases he
          | tail _ h => exact h
        obtain ⟨e, hl⟩ := map_error_of_mem L m k g hm' he
        exact ⟨e, by simp [hl]⟩

/-- A value with such a leaf does not convert. -/
theorem leaf_error (L : Limits) {e : ConvErr} {g : GoVal} (h : LeafErr L e g) : ∃ e', fromInterface L g = .error e' := by
  induction h with
  | unsupported t => exact ⟨_, rfl⟩
  | intKind k v hk => cases k <;> simp [supportedKind] at hk <;> exact ⟨_, rfl⟩
  | str s hs => exact ⟨.stringLimit, by simp [fromInterface, hs]⟩
  | bytes b hb => exact ⟨.bytesLimit, by simp [fromInterface, hb]⟩
  | mapElem hm _ ih =>
      obtain ⟨e', he⟩ := map_error_of_mem L _ _ _ hm ih
      exact ⟨e', by simp [fromInterface, he]⟩
  | sliceElem hm _ ih =>
      obtain ⟨e', he⟩ := list_error_of_mem L _ _ hm ih
      exact ⟨e', by simp [fromInterface, he]⟩

/-- FromInterface returns an error exactly when the value contains (through interface containers) an
unsupported Go type, an over-limit string or an over-limit byte slice; and the error it returns is the
one of such a leaf. Everything else converts. -/
theorem from_total (L : Limits) (g : GoVal) :
    ((∃ e, fromInterface L g = .error e) ↔ ∃ e, LeafErr L e g) ∧
    (∀ e, fromInterface L g = .error e → LeafErr L e g) :=
  ⟨⟨fun ⟨e, h⟩ => ⟨e, from_error_leaf L g e h⟩, fun ⟨_, h⟩ => leaf_error L h⟩, from_error_leaf L g⟩

/-- Non-vacuity: both directions have instances (a channel two levels down; a 3-byte string at limit 2;
an int16; and a value that converts). -/
example : ∃ e, fromInterface ⟨100, 100⟩ (.sliceIface [.nil, .mapIface [("k", .unsupported "chan int")]]) = .error e :=
  ⟨.cannotConvert "chan int", rfl⟩
example : fromInterface ⟨2, 100⟩ (.mapIface [("k", .str [1, 2, 3])]) = .error .stringLimit := rfl
example : fromInterface ⟨2, 100⟩ (.int .int16 5) = .error (.cannotConvert "int16") := rfl
example : LeafErr ⟨2, 2⟩ .bytesLimit (.sliceIface [.bytes [1, 2, 3]]) :=
  .sliceElem List.mem_cons_self (.bytes _ (by decide))
example : fromInterface ⟨2, 100⟩ (.mapObj [("k", .str [1, 2, 3])]) = .ok (.map [("k", .str [1, 2, 3])]) := rfl

/-! ## The switches and tables the model mirrors are the ones in the source now -/

theorem from_cases_match : Tengo.Gen.InteropCases.fromCases = Expect.fromCases := by decide
theorem to_cases_match : Tengo.Gen.InteropCases.toCases = Expect.toCases := by decide
theorem variable_methods_match : Tengo.Gen.InteropCases.variableMethods = Expect.variableMethods := by decide

def kindOfName : String → Option Kind
  | "Int" => some .int | "String" => some .string | "Float" => some .float | "Bool" => some .bool
  | "Char" => some .char | "Bytes" => some .bytes | "Array" => some .array | "Map" => some .map
  | "Time" => some .time | "Error" => some .error | "Undefined" => some .undefined | _ => none

def cellOfText : String → Option Cell
  | "X" => some .x | "-" => some .same | "strconv" => some .strconv | "float64(v)" => some .float64v
  | "!IsFalsy()" => some .notFalsy | "rune(v)" => some .runev | "time.Unix()" => some .timeUnix
  | "[]byte(s)" => some .bytesS | "int64(f)" => some .int64f | "1 / 0" => some .oneZero
  | "\"true\" / \"false\"" => some .trueFalse | "int64(c)" => some .int64c | "string(c)" => some .stringC
  | "string(y)" => some .stringY | "\"[...]\"" => some .text | "\"{...}\"" => some .text
  | "String()" => some .text | "\"error: ...\"" => some .text | "false" => some .false_ | _ => none

/-- The coercion table of docs/runtime-types.md, read cell by cell, is `Expect.coercionRows`. -/
theorem coercion_doc_matches :
    (Tengo.Gen.InteropCases.coercionDoc.drop 1).map (fun r => (kindOfName r.1, r.2.map cellOfText)) =
      Expect.coercionRows.map (fun r => (some r.1, r.2.map some)) ∧
    (Tengo.Gen.InteropCases.coercionDoc.head?.map (·.2)) =
      some ["Int", "String", "Float", "Bool", "Char", "Bytes", "Array", "Map", "Time", "Error", "Undefined"] := by
  decide

/-- Tengo type named by the interoperability table ↦ constructor in the switch. -/
def ctorOfDoc : String → String
  | "Undefined" => "UndefinedValue" | "Bool" => "TrueValue|FalseValue" | "Error{String}" => "Error"
  | "Object" => "v" | t => t

/-- Every row of the conversion table of docs/interoperability.md is a case of FromInterface that
builds the documented Tengo type. (The switch has one more case, CallableFunc.) -/
theorem interop_doc_covered :
    Tengo.Gen.InteropCases.interopDoc.all (fun r =>
      Expect.fromCases.any (fun c => c.1 == r.1 && c.2.1 == ctorOfDoc r.2)) = true := by decide

/-- The case of the switch a Go value takes, and the constructor of an object, as the table names them. -/
def caseOf : GoVal → String
  | .nil => "nil" | .str _ => "string" | .int .int64 _ => "int64" | .int .int _ => "int" | .bool _ => "bool"
  | .int .int32 _ => "rune" | .int .uint8 _ => "byte" | .float64 _ => "float64" | .bytes _ => "[]byte"
  | .error _ => "error" | .mapObj _ => "map[string]Object" | .mapIface _ => "map[string]interface{}"
  | .sliceObj _ => "[]Object" | .sliceIface _ => "[]interface{}" | .time _ _ => "time.Time"
  | .object _ => "Object" | .callable _ => "CallableFunc" | _ => "default"

def ctorOf : TVal → String
  | .undefined => "UndefinedValue" | .int _ => "Int" | .str _ => "String" | .float _ => "Float"
  | .bool _ => "TrueValue|FalseValue" | .char _ => "Char" | .bytes _ => "Bytes" | .array _ => "Array"
  | .immArray _ => "ImmutableArray" | .map _ => "Map" | .immMap _ => "ImmutableMap" | .time _ _ => "Time"
  | .error _ => "Error" | .userFn _ => "UserFunction" | .other _ => "other"

/-- The model's `fromInterface` builds, for each case, the object the switch clause builds. -/
theorem from_case_constructor (L : Limits) (g : GoVal) (v : TVal) (h : fromInterface L g = .ok v)
    (hobj : ∀ o, g ≠ .object o) :
    (Expect.fromCases.lookup (caseOf g)).map (·.1) = some (ctorOf v) := by
  cases g with
  | int k x => cases k <;> simp [fromInterface] at h <;> subst h <;> rfl
  | str s => simp only [fromInterface] at h; split at h <;> cases h; rfl
  | bytes s => simp only [fromInterface] at h; split at h <;> cases h; rfl
  | mapIface m => simp only [fromInterface] at h; split at h <;> cases h; rfl
  | sliceIface m => simp only [fromInterface] at h; split at h <;> cases h; rfl
  | object o => exact absurd rfl (hobj o)
  | unsupported t => simp [fromInterface] at h
  | _ => simp [fromInterface] at h <;> subst h <;> rfl

/-! ## Typed accessors follow the documented coercion table -/

/-- For a value of each of the eleven documented kinds, every typed accessor of `Variable` returns what
the cell of the coercion table (row = kind of the value, column = accessor) says: the zero value for **X**,
the value itself for "-", and the named conversion otherwise. Holds for any behaviour of the external
functions (`String()`, strconv, float↔int conversion). -/
theorem typed_accessors (X : Ext) (a : Accessor) (v : TVal) (k : Kind) (hk : kindOf v = some k) :
    access X a v = cellMeaning X a v (Expect.coercionTable k a) := by
  cases v <;> simp [kindOf] at hk <;> subst hk <;> cases a <;> first | rfl | (rename_i b; cases b <;> rfl)

/-- In particular: no conversion in the table ⇒ the zero value. -/
theorem typed_accessors_zero (X : Ext) (a : Accessor) (v : TVal) (k : Kind) (hk : kindOf v = some k)
    (hx : Expect.coercionTable k a = .x) : access X a v = zero a := by
  rw [typed_accessors X a v k hk, hx]; rfl

/-- Non-vacuity: Float → Int is the truncating conversion, Int → Char wraps to a rune, Bool → Float is
not converted, Bytes → String is `String()`. -/
example (X : Ext) : access X .int (.float 0x4004000000000000) = .int (X.floatToInt 0x4004000000000000) := rfl
example (X : Ext) : access X .char (.int 4294967361) = .int 65 := rfl
example (X : Ext) : access X .float (.bool true) = .float 0 := rfl
example : Expect.coercionTable .bool .float = .x := rfl
example (X : Ext) : access X .string (.bytes [104]) = .str (X.objString (.bytes [104])) := rfl

end Tengo.Props.C15

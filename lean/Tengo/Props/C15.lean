import Tengo.Model.Host
import Tengo.Gen.InteropCases
/-!
C15 — Host/script value exchange is coherent over any sequence of API calls.

Theorems about `Tengo.Model.Host` (tengo.go FromInterface/ToInterface, variable.go, script.go). The model is
tied to the source by the `from`/`to`/`acc`/`api`/`eval` correspondence streams of harness/cmd/c15 and by the
regenerated switch-case lists, method list and documentation tables of `Tengo.Gen.InteropCases`.
-/
namespace Tengo.Props.C15
open Tengo.Model.Host

/-! ## Conversion round trip -/

mutual
/-- Converting a Go value to an object and back is the identity up to the documented normalisation,
for every Go value including nested maps and slices, under any limits and any `String()` rendering. -/
theorem from_to_roundtrip (X : Ext) (L : Limits) :
    ∀ (g : GoVal) (v : TVal), fromInterface L g = .ok v → toInterface X v = normalize X g
  | .nil, v, h => by simp [fromInterface] at h; subst h; simp [toInterface, normalize]
  | .bool b, v, h => by simp [fromInterface] at h; subst h; simp [toInterface, normalize]
  | .int k x, v, h => by
      cases k <;> simp [fromInterface] at h <;> subst h <;> simp [toInterface, normalize]
  | .float64 b, v, h => by simp [fromInterface] at h; subst h; simp [toInterface, normalize]
  | .str s, v, h => by
      simp only [fromInterface] at h
      split at h
      · cases h
      · cases h; simp [toInterface, normalize]
  | .bytes s, v, h => by
      simp only [fromInterface] at h
      split at h
      · cases h
      · cases h; simp [toInterface, normalize]
  | .time s n, v, h => by simp [fromInterface] at h; subst h; simp [toInterface, normalize]
  | .error m, v, h => by simp [fromInterface] at h; subst h; simp [toInterface, normalize]
  | .mapObj m, v, h => by simp [fromInterface] at h; subst h; simp [toInterface, normalize]
  | .mapIface m, v, h => by
      simp only [fromInterface] at h
      split at h
      · rename_i kv hkv
        cases h
        simp [toInterface, normalize, from_to_roundtrip_map X L m kv hkv]
      · cases h
  | .sliceObj xs, v, h => by simp [fromInterface] at h; subst h; simp [toInterface, normalize]
  | .sliceIface xs, v, h => by
      simp only [fromInterface] at h
      split at h
      · rename_i arr harr
        cases h
        simp [toInterface, normalize, from_to_roundtrip_list X L xs arr harr]
      · cases h
  | .object o, v, h => by simp [fromInterface] at h; subst h; simp [normalize]
  | .callable id, v, h => by simp [fromInterface] at h; subst h; simp [toInterface, normalize]
  | .unsupported t, v, h => by simp [fromInterface] at h
theorem from_to_roundtrip_list (X : Ext) (L : Limits) :
    ∀ (gs : List GoVal) (vs : List TVal), fromInterfaceList L gs = .ok vs →
      toInterfaceList X vs = normalizeList X gs
  | [], vs, h => by simp [fromInterfaceList] at h; subst h; simp [toInterfaceList, normalizeList]
  | g :: gs, vs, h => by
      simp only [fromInterfaceList] at h
      split at h
      · cases h
      · rename_i v hv
        split at h
        · rename_i vs' hvs
          cases h
          simp [toInterfaceList, normalizeList, from_to_roundtrip X L g v hv,
            from_to_roundtrip_list X L gs vs' hvs]
        · cases h
theorem from_to_roundtrip_map (X : Ext) (L : Limits) :
    ∀ (m : List (String × GoVal)) (kv : List (String × TVal)), fromInterfaceMap L m = .ok kv →
      toInterfaceMap X kv = normalizeMap X m
  | [], kv, h => by simp [fromInterfaceMap] at h; subst h; simp [toInterfaceMap, normalizeMap]
  | (k, g) :: m, kv, h => by
      simp only [fromInterfaceMap] at h
      split at h
      · cases h
      · rename_i v hv
        split at h
        · rename_i kv' hkv
          cases h
          simp [toInterfaceMap, normalizeMap, from_to_roundtrip X L g v hv,
            from_to_roundtrip_map X L m kv' hkv]
        · cases h
end

/-- Non-vacuity: a nested value with every normalised kind converts, and the round trip is what the
documentation says (int ↦ int64, byte ↦ rune, error ↦ error text, []Object ↦ []interface{}). -/
def sampleGo : GoVal :=
  .mapIface [("a", .int .int 7), ("b", .sliceIface [.int .uint8 65, .nil, .error [98]]),
             ("c", .sliceObj [.immArray [.int 1]]), ("d", .callable 3)]

example (X : Ext) : ∃ v, fromInterface ⟨10, 10⟩ sampleGo = .ok v ∧ toInterface X v =
    .mapIface [("a", .int .int64 7), ("b", .sliceIface [.int .int32 65, .nil, .error (errorText X (.str [98]))]),
               ("c", .sliceIface [.sliceIface [.int .int64 1]]), ("d", .object (.userFn 3))] :=
  ⟨_, rfl, rfl⟩

/-! ## Totality: FromInterface fails exactly on unsupported types and over-limit strings/bytes -/

/-- Integer kinds FromInterface has a case for: int64, int, rune (int32), byte (uint8). -/
def supportedKind : IntKind → Bool
  | .int64 | .int | .int32 | .uint8 => true
  | _ => false

/-- `LeafErr L e g`: somewhere inside `g`, reachable through `map[string]interface{}` and `[]interface{}`
only, sits a value of an unsupported Go type (error `cannotConvert` with its type name), a string longer
than MaxStringLen or a byte slice longer than MaxBytesLen. -/
inductive LeafErr (L : Limits) : ConvErr → GoVal → Prop
  | unsupported (t : String) : LeafErr L (.cannotConvert t) (.unsupported t)
  | intKind (k : IntKind) (v : Int) : supportedKind k = false → LeafErr L (.cannotConvert k.goName) (.int k v)
  | str (s : Bytes) : s.length > L.maxStringLen → LeafErr L .stringLimit (.str s)
  | bytes (b : Bytes) : b.length > L.maxBytesLen → LeafErr L .bytesLimit (.bytes b)
  | mapElem {e : ConvErr} {k : String} {g : GoVal} {m : List (String × GoVal)} :
      (k, g) ∈ m → LeafErr L e g → LeafErr L e (.mapIface m)
  | sliceElem {e : ConvErr} {g : GoVal} {xs : List GoVal} : g ∈ xs → LeafErr L e g → LeafErr L e (.sliceIface xs)

mutual
/-- Every conversion error is the error of such a leaf. -/
theorem from_error_leaf (L : Limits) : ∀ (g : GoVal) (e : ConvErr), fromInterface L g = .error e → LeafErr L e g
  | .nil, e, h => by simp [fromInterface] at h
  | .bool b, e, h => by simp [fromInterface] at h
  | .int k x, e, h => by
      cases k <;> simp [fromInterface] at h <;> subst h <;> exact LeafErr.intKind _ _ rfl
  | .float64 b, e, h => by simp [fromInterface] at h
  | .str s, e, h => by
      simp only [fromInterface] at h
      split at h
      · cases h; exact LeafErr.str _ (by assumption)
      · cases h
  | .bytes s, e, h => by
      simp only [fromInterface] at h
      split at h
      · cases h; exact LeafErr.bytes _ (by assumption)
      · cases h
  | .time s n, e, h => by simp [fromInterface] at h
  | .error m, e, h => by simp [fromInterface] at h
  | .mapObj m, e, h => by simp [fromInterface] at h
  | .mapIface m, e, h => by
      simp only [fromInterface] at h
      split at h
      · cases h
      · rename_i e' he
        cases h
        obtain ⟨k, g, hm, hl⟩ := from_error_leaf_map L m e he
        exact LeafErr.mapElem hm hl
  | .sliceObj xs, e, h => by simp [fromInterface] at h
  | .sliceIface xs, e, h => by
      simp only [fromInterface] at h
      split at h
      · cases h
      · rename_i e' he
        cases h
        obtain ⟨g, hm, hl⟩ := from_error_leaf_list L xs e he
        exact LeafErr.sliceElem hm hl
  | .object o, e, h => by simp [fromInterface] at h
  | .callable id, e, h => by simp [fromInterface] at h
  | .unsupported t, e, h => by simp [fromInterface] at h; subst h; exact LeafErr.unsupported t
theorem from_error_leaf_list (L : Limits) : ∀ (gs : List GoVal) (e : ConvErr),
    fromInterfaceList L gs = .error e → ∃ g, g ∈ gs ∧ LeafErr L e g
  | [], e, h => by simp [fromInterfaceList] at h
  | g :: gs, e, h => by
      simp only [fromInterfaceList] at h
      split at h
      · rename_i e' he
        cases h
        exact ⟨g, List.mem_cons_self, from_error_leaf L g e he⟩
      · split at h
        · cases h
        · rename_i e' he
          cases h
          obtain ⟨g', hm, hl⟩ := from_error_leaf_list L gs e he
          exact ⟨g', List.mem_cons_of_mem _ hm, hl⟩
theorem from_error_leaf_map (L : Limits) : ∀ (m : List (String × GoVal)) (e : ConvErr),
    fromInterfaceMap L m = .error e → ∃ k g, (k, g) ∈ m ∧ LeafErr L e g
  | [], e, h => by simp [fromInterfaceMap] at h
  | (k, g) :: m, e, h => by
      simp only [fromInterfaceMap] at h
      split at h
      · rename_i e' he
        cases h
        exact ⟨k, g, List.mem_cons_self, from_error_leaf L g e he⟩
      · split at h
        · cases h
        · rename_i e' he
          cases h
          obtain ⟨k', g', hm, hl⟩ := from_error_leaf_map L m e he
          exact ⟨k', g', List.mem_cons_of_mem _ hm, hl⟩
end

theorem list_error_of_mem (L : Limits) : ∀ (gs : List GoVal) (g : GoVal), g ∈ gs →
    (∃ e, fromInterface L g = .error e) → ∃ e, fromInterfaceList L gs = .error e
  | [], g, hm, _ => by cases hm
  | g0 :: gs, g, hm, he => by
      simp only [fromInterfaceList]
      cases h0 : fromInterface L g0 with
      | error e0 => exact ⟨e0, rfl⟩
      | ok v0 =>
        have hm' : g ∈ gs := by
          cases hm with
          | head => obtain ⟨e, he⟩ := he; rw [h0] at he; cases he
          | tail _ h => exact h
        obtain ⟨e, hl⟩ := list_error_of_mem L gs g hm' he
        exact ⟨e, by simp [hl]⟩

theorem map_error_of_mem (L : Limits) : ∀ (m : List (String × GoVal)) (k : String) (g : GoVal), (k, g) ∈ m →
    (∃ e, fromInterface L g = .error e) → ∃ e, fromInterfaceMap L m = .error e
  | [], k, g, hm, _ => by cases hm
  | (k0, g0) :: m, k, g, hm, he => by
      simp only [fromInterfaceMap]
      cases h0 : fromInterface L g0 with
      | error e0 => exact ⟨e0, rfl⟩
      | ok v0 =>
        have hm' : (k, g) ∈ m := by
          cases hm with
          | head => obtain ⟨e, he⟩ := he; rw [h0] at he; cases he
          | tail _ h => exact h
        obtain ⟨e, hl⟩ := map_error_of_mem L m k g hm' he
        exact ⟨e, by simp [hl]⟩

/-- A value with such a leaf does not convert. -/
theorem leaf_error (L : Limits) {e : ConvErr} {g : GoVal} (h : LeafErr L e g) : ∃ e', fromInterface L g = .error e' := by
  induction h with
  | unsupported t => exact ⟨_, rfl⟩
  | intKind k v hk => cases k <;> simp [supportedKind] at hk <;> exact ⟨_, rfl⟩
  | str s hs => exact ⟨.stringLimit, by simp [fromInterface, hs]⟩
  | bytes b hb => exact ⟨.bytesLimit, by simp [fromInterface, hb]⟩
  | mapElem hm _ ih =>
      obtain ⟨e', he⟩ := map_error_of_mem L _ _ _ hm ih
      exact ⟨e', by simp [fromInterface, he]⟩
  | sliceElem hm _ ih =>
      obtain ⟨e', he⟩ := list_error_of_mem L _ _ hm ih
      exact ⟨e', by simp [fromInterface, he]⟩

/-- FromInterface returns an error exactly when the value contains (through interface containers) an
unsupported Go type, an over-limit string or an over-limit byte slice; and the error it returns is the
one of such a leaf. Everything else converts. -/
theorem from_total (L : Limits) (g : GoVal) :
    ((∃ e, fromInterface L g = .error e) ↔ ∃ e, LeafErr L e g) ∧
    (∀ e, fromInterface L g = .error e → LeafErr L e g) :=
  ⟨⟨fun ⟨e, h⟩ => ⟨e, from_error_leaf L g e h⟩, fun ⟨_, h⟩ => leaf_error L h⟩, from_error_leaf L g⟩

/-- Non-vacuity: both directions have instances (a channel two levels down; a 3-byte string at limit 2;
an int16; and a value that converts). -/
example : ∃ e, fromInterface ⟨100, 100⟩ (.sliceIface [.nil, .mapIface [("k", .unsupported "chan int")]]) = .error e :=
  ⟨.cannotConvert "chan int", rfl⟩
example : fromInterface ⟨2, 100⟩ (.mapIface [("k", .str [1, 2, 3])]) = .error .stringLimit := rfl
example : fromInterface ⟨2, 100⟩ (.int .int16 5) = .error (.cannotConvert "int16") := rfl
example : LeafErr ⟨2, 2⟩ .bytesLimit (.sliceIface [.bytes [1, 2, 3]]) :=
  .sliceElem List.mem_cons_self (.bytes _ (by decide))
example : fromInterface ⟨2, 100⟩ (.mapObj [("k", .str [1, 2, 3])]) = .ok (.map [("k", .str [1, 2, 3])]) := rfl

/-! ## The switches and tables the model mirrors are the ones in the source now -/

theorem from_cases_match : Tengo.Gen.InteropCases.fromCases = Expect.fromCases := by decide
theorem to_cases_match : Tengo.Gen.InteropCases.toCases = Expect.toCases := by decide
theorem variable_methods_match : Tengo.Gen.InteropCases.variableMethods = Expect.variableMethods := by decide

def kindOfName : String → Option Kind
  | "Int" => some .int | "String" => some .string | "Float" => some .float | "Bool" => some .bool
  | "Char" => some .char | "Bytes" => some .bytes | "Array" => some .array | "Map" => some .map
  | "Time" => some .time | "Error" => some .error | "Undefined" => some .undefined | _ => none

def cellOfText : String → Option Cell
  | "X" => some .x | "-" => some .same | "strconv" => some .strconv | "float64(v)" => some .float64v
  | "!IsFalsy()" => some .notFalsy | "rune(v)" => some .runev | "time.Unix()" => some .timeUnix
  | "[]byte(s)" => some .bytesS | "int64(f)" => some .int64f | "1 / 0" => some .oneZero
  | "\"true\" / \"false\"" => some .trueFalse | "int64(c)" => some .int64c | "string(c)" => some .stringC
  | "string(y)" => some .stringY | "\"[...]\"" => some .text | "\"{...}\"" => some .text
  | "String()" => some .text | "\"error: ...\"" => some .text | "false" => some .false_ | _ => none

/-- The coercion table of docs/runtime-types.md, read cell by cell, is `Expect.coercionRows`. -/
theorem coercion_doc_matches :
    (Tengo.Gen.InteropCases.coercionDoc.drop 1).map (fun r => (kindOfName r.1, r.2.map cellOfText)) =
      Expect.coercionRows.map (fun r => (some r.1, r.2.map some)) ∧
    (Tengo.Gen.InteropCases.coercionDoc.head?.map (·.2)) =
      some ["Int", "String", "Float", "Bool", "Char", "Bytes", "Array", "Map", "Time", "Error", "Undefined"] := by
  decide

/-- Tengo type named by the interoperability table ↦ constructor in the switch. -/
def ctorOfDoc : String → String
  | "Undefined" => "UndefinedValue" | "Bool" => "TrueValue|FalseValue" | "Error{String}" => "Error"
  | "Object" => "v" | t => t

/-- Every row of the conversion table of docs/interoperability.md is a case of FromInterface that
builds the documented Tengo type. (The switch has one more case, CallableFunc.) -/
theorem interop_doc_covered :
    Tengo.Gen.InteropCases.interopDoc.all (fun r =>
      Expect.fromCases.any (fun c => c.1 == r.1 && c.2.1 == ctorOfDoc r.2)) = true := by decide

/-- The case of the switch a Go value takes, and the constructor of an object, as the table names them. -/
def caseOf : GoVal → String
  | .nil => "nil" | .str _ => "string" | .int .int64 _ => "int64" | .int .int _ => "int" | .bool _ => "bool"
  | .int .int32 _ => "rune" | .int .uint8 _ => "byte" | .float64 _ => "float64" | .bytes _ => "[]byte"
  | .error _ => "error" | .mapObj _ => "map[string]Object" | .mapIface _ => "map[string]interface{}"
  | .sliceObj _ => "[]Object" | .sliceIface _ => "[]interface{}" | .time _ _ => "time.Time"
  | .object _ => "Object" | .callable _ => "CallableFunc" | _ => "default"

def ctorOf : TVal → String
  | .undefined => "UndefinedValue" | .int _ => "Int" | .str _ => "String" | .float _ => "Float"
  | .bool _ => "TrueValue|FalseValue" | .char _ => "Char" | .bytes _ => "Bytes" | .array _ => "Array"
  | .immArray _ => "ImmutableArray" | .map _ => "Map" | .immMap _ => "ImmutableMap" | .time _ _ => "Time"
  | .error _ => "Error" | .userFn _ => "UserFunction" | .other _ => "other"

/-- The model's `fromInterface` builds, for each case, the object the switch clause builds. -/
theorem from_case_constructor (L : Limits) (g : GoVal) (v : TVal) (h : fromInterface L g = .ok v)
    (hobj : ∀ o, g ≠ .object o) :
    (Expect.fromCases.lookup (caseOf g)).map (·.1) = some (ctorOf v) := by
  cases g with
  | int k x => cases k <;> simp [fromInterface] at h <;> subst h <;> rfl
  | str s => simp only [fromInterface] at h; split at h <;> cases h; rfl
  | bytes s => simp only [fromInterface] at h; split at h <;> cases h; rfl
  | mapIface m => simp only [fromInterface] at h; split at h <;> cases h; rfl
  | sliceIface m => simp only [fromInterface] at h; split at h <;> cases h; rfl
  | object o => exact absurd rfl (hobj o)
  | unsupported t => simp [fromInterface] at h
  | _ => simp [fromInterface] at h <;> subst h <;> rfl

/-! ## Typed accessors follow the documented coercion table -/

/-- For a value of each of the eleven documented kinds, every typed accessor of `Variable` returns what
the cell of the coercion table (row = kind of the value, column = accessor) says: the zero value for **X**,
the value itself for "-", and the named conversion otherwise. Holds for any behaviour of the external
functions (`String()`, strconv, float↔int conversion). -/
theorem typed_accessors (X : Ext) (a : Accessor) (v : TVal) (k : Kind) (hk : kindOf v = some k) :
    access X a v = cellMeaning X a v (Expect.coercionTable k a) := by
  cases v <;> simp [kindOf] at hk <;> subst hk <;> cases a <;> first | rfl | (rename_i b; cases b <;> rfl)

/-- In particular: no conversion in the table ⇒ the zero value. -/
theorem typed_accessors_zero (X : Ext) (a : Accessor) (v : TVal) (k : Kind) (hk : kindOf v = some k)
    (hx : Expect.coercionTable k a = .x) : access X a v = zero a := by
  rw [typed_accessors X a v k hk, hx]; rfl

/-- Non-vacuity: Float → Int is the truncating conversion, Int → Char wraps to a rune, Bool → Float is
not converted, Bytes → String is `String()`. -/
example (X : Ext) : access X .int (.float 0x4004000000000000) = .int (X.floatToInt 0x4004000000000000) := rfl
example (X : Ext) : access X .char (.int 4294967361) = .int 65 := rfl
example (X : Ext) : access X .float (.bool true) = .float 0 := rfl
example : Expect.coercionTable .bool .float = .x := rfl
example (X : Ext) : access X .string (.bytes [104]) = .str (X.objString (.bytes [104])) := rfl

/-! ## API histories: the concrete model refines the abstract specification -/

/-! ## API refinement -/

def mapVals {α β : Type} (f : α → β) (l : List (String × α)) : List (String × β) := l.map (fun p => (p.1, f p.2))

theorem hasKey_mapVals {α β : Type} (f : α → β) (n : String) (l : List (String × α)) :
    hasKey n (mapVals f l) = hasKey n l := by
  simp only [hasKey, mapVals, List.any_map]
  rfl

theorem setKey_mapVals {α β : Type} (f : α → β) (n : String) (a : α) (l : List (String × α)) :
    setKey n (f a) (mapVals f l) = mapVals f (setKey n a l) := by
  simp only [setKey, mapVals, List.map_map]
  apply List.map_congr_left
  intro p _
  by_cases hp : p.1 = n <;> simp [hp]

theorem upsert_mapVals {α β : Type} (f : α → β) (n : String) (a : α) (l : List (String × α)) :
    upsert n (f a) (mapVals f l) = mapVals f (upsert n a l) := by
  unfold upsert
  rw [hasKey_mapVals]
  split
  · exact setKey_mapVals f n a l
  · simp [mapVals]

theorem eraseKey_mapVals {α β : Type} (f : α → β) (n : String) (l : List (String × α)) :
    eraseKey n (mapVals f l) = mapVals f (eraseKey n l) := by
  induction l with
  | nil => rfl
  | cons p l ih =>
    simp only [eraseKey, mapVals, List.map_cons, List.filter_cons] at ih ⊢
    by_cases hp : p.1 = n <;> simp [hp, ih]

theorem lookup_mapVals {α β : Type} (f : α → β) (n : String) (l : List (String × α)) :
    (mapVals f l).lookup n = (l.lookup n).map f := by
  induction l with
  | nil => rfl
  | cons p l ih =>
    obtain ⟨k, a⟩ := p
    simp only [mapVals, List.map_cons, List.lookup_cons] at ih ⊢
    cases hp : (n == k) <;> simp [ih]

theorem keys_mapVals {α β : Type} (f : α → β) (l : List (String × α)) :
    (mapVals f l).map (·.1) = l.map (·.1) := by
  simp [mapVals]

theorem length_mapVals {α β : Type} (f : α → β) (l : List (String × α)) : (mapVals f l).length = l.length := by
  simp [mapVals]

theorem mapVals_congr {α β : Type} (f g : α → β) (l : List (String × α)) (h : ∀ p ∈ l, f p.2 = g p.2) :
    mapVals f l = mapVals g l := by
  apply List.map_congr_left
  intro p hp
  rw [h p hp]

/-- Abstraction: every reference is replaced by the object it points to. -/
def absVars (st : List TVal) (vars : List (String × Nat)) : List (String × TVal) := mapVals (deref st) vars
def absEnv (st : List TVal) (sl : List (String × Option Nat)) : List (String × Option TVal) :=
  mapVals (Option.map (deref st)) sl
def absScript (st : List TVal) (s : ScriptSt) : AScript := { vars := absVars st s.vars, src := s.src }
def absCompiled (st : List TVal) (c : CompiledSt) : ACompiled := { env := absEnv st c.slots, code := c.code }
def absOf (h : Host) : Abs :=
  { scripts := h.scripts.map (absScript h.store), compiled := h.compiled.map (absCompiled h.store) }

def VarsOK (n : Nat) (vars : List (String × Nat)) : Prop := ∀ p ∈ vars, p.2 < n
def SlotsOK (n : Nat) (sl : List (String × Option Nat)) : Prop := ∀ p ∈ sl, ∀ r, p.2 = some r → r < n

/-- Every reference held by a handle points into the store. -/
structure WF (h : Host) : Prop where
  scripts : ∀ s ∈ h.scripts, VarsOK h.store.length s.vars
  compiled : ∀ c ∈ h.compiled, SlotsOK h.store.length c.slots

structure PureH (h : Host) : Prop where
  scripts : ∀ s ∈ h.scripts, s.src.all Stmt.pure = true
  compiled : ∀ c ∈ h.compiled, c.code.all Stmt.pure = true

theorem deref_append (st ext : List TVal) (r : Nat) (h : r < st.length) : deref (st ++ ext) r = deref st r := by
  simp [deref, List.getElem?_append_left h]

theorem VarsOK.mono {n m : Nat} {vars : List (String × Nat)} (h : VarsOK n vars) (hnm : n ≤ m) : VarsOK m vars :=
  fun p hp => Nat.lt_of_lt_of_le (h p hp) hnm

theorem SlotsOK.mono {n m : Nat} {sl : List (String × Option Nat)} (h : SlotsOK n sl) (hnm : n ≤ m) : SlotsOK m sl :=
  fun p hp r hr => Nat.lt_of_lt_of_le (h p hp r hr) hnm

theorem absVars_append (st ext : List TVal) (vars : List (String × Nat)) (h : VarsOK st.length vars) :
    absVars (st ++ ext) vars = absVars st vars :=
  mapVals_congr _ _ _ (fun p hp => deref_append st ext p.2 (h p hp))

theorem absEnv_append (st ext : List TVal) (sl : List (String × Option Nat)) (h : SlotsOK st.length sl) :
    absEnv (st ++ ext) sl = absEnv st sl := by
  apply mapVals_congr
  intro p hp
  cases hr : p.2 with
  | none => rfl
  | some r => simp [deref_append st ext r (h p hp r hr)]

theorem SlotsOK.setKey {n : Nat} {sl : List (String × Option Nat)} (h : SlotsOK n sl) (d : String) (o : Option Nat)
    (ho : ∀ r, o = some r → r < n) : SlotsOK n (setKey d o sl) := by
  intro p hp r hr
  simp only [Tengo.Model.Host.setKey, List.mem_map] at hp
  obtain ⟨q, hq, rfl⟩ := hp
  split at hr
  · exact ho r hr
  · exact h q hq r hr

theorem lookup_mem {α : Type} (l : List (String × α)) (x : String) (a : α) (h : l.lookup x = some a) : (x, a) ∈ l := by
  induction l with
  | nil => simp at h
  | cons p l ih =>
    obtain ⟨k, b⟩ := p
    simp only [List.lookup_cons] at h
    cases hk : (x == k) with
    | true =>
      simp [hk] at h
      have : x = k := by simpa using hk
      subst this; subst h
      exact List.mem_cons_self
    | false =>
      simp [hk] at h
      exact List.mem_cons_of_mem _ (ih h)

theorem slotOf_ok {n : Nat} {sl : List (String × Option Nat)} (h : SlotsOK n sl) (x : String) :
    ∀ r, slotOf sl x = some r → r < n := by
  intro r hr
  unfold slotOf at hr
  cases hl : sl.lookup x with
  | none => simp [hl] at hr
  | some o =>
    simp [hl] at hr
    subst hr
    have : (x, some r) ∈ sl := lookup_mem _ _ _ hl
    exact h _ this r rfl

theorem envOf_absEnv (st : List TVal) (sl : List (String × Option Nat)) (x : String) :
    envOf (absEnv st sl) x = (slotOf sl x).map (deref st) := by
  unfold envOf slotOf absEnv
  rw [lookup_mapVals]
  cases sl.lookup x with
  | none => rfl
  | some o => cases o <;> rfl

theorem deref_new (st : List TVal) (v : TVal) : deref (st ++ [v]) st.length = v := by
  simp [deref]

theorem absEnv_setKey_const (st : List TVal) (sl : List (String × Option Nat)) (d : String) (v : TVal)
    (h : SlotsOK st.length sl) :
    absEnv (st ++ [v]) (setKey d (some st.length) sl) = setKey d (some v) (absEnv st sl) := by
  unfold absEnv
  rw [← setKey_mapVals]
  simp only [Option.map_some, deref_new]
  congr 1
  exact absEnv_append st [v] sl h

theorem absEnv_setKey_var (st : List TVal) (sl : List (String × Option Nat)) (d x : String) :
    absEnv st (setKey d (slotOf sl x) sl) = setKey d (envOf (absEnv st sl) x) (absEnv st sl) := by
  rw [envOf_absEnv]
  unfold absEnv
  rw [← setKey_mapVals]

theorem slotsOK_const {st : List TVal} {sl : List (String × Option Nat)} (h : SlotsOK st.length sl) (d : String) (v : TVal) :
    SlotsOK (st ++ [v]).length (setKey d (some st.length) sl) := by
  apply SlotsOK.setKey (h.mono (by simp))
  intro r hr
  cases hr
  simp

/-- One run of code without in-place updates: the store only grows, references stay valid, and the
abstract run over the dereferenced globals ends in the dereferenced globals with the same outcome. -/
theorem exec_sim : ∀ (code : List Stmt) (st : List TVal) (sl : List (String × Option Nat)),
    code.all Stmt.pure = true → SlotsOK st.length sl →
    (∃ ext, (execC code st sl).1 = st ++ ext) ∧
    SlotsOK (execC code st sl).1.length (execC code st sl).2.1 ∧
    execA code (absEnv st sl) = (absEnv (execC code st sl).1 (execC code st sl).2.1, (execC code st sl).2.2)
  | [], st, sl, _, hs => ⟨⟨[], by simp [execC]⟩, by simpa [execC] using hs, by simp [execC, execA]⟩
  | .fail :: rest, st, sl, _, hs => ⟨⟨[], by simp [execC]⟩, by simpa [execC] using hs, by simp [execC, execA]⟩
  | .selset d k v :: rest, st, sl, hp, _ => by simp [Stmt.pure] at hp
  | .hidden k :: rest, st, sl, hp, hs => by
      have hp' : rest.all Stmt.pure = true := by simp only [List.all_cons, Bool.and_eq_true] at hp; exact hp.2
      simpa only [execC, execA] using exec_sim rest st sl hp' hs
  | .define d (.const v) :: rest, st, sl, hp, hs => by
      have hp' : rest.all Stmt.pure = true := by simp only [List.all_cons, Bool.and_eq_true] at hp; exact hp.2
      obtain ⟨⟨ext, he⟩, h2, h3⟩ := exec_sim rest (st ++ [v]) (setKey d (some st.length) sl) hp' (slotsOK_const hs d v)
      simp only [execC, execA]
      refine ⟨⟨[v] ++ ext, by rw [he, List.append_assoc]⟩, h2, ?_⟩
      rw [← absEnv_setKey_const st sl d v hs]; exact h3
  | .assign d (.const v) :: rest, st, sl, hp, hs => by
      have hp' : rest.all Stmt.pure = true := by simp only [List.all_cons, Bool.and_eq_true] at hp; exact hp.2
      obtain ⟨⟨ext, he⟩, h2, h3⟩ := exec_sim rest (st ++ [v]) (setKey d (some st.length) sl) hp' (slotsOK_const hs d v)
      simp only [execC, execA]
      refine ⟨⟨[v] ++ ext, by rw [he, List.append_assoc]⟩, h2, ?_⟩
      rw [← absEnv_setKey_const st sl d v hs]; exact h3
  | .define d (.var x) :: rest, st, sl, hp, hs => by
      have hp' : rest.all Stmt.pure = true := by simp only [List.all_cons, Bool.and_eq_true] at hp; exact hp.2
      obtain ⟨h1, h2, h3⟩ := exec_sim rest st (setKey d (slotOf sl x) sl) hp' (hs.setKey d _ (slotOf_ok hs x))
      simp only [execC, execA]
      refine ⟨h1, h2, ?_⟩
      rw [← absEnv_setKey_var]; exact h3
  | .assign d (.var x) :: rest, st, sl, hp, hs => by
      have hp' : rest.all Stmt.pure = true := by simp only [List.all_cons, Bool.and_eq_true] at hp; exact hp.2
      obtain ⟨h1, h2, h3⟩ := exec_sim rest st (setKey d (slotOf sl x) sl) hp' (hs.setKey d _ (slotOf_ok hs x))
      simp only [execC, execA]
      refine ⟨h1, h2, ?_⟩
      rw [← absEnv_setKey_var]; exact h3

theorem clone_sim : ∀ (sl : List (String × Option Nat)) (st : List TVal), SlotsOK st.length sl →
    (∃ ext, (cloneSlots sl st).1 = st ++ ext) ∧
    SlotsOK (cloneSlots sl st).1.length (cloneSlots sl st).2 ∧
    absEnv (cloneSlots sl st).1 (cloneSlots sl st).2 = mapVals (Option.map copyT) (absEnv st sl)
  | [], st, _ => ⟨⟨[], by simp [cloneSlots]⟩, by intro p hp; simp [cloneSlots] at hp, by simp [cloneSlots, absEnv, mapVals]⟩
  | (n, none) :: rest, st, hs => by
      have hs' : SlotsOK st.length rest := fun p hp => hs p (List.mem_cons_of_mem _ hp)
      obtain ⟨h1, h2, h3⟩ := clone_sim rest st hs'
      simp only [cloneSlots]
      refine ⟨h1, ?_, ?_⟩
      · intro p hp r hr
        cases hp with
        | head => cases hr
        | tail _ hp => exact h2 p hp r hr
      · simp only [absEnv, mapVals, List.map_cons] at h3 ⊢
        rw [h3]; rfl
  | (n, some r) :: rest, st, hs => by
      have hr : r < st.length := hs _ List.mem_cons_self r rfl
      have hs' : SlotsOK (st ++ [copyT (deref st r)]).length rest :=
        SlotsOK.mono (fun p hp => hs p (List.mem_cons_of_mem _ hp)) (by simp)
      obtain ⟨⟨ext, he⟩, h2, h3⟩ := clone_sim rest (st ++ [copyT (deref st r)]) hs'
      simp only [cloneSlots]
      refine ⟨⟨[copyT (deref st r)] ++ ext, by rw [he, List.append_assoc]⟩, ?_, ?_⟩
      · intro p hp r' hr'
        cases hp with
        | head => cases hr'; rw [he]; simp
        | tail _ hp => exact h2 p hp r' hr'
      · have hd : deref (cloneSlots rest (st ++ [copyT (deref st r)])).1 st.length = copyT (deref st r) := by
          rw [he, deref_append _ _ _ (by simp), deref_new]
        have ha : absEnv (st ++ [copyT (deref st r)]) rest = absEnv st rest :=
          absEnv_append _ _ _ (fun p hp => hs p (List.mem_cons_of_mem _ hp))
        simp only [absEnv, mapVals, List.map_cons, Option.map_some] at h3 ha hd ⊢
        rw [h3, ha, hd]

theorem absScripts_append (h : Host) (hw : WF h) (ext : List TVal) :
    h.scripts.map (absScript (h.store ++ ext)) = h.scripts.map (absScript h.store) := by
  apply List.map_congr_left
  intro s hs
  simp only [absScript, absVars_append _ ext _ (hw.scripts s hs)]

theorem absCompileds_append (h : Host) (hw : WF h) (ext : List TVal) :
    h.compiled.map (absCompiled (h.store ++ ext)) = h.compiled.map (absCompiled h.store) := by
  apply List.map_congr_left
  intro c hc
  simp only [absCompiled, absEnv_append _ ext _ (hw.compiled c hc)]

theorem mem_set {α : Type} {l : List α} {i : Nat} {a x : α} (h : x ∈ l.set i a) : x = a ∨ x ∈ l := by
  rcases List.mem_or_eq_of_mem_set h with h | h
  · exact Or.inr h
  · exact Or.inl h

theorem mem_of_getElem? {α : Type} {l : List α} {i : Nat} {a : α} (h : l[i]? = some a) : a ∈ l :=
  List.mem_of_getElem? h

def Sim (L : Limits) (h : Host) (op : Op) : Prop :=
  WF (step L h op).1 ∧ PureH (step L h op).1 ∧ astep L (absOf h) op = (absOf (step L h op).1, (step L h op).2)

theorem sim_newScript (L : Limits) (h : Host) (src : List Stmt) (hw : WF h) (hp : PureH h)
    (hsrc : src.all Stmt.pure = true) : Sim L h (.newScript src) := by
  refine ⟨⟨?_, hw.compiled⟩, ⟨?_, hp.compiled⟩, ?_⟩
  · intro s hs
    simp only [step, List.mem_append, List.mem_singleton] at hs
    rcases hs with hs | rfl
    · exact hw.scripts s hs
    · intro p hp; cases hp
  · intro s hs
    simp only [step, List.mem_append, List.mem_singleton] at hs
    rcases hs with hs | rfl
    · exact hp.scripts s hs
    · exact hsrc
  · simp [step, astep, absOf, absScript, absVars, mapVals]

theorem sim_add (L : Limits) (h : Host) (s : Nat) (n : String) (g : GoVal) (hw : WF h) (hp : PureH h) :
    Sim L h (.add s n g) := by
  unfold Sim
  cases hs : h.scripts[s]? with
  | none => simp [step, astep, absOf, hs, hw, hp]
  | some sc =>
    cases hg : fromInterface L g with
    | error e => simp [step, astep, absOf, hs, hg, hw, hp]
    | ok v =>
      have hsc := mem_of_getElem? hs
      simp only [step, hs, hg]
      refine ⟨⟨?_, ?_⟩, ⟨?_, hp.compiled⟩, ?_⟩
      · intro s' hs'
        rcases mem_set hs' with rfl | hs'
        · intro p hp'
          simp only [upsert] at hp'
          split at hp'
          · simp only [setKey, List.mem_map] at hp'
            obtain ⟨q, hq, rfl⟩ := hp'
            split
            · simp
            · exact Nat.lt_of_lt_of_le (hw.scripts sc hsc q hq) (by simp)
          · simp only [List.mem_append, List.mem_singleton] at hp'
            rcases hp' with hp' | rfl
            · exact Nat.lt_of_lt_of_le (hw.scripts sc hsc p hp') (by simp)
            · simp
        · exact (hw.scripts s' hs').mono (by simp)
      · intro c hc
        exact (hw.compiled c hc).mono (by simp)
      · intro s' hs'
        rcases mem_set hs' with rfl | hs'
        · exact hp.scripts sc hsc
        · exact hp.scripts s' hs'
      · simp only [astep, absOf, List.getElem?_map, hs, Option.map_some, hg, List.map_set]
        rw [absCompileds_append h hw]
        congr 2
        · congr 1
          · exact (absScripts_append h hw [v]).symm
          · simp only [absScript, absVars]
            rw [← upsert_mapVals (deref (h.store ++ [v])), deref_new]
            congr 2
            exact (absVars_append _ _ _ (hw.scripts sc hsc)).symm

theorem sim_remove (L : Limits) (h : Host) (s : Nat) (n : String) (hw : WF h) (hp : PureH h) :
    Sim L h (.remove s n) := by
  unfold Sim
  cases hs : h.scripts[s]? with
  | none => simp [step, astep, absOf, hs, hw, hp]
  | some sc =>
    have hsc := mem_of_getElem? hs
    by_cases hk : hasKey n sc.vars = true
    · simp only [step, hs, hk, if_true]
      refine ⟨⟨?_, hw.compiled⟩, ⟨?_, hp.compiled⟩, ?_⟩
      · intro s' hs'
        rcases mem_set hs' with rfl | hs'
        · intro p hp'
          simp only [eraseKey, List.mem_filter] at hp'
          exact hw.scripts sc hsc p hp'.1
        · exact hw.scripts s' hs'
      · intro s' hs'
        rcases mem_set hs' with rfl | hs'
        · exact hp.scripts sc hsc
        · exact hp.scripts s' hs'
      · simp only [astep, absOf, List.getElem?_map, hs, Option.map_some, List.map_set, absScript, absVars,
          hasKey_mapVals, hk, if_true, eraseKey_mapVals]
    · simp only [step, hs, hk]
      refine ⟨hw, hp, ?_⟩
      simp [astep, absOf, List.getElem?_map, hs, absScript, absVars, hasKey_mapVals, hk]

theorem sim_compile (L : Limits) (h : Host) (s : Nat) (hw : WF h) (hp : PureH h) :
    Sim L h (.compile s) := by
  unfold Sim
  cases hs : h.scripts[s]? with
  | none => simp [step, astep, absOf, hs, hw, hp]
  | some sc =>
    have hsc := mem_of_getElem? hs
    cases hc : compileNames sc.src (sc.vars.map (·.1)) with
    | error e =>
      simp only [step, hs, hc]
      refine ⟨hw, hp, ?_⟩
      simp [astep, absOf, List.getElem?_map, hs, absScript, absVars, keys_mapVals, hc]
    | ok names =>
      simp only [step, hs, hc]
      refine ⟨⟨hw.scripts, ?_⟩, ⟨hp.scripts, ?_⟩, ?_⟩
      · intro c hc'
        simp only [List.mem_append, List.mem_singleton] at hc'
        rcases hc' with hc' | rfl
        · exact hw.compiled c hc'
        · intro p hp' r hr
          simp only [List.mem_append, List.mem_map] at hp'
          rcases hp' with ⟨q, hq, rfl⟩ | ⟨q, _, rfl⟩
          · cases hr; exact hw.scripts sc hsc q hq
          · cases hr
      · intro c hc'
        simp only [List.mem_append, List.mem_singleton] at hc'
        rcases hc' with hc' | rfl
        · exact hp.compiled c hc'
        · exact hp.scripts sc hsc
      · simp only [astep, absOf, List.getElem?_map, hs, Option.map_some, absScript, absVars, keys_mapVals, hc,
          length_mapVals, List.length_map]
        simp [absCompiled, absEnv, mapVals]
        rfl

theorem sim_set (L : Limits) (h : Host) (c : Nat) (n : String) (g : GoVal) (hw : WF h) (hp : PureH h) :
    Sim L h (.set c n g) := by
  unfold Sim
  cases hs : h.compiled[c]? with
  | none => simp [step, astep, absOf, hs, hw, hp]
  | some cs =>
    have hcs := mem_of_getElem? hs
    cases hg : fromInterface L g with
    | error e => simp [step, astep, absOf, hs, hg, hw, hp]
    | ok v =>
      by_cases hk : hasKey n cs.slots = true
      · simp only [step, hs, hg, hk, if_true]
        refine ⟨⟨?_, ?_⟩, ⟨hp.scripts, ?_⟩, ?_⟩
        · intro s' hs'
          exact (hw.scripts s' hs').mono (by simp)
        · intro c' hc'
          rcases mem_set hc' with rfl | hc'
          · exact slotsOK_const (hw.compiled cs hcs) n v
          · exact (hw.compiled c' hc').mono (by simp)
        · intro c' hc'
          rcases mem_set hc' with rfl | hc'
          · exact hp.compiled cs hcs
          · exact hp.compiled c' hc'
        · simp only [astep, absOf, List.getElem?_map, hs, Option.map_some, hg, List.map_set, absCompiled, absEnv,
            hasKey_mapVals, hk, if_true]
          rw [absScripts_append h hw]
          congr 2
          congr 1
          · exact (absCompileds_append h hw [v]).symm
          · congr 1
            exact (absEnv_setKey_const h.store cs.slots n v (hw.compiled cs hcs)).symm
      · simp only [step, hs, hg, hk]
        refine ⟨hw, hp, ?_⟩
        simp [astep, absOf, List.getElem?_map, hs, hg, absCompiled, absEnv, hasKey_mapVals, hk]

theorem sim_run (L : Limits) (h : Host) (c : Nat) (hw : WF h) (hp : PureH h) : Sim L h (.run c) := by
  unfold Sim
  cases hs : h.compiled[c]? with
  | none => simp [step, astep, absOf, hs, hw, hp]
  | some cs =>
    have hcs := mem_of_getElem? hs
    obtain ⟨⟨ext, he⟩, h2, h3⟩ := exec_sim cs.code h.store cs.slots (hp.compiled cs hcs) (hw.compiled cs hcs)
    simp only [step, hs]
    refine ⟨⟨?_, ?_⟩, ⟨hp.scripts, ?_⟩, ?_⟩
    · intro s' hs'
      exact (hw.scripts s' hs').mono (by rw [he]; simp)
    · intro c' hc'
      rcases mem_set hc' with rfl | hc'
      · exact h2
      · exact (hw.compiled c' hc').mono (by rw [he]; simp)
    · intro c' hc'
      rcases mem_set hc' with rfl | hc'
      · exact hp.compiled cs hcs
      · exact hp.compiled c' hc'
    · simp only [astep, absOf, List.getElem?_map, hs, Option.map_some, List.map_set, absCompiled, h3]
      rw [he, absScripts_append h hw, absCompileds_append h hw, ← he]

theorem sim_get (L : Limits) (h : Host) (c : Nat) (n : String) (hw : WF h) (hp : PureH h) : Sim L h (.get c n) := by
  unfold Sim
  cases hs : h.compiled[c]? with
  | none => simp [step, astep, absOf, hs, hw, hp]
  | some cs =>
    simp only [step, hs]
    refine ⟨hw, hp, ?_⟩
    simp [astep, absOf, List.getElem?_map, hs, absCompiled, envOf_absEnv]

theorem sim_getAll (L : Limits) (h : Host) (c : Nat) (hw : WF h) (hp : PureH h) : Sim L h (.getAll c) := by
  unfold Sim
  cases hs : h.compiled[c]? with
  | none => simp [step, astep, absOf, hs, hw, hp]
  | some cs =>
    simp only [step, hs]
    refine ⟨hw, hp, ?_⟩
    simp [astep, absOf, List.getElem?_map, hs, absCompiled, absEnv, mapVals]

theorem sim_isDefined (L : Limits) (h : Host) (c : Nat) (n : String) (hw : WF h) (hp : PureH h) :
    Sim L h (.isDefined c n) := by
  unfold Sim
  cases hs : h.compiled[c]? with
  | none => simp [step, astep, absOf, hs, hw, hp]
  | some cs =>
    simp only [step, hs]
    refine ⟨hw, hp, ?_⟩
    simp only [astep, absOf, List.getElem?_map, hs, Option.map_some, absCompiled, envOf_absEnv]
    cases slotOf cs.slots n <;> rfl

theorem sim_clone (L : Limits) (h : Host) (c : Nat) (hw : WF h) (hp : PureH h) : Sim L h (.clone c) := by
  unfold Sim
  cases hs : h.compiled[c]? with
  | none => simp [step, astep, absOf, hs, hw, hp]
  | some cs =>
    have hcs := mem_of_getElem? hs
    obtain ⟨⟨ext, he⟩, h2, h3⟩ := clone_sim cs.slots h.store (hw.compiled cs hcs)
    simp only [step, hs]
    refine ⟨⟨?_, ?_⟩, ⟨hp.scripts, ?_⟩, ?_⟩
    · intro s' hs'
      exact (hw.scripts s' hs').mono (by rw [he]; simp)
    · intro c' hc'
      simp only [List.mem_append, List.mem_singleton] at hc'
      rcases hc' with hc' | rfl
      · exact (hw.compiled c' hc').mono (by rw [he]; simp)
      · exact h2
    · intro c' hc'
      simp only [List.mem_append, List.mem_singleton] at hc'
      rcases hc' with hc' | rfl
      · exact hp.compiled c' hc'
      · exact hp.compiled cs hcs
    · simp only [astep, absOf, List.getElem?_map, hs, Option.map_some, List.map_append, List.map_cons, List.map_nil,
        absCompiled, h3, List.length_map]
      rw [he, absScripts_append h hw, absCompileds_append h hw]
      rfl

/-- One API call: the concrete model and the abstract specification answer alike and stay related. -/
theorem step_sim (L : Limits) (h : Host) (op : Op) (hw : WF h) (hp : PureH h) (hop : op.pure = true) : Sim L h op := by
  cases op with
  | newScript src => exact sim_newScript L h src hw hp hop
  | add s n g => exact sim_add L h s n g hw hp
  | remove s n => exact sim_remove L h s n hw hp
  | compile s => exact sim_compile L h s hw hp
  | set c n g => exact sim_set L h c n g hw hp
  | run c => exact sim_run L h c hw hp
  | get c n => exact sim_get L h c n hw hp
  | getAll c => exact sim_getAll L h c hw hp
  | isDefined c n => exact sim_isDefined L h c n hw hp
  | clone c => exact sim_clone L h c hw hp

theorem runOps_sim (L : Limits) : ∀ (ops : List Op) (h : Host), WF h → PureH h → (∀ op ∈ ops, op.pure = true) →
    runOps L h ops = arunOps L (absOf h) ops
  | [], _, _, _, _ => rfl
  | op :: ops, h, hw, hp, hops => by
      obtain ⟨hw', hp', hs⟩ := step_sim L h op hw hp (hops op List.mem_cons_self)
      simp only [runOps, arunOps, hs]
      rw [runOps_sim L ops _ hw' hp' (fun o ho => hops o (List.mem_cons_of_mem _ ho))]

theorem wf_empty : WF {} := ⟨fun _ h => (by cases h), fun _ h => (by cases h)⟩
theorem pure_empty : PureH {} := ⟨fun _ h => (by cases h), fun _ h => (by cases h)⟩

/-- The full claim of the property on the model: for EVERY history of
NewScript/Add/Remove/Compile/Set/Run/Get/GetAll/IsDefined/Clone calls every return value is the one of
the abstract specification (names ↦ last value set by the host or assigned by the script). -/
def api_refines_full (L : Limits) : Prop := ∀ ops : List Op, runOps L {} ops = arunOps L {} ops

/-- Proved part: every history whose scripts do not update an object in place (`m.k = v`). Unbounded in
the length of the history, the number of handles alive, the values and the limits. -/
theorem api_refines_partial (L : Limits) (ops : List Op) (h : ∀ op ∈ ops, op.pure = true) :
    runOps L {} ops = arunOps L {} ops :=
  runOps_sim L ops {} wf_empty pure_empty h

/-- Non-vacuity: a history with two Compiled handles and a clone alive, a failing run, a rejected Set
and reads of unknown / not yet assigned names satisfies the hypothesis, and its outputs are not trivial. -/
def sampleHistory : List Op := [
  .newScript [.hidden 1, .define "out" (.var "a"), .assign "a" (.const (.int 5)), .fail, .define "late" (.const (.int 1))],
  .add 0 "a" (.int .int 1), .compile 0, .compile 0, .set 1 "a" (.str [120]), .set 1 "zz" (.int .int 3),
  .isDefined 0 "out", .run 0, .get 0 "out", .get 0 "a", .get 1 "a", .isDefined 0 "late", .get 0 "nope",
  .clone 0, .set 2 "out" (.nil), .get 0 "out", .isDefined 2 "out", .getAll 2]

example : ∀ op ∈ sampleHistory, op.pure = true := by decide
example : runOps ⟨100, 100⟩ {} sampleHistory =
    [.script 0, .ok, .compiled 0, .compiled 1, .ok, .err (.notDefined "zz"), .bool false, .err .runtime,
     .val (.int 1), .val (.int 5), .val (.str [120]), .bool false, .val .undefined, .compiled 2, .ok,
     .val (.int 1), .bool false, .vars [("a", .int 5), ("out", .undefined), ("late", .undefined)]] := rfl

/-- The full claim is FALSE of the model (and of script.go: known finding C15-1): `Compile` hands the
very objects made by `Add` to every Compiled, so an in-place update through one handle shows in the other. -/
def sharingWitness : List Op := [
  .newScript [.selset "m" "x" (.int 2)], .add 0 "m" (.mapIface [("x", .int .int 1)]),
  .compile 0, .compile 0, .run 0, .get 1 "m"]

theorem api_refines_full_false (L : Limits) : ¬ api_refines_full L := by
  intro h
  have := h sharingWitness
  simp [sharingWitness, runOps, arunOps, step, astep, fromInterface, fromInterfaceMap, compileNames, execC, execA,
    slotOf, envOf, upsert, hasKey, setKey, deref] at this

/-! ### Clauses of the statement, read off the model -/

/-- `Set` rejects a name that was not declared at compile time, and changes nothing. -/
theorem set_rejects_undeclared (L : Limits) (h : Host) (c : Nat) (cs : CompiledSt) (n : String) (g : GoVal) (v : TVal)
    (hc : h.compiled[c]? = some cs) (hg : fromInterface L g = .ok v) (hn : hasKey n cs.slots = false) :
    step L h (.set c n g) = (h, .err (.notDefined n)) := by
  simp [step, hc, hg, hn]

/-- `Get` of a name the Compiled does not know reads undefined; `IsDefined` is false for it. -/
theorem get_unknown_undefined (L : Limits) (h : Host) (c : Nat) (cs : CompiledSt) (n : String)
    (hc : h.compiled[c]? = some cs) (hn : hasKey n cs.slots = false) :
    step L h (.get c n) = (h, .val .undefined) ∧ step L h (.isDefined c n) = (h, .bool false) := by
  have hl : cs.slots.lookup n = none := by
    cases hl : cs.slots.lookup n with
    | none => rfl
    | some o =>
      have hm := lookup_mem _ _ _ hl
      have : hasKey n cs.slots = true := by
        simp only [hasKey, List.any_eq_true]
        exact ⟨(n, o), hm, by simp⟩
      rw [hn] at this; cases this
  simp [step, hc, slotOf, hl]

/-- `IsDefined` is false exactly when `Get` reads undefined. -/
theorem isDefined_iff (L : Limits) (h : Host) (c : Nat) (n : String) (v : TVal) (b : Bool)
    (hg : (step L h (.get c n)).2 = .val v) (hd : (step L h (.isDefined c n)).2 = .bool b) :
    b = !isUndef v := by
  cases hc : h.compiled[c]? with
  | none => simp [step, hc] at hg
  | some cs =>
    simp only [step, hc] at hg hd
    cases hs : slotOf cs.slots n with
    | none => simp [hs] at hg hd; subst hg; subst hd; rfl
    | some r => simp [hs] at hg hd; subst hg; rw [hd]; simp

theorem setKey_keys {α : Type} (n : String) (a : α) (l : List (String × α)) :
    (setKey n a l).map (·.1) = l.map (·.1) := by
  simp only [setKey, List.map_map]
  apply List.map_congr_left
  intro p _
  by_cases hp : p.1 = n <;> simp [hp]

theorem execC_keys : ∀ (code : List Stmt) (st : List TVal) (sl : List (String × Option Nat)),
    (execC code st sl).2.1.map (·.1) = sl.map (·.1)
  | [], _, _ => rfl
  | .fail :: _, _, _ => rfl
  | .hidden k :: rest, st, sl => by simp only [execC]; exact execC_keys rest st sl
  | .define d (.const v) :: rest, st, sl => by simp only [execC]; rw [execC_keys rest, setKey_keys]
  | .assign d (.const v) :: rest, st, sl => by simp only [execC]; rw [execC_keys rest, setKey_keys]
  | .define d (.var x) :: rest, st, sl => by simp only [execC]; rw [execC_keys rest, setKey_keys]
  | .assign d (.var x) :: rest, st, sl => by simp only [execC]; rw [execC_keys rest, setKey_keys]
  | .selset d k v :: rest, st, sl => by
      simp only [execC]
      split
      · split
        · exact execC_keys rest _ sl
        · rfl
      · rfl

/-- The names a Compiled knows are fixed when it is compiled: no later call (Set, Run with any script of
the family, Clone, …) adds or removes one. -/
theorem names_fixed (L : Limits) (h : Host) (op : Op) (c : Nat) (hc : c < h.compiled.length) :
    ((step L h op).1.compiled[c]?).map (fun cs => cs.slots.map (·.1)) =
      (h.compiled[c]?).map (fun cs => cs.slots.map (·.1)) := by
  cases op with
  | newScript src => rfl
  | add s n g =>
    simp only [step]; split
    · rfl
    · split <;> rfl
  | remove s n =>
    simp only [step]; split
    · rfl
    · split <;> rfl
  | compile s =>
    simp only [step]; split
    · rfl
    · split
      · rfl
      · simp [List.getElem?_append_left hc]
  | set c' n g =>
    simp only [step]; split
    · rfl
    · rename_i cs hcs
      split
      · rfl
      · split
        · by_cases hcc : c' = c
          · subst hcc
            have hget : h.compiled[c'] = cs := by
              rw [List.getElem?_eq_getElem hc] at hcs; exact Option.some.inj hcs
            simp [hc, setKey_keys, hget]
          · simp [hcc]
        · rfl
  | run c' =>
    simp only [step]; split
    · rfl
    · rename_i cs hcs
      by_cases hcc : c' = c
      · subst hcc
        have := execC_keys cs.code h.store cs.slots
        have hget : h.compiled[c'] = cs := by
          rw [List.getElem?_eq_getElem hc] at hcs; exact Option.some.inj hcs
        simp [hc, this, hget]
      · simp [hcc]
  | get c' n => simp only [step]; split <;> rfl
  | getAll c' => simp only [step]; split <;> rfl
  | isDefined c' n => simp only [step]; split <;> rfl
  | clone c' =>
    simp only [step]; split
    · rfl
    · simp [List.getElem?_append_left hc]

/-- Compiled handle an operation writes to. -/
def Op.target : Op → Option Nat
  | .set c _ _ => some c
  | .run c => some c
  | _ => none

/-- In the specification handles are independent: an operation changes at most the Compiled it is
addressed to — in particular a clone and its original never see each other's later Set/Run. -/
theorem abs_handles_independent (L : Limits) (a : Abs) (op : Op) (c : Nat) (hc : c < a.compiled.length)
    (ht : Op.target op ≠ some c) : (astep L a op).1.compiled[c]? = a.compiled[c]? := by
  cases op with
  | newScript src => rfl
  | add s n g =>
    simp only [astep]; split
    · rfl
    · split <;> rfl
  | remove s n =>
    simp only [astep]; split
    · rfl
    · split <;> rfl
  | compile s =>
    simp only [astep]; split
    · rfl
    · split
      · rfl
      · simp [List.getElem?_append_left hc]
  | set c' n g =>
    have hne : c' ≠ c := fun h => ht (by simp [Op.target, h])
    simp only [astep]; split
    · rfl
    · split
      · rfl
      · split
        · simp [hne]
        · rfl
  | run c' =>
    have hne : c' ≠ c := fun h => ht (by simp [Op.target, h])
    simp only [astep]; split
    · rfl
    · simp [hne]
  | get c' n => simp only [astep]; split <;> rfl
  | getAll c' => simp only [astep]; split <;> rfl
  | isDefined c' n => simp only [astep]; split <;> rfl
  | clone c' =>
    simp only [astep]; split
    · rfl
    · simp [List.getElem?_append_left hc]

/-- A clone starts as a deep copy of its original (immutable containers become mutable: `Copy()`). -/
theorem abs_clone_copies (L : Limits) (a : Abs) (c : Nat) (cs : ACompiled) (hc : a.compiled[c]? = some cs) :
    (astep L a (.clone c)).1.compiled[a.compiled.length]? =
      some { env := cs.env.map (fun p => (p.1, p.2.map copyT)), code := cs.code } := by
  simp [astep, hc]

/-! ## tengo.Eval -/

/-- eval.go is the history `NewScript("__res__ := (expr)")`, `Add` per parameter, `Compile`, `Run`,
`Get("__res__").Value()`; the model's `eval` is that history by definition. -/
theorem eval_agrees (L : Limits) (X : Ext) (e : Expr) (params : List (String × GoVal)) :
    eval L X e params = evalResult X (runOps L {} (evalOps e params)) := rfl

/-- Evaluating a parameter returns its documented normalisation (and through `api_refines_partial` the
value the specification holds for `__res__`). -/
theorem eval_param (L : Limits) (X : Ext) (n : String) (g : GoVal) (v : TVal) (hn : n ≠ resName)
    (hg : fromInterface L g = .ok v) : eval L X (.var n) [(n, g)] = .value (normalize X g) := by
  rw [← from_to_roundtrip X L g v hg]
  have hn' : resName ≠ n := Ne.symm hn
  simp [eval, evalOps, runOps, step, hg, upsert, hasKey, compileNames, exprUnresolved, execC, slotOf, setKey,
    evalResult, hn, hn']
  have hb : (resName == n) = false := by simpa using hn'
  simp [List.lookup, hb, deref]

example (X : Ext) : eval ⟨9, 9⟩ X (.var "p") [("p", .int .uint8 65)] = .value (.int .int32 65) := rfl
example (X : Ext) : eval ⟨9, 9⟩ X (.var "q") [("p", .int .int 1)] = .runErr (.unresolved "q") := rfl
example (X : Ext) : eval ⟨9, 9⟩ X (.const (.int 1)) [("p", .unsupported "chan int")] = .addErr (.cannotConvert "chan int") := rfl

end Tengo.Props.C15

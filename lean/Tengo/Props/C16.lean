import Tengo.Props.VM
import Tengo.Model.TailCall
import Tengo.Gen.TailCallShape
import Tengo.Gen.Limits
import Tengo.Gen.Opcodes
/-!
C16 — Self tail calls run in constant frame space at any depth.

About the frame-level model `Tengo.Model.TailCall` (`callStep` = `case parser.OpCall`, `retStep` =
`case parser.OpReturn` of vm.go):

* `shape_matches`   the tail-call test, tail branch, `MaxFrames` test, frame push, `OpReturn` case and the
                    set of frame-writing cases read from vm.go are the ones the model was written from
* `tailcall_step`   a self call followed by RETURN reuses the frame: framesIndex and frames unchanged,
                    parameters replaced by the new arguments, `sp` drops by numArgs+1, `pc = 0`
* `tail_frames_constant` any run segment made of self tail calls (plain, spread, variadic, either layout)
                    and of steps that are neither CALL nor RETURN keeps framesIndex and the frame array
                    (up to the current frame's discard mark) — for every number of tail calls
* `nontail_pushes_frame` every other call pushes exactly one frame or reports stack overflow at MaxFrames
* `discard_form_returns_undefined` the repaired O17
* `tail_captured_params` the argument copy replaces the slot, never the boxed cell
-/
namespace Tengo.Props.C16
open Tengo.Model.TailCall Tengo.Model.Opcodes

/-! ### Facts regenerated from the source -/

theorem shape_matches :
    Tengo.Gen.TailCallShape.ipAdvance = Shape.ipAdvance ∧
    Tengo.Gen.TailCallShape.calleeTest = Shape.calleeTest ∧
    Tengo.Gen.TailCallShape.beforeLayout = Shape.beforeLayout ∧
    Tengo.Gen.TailCallShape.layoutTest = Shape.layoutTest ∧
    Tengo.Gen.TailCallShape.tailBranch = Shape.tailBranch ∧
    Tengo.Gen.TailCallShape.maxFramesTest = Shape.maxFramesTest ∧
    Tengo.Gen.TailCallShape.maxFramesBody = Shape.maxFramesBody ∧
    Tengo.Gen.TailCallShape.framePush = Shape.framePush ∧
    Tengo.Gen.TailCallShape.returnCase = Shape.returnCase ∧
    Tengo.Gen.TailCallShape.frameWriters = Shape.frameWriters :=
  ⟨rfl, rfl, rfl, rfl, rfl, rfl, rfl, rfl, rfl, rfl⟩

theorem opcode_table_matches : Tengo.Gen.Opcodes.table = Tengo.Model.Opcodes.table := by decide

/-- The capacities the property speaks about ("far beyond the frame and stack capacities"). -/
theorem limits_match : Tengo.Gen.Limits.maxFrames = 1024 ∧ Tengo.Gen.Limits.stackSize = 2048 := by decide


/-- The frame-reuse column of the context table is what the layout test computes on the listed opcodes
(placed right after a `CALL n 0` at offset 0). -/
theorem contextTable_consistent :
    contextTable.all (fun (_, ops, tail) =>
      match tailPattern ([opCall, 1, 0] ++ ops ++ [0, 0]) 2 with
      | some (t, _) => t == tail
      | none => false) = true := by decide

/-! ### The argument copy -/

theorem copyArgs_length (stack : List Val) (bp src n : Nat) :
    (copyArgs stack bp src n).length = stack.length := by
  induction n generalizing stack bp src with
  | zero => rfl
  | succ n ih => simp [copyArgs, ih]

theorem copyArgs_outside (stack : List Val) (bp src n j : Nat) (h : j < bp ∨ bp + n ≤ j) :
    (copyArgs stack bp src n)[j]? = stack[j]? := by
  induction n generalizing stack bp src with
  | zero => rfl
  | succ n ih =>
    simp only [copyArgs]
    rw [ih _ _ _ (by omega)]
    exact List.getElem?_set_ne (by omega)

/-- When the source block lies above the destination block (it always does: the callee slot and the
frame's locals lie between them) the in-place ascending copy is the parallel copy. -/
theorem copyArgs_inside (stack : List Val) (bp src n p : Nat) (hp : p < n)
    (hdis : bp + n ≤ src) (hsrc : src + n ≤ stack.length) :
    (copyArgs stack bp src n)[bp + p]? = stack[src + p]? := by
  induction n generalizing stack bp src p with
  | zero => omega
  | succ n ih =>
    simp only [copyArgs]
    cases p with
    | zero =>
      rw [copyArgs_outside _ _ _ _ _ (by omega)]
      have hb : bp < stack.length := by omega
      have hs : src < stack.length := by omega
      simp [hb, List.getD_eq_getElem?_getD, List.getElem?_eq_getElem hs]
    | succ p =>
      have := ih (stack.set bp (stack.getD src .undef)) (bp + 1) (src + 1) p (by omega) (by omega)
        (by simp; omega)
      have e1 : bp + (p + 1) = bp + 1 + p := by omega
      have e2 : src + (p + 1) = src + 1 + p := by omega
      rw [e1, e2, this]
      exact List.getElem?_set_ne (by omega)

/-! ### The tail-call branch -/

theorem tailPattern_ret {insts : List Nat} {ip : Nat} (h : insts[ip + 1]? = some opReturn) :
    tailPattern insts ip = some (true, false) := by
  simp [tailPattern, h]

theorem tailPattern_pop_ret {insts : List Nat} {ip : Nat} (h1 : insts[ip + 1]? = some opPop)
    (h2 : insts[ip + 2]? = some opReturn) : tailPattern insts ip = some (true, true) := by
  simp [tailPattern, h1, h2, opPop, opReturn]

/-- The layout test says "tail" exactly for `RETURN` and `POP; RETURN`. -/
theorem tailPattern_true_iff (insts : List Nat) (ip : Nat) (v : Bool) :
    tailPattern insts ip = some (true, v) ↔
      (v = false ∧ insts[ip + 1]? = some opReturn) ∨
      (v = true ∧ insts[ip + 1]? = some opPop ∧ insts[ip + 2]? = some opReturn) := by
  unfold tailPattern
  cases h1 : insts[ip + 1]? with
  | none => simp
  | some a =>
    by_cases ha : a = opReturn
    · subst ha; cases v <;> simp [opPop, opReturn]
    · by_cases hb : a = opPop
      · subst hb
        cases h2 : insts[ip + 2]? with
        | none => simp [opPop, opReturn]
        | some b =>
          by_cases hc : b = opReturn
          · subst hc; cases v <;> simp [opPop, opReturn]
          · have hc' : ¬ b = 21 := hc
            cases v <;> simp [opPop, opReturn, hc']
      · cases v <;> simp [ha, hb]

theorem dispatch_tail (cfg : Cfg) (s : State) (cur : Frame) (callee : Fn) (numArgs ip : Nat) (v : Bool)
    (h : tailPattern (cfg.instsOf cur.fn) ip = some (true, v)) :
    dispatch cfg s cur cur.fn callee numArgs ip = .ok (tailCall s cur numArgs v) := by
  simp [dispatch, h]

theorem doSpread_none (s : State) (numArgs spread : Nat) (h : spread ≠ 1) :
    doSpread s numArgs spread = .ok (s, numArgs) := by
  simp [doSpread, h]

theorem rollUp_plain (callee : Fn) (s : State) (numArgs : Nat) (h : callee.varArgs = false) :
    rollUp callee s numArgs = some (s, numArgs) := by
  simp [rollUp, h]

/-- A plain (no spread, not variadic) call at `pc` of the compiled function `id` with matching arity. -/
structure PlainCall (cfg : Cfg) (s : State) (cur : Frame) (id : Nat) (callee : Fn) (numArgs : Nat) : Prop where
  hcur    : s.curFrame? = some cur
  hnum    : (cfg.instsOf cur.fn)[s.pc + 1]? = some numArgs
  hspread : (cfg.instsOf cur.fn)[s.pc + 2]? = some 0
  hsp     : numArgs + 1 ≤ s.sp
  hcallee : s.stack[s.sp - 1 - numArgs]? = some (.fn id)
  hfn     : cfg.prog[id]? = some callee
  hplain  : callee.varArgs = false
  harity  : callee.numParams = numArgs

/-- callee = the running function -/
abbrev PlainSelfCall (cfg : Cfg) (s : State) (cur : Frame) (callee : Fn) (numArgs : Nat) : Prop :=
  PlainCall cfg s cur cur.fn callee numArgs

theorem callStep_plain {cfg : Cfg} {s : State} {cur : Frame} {id : Nat} {callee : Fn} {numArgs : Nat}
    (h : PlainCall cfg s cur id callee numArgs) :
    callStep cfg s = dispatch cfg s cur id callee numArgs (s.pc + 2) := by
  unfold callStep
  simp only [h.hcur, h.hnum, h.hspread]
  have h1 : ¬ s.sp < numArgs + 1 := by have := h.hsp; omega
  simp only [h1, if_false, h.hcallee, Val.canCall, Bool.not_true, Bool.false_eq_true,
    doSpread_none s numArgs 0 (by decide), h.hfn, rollUp_plain callee s numArgs h.hplain, h.harity,
    ne_eq, not_true_eq_false]

/-- **tailcall_step.** At a CALL whose callee is the running function and whose next opcode is RETURN, one
VM step keeps `framesIndex` and the whole frame array, restarts the function (`pc = 0`), leaves the
cells alone, lowers `sp` by `numArgs + 1` (callee and arguments popped: `sp = bp + old height − numArgs − 1`
above the locals), stores argument `p` in parameter slot `bp + p`, and changes no other slot. -/
theorem tailcall_step (cfg : Cfg) (s : State) (cur : Frame) (callee : Fn) (numArgs : Nat)
    (h : PlainSelfCall cfg s cur callee numArgs)
    (hret : (cfg.instsOf cur.fn)[s.pc + 3]? = some opReturn) :
    ∃ s', callStep cfg s = .ok s' ∧ s'.framesIndex = s.framesIndex ∧ s'.frames = s.frames ∧ s'.pc = 0 ∧
      s'.sp = s.sp - numArgs - 1 ∧ s'.cells = s.cells ∧ s'.globals = s.globals ∧
      (∀ j, j < cur.basePointer ∨ cur.basePointer + numArgs ≤ j → s'.stack[j]? = s.stack[j]?) ∧
      (cur.basePointer + numArgs ≤ s.sp - numArgs → s.sp ≤ s.stack.length →
        ∀ p, p < numArgs → s'.stack[cur.basePointer + p]? = s.stack[s.sp - numArgs + p]?) := by
  refine ⟨tailCall s cur numArgs false, ?_, rfl, rfl, rfl, ?_, rfl, rfl, ?_, ?_⟩
  · rw [callStep_plain h]; exact dispatch_tail cfg s cur callee numArgs _ false (tailPattern_ret hret)
  · simp [tailCall]; omega
  · intro j hj; exact copyArgs_outside _ _ _ _ _ hj
  · intro hdis hlen p hp
    exact copyArgs_inside _ _ _ _ _ hp hdis (by have := h.hsp; omega)

/-- With the call height the verifier of C02 checks (callee and arguments directly above the locals) the
restarted iteration begins with an empty operand stack: `sp = bp + NumLocals`, at every restart. -/
theorem tailcall_restart_sp (cfg : Cfg) (s : State) (cur : Frame) (callee : Fn) (numArgs : Nat)
    (h : PlainSelfCall cfg s cur callee numArgs)
    (hret : (cfg.instsOf cur.fn)[s.pc + 3]? = some opReturn)
    (hheight : s.sp = cur.basePointer + callee.numLocals + numArgs + 1) :
    ∃ s', callStep cfg s = .ok s' ∧ s'.sp = cur.basePointer + callee.numLocals := by
  obtain ⟨s', h1, _, _, _, h5, _⟩ := tailcall_step cfg s cur callee numArgs h hret
  exact ⟨s', h1, by omega⟩

/-! ### Run segments of self tail calls -/

theorem doSpread_frames {s s1 : State} {n sp n1 : Nat} (h : doSpread s n sp = .ok (s1, n1)) :
    s1.frames = s.frames ∧ s1.framesIndex = s.framesIndex ∧ s1.cells = s.cells := by
  unfold doSpread at h
  repeat' split at h
  all_goals first | (cases h; exact ⟨rfl, rfl, rfl⟩) | cases h

theorem doSpread_error {s : State} {n sp : Nat} {o : Outcome} (h : doSpread s n sp = .error o) (s' : State) :
    o ≠ .ok s' := by
  unfold doSpread at h
  repeat' split at h
  all_goals first | (cases h; intro hh; cases hh) | cases h

theorem rollUp_frames {callee : Fn} {s s2 : State} {n n2 : Nat} (h : rollUp callee s n = some (s2, n2)) :
    s2.frames = s.frames ∧ s2.framesIndex = s.framesIndex ∧ s2.cells = s.cells := by
  unfold rollUp at h
  split at h
  · cases h; exact ⟨rfl, rfl, rfl⟩
  · split at h
    · cases h
    · dsimp only at h
      split at h <;> (cases h; exact ⟨rfl, rfl, rfl⟩)

/-- The instruction at `pc` is a CALL whose callee is the running function itself and which is followed by
`RETURN` (`viaPop = false`) or `POP; RETURN` (`viaPop = true`). Spread and variadic calls included. -/
def SelfTailAt (cfg : Cfg) (s : State) (viaPop : Bool) : Prop :=
  ∃ cur numArgs, s.curFrame? = some cur ∧
    (cfg.instsOf cur.fn)[s.pc]? = some opCall ∧
    (cfg.instsOf cur.fn)[s.pc + 1]? = some numArgs ∧
    s.stack[s.sp - 1 - numArgs]? = some (.fn cur.fn) ∧
    tailPattern (cfg.instsOf cur.fn) (s.pc + 2) = some (true, viaPop)

/-- Whatever spread and roll-up do to the arguments, a successful self call in tail layout is the tail
branch applied to a state with the same frames. -/
theorem selfTail_step {cfg : Cfg} {s s' : State} {v : Bool} (hst : SelfTailAt cfg s v)
    (h : callStep cfg s = .ok s') :
    ∃ cur s2 n, s.curFrame? = some cur ∧ s2.frames = s.frames ∧ s2.framesIndex = s.framesIndex ∧
      s2.cells = s.cells ∧ s' = tailCall s2 cur n v := by
  obtain ⟨cur, numArgs, hcur, _, hn, hcal, htp⟩ := hst
  unfold callStep at h
  simp only [hcur, hn] at h
  cases hsp2 : (cfg.instsOf cur.fn)[s.pc + 2]? with
  | none => simp [hsp2] at h
  | some spread =>
    simp only [hsp2] at h
    split at h
    · cases h
    · simp only [hcal, Val.canCall, Bool.not_true, Bool.false_eq_true, if_false] at h
      cases hds : doSpread s numArgs spread with
      | error o => simp only [hds] at h; exact absurd h (doSpread_error hds s')
      | ok r =>
        obtain ⟨s1, n1⟩ := r
        simp only [hds] at h
        cases hfn : cfg.prog[cur.fn]? with
        | none => simp [hfn] at h
        | some callee =>
          simp only [hfn] at h
          cases hru : rollUp callee s1 n1 with
          | none => simp [hru] at h
          | some r2 =>
            obtain ⟨s2, n2⟩ := r2
            simp only [hru] at h
            split at h
            · cases h
            · rw [dispatch_tail cfg s2 cur callee n2 _ v htp] at h
              obtain ⟨a1, a2, a3⟩ := doSpread_frames hds
              obtain ⟨b1, b2, b3⟩ := rollUp_frames hru
              refine ⟨cur, s2, n2, hcur, by rw [b1, a1], by rw [b2, a2], by rw [b3, a3], ?_⟩
              cases h; rfl

/-- A step that is neither CALL nor RETURN, abstractly: it has no access to the frame array. By
`shape_matches` (`frameWriters`) these are all other cases of the dispatch switch of vm.go; for the
executable fragment of the model it is `step_other_nonCall`. -/
def NonCall (s s' : State) : Prop := s'.frames = s.frames ∧ s'.framesIndex = s.framesIndex

/-- `framesIndex` and the frame array agree, except that the current frame's discard mark may have been
set. -/
structure SameFrames (s s' : State) : Prop where
  fi     : s'.framesIndex = s.framesIndex
  len    : s'.frames.length = s.frames.length
  others : ∀ i, i ≠ s.framesIndex - 1 → s'.frames[i]? = s.frames[i]?
  cur    : ∀ c, s.frames[s.framesIndex - 1]? = some c → ∃ c', s'.frames[s.framesIndex - 1]? = some c' ∧
             c'.fn = c.fn ∧ c'.ip = c.ip ∧ c'.basePointer = c.basePointer ∧
             (c.discardResult = true → c'.discardResult = true)

theorem SameFrames.refl (s : State) : SameFrames s s :=
  ⟨rfl, rfl, fun _ _ => rfl, fun c h => ⟨c, h, rfl, rfl, rfl, id⟩⟩

theorem SameFrames.trans {a b c : State} (h1 : SameFrames a b) (h2 : SameFrames b c) : SameFrames a c := by
  refine ⟨by rw [h2.fi, h1.fi], by rw [h2.len, h1.len], ?_, ?_⟩
  · intro i hi
    rw [h2.others i (by rw [h1.fi]; exact hi), h1.others i hi]
  · intro x hx
    obtain ⟨y, hy, e1, e2, e3, e4⟩ := h1.cur x hx
    obtain ⟨z, hz, f1, f2, f3, f4⟩ := h2.cur y (by rw [h1.fi]; exact hy)
    rw [h1.fi] at hz
    exact ⟨z, hz, by rw [f1, e1], by rw [f2, e2], by rw [f3, e3], fun h => f4 (e4 h)⟩

theorem curFrame_some {s : State} {c : Frame} (h : s.curFrame? = some c) :
    s.framesIndex ≠ 0 ∧ s.frames[s.framesIndex - 1]? = some c := by
  unfold State.curFrame? at h
  split at h
  · cases h
  · exact ⟨by assumption, h⟩

theorem curFrame_of {s : State} {c : Frame} (h0 : s.framesIndex ≠ 0) (h : s.frames[s.framesIndex - 1]? = some c) :
    s.curFrame? = some c := by
  unfold State.curFrame?; simp [h0, h]

theorem tailCall_sameFrames (s2 : State) (cur : Frame) (n : Nat) (v : Bool)
    (hc : s2.frames[s2.framesIndex - 1]? = some cur) : SameFrames s2 (tailCall s2 cur n v) := by
  cases v with
  | false => exact ⟨rfl, rfl, fun _ _ => rfl, fun c h => ⟨c, h, rfl, rfl, rfl, id⟩⟩
  | true =>
    have hlt : s2.framesIndex - 1 < s2.frames.length := by
      rcases Nat.lt_or_ge (s2.framesIndex - 1) s2.frames.length with h | h
      · exact h
      · rw [List.getElem?_eq_none h] at hc; cases hc
    refine ⟨rfl, by simp [tailCall], ?_, ?_⟩
    · intro i hi
      simp only [tailCall, if_true]
      exact List.getElem?_set_ne (Ne.symm hi)
    · intro c hc'
      rw [hc] at hc'; cases hc'
      refine ⟨{ cur with discardResult := true }, ?_, rfl, rfl, rfl, fun _ => rfl⟩
      simp [tailCall, hlt]

theorem selfTail_sameFrames {cfg : Cfg} {s s' : State} {v : Bool} (hst : SelfTailAt cfg s v)
    (h : callStep cfg s = .ok s') : SameFrames s s' := by
  obtain ⟨cur, s2, n, hcur, h1, h2, _, rfl⟩ := selfTail_step hst h
  obtain ⟨_, hc⟩ := curFrame_some hcur
  have hc2 : s2.frames[s2.framesIndex - 1]? = some cur := by rw [h1, h2]; exact hc
  have := tailCall_sameFrames s2 cur n v hc2
  refine ⟨by rw [this.fi, h2], by rw [this.len, h1], ?_, ?_⟩
  · intro i hi; rw [this.others i (by rw [h2]; exact hi), h1]
  · intro c hc'
    obtain ⟨c', e0, e⟩ := this.cur c (by rw [h1, h2]; exact hc')
    rw [h2] at e0
    exact ⟨c', e0, e⟩

theorem nonCall_sameFrames {s s' : State} (h : NonCall s s') : SameFrames s s' := by
  obtain ⟨h1, h2⟩ := h
  exact ⟨h2, by rw [h1], fun i _ => by rw [h1], fun c hc => ⟨c, by rw [h1]; exact hc, rfl, rfl, rfl, id⟩⟩

/-- `Seg cfg n s s'`: a run from `s` to `s'` that performs exactly `n` calls, all of them self tail calls
(either layout, plain/spread/variadic), interleaved with any number of steps that are neither CALL nor
RETURN. -/
inductive Seg (cfg : Cfg) : Nat → State → State → Prop
  | refl (s : State) : Seg cfg 0 s s
  | tail {n : Nat} {s s' s'' : State} {v : Bool} :
      Seg cfg n s s' → SelfTailAt cfg s' v → callStep cfg s' = .ok s'' → Seg cfg (n + 1) s s''
  | other {n : Nat} {s s' s'' : State} : Seg cfg n s s' → NonCall s' s'' → Seg cfg n s s''

theorem seg_sameFrames {cfg : Cfg} {n : Nat} {s s' : State} (h : Seg cfg n s s') : SameFrames s s' := by
  induction h with
  | refl s => exact SameFrames.refl s
  | tail _ hst hc ih => exact ih.trans (selfTail_sameFrames hst hc)
  | other _ hn ih => exact ih.trans (nonCall_sameFrames hn)

/-- **tail_frames_constant.** For EVERY number `n` of self tail calls: a run segment consisting of self
tail calls and non-call steps never raises (or lowers) `framesIndex`; the frame array keeps its length
and every entry, the running frame keeps function, base pointer and saved ip. Induction over the run. -/
theorem tail_frames_constant {cfg : Cfg} {n : Nat} {s s' : State} (h : Seg cfg n s s') :
    s'.framesIndex = s.framesIndex ∧ s'.frames.length = s.frames.length ∧
    (∀ i, i ≠ s.framesIndex - 1 → s'.frames[i]? = s.frames[i]?) ∧
    (∀ c, s.curFrame? = some c → ∃ c', s'.curFrame? = some c' ∧ c'.fn = c.fn ∧
       c'.basePointer = c.basePointer ∧ c'.ip = c.ip) := by
  have hs := seg_sameFrames h
  refine ⟨hs.fi, hs.len, hs.others, ?_⟩
  intro c hc
  obtain ⟨h0, hc'⟩ := curFrame_some hc
  obtain ⟨c', e0, e1, e2, e3, _⟩ := hs.cur c hc'
  exact ⟨c', curFrame_of (by rw [hs.fi]; exact h0) (by rw [hs.fi]; exact e0), e1, e3, e2⟩

/-- The tail branch lowers `sp` by `numArgs + 1` whatever the layout (dispatch level: after spread and
roll-up `numArgs = NumParameters`), so with call height `numArgs + 1` every restart has `sp = bp + NumLocals`. -/
theorem tailCall_sp (s : State) (cur : Frame) (n : Nat) (v : Bool) :
    (tailCall s cur n v).sp = s.sp - (n + 1) ∧ (tailCall s cur n v).pc = 0 ∧
    (tailCall s cur n v).cells = s.cells := ⟨rfl, rfl, rfl⟩

/-- The non-CALL/RETURN opcodes of the executable fragment are `NonCall` steps. -/
theorem step_other_nonCall {cfg : Cfg} {s s' : State} {cur : Frame} {op : Nat}
    (hcur : s.curFrame? = some cur) (hop : (cfg.instsOf cur.fn)[s.pc]? = some op)
    (h1 : op ≠ opCall) (h2 : op ≠ opReturn) (h : step cfg s = .ok s') : NonCall s s' := by
  unfold step at h
  simp only [hcur, hop, h1, h2, if_false] at h
  split at h
  · cases h; exact ⟨rfl, rfl⟩
  all_goals cases h

/-! ### Calls that are not tail calls -/

/-- The layout test says "no" exactly when the next opcode is neither RETURN nor POP-then-RETURN. -/
theorem tailPattern_false_iff (insts : List Nat) (ip : Nat) (b : Bool) :
    tailPattern insts ip = some (false, b) ↔
      b = false ∧ ∃ nextOp, insts[ip + 1]? = some nextOp ∧ nextOp ≠ opReturn ∧
        (nextOp = opPop → ∃ x, insts[ip + 2]? = some x ∧ x ≠ opReturn) := by
  unfold tailPattern
  cases h1 : insts[ip + 1]? with
  | none => simp
  | some a =>
    by_cases ha : a = opReturn
    · subst ha; simp
    · by_cases hb : a = opPop
      · subst hb
        cases h2 : insts[ip + 2]? with
        | none => simp [opPop, opReturn]
        | some x =>
          by_cases hc : x = opReturn
          · subst hc; simp [opPop, opReturn]
          · have hc' : ¬ x = 21 := hc
            cases b <;> simp [opPop, opReturn, hc']
      · cases b <;> simp [ha, hb]

theorem dispatch_nontail (cfg : Cfg) (s : State) (cur : Frame) (id : Nat) (callee : Fn) (numArgs ip : Nat)
    (hnot : id ≠ cur.fn ∨ ∃ b, tailPattern (cfg.instsOf cur.fn) ip = some (false, b)) :
    dispatch cfg s cur id callee numArgs ip = pushFrame cfg s cur id callee numArgs ip := by
  unfold dispatch
  rcases hnot with h | ⟨b, h⟩
  · simp [h]
  · simp [h]

/-- **nontail_pushes_frame.** A call of a compiled function that is not the running function, or that is
not followed by RETURN / POP;RETURN, is never treated as a tail call: it reports `stack overflow` when
`framesIndex` has reached `MaxFrames` and otherwise pushes exactly one frame (fresh discard mark, base
pointer at the first argument, caller's ip saved), leaving the stack contents alone. -/
theorem nontail_pushes_frame (cfg : Cfg) (s : State) (cur : Frame) (id : Nat) (callee : Fn) (numArgs ip : Nat)
    (hcur : s.curFrame? = some cur)
    (hnot : id ≠ cur.fn ∨ ∃ b, tailPattern (cfg.instsOf cur.fn) ip = some (false, b))
    (hlen : cfg.maxFrames ≤ s.frames.length) :
    (cfg.maxFrames ≤ s.framesIndex ∧ dispatch cfg s cur id callee numArgs ip = .err .stackOverflow) ∨
    (s.framesIndex < cfg.maxFrames ∧ ∃ s', dispatch cfg s cur id callee numArgs ip = .ok s' ∧
      s'.framesIndex = s.framesIndex + 1 ∧ s'.pc = 0 ∧ s'.sp = s.sp - numArgs + callee.numLocals ∧
      s'.stack = s.stack ∧ s'.frames.length = s.frames.length ∧
      s'.frames[s.framesIndex - 1]? = some { cur with ip := ip } ∧
      ∃ fr, s'.curFrame? = some fr ∧ fr.fn = id ∧ fr.basePointer = s.sp - numArgs ∧ fr.discardResult = false) := by
  rw [dispatch_nontail cfg s cur id callee numArgs ip hnot]
  obtain ⟨h0, hc⟩ := curFrame_some hcur
  unfold pushFrame
  by_cases hge : s.framesIndex ≥ cfg.maxFrames
  · left; exact ⟨hge, by simp [hge]⟩
  · right
    have hlt : s.framesIndex < s.frames.length := by omega
    have hlt' : s.framesIndex - 1 < s.frames.length := by omega
    refine ⟨by omega, ?_⟩
    simp only [hge, if_false, List.getElem?_eq_getElem hlt]
    refine ⟨_, rfl, rfl, rfl, rfl, rfl, by simp, ?_, ?_⟩
    · rw [List.getElem?_set_ne (by omega)]
      simp [hlt']
    · refine ⟨{ s.frames[s.framesIndex] with fn := id, basePointer := s.sp - numArgs, discardResult := false }, ?_, rfl, rfl, rfl⟩
      unfold State.curFrame?
      simp [hlt]

/-- The same at the level of one VM step, for a plain call. -/
theorem nontail_call_pushes (cfg : Cfg) (s : State) (cur : Frame) (id : Nat) (callee : Fn) (numArgs : Nat)
    (h : PlainCall cfg s cur id callee numArgs)
    (hnot : id ≠ cur.fn ∨ ∃ nextOp, (cfg.instsOf cur.fn)[s.pc + 3]? = some nextOp ∧ nextOp ≠ opReturn ∧
        (nextOp = opPop → ∃ x, (cfg.instsOf cur.fn)[s.pc + 4]? = some x ∧ x ≠ opReturn))
    (hlen : cfg.maxFrames ≤ s.frames.length) :
    (cfg.maxFrames ≤ s.framesIndex ∧ callStep cfg s = .err .stackOverflow) ∨
    (s.framesIndex < cfg.maxFrames ∧ ∃ s', callStep cfg s = .ok s' ∧ s'.framesIndex = s.framesIndex + 1 ∧
      s'.pc = 0 ∧ s'.sp = s.sp - numArgs + callee.numLocals ∧ s'.stack = s.stack) := by
  rw [callStep_plain h]
  have hnot' : id ≠ cur.fn ∨ ∃ b, tailPattern (cfg.instsOf cur.fn) (s.pc + 2) = some (false, b) := by
    rcases hnot with h1 | h2
    · exact Or.inl h1
    · exact Or.inr ⟨false, (tailPattern_false_iff _ _ false).mpr ⟨rfl, h2⟩⟩
  rcases nontail_pushes_frame cfg s cur id callee numArgs (s.pc + 2) h.hcur hnot' hlen with h1 | ⟨h2, s', e, a, b, c, d, _⟩
  · exact Or.inl h1
  · exact Or.inr ⟨h2, s', e, a, b, c, d⟩

/-! ### OpReturn and the discard mark (O17) -/

theorem ret_discard {cfg : Cfg} {t u : State} {c : Frame} (hc : t.curFrame? = some c)
    (hd : c.discardResult = true) (h : retStep cfg t = .ok u) :
    u.framesIndex = t.framesIndex - 1 ∧ u.sp = c.basePointer ∧ u.stack[c.basePointer - 1]? = some .undef := by
  unfold retStep at h
  simp only [hc] at h
  split at h
  · cases h
  · simp only [hd, Bool.true_eq_false, and_false, if_false] at h
    split at h
    · cases h
    · split at h
      · cases h
      · split at h
        · cases h
        · rename_i hsp
          cases h
          refine ⟨rfl, rfl, ?_⟩
          have : c.basePointer - 1 < t.stack.length := by omega
          simp [this]

/-- Without the mark a `RETURN 1` hands the top of the stack to the caller. -/
theorem ret_value {cfg : Cfg} {t u : State} {c : Frame} (hc : t.curFrame? = some c)
    (hd : c.discardResult = false) (hk : (cfg.instsOf c.fn)[t.pc + 1]? = some 1) (h : retStep cfg t = .ok u) :
    u.framesIndex = t.framesIndex - 1 ∧ u.sp = c.basePointer ∧
    u.stack[c.basePointer - 1]? = t.stack[t.sp - 1]? ∧ t.sp ≠ 0 := by
  unfold retStep at h
  simp only [hc, hk, hd, and_self, if_true] at h
  split at h
  · cases h
  · rename_i rv hrv
    split at h
    · cases h
    · split at h
      · cases h
      · split at h
        · cases h
        · cases h
          split at hrv
          · cases hrv
          · refine ⟨rfl, rfl, ?_, by assumption⟩
            have : c.basePointer - 1 < t.stack.length := by omega
            simp [this, hrv]

/-- **discard_form_returns_undefined** (the repaired O17). A frame reused through `CALL; POP; RETURN`
hands `undefined` to its caller when it finally returns — after any number of further self tail calls
of either layout and any non-call steps, with any RETURN operand and any value on the stack. -/
theorem discard_form_returns_undefined (cfg : Cfg) (s s1 t u : State) (n : Nat) (cur : Frame)
    (hcur : s.curFrame? = some cur)
    (hform : SelfTailAt cfg s true)
    (hstep : callStep cfg s = .ok s1)
    (hseg : Seg cfg n s1 t)
    (hret : retStep cfg t = .ok u) :
    u.framesIndex = s.framesIndex - 1 ∧ u.sp = cur.basePointer ∧
    u.stack[cur.basePointer - 1]? = some .undef := by
  obtain ⟨cur', s2, m, hcur', h1, h2, _, rfl⟩ := selfTail_step hform hstep
  rw [hcur] at hcur'; cases hcur'
  obtain ⟨h0, hc⟩ := curFrame_some hcur
  have hc2 : s2.frames[s2.framesIndex - 1]? = some cur := by rw [h1, h2]; exact hc
  -- the mark is set by the step …
  have hlt : s2.framesIndex - 1 < s2.frames.length := by
    rcases Nat.lt_or_ge (s2.framesIndex - 1) s2.frames.length with h | h
    · exact h
    · rw [List.getElem?_eq_none h] at hc2; cases hc2
  have hmark : (tailCall s2 cur m true).frames[(tailCall s2 cur m true).framesIndex - 1]? =
      some { cur with discardResult := true } := by
    simp [tailCall, hlt]
  -- … and survives the rest of the frame's life
  have hs := seg_sameFrames hseg
  obtain ⟨c', e0, _, _, e3, e4⟩ := hs.cur _ hmark
  have hfi : t.framesIndex = s.framesIndex := by rw [hs.fi]; exact h2
  have htc : t.curFrame? = some c' := by
    apply curFrame_of (by rw [hfi]; exact h0)
    rw [hs.fi]; exact e0
  obtain ⟨r1, r2, r3⟩ := ret_discard htc (e4 rfl) hret
  have hbp : c'.basePointer = cur.basePointer := e3
  rw [hbp] at r2 r3
  exact ⟨by rw [r1, hfi], r2, r3⟩

/-! ### Captured parameters -/

theorem box_param {s s1 : State} {bp i : Nat} {v : Val} (hslot : s.stack[bp + i]? = some v)
    (hplain : ∀ c, v ≠ .ptr c) (hlt : bp + i < s.sp) (h : getLocalPtr s bp i = some s1) :
    s1.stack[bp + i]? = some (.ptr s.cells.length) ∧ s1.cells = s.cells ++ [v] ∧
    slotValue s1 (bp + i) = some v := by
  unfold getLocalPtr at h
  rw [hslot] at h
  have hlen : bp + i < s.stack.length := by
    rcases Nat.lt_or_ge (bp + i) s.stack.length with h' | h'
    · exact h'
    · rw [List.getElem?_eq_none h'] at hslot; cases hslot
  cases v with
  | ptr c => exact absurd rfl (hplain c)
  | undef | int _ | bool _ | fn _ | arr _ | native _ | other _ =>
    simp only at h
    split at h
    · cases h
      have e : (((s.stack.set (bp + i) (Val.ptr s.cells.length)).set s.sp (Val.ptr s.cells.length)))[bp + i]? =
          some (Val.ptr s.cells.length) := by
        rw [List.getElem?_set_ne (by omega)]; simp [hlen]
      refine ⟨e, rfl, ?_⟩
      unfold slotValue
      simp only [e]
      simp
    · cases h

set_option linter.unusedVariables false in
/-- **tail_captured_params.** Parameter slot `bp + i` was boxed in an earlier iteration (cell `c` holds
that iteration's value `v`; closures created then hold `c`). A self tail call with a plain new argument
`a` at position `i` replaces the SLOT and not the pointee: cell `c` still holds `v`, the parameter now
reads `a`; when the new iteration captures the parameter again it gets a fresh cell `c' ≠ c`, and
assignments to the parameter in the new iteration go to `c'` — cell `c` keeps `v`. -/
theorem tail_captured_params (s : State) (cur : Frame) (numArgs i c : Nat) (v a : Val) (vp : Bool)
    (hboxed : s.stack[cur.basePointer + i]? = some (.ptr c)) (hcell : s.cells[c]? = some v)
    (hi : i < numArgs) (hlayout : cur.basePointer + numArgs + (numArgs + 1) ≤ s.sp)
    (hsp : s.sp ≤ s.stack.length)
    (harg : s.stack[s.sp - numArgs + i]? = some a) (haplain : ∀ k, a ≠ .ptr k) :
    let s' := tailCall s cur numArgs vp
    s'.cells[c]? = some v ∧ s'.stack[cur.basePointer + i]? = some a ∧
    slotValue s' (cur.basePointer + i) = some a ∧
    ∀ s'' : State, getLocalPtr s' cur.basePointer i = some s'' →
      s''.stack[cur.basePointer + i]? = some (.ptr s.cells.length) ∧ s.cells.length ≠ c ∧
      s''.cells[c]? = some v ∧ s''.cells[s.cells.length]? = some a ∧
      ∀ (w : Val) (s3 : State), setLocal s'' cur.basePointer i w = some s3 →
        s3.cells[c]? = some v ∧ s3.cells[s.cells.length]? = some w := by
  intro s'
  have hclt : c < s.cells.length := by
    rcases Nat.lt_or_ge c s.cells.length with h | h
    · exact h
    · rw [List.getElem?_eq_none h] at hcell; cases hcell
  have hslot : s'.stack[cur.basePointer + i]? = some a := by
    show (copyArgs s.stack cur.basePointer (s.sp - numArgs) numArgs)[cur.basePointer + i]? = some a
    rw [copyArgs_inside _ _ _ _ _ hi (by omega) (by omega)]; exact harg
  have hsv : slotValue s' (cur.basePointer + i) = some a := by
    unfold slotValue
    rw [hslot]
    cases a with
    | ptr k => exact absurd rfl (haplain k)
    | undef | int _ | bool _ | fn _ | arr _ | native _ | other _ => rfl
  refine ⟨hcell, hslot, hsv, ?_⟩
  intro s'' hbox
  have hlt : cur.basePointer + i < s'.sp := by
    show cur.basePointer + i < s.sp - (numArgs + 1)
    omega
  obtain ⟨b1, b2, _⟩ := box_param hslot haplain hlt hbox
  have b2' : s''.cells = s.cells ++ [a] := b2
  have b1' : s''.stack[cur.basePointer + i]? = some (.ptr s.cells.length) := b1
  refine ⟨b1', by omega, ?_, ?_, ?_⟩
  · rw [b2', List.getElem?_append_left hclt]; exact hcell
  · rw [b2']; simp
  · intro w s3 hset
    unfold setLocal at hset
    rw [b1'] at hset
    simp only at hset
    split at hset
    · cases hset
      constructor
      · show (s''.cells.set s.cells.length w)[c]? = some v
        rw [List.getElem?_set_ne (by omega), b2', List.getElem?_append_left hclt]; exact hcell
      · show (s''.cells.set s.cells.length w)[s.cells.length]? = some w
        rw [b2']; simp
    · cases hset


/-! ### Non-vacuity: concrete compiler output -/

/-- `f := func(n) { if n == 0 { return 5 }; return f(n-1) }; out := f(3)` as the compiler emits it. -/
def exFn : Fn := { numParams := 1, numLocals := 1, varArgs := false, insts :=
  [25,0, 0,0,0, 5, 9,0,0,0,16, 0,0,1, 21,1, 22,0,0, 25,0, 0,0,2, 40,12, 20,1,0, 21,1] }
def exMain : Fn := { numParams := 0, numLocals := 0, varArgs := false, insts :=
  [0,0,3, 23,0,0, 22,0,0, 0,0,4, 20,1,0, 23,0,1, 41] }
def exCfg : Cfg := { prog := [exMain, exFn], maxFrames := 4, consts := [.int 0, .int 5, .int 1, .fn 1, .int 3] }

def exFrame : Frame := { fn := 1, ip := 0, basePointer := 1, discardResult := false }
/-- the state at the CALL of the first iteration (`n = 3`, argument `2` on the stack) -/
def exCallState : State :=
  { frames := [{ fn := 0, ip := 14, basePointer := 0, discardResult := false }, exFrame, default, default]
    framesIndex := 2
    stack := [.fn 1, .int 3, .fn 1, .int 2, .undef, .undef, .undef, .undef]
    sp := 4, pc := 26, globals := [.fn 1, .undef] }

theorem exPlain : PlainSelfCall exCfg exCallState exFrame exFn 1 :=
  ⟨rfl, rfl, rfl, by decide, rfl, rfl, rfl, rfl⟩

/-- `tailcall_step` applies to it: the parameter slot now holds 2, the frame count is unchanged. -/
example : ∃ s', callStep exCfg exCallState = .ok s' ∧ s'.framesIndex = 2 ∧ s'.pc = 0 ∧ s'.sp = 2 ∧
    s'.stack[1]? = some (.int 2) := by
  obtain ⟨s', h1, h2, _, h4, h5, _, _, _, h9⟩ := tailcall_step exCfg exCallState exFrame exFn 1 exPlain rfl
  exact ⟨s', h1, h2, h4, h5, h9 (by decide) (by decide) 0 (by decide)⟩

example : ∃ s', callStep exCfg exCallState = .ok s' ∧ s'.sp = exFrame.basePointer + exFn.numLocals :=
  tailcall_restart_sp exCfg exCallState exFrame exFn 1 exPlain rfl rfl

/-- Unbounded depth: `f := func() { return f() }` (`GETG 0; CALL 0 0; RET 1`). After the two steps of
one iteration the machine is back in the very same state, so it performs `n` tail calls in two frames
for every `n`: constant frame space is not an artefact of a depth bound. -/
def loopFn : Fn := { numParams := 0, numLocals := 0, varArgs := false, insts := [22,0,0, 20,0,0, 21,1] }
def loopCfg : Cfg := { prog := [exMain, loopFn], maxFrames := 4, consts := [] }
def loopS0 : State :=
  { frames := [{ fn := 0, ip := 14, basePointer := 0, discardResult := false },
               { fn := 1, ip := 0, basePointer := 1, discardResult := false }, default, default]
    framesIndex := 2, stack := [.fn 1, .fn 1, .undef, .undef], sp := 1, pc := 0, globals := [.fn 1] }
def loopS1 : State := { loopS0 with sp := 2, pc := 3 }

theorem loop_step0 : step loopCfg loopS0 = .ok loopS1 := rfl
theorem loop_step1 : step loopCfg loopS1 = .ok loopS0 := rfl
theorem loop_call : callStep loopCfg loopS1 = .ok loopS0 := rfl

theorem loop_selfTail : SelfTailAt loopCfg loopS1 false :=
  ⟨{ fn := 1, ip := 0, basePointer := 1, discardResult := false }, 0, rfl, rfl, rfl, rfl, rfl⟩

theorem tail_any_depth : ∀ n, Seg loopCfg n loopS0 loopS0
  | 0 => Seg.refl _
  | n + 1 => Seg.tail (Seg.other (tail_any_depth n) (show NonCall loopS0 loopS1 from ⟨rfl, rfl⟩))
      loop_selfTail loop_call

/-- … and the executable `step` really iterates it: after `2n` steps, for every `n`, two frames. -/
def iter (cfg : Cfg) : Nat → State → Outcome
  | 0, s => .ok s
  | n + 1, s => match step cfg s with
    | .ok s' => iter cfg n s'
    | o => o

theorem loop_forever : ∀ n, iter loopCfg (2 * n) loopS0 = .ok loopS0
  | 0 => rfl
  | n + 1 => by
    have : 2 * (n + 1) = (2 * n + 1) + 1 := by omega
    rw [this]
    simp only [iter, loop_step0, loop_step1]
    exact loop_forever n

example : Seg loopCfg 1000000 loopS0 loopS0 := tail_any_depth 1000000

/-- `return 1 + f(n-1)`: the CALL is followed by BINARYOP, so it pushes a frame — or overflows at MaxFrames. -/
def ntFn : Fn := { numParams := 1, numLocals := 1, varArgs := false, insts :=
  [25,0, 0,0,0, 5, 9,0,0,0,16, 0,0,1, 21,1, 0,0,2, 22,0,0, 25,0, 0,0,2, 40,12, 20,1,0, 40,11, 21,1] }
def ntCfg (maxFrames : Nat) : Cfg :=
  { prog := [exMain, ntFn], maxFrames := maxFrames, consts := [.int 0, .int 5, .int 1, .fn 1, .int 3] }
def ntCallState : State :=
  { exCallState with stack := [.fn 1, .int 3, .int 1, .fn 1, .int 2, .undef, .undef, .undef], sp := 5, pc := 29 }

theorem ntPlain (m : Nat) : PlainCall (ntCfg m) ntCallState exFrame 1 ntFn 1 :=
  ⟨rfl, rfl, rfl, by decide, rfl, rfl, rfl, rfl⟩

example : ∃ s', callStep (ntCfg 4) ntCallState = .ok s' ∧ s'.framesIndex = 3 := by
  rcases nontail_call_pushes (ntCfg 4) ntCallState exFrame 1 ntFn 1 (ntPlain 4)
    (Or.inr ⟨opBinaryOp, rfl, by decide, by decide⟩) (by decide) with h | ⟨_, s', h, hfi, _⟩
  · exact absurd h.1 (by decide)
  · exact ⟨s', h, hfi⟩

example : callStep (ntCfg 2) ntCallState = .err .stackOverflow := by
  rcases nontail_call_pushes (ntCfg 2) ntCallState exFrame 1 ntFn 1 (ntPlain 2)
    (Or.inr ⟨opBinaryOp, rfl, by decide, by decide⟩) (by decide) with h | ⟨h, _⟩
  · exact h.2
  · exact absurd h (by decide)

/-- O17: `f := func(n) { if n == 0 { return 5 }; f(n-1) }; out := f(3)` — `CALL; POP; RET 0`. -/
def o17Fn : Fn := { numParams := 1, numLocals := 1, varArgs := false, insts :=
  [25,0, 0,0,0, 5, 9,0,0,0,16, 0,0,1, 21,1, 22,0,0, 25,0, 0,0,2, 40,12, 20,1,0, 2, 21,0] }
def o17Cfg : Cfg := { prog := [exMain, o17Fn], maxFrames := 4, consts := [.int 0, .int 5, .int 1, .fn 1, .int 3] }

theorem o17_selfTail : SelfTailAt o17Cfg exCallState true := ⟨exFrame, 1, rfl, rfl, rfl, rfl, rfl⟩

/-- the reused frame in its base case: `n = 0`, the value 5 on the stack, at `RET 1` -/
def o17RetState : State :=
  { exCallState with
    frames := [{ fn := 0, ip := 14, basePointer := 0, discardResult := false },
               { exFrame with discardResult := true }, default, default]
    stack := [.fn 1, .int 0, .int 5, .int 2, .undef, .undef, .undef, .undef], sp := 3, pc := 14 }

/-- the hypotheses of `discard_form_returns_undefined` are met by a concrete run … -/
example : ∃ s1 u, callStep o17Cfg exCallState = .ok s1 ∧ Seg o17Cfg 0 s1 o17RetState ∧
    retStep o17Cfg o17RetState = .ok u ∧ u.stack[0]? = some .undef ∧ u.sp = 1 ∧ u.framesIndex = 1 := by
  have hc : callStep o17Cfg exCallState = .ok (tailCall exCallState exFrame 1 true) := rfl
  have hseg : Seg o17Cfg 0 (tailCall exCallState exFrame 1 true) o17RetState :=
    Seg.other (Seg.refl _) ⟨rfl, rfl⟩
  obtain ⟨u, hr⟩ : ∃ u, retStep o17Cfg o17RetState = .ok u := ⟨_, rfl⟩
  obtain ⟨a, b, c⟩ := discard_form_returns_undefined o17Cfg exCallState _ o17RetState _ 0 exFrame rfl
    o17_selfTail hc hseg hr
  exact ⟨_, _, hc, hseg, hr, c, b, a⟩

/-- … while the `return f(n-1)` form hands the 5 on (`ret_value`). -/
example : ∃ u, retStep exCfg { o17RetState with frames := exCallState.frames } = .ok u ∧
    u.stack[0]? = some (.int 5) := ⟨_, rfl, rfl⟩

/-- Captured parameter: iteration 1 boxed `n = 3` into cell 0; the tail call with argument 2 leaves the
cell alone, the slot reads 2, re-boxing allocates cell 1. -/
def capState : State :=
  { exCallState with stack := [.fn 1, .ptr 0, .fn 1, .int 2, .undef, .undef, .undef, .undef], cells := [.int 3] }

example :
    let s' := tailCall capState exFrame 1 false
    s'.cells[0]? = some (.int 3) ∧ slotValue s' 1 = some (.int 2) ∧
    ∀ s'', getLocalPtr s' 1 0 = some s'' → s''.stack[1]? = some (.ptr 1) ∧ s''.cells[0]? = some (.int 3) := by
  have h := tail_captured_params capState exFrame 1 0 0 (.int 3) (.int 2) false rfl rfl (by decide) (by decide)
    (by decide) rfl (by intro k hk; cases hk)
  exact ⟨h.1, h.2.2.1, fun s'' hb => ⟨(h.2.2.2 s'' hb).1, (h.2.2.2 s'' hb).2.2.1⟩⟩

/-- and boxing really happens on this state: `GETLP 0` on the plain slot of `exCallState` -/
example : ∃ s1, getLocalPtr exCallState 1 0 = some s1 ∧ s1.stack[1]? = some (.ptr 0) ∧ s1.cells = [.int 3] :=
  ⟨_, rfl, rfl, rfl⟩

end Tengo.Props.C16

import Tengo.Proofs.C11PlaceCallC
import Tengo.Props.C01F3
/-!
C11 — PLACEMENT global ↦ local, on fragment F3, with **CALLS of top-level first-order functions inside `P`**.

The moved statements `body` (class `c2Ss n`): the class `g2Ss n` of `Tengo.Props.C11Place` (statements over the
variables `x_0 … x_{n-1}`) plus calls `h(a1, …, ak)` — in any expression position — of a function held in a global
slot `h > n`, the arguments again in the class. The called functions are function constants `fns` of the program;
their bodies are ANY F3 statements (parameters, locals, `return`, calls, recursion, reads / writes of globals) that
do not touch the global slots `≤ n` (`avSs n`: no `.glob i`, no `.assign i _` with `i ≤ n`) — the intrinsic side
condition: a function that reads a moved variable would see the stale global in the local placement. `pre`: the
top-level statements before `P` (typically the declarations `h = func…`), any statements avoiding the slots `≤ n`.

* GLOBAL placement `progGC fns pre body`: main = `pre; body`.
* LOCAL placement `progLC fns pre n L body`: main = `pre; f = <L>; f()` with
  `<L> = func() { x_0 := r_0; …; body[x_i local]; r_0 = x_0; … }` (`f` = global slot `n`, new constant `L`).

`placement_global_vs_local_calls_fragment3_sem` (reference semantics `F3.exec`, any data semantics `E`), under
`hnb` (the global placement is never `bad` — in it a callee value denoting constant `L` would be a dangling function
constant): the local placement ends with globals `g''` iff the global placement ends with some `g'` and
`g'' = upd g' n (E.cs L)` (ALL slots agree — the moved variables `< n`, and everything the called functions wrote
above `n` — except slot `n`, which holds the function); run-time errors correspond; divergence corresponds; the
local placement is never `bad` either.
Layers: `Tengo.Proofs.C11Place.all_ni` (non-interference of the whole evaluator), `simC_all` (same-fuel simulation
for the class), `placementC_forward` / `_progress` / `_backward`.
NOT covered here: the lift to `Compiler.compileFile` + `VM.run`; function VALUES passed as arguments / closures.
-/
set_option linter.unusedVariables false
namespace Tengo.Props.C11PlaceCall
open Tengo.Model Tengo.Model.F3
open Tengo.Model.F0 (Sem upd)
open Tengo.Proofs.C11Place

/-- **Non-interference** of the reference evaluator (statement lists; see `Tengo.Proofs.C11Place.all_ni` for
expressions and `callFn`): `P'` = `P` plus a function constant `L`, the function bodies of `P` and the statements
`ss` avoid the global slots `≤ n`, the start globals agree above `n`. Same fuel: the `P`-run is `bad`, or both runs
have the same kind of result, the same values / locals, final globals that agree above `n`, and each run leaves its
own slots `≤ n` unchanged (`RS`). -/
theorem calls_avoiding_noninterference {V : Type} (E : Env V) (n L : Nat) (P P' : Prog) (H : NI n L P P') (f : Nat)
    (ss : Stms) (g g' : Nat → V) (l : Locals V) (hav : avSs n ss = true) (hs : Sm n g g') :
    RS n g g' (execSs E P f ss g l) (execSs E P' f ss g' l) :=
  (all_ni E H f).ss ss g g' l hav hs

/-- **Same fuel, statement by statement** (class with calls): the global placement is `bad`, or the results
correspond (`RB`: same kind, final locals `mkL n g1 l0` for the final globals `g1` of the global placement, final
globals agree above `n`, the local placement leaves its slots `≤ n` unchanged). -/
theorem placement_calls_same_fuel {V : Type} (E : Env V) (n L : Nat) (P P' : Prog) (H : NI n L P P') (f : Nat)
    (ss : Stms) (g : Nat → V) (lG : Locals V) (gL : Nat → V) (l0 : Locals V) (hc : c2Ss n ss = true)
    (hs : Sm n g gL) :
    RB n l0 gL (execSs E P f ss g lG) (execSs E P' f (renCSs ss) gL (mkL n g l0)) :=
  (simC_all E H f).ss ss g lG gL l0 hc hs

/-- A program that answers (`done` / run-time error) with some fuel is `bad` with no fuel. -/
theorem never_bad_of_answer {V : Type} (E : Env V) (P : Prog) (g : Nat → V) (f0 : Nat) (r : PRes V)
    (h0 : F3.exec E P f0 g = r) (hno : r ≠ .out) (hnb : r ≠ .bad) : ∀ f, F3.exec E P f g ≠ .bad := by
  intro f hb
  rcases Nat.le_total f f0 with h | h
  · have := exec_mono E P h hb (by simp)
    rw [h0] at this; exact hnb this
  · have := exec_mono E P h h0 hno
    rw [hb] at this; exact hnb this.symm

/-- **Placement global ↦ local with calls inside `P`, reference semantics of F3** (see the module text). -/
theorem placement_global_vs_local_calls_fragment3_sem {V : Type} (E : Env V) (fns : Nat → Option FnDef)
    (pre body : Stms) (n L : Nat) (hL : fns L = none)
    (hav : ∀ k fd, fns k = some fd → avSs n fd.body = true) (hpre : avSs n pre = true)
    (hc : c2Ss n body = true) (hfn : E.asFn (E.cs L) = some L) (g : Nat → V)
    (hnb : ∀ f, F3.exec E (progGC fns pre body) f g ≠ .bad) :
    (∀ g'', (∃ F, F3.exec E (progLC fns pre n L body) F g = .done g'') ↔
      ∃ f g', F3.exec E (progGC fns pre body) f g = .done g' ∧ g'' = upd g' n (E.cs L)) ∧
    ((∃ F, F3.exec E (progLC fns pre n L body) F g = .err) ↔ ∃ f, F3.exec E (progGC fns pre body) f g = .err) ∧
    ((∀ F, F3.exec E (progLC fns pre n L body) F g = .out) ↔ ∀ f, F3.exec E (progGC fns pre body) f g = .out) ∧
    (∀ F, F3.exec E (progLC fns pre n L body) F g ≠ .bad) := by
  have bwd := fun F r' (hr : F3.exec E (progLC fns pre n L body) F g = r') (hne : r' ≠ .out) =>
    placementC_backward hL hav hpre hc hfn g hnb F r' hr hne
  have fwd := fun f r (hr : F3.exec E (progGC fns pre body) f g = r) (hne : r ≠ .out) =>
    placementC_forward (n := n) hL hav hpre hc hfn g hnb f r hr hne
  refine ⟨fun g'' => ⟨?_, ?_⟩, ⟨?_, ?_⟩, ⟨?_, ?_⟩, ?_⟩
  · rintro ⟨F, hF⟩
    obtain ⟨f, r, hr, hne, heq⟩ := bwd F _ hF (by simp)
    cases r with
    | done g' => simp only [tPC, PRes.done.injEq] at heq; exact ⟨f, g', hr, heq⟩
    | err => cases heq
    | out => cases heq
    | bad => cases heq
  · rintro ⟨f, g', hf, rfl⟩
    exact fwd f _ hf (by simp)
  · rintro ⟨F, hF⟩
    obtain ⟨f, r, hr, hne, heq⟩ := bwd F _ hF (by simp)
    cases r with
    | done g' => cases heq
    | err => exact ⟨f, hr⟩
    | out => cases heq
    | bad => cases heq
  · rintro ⟨f, hf⟩
    exact fwd f _ hf (by simp)
  · intro h f
    cases hr : F3.exec E (progGC fns pre body) f g with
    | out => rfl
    | done g' =>
      obtain ⟨F, hF⟩ := fwd f _ hr (by simp)
      rw [h F] at hF; cases hF
    | err =>
      obtain ⟨F, hF⟩ := fwd f _ hr (by simp)
      rw [h F] at hF; cases hF
    | bad => exact absurd hr (hnb f)
  · intro h F
    cases hr : F3.exec E (progLC fns pre n L body) F g with
    | out => rfl
    | done g' =>
      obtain ⟨f, hf⟩ := placementC_progress hL hav hpre hc hfn g F (by rw [hr]; simp)
      exact absurd (h f) hf
    | err =>
      obtain ⟨f, hf⟩ := placementC_progress hL hav hpre hc hfn g F (by rw [hr]; simp)
      exact absurd (h f) hf
    | bad =>
      obtain ⟨f, hf⟩ := placementC_progress hL hav hpre hc hfn g F (by rw [hr]; simp)
      exact absurd (h f) hf
  · intro F hF
    obtain ⟨f, r, hr, hne, heq⟩ := bwd F _ hF (by simp)
    cases r with
    | done g' => cases heq
    | err => cases heq
    | out => cases heq
    | bad => exact hnb f hr

/-! ### non-vacuity -/

namespace Example
open Tengo.Props.C01F3 (natSem3)

/-- Constants: 0 ↦ 1, 1 ↦ 3, 2 ↦ the function `h` (value 1000), 3 ↦ the new function `f` (value 2000). -/
def natEnv : Env Nat :=
  { S := natSem3, cs := fun k => [1, 3, 1000, 2000].getD k 0,
    asFn := fun v => if v == 1000 then some 2 else if v == 2000 then some 3 else none }

/-- `func(a) { cnt = cnt + 1; return a + a }` — `cnt` is global slot 4, `a` local slot 0 (token 11 is `+`). -/
def hDef : FnDef :=
  { nparams := 1, nlocals := 1,
    body := .cons (.assign 4 (.bin 11 (.glob 4) (.lit 0))) (.cons (.ret (.bin 11 (.loc 0) (.loc 0))) .nil) }

def exFns : Nat → Option FnDef := fun k => if k = 2 then some hDef else none

/-- `h = func(a) {…}` — `h` is global slot 3. -/
def exPre : Stms := .cons (.assign 3 (.lit 2)) .nil

/-- `x0 = h(x0 + 1); for x1 < 3 { x1 = h(x1) + 1 }` over the two variables `x0`, `x1` (token 38 is `<`). -/
def exBody : Stms :=
  .cons (.assign 0 (.call (.glob 3) (.cons (.bin 11 (.glob 0) (.lit 0)) .nil)))
  (.cons (.whil (.bin 38 (.glob 1) (.lit 1))
    (.cons (.assign 1 (.bin 11 (.call (.glob 3) (.cons (.glob 1) .nil)) (.lit 0))) .nil)) .nil)

/-- decidable view of a result: `x0 = a`, `x1 = b`, `cnt = c` -/
def ends (a b c : Nat) : PRes Nat → Bool
  | .done g => g 0 == a && g 1 == b && g 4 == c
  | _ => false

theorem exFns_L : exFns 3 = none := by
  unfold exFns; rw [if_neg (by decide)]

theorem exFns_av : ∀ k fd, exFns k = some fd → avSs 2 fd.body = true := by
  intro k fd h
  unfold exFns at h
  by_cases hk : k = 2
  · rw [if_pos hk] at h; cases h; decide
  · rw [if_neg hk] at h; cases h

example : avSs 2 exPre = true := by decide
example : c2Ss 2 exBody = true := by decide

/-- **Non-vacuity of `placement_global_vs_local_calls_fragment3_sem`**: the global placement ends with `x0 = 2`,
`x1 = 3`, `cnt = 3` (fuel 40; so it is never `bad`: `never_bad_of_answer`), hence — by the theorem — the local
placement ends with the same values in these global slots; checked directly as well (fuel 60). -/
example : ∃ F g'', F3.exec natEnv (progLC exFns exPre 2 3 exBody) F (fun _ => 0) = .done g'' ∧
    g'' 0 = 2 ∧ g'' 1 = 3 ∧ g'' 4 = 3 := by
  have hG : ends 2 3 3 (F3.exec natEnv (progGC exFns exPre exBody) 40 (fun _ => 0)) = true := by decide
  cases he : F3.exec natEnv (progGC exFns exPre exBody) 40 (fun _ => 0) with
  | done g' =>
    rw [he] at hG
    simp only [ends, Bool.and_eq_true, beq_iff_eq] at hG
    have hnb := never_bad_of_answer natEnv (progGC exFns exPre exBody) (fun _ => 0) 40 _ he (by simp) (by simp)
    obtain ⟨F, hF⟩ := ((placement_global_vs_local_calls_fragment3_sem natEnv exFns exPre exBody 2 3 exFns_L exFns_av
      (by decide) (by decide) (by decide) (fun _ => 0) hnb).1 _).2 ⟨40, g', he, rfl⟩
    refine ⟨F, _, hF, ?_, ?_, ?_⟩
    · simp only [upd]; exact hG.1.1
    · simp only [upd]; exact hG.1.2
    · simp only [upd]; exact hG.2
  | err => rw [he] at hG; cases hG
  | out => rw [he] at hG; cases hG
  | bad => rw [he] at hG; cases hG

example : ends 2 3 3 (F3.exec natEnv (progLC exFns exPre 2 3 exBody) 60 (fun _ => 0)) = true := by decide

end Example

end Tengo.Props.C11PlaceCall

import Tengo.Model.Parser
import Tengo.Model.Printer
import Tengo.Proofs.C20BytesPrint
/-!
C20 — byte level: the printer composed with the SCANNER and the parser.

`Props/C20.lean` proves precedence climbing on token lists. Here the token lists are the ones the scanner model
produces from printed BYTES: `parseFile` = `scan` (UTF-8 decoding, maximal munch, automatic semicolon at end of
input) followed by `parseToks` (statement list → expression statement → `parseExpr`).

Fragment: all expression trees over the 19 binary operators (five levels), the unary operators `+ - ! ^`, the
ternary operator and parentheses, with ASCII identifiers (keywords excluded by the decidable `wordAtom`) and
`true` / `false` / `undefined` as operands. The scanner model has no fuel (well-founded recursion), so no fuel
bound is needed.

Separators. The minimal printer `printMinBytes` puts ONE BLANK between neighbouring tokens: after a blank no
operator can be extended (`fuses t 32 = false`) and no identifier continued. The model of `Node.String()`
(`Printer.printExpr`) puts blanks around binary operators, `?` and `:`, and nothing after `(`, before `)` and after
a unary operator; it parenthesises every operator node, so a unary operator is followed by `(` or by the first
letter of an operand, never by `-`, `+`, `=`, `^`, `&` (`first_full`): `a - -b` is printed `(a - (-b))`, not `a --b`.
-/
namespace Tengo.Props.C20Bytes
open Tengo.Model.Token Tengo.Model.Scanner Tengo.Model.Ast Tengo.Model.Parser Tengo.Model.Printer
open Tengo.Proofs.C20Parser Tengo.Proofs.C20BytesScan Tengo.Proofs.C20BytesStream Tengo.Proofs.C20BytesParse
open Tengo.Proofs.C20BytesPrint
open CE

variable (fo : Bs → Option Nat) (cls : Nat → Nat)

/-! ## 1. The scanner on printed tokens -/

/-- **Maximal munch, operators.** On the spelling of any operator / delimiter of the fragment followed by
characters whose first rune does not extend it (`fuses`, the exact look-ahead table of `Scan()`: `+`→`+=` `++`,
`-`→`-=` `--`, `&`→`&=` `&&` `&^`, `<`→`<=` `<<`, `/`→`/=` `//` `/*`, …) the scanner returns exactly that token at
the current offset, consumes exactly its spelling, reports nothing, and sets `insertSemi` iff the token is `)`. -/
theorem scan_operator (t : Tok) (hop : fragOp t = true) (cs : List Ch) (off : Nat) (ins : Bool)
    (hcl : Clean cs) (hf : fuses t (cur cs) = false) :
    scanLoop cls (chs t.bytes ++ cs) off ins =
      { toks := ⟨t, [], off⟩ :: (scanLoop cls cs (off + t.bytes.length) (t == .RParen)).toks,
        errs := (scanLoop cls cs (off + t.bytes.length) (t == .RParen)).errs } :=
  scanLoop_op cls t hop cs off ins hcl hf

/-- Non-vacuity and the fusing pairs: `- -`, `& ^`, `+ +`, `< <`, `! =` fuse; `< -`, `- (`, `- a`, `& (` do not. -/
example : fuses .Sub 45 = true ∧ fuses .And 94 = true ∧ fuses .Add 43 = true ∧ fuses .Less 60 = true ∧
    fuses .Not 61 = true ∧ fuses .Less 45 = false ∧ fuses .Sub 40 = false ∧ fuses .Sub 97 = false ∧
    fuses .And 40 = false ∧ fragOp .Sub = true ∧ Clean (chs [45, 98]) := by
  refine ⟨by decide, by decide, by decide, by decide, by decide, by decide, by decide, by decide, by decide,
    by decide, clean_chs _⟩

/-- **Identifiers and keywords.** On an ASCII identifier spelling followed by a rune that is not an identifier
character (for every unicode classification `cls`) the scanner returns `token.Lookup(name)` with the spelling as
literal and `insertSemi` as documented. -/
theorem scan_word (name : Bs) (hw : wordOk name = true) (cs : List Ch) (off : Nat) (ins : Bool)
    (hcl : Clean cs) (hs : identStop (cur cs) = true) :
    scanLoop cls (chs name ++ cs) off ins =
      { toks := ⟨Tok.lookup name, name, off⟩ ::
          (scanLoop cls cs (off + name.length) (identSemi (Tok.lookup name))).toks,
        errs := (scanLoop cls cs (off + name.length) (identSemi (Tok.lookup name))).errs } :=
  scanLoop_word cls name hw cs off ins hcl hs

example : wordOk [97, 95, 49] = true ∧ identStop 32 = true ∧ identStop 41 = true ∧ identStop eofR = true ∧
    identStop 48 = false := by decide

/-- **scan_print_tokens.** A source that is a printed token stream — tokens of the fragment and blanks, every
token followed by a rune that neither fuses with it nor continues it (`StreamOk`) — scans to exactly those tokens
(kind, literal, byte offset: `place 0`), followed by the automatic ";" (literal "\n") when the last token is in the
insert-semicolon set and by EOF, both at the end offset; the scanner reports no error. -/
theorem scan_print_tokens (els : List El) (h : StreamOk els eofR) :
    (scan cls (render els)).toks = place 0 els ++ endToks (render els).length (lastIns false els) ∧
    (scan cls (render els)).errs = [] :=
  Tengo.Proofs.C20BytesStream.scan_print_tokens cls els h

/-- The same in the middle of a source: the scanner continues behind the stream with the flag of its last token. -/
theorem scan_print_tokens_within (els : List El) (off : Nat) (ins : Bool) (cs : List Ch) (hcl : Clean cs)
    (h : StreamOk els (cur cs)) :
    scanLoop cls (chs (render els) ++ cs) off ins =
      { toks := place off els ++ (scanLoop cls cs (off + (render els).length) (lastIns ins els)).toks,
        errs := (scanLoop cls cs (off + (render els).length) (lastIns ins els)).errs } :=
  scan_stream cls els off ins cs hcl h

/-! ## 2. parse ∘ scan ∘ print -/

/-- Bytes of the minimal printer: the tokens of the minimally parenthesised tree, one blank between neighbours. -/
def printMinBytes (e : CE) : Bs := render (spaced e.min.keys)

/-- **parse_printMin on bytes.** For every operator tree `e` (any nesting, any depth; parentheses in `e` are
ignored by `min`), `ParseFile` on the bytes of its minimally parenthesised spelling returns the single expression
statement whose tree has a ParenExpr exactly at the printed parentheses, and without ParenExpr nodes it is the
operator tree itself: the documented precedence / associativity is what the front end implements on source
text. `_partial`: operands are ASCII identifiers and `true`/`false`/`undefined` (no number, string or char
literals, no selectors, calls, indexes, composite or function literals); the source is one expression statement. -/
theorem parse_scan_printMin_partial (e : CE) (hw : e.WF0) (ha : AtomsOk e) :
    parseFile fo cls (printMinBytes e) = some (.cons (.expr e.min.ast) .nil) ∧ e.min.ast.strip = e.tree := by
  have hm := min_wf e hw
  have ham := atomsOk_min e ha
  refine ⟨?_, by rw [strip_ast2, min_tree]⟩
  exact parseFile_stream fo cls e.min hm ham _ (items_spaced _)
    (streamOk_spaced _ (keysOk e.min (wf_wf0 _ hm) ham))

/-- **parse_print on bytes (operator fragment).** For every concrete tree `e` of the fragment, the BYTES the
printer model emits for the file consisting of the expression statement `e.ast` (`File.String()`: every operator
node parenthesised) parse back to one expression statement, namely the AST of the fully parenthesised tree, and
both are the same tree up to ParenExpr nodes. `_partial`: same operand restriction as above; statements other
than one expression statement and the remaining expression forms are covered by the `print` / `reprint` streams. -/
theorem parse_scan_print_partial (e : CE) (hw : e.WF0) (ha : AtomsOk e) :
    parseFile fo cls (printFile (.cons (.expr e.ast) .nil)) = some (.cons (.expr e.full.ast) .nil) ∧
    e.full.ast.strip = e.ast.strip := by
  have hf := full_wf e hw
  have haf := atomsOk_full e ha
  have hp : printFile (.cons (.expr e.ast) .nil) = render (lay e.full) := by
    have h0 : printFile (.cons (.expr e.ast) .nil) = printExpr e.ast := rfl
    rw [h0]
    exact print_lay e hw ha
  refine ⟨?_, by rw [strip_ast2, strip_ast2, full_tree]⟩
  rw [hp]
  exact parseFile_stream fo cls e.full hf haf _ (items_lay _)
    (streamOk_lay e.full (wf_wf0 _ hf) haf (unOk_full e ha) eofR (by decide))

/-- **Layout invariance (fragment).** Any two ways of laying out the tokens of a well-formed concrete tree with
blanks — as long as no token fuses with its successor — parse to the same statement list. -/
theorem parse_layout_invariant_partial (e : CE) (hw : e.WF) (ha : AtomsOk e) (l1 l2 : List El)
    (h1 : items l1 = e.keys.map itemOf) (h2 : items l2 = e.keys.map itemOf)
    (o1 : StreamOk l1 eofR) (o2 : StreamOk l2 eofR) :
    parseFile fo cls (render l1) = parseFile fo cls (render l2) ∧
    parseFile fo cls (render l1) = some (.cons (.expr e.ast) .nil) := by
  rw [parseFile_stream fo cls e hw ha l1 h1 o1, parseFile_stream fo cls e hw ha l2 h2 o2]
  exact ⟨rfl, rfl⟩

/-! ### Non-vacuity -/

/-- `a - -b * c`: as a tree `a - ((-b) * c)`. -/
def ex1 : CE := .bin .Sub (.atom .Ident [97]) (.bin .Mul (.un .Sub (.atom .Ident [98])) (.atom .Ident [99]))

example : ex1.WF0 ∧ AtomsOk ex1 := by
  have hat : isAtomTok Tok.Ident = true := by decide
  have wa : ∀ b : UInt8, wordAtom .Ident [b] = true → AtomsOk (.atom .Ident [b]) := fun _ h => h
  exact ⟨⟨by decide, hat, by decide, ⟨by decide, hat⟩, hat⟩,
    wa 97 (by decide +kernel), wa 98 (by decide +kernel), wa 99 (by decide +kernel)⟩

/-- The minimal printer writes `a - - b * c` (no parentheses needed), the printer model `(a - ((-b) * c))`. -/
example : printMinBytes ex1 = "a - - b * c".toUTF8.toList ∧
    printFile (.cons (.expr ex1.ast) .nil) = "(a - ((-b) * c))".toUTF8.toList := by
  decide +kernel

/-- `(a - b) - c` needs no parentheses, `a - (b - c)` keeps them; `true ? x : y` with keyword operands. -/
example :
    printMinBytes (.bin .Sub (.paren (.bin .Sub (.atom .Ident [97]) (.atom .Ident [98]))) (.atom .Ident [99])) =
      "a - b - c".toUTF8.toList ∧
    printMinBytes (.bin .Sub (.atom .Ident [97]) (.bin .Sub (.atom .Ident [98]) (.atom .Ident [99]))) =
      "a - ( b - c )".toUTF8.toList ∧
    wordAtom .True "true".toUTF8.toList = true ∧ wordAtom .Ident "true".toUTF8.toList = false ∧
    wordAtom .Ident "truth_1".toUTF8.toList = true := by
  decide +kernel

/-- Two different layouts of the same tokens that `parse_layout_invariant_partial` covers. -/
example : render (spaced ex1.min.keys) ≠ render (lay ex1.min) ∧
    (items (spaced ex1.min.keys)).map ikey = (items (lay ex1.min)).map ikey := by
  decide +kernel

/-! ## 3. The same over `Expr` -/

/-- The byte-level operator fragment of `Expr`. -/
def Frag : Expr → Prop
  | .ident n => wordAtom .Ident n = true
  | .bool _ => True
  | .undef => True
  | .bin op l r => 1 ≤ op.prec ∧ Frag l ∧ Frag r
  | .un op e => isUnaryOp op = true ∧ Frag e
  | .cond c t f => Frag c ∧ Frag t ∧ Frag f
  | .paren e => Frag e
  | _ => False

/-- The concrete tree of a fragment expression. -/
def cst : Expr → CE
  | .ident n => .atom .Ident n
  | .bool b => if b then .atom .True Tok.True.bytes else .atom .False Tok.False.bytes
  | .undef => .atom .Undefined Tok.Undefined.bytes
  | .bin op l r => .bin op (cst l) (cst r)
  | .un op e => .un op (cst e)
  | .cond c t f => .cond (cst c) (cst t) (cst f)
  | .paren e => .paren (cst e)
  | _ => .atom .Illegal []

theorem kw_atoms : wordAtom .True Tok.True.bytes = true ∧ wordAtom .False Tok.False.bytes = true ∧
    wordAtom .Undefined Tok.Undefined.bytes = true := by decide +kernel

theorem cst_ok : (x : Expr) → Frag x → (cst x).ast = x ∧ (cst x).WF0 ∧ AtomsOk (cst x)
  | .ident n, h => by
    simp only [Frag] at h
    exact ⟨rfl, (wordAtom_atom h).2.2.1, h⟩
  | .bool true, _ => ⟨rfl, (by decide : isAtomTok Tok.True = true), kw_atoms.1⟩
  | .bool false, _ => ⟨rfl, (by decide : isAtomTok Tok.False = true), kw_atoms.2.1⟩
  | .undef, _ => ⟨rfl, (by decide : isAtomTok Tok.Undefined = true), kw_atoms.2.2⟩
  | .bin op l r, h => by
    simp only [Frag] at h
    obtain ⟨a1, a2, a3⟩ := cst_ok l h.2.1
    obtain ⟨b1, b2, b3⟩ := cst_ok r h.2.2
    exact ⟨by simp [cst, CE.ast, a1, b1], ⟨h.1, a2, b2⟩, ⟨a3, b3⟩⟩
  | .un op e, h => by
    simp only [Frag] at h
    obtain ⟨a1, a2, a3⟩ := cst_ok e h.2
    exact ⟨by simp [cst, CE.ast, a1], ⟨h.1, a2⟩, a3⟩
  | .cond c t f, h => by
    simp only [Frag] at h
    obtain ⟨a1, a2, a3⟩ := cst_ok c h.1
    obtain ⟨b1, b2, b3⟩ := cst_ok t h.2.1
    obtain ⟨c1, c2, c3⟩ := cst_ok f h.2.2
    exact ⟨by simp [cst, CE.ast, a1, b1, c1], ⟨a2, b2, c2⟩, ⟨a3, b3, c3⟩⟩
  | .paren e, h => by
    simp only [Frag] at h
    obtain ⟨a1, a2, a3⟩ := cst_ok e h
    exact ⟨by simp [cst, CE.ast, a1], a2, a3⟩
  | .int _ _, h => by simp [Frag] at h
  | .float _ _, h => by simp [Frag] at h
  | .char _ _, h => by simp [Frag] at h
  | .str _ _, h => by simp [Frag] at h
  | .arr _, h => by simp [Frag] at h
  | .map _, h => by simp [Frag] at h
  | .sel _ _, h => by simp [Frag] at h
  | .idx _ _, h => by simp [Frag] at h
  | .slice _ _ _, h => by simp [Frag] at h
  | .call _ _ _, h => by simp [Frag] at h
  | .func _ _ _, h => by simp [Frag] at h
  | .imp _, h => by simp [Frag] at h
  | .error _, h => by simp [Frag] at h
  | .immutable _, h => by simp [Frag] at h
  | .bad, h => by simp [Frag] at h

/-- **parse_print on bytes, stated over `Expr`.** For every expression of the fragment (`Frag`: binary, unary,
ternary operators and ParenExpr over ASCII identifiers / true / false / undefined), the bytes `File.String()` (model)
emits for the file `x` parse back to one expression statement equal to `x` up to ParenExpr nodes. -/
theorem parse_scan_print_expr_partial (x : Expr) (h : Frag x) :
    ∃ y, parseFile fo cls (printFile (.cons (.expr x) .nil)) = some (.cons (.expr y) .nil) ∧ y.strip = x.strip := by
  obtain ⟨h1, h2, h3⟩ := cst_ok x h
  have := parse_scan_print_partial fo cls (cst x) h2 h3
  rw [h1] at this
  exact ⟨_, this.1, this.2⟩

example : Frag (.bin .Sub (.ident [97]) (.un .Sub (.paren (.bool true)))) :=
  ⟨by decide, (by decide +kernel : wordAtom .Ident [97] = true), by decide, trivial⟩

end Tengo.Props.C20Bytes

import Tengo.Proofs.C15HeapExactAll
/-!
C15 — API refinement WITH in-place updates, over the heap-based host model `Tengo.Model.HostHeap`.

Concrete machine `hstep`/`hrunOps`: one shared store; `Compile` shares the Add-time objects between all
Compiled of a Script (known finding C15-1 is representable), `Clone` deep-copies. Specification
`sstep`/`srunOps`: every handle maps its names to objects (tag, value) of its own; an in-place update is
seen through the aliases of the same handle only.
-/
namespace Tengo.Props.C15Heap
open Tengo.Model.Host hiding execC Host ScriptSt CompiledSt Abs AScript ACompiled
open Tengo.Model.HostHeap
open Tengo.Proofs.C15Heap

/-! ## (1) Refinement under the side condition that excludes C15-1 -/

/-- For every history of NewScript/Add/Remove/Compile/Set/Run/Get/GetAll/IsDefined/Clone calls — scripts with
aliasing (`y = x`) and in-place updates (`x.k = v`, `x[i] = v`) included, any length, any number of handles —
that satisfies `safeOpsG`, every return value of the shared-store machine is the one of the specification.

`safeOpsG` (checked call by call on the state the call is issued in): (a) a `Run c` of code with in-place
updates needs `c` to be a clone or, at that moment, no OTHER Compiled to hold an object of `c` (exclusive
ownership: the first Compiled of a Script before a second one exists, a Compiled whose shared globals were all
replaced by Set, …); (b) a `Compile s` needs that no Add-time object of `s` was held by a Compile-made handle
during such a Run (it still has the value given to Add). C15-1 and its variant "Compile, Run, Compile again"
are exactly the two ways to fail it (`c15_1_witness`, `c15_1_recompile_witness`). -/
theorem api_refines_heap (L : Limits) (ops : List HOp) (h : safeOpsG L {} [] ops = true) :
    hrunOps L {} ops = srunOps L {} ops :=
  runOpsG L ops {} [] wf_empty iso_empty (fun _ _ => rfl) h

/-- Special case "every Compiled that runs in-place updates is a Clone" (`safeOps`). -/
theorem api_refines_heap_clones (L : Limits) (ops : List HOp) (h : safeOps L {} ops = true) :
    hrunOps L {} ops = srunOps L {} ops :=
  api_refines_heap L ops (safeOps_safeOpsG L ops {} h)

/-- Non-vacuity of `api_refines_heap` beyond clones: the only Compiled of a Script aliases and updates in
place twice, is cloned afterwards, gets a new object by Set, both go on updating; a second Script is compiled twice and only read. -/
def sampleHistoryG : List HOp := [
  .newScript [.define "y" (.var "m"), .upd "y" (.field "x") (.int 2), .upd "m" (.field "z") (.int 3)],
  .add 0 "m" (.mapIface [("x", .int .int 1)]), .compile 0, .run 0, .get 0 "m", .clone 0, .set 0 "m" (.mapIface []),
  .run 0, .run 1, .getAll 0, .getAll 1,
  .newScript [.define "t" (.var "a")], .add 1 "a" (.sliceIface [.int .int 1]), .compile 1, .compile 1, .run 2, .run 3,
  .get 2 "t", .get 3 "t"]

example : safeOpsG ⟨100, 100⟩ {} [] sampleHistoryG = true := by decide
example : safeOps ⟨100, 100⟩ {} sampleHistoryG = false := by decide
example : hrunOps ⟨100, 100⟩ {} sampleHistoryG =
    [.script 0, .ok, .compiled 0, .ok, .val (.map [("x", .int 2), ("z", .int 3)]), .compiled 1, .ok, .ok, .ok,
     .vars [("m", .map [("x", .int 2), ("z", .int 3)]), ("y", .map [("x", .int 2), ("z", .int 3)])],
     .vars [("m", .map [("x", .int 2), ("z", .int 3)]), ("y", .map [("x", .int 2), ("z", .int 3)])],
     .script 1, .ok, .compiled 2, .compiled 3, .ok, .ok, .val (.array [.int 1]), .val (.array [.int 1])] := rfl

/-- Non-vacuity: two Compiled of one Script and two clones alive; the clones alias (`y := m`), update in place
through the alias and through an index, fail half-way; the Compile-made handles are only read and Set. -/
def sampleHistory : List HOp := [
  .newScript [.define "y" (.var "m"), .upd "y" (.field "x") (.int 2), .upd "a" (.index 1) (.str [120]),
              .assign "m" (.const (.int 7)), .upd "a" (.index 5) (.int 0), .define "late" (.const (.int 1))],
  .add 0 "m" (.mapIface [("x", .int .int 1)]), .add 0 "a" (.sliceIface [.int .int 1, .int .int 2]),
  .compile 0, .compile 0, .clone 0, .clone 1, .run 2, .get 2 "y", .get 2 "m", .get 2 "a", .get 0 "m", .get 3 "m",
  .set 1 "m" (.int .int 9), .get 3 "m", .run 3, .getAll 3, .isDefined 3 "late", .getAll 0]

example : safeOps ⟨100, 100⟩ {} sampleHistory = true := by decide
example : hrunOps ⟨100, 100⟩ {} sampleHistory =
    [.script 0, .ok, .ok, .compiled 0, .compiled 1, .compiled 2, .compiled 3, .err .runtime,
     .val (.map [("x", .int 2)]), .val (.int 7), .val (.array [.int 1, .str [120]]),
     .val (.map [("x", .int 1)]), .val (.map [("x", .int 1)]), .ok, .val (.map [("x", .int 1)]), .err .runtime,
     .vars [("m", .int 7), ("a", .array [.int 1, .str [120]]), ("y", .map [("x", .int 2)]), ("late", .undefined)],
     .bool false,
     .vars [("m", .map [("x", .int 1)]), ("a", .array [.int 1, .int 2]), ("y", .undefined), ("late", .undefined)]] := rfl

/-! ## (2) The side condition is needed: C15-1 -/

/-- The unrestricted claim. -/
def api_refines_heap_unrestricted (L : Limits) : Prop := ∀ ops : List HOp, hrunOps L {} ops = srunOps L {} ops

/-- The history of known finding C15-1: two Compiled of one Script, an in-place update through the first,
read through the second. -/
def c15_1_history : List HOp := [
  .newScript [.upd "m" (.field "x") (.int 2)], .add 0 "m" (.mapIface [("x", .int .int 1)]),
  .compile 0, .compile 0, .run 0, .get 1 "m"]

/-- The C15-1 history violates the side condition, and on it the model (as script.go) does NOT answer as the
specification: the second Compiled reads the update made through the first. -/
theorem c15_1_witness (L : Limits) :
    safeOpsG L {} [] c15_1_history = false ∧
    hrunOps L {} c15_1_history = [.script 0, .ok, .compiled 0, .compiled 1, .ok, .val (.map [("x", .int 2)])] ∧
    srunOps L {} c15_1_history = [.script 0, .ok, .compiled 0, .compiled 1, .ok, .val (.map [("x", .int 1)])] ∧
    hrunOps L {} c15_1_history ≠ srunOps L {} c15_1_history := by
  refine ⟨rfl, rfl, rfl, ?_⟩
  intro h
  have h1 : hrunOps L {} c15_1_history = [.script 0, .ok, .compiled 0, .compiled 1, .ok, .val (.map [("x", .int 2)])] := rfl
  have h2 : srunOps L {} c15_1_history = [.script 0, .ok, .compiled 0, .compiled 1, .ok, .val (.map [("x", .int 1)])] := rfl
  rw [h1, h2] at h
  simp at h

/-- The other way to fail the side condition: Compile, Run with an in-place update, Compile again — the
second Compiled starts from the updated object, the specification from the value given to Add. -/
def c15_1_recompile_history : List HOp := [
  .newScript [.upd "a" (.index 0) (.int 2)], .add 0 "a" (.sliceIface [.int .int 1]),
  .compile 0, .run 0, .compile 0, .get 1 "a"]

theorem c15_1_recompile_witness (L : Limits) :
    safeOpsG L {} [] c15_1_recompile_history = false ∧
    hrunOps L {} c15_1_recompile_history = [.script 0, .ok, .compiled 0, .ok, .compiled 1, .val (.array [.int 2])] ∧
    srunOps L {} c15_1_recompile_history = [.script 0, .ok, .compiled 0, .ok, .compiled 1, .val (.array [.int 1])] :=
  ⟨rfl, rfl, rfl⟩

theorem api_refines_heap_unrestricted_false (L : Limits) : ¬ api_refines_heap_unrestricted L :=
  fun h => (c15_1_witness L).2.2.2 (h c15_1_history)

/-- The same with the second handle made by Clone: the side condition holds and the answers agree. -/
example : safeOps ⟨9, 9⟩ {} [.newScript [.upd "m" (.field "x") (.int 2)], .add 0 "m" (.mapIface [("x", .int .int 1)]),
    .compile 0, .clone 0, .run 1, .get 0 "m", .get 1 "m"] = true := by decide

/-! ## (3) Clone isolates -/

/-- The calls that observe handle `c`. -/
def observes (c : Nat) : HOp → Bool
  | .get c' _ => c' == c
  | .getAll c' => c' == c
  | .isDefined c' _ => c' == c
  | _ => false

theorem hstate_append (L : Limits) : ∀ (a b : List HOp) (h : Host), hstate L h (a ++ b) = hstate L (hstate L h a) b
  | [], _, _ => rfl
  | op :: a, b, h => by simp only [List.cons_append, hstate]; exact hstate_append L a b _

/-- Observations of a handle depend only on its globals and the objects they hold. -/
theorem obs_congr (L : Limits) (h h' : Host) (c : Nat) (cs : CompiledSt) (hc : h.compiled[c]? = some cs)
    (hc' : h'.compiled[c]? = some cs) (hd : ∀ r, Refs cs.slots r → deref h'.store r = deref h.store r)
    (o : HOp) (ho : observes c o = true) : (hstep L h' o).2 = (hstep L h o).2 := by
  cases o with
  | get c1 n =>
    simp only [observes, beq_iff_eq] at ho; subst ho
    simp only [hstep, hc, hc']
    cases hsl : slotOf cs.slots n with
    | none => rfl
    | some r => simp [hd r (slotOf_refs hsl)]
  | getAll c1 =>
    simp only [observes, beq_iff_eq] at ho; subst ho
    simp only [hstep, hc, hc']
    congr 1
    apply List.map_congr_left
    intro p hp
    obtain ⟨x, o⟩ := p
    cases o with
    | none => rfl
    | some r => simp [hd r ⟨x, hp⟩]
  | isDefined c1 n =>
    simp only [observes, beq_iff_eq] at ho; subst ho
    simp only [hstep, hc, hc']
    cases hsl : slotOf cs.slots n with
    | none => rfl
    | some r => simp [hd r (slotOf_refs hsl)]
  | _ => simp [observes] at ho

/-- After `Clone` (handle `k` returned), whatever the history before (`ops1`) and after (`ops2`), no Run
through another handle `j` — the original included, with any code, in-place updates included — changes any
observation (Get / GetAll / IsDefined) through `k`, and no Run through `k` changes any observation through
`j`. No side condition. -/
theorem clone_isolates_heap (L : Limits) (ops1 ops2 : List HOp) (c0 k j : Nat)
    (hk : (hstep L (hstate L {} ops1) (.clone c0)).2 = .compiled k) (hj : j ≠ k) (o : HOp) :
    (observes k o = true →
      (hstep L (hstep L (hstate L {} (ops1 ++ .clone c0 :: ops2)) (.run j)).1 o).2 =
        (hstep L (hstate L {} (ops1 ++ .clone c0 :: ops2)) o).2) ∧
    (observes j o = true →
      (hstep L (hstep L (hstate L {} (ops1 ++ .clone c0 :: ops2)) (.run k)).1 o).2 =
        (hstep L (hstate L {} (ops1 ++ .clone c0 :: ops2)) o).2) := by
  rw [hstate_append]
  simp only [hstate]
  generalize hh1 : hstate L {} ops1 = h1 at hk
  obtain ⟨hw1, hi1⟩ : WF h1 ∧ Iso h1 := hh1 ▸ inv_ops L ops1 {} wf_empty iso_empty
  -- the clone exists and is marked
  have hck : ∃ ck, (hstep L h1 (.clone c0)).1.compiled[k]? = some ck ∧ ck.cloned = true := by
    cases hc0 : h1.compiled[c0]? with
    | none => simp [hstep, hc0] at hk
    | some cs =>
      simp only [hstep, hc0, Out.compiled.injEq] at hk ⊢
      subst hk
      exact ⟨{ slots := (cloneSlots cs.slots h1.store).2, code := cs.code, cloned := true }, by simp, rfl⟩
  obtain ⟨hw2, hi2⟩ := inv_step L h1 (.clone c0) hw1 hi1
  obtain ⟨ck, hck, hcl⟩ := hck
  obtain ⟨ck', hck', hcl'⟩ := cloned_ops L ops2 _ k ck hck
  obtain ⟨hw, hi⟩ := inv_ops L ops2 _ hw2 hi2
  generalize hstate L (hstep L h1 (.clone c0)).1 ops2 = h at hck' hw hi
  rw [hcl] at hcl'
  cases hcj : h.compiled[j]? with
  | none =>
    have : (hstep L h (.run j)).1 = h := by simp [hstep, hcj]
    constructor
    · intro _; rw [this]
    · intro ho
      have hn : (hstep L h (.run k)).1.compiled[j]? = none := by
        simp only [hstep, hck']
        rw [List.getElem?_set_ne (fun e => hj e.symm)]; exact hcj
      generalize (hstep L h (.run k)).1 = h' at hn
      cases o <;> simp [observes] at ho <;> subst ho <;> simp only [hstep, hn, hcj]
  | some cj =>
    constructor
    · intro ho
      obtain ⟨e1, e2⟩ := run_frame L h hw hi j k cj ck' hcj hck' hj (Or.inr hcl')
      exact obs_congr L h _ k ck' hck' e1 e2 o ho
    · intro ho
      obtain ⟨e1, e2⟩ := run_frame L h hw hi k j ck' cj hck' hcj (fun e => hj e.symm) (Or.inl hcl')
      exact obs_congr L h _ j cj hcj e1 e2 o ho

/-- Non-vacuity: the clone exists in a history with in-place updates on both sides, and the observation is
not trivial. -/
example : (hstep ⟨9, 9⟩ (hstate ⟨9, 9⟩ {} [.newScript [.upd "m" (.field "x") (.int 2)],
    .add 0 "m" (.mapIface [("x", .int .int 1)]), .compile 0]) (.clone 0)).2 = .compiled 1 := rfl
example : hrunOps ⟨9, 9⟩ {} [.newScript [.upd "m" (.field "x") (.int 2)], .add 0 "m" (.mapIface [("x", .int .int 1)]),
    .compile 0, .clone 0, .run 0, .get 1 "m", .get 0 "m"] =
    [.script 0, .ok, .compiled 0, .compiled 1, .ok, .val (.map [("x", .int 1)]), .val (.map [("x", .int 2)])] := rfl

end Tengo.Props.C15Heap

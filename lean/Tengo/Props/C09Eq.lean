import Tengo.Proofs.C09Eq
import Tengo.Proofs.C09EqFuel
import Tengo.Proofs.C09Closed
/-!
C09 — the executable equality of the heap model decides the relation `Eqv` of the freeze theorems.

`equalsN fuel h a b` (what the driver runs and the `eq` operation of the objops/exhaustive streams compares with
the real `Equals`) answers `some true` exactly when `Eqv h a b` holds and `some false` exactly when it does
not, as soon as the fuel exceeds the depth of the left operand.

Hypotheses, all decidable or inductive facts about the heap:
* `Closed h`  every header's store is allocated (as in `freeze_spec`);
* `HdrOk h`   every array header's window `[off, off+len)` lies inside its backing array
              (needed because `Equals` compares `len` fields, `Eqv` the windows themselves);
* `Fin h n v` the part reachable from `v` without looking behind error values is a tree of height ≤ `n`
              (so acyclic: cyclic values run out of fuel, finding O9), holds no retired object and no scalar
              `Equals` cannot compare (function values, NaN — on those `Eqv` is reflexive but Go's `Equals` is not).
-/
namespace Tengo.Props.C09Eq
open Tengo.Model.Heap9 Tengo.Props.C09 Tengo.Proofs.C09Eq

/-- Soundness of a positive answer, for every fuel and every (possibly cyclic) value. -/
theorem equalsN_true_imp_eqv {h : Heap} (c : Closed h) {fuel : Nat} {a b : Val}
    (e : equalsN fuel h a b = some true) : Eqv h a b :=
  equalsN_true_sound c fuel a b e

/-- Soundness of a negative answer, for every fuel and every (possibly cyclic) value. -/
theorem equalsN_false_imp_not_eqv {h : Heap} (w : HdrOk h) {fuel : Nat} {a b : Val}
    (e : equalsN fuel h a b = some false) : ¬ Eqv h a b :=
  equalsN_false_sound w fuel a b e

/-- With fuel above the depth of the left operand the comparison terminates with an answer. -/
theorem equalsN_answers {h : Heap} {n m fuel : Nat} {a b : Val} (fa : Fin h n a) (fb : Fin h m b) (hf : n < fuel) :
    ∃ r, equalsN fuel h a b = some r :=
  equalsN_total fa fb fuel hf

/-- `equalsN` decides `Eqv`. -/
theorem equalsN_decides_eqv {h : Heap} (c : Closed h) (w : HdrOk h) {n m fuel : Nat} {a b : Val}
    (fa : Fin h n a) (fb : Fin h m b) (hf : n < fuel) :
    (equalsN fuel h a b = some true ↔ Eqv h a b) ∧ (equalsN fuel h a b = some false ↔ ¬ Eqv h a b) := by
  obtain ⟨r, hr⟩ := equalsN_answers fa fb hf
  cases r with
  | true =>
    have q := equalsN_true_imp_eqv c hr
    exact ⟨⟨fun _ => q, fun _ => hr⟩, ⟨(fun e => by rw [hr] at e; cases e), fun nq => absurd q nq⟩⟩
  | false =>
    have nq := equalsN_false_imp_not_eqv w hr
    exact ⟨⟨(fun e => by rw [hr] at e; cases e), fun q => absurd q nq⟩, ⟨fun _ => nq, fun _ => hr⟩⟩

/-- The `eq` operation of the model (fuel `objs.length + 2`) answers `Out.bool true` exactly on `Eqv` values,
for values whose depth is below the number of objects plus two (every acyclic value of the heap). -/
theorem step_eq_decides_eqv {h : Heap} (c : Closed h) (w : HdrOk h) {x y n m : Nat} {a b : Val}
    (hx : h.regs[x]? = some a) (hy : h.regs[y]? = some b) (fa : Fin h n a) (fb : Fin h m b) (hf : n < h.fuel) :
    (step h (.eq x y) = (h, .bool true) ↔ Eqv h a b) ∧ (step h (.eq x y) = (h, .bool false) ↔ ¬ Eqv h a b) := by
  obtain ⟨d1, d2⟩ := equalsN_decides_eqv c w fa fb hf
  obtain ⟨r, hr⟩ := equalsN_answers fa fb hf
  simp only [step, hx, hy, hr]
  rw [hr] at d1 d2
  cases r <;> simp_all

/-- The fuel of the model always suffices: a value that is finite at all (`Fin h n v` for some `n`: acyclic, no
retired object, no incomparable scalar) has height at most `objs.length` (no object occurs twice on a path). -/
theorem fin_bounded_by_objects {h : Heap} {n : Nat} {v : Val} (f : Fin h n v) : Fin h h.objs.length v :=
  fin_objs_length f

/-- `equalsN` with the fuel of the model decides `Eqv` on all finite values — no fuel hypothesis left. -/
theorem equalsN_model_fuel_decides_eqv {h : Heap} (c : Closed h) (w : HdrOk h) {n m : Nat} {a b : Val}
    (fa : Fin h n a) (fb : Fin h m b) :
    (equalsN h.fuel h a b = some true ↔ Eqv h a b) ∧ (equalsN h.fuel h a b = some false ↔ ¬ Eqv h a b) :=
  equalsN_decides_eqv c w (fin_objs_length fa) fb (by simp only [Heap.fuel]; omega)

/-- The `eq` operation of the model decides `Eqv` on all finite values. -/
theorem step_eq_decides_eqv_finite {h : Heap} (c : Closed h) (w : HdrOk h) {x y n m : Nat} {a b : Val}
    (hx : h.regs[x]? = some a) (hy : h.regs[y]? = some b) (fa : Fin h n a) (fb : Fin h m b) :
    (step h (.eq x y) = (h, .bool true) ↔ Eqv h a b) ∧ (step h (.eq x y) = (h, .bool false) ↔ ¬ Eqv h a b) :=
  step_eq_decides_eqv c w hx hy (fin_objs_length fa) fb (by simp only [Heap.fuel]; omega)

/-! ### The hypothesis `Closed` is an invariant of the operations -/

/-- Every operation sequence keeps the heap well-formed (`Closed`: every header's store is allocated) … -/
theorem closed_invariant {h : Heap} (c : Closed h) (ops : List Op) : Closed (run h ops) :=
  Tengo.Proofs.C09Closed.run_closed ops c

/-- … so every heap the operations can build from the empty heap is: the hypothesis `Closed` of `freeze_spec`,
`freeze_equal_and_pure_partial`, `freeze_establishes`, of the equality theorems above and of the copy theorems of
C10 holds of all of them. -/
theorem closed_of_built (ops : List Op) : Closed (run {} ops) :=
  Tengo.Proofs.C09Closed.closed_of_ops ops

/-- Instance: `freeze` on any heap built by operations, without a well-formedness hypothesis. -/
theorem freeze_on_built_heaps (ops : List Op) {x : Nat} {v : Val} (hx : (run {} ops).regs[x]? = some v) :
    (step (run {} ops) (.freeze x)) = (run {} ops, .fuel) ∨
    ∃ v', (step (run {} ops) (.freeze x)).2 = .pushed 1 ∧
      (step (run {} ops) (.freeze x)).1.regs[(run {} ops).regs.length]? = some v' ∧
      Ext (run {} ops) (step (run {} ops) (.freeze x)).1 ∧ Eqv (step (run {} ops) (.freeze x)).1 v' v ∧
      DeepImm (step (run {} ops) (.freeze x)).1 false v' ∧ Closed (step (run {} ops) (.freeze x)).1 :=
  freeze_equal_and_pure_partial hx (closed_of_built ops)

/-! ### Non-vacuity -/

/-- `[[1], 2]`, a copy of it, and `[[1], 3]` in handles @3, @4, @7. -/
def exEq : Heap := run {} [.lit (.int 1), .mkArr [0] 1, .lit (.int 2), .mkArr [1, 2] 4, .copy 3 [],
  .lit (.int 3), .mkArr [0] 1, .mkArr [6, 5] 2]

theorem exEq_closed : Closed exEq := by decide
theorem exEq_hdrOk : HdrOk exEq := by decide
theorem exEq_regs : exEq.regs[3]? = some (.ref 1) ∧ exEq.regs[4]? = some (.ref 3) ∧ exEq.regs[7]? = some (.ref 5) := by decide

theorem exEq_fin : Fin exEq 2 (.ref 1) ∧ Fin exEq 2 (.ref 3) ∧ Fin exEq 2 (.ref 5) :=
  ⟨fin_of_finB _ _ (by decide), fin_of_finB _ _ (by decide), fin_of_finB _ _ (by decide)⟩

/-- The hypotheses of `equalsN_decides_eqv` / `step_eq_decides_eqv` are met, both answers occur: the copy is equal … -/
example : step exEq (.eq 3 4) = (exEq, .bool true) ∧ Eqv exEq (.ref 1) (.ref 3) := by
  have d := step_eq_decides_eqv exEq_closed exEq_hdrOk (x := 3) (y := 4) exEq_regs.1 exEq_regs.2.1 exEq_fin.1 exEq_fin.2.1 (by decide)
  have e : step exEq (.eq 3 4) = (exEq, .bool true) := by decide
  exact ⟨e, d.1.mp e⟩

/-- … and `[[1], 3]` is not. -/
example : step exEq (.eq 3 7) = (exEq, .bool false) ∧ ¬ Eqv exEq (.ref 1) (.ref 5) := by
  have d := step_eq_decides_eqv exEq_closed exEq_hdrOk (x := 3) (y := 7) exEq_regs.1 exEq_regs.2.2 exEq_fin.1 exEq_fin.2.2 (by decide)
  have e : step exEq (.eq 3 7) = (exEq, .bool false) := by decide
  exact ⟨e, d.2.mp e⟩

/-- `step_eq_decides_eqv_finite` needs no bound: any witness of finiteness will do (here a wasteful 40). -/
example := step_eq_decides_eqv_finite exEq_closed exEq_hdrOk (x := 3) (y := 7) exEq_regs.1 exEq_regs.2.2
  (exEq_fin.1.mono (by decide : 2 ≤ 40)) exEq_fin.2.2

/-- Why `HdrOk` is needed: a header of length 2 over a one-cell backing array (no operation builds it) compares
unequal to a length-1 header over the same cell, while their windows are the same. -/
example : let h : Heap := { objs := [.arr true 0 0 2 2, .arr true 0 0 1 1], astores := [[.int 1]] }
    ¬ HdrOk h ∧ equalsN 3 h (.ref 0) (.ref 1) = some false := by decide

end Tengo.Props.C09Eq

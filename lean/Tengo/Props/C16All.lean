import Tengo.Props.C16
import Tengo.Props.C16Compile
import Tengo.Props.C16CompileFn
/-!
C16 — all theorems: `Tengo.Props.C16` (frame model of OpCall / OpReturn, shape facts), `Tengo.Props.VM`
(whole-VM model), `Tengo.Props.C16Compile` (tail-call layouts emitted by the compiler model) and
`Tengo.Props.C16CompileFn` (the same from SOURCE through a whole function literal, liveness included).
-/

import Tengo.Model.Conc
import Tengo.Proofs.Conc
import Tengo.Proofs.ConcLive
import Tengo.Proofs.ConcShape
/-!
C05 — No script can take the host down through the context-aware run path.

Theorems over the protocol system `Tengo.Model.Conc`, for ALL program behaviours and ALL schedules. Every
way a run can end is classified `ok | err | goPanic | fatal` (`Outcome`): `goPanic` is a Go run-time panic
that the deferred `recover` of the goroutine catches and sends as an error; `fatal` is what `recover`
cannot catch (Go stack exhaustion by native recursion over a cyclic or very deep value): the process dies.

`C05_full` ("no program behaviour is fatal") is FALSE on the unchanged tree (known finding O9:
`a := [0]; a[0] = a; a == a`), so the protocol theorems carry the hypothesis `¬ ReachesFatal b`; the
`fatal_takes_host_down` theorem shows that the hypothesis cannot be dropped.
-/
namespace Tengo.Props.C05
open Tengo.Model.Conc Tengo.Proofs.Conc Tengo.Proofs.ConcShape

/-- The skeleton of `Compiled.RunContext` / `Compiled.Run` the model transcribes is the one script.go has
now: Lock first, deferred Unlock, fresh VM, `make(chan error, 1)`, one goroutine with a deferred
`recover` whose three clauses all send, two-way select, `Abort` then drain in the `ctx.Done()` branch. -/
theorem shape_matches : genRc = expectRc := by decide

abbrev Fair := Tengo.Proofs.Conc.Fair

/-- What `RunContext` hands back is nil or an error value — never a panic. -/
def IsNilOrError (r : Ret) : Prop :=
  r = .ctxErr ∨ r = .res .nilErr ∨ r = .res .runErr ∨ r = .res .panicErr

theorem ret_nil_or_error (r : Ret) : IsNilOrError r := by
  cases r with
  | ctxErr => exact Or.inl rfl
  | res m => cases m <;> simp [IsNilOrError]

/-- **RunContext returns.** For every program behaviour that does not reach a Go-fatal condition — whether
it ends ok, with a run-time error, or with a Go panic (recovered and sent as an error) — and every fair
schedule in which the program terminates or the context is eventually cancelled: the call returns nil or
an error, the lock is released, exactly one value was sent on the channel and it was received, and the
goroutine is finished. -/
theorem runContext_returns (b : Beh) (pre : Bool) (σ : Nat → Choice) (hnf : ¬ ReachesFatal b) (hf : Fair σ)
    (hend : Terminates b ∨ ∃ n0, (run b σ (init pre) n0).cancelled = true) :
    ∃ n r, (run b σ (init pre) n).cpc = .returned r ∧ IsNilOrError r ∧
      (run b σ (init pre) n).lockHeld = false ∧ (run b σ (init pre) n).sends = 1 ∧
      (run b σ (init pre) n).recvs = 1 ∧ (run b σ (init pre) n).chan = none ∧
      (run b σ (init pre) n).rpc = .done := by
  have key : ∃ n r, (run b σ (init pre) n).cpc = .returned r := by
    rcases hend with ⟨i, o, hfin⟩ | ⟨n0, hc⟩
    · have hl : Live b i (init pre) := ⟨inv_init b pre, hnf, Or.inr ⟨o, hfin⟩⟩
      exact eventually_returns _ _ hl rfl σ hf
    · have hreach : Reach b pre (run b σ (init pre) n0) := run_reach σ Reach.init n0
      have hl : Live b 0 (run b σ (init pre) n0) := ⟨inv_reach hreach, hnf, Or.inl hc⟩
      obtain ⟨n, r, hret⟩ := eventually_returns _ _ hl rfl (shift σ n0) (fair_shift hf n0)
      exact ⟨n0 + n, r, by rw [run_add]; exact hret⟩
  obtain ⟨n, r, hret⟩ := key
  have hfacts := returned_facts (inv_reach (run_reach σ (Reach.init (b := b) (pre := pre)) n)) hret
  exact ⟨n, r, hret, ret_nil_or_error r, hfacts.1, hfacts.2.2.1, hfacts.2.2.2.1, hfacts.2.2.2.2.1, hfacts.2.1⟩

/-- A Go panic raised by an instruction is delivered as an error value (uncancelled run). -/
theorem goPanic_becomes_error (b : Beh) (i : Nat) (hfin : FinishesAt b i .goPanic) (hnf : ¬ ReachesFatal b)
    (σ : Nat → Choice) (hf : Fair σ) (hnever : ∀ n, σ n ≠ .cancel) :
    ∃ n, (run b σ (init false) n).cpc = .returned (.res .panicErr) := by
  have hl : Live b i (init false) := ⟨inv_init b false, hnf, Or.inr ⟨_, hfin⟩⟩
  obtain ⟨n, r, hret⟩ := eventually_returns _ _ hl rfl σ hf
  refine ⟨n, ?_⟩
  have hfacts := returned_facts (inv_reach (run_reach σ (Reach.init (b := b) (pre := false)) n)) hret
  cases r with
  | ctxErr =>
    have := (hfacts.2.2.2.2.2.1 rfl).1
    rw [run_never_cancel hnever n] at this
    simp [init] at this
  | res m =>
    obtain ⟨_, o', i', hfin', hm, _⟩ := hfacts.2.2.2.2.2.2 m rfl
    obtain ⟨_, ho⟩ := finishesAt_unique hfin hfin'
    rw [hret, ← hm, ← ho]
    rfl

/-- **Host survives (partial: needs `¬ ReachesFatal`).** No schedule can lose the process. -/
theorem host_survives_partial (b : Beh) (pre : Bool) (s : State) (hnf : ¬ ReachesFatal b) (hr : Reach b pre s) :
    s.rpc ≠ .crashed :=
  fun hc => hnf ((inv_reach hr).crashedFatal hc)

/-- **The compiled object stays usable.** Once a call has returned (any non-fatal outcome), the lock is
free — `Get`, `Set`, `Run`, `RunContext` can take it —, no goroutine of the finished call is left that
could still touch the globals, and the next `RunContext` starts like a first call (fresh VM). The CONTENT
of the globals (possibly partially updated by a failed run) is not part of this model; it is checked on
the real code by harness/cmd/c05. -/
theorem compiled_reusable (b : Beh) (pre : Bool) (s : State) (hr : Reach b pre s) (r : Ret)
    (hret : s.cpc = .returned r) (pre' : Bool) :
    s.lockHeld = false ∧ s.rpc = .done ∧ s.chan = none ∧ nextCall s pre' = init pre' := by
  have h := returned_facts (inv_reach hr) hret
  refine ⟨h.1, h.2.1, h.2.2.2.2.1, ?_⟩
  simp [nextCall, h.1, init]

/-- The full claim: no program of the considered class has a fatal behaviour. It is a statement about the
VM (which behaviours programs have), not about the protocol; on the unchanged tree it is false (O9). -/
def C05_full (behaviours : Beh → Prop) : Prop := ∀ b, behaviours b → ¬ ReachesFatal b

/-- The hypothesis cannot be dropped: a behaviour that reaches a fatal instruction has a schedule on
which the process is lost with the caller still inside `RunContext` holding the lock. -/
theorem fatal_takes_host_down (b : Beh) (hfat : ReachesFatal b) :
    ∃ s, Reach b false s ∧ s.rpc = .crashed ∧ Terminal b s ∧ s.cpc = .waiting ∧ s.lockHeld = true := by
  obtain ⟨i, hreach, hb⟩ := hfat
  -- the caller goes to the select, then the runner runs alone
  have h0 : Reach b false
      { init false with lockHeld := true, cpc := .waiting, rpc := .spawned } := by
    have h1 : Reach b false { init false with lockHeld := true, cpc := .locked } :=
      Reach.step (.caller false) Reach.init (by simp [step, init, callerStep])
    exact Reach.step (.caller false) h1 (by simp [step, init, callerStep])
  have hpoll : ∀ j, j ≤ i → Reach b false
      { init false with lockHeld := true, cpc := .waiting, rpc := .poll j } := by
    intro j
    induction j with
    | zero => intro _; exact Reach.step .runner h0 (by simp [step, init, runnerStep, tick])
    | succ j ih =>
      intro hj
      have h1 := ih (by omega)
      have h2 : Reach b false { init false with lockHeld := true, cpc := .waiting, rpc := .exec j } :=
        Reach.step .runner h1 (by simp [step, init, runnerStep, tick])
      exact Reach.step .runner h2 (by simp [step, init, runnerStep, tick, hreach j (by omega)])
  have hexec : Reach b false { init false with lockHeld := true, cpc := .waiting, rpc := .exec i } :=
    Reach.step .runner (hpoll i (Nat.le_refl _)) (by simp [step, init, runnerStep, tick])
  refine ⟨{ init false with lockHeld := true, cpc := .waiting, rpc := .crashed },
    Reach.step .runner hexec (by simp [step, init, runnerStep, tick, hb]), rfl, ?_, rfl, rfl⟩
  exact ⟨fun p => by simp [step], by simp [step]⟩

theorem C05_full_false_of_witness (behaviours : Beh → Prop) (b : Beh) (hb : behaviours b) (hf : ReachesFatal b) :
    ¬ C05_full behaviours := fun h => h b hb hf

/-! ### Non-vacuity -/

def noCancel : Nat → Choice := fun n => if n % 2 = 0 then .caller false else .runner

theorem noCancel_fair : Fair noCancel ∧ ∀ n, noCancel n ≠ .cancel := by
  refine ⟨⟨fun n => ⟨2 * n, by omega, by simp [noCancel, Choice.isCaller]⟩,
    fun n => ⟨2 * n + 1, by omega, ?_⟩⟩, ?_⟩
  · have h1 : (2 * n + 1) % 2 = 1 := by omega
    simp [noCancel, h1]
  · intro n
    unfold noCancel
    split <;> simp

theorem fin_noFatal (n : Nat) (o : Outcome) (ho : o ≠ .fatal) : ¬ ReachesFatal (Prog.fin n o).beh := by
  intro ⟨i, _, h⟩
  simp only [Prog.beh] at h
  split at h
  · cases h
  · cases h; exact ho rfl

theorem fin_finishes (n : Nat) (o : Outcome) : FinishesAt (Prog.fin n o).beh n o :=
  ⟨fun j hj => by simp [Prog.beh, hj], by simp [Prog.beh]⟩

/-- runContext_returns hypotheses are met by a program that panics at its third instruction. -/
example : ∃ n r, (run (Prog.fin 2 .goPanic).beh noCancel (init false) n).cpc = .returned r ∧ IsNilOrError r :=
  let ⟨n, r, h, hr, _⟩ := runContext_returns (Prog.fin 2 .goPanic).beh false noCancel
    (fin_noFatal 2 .goPanic (by decide)) noCancel_fair.1 (Or.inl ⟨2, .goPanic, fin_finishes 2 .goPanic⟩)
  ⟨n, r, h, hr⟩

/-- The recovered panic on a concrete schedule: returned as an error, lock free, one send, one receive. -/
def exPanic : State := runList (Prog.fin 1 .goPanic).beh (init false)
  [.caller false, .caller false, .runner, .runner, .runner, .runner, .runner, .runner, .runner,
   .caller false, .caller false]

example : exPanic.cpc = .returned (.res .panicErr) ∧ exPanic.lockHeld = false ∧ exPanic.sends = 1 ∧
    exPanic.recvs = 1 ∧ exPanic.rpc = .done := by decide

/-- The fatal terminal kind: the witness behaviour of `fatal_takes_host_down`. -/
def exFatal : State := runList (Prog.fin 1 .fatal).beh (init false)
  [.caller false, .caller false, .runner, .runner, .runner, .runner, .runner, .caller false, .runner]

example : exFatal.rpc = .crashed ∧ exFatal.cpc = .waiting ∧ exFatal.lockHeld = true := by decide

example : ReachesFatal (Prog.fin 1 .fatal).beh := ⟨1, fin_finishes 1 .fatal⟩

end Tengo.Props.C05

import Tengo.Props.C19
import Tengo.Props.C19Enum
/-!
C19 aggregate: the table / adapter theorems (`Props/C19.lean`) and the enum source module on the reference
interpreter (`Props/C19Enum.lean`).
-/

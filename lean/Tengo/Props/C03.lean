import Tengo.Model.Optimizer
import Tengo.Gen.Opcodes
/-!
C03 — Dead-code elimination never changes what a program does.

Property theorems about `Tengo.Model.Optimizer` (the model of `optimizeFunc`), kept apart from the
model. The model is tied to compiler.go by the `opt` correspondence stream (byte-identical output on
every function of every generated program) and by the regenerated opcode table.
-/
namespace Tengo.Props.C03
open Tengo.Model Tengo.Model.Opcodes Tengo.Model.Optimizer

/-- The opcode table the model decodes with is the one parser/opcodes.go declares now. -/
theorem opcode_table_matches : Tengo.Gen.Opcodes.table = Tengo.Model.Opcodes.table := by decide

/-- Control-flow reachability inside one function, by instruction index. `fall` is the layout
successor (every opcode except RETURN and the unconditional JUMP can fall through); `jump` follows
the operand of any of the four jump opcodes to the instruction that starts at that byte offset. -/
inductive Reach (is : List Instr) : Nat → Prop
  | entry : 0 < is.length → Reach is 0
  | fall {k : Nat} {i : Instr} : Reach is k → is[k]? = some i → i.op ≠ opReturn → i.op ≠ opJump →
      Reach is (k + 1)
  | jump {k k' : Nat} {i j : Instr} {t : Nat} : Reach is k → is[k]? = some i → isJump i.op = true →
      i.args.head? = some t → is[k']? = some j → j.pos = t → Reach is k'

theorem marks_length (ds : List Nat) (d : Bool) (is : List Instr) : (marks ds d is).length = is.length := by
  induction is generalizing d with
  | nil => simp [marks]
  | cons i is ih =>
    unfold marks
    split
    · simp [ih]
    · split
      · split <;> simp [ih]
      · split <;> simp [ih]

/-- A live position or a jump destination is kept. -/
theorem head_kept (ds : List Nat) (i : Instr) (is : List Instr) :
    (marks ds false (i :: is))[0]? = some true := by
  by_cases hc : i.pos ∈ ds <;> by_cases hr : i.op = opReturn <;> simp [marks, hc, hr]

/-- A jump destination is kept wherever it occurs. -/
theorem dst_kept (ds : List Nat) : ∀ (is : List Instr) (d : Bool) (k : Nat) (j : Instr),
    is[k]? = some j → j.pos ∈ ds → (marks ds d is)[k]? = some true := by
  intro is
  induction is with
  | nil => intro d k j h; simp at h
  | cons i is ih =>
    intro d k j h hd
    cases k with
    | zero =>
      simp at h
      subst h
      simp [marks, hd]
    | succ k =>
      simp at h
      by_cases hc : i.pos ∈ ds <;> by_cases hr : i.op = opReturn <;> cases d <;>
        simp [marks, hc, hr] <;> exact ih _ k j h hd

/-- After a kept instruction other than RETURN the next instruction is kept. -/
theorem succ_kept (ds : List Nat) : ∀ (is : List Instr) (d : Bool) (k : Nat) (i : Instr),
    is[k]? = some i → (marks ds d is)[k]? = some true → i.op ≠ opReturn → k + 1 < is.length →
    (marks ds d is)[k + 1]? = some true := by
  intro is
  induction is with
  | nil => intro d k i h; simp at h
  | cons x xs ih =>
    intro d k i h hm hop hlt
    cases k with
    | zero =>
      simp at h
      subst h
      cases xs with
      | nil => simp at hlt
      | cons y ys =>
        -- the state after a kept non-RETURN instruction is "not dead"
        by_cases hc : x.pos ∈ ds <;> cases d <;> simp [marks, hc, hop] at hm ⊢ <;>
          (have := head_kept ds y ys; simpa [marks] using this)
    | succ k =>
      simp at h
      have hlt' : k + 1 < xs.length := by simpa using hlt
      by_cases hc : x.pos ∈ ds <;> by_cases hr : x.op = opReturn <;> cases d <;>
        simp [marks, hc, hr] at hm ⊢ <;> exact ih _ k i h hm hop hlt'

theorem jump_target_in_dsts (is : List Instr) (k : Nat) (i : Instr) (t : Nat)
    (h : is[k]? = some i) (hj : isJump i.op = true) (ht : i.args.head? = some t) :
    t ∈ dsts is := by
  have hmem : i ∈ is := List.mem_of_getElem? h
  simp only [dsts, List.mem_filterMap]
  exact ⟨i, hmem, by simp [hj, ht]⟩

/-- Every reachable instruction is kept by pass 2. -/
theorem reach_kept (is : List Instr) (k : Nat) (hr : Reach is k) (hk : k < is.length) :
    (marks (dsts is) false is)[k]? = some true := by
  induction hr with
  | entry h =>
    cases is with
    | nil => simp at h
    | cons i is => exact head_kept _ i is
  | @fall k i _ hi hne _ ih =>
    have hk' : k < is.length := by omega
    exact succ_kept (dsts is) is false k i hi (ih hk') hne hk
  | @jump k k' i j t _ hi hj ht hj' hpos _ =>
    have hd : j.pos ∈ dsts is := by
      rw [hpos]; exact jump_target_in_dsts is k i t hi hj ht
    exact dst_kept (dsts is) is false k' j hj' hd

/-- **C03 (removed ⇒ unreachable).** Nothing the optimizer removes was reachable in the original
function: an instruction that pass 2 drops is not reachable from the function entry in the
control-flow graph of the unoptimized code. Holds for every instruction list (no well-formedness
hypothesis is needed). -/
theorem opt_removed_unreach (is : List Instr) (k : Nat)
    (hrem : (marks (dsts is) false is)[k]? = some false) : ¬ Reach is k := by
  intro hr
  have hk : k < is.length := by
    have := (List.getElem?_eq_some_iff.mp hrem).1
    simpa [marks_length] using this
  have := reach_kept is k hr hk
  rw [this] at hrem
  simp at hrem

/-- Non-vacuity: in `RET 1; NULL; RET 0` (offsets 0,2,3) the NULL and the second RET are removed and
the theorem applies to them; the first instruction is kept. -/
example :
    let is : List Instr := [⟨0, opReturn, [1]⟩, ⟨2, opNull, []⟩, ⟨3, opReturn, [0]⟩]
    marks (dsts is) false is = [true, false, false] := by decide

end Tengo.Props.C03

import Tengo.Proofs.C01F3OptInit
import Tengo.Proofs.C01F3OptProgOk
import Tengo.Props.C03Source
import Tengo.Proofs.C01BridgeF3CompDemo
/-!
C01 on fragment F3 (first-order functions), SOURCE TO VM, with the optimizer: **the reference evaluator of the
fragment and `VM.run` on the code the compiler model REALLY emits (function bodies after `optimizeFunc`) agree.**

The chain, all kernel-checked:

1. `F3.program_correct_F3` (`Props/C01F3`): `F3.exec` ↔ the fragment's abstract machine on `F3.compProg P`
   (raw bodies + `RET 0`);
2. `vm_computes_fragment3` (`Props/C01F3Bridge`): the abstract machine ↔ `VM.run` on any code related to
   `F3.compProg P` by `CodeRel3`;
3. NEW (`Proofs/C01F3Opt*.lean`): the code `Compiler.compileFile` emits on the embedded program has an unoptimized
   twin — with the EXPLICIT raw bodies `encodeIns3 (F3.compSs 0 0 0 body)` — (`srcOk_unoptTwin`: `UnoptTwin`), and
   that twin is `CodeRel3`-related to `F3.compProg P` (`codeRel_twin`). For this: every jump the fragment compiler
   emits lands on an instruction boundary (`body_jok`, for all programs), so raw bodies decode and have well-formed
   jumps, so the optimizer model never panics on them (`srcOk_optOK`: the hypothesis `optOK` of
   `compileFile_fragment3_partial` is now a theorem);
4. the C03 relocation theorem at source level (`Props/C03Source.unopt_twin_same_result` / `…_same_error`, i.e.
   `opt_code_reloc` + `run_reloc`): the twin and the optimized program run alike;
5. `compileFile_fragment3_partial`: the optimized program IS `compileFile`'s output.

No restriction on dead code (`noDeadSs` is NOT assumed): the relocation theorem covers whatever `optimizeFunc`
removes. The non-vacuity example at the end has a function with a statement after its `return`.
-/
set_option linter.unusedVariables false
namespace Tengo.Props.C01F3Source
open Tengo.Model Tengo.Model.F3
open Tengo.Model.Spec (Value GSt Err)
open Tengo.Model.VM (Core Code Cfg Log FnObj)
open Tengo.Proofs.C01BridgeF3 (DataRel GlobRel3 rel_init3)
open Tengo.Proofs.C01BridgeF3Comp (NamesOK toAstProg budMain nlitsMain)
open Tengo.Proofs.C01Bridge (inputsOf)
open Tengo.Proofs.C02Compile (toCodeR toCode)
open Tengo.Proofs.C01BridgeF3 (dataRel3)
open Tengo.Proofs.C01F3Opt
open Tengo.Props.C01F3Bridge (WithinVM vm_computes_fragment3)

/-- The compiler model on the embedded program: what it answers (no `optOK` hypothesis any more). -/
theorem compileFile_srcOk (names lnames : Nat → String) (ctab : Nat → F0.Const) (n : Nat) (P : Prog)
    (hN : NamesOK names lnames n) (hb : ∀ i, lnames i ∉ Spec.builtinNames) (hs : SrcOk P n)
    (hbud : budMain P P.main ≤ Compiler.fuel) :
    Compiler.compileFile (toAstProg names lnames ctab P) (inputsOf names n) = .ok (bcOf P ctab n) :=
  Tengo.Proofs.C01BridgeF3Comp.compileFile_fragment3_partial names lnames ctab n P hN hb hs.wf (srcOk_optOK hs) hbud

/-- **C01 on fragment F3, source to VM (the optimized code).**

Hypotheses, each needed by one link of the chain:
* `hN : NamesOK names lnames n`, `hb` — the embedding into the real AST: global names distinct, local names distinct,
  different from all global names and from the builtin names;
* `hs : SrcOk P n` — `wfProg P n` (the class of programs `compileFile_fragment3_partial` covers: constants numbered
  in compilation order, function literals only as `global = func…` at the top level of main, local definitions at the
  top level of their body, …), every function of `P.fns` is stored by a statement of main, at most 65536 constants
  and globals, main and every body shorter than `2^32` bytes (operand widths); the side condition `ProgOk P` of
  `program_correct_F3` follows (`progOk_of_srcOk`);
* `hbud` — the nesting fits the compiler model's traversal budget;
* `hD : DataRel E.S val`, `hE : EnvOk P ctab E val refs` — the data semantics `E` of the evaluator is what the VM's
  value operations do on the embedded values; `E.cs` are the pool's values, function constant `k` is the function
  value `.cfn (refs k)`, `refs` injective (met by `env3`, see the example);
* `hgs`, `hg`, `hfo` — the VM starts with the evaluator's globals and with the function objects `(k, [])` of the
  function constants at `refs k` (what `VM.initFobjs` sets up);
* `hW : WithinVM …` — the run stays within the VM's fixed sizes (2048 stack slots, 1024 frames); `F3.exec` does not
  count them (decidable per run: `withinVM_of_check`);
* `ha : allocs ≤ 0` — allocation counting off.

Conclusion: the compiler model compiles the embedded program to some `bc`, and on `bc`'s code — the REAL output,
function bodies optimized — with the function constants identified by `refs`, from `VM.initCore`:
* if `F3.exec` finishes with globals `g'`, `VM.run` halts, for every fuel from some point on, heap untouched, in one
  core with an empty operand stack whose globals are (the embedding of) `g'`;
* if `F3.exec` ends in a run-time error, `VM.run` ends `failed` with an error that is not `fuel` — not a fault, not
  the allocation limit, not out of fuel — in one configuration, for every fuel from some point on. -/
theorem source_to_vm_fragment3 {V : Type} (E : Env V) (val : V → Value) (refs : Nat → Nat)
    (names lnames : Nat → String) (ctab : Nat → F0.Const) (n : Nat) (P : Prog)
    (hN : NamesOK names lnames n) (hb : ∀ i, lnames i ∉ Spec.builtinNames)
    (hs : SrcOk P n) (hbud : budMain P P.main ≤ Compiler.fuel)
    (hD : DataRel E.S val) (hE : EnvOk P ctab E val refs)
    (f : Nat) (g : Nat → V) (globals : Array Value) (fobjs : Array FnObj)
    (hgs : globals.size = n) (hg : ∀ i, i < n → globals.getD i .undef = val (g i))
    (hfo : ∀ k fd, P.fns k = some fd → fobjs[refs k]? = some (k, []))
    (hW : WithinVM E (compProg P) (St.init (fun _ => E.S.undef) g))
    (keep : Nat) (allocs : Int) (ha : allocs ≤ 0) (gst : GSt) (heap : Spec.St) :
    ∃ bc, Compiler.compileFile (toAstProg names lnames ctab P) (inputsOf names n) = .ok bc ∧
      (∀ g', F3.exec E P f g = .done g' →
        ∃ (c' : Core) (m : Nat), GlobRel3 n val g' c'.regs.globals ∧ c'.regs.sp = 0 ∧
          ∀ k, (VM.run (toCodeR refs bc) keep (m + 1 + k) allocs ⟨VM.initCore globals fobjs, gst, heap⟩ {}).1 =
            .halted ⟨c', gst, heap⟩) ∧
      (F3.exec E P f g = .err →
        ∃ (e : Err) (at_ : Cfg) (m : Nat), e ≠ Err.fuel ∧
          ∀ k, (VM.run (toCodeR refs bc) keep (m + 1 + k) allocs ⟨VM.initCore globals fobjs, gst, heap⟩ {}).1 =
            .failed e at_) := by
  refine ⟨bcOf P ctab n, compileFile_srcOk names lnames ctab n P hN hb hs hbud, ?_⟩
  have htw := srcOk_unoptTwin hs ctab
  have hcode := codeRel_twin hs ctab hE
  have hrel := rel_init3 (M := compProg P) (ref := refs) globals fobjs (fun _ => E.S.undef) g hgs hg
    (fun _ _ => hD.undef) (fun k cf hk => by
      obtain ⟨fd, hf, _⟩ := compProg_fns hk
      exact hfo k fd hf)
  obtain ⟨h1, h2⟩ := vm_computes_fragment3 E P (progOk_of_srcOk hs) f g (fun _ => E.S.undef) hcode hD hrel hW
    keep allocs {} gst heap ha
  constructor
  · intro g' hg'
    obtain ⟨c', m, hglb, hsp, hrun⟩ := h1 g' hg'
    obtain ⟨cfg', hc', hregs, hgst', hheap'⟩ :=
      Tengo.Props.C03Source.unopt_twin_same_result htw refs keep keep (m + 1 + 0) allocs globals fobjs gst heap
        ⟨c', gst, heap⟩ (hrun 0)
    obtain ⟨core', gst', heap'⟩ := cfg'
    simp only at hregs hgst' hheap'
    subst hgst' hheap'
    refine ⟨core', m, by rw [hregs]; exact hglb, by rw [hregs]; exact hsp, fun k => ?_⟩
    exact Tengo.Proofs.C01Bridge.run_halted_mono _ keep (m + 1) allocs _ {} _ hc' (by intro c hc; cases hc) k
  · intro he
    obtain ⟨e, at_, m, hne, hrun⟩ := h2 he
    refine ⟨e, VM.mapCfg (VM.pmOf (Tengo.Proofs.C03Reloc.optTabs (mainIsOf (compProg P).main) (rawsOf P))) at_,
      m, hne, fun k => ?_⟩
    obtain ⟨cfg', hc', hmap, _⟩ :=
      Tengo.Props.C03Source.unopt_twin_same_error htw refs keep keep (m + 1 + k) allocs globals fobjs gst heap
        e at_ (hrun k)
    rw [← hmap]; exact hc'

/-- **C01 on fragment F3, source to VM, as `VM.Run` starts the program, with the concrete data semantics** — a
closed statement about `F3.exec`, `Compiler.compileFile` and `VM.run` only: no abstract data semantics, no
hypothesis about heap identities or function objects.

For every `SrcOk` program within the traversal budget and every admissible naming: the compiler model
compiles the embedded program to some `bc`; `VM.initFobjs (toCode bc)` (what `VM.Run` does before the first
dispatch: every function constant loaded by a `CONST` gets its function object) is `toCodeR refs bc` for some
`refs`; and for the concrete data semantics `envOf P ctab refs` (scalars and compiled-function values with the VM's
own `binaryOp` / `equalsV` / `isFalsy`, the pool's constants), every fuel of the evaluator, all initial globals and
every run that stays within the VM's fixed sizes (`WithinVM`): `F3.exec` finishing with `g'` means `VM.run` of the
optimized code from that configuration halts with globals `g'` and an empty stack; a run-time error of `F3.exec`
means `VM.run` ends `failed` (not `fuel`). -/
theorem source_to_vm_fragment3_run (names lnames : Nat → String) (ctab : Nat → F0.Const) (n : Nat) (P : Prog)
    (hN : NamesOK names lnames n) (hb : ∀ i, lnames i ∉ Spec.builtinNames)
    (hs : SrcOk P n) (hbud : budMain P P.main ≤ Compiler.fuel) :
    ∃ bc, Compiler.compileFile (toAstProg names lnames ctab P) (inputsOf names n) = .ok bc ∧
      ∃ refs : Nat → Nat, (VM.initFobjs (toCode bc)).1 = toCodeR refs bc ∧
        ∀ (f : Nat) (g : Nat → FVOf P refs) (globals : Array Value), globals.size = n →
          (∀ i, i < n → globals.getD i .undef = (g i).1) →
          WithinVM (envOf P ctab refs) (compProg P) (St.init (fun _ => (envOf P ctab refs).S.undef) g) →
          ∀ (keep : Nat) (allocs : Int), allocs ≤ 0 → ∀ (gst : GSt) (heap : Spec.St),
            (∀ g', F3.exec (envOf P ctab refs) P f g = .done g' →
              ∃ (c' : Core) (m : Nat), GlobRel3 n Subtype.val g' c'.regs.globals ∧ c'.regs.sp = 0 ∧
                ∀ k, (VM.run (VM.initFobjs (toCode bc)).1 keep (m + 1 + k) allocs
                  ⟨VM.initCore globals (VM.initFobjs (toCode bc)).2, gst, heap⟩ {}).1 = .halted ⟨c', gst, heap⟩) ∧
            (F3.exec (envOf P ctab refs) P f g = .err →
              ∃ (e : Err) (at_ : Cfg) (m : Nat), e ≠ Err.fuel ∧
                ∀ k, (VM.run (VM.initFobjs (toCode bc)).1 keep (m + 1 + k) allocs
                  ⟨VM.initCore globals (VM.initFobjs (toCode bc)).2, gst, heap⟩ {}).1 = .failed e at_) := by
  have hbc := compileFile_srcOk names lnames ctab n P hN hb hs hbud
  obtain ⟨refs, hinj, hcode, hobj⟩ := init_refs hs ctab
  refine ⟨bcOf P ctab n, hbc, refs, hcode, ?_⟩
  intro f g globals hgs hg hW keep allocs ha gst heap
  obtain ⟨bc', hbc', h1, h2⟩ := source_to_vm_fragment3 (envOf P ctab refs) Subtype.val refs names lnames ctab n P
    hN hb hs hbud (dataRel3 _) (envOk_env3 hs ctab refs hinj) f g globals
    (VM.initFobjs (toCode (bcOf P ctab n))).2 hgs hg hobj hW keep allocs ha gst heap
  rw [hbc] at hbc'
  injection hbc' with hbc'
  subst hbc'
  rw [hcode]
  exact ⟨h1, h2⟩

/-! ### non-vacuity: a function with dead code after its `return` -/

namespace Example
open Tengo.Proofs.C01BridgeF3 (FV sem3 env3 dataRel3 asFn3_some asFn3_none)
open Tengo.Proofs.C01BridgeF3Comp (gname lname gname_len lname_len lname_all demo_builtin)

/-- `func(x) { return x; x = 7 }`: the assignment after the `return` is dead code (`noDeadSs` is false). -/
def deadBody : Stms := .cons (.ret (.loc 0)) (.cons (.setl 0 (.lit 0)) .nil)
def deadDef : FnDef := { nparams := 1, nlocals := 1, body := deadBody }

/-- `g = func(x) { return x; x = 7 }; gg = g(5)` — constants: 0 = `7`, 1 = the function, 2 = `5`. -/
def exD : Prog where
  fns := fun k => if k = 1 then some deadDef else none
  main := .cons (.assign 0 (.lit 1)) (.cons (.assign 1 (.call (.glob 0) (.cons (.lit 2) .nil))) .nil)

def exCtab : Nat → F0.Const
  | 0 => .int 7
  | _ => .int 5

/-- heap identities of the constants: the function constant 1 gets function object 0 (as `VM.initFobjs` does) -/
def exRefs (k : Nat) : Nat := if k = 1 then 0 else k + 1
def exUnref : Nat → Option Nat := fun r => if r = 0 then some 1 else none
def exCs : Nat → FV exUnref
  | 0 => ⟨.int 7, rfl⟩
  | 1 => ⟨.cfn 0, rfl⟩
  | _ => ⟨.int 5, rfl⟩

example : Tengo.Proofs.C01BridgeF3Comp.noDeadSs deadBody = false := by decide

theorem exD_fns {k : Nat} {fd : FnDef} (h : exD.fns k = some fd) : k = 1 ∧ fd = deadDef := by
  simp only [exD] at h
  by_cases hk : k = 1
  · rw [if_pos hk] at h; injection h with h; exact ⟨hk, h.symm⟩
  · rw [if_neg hk] at h; cases h

theorem exD_src : SrcOk exD 2 where
  wf := by decide
  decl := by
    intro k fd h
    obtain ⟨rfl, _⟩ := exD_fns h
    exact ⟨0, Or.inl rfl⟩
  pool := by decide
  globals := by decide
  mainSize := by decide
  fnSize := by
    intro k fd h
    obtain ⟨_, rfl⟩ := exD_fns h
    decide

theorem exD_names : NamesOK gname lname 2 := by
  refine ⟨fun i j _ _ h => ?_, fun i j h => ?_, fun i j _ h => ?_⟩
  · have := congrArg String.length h; simp only [gname_len] at this; omega
  · have := congrArg String.length h; simp only [lname_len] at this; omega
  · have h1 := lname_all i
    rw [h] at h1
    simp [gname] at h1

theorem exD_env : EnvOk exD exCtab (env3 exUnref exCs) Subtype.val exRefs where
  vals := by
    intro k hk hf
    have hk3 : k < 3 := hk
    match k, hk3 with
    | 0, _ => rfl
    | 1, _ => simp [exD] at hf
    | 2, _ => rfl
  inj := by
    intro a b h
    simp only [exRefs] at h
    split at h <;> split at h <;> omega
  csfn := by
    intro k fd h
    obtain ⟨rfl, _⟩ := exD_fns h
    rfl
  asFn_some := asFn3_some exUnref exRefs (fun r k h => by
    simp only [exUnref] at h
    by_cases hr : r = 0
    · rw [if_pos hr] at h; injection h with h; subst h; exact hr
    · rw [if_neg hr] at h; cases h) exCs
  asFn_none := asFn3_none exUnref exCs

/-- the evaluator's answer, as a decidable view: `gg` ends as the integer 5 -/
def gg5 : PRes (FV exUnref) → Bool
  | .done g => (match (g 1).1 with
    | .int 5 => true
    | _ => false)
  | _ => false

/-- the instruction bytes of a function constant -/
def fnCode : Option Compiler.Const → List UInt8
  | some (.fn code _ _ _) => code
  | _ => []

/-- The optimizer really removes something: the raw body has 9 bytes (`GETL 0; RET 1; CONST 0; SETL 0`), the stored
function constant 4 (`GETL 0; RET 1`). -/
example : (Tengo.Proofs.C01BridgeF3Comp.rawBody deadDef).length = 9 ∧
    fnCode (bcOf exD exCtab 2).consts[1]? = [25, 0, 21, 1] := by decide

/-- **Non-vacuity of `source_to_vm_fragment3`**: every hypothesis is discharged for the concrete program with dead
code, the concrete data semantics `env3` and the initial configuration `VM.initFobjs` sets up; so the compiler model
compiles it, the function constant is the OPTIMIZED body, and `VM.run` on that code halts with an empty stack and
`gg = 5`. -/
example (keep : Nat) (allocs : Int) (ha : allocs ≤ 0) (gst : GSt) (heap : Spec.St) :
    ∃ bc, Compiler.compileFile (toAstProg gname lname exCtab exD) (inputsOf gname 2) = .ok bc ∧
      fnCode bc.consts[1]? = [25, 0, 21, 1] ∧
      ∃ (c' : Core) (m : Nat), c'.regs.sp = 0 ∧ c'.regs.globals.getD 1 .undef = .int 5 ∧
        ∀ k, (VM.run (toCodeR exRefs bc) keep (m + 1 + k) allocs
          ⟨VM.initCore #[.undef, .undef] #[(1, [])], gst, heap⟩ {}).1 = .halted ⟨c', gst, heap⟩ := by
  have hW : WithinVM (env3 exUnref exCs) (compProg exD)
      (St.init (fun _ => (env3 exUnref exCs).S.undef) (fun _ => (sem3 exUnref).undef)) :=
    Tengo.Props.C01F3Bridge.withinVM_of_check 14 _ (by decide)
  obtain ⟨bc, hbc, hdone, _⟩ := source_to_vm_fragment3 (env3 exUnref exCs) Subtype.val exRefs gname lname exCtab 2 exD
    exD_names demo_builtin exD_src (by decide) (dataRel3 exUnref) exD_env 14
    (fun _ => (sem3 exUnref).undef) #[.undef, .undef] #[(1, [])] rfl
    (by intro i hi; match i, hi with
      | 0, _ => rfl
      | 1, _ => rfl)
    (by intro k fd h; obtain ⟨rfl, _⟩ := exD_fns h; rfl)
    hW keep allocs ha gst heap
  have hbc' := compileFile_srcOk gname lname exCtab 2 exD exD_names demo_builtin exD_src (by decide)
  rw [hbc'] at hbc
  injection hbc with hbc
  subst hbc
  refine ⟨_, hbc', by decide, ?_⟩
  have hev : gg5 (F3.exec (env3 exUnref exCs) exD 14 (fun _ => (sem3 exUnref).undef)) = true := by decide
  cases he : F3.exec (env3 exUnref exCs) exD 14 (fun _ => (sem3 exUnref).undef) with
  | done g' =>
    rw [he] at hev
    obtain ⟨c', m, hglb, hsp, hrun⟩ := hdone g' he
    refine ⟨c', m, hsp, ?_, hrun⟩
    rw [hglb.2 1 (by decide)]
    simp only [gg5] at hev
    split at hev
    · assumption
    · cases hev
  | err => rw [he] at hev; cases hev
  | out => rw [he] at hev; cases hev
  | bad => rw [he] at hev; cases hev

/-- … and the outer hypotheses of `source_to_vm_fragment3_run` hold for it as well. -/
example := source_to_vm_fragment3_run gname lname exCtab 2 exD exD_names demo_builtin exD_src (by decide)

end Example

/- Still open for F3 (no placeholder in the code):
* `WithinVM` remains a hypothesis (the VM's 2048 stack slots / 1024 frames; `F3.exec` does not count them):
  `vm_computes_fragment3_TODO` of `Props/C01F3Bridge`.
* `Spec.runProgram` (the big reference interpreter: closures on the heap, locals in cells) against `F3.exec`.
* The converse direction (a halting `VM.run` forces `F3.exec` to finish), as `Props/C01Converse` has for F1.
* The exclusions of `compileFile_fragment3_partial` (nested local definitions, closures, varargs, …). -/

end Tengo.Props.C01F3Source

import Tengo.Model.Modules
import Tengo.Gen.ImportSites
/-!
C13 — Modules are isolated, immutable to importers, and acyclic.

Theorems about `Tengo.Model.Modules` (the model of import resolution in compiler.go). The model is tied to
the source by the `graph`/`random`/`file` correspondence streams of harness/cmd/c13 (error class, order of
module compilations, order of Importable.Import calls) and by the regenerated inventory
`Tengo.Gen.ImportSites`.
-/
namespace Tengo.Props.C13
open Tengo.Model.Modules

theorem compileItems_imp (cfg : Cfg) (env : Env) (fs : FS) (stack : List String) (dir : String) (syms : Syms)
    (n : String) (rest : List Item) (st : St) :
    compileItems cfg env fs stack dir syms (.imp n :: rest) st =
    match resolveCore cfg env fs dir n st with
    | .error e => .error e
    | .ok (none, st') => compileItems cfg env fs stack dir syms rest st'
    | .ok (some (key, body, isFile), st') =>
      match compileModule cfg env fs stack dir syms key body isFile st' with
      | .error e => .error e
      | .ok st2 => compileItems cfg env fs stack dir syms rest st2 := by
  rw [compileItems]
  split <;> rename_i h <;> simp only [h]
  unfold compileModule
  split
  · rfl
  · split
    · rfl
    · simp only
      split
      · rfl
      · split <;> rfl

/-- Big-step presentation of `compileItems` (one constructor per branch of the code). -/
inductive Run (cfg : Cfg) (env : Env) (fs : FS) :
    List String → String → Syms → List Item → St → Res → Prop
  | nil {stack dir syms st} : Run cfg env fs stack dir syms [] st (.ok st)
  | refOk {stack dir syms st x rest r} : syms.resolves x = true →
      Run cfg env fs stack dir syms rest st r → Run cfg env fs stack dir syms (.ref x :: rest) st r
  | refErr {stack dir syms st x rest} : syms.resolves x = false →
      Run cfg env fs stack dir syms (.ref x :: rest) st (.error (.unresolved x, st))
  | defn {stack dir syms st x rest r} :
      Run cfg env fs stack dir (syms.define x) rest st r → Run cfg env fs stack dir syms (.defn x :: rest) st r
  | impErr {stack dir syms st n rest e} : resolveCore cfg env fs dir n st = .error e →
      Run cfg env fs stack dir syms (.imp n :: rest) st (.error e)
  | impBuiltin {stack dir syms st n rest st' r} : resolveCore cfg env fs dir n st = .ok (none, st') →
      Run cfg env fs stack dir syms rest st' r → Run cfg env fs stack dir syms (.imp n :: rest) st r
  | impCyclic {stack dir syms st n rest key body isFile st'} :
      resolveCore cfg env fs dir n st = .ok (some (key, body, isFile), st') → key ∈ stack →
      Run cfg env fs stack dir syms (.imp n :: rest) st (.error (.cyclic key, st'))
  | impCached {stack dir syms st n rest key body isFile st' r} :
      resolveCore cfg env fs dir n st = .ok (some (key, body, isFile), st') → key ∉ stack → key ∈ st'.cache →
      Run cfg env fs stack dir syms rest st' r → Run cfg env fs stack dir syms (.imp n :: rest) st r
  | impParse {stack dir syms st n rest key body isFile st'} :
      resolveCore cfg env fs dir n st = .ok (some (key, body, isFile), st') → key ∉ stack → key ∉ st'.cache →
      body.parseErr = true →
      Run cfg env fs stack dir syms (.imp n :: rest) st
        (.error (.parse key, { st' with compiled := key :: st'.compiled }))
  | impInnerErr {stack dir syms st n rest key body isFile st' e} :
      resolveCore cfg env fs dir n st = .ok (some (key, body, isFile), st') → key ∉ stack → key ∉ st'.cache →
      body.parseErr = false →
      Run cfg env fs (key :: stack) (childDir fs dir key isFile) syms.forModule body.items
        { st' with compiled := key :: st'.compiled } (.error e) →
      Run cfg env fs stack dir syms (.imp n :: rest) st (.error e)
  | impOk {stack dir syms st n rest key body isFile st' st2 r} :
      resolveCore cfg env fs dir n st = .ok (some (key, body, isFile), st') → key ∉ stack → key ∉ st'.cache →
      body.parseErr = false →
      Run cfg env fs (key :: stack) (childDir fs dir key isFile) syms.forModule body.items
        { st' with compiled := key :: st'.compiled } (.ok st2) →
      Run cfg env fs stack dir syms rest { st2 with cache := key :: st2.cache } r →
      Run cfg env fs stack dir syms (.imp n :: rest) st r

theorem run_of_compile (cfg : Cfg) (env : Env) (fs : FS) (stack : List String) (dir : String) (syms : Syms)
    (items : List Item) (st : St) :
    Run cfg env fs stack dir syms items st (compileItems cfg env fs stack dir syms items st) := by
  induction stack, dir, syms, items, st using compileItems.induct cfg env fs with
  | case1 => rw [compileItems]; exact .nil
  | case2 stack dir syms st x rest hx ih => rw [compileItems]; simp only [hx, if_true]; exact .refOk hx ih
  | case3 stack dir syms st x rest hx =>
    rw [compileItems]; simp only [hx]; exact .refErr (by simpa using hx)
  | case4 stack dir syms st x rest ih => rw [compileItems]; exact .defn ih
  | case5 stack dir syms st n rest e h => rw [compileItems_imp]; simp only [h]; exact .impErr h
  | case6 stack dir syms st n rest st' h ih => rw [compileItems_imp]; simp only [h]; exact .impBuiltin h ih
  | case7 stack dir syms st n rest key body isFile st' h hs =>
    rw [compileItems_imp]; simp only [h, compileModule, hs, if_true]; exact .impCyclic h hs
  | case8 stack dir syms st n rest key body isFile st' h hs hc ih =>
    rw [compileItems_imp]; simp only [h, compileModule, hs, hc, if_true, if_false]; exact .impCached h hs hc ih
  | case9 stack dir syms st n rest key body isFile st' h hs hc hp =>
    rw [compileItems_imp]; simp only [h, compileModule, hs, hc, hp, if_true, if_false]
    exact .impParse h hs hc hp
  | case10 stack dir syms st n rest key body isFile st' h hs hc st1 hp e he ih =>
    rw [compileItems_imp]; simp only [h, compileModule, hs, hc, hp, if_false]
    have hp' : body.parseErr = false := by simpa using hp
    simp only [st1] at he ih
    simp only [he]
    exact .impInnerErr h hs hc hp' (he ▸ ih)
  | case11 stack dir syms st n rest key body isFile st' h hs hc st1 hp st2 he ih1 ih2 =>
    rw [compileItems_imp]; simp only [h, compileModule, hs, hc, hp, if_false]
    have hp' : body.parseErr = false := by simpa using hp
    simp only [st1] at he ih1
    simp only [he]
    exact .impOk h hs hc hp' (he ▸ ih1) ih2

/-! ### determinism of the big-step presentation -/
theorem run_unique {cfg : Cfg} {env : Env} {fs : FS} {stack : List String} {dir : String} {syms : Syms}
    {items : List Item} {st : St} {r : Res} (h : Run cfg env fs stack dir syms items st r) :
    r = compileItems cfg env fs stack dir syms items st := by
  induction h with
  | nil => rw [compileItems]
  | refOk hx _ ih => rw [compileItems]; simp only [hx, if_true]; exact ih
  | refErr hx => rw [compileItems]; simp [hx]
  | defn _ ih => rw [compileItems]; exact ih
  | impErr h => rw [compileItems_imp]; simp only [h]
  | impBuiltin h _ ih => rw [compileItems_imp]; simp only [h]; exact ih
  | impCyclic h hs => rw [compileItems_imp]; simp only [h, compileModule, hs, if_true]
  | impCached h hs hc _ ih => rw [compileItems_imp]; simp only [h, compileModule, hs, hc, if_true, if_false]; exact ih
  | impParse h hs hc hp => rw [compileItems_imp]; simp [h, compileModule, hs, hc, hp]
  | impInnerErr h hs hc hp _ ih => rw [compileItems_imp]; simp [h, compileModule, hs, hc, hp, ← ih]
  | impOk h hs hc hp _ _ ih1 ih2 => rw [compileItems_imp]; simp [h, compileModule, hs, hc, hp, ← ih1]; exact ih2

/-! ### facts about name resolution -/
theorem resolve_ok_state {cfg : Cfg} {env : Env} {fs : FS} {dir n : String} {st st' : St}
    {x : Option (String × Body × Bool)} (h : resolveCore cfg env fs dir n st = .ok (x, st')) :
    st'.cache = st.cache ∧ st'.compiled = st.compiled := by
  unfold resolveCore at h
  split at h
  · cases h
  · split at h
    · cases h; simp
    · cases h; simp
    · split at h
      · simp only at h
        split at h
        · cases h
        · split at h
          · cases h
          · cases h; simp
      · cases h

theorem resolve_err_state {cfg : Cfg} {env : Env} {fs : FS} {dir n : String} {st st' : St} {e : Err}
    (h : resolveCore cfg env fs dir n st = .error (e, st')) :
    st'.cache = st.cache ∧ st'.compiled = st.compiled ∧ ∀ k, e ≠ .cyclic k := by
  unfold resolveCore at h
  split at h
  · cases h; simp
  · split at h
    · cases h
    · cases h
    · split at h
      · simp only at h
        split at h
        · cases h; simp
        · split at h
          · cases h; simp
          · cases h
      · cases h; simp

theorem resolve_nofile {cfg : Cfg} {env : Env} {fs : FS} {dir n : String} {st st' : St}
    {key : String} {body : Body} {isFile : Bool} (hoff : cfg.allowFileImport = false)
    (h : resolveCore cfg env fs dir n st = .ok (some (key, body, isFile), st')) :
    key = n ∧ env.lookup n = some (.src body) ∧ isFile = false := by
  unfold resolveCore at h
  split at h
  · cases h
  · split at h
    · rename_i b hb; cases h; exact ⟨rfl, hb, rfl⟩
    · cases h
    · simp [hoff] at h

theorem resolve_builtin_nofile {cfg : Cfg} {env : Env} {fs : FS} {dir n : String} {st st' : St}
    (h : resolveCore cfg env fs dir n st = .ok (none, st')) : env.lookup n = some .builtin := by
  unfold resolveCore at h
  split at h
  · cases h
  · split at h
    · cases h
    · rename_i hb; exact hb
    · split at h
      · simp only at h
        split at h
        · cases h
        · split at h <;> cases h
      · cases h

/-! ### module_compiled_once -/

/-- Bookkeeping invariant: nothing on the import stack is cached; every body compiled so far is either
finished (cached) or still on the stack; no body was compiled twice. -/
def BookInv (stack : List String) (st : St) : Prop :=
  (∀ k ∈ stack, k ∉ st.cache) ∧ st.compiled.Nodup ∧ (∀ k ∈ st.compiled, k ∈ st.cache ∨ k ∈ stack)

theorem inv_push {stack : List String} {st : St} {key : String} (hi : BookInv stack st)
    (hs : key ∉ stack) (hc : key ∉ st.cache) :
    BookInv (key :: stack) { st with compiled := key :: st.compiled } := by
  obtain ⟨h1, h2, h3⟩ := hi
  refine ⟨?_, ?_, ?_⟩
  · intro k hk
    cases hk with
    | head => exact hc
    | tail _ hk => exact h1 k hk
  · refine List.nodup_cons.mpr ⟨?_, h2⟩
    intro hk
    cases h3 key hk with
    | inl h => exact hc h
    | inr h => exact hs h
  · intro k hk
    cases hk with
    | head => exact .inr (List.mem_cons_self ..)
    | tail _ hk =>
      cases h3 k hk with
      | inl h => exact .inl h
      | inr h => exact .inr (List.mem_cons_of_mem _ h)

theorem inv_pop {stack : List String} {st : St} {key : String} (hi : BookInv (key :: stack) st) (hs : key ∉ stack) :
    BookInv stack { st with cache := key :: st.cache } := by
  obtain ⟨h1, h2, h3⟩ := hi
  refine ⟨?_, h2, ?_⟩
  · intro k hk hkc
    cases hkc with
    | head => exact hs hk
    | tail _ hkc => exact h1 k (List.mem_cons_of_mem _ hk) hkc
  · intro k hk
    cases h3 k hk with
    | inl h => exact .inl (List.mem_cons_of_mem _ h)
    | inr h =>
      cases h with
      | head => exact .inl (List.mem_cons_self ..)
      | tail _ h => exact .inr h

theorem inv_of_eq {stack : List String} {st st' : St} (hi : BookInv stack st) (hc : st'.cache = st.cache)
    (hp : st'.compiled = st.compiled) : BookInv stack st' := by
  unfold BookInv at *; rw [hc, hp]; exact hi

/-- The invariant is kept by every run; on an error it holds for the (deeper) stack at the error. -/
theorem inv_run {cfg : Cfg} {env : Env} {fs : FS} {stack : List String} {dir : String} {syms : Syms}
    {items : List Item} {st : St} {r : Res} (h : Run cfg env fs stack dir syms items st r) (hi : BookInv stack st) :
    (∀ st', r = .ok st' → BookInv stack st') ∧ (∀ e st', r = .error (e, st') → ∃ stk, BookInv stk st') := by
  induction h with
  | nil => exact ⟨fun st' h => (by cases h; exact hi), fun _ _ h => (by cases h)⟩
  | refOk _ _ ih => exact ih hi
  | refErr _ => exact ⟨fun _ h => (by cases h), fun e st' h => (by cases h; exact ⟨_, hi⟩)⟩
  | defn _ ih => exact ih hi
  | impErr h =>
    refine ⟨fun _ h' => (by cases h'), fun e st' h' => ?_⟩
    cases h'
    have := resolve_err_state h
    exact ⟨_, inv_of_eq hi this.1 this.2.1⟩
  | impBuiltin h _ ih =>
    have := resolve_ok_state h
    exact ih (inv_of_eq hi this.1 this.2)
  | impCyclic h hs =>
    refine ⟨fun _ h' => (by cases h'), fun e st' h' => ?_⟩
    cases h'
    have := resolve_ok_state h
    exact ⟨_, inv_of_eq hi this.1 this.2⟩
  | impCached h _ _ _ ih =>
    have := resolve_ok_state h
    exact ih (inv_of_eq hi this.1 this.2)
  | impParse h hs hc _ =>
    refine ⟨fun _ h' => (by cases h'), fun e st' h' => ?_⟩
    cases h'
    have := resolve_ok_state h
    exact ⟨_, inv_push (inv_of_eq hi this.1 this.2) hs hc⟩
  | impInnerErr h hs hc _ _ ih =>
    have := resolve_ok_state h
    have hi' := inv_push (inv_of_eq hi this.1 this.2) hs hc
    exact ⟨fun _ h' => (by cases h'), fun e st' h' => (ih hi').2 e st' h'⟩
  | impOk h hs hc _ _ _ ih1 ih2 =>
    have := resolve_ok_state h
    have hi' := inv_push (inv_of_eq hi this.1 this.2) hs hc
    have hi2 := (ih1 hi').1 _ rfl
    exact ih2 (inv_pop hi2 hs)

theorem inv_init : BookInv [] ({} : St) := by
  refine ⟨fun _ h => (by cases h), List.nodup_nil, fun _ h => (by cases h)⟩

/-- **module_compiled_once.** In one `Compile` no module body is parsed and compiled twice, whatever the
shape of the graph (diamonds and repeated imports reuse the cache), whether the compile succeeds or
stops at an error, under both file-import settings. -/
theorem module_compiled_once (cfg : Cfg) (env : Env) (fs : FS) (main : List Item) :
    match compileGraph cfg env fs main with
    | .ok st => st.compiled.Nodup
    | .error (_, st) => st.compiled.Nodup := by
  have h := inv_run (run_of_compile cfg env fs [] cfg.importDir ⟨cfg.builtins, cfg.hostVars⟩ main {}) inv_init
  unfold compileGraph
  split
  · rename_i st heq; exact (h.1 st heq).2.1
  · rename_i e st heq
    obtain ⟨_, hs⟩ := h.2 e st heq
    exact hs.2.1

/-! ### the syntactic import graph -/

def isSrc (env : Env) (n : String) : Bool :=
  match env.lookup n with
  | some (.src _) => true
  | _ => false

/-- Source modules imported by a body, in syntactic order (builtin modules have no body and are leaves). -/
def srcImports (env : Env) : List Item → List String
  | [] => []
  | .imp n :: r => if isSrc env n then n :: srcImports env r else srcImports env r
  | _ :: r => srcImports env r

def bodyOf (env : Env) (k : String) : List Item :=
  match env.lookup k with
  | some (.src b) => b.items
  | _ => []

/-- `a` contains an import expression naming the source module `b`. -/
def Edge (env : Env) (a b : String) : Prop := b ∈ srcImports env (bodyOf env a)

/-- Non-empty import paths. -/
inductive Path (env : Env) : String → String → Prop
  | single {a b : String} : Edge env a b → Path env a b
  | cons {a b c : String} : Edge env a b → Path env b c → Path env a c

theorem Path.snoc {env : Env} {a b c : String} (h : Path env a b) (e : Edge env b c) : Path env a c := by
  induction h with
  | single e0 => exact .cons e0 (.single e)
  | cons e0 _ ih => exact .cons e0 (ih e)

/-- `k` is a source module the main script reaches through import expressions. -/
def Reach (env : Env) (main : List Item) (k : String) : Prop :=
  ∃ r ∈ srcImports env main, r = k ∨ Path env r k

/-- An import cycle is reachable from the main script. -/
def CycleReachable (env : Env) (main : List Item) : Prop := ∃ k, Reach env main k ∧ Path env k k

theorem reach_step {env : Env} {main : List Item} {a b : String} (h : Reach env main a) (e : Edge env a b) :
    Reach env main b := by
  obtain ⟨r, hr, h⟩ := h
  refine ⟨r, hr, .inr ?_⟩
  cases h with
  | inl h => subst h; exact .single e
  | inr h => exact h.snoc e

theorem srcImports_cons_sub {env : Env} {i : Item} {rest : List Item} {m : String}
    (h : m ∈ srcImports env rest) : m ∈ srcImports env (i :: rest) := by
  cases i with
  | imp n => simp only [srcImports]; split <;> simp [h]
  | ref x => simpa [srcImports] using h
  | defn x => simpa [srcImports] using h

theorem srcImports_imp_mem {env : Env} {n : String} {rest : List Item} {b : Body}
    (h : env.lookup n = some (.src b)) : n ∈ srcImports env (.imp n :: rest) := by
  simp [srcImports, isSrc, h]

theorem srcImports_imp_inv {env : Env} {n m : String} {rest : List Item}
    (h : m ∈ srcImports env (.imp n :: rest)) : (m = n ∧ isSrc env n = true) ∨ m ∈ srcImports env rest := by
  simp only [srcImports] at h
  split at h
  · rename_i hs
    cases h with
    | head => exact .inl ⟨rfl, hs⟩
    | tail _ h => exact .inr h
  · exact .inr h

theorem edge_of_lookup {env : Env} {k m : String} {b : Body} (h : env.lookup k = some (.src b))
    (hm : m ∈ srcImports env b.items) : Edge env k m := by
  simp [Edge, bodyOf, h, hm]

theorem edge_inv {env : Env} {k m : String} {b : Body} (h : env.lookup k = some (.src b))
    (e : Edge env k m) : m ∈ srcImports env b.items := by
  simpa [Edge, bodyOf, h] using e

/-- The cache, read oldest-last, is a topological order: every module's imports were finished before it. -/
def Topo (env : Env) : List String → Prop
  | [] => True
  | c :: cs => (∀ m, Edge env c m → m ∈ cs) ∧ c ∉ cs ∧ Topo env cs

theorem topo_closed {env : Env} : ∀ {cs : List String}, Topo env cs → ∀ {k m : String}, k ∈ cs → Edge env k m → m ∈ cs
  | [], _, _, _, hk, _ => by cases hk
  | c :: cs, ht, k, m, hk, e => by
    cases hk with
    | head => exact List.mem_cons_of_mem _ (ht.1 m e)
    | tail _ hk => exact List.mem_cons_of_mem _ (topo_closed ht.2.2 hk e)

theorem topo_path_closed {env : Env} {cs : List String} (ht : Topo env cs) {k m : String} (p : Path env k m) :
    k ∈ cs → m ∈ cs := by
  induction p with
  | single e => exact fun hk => topo_closed ht hk e
  | cons e _ ih => exact fun hk => ih (topo_closed ht hk e)

theorem topo_acyclic {env : Env} : ∀ {cs : List String}, Topo env cs → ∀ {k : String}, k ∈ cs → ¬ Path env k k
  | [], _, _, hk => by cases hk
  | c :: cs, ht, k, hk => by
    intro p
    by_cases hkc : k ∈ cs
    · exact topo_acyclic ht.2.2 hkc p
    · have hkc' : k = c := by
        cases hk with
        | head => rfl
        | tail _ h => exact absurd h hkc
      subst hkc'
      cases p with
      | single e => exact ht.2.1 (ht.1 _ e)
      | cons e p' => exact ht.2.1 (topo_path_closed ht.2.2 p' (ht.1 _ e))

/-- With file import off, a successful run leaves a topologically ordered cache that contains every source
module the compiled items import. -/
theorem topo_run {cfg : Cfg} {env : Env} {fs : FS} (hoff : cfg.allowFileImport = false)
    {stack : List String} {dir : String} {syms : Syms} {items : List Item} {st : St} {r : Res}
    (h : Run cfg env fs stack dir syms items st r) :
    ∀ st', r = .ok st' → Topo env st.cache → (∀ k ∈ stack, k ∉ st.cache) →
      Topo env st'.cache ∧ (∀ m ∈ srcImports env items, m ∈ st'.cache) ∧
      (∀ k ∈ st.cache, k ∈ st'.cache) ∧ (∀ k ∈ stack, k ∉ st'.cache) := by
  induction h with
  | nil =>
    intro st' h ht hd; cases h
    exact ⟨ht, fun m hm => (by cases hm), fun _ h => h, hd⟩
  | refOk _ _ ih =>
    intro st' h ht hd
    obtain ⟨a, b, c, d⟩ := ih st' h ht hd
    exact ⟨a, fun m hm => b m (by simpa [srcImports] using hm), c, d⟩
  | refErr _ => intro st' h; cases h
  | defn _ ih =>
    intro st' h ht hd
    obtain ⟨a, b, c, d⟩ := ih st' h ht hd
    exact ⟨a, fun m hm => b m (by simpa [srcImports] using hm), c, d⟩
  | impErr _ => intro st' h; cases h
  | impBuiltin hres _ ih =>
    intro st' h ht hd
    have hs := resolve_ok_state hres
    have hb := resolve_builtin_nofile hres
    obtain ⟨a, b, c, d⟩ := ih st' h (hs.1 ▸ ht) (hs.1 ▸ hd)
    refine ⟨a, fun m hm => ?_, hs.1 ▸ c, d⟩
    cases srcImports_imp_inv hm with
    | inl h => simp [isSrc, hb] at h
    | inr h => exact b m h
  | impCyclic _ _ => intro st' h; cases h
  | impCached hres _ hc _ ih =>
    intro st' h ht hd
    have hs := resolve_ok_state hres
    obtain ⟨hk, -, -⟩ := resolve_nofile hoff hres
    obtain ⟨a, b, c, d⟩ := ih st' h (hs.1 ▸ ht) (hs.1 ▸ hd)
    refine ⟨a, fun m hm => ?_, hs.1 ▸ c, d⟩
    cases srcImports_imp_inv hm with
    | inl h => rw [h.1, ← hk]; exact c _ hc
    | inr h => exact b m h
  | impParse _ _ _ _ => intro st' h; cases h
  | impInnerErr _ _ _ _ _ _ => intro st' h; cases h
  | @impOk stack dir syms st n rest key body isFile st1 st2 r hres hs hc _ _ _ ih1 ih2 =>
    intro st' h ht hd
    have hst := resolve_ok_state hres
    obtain ⟨hk, hlook, -⟩ := resolve_nofile hoff hres
    have hd1 : ∀ k ∈ key :: stack, k ∉ st1.cache := by
      intro k hk'
      cases hk' with
      | head => exact hc
      | tail _ hk' => exact hst.1 ▸ hd k hk'
    obtain ⟨a1, b1, c1, d1⟩ := ih1 st2 rfl (hst.1 ▸ ht) hd1
    have hkey : key ∉ st2.cache := d1 key (List.mem_cons_self ..)
    have ht2 : Topo env (key :: st2.cache) :=
      ⟨fun m e => b1 m (edge_inv (hk ▸ hlook) e), hkey, a1⟩
    have hd2 : ∀ k ∈ stack, k ∉ key :: st2.cache := by
      intro k hk' hkc
      cases hkc with
      | head => exact hs hk'
      | tail _ hkc => exact d1 k (List.mem_cons_of_mem _ hk') hkc
    obtain ⟨a, b, c, d⟩ := ih2 st' h ht2 hd2
    refine ⟨a, fun m hm => ?_, fun k hk' => c k (List.mem_cons_of_mem _ (c1 k (hst.1 ▸ hk'))), d⟩
    cases srcImports_imp_inv hm with
    | inl h => rw [h.1, ← hk]; exact c _ (List.mem_cons_self ..)
    | inr h => exact b m h

/-- With file import off, a `cyclic module import` error names a module that the main script reaches and
that lies on an import cycle. -/
theorem cyclic_run {cfg : Cfg} {env : Env} {fs : FS} (hoff : cfg.allowFileImport = false) (main : List Item)
    {stack : List String} {dir : String} {syms : Syms} {items : List Item} {st : St} {r : Res}
    (h : Run cfg env fs stack dir syms items st r) :
    ∀ k st', r = .error (.cyclic k, st') → (∀ m ∈ srcImports env items, Reach env main m) →
      (∀ s ∈ stack, ∀ m ∈ srcImports env items, Path env s m) → Reach env main k ∧ Path env k k := by
  induction h with
  | nil => intro k st' h; cases h
  | refOk _ _ ih =>
    intro k st' h h1 h2
    exact ih k st' h (fun m hm => h1 m (srcImports_cons_sub hm)) (fun s hs m hm => h2 s hs m (srcImports_cons_sub hm))
  | refErr _ => intro k st' h; cases h
  | defn _ ih =>
    intro k st' h h1 h2
    exact ih k st' h (fun m hm => h1 m (srcImports_cons_sub hm)) (fun s hs m hm => h2 s hs m (srcImports_cons_sub hm))
  | @impErr _ _ _ _ _ _ e hres =>
    intro k st' h
    cases h
    exact absurd rfl ((resolve_err_state hres).2.2 k)
  | impBuiltin _ _ ih =>
    intro k st' h h1 h2
    exact ih k st' h (fun m hm => h1 m (srcImports_cons_sub hm)) (fun s hs m hm => h2 s hs m (srcImports_cons_sub hm))
  | impCyclic hres hs =>
    intro k st' h h1 h2
    cases h
    obtain ⟨hk, hlook, -⟩ := resolve_nofile hoff hres
    subst hk
    exact ⟨h1 _ (srcImports_imp_mem hlook), h2 _ hs _ (srcImports_imp_mem hlook)⟩
  | impCached _ _ _ _ ih =>
    intro k st' h h1 h2
    exact ih k st' h (fun m hm => h1 m (srcImports_cons_sub hm)) (fun s hs m hm => h2 s hs m (srcImports_cons_sub hm))
  | impParse _ _ _ _ => intro k st' h; cases h
  | impInnerErr hres _ _ _ _ ih =>
    intro k st' h h1 h2
    obtain ⟨hk, hlook, -⟩ := resolve_nofile hoff hres
    subst hk
    refine ih k st' h (fun m hm' => reach_step (h1 _ (srcImports_imp_mem hlook)) (edge_of_lookup hlook hm')) ?_
    intro s hs m hm'
    cases hs with
    | head => exact .single (edge_of_lookup hlook hm')
    | tail _ hs => exact (h2 s hs _ (srcImports_imp_mem hlook)).snoc (edge_of_lookup hlook hm')
  | impOk _ _ _ _ _ _ _ ih2 =>
    intro k st' h h1 h2
    exact ih2 k st' h (fun m hm => h1 m (srcImports_cons_sub hm)) (fun s hs m hm => h2 s hs m (srcImports_cons_sub hm))

/-- **compile_ok_iff_acyclic** (module-map graphs, i.e. file import off). If the compile does not stop at an
error of another kind (unknown module, parse error, unresolved name, empty name), it succeeds exactly when
no import cycle is reachable from the main script in the syntactic import graph. -/
theorem compile_ok_iff_acyclic (cfg : Cfg) (env : Env) (fs : FS) (main : List Item)
    (hoff : cfg.allowFileImport = false)
    (hno : ∀ e st, compileGraph cfg env fs main = .error (e, st) → ∃ k, e = .cyclic k) :
    (∃ st, compileGraph cfg env fs main = .ok st) ↔ ¬ CycleReachable env main := by
  have hrun := run_of_compile cfg env fs [] cfg.importDir ⟨cfg.builtins, cfg.hostVars⟩ main {}
  constructor
  · rintro ⟨st, hst⟩ ⟨k, ⟨r, hr, hrk⟩, hcyc⟩
    obtain ⟨ht, hall, -, -⟩ := topo_run hoff hrun st hst trivial (fun _ h => by cases h)
    have hk : k ∈ st.cache := by
      cases hrk with
      | inl h => exact h ▸ hall r hr
      | inr h => exact topo_path_closed ht h (hall r hr)
    exact topo_acyclic ht hk hcyc
  · intro hnc
    cases hres : compileGraph cfg env fs main with
    | ok st => exact ⟨st, rfl⟩
    | error e =>
      obtain ⟨e, st⟩ := e
      obtain ⟨k, hk⟩ := hno e st hres
      subst hk
      exact absurd ⟨k, cyclic_run hoff main hrun k st hres (fun m hm => ⟨m, hm, .inl rfl⟩) (fun _ h => by cases h)⟩ hnc

/-- The module named by a `cyclic module import` error is reachable and lies on a cycle. -/
theorem cyclic_error_is_cycle (cfg : Cfg) (env : Env) (fs : FS) (main : List Item)
    (hoff : cfg.allowFileImport = false) {k : String} {st : St}
    (h : compileGraph cfg env fs main = .error (.cyclic k, st)) : Reach env main k ∧ Path env k k :=
  cyclic_run hoff main (run_of_compile cfg env fs [] cfg.importDir ⟨cfg.builtins, cfg.hostVars⟩ main {})
    k st h (fun m hm => ⟨m, hm, .inl rfl⟩) (fun _ h => by cases h)

/-! ### no_fs_when_disabled -/

theorem resolve_nofs {cfg : Cfg} (hoff : cfg.allowFileImport = false) (env : Env) (fs₁ fs₂ : FS)
    (dir n : String) (st : St) : resolveCore cfg env fs₁ dir n st = resolveCore cfg env fs₂ dir n st := by
  unfold resolveCore
  simp [hoff]

theorem childDir_false (fs : FS) (dir key : String) : childDir fs dir key false = dir := by
  simp [childDir]

theorem run_nofs {cfg : Cfg} {env : Env} {fs₁ : FS} (fs₂ : FS) (hoff : cfg.allowFileImport = false)
    {stack : List String} {dir : String} {syms : Syms} {items : List Item} {st : St} {r : Res}
    (h : Run cfg env fs₁ stack dir syms items st r) : Run cfg env fs₂ stack dir syms items st r := by
  induction h with
  | nil => exact .nil
  | refOk hx _ ih => exact .refOk hx ih
  | refErr hx => exact .refErr hx
  | defn _ ih => exact .defn ih
  | impErr h => exact .impErr (resolve_nofs hoff env fs₁ fs₂ _ _ _ ▸ h)
  | impBuiltin h _ ih => exact .impBuiltin (resolve_nofs hoff env fs₁ fs₂ _ _ _ ▸ h) ih
  | impCyclic h hs => exact .impCyclic (resolve_nofs hoff env fs₁ fs₂ _ _ _ ▸ h) hs
  | impCached h hs hc _ ih => exact .impCached (resolve_nofs hoff env fs₁ fs₂ _ _ _ ▸ h) hs hc ih
  | impParse h hs hc hp => exact .impParse (resolve_nofs hoff env fs₁ fs₂ _ _ _ ▸ h) hs hc hp
  | impInnerErr h hs hc hp _ ih =>
    have hf := (resolve_nofile hoff h).2.2
    subst hf
    rw [childDir_false] at ih
    refine .impInnerErr (resolve_nofs hoff env fs₁ fs₂ _ _ _ ▸ h) hs hc hp ?_
    rw [childDir_false]; exact ih
  | impOk h hs hc hp _ _ ih1 ih2 =>
    have hf := (resolve_nofile hoff h).2.2
    subst hf
    rw [childDir_false] at ih1
    refine .impOk (resolve_nofs hoff env fs₁ fs₂ _ _ _ ▸ h) hs hc hp ?_ ih2
    rw [childDir_false]; exact ih1

/-- **no_fs_when_disabled.** With file import disabled the outcome of a compile (success or error, order of
module compilations, order of module-map fetches) is the same for every file system. -/
theorem no_fs_when_disabled (cfg : Cfg) (env : Env) (fs₁ fs₂ : FS) (main : List Item)
    (hoff : cfg.allowFileImport = false) :
    compileGraph cfg env fs₁ main = compileGraph cfg env fs₂ main := by
  unfold compileGraph
  exact run_unique (run_nofs fs₂ hoff (run_of_compile cfg env fs₁ [] cfg.importDir ⟨cfg.builtins, cfg.hostVars⟩ main {}))

theorem resolve_fslog {cfg : Cfg} (hoff : cfg.allowFileImport = false) {env : Env} {fs : FS}
    {dir n : String} {st : St} :
    (∀ x st', resolveCore cfg env fs dir n st = .ok (x, st') → st'.fsLog = st.fsLog) ∧
    (∀ e st', resolveCore cfg env fs dir n st = .error (e, st') → st'.fsLog = st.fsLog) := by
  unfold resolveCore
  simp only [hoff]
  constructor
  · intro x st' h
    split at h
    · cases h
    · split at h
      · cases h; rfl
      · cases h; rfl
      · simp at h
  · intro e st' h
    split at h
    · cases h; rfl
    · split at h
      · cases h
      · cases h
      · simp at h; obtain ⟨-, rfl⟩ := h; rfl

/-- With file import disabled the model performs no file-system access at all. -/
theorem fslog_run {cfg : Cfg} {env : Env} {fs : FS} (hoff : cfg.allowFileImport = false)
    {stack : List String} {dir : String} {syms : Syms} {items : List Item} {st : St} {r : Res}
    (h : Run cfg env fs stack dir syms items st r) :
    (∀ st', r = .ok st' → st'.fsLog = st.fsLog) ∧ (∀ e st', r = .error (e, st') → st'.fsLog = st.fsLog) := by
  induction h with
  | nil => exact ⟨fun _ h => (by cases h; rfl), fun _ _ h => (by cases h)⟩
  | refOk _ _ ih => exact ih
  | refErr _ => exact ⟨fun _ h => (by cases h), fun _ _ h => (by cases h; rfl)⟩
  | defn _ ih => exact ih
  | impErr h => exact ⟨fun _ h' => (by cases h'), fun e st' h' => (by cases h'; exact (resolve_fslog hoff).2 _ _ h)⟩
  | impBuiltin h _ ih =>
    have := (resolve_fslog hoff).1 _ _ h
    exact ⟨fun s hs => (ih.1 s hs).trans this, fun e s hs => (ih.2 e s hs).trans this⟩
  | impCyclic h _ => exact ⟨fun _ h' => (by cases h'), fun e st' h' => (by cases h'; exact (resolve_fslog hoff).1 _ _ h)⟩
  | impCached h _ _ _ ih =>
    have := (resolve_fslog hoff).1 _ _ h
    exact ⟨fun s hs => (ih.1 s hs).trans this, fun e s hs => (ih.2 e s hs).trans this⟩
  | impParse h _ _ _ =>
    have := (resolve_fslog hoff).1 _ _ h
    exact ⟨fun _ h' => (by cases h'), fun e st' h' => (by cases h'; exact this)⟩
  | impInnerErr h _ _ _ _ ih =>
    have := (resolve_fslog hoff).1 _ _ h
    exact ⟨fun _ h' => (by cases h'), fun e s hs => (ih.2 e s hs).trans this⟩
  | impOk h _ _ _ _ _ ih1 ih2 =>
    have := (resolve_fslog hoff).1 _ _ h
    have h1 := ih1.1 _ rfl
    exact ⟨fun s hs => ((ih2.1 s hs).trans h1).trans this, fun e s hs => ((ih2.2 e s hs).trans h1).trans this⟩

theorem no_fs_access_when_disabled (cfg : Cfg) (env : Env) (fs : FS) (main : List Item)
    (hoff : cfg.allowFileImport = false) :
    match compileGraph cfg env fs main with
    | .ok st => st.fsLog = []
    | .error (_, st) => st.fsLog = [] := by
  have h := fslog_run hoff (run_of_compile cfg env fs [] cfg.importDir ⟨cfg.builtins, cfg.hostVars⟩ main {})
  unfold compileGraph
  split
  · rename_i st heq; exact h.1 st heq
  · rename_i e st heq; exact h.2 e st heq

/-! ### module_isolation -/

/-- **module_isolation.** Compiling a module body does not depend on the importer's symbol table beyond
its builtin-function list: whatever the importer has defined (globals, locals, host variables) is invisible. -/
theorem module_isolation (cfg : Cfg) (env : Env) (fs : FS) (stack : List String) (dir : String)
    (importer₁ importer₂ : Syms) (hb : importer₁.builtins = importer₂.builtins)
    (key : String) (body : Body) (isFile : Bool) (st : St) :
    compileModule cfg env fs stack dir importer₁ key body isFile st =
    compileModule cfg env fs stack dir importer₂ key body isFile st := by
  unfold compileModule Syms.forModule
  rw [hb]

/-- A module body that uses a name which is not a builtin and which the module did not define itself is
rejected (`unresolved reference`), even when the importer defines that name. -/
theorem module_sees_no_importer_name (cfg : Cfg) (env : Env) (fs : FS) (stack : List String) (dir : String)
    (importer : Syms) (key x : String) (rest : List Item) (isFile : Bool) (st : St)
    (hs : key ∉ stack) (hc : key ∉ st.cache) (hx : x ∉ importer.builtins) :
    compileModule cfg env fs stack dir importer key ⟨false, .ref x :: rest⟩ isFile st =
      .error (.unresolved x, { st with compiled := key :: st.compiled }) := by
  unfold compileModule
  simp only [hs, hc, if_false]
  rw [compileItems]
  simp [Syms.forModule, Syms.resolves, hx]

/-! ### compile_graph_terminates -/

theorem nodup_length_le {l : List String} (hn : l.Nodup) : ∀ {u : List String}, (∀ k ∈ l, k ∈ u) → l.length ≤ u.length := by
  induction l with
  | nil => intros; simp
  | cons a l ih =>
    intro u hsub
    have ha : a ∈ u := hsub a (List.mem_cons_self ..)
    have hn' := List.nodup_cons.mp hn
    have : l.length ≤ (u.erase a).length := by
      apply ih hn'.2
      intro k hk
      have hne : k ≠ a := fun h => hn'.1 (h ▸ hk)
      exact (List.mem_erase_of_ne hne).mpr (hsub k (List.mem_cons_of_mem _ hk))
    rw [List.length_erase_of_mem ha] at this
    have hpos : 0 < u.length := List.length_pos_of_mem ha
    simp only [List.length_cons]
    omega

theorem keys_run {cfg : Cfg} {env : Env} {fs : FS}
    {stack : List String} {dir : String} {syms : Syms} {items : List Item} {st : St} {r : Res}
    (h : Run cfg env fs stack dir syms items st r) (hk : ∀ k ∈ st.compiled, k ∈ keys env fs) :
    (∀ st', r = .ok st' → ∀ k ∈ st'.compiled, k ∈ keys env fs) ∧
    (∀ e st', r = .error (e, st') → ∀ k ∈ st'.compiled, k ∈ keys env fs) := by
  induction h with
  | nil => exact ⟨fun _ h => (by cases h; exact hk), fun _ _ h => (by cases h)⟩
  | refOk _ _ ih => exact ih hk
  | refErr _ => exact ⟨fun _ h => (by cases h), fun _ _ h => (by cases h; exact hk)⟩
  | defn _ ih => exact ih hk
  | impErr h =>
    exact ⟨fun _ h' => (by cases h'), fun e st' h' => (by cases h'; exact (resolve_err_state h).2.1 ▸ hk)⟩
  | impBuiltin h _ ih => exact ih ((resolve_ok_state h).2 ▸ hk)
  | impCyclic h _ =>
    exact ⟨fun _ h' => (by cases h'), fun e st' h' => (by cases h'; exact (resolve_ok_state h).2 ▸ hk)⟩
  | impCached h _ _ _ ih => exact ih ((resolve_ok_state h).2 ▸ hk)
  | impParse h _ _ _ =>
    refine ⟨fun _ h' => (by cases h'), fun e st' h' => ?_⟩
    cases h'
    intro k hk'
    cases hk' with
    | head => exact resolveCore_mem h
    | tail _ hk' => exact hk k ((resolve_ok_state h).2 ▸ hk')
  | impInnerErr h _ _ _ _ ih =>
    refine ⟨fun _ h' => (by cases h'), fun e st' h' => (ih ?_).2 e st' h'⟩
    intro k hk'
    cases hk' with
    | head => exact resolveCore_mem h
    | tail _ hk' => exact hk k ((resolve_ok_state h).2 ▸ hk')
  | impOk h _ _ _ _ _ ih1 ih2 =>
    have h1 : ∀ k ∈ (_ : St).compiled, k ∈ keys env fs := (ih1 ?_).1 _ rfl
    · exact ih2 h1
    intro k hk'
    cases hk' with
    | head => exact resolveCore_mem h
    | tail _ hk' => exact hk k ((resolve_ok_state h).2 ▸ hk')

/-- **compile_graph_terminates.** `compileGraph` is a total function (its recursion is justified by the
measure "module keys of the finite environment that are not on the import stack", `free_cons_lt`, no fuel);
moreover the number of module bodies it compiles is bounded by the size of the environment, for every
graph, with or without cycles, under both file-import settings. -/
theorem compile_graph_terminates (cfg : Cfg) (env : Env) (fs : FS) (main : List Item) :
    ∃ r, compileGraph cfg env fs main = r ∧
      match r with
      | .ok st => st.compiled.length ≤ (keys env fs).length
      | .error (_, st) => st.compiled.length ≤ (keys env fs).length := by
  refine ⟨_, rfl, ?_⟩
  have hrun := run_of_compile cfg env fs [] cfg.importDir ⟨cfg.builtins, cfg.hostVars⟩ main {}
  have hk := keys_run hrun (fun _ h => by cases h)
  have hn := module_compiled_once cfg env fs main
  unfold compileGraph at hn ⊢
  split
  · rename_i st heq
    rw [heq] at hn
    exact nodup_length_le hn (hk.1 st heq)
  · rename_i e st heq
    rw [heq] at hn
    exact nodup_length_le hn (hk.2 e st heq)

/-! ### a syntactic sufficient condition for "no other error" -/

/-- A body is clean for a symbol table: no empty import name, every import name is in the module map,
every used name resolves. -/
def cleanItems (env : Env) : Syms → List Item → Bool
  | _, [] => true
  | s, .imp n :: r => n != "" && (env.lookup n).isSome && cleanItems env s r
  | s, .ref x :: r => s.resolves x && cleanItems env s r
  | s, .defn x :: r => cleanItems env (s.define x) r

/-- Every source module of the map parses and is clean for the builtins-only table. -/
def CleanEnv (env : Env) (builtins : List String) : Prop :=
  ∀ k b, env.lookup k = some (.src b) → b.parseErr = false ∧ cleanItems env ⟨builtins, []⟩ b.items = true

theorem resolve_clean {cfg : Cfg} {env : Env} {fs : FS} {dir n : String} {st : St} {e : Err × St}
    (hn : (n != "") = true) (hl : (env.lookup n).isSome = true) : resolveCore cfg env fs dir n st ≠ .error e := by
  unfold resolveCore
  have hn' : n ≠ "" := by simpa using hn
  simp only [hn', if_false]
  cases hlk : env.lookup n with
  | none => simp [hlk] at hl
  | some m => cases m <;> simp

theorem clean_run {cfg : Cfg} {env : Env} {fs : FS} (hoff : cfg.allowFileImport = false) {B : List String}
    (hce : CleanEnv env B)
    {stack : List String} {dir : String} {syms : Syms} {items : List Item} {st : St} {r : Res}
    (h : Run cfg env fs stack dir syms items st r) :
    syms.builtins = B → cleanItems env syms items = true → ∀ e st', r = .error (e, st') → ∃ k, e = .cyclic k := by
  induction h with
  | nil => intro _ _ e st' h; cases h
  | refOk _ _ ih =>
    intro hb hc
    simp only [cleanItems, Bool.and_eq_true] at hc
    exact ih hb hc.2
  | refErr hx =>
    intro _ hc
    simp only [cleanItems, Bool.and_eq_true] at hc
    rw [hx] at hc
    exact absurd hc.1 (by simp)
  | defn _ ih =>
    intro hb hc
    simp only [cleanItems] at hc
    exact ih hb hc
  | impErr h =>
    intro _ hc
    simp only [cleanItems, Bool.and_eq_true] at hc
    exact absurd h (resolve_clean hc.1.1 hc.1.2)
  | impBuiltin _ _ ih =>
    intro hb hc
    simp only [cleanItems, Bool.and_eq_true] at hc
    exact ih hb hc.2
  | impCyclic _ _ => intro _ _ e st' h; cases h; exact ⟨_, rfl⟩
  | impCached _ _ _ _ ih =>
    intro hb hc
    simp only [cleanItems, Bool.and_eq_true] at hc
    exact ih hb hc.2
  | impParse h _ _ hp =>
    intro _ _
    obtain ⟨hk, hlook, -⟩ := resolve_nofile hoff h
    rw [(hce _ _ hlook).1] at hp
    cases hp
  | impInnerErr h _ _ _ _ ih =>
    intro hb _
    obtain ⟨hk, hlook, -⟩ := resolve_nofile hoff h
    exact ih (by simpa [Syms.forModule] using hb) (by
      have := (hce _ _ hlook).2
      simpa [Syms.forModule, hb] using this)
  | impOk _ _ _ _ _ _ _ ih2 =>
    intro hb hc
    simp only [cleanItems, Bool.and_eq_true] at hc
    exact ih2 hb hc.2

/-- **compile_ok_iff_acyclic**, syntactic form: when every import name in the map's modules and in the main
script names a module of the map, every module parses and uses only builtins and its own names, the compile
succeeds exactly when no import cycle is reachable from the main script. -/
theorem compile_ok_iff_acyclic_clean (cfg : Cfg) (env : Env) (fs : FS) (main : List Item)
    (hoff : cfg.allowFileImport = false) (hce : CleanEnv env cfg.builtins)
    (hmain : cleanItems env ⟨cfg.builtins, cfg.hostVars⟩ main = true) :
    (∃ st, compileGraph cfg env fs main = .ok st) ↔ ¬ CycleReachable env main :=
  compile_ok_iff_acyclic cfg env fs main hoff (fun e st h =>
    clean_run hoff hce (run_of_compile cfg env fs [] cfg.importDir ⟨cfg.builtins, cfg.hostVars⟩ main {})
      rfl hmain e st h)

/-- Decidable form of `CleanEnv`. -/
def cleanEnvB (env : Env) (builtins : List String) : Bool :=
  env.all fun km =>
    match km.2 with
    | .src b => !b.parseErr && cleanItems env ⟨builtins, []⟩ b.items
    | .builtin => true

theorem lookup_mem {β : Type} {l : List (String × β)} {k : String} {v : β} (h : l.lookup k = some v) : (k, v) ∈ l := by
  induction l with
  | nil => simp [List.lookup] at h
  | cons a l ih =>
    obtain ⟨a1, a2⟩ := a
    by_cases hk : k = a1
    · subst hk
      simp [List.lookup] at h
      subst h
      exact List.mem_cons_self ..
    · have : (k == a1) = false := by simp [hk]
      simp only [List.lookup, this] at h
      exact List.mem_cons_of_mem _ (ih h)

theorem cleanEnv_of_B {env : Env} {B : List String} (h : cleanEnvB env B = true) : CleanEnv env B := by
  intro k b hl
  have hm := lookup_mem hl
  have := List.all_eq_true.mp h _ hm
  simpa using this

/-! ### import_value -/

theorem import_emits_source (k : Nat) : emitImport true k = [.const k, .call 0 0] := rfl
theorem import_emits_builtin (k : Nat) : emitImport false k = [.const k] := rfl
theorem export_emits : emitExport = [.immutable, .ret 1] := rfl

theorem runFn_ticks (n : Nat) (r : List Instr) (top : Val) (c : Nat) :
    runFn (List.replicate n .tick ++ r) top c = runFn r top (c + n) := by
  induction n generalizing c with
  | zero => simp
  | succ n ih =>
    simp only [List.replicate_succ, List.cons_append, runFn]
    rw [ih]; congr 1; omega

/-- The value a call of the module function returns and the side effects it performs. -/
def moduleResult (ticks : Nat) (e : Ending) (c : Nat) : Val × Nat := runFn (moduleCode ticks e) .undefined c

theorem import_value_export (t v c : Nat) : moduleResult t (.export v) c = (.immutable v, c + t) := by
  simp [moduleResult, moduleCode, runFn_ticks, emitExport, runFn]

theorem import_value_no_export (t c : Nat) : moduleResult t .none c = (.undefined, c + t) := by
  simp [moduleResult, moduleCode, runFn_ticks, runFn]

/-- O25 as the model has it: a top-level `return v` in a module body hands the importer the MUTABLE value. -/
theorem toplevel_return_yields_mutable (t v c : Nat) : moduleResult t (.topReturn v) c = (.mutable v, c + t) := by
  simp [moduleResult, moduleCode, runFn_ticks, runFn]

/-- The clause of the property at full strength: an import yields the exported value made immutable, and
undefined when the module has no export. -/
def import_value_full : Prop :=
  ∀ (t c : Nat) (e : Ending), (moduleResult t e c).1 = match e with
    | .export v => .immutable v
    | _ => .undefined

/-- **import_value_partial.** The clause holds for every module body without a top-level `return`. -/
theorem import_value_partial (t c : Nat) (e : Ending) (h : ∀ v, e ≠ .topReturn v) :
    (moduleResult t e c).1 = match e with
      | .export v => .immutable v
      | _ => .undefined := by
  cases e with
  | «export» v => simp [import_value_export]
  | none => simp [import_value_no_export]
  | topReturn v => exact absurd rfl (h v)

/-- The full clause fails on the model of the code as it is (finding O25). -/
theorem import_value_full_fails : ¬ import_value_full := by
  intro h
  have := h 0 0 (.topReturn 7)
  simp [toplevel_return_yields_mutable] at this

/-- **import_reruns_body.** Each evaluation of the import expression of a source module (`CONST k; CALL 0 0`)
runs the module body again: `times` evaluations perform `times` times its side effects and each yields the
same kind of value. -/
theorem import_reruns_body (t : Nat) (e : Ending) (times c : Nat) :
    evalImports (moduleCode t e) times c =
      (List.replicate times (moduleResult t e 0).1, c + times * t) := by
  have hres : ∀ c, runFn (moduleCode t e) .undefined c = ((moduleResult t e 0).1, c + t) := by
    intro c
    cases e with
    | «export» v => rw [import_value_export t v 0]; exact import_value_export t v c
    | none => rw [import_value_no_export t 0]; exact import_value_no_export t c
    | topReturn v => rw [toplevel_return_yields_mutable t v 0]; exact toplevel_return_yields_mutable t v c
  induction times generalizing c with
  | zero => simp [evalImports]
  | succ n ih =>
    simp only [evalImports, hres, ih, List.replicate_succ]
    congr 1
    rw [Nat.add_mul]; omega

/-! ### the source has the shape the model was read from (regenerated on every run) -/

namespace Expect
def fsCallSites : List (String × String × String × String) := [
  ("compiler.go", "Compiler.Compile", "ioutil.ReadFile", "allowFileImport"),
  ("compiler.go", "Compiler.SetImportFileExt", "filepath.Ext", "none"),
  ("compiler.go", "Compiler.fork", "filepath.Dir", "none"),
  ("compiler.go", "Compiler.getPathModule", "filepath.Abs", "callers:allowFileImport"),
  ("compiler.go", "Compiler.getPathModule", "filepath.Join", "callers:allowFileImport"),
  ("compiler.go", "Compiler.getPathModule", "os.Stat", "callers:allowFileImport"),
  ("script.go", "Script.SetImportDir", "filepath.Abs", "none")]
def compileModuleSteps : List String :=
  ["checkCyclicImports", "loadCompiledModule", "ParseFile", "NewSymbolTable", "BuiltinSymbols", "Fork", "fork",
   "Compile", "storeCompiledModule"]
def importAlternatives : List String := [
  "mod := c.modules.Get(node.ModuleName); mod != nil",
  "c.allowFileImport",
  "else return c.errorf(node, \"module '%s' not found\", node.ModuleName)"]
/-- path-string functions that perform no system call -/
def pureCallees : List String := ["filepath.Ext", "filepath.Dir", "filepath.Join"]
end Expect

/-- **fs_sites_match.** Every call into os / io/ioutil / path/filepath in compiler.go, script.go and
modules.go, with its enclosing function and its `allowFileImport` guard, is the inventory the model was
written against. -/
theorem fs_sites_match : Tengo.Gen.ImportSites.fsCallSites = Expect.fsCallSites := by decide

/-- Every call that can reach the file system is guarded by `allowFileImport`, except `Script.SetImportDir`
(called by the embedder with the embedder's directory, never with an import name). -/
theorem fs_access_guarded :
    ∀ s ∈ Tengo.Gen.ImportSites.fsCallSites,
      s.2.2.1 ∈ Expect.pureCallees ∨ s.2.2.2 ≠ "none" ∨ s.2.1 = "Script.SetImportDir" := by decide

/-- compileModule checks the import stack before it consults the cache, parses only after both, builds the
module's symbol table from `NewSymbolTable()` + builtins, and stores the module last. -/
theorem compile_module_steps_match :
    Tengo.Gen.ImportSites.compileModuleSteps = Expect.compileModuleSteps ∧
    Tengo.Gen.ImportSites.moduleSymbolTableInit = "NewSymbolTable()" ∧
    Tengo.Gen.ImportSites.moduleSymbolTableFork = "symbolTable.Fork(false)" := by decide

/-- The ImportExpr case asks the module map first, the file system only under `allowFileImport`. -/
theorem import_alternatives_match : Tengo.Gen.ImportSites.importAlternatives = Expect.importAlternatives := by decide

/-- The cycle check walks the parent chain; the module cache is read and written at the root. -/
theorem parent_delegation_match :
    Tengo.Gen.ImportSites.delegatesToParent =
      [("checkCyclicImports", true), ("loadCompiledModule", true), ("storeCompiledModule", true)] := by decide

/-- The opcodes the source emits for a source-module import and for `export` are the model's. -/
theorem emits_match :
    Tengo.Gen.ImportSites.importSourceEmits = ["OpConstant k", "OpCall 0 0"] ∧
    Tengo.Gen.ImportSites.exportEmits = ["OpImmutable", "OpReturn 1"] ∧
    emitImport true 0 = [.const 0, .call 0 0] ∧ emitExport = [.immutable, .ret 1] := by decide

/-! ### non-vacuity -/

/-- diamond: a → b, c; b → d; c → d -/
def exDiamond : Env :=
  [("a", .src ⟨false, [.imp "b", .imp "c"]⟩), ("b", .src ⟨false, [.imp "d"]⟩),
   ("c", .src ⟨false, [.imp "d", .ref "len", .defn "x", .ref "x"]⟩), ("d", .src ⟨false, []⟩), ("os", .builtin)]

/-- a 3-cycle behind a chain: p → a → b → c → a -/
def exCycle : Env :=
  [("p", .src ⟨false, [.imp "os", .imp "a"]⟩), ("a", .src ⟨false, [.imp "b"]⟩), ("b", .src ⟨false, [.imp "c"]⟩),
   ("c", .src ⟨false, [.imp "a"]⟩), ("os", .builtin)]

def exCfg : Cfg := { builtins := ["len"], hostVars := ["host"] }

theorem exDiamond_result : compileGraph exCfg exDiamond {} [.imp "a", .imp "d", .ref "host"] =
    .ok { cache := ["a", "c", "b", "d"], compiled := ["c", "d", "b", "a"],
          fetched := ["d", "d", "c", "d", "b", "a"] } := by
  simp [compileGraph, compileItems, resolveCore, exDiamond, exCfg, List.lookup, childDir, Syms.forModule,
    Syms.resolves, Syms.define]

theorem exCycle_result : compileGraph exCfg exCycle {} [.imp "p"] =
    .error (.cyclic "a", { compiled := ["c", "b", "a", "p"], fetched := ["a", "c", "b", "a", "os", "p"] }) := by
  simp [compileGraph, compileItems, resolveCore, exCycle, exCfg, List.lookup, childDir, Syms.forModule]

/-- `compile_ok_iff_acyclic_clean` applies to the diamond (hypotheses hold) and yields acyclicity … -/
example : ¬ CycleReachable exDiamond [.imp "a", .imp "d", .ref "host"] :=
  (compile_ok_iff_acyclic_clean exCfg exDiamond {} _ rfl (cleanEnv_of_B (by decide)) (by decide)).mp
    ⟨_, exDiamond_result⟩

/-- … and to the cycle, where it yields that the compile cannot succeed; the cycle is the reported one. -/
example : ¬ ∃ st, compileGraph exCfg exCycle {} [.imp "p"] = .ok st := by
  rw [compile_ok_iff_acyclic_clean exCfg exCycle {} _ rfl (cleanEnv_of_B (by decide)) (by decide)]
  exact fun h => h ⟨"a", cyclic_error_is_cycle exCfg exCycle {} _ rfl exCycle_result⟩

example : Path exCycle "a" "a" := (cyclic_error_is_cycle exCfg exCycle {} _ rfl exCycle_result).2

/-- the hypothesis of `compile_ok_iff_acyclic` ("no other error") is met by a run that ends in a cyclic error -/
example : ∀ e st, compileGraph exCfg exCycle {} [.imp "p"] = .error (e, st) → ∃ k, e = .cyclic k := by
  intro e st h; rw [exCycle_result] at h; cases h; exact ⟨_, rfl⟩

/-- module_compiled_once on the diamond: "d" is reached three times and compiled once -/
example : (["c", "d", "b", "a"] : List String).Nodup ∧ (["d", "d", "c", "d", "b", "a"] : List String).count "d" = 3 := by
  decide

/-- module_sees_no_importer_name: the importer defines `host`, the module still cannot use it -/
example : compileModule exCfg exDiamond {} [] "" ⟨["len"], ["host"]⟩ "m" ⟨false, [.ref "host"]⟩ false {} =
    .error (.unresolved "host", { compiled := ["m"] }) :=
  module_sees_no_importer_name _ _ _ _ _ _ _ _ _ _ _ (by simp) (by simp) (by simp)

/-- no_fs_when_disabled with two different file systems -/
example : compileGraph exCfg exDiamond {} [.imp "zz"] =
    compileGraph exCfg exDiamond { files := [("/d/zz.tengo", ⟨false, []⟩)], resolve := [(("", "zz"), "/d/zz.tengo")] } [.imp "zz"] :=
  no_fs_when_disabled _ _ _ _ _ rfl

/-- … while with file import enabled the file system decides (so the theorem is not vacuous) -/
example :
    compileGraph { exCfg with allowFileImport := true } exDiamond {} [.imp "zz"] =
      .error (.filePath "zz", { fsLog := ["stat  zz"] }) ∧
    compileGraph { exCfg with allowFileImport := true } exDiamond
      { files := [("/d/zz.tengo", ⟨false, []⟩)], resolve := [(("", "zz"), "/d/zz.tengo")] } [.imp "zz"] =
      .ok { cache := ["/d/zz.tengo"], compiled := ["/d/zz.tengo"], fsLog := ["read /d/zz.tengo", "stat  zz"] } := by
  have hnil : ∀ cfg env fs stack dir syms st, compileItems cfg env fs stack dir syms [] st = .ok st := by
    intros; rw [compileItems]
  constructor <;>
    simp [compileGraph, compileItems_imp, hnil, compileModule, resolveCore, exDiamond, exCfg, List.lookup, childDir,
      Syms.forModule]

/-- import_value_partial / import_reruns_body instances -/
example : evalImports (moduleCode 2 (.export 5)) 3 0 = ([.immutable 5, .immutable 5, .immutable 5], 6) := by
  rw [import_reruns_body, import_value_export]; rfl
example : ∀ v, Ending.export 5 ≠ .topReturn v := by intro v h; cases h

end Tengo.Props.C13

import Tengo.Props.C20
import Tengo.Props.C20Bytes
/-! C20: the token-level theorems (`C20`: token tables, semicolon rule, integer literal values, precedence
climbing, token-level parse ∘ print) and the byte-level composition scanner ∘ printer ∘ parser (`C20Bytes`), as
one module for the checker. -/

import Tengo.Props.C20
import Tengo.Props.C20Bytes
import Tengo.Props.C20Bytes2
import Tengo.Props.C20Stmt
/-! C20: the token-level theorems (`C20`: token tables, semicolon rule, integer literal values, precedence
climbing, token-level parse ∘ print) and the byte-level composition scanner ∘ printer ∘ parser (`C20Bytes`; `C20Bytes2`: literal operands and
postfix chains; `C20Stmt`: statement lists, token level + printer layout), as one module for the checker. -/

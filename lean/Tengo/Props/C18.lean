import Tengo.Model.Json
import Tengo.Gen.JsonScanner
import Tengo.Proofs.JsonString
/-!
C18 — JSON encode/decode round-trips and agrees with encoding/json.

Property theorems about `Tengo.Model.Json` (the model of stdlib/json: `Encode`, `encodeString`, the
scanner automaton `checkValid`, `unquote`, `Decode`). The model is tied to the source by the `enc` /
`dec` correspondence streams of harness/cmd/c18 (byte-identical encodings, identical decoded values
and syntax errors) and by the regenerated tables of `Tengo.Gen.JsonScanner`.
-/
namespace Tengo.Props.C18
open Tengo.Model.Json Tengo.Proofs.JsonString

/-! ## The regenerated tables are the ones the model uses -/

/-- scanner.go still declares the scan opcodes with the numbering the model's `Op` has. -/
theorem scan_codes_match : Tengo.Gen.JsonScanner.scanCodes =
    [("scanContinue", Op.continue_.code), ("scanBeginLiteral", Op.beginLiteral.code),
     ("scanBeginObject", Op.beginObject.code), ("scanObjectKey", Op.objectKey.code),
     ("scanObjectValue", Op.objectValue.code), ("scanEndObject", Op.endObject.code),
     ("scanBeginArray", Op.beginArray.code), ("scanArrayValue", Op.arrayValue.code),
     ("scanEndArray", Op.endArray.code), ("scanSkipSpace", Op.skipSpace.code),
     ("scanEnd", Op.end_.code), ("scanError", Op.error.code)] := by decide

theorem parse_states_match : Tengo.Gen.JsonScanner.parseStates =
    [("parseObjectKey", PS.objKey.code), ("parseObjectValue", PS.objVal.code), ("parseArrayValue", PS.arr.code)] := by
  decide

set_option maxRecDepth 100000 in
/-- encode.go's `safeSet` table is the model's `safeSet` predicate. -/
theorem safeSet_matches :
    Tengo.Gen.JsonScanner.safeSet = (List.range 128).map (fun n => safeSet (UInt8.ofNat n)) := by decide

set_option maxRecDepth 100000 in
/-- The escape switch of `encodeStringSlowPath` (and the `hex` digits) is the model's `escByte`. -/
theorem enc_escapes_match :
    (Tengo.Gen.JsonScanner.encEscapes.all fun (b, w) => escByte (UInt8.ofNat b) == [0x5C, UInt8.ofNat w]) = true ∧
    ((List.range 16).map hexDigit = Tengo.Gen.JsonScanner.hexDigits.toList.map (fun c => UInt8.ofNat c.toNat)) ∧
    ((List.range 128).all fun n =>
      safeSet (UInt8.ofNat n) || (Tengo.Gen.JsonScanner.encEscapes.map (·.1)).contains n ||
        escByte (UInt8.ofNat n) == [0x5C, 0x75, 0x30, 0x30, hexDigit (n / 16), hexDigit (n % 16)]) = true := by
  decide

set_option maxRecDepth 100000 in
/-- The bytes that make `scanWhile` report `isFloat` are exactly the model's `isFloatByte`. -/
theorem float_markers_match :
    ((List.range 256).all fun n => isFloatByte (UInt8.ofNat n) == Tengo.Gen.JsonScanner.floatMarkers.contains n) = true := by
  decide

set_option maxRecDepth 100000 in
/-- The single-character escapes `stateInStringEsc` accepts are the model's `isSimpleEsc`. -/
theorem scan_escapes_match :
    ((List.range 256).all fun n => isSimpleEsc (UInt8.ofNat n) == Tengo.Gen.JsonScanner.scanEscapes.contains n) = true := by
  decide

set_option maxRecDepth 100000 in
/-- What `unquoteBytes` writes for each single-character escape is what the model's loop writes. -/
theorem unquote_escapes_match :
    (Tengo.Gen.JsonScanner.unquoteEscapes.all fun (e, w) =>
      unqLoop 2 [0x5C, UInt8.ofNat e] == some [UInt8.ofNat w]) = true ∧
    ((List.range 256).all fun n =>
      (Tengo.Gen.JsonScanner.unquoteEscapes.map (·.1)).contains n || n == 0x75 ||
        unqLoop 2 [0x5C, UInt8.ofNat n] == none) = true := by
  decide

/-! ## Strings: `unquote ∘ encodeString = id` on valid UTF-8 -/

/-- **String round trip.** For every valid UTF-8 byte string `s` (the encoding of a list of Unicode
scalar values), unquoting what `encodeString` wrote gives `s` back — fast and slow path of both
functions, escapes next to multi-byte runes, control characters, quotes and backslashes included. -/
theorem unquote_encodeString (s : Bytes) (h : ValidUTF8 s) : unquote (encodeString s) = some s := by
  obtain ⟨rs, hrs, rfl⟩ := h
  rw [encodeString_eq]
  show unquoteBytes (0x22 :: slowPath (utf8 rs) ++ [0x22]) = _
  rw [unquoteBytes_quoted]
  have key := fast_then_slow rs hrs _ _ (Nat.le_refl _) (Nat.le_refl _)
  split
  · rename_i hlen
    rw [hlen] at key
    simp [unqLoop_nil] at key
    rw [key]
  · exact key

/-- Non-vacuity: `a"\<LF><U+7F>é€😀<U+1F>` is valid UTF-8 (runes listed) and its encoding escapes four of them. -/
example : ValidUTF8 [0x61, 0x22, 0x5C, 0x0A, 0x7F, 0xC3, 0xA9, 0xE2, 0x82, 0xAC, 0xF0, 0x9F, 0x98, 0x80, 0x1F] :=
  ⟨[0x61, 0x22, 0x5C, 0x0A, 0x7F, 0xE9, 0x20AC, 0x1F600, 0x1F], by decide, by decide⟩

example : encodeString [0x61, 0x22, 0x5C, 0x0A, 0x7F, 0xC3, 0xA9, 0xE2, 0x82, 0xAC, 0xF0, 0x9F, 0x98, 0x80, 0x1F] =
    [0x22, 0x61, 0x5C, 0x22, 0x5C, 0x5C, 0x5C, 0x6E, 0x7F, 0xC3, 0xA9, 0xE2, 0x82, 0xAC, 0xF0, 0x9F, 0x98, 0x80,
     0x5C, 0x75, 0x30, 0x30, 0x31, 0x66, 0x22] := by decide

/-- Surrogates in `\u` escapes: a pair gives the supplementary rune, lone or unpaired halves give U+FFFD
(as encoding/json). `"😀"`, `"\ud83d"`, `"\ude00"`, `"\ud83dA"`. -/
theorem surrogates :
    unquote [0x22, 0x5C, 0x75, 0x64, 0x38, 0x33, 0x64, 0x5C, 0x75, 0x64, 0x65, 0x30, 0x30, 0x22] = some [0xF0, 0x9F, 0x98, 0x80] ∧
    unquote [0x22, 0x5C, 0x75, 0x64, 0x38, 0x33, 0x64, 0x22] = some [0xEF, 0xBF, 0xBD] ∧
    unquote [0x22, 0x5C, 0x75, 0x64, 0x65, 0x30, 0x30, 0x22] = some [0xEF, 0xBF, 0xBD] ∧
    unquote [0x22, 0x5C, 0x75, 0x64, 0x38, 0x33, 0x64, 0x5C, 0x75, 0x30, 0x30, 0x34, 0x31, 0x22] = some [0xEF, 0xBF, 0xBD, 0x41] := by
  decide

end Tengo.Props.C18

import Tengo.Model.Json
import Tengo.Gen.JsonScanner
import Tengo.Proofs.JsonString
import Tengo.Proofs.JsonEncode
import Tengo.Proofs.JsonDecode
import Tengo.Proofs.JsonParse
import Tengo.Proofs.JsonEquals
/-!
C18 — JSON encode/decode round-trips and agrees with encoding/json.

Property theorems about `Tengo.Model.Json` (the model of stdlib/json: `Encode`, `encodeString`, the
scanner automaton `checkValid`, `unquote`, `Decode`). The model is tied to the source by the `enc` /
`dec` correspondence streams of harness/cmd/c18 (byte-identical encodings, identical decoded values
and syntax errors) and by the regenerated tables of `Tengo.Gen.JsonScanner`.
-/
namespace Tengo.Props.C18
open Tengo.Model.Json Tengo.Proofs.JsonString Tengo.Proofs.JsonScan Tengo.Proofs.JsonGrammar Tengo.Proofs.JsonAccept
  Tengo.Proofs.JsonEncode Tengo.Proofs.JsonDecode Tengo.Proofs.JsonParse Tengo.Proofs.JsonEquals

/-! ## The regenerated tables are the ones the model uses -/

/-- scanner.go still declares the scan opcodes with the numbering the model's `Op` has. -/
theorem scan_codes_match : Tengo.Gen.JsonScanner.scanCodes =
    [("scanContinue", Op.continue_.code), ("scanBeginLiteral", Op.beginLiteral.code),
     ("scanBeginObject", Op.beginObject.code), ("scanObjectKey", Op.objectKey.code),
     ("scanObjectValue", Op.objectValue.code), ("scanEndObject", Op.endObject.code),
     ("scanBeginArray", Op.beginArray.code), ("scanArrayValue", Op.arrayValue.code),
     ("scanEndArray", Op.endArray.code), ("scanSkipSpace", Op.skipSpace.code),
     ("scanEnd", Op.end_.code), ("scanError", Op.error.code)] := by decide

theorem parse_states_match : Tengo.Gen.JsonScanner.parseStates =
    [("parseObjectKey", PS.objKey.code), ("parseObjectValue", PS.objVal.code), ("parseArrayValue", PS.arr.code)] := by
  decide

set_option maxRecDepth 100000 in
/-- encode.go's `safeSet` table is the model's `safeSet` predicate. -/
theorem safeSet_matches :
    Tengo.Gen.JsonScanner.safeSet = (List.range 128).map (fun n => safeSet (UInt8.ofNat n)) := by decide

set_option maxRecDepth 100000 in
/-- The escape switch of `encodeStringSlowPath` (and the `hex` digits) is the model's `escByte`. -/
theorem enc_escapes_match :
    (Tengo.Gen.JsonScanner.encEscapes.all fun (b, w) => escByte (UInt8.ofNat b) == [0x5C, UInt8.ofNat w]) = true ∧
    ((List.range 16).map hexDigit = Tengo.Gen.JsonScanner.hexDigits.toList.map (fun c => UInt8.ofNat c.toNat)) ∧
    ((List.range 128).all fun n =>
      safeSet (UInt8.ofNat n) || (Tengo.Gen.JsonScanner.encEscapes.map (·.1)).contains n ||
        escByte (UInt8.ofNat n) == [0x5C, 0x75, 0x30, 0x30, hexDigit (n / 16), hexDigit (n % 16)]) = true := by
  decide

set_option maxRecDepth 100000 in
/-- The bytes that make `scanWhile` report `isFloat` are exactly the model's `isFloatByte`. -/
theorem float_markers_match :
    ((List.range 256).all fun n => isFloatByte (UInt8.ofNat n) == Tengo.Gen.JsonScanner.floatMarkers.contains n) = true := by
  decide

set_option maxRecDepth 100000 in
/-- The single-character escapes `stateInStringEsc` accepts are the model's `isSimpleEsc`. -/
theorem scan_escapes_match :
    ((List.range 256).all fun n => isSimpleEsc (UInt8.ofNat n) == Tengo.Gen.JsonScanner.scanEscapes.contains n) = true := by
  decide

set_option maxRecDepth 100000 in
/-- What `unquoteBytes` writes for each single-character escape is what the model's loop writes. -/
theorem unquote_escapes_match :
    (Tengo.Gen.JsonScanner.unquoteEscapes.all fun (e, w) =>
      unqLoop 2 [0x5C, UInt8.ofNat e] == some [UInt8.ofNat w]) = true ∧
    ((List.range 256).all fun n =>
      (Tengo.Gen.JsonScanner.unquoteEscapes.map (·.1)).contains n || n == 0x75 ||
        unqLoop 2 [0x5C, UInt8.ofNat n] == none) = true := by
  decide

/-! ## Strings: `unquote ∘ encodeString = id` on valid UTF-8 -/

/-- **String round trip.** For every valid UTF-8 byte string `s` (the encoding of a list of Unicode
scalar values), unquoting what `encodeString` wrote gives `s` back — fast and slow path of both
functions, escapes next to multi-byte runes, control characters, quotes and backslashes included. -/
theorem unquote_encodeString (s : Bytes) (h : ValidUTF8 s) : unquote (encodeString s) = some s := by
  obtain ⟨rs, hrs, rfl⟩ := h
  rw [encodeString_eq]
  show unquoteBytes (0x22 :: slowPath (utf8 rs) ++ [0x22]) = _
  rw [unquoteBytes_quoted]
  have key := fast_then_slow rs hrs _ _ (Nat.le_refl _) (Nat.le_refl _)
  split
  · rename_i hlen
    rw [hlen] at key
    simp [unqLoop_nil] at key
    rw [key]
  · exact key

/-- Non-vacuity: `a"\<LF><U+7F>é€😀<U+1F>` is valid UTF-8 (runes listed) and its encoding escapes four of them. -/
example : ValidUTF8 [0x61, 0x22, 0x5C, 0x0A, 0x7F, 0xC3, 0xA9, 0xE2, 0x82, 0xAC, 0xF0, 0x9F, 0x98, 0x80, 0x1F] :=
  ⟨[0x61, 0x22, 0x5C, 0x0A, 0x7F, 0xE9, 0x20AC, 0x1F600, 0x1F], by decide, by decide⟩

example : encodeString [0x61, 0x22, 0x5C, 0x0A, 0x7F, 0xC3, 0xA9, 0xE2, 0x82, 0xAC, 0xF0, 0x9F, 0x98, 0x80, 0x1F] =
    [0x22, 0x61, 0x5C, 0x22, 0x5C, 0x5C, 0x5C, 0x6E, 0x7F, 0xC3, 0xA9, 0xE2, 0x82, 0xAC, 0xF0, 0x9F, 0x98, 0x80,
     0x5C, 0x75, 0x30, 0x30, 0x31, 0x66, 0x22] := by decide

/-- Surrogates in `\u` escapes: a pair gives the supplementary rune, lone or unpaired halves give U+FFFD
(as encoding/json). `"😀"`, `"\ud83d"`, `"\ude00"`, `"\ud83dA"`. -/
theorem surrogates :
    unquote [0x22, 0x5C, 0x75, 0x64, 0x38, 0x33, 0x64, 0x5C, 0x75, 0x64, 0x65, 0x30, 0x30, 0x22] = some [0xF0, 0x9F, 0x98, 0x80] ∧
    unquote [0x22, 0x5C, 0x75, 0x64, 0x38, 0x33, 0x64, 0x22] = some [0xEF, 0xBF, 0xBD] ∧
    unquote [0x22, 0x5C, 0x75, 0x64, 0x65, 0x30, 0x30, 0x22] = some [0xEF, 0xBF, 0xBD] ∧
    unquote [0x22, 0x5C, 0x75, 0x64, 0x38, 0x33, 0x64, 0x5C, 0x75, 0x30, 0x30, 0x34, 0x31, 0x22] = some [0xEF, 0xBF, 0xBD, 0x41] := by
  decide

/-! ## The scanner automaton is the RFC 8259 grammar, nested at most `maxNestingDepth` deep -/

/-- `Grammar.json b`: `b` is a JSON text (`ws value ws`) of the grammar of `Tengo.Proofs.JsonGrammar`
(RFC 8259 §2–§7 as inductive predicates; bytes ≥ 0x20 other than `"` and `\` are string characters,
as for encoding/json). The denoted value plays no role in derivability. -/
def Grammar.json (b : Bytes) : Prop := ∃ v, Json (fun _ => 0) b v

/-- `Grammar.jsonDepth n b`: `b` is a JSON text of the same grammar whose arrays and objects are nested
at most `n` deep (`ValD`: a scalar has depth 0, `[]` and `{}` depth 1, a non-empty array or object one
more than its deepest element or member value). -/
def Grammar.jsonDepth (n : Nat) (b : Bytes) : Prop := ∃ v, JsonD (fun _ => 0) n b v

/-- The depth-bounded grammar is the RFC grammar plus the bound: every text of the RFC grammar has
some finite nesting depth, a bounded text is a text, and the bound is an upper bound. -/
theorem Grammar.json_iff_jsonDepth (b : Bytes) : Grammar.json b ↔ ∃ n, Grammar.jsonDepth n b :=
  ⟨fun ⟨v, h⟩ => let ⟨n, hn⟩ := h.toD; ⟨n, v, hn⟩, fun ⟨_, v, h⟩ => ⟨v, h.toJson⟩⟩

theorem Grammar.jsonDepth_mono {n k : Nat} {b : Bytes} (h : Grammar.jsonDepth n b) (hk : n ≤ k) : Grammar.jsonDepth k b :=
  let ⟨v, hv⟩ := h; ⟨v, hv.mono hk⟩

/-- The limit of scanner.go (`const maxNestingDepth = 10000`, the one encoding/json has). -/
theorem max_depth_value : maxNestingDepth = 10000 := rfl

/-- **Scanner = grammar with the nesting limit.** `checkValid` accepts exactly the JSON texts whose
arrays and objects are nested at most `maxNestingDepth` (10000) deep — all byte strings, both
directions; in particular a text of the RFC grammar nested deeper is rejected (O34). -/
theorem scanner_eq_grammar (b : Bytes) : (∃ s, checkValid b = .ok s) ↔ Grammar.jsonDepth maxNestingDepth b := by
  rw [checkValid_iff_accB]
  exact ⟨accB_json _ b, fun ⟨_, h⟩ => json_accB h⟩

/-- What the scanner accepts is a text of the RFC grammar. -/
theorem scanner_sound (b : Bytes) (h : ∃ s, checkValid b = .ok s) : Grammar.json b :=
  (Grammar.json_iff_jsonDepth b).mpr ⟨_, (scanner_eq_grammar b).mp h⟩

/-- Non-vacuity: ` [1,{"a":-2.5e3}]` is in the grammar (through the theorem: the automaton accepts it). -/
example : Grammar.jsonDepth maxNestingDepth [0x20, 0x5B, 0x31, 0x2C, 0x7B, 0x22, 0x61, 0x22, 0x3A, 0x2D, 0x32, 0x2E, 0x35, 0x65, 0x33, 0x7D, 0x5D] :=
  (scanner_eq_grammar _).mp ((checkValid_iff_accB _).mpr (by decide))

example : ¬ Grammar.jsonDepth maxNestingDepth [0x5B, 0x31, 0x2C, 0x5D] := fun h => by   -- `[1,]`
  have := (checkValid_iff_accB _).mp ((scanner_eq_grammar _).mpr h)
  revert this; decide

/-! ### The limit is exact: `[`×n `]`×n -/

/-- `[`×(n+1) `]`×(n+1): arrays nested `n + 1` deep. -/
def nestArr : Nat → Bytes
  | 0 => [0x5B, 0x5D]
  | n + 1 => 0x5B :: nestArr n ++ [0x5D]

theorem nestArr_eq (n : Nat) : nestArr n = List.replicate (n + 1) 0x5B ++ List.replicate (n + 1) 0x5D := by
  induction n with
  | zero => rfl
  | succ n ih =>
    rw [nestArr, ih, List.replicate_succ (n := n + 1), List.replicate_succ' (n := n + 1)]
    simp

theorem nestArr_valD (pf : Bytes → UInt64) (n : Nat) : ∃ v, ValD pf (n + 1) (nestArr n) v := by
  induction n with
  | zero => exact ⟨_, ValD.arrEmpty (w := []) ws_nil⟩
  | succ n ih =>
    obtain ⟨v, hv⟩ := ih
    have := ValD.arr (ElemsD.one (w1 := []) (w2 := []) ws_nil hv ws_nil)
    exact ⟨_, by simpa [nestArr] using this⟩

/-- **The limit is exact (O34).** `[`×n `]`×n is accepted iff `n ≤ maxNestingDepth`: 10000 levels pass,
10001 do not. -/
theorem nested_arrays_valid_iff (n : Nat) :
    (∃ s, checkValid (List.replicate (n + 1) 0x5B ++ List.replicate (n + 1) 0x5D) = .ok s) ↔ n + 1 ≤ maxNestingDepth := by
  constructor
  · intro h
    apply Decidable.byContradiction
    intro hn
    have := (checkValid_iff_accB _).mp h
    rw [accB_deep (n + 1) .beginValue [] _ (.inl rfl) (by simp) (by simp; omega)] at this
    exact Bool.noConfusion this
  · intro hn
    rw [← nestArr_eq, scanner_eq_grammar]
    obtain ⟨v, hv⟩ := nestArr_valD (fun _ => 0) n
    exact ⟨v, [], nestArr n, [], by simp, ws_nil, hv.mono hn, ws_nil⟩

/-- More than `maxNestingDepth` opening brackets in a row are rejected whatever follows. -/
theorem deep_rejected (n : Nat) (h : maxNestingDepth < n) (r : Bytes) :
    ∃ e, checkValid (List.replicate n 0x5B ++ r) = .error e := by
  cases hc : checkValid (List.replicate n 0x5B ++ r) with
  | error e => exact ⟨e, rfl⟩
  | ok s =>
    have := (checkValid_iff_accB _).mp ⟨s, hc⟩
    rw [accB_deep n .beginValue [] r (.inl rfl) (by simp) (by simp; omega)] at this
    exact Bool.noConfusion this

/-! ## `Decode` is total and computes the denotation -/

/-- `Decode` returns the value a JSON text denotes, and only on JSON texts nested at most
`maxNestingDepth` deep. -/
theorem decode_ok_iff (pf : Bytes → UInt64) (b : Bytes) (v : J) :
    decode pf b = .ok v ↔ JsonD pf maxNestingDepth b v := by
  constructor
  · intro h
    cases hc : checkValid b with
    | error e => simp [decode, hc] at h
    | ok sc =>
      obtain ⟨v', hv'⟩ := accB_json pf b ((checkValid_iff_accB b).mp ⟨sc, hc⟩)
      have := decode_json pf hv'
      rw [h] at this
      cases this
      exact hv'
  · exact decode_json pf

/-- **No panic, no fuel exhaustion.** On every byte string `Decode` returns a value or the scanner's
syntax error (which includes `exceeded max depth`): the phase panics of decode.go are unreachable after
`checkValid`, and the fuel `2·|data|+2` the model gives the recursion always suffices. -/
theorem decode_no_panic (pf : Bytes → UInt64) (b : Bytes) :
    (∃ v, decode pf b = .ok v) ∨ (∃ e, checkValid b = .error e ∧ decode pf b = .syntaxErr e) := by
  cases hc : checkValid b with
  | error e => exact .inr ⟨e, rfl, by simp [decode, hc]⟩
  | ok sc =>
    obtain ⟨v, hv⟩ := accB_json pf b ((checkValid_iff_accB b).mp ⟨sc, hc⟩)
    exact .inl ⟨v, decode_json pf hv⟩

/-- `Decode` fails exactly when the scanner rejects, i.e. exactly on byte strings that are not JSON
texts nested at most `maxNestingDepth` deep. -/
theorem decode_err_iff (pf : Bytes → UInt64) (b : Bytes) :
    (∃ e, decode pf b = .syntaxErr e) ↔ ¬ Grammar.jsonDepth maxNestingDepth b := by
  rw [← scanner_eq_grammar]
  constructor
  · rintro ⟨e, he⟩ ⟨s, hs⟩
    simp only [decode, hs] at he
    split at he <;> cases he
  · intro h
    rcases decode_no_panic pf b with ⟨v, hv⟩ | ⟨e, _, he⟩
    · exact absurd ((checkValid_iff_accB b).mpr (json_accB ((decode_ok_iff pf b v).mp hv))) h
    · exact ⟨e, he⟩

/-! ## Number typing -/

/-- **Number typing.** A number token decodes to an int iff it contains none of `.`, `e`, `E` and
`strconv.ParseInt` accepts it (i.e. it is within int64); otherwise to the float `ParseFloat` gives. -/
theorem number_typing (pf : Bytes → UInt64) (t : Bytes) (h : NumTok t) :
    decode pf t = .ok (if t.any isFloatByte then .float (pf t) else
      match parseInt t with
      | some n => .int n
      | none => .float (pf t)) := by
  have := decode_json pf (b := t) ⟨[], t, [], by simp, ws_nil, ValD.num h, ws_nil⟩
  rw [this]; rfl

/-- `ParseInt` on the text `AppendInt` writes, and on the first integers outside int64. -/
theorem parseInt_range :
    parseInt (appendInt (2 ^ 63 - 1)) = some (2 ^ 63 - 1) ∧ parseInt (appendInt (-(2 ^ 63))) = some (-(2 ^ 63)) ∧
    parseInt [0x39, 0x32, 0x32, 0x33, 0x33, 0x37, 0x32, 0x30, 0x33, 0x36, 0x38, 0x35, 0x34, 0x37, 0x37, 0x35, 0x38, 0x30, 0x38] = none ∧
    parseInt [0x2D, 0x39, 0x32, 0x32, 0x33, 0x33, 0x37, 0x32, 0x30, 0x33, 0x36, 0x38, 0x35, 0x34, 0x37, 0x37, 0x35, 0x38, 0x30, 0x39] = none := by
  decide

/-- Non-vacuity of `number_typing`: `10`, `1.0`, `1e5`, `1E5` decoded with `pf := fun _ => 7`, and the typing of
`9223372036854775807` / `9223372036854775808` (kernel evaluation of the scanner on long inputs is slow, so
the last two evaluate `number` only). -/
example :
    decode (fun _ => 7) [0x31, 0x30] = .ok (.int 10) ∧
    decode (fun _ => 7) [0x31, 0x2E, 0x30] = .ok (.float 7) ∧
    decode (fun _ => 7) [0x31, 0x65, 0x35] = .ok (.float 7) ∧
    decode (fun _ => 7) [0x31, 0x45, 0x35] = .ok (.float 7) := by decide

example :
    number (fun _ => 7) false [0x39, 0x32, 0x32, 0x33, 0x33, 0x37, 0x32, 0x30, 0x33, 0x36, 0x38, 0x35, 0x34, 0x37, 0x37, 0x35, 0x38, 0x30, 0x37] =
      .int 9223372036854775807 ∧
    number (fun _ => 7) false [0x39, 0x32, 0x32, 0x33, 0x33, 0x37, 0x32, 0x30, 0x33, 0x36, 0x38, 0x35, 0x34, 0x37, 0x37, 0x35, 0x38, 0x30, 0x38] =
      .float 7 := by decide

/-! ## Encode: valid JSON, and the round trip

The theorems below are proved for the float-free fragment (`Rep` excludes `.float`): the text of a
float is external to the model. The full statements, with the law the float oracles would have to satisfy
spelled out, are `encode_valid_full` / `roundtrip_full` (not proved; the float clauses are searched on the
real code by harness/cmd/c18).

Nesting: the text `Encode` writes nests exactly as deep as the value (`depth`, `encode_valid_partial`).
`Encode` itself has no limit, the scanner has: the clauses that run `checkValid` / `Decode` on the
encoding carry the hypothesis `depth v ≤ maxNestingDepth`, and it is needed
(`roundtrip_needs_depth`: the array nested 10001 deep encodes, and `Decode` rejects its encoding — as
encoding/json does). -/

/-- The law the external float conversions must satisfy for the float clauses: what `Encode` writes for a
finite float is a number token that reads back as a number `Equals` to it. -/
def FloatOracleOK (ff : UInt64 → Bytes × Bytes) (pf : Bytes → UInt64) (i2f : Int → UInt64) : Prop :=
  ∀ b t, encodeFloat ff b = some t → NumTok t ∧ equals i2f (number pf (t.any isFloatByte) t) (.float b) = true

mutual
  /-- Representable values including finite floats. -/
  def RepF : J → Prop
    | .float b => (b &&& 0x7FFFFFFFFFFFFFFF).toNat < 0x7FF0000000000000
    | .arr xs => RepFList xs
    | .obj es => RepFMems es
    | .int i => -(2 : Int) ^ 63 ≤ i ∧ i < (2 : Int) ^ 63
    | .str s => ValidUTF8 s
    | _ => True
  def RepFList : JList → Prop
    | .nil => True
    | .cons x xs => RepF x ∧ RepFList xs
  def RepFMems : JMems → Prop
    | .nil => True
    | .cons k v es => ValidUTF8 k ∧ RepF v ∧ RepFMems es
end

/-- Full strength of `encode_valid` (not proved for values containing floats). -/
def encode_valid_full : Prop :=
  ∀ ff pf i2f v, FloatOracleOK ff pf i2f → RepF v → ∃ t, encode ff v = some t ∧ Grammar.jsonDepth (depth v) t

/-- Full strength of the round trip (not proved for values containing floats). -/
def roundtrip_full : Prop :=
  ∀ ff pf i2f v, FloatOracleOK ff pf i2f → RepF v → depth v ≤ maxNestingDepth → DK v →
    ∃ t v', encode ff v = some t ∧ decode pf t = .ok v' ∧ equals i2f v' v = true

/-- **The encoding is valid.** For every float-free representable value (ints within int64, strings
and keys valid UTF-8, any nesting) `Encode` succeeds and the text is a JSON text of the RFC grammar nested
exactly as deep as the value; `checkValid` accepts it when that depth is within `maxNestingDepth`. -/
theorem encode_valid_partial (ff : UInt64 → Bytes × Bytes) (v : J) (h : Rep v) :
    ∃ t, encode ff v = some t ∧ Grammar.json t ∧ Grammar.jsonDepth (depth v) t ∧
      (depth v ≤ maxNestingDepth → ∃ s, checkValid t = .ok s) := by
  obtain ⟨t, ht, hv⟩ := enc_valD (fun _ => 0) ff v h
  have hj : JsonD (fun _ => 0) (depth v) t (canon v) := ⟨[], t, [], by simp, ws_nil, hv, ws_nil⟩
  exact ⟨t, ht, ⟨_, hj.toJson⟩, ⟨_, hj⟩, fun hd => (scanner_eq_grammar t).mpr ⟨_, hj.mono hd⟩⟩

/-- **Round trip.** Decoding the encoding of a float-free representable value nested at most
`maxNestingDepth` deep gives its canonical form: the same value with every map holding its members
sorted by key (what a Go map is). -/
theorem decode_encode_partial (pf : Bytes → UInt64) (ff : UInt64 → Bytes × Bytes) (v : J) (h : Rep v)
    (hd : depth v ≤ maxNestingDepth) : ∃ t, encode ff v = some t ∧ decode pf t = .ok (canon v) := by
  obtain ⟨t, ht, hv⟩ := enc_valD pf ff v h
  exact ⟨t, ht, decode_json pf ⟨[], t, [], by simp, ws_nil, hv.mono hd, ws_nil⟩⟩

/-- **Round trip with tengo equality.** For a float-free representable value nested at most
`maxNestingDepth` deep whose maps have distinct keys (every Go map has), decoding the encoding succeeds
and the result `Equals` the value. Holds for every member order the encoder may have used (`v` lists the
members in that order). -/
theorem decode_encode_equals_partial (pf : Bytes → UInt64) (ff : UInt64 → Bytes × Bytes) (i2f : Int → UInt64) (v : J)
    (h : Rep v) (hd : depth v ≤ maxNestingDepth) (hk : DK v) :
    ∃ t v', encode ff v = some t ∧ decode pf t = .ok v' ∧ equals i2f v' v = true := by
  obtain ⟨t, ht, hdec⟩ := decode_encode_partial pf ff v h hd
  exact ⟨t, canon v, ht, hdec, equals_canon i2f v h hk⟩

/-- Arrays nested `n + 1` deep, as a value. -/
def nestVal : Nat → J
  | 0 => .arr .nil
  | n + 1 => .arr (.cons (nestVal n) .nil)

theorem nestVal_facts (ff : UInt64 → Bytes × Bytes) (n : Nat) :
    encode ff (nestVal n) = some (nestArr n) ∧ Rep (nestVal n) ∧ DK (nestVal n) ∧ depth (nestVal n) = n + 1 := by
  induction n with
  | zero => simp [nestVal, nestArr, encode, encodeList, Rep, RepList, DK, DKList, depth, depthList]
  | succ n ih =>
    obtain ⟨h1, h2, h3, h4⟩ := ih
    simp [nestVal, nestArr, encode, encodeList, Rep, RepList, DK, DKList, depth, depthList, h1, h2, h3, h4]

/-- **The depth hypothesis of the round trip is needed.** The array nested `maxNestingDepth + 1` deep is
representable and `Encode` writes it, but `Decode` rejects the text (so does encoding/json, whose limit
this is). -/
theorem roundtrip_needs_depth (pf : Bytes → UInt64) (ff : UInt64 → Bytes × Bytes) :
    ∃ v t e, Rep v ∧ DK v ∧ depth v = maxNestingDepth + 1 ∧ encode ff v = some t ∧ decode pf t = .syntaxErr e := by
  obtain ⟨h1, h2, h3, h4⟩ := nestVal_facts ff maxNestingDepth
  obtain ⟨e, he⟩ := deep_rejected (maxNestingDepth + 1) (by omega) (List.replicate (maxNestingDepth + 1) 0x5D)
  refine ⟨nestVal maxNestingDepth, nestArr maxNestingDepth, e, h2, h3, h4, h1, ?_⟩
  rw [nestArr_eq]
  simp [decode, he]

/-- Non-vacuity of the depth hypothesis: the value below has depth 2. -/
example : depth (.arr (.cons (.obj (.cons [0x62] (.int (-5)) (.cons [0x61] (.str [0xC3, 0xA9, 0x0A]) .nil)))
    (.cons .null (.cons (.bool true) .nil)))) ≤ maxNestingDepth := by decide

/-- Non-vacuity: `[{"b":-5,"a":"é\n"},null,true]` is representable with distinct keys; its encoding and
the decoded (key-sorted) value, by evaluation. -/
example :
    let v : J := .arr (.cons (.obj (.cons [0x62] (.int (-5)) (.cons [0x61] (.str [0xC3, 0xA9, 0x0A]) .nil)))
      (.cons .null (.cons (.bool true) .nil)))
    encode (fun _ => ([], [])) v = some [0x5B, 0x7B, 0x22, 0x62, 0x22, 0x3A, 0x2D, 0x35, 0x2C, 0x22, 0x61, 0x22, 0x3A, 0x22, 0xC3,
      0xA9, 0x5C, 0x6E, 0x22, 0x7D, 0x2C, 0x6E, 0x75, 0x6C, 0x6C, 0x2C, 0x74, 0x72, 0x75, 0x65, 0x5D] ∧
    canon v = .arr (.cons (.obj (.cons [0x61] (.str [0xC3, 0xA9, 0x0A]) (.cons [0x62] (.int (-5)) .nil)))
      (.cons .null (.cons (.bool true) .nil))) := by decide

example : Rep (.obj (.cons [0x62] (.int (-5)) (.cons [0x61] (.str [0xC3, 0xA9, 0x0A]) .nil))) ∧
    DK (.obj (.cons [0x62] (.int (-5)) (.cons [0x61] (.str [0xC3, 0xA9, 0x0A]) .nil))) := by
  refine ⟨⟨⟨[0x62], by decide, by decide⟩, ⟨by decide, by decide⟩, ⟨[0x61], by decide, by decide⟩, ⟨[0xE9, 0x0A], by decide, by decide⟩, trivial⟩, ?_⟩
  simp [DK, DKMems, keysOf]

end Tengo.Props.C18

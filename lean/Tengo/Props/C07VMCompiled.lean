import Tengo.Props.C07VM
import Tengo.Proofs.C07VMCompiled
/-!
C07 on the whole-VM model, for programs COMPILED from source and started from the VM's initial configuration.

`Props/C07VM` proves `for_loop_*` / `tail_rec_*` about hand-assembled bytecode started from hand-built
configurations inside the loop. Here the same is proved for what the compiler model `Compiler.compileFile`
(tied byte for byte to compiler.go by the `comp` stream) emits for the two sources

* `for {}`                              (`forSrc`)
* `f := func() { return f() }; f()`     (`tailSrc`)

loaded the way the driver lines `vm` / `runabort` load compiled bytecode (`loaded bc = initFobjs (toCode bc)`:
the code object and the function objects of the CONST-loaded function constants) and started from
`VM.initCore` — the 2048-slot stack, `ip = -1`, one frame — with ANY globals array that has the slots the
compiler asks for (`bc.maxGlobals`), any heap, any allocation budget:

* `compiled_for_loop_never_ends`, `compiled_tail_rec_never_ends` — `VM.run` is still going for every fuel;
* `compiled_for_loop_aborts`, `compiled_tail_rec_aborts` — `runAbort (some k)` ends `aborted` after exactly `k`
  dispatches, for every `k`, in the configuration `VM.run` has after `k` dispatches (for the second program the
  first four dispatches are main's `CONST 0; SETG 0; GETG 0; CALL 0 0`, then the self tail call loops);
* `vm_compiled_for_loop_cancellable`, `vm_compiled_tail_rec_cancellable` — through the RunContext protocol model.

The tie of these very objects to the real code: the `runabort` stream of harness/cmd/c07 runs `runAbort (some k)`
of the model on the bytecode the REAL compiler emits for these sources (programs `for-forever`,
`self-tail-recursion…`) and compares it with the real VM aborted at dispatch `k`, for every `k ≤ 48` and sampled
larger ones.
-/
namespace Tengo.Props.C07VMCompiled
open Tengo.Model Tengo.Model.VM Tengo.Model.Spec Tengo.Model.VMAbort Tengo.Model.Conc Tengo.Proofs.Conc
open Tengo.Model.Compiler (compileFile Bytecode')
open Tengo.Proofs.C07VMLoops Tengo.Proofs.C07VMCompiled Tengo.Props.C07VM

/-- The configuration `VM.Run` starts a compiled program from: `initCore` over the given globals and the
function objects of the loaded program. -/
def startCfg (bc : Bytecode') (globals : Array Value) (g : GSt) (h : St) : Cfg :=
  ⟨initCore globals (loaded bc).2, g, h⟩

/-- **`for {}`, compiled from source, started from `initCore`, never ends** under `VM.run` — for any fuel,
globals, heap and allocation budget. -/
theorem compiled_for_loop_never_ends (bc : Bytecode') (hbc : compileFile forSrc [] = .ok bc)
    (globals : Array Value) (allocs : Int) (g : GSt) (h : St) :
    NeverEnds (loaded bc).1 allocs (startCfg bc globals g h) := by
  have hb : bc = forBc := by
    have := for_compiles
    rw [hbc] at this
    exact Except.ok.inj this
  subst hb
  unfold startCfg
  rw [for_loaded]
  exact cyclic_run_never_ends forCode 1 (by decide) allocs _ (forC_cycle globals #[] allocs g h)

/-- **… and the abort flag stops it after exactly `k` dispatches**, for every `k`: the loop ends `aborted` in
the configuration `VM.run` has after `k` dispatches. -/
theorem compiled_for_loop_aborts (bc : Bytecode') (hbc : compileFile forSrc [] = .ok bc)
    (globals : Array Value) (allocs : Int) (g : GSt) (h : St) (keep k fuel : Nat) (hk : k ≤ fuel) (log : Log) :
    ∃ c l, runAbort (loaded bc).1 keep (some k) fuel allocs (startCfg bc globals g h) log = (.aborted c, l) ∧
      l.steps = log.steps + k ∧
      (run (loaded bc).1 keep k allocs (startCfg bc globals g h) log).1 = .outOfFuel c := by
  obtain ⟨c, h1, h2, h3⟩ := never_ending_run_cancellable _ allocs _
    (compiled_for_loop_never_ends bc hbc globals allocs g h) keep k fuel hk log
  exact ⟨c, _, h1, by rw [h1] at h2; exact h2, h3⟩

/-- **Unbounded self tail recursion, compiled from source, started from `initCore`, never ends** under
`VM.run` (the frame-reusing `continue` path of OpCall) — for any fuel, any globals array with the one slot the
compiler asks for, any heap and allocation budget. -/
theorem compiled_tail_rec_never_ends (bc : Bytecode') (hbc : compileFile tailSrc [] = .ok bc)
    (globals : Array Value) (hg : bc.maxGlobals ≤ globals.size) (allocs : Int) (g : GSt) (h : St) :
    NeverEnds (loaded bc).1 allocs (startCfg bc globals g h) := by
  have hb : bc = tailBc := by
    have := tail_compiles
    rw [hbc] at this
    exact Except.ok.inj this
  subst hb
  unfold startCfg
  rw [tail_loaded]
  exact tailC_never_ends globals hg allocs g h

/-- **… and does not evade the poll either.** -/
theorem compiled_tail_rec_aborts (bc : Bytecode') (hbc : compileFile tailSrc [] = .ok bc)
    (globals : Array Value) (hg : bc.maxGlobals ≤ globals.size) (allocs : Int) (g : GSt) (h : St)
    (keep k fuel : Nat) (hk : k ≤ fuel) (log : Log) :
    ∃ c l, runAbort (loaded bc).1 keep (some k) fuel allocs (startCfg bc globals g h) log = (.aborted c, l) ∧
      l.steps = log.steps + k ∧
      (run (loaded bc).1 keep k allocs (startCfg bc globals g h) log).1 = .outOfFuel c := by
  obtain ⟨c, h1, h2, h3⟩ := never_ending_run_cancellable _ allocs _
    (compiled_tail_rec_never_ends bc hbc globals hg allocs g h) keep k fuel hk log
  exact ⟨c, _, h1, by rw [h1] at h2; exact h2, h3⟩

/-- compiled `for {}` through RunContext: once the context is cancelled every fair schedule returns
`ctx.Err()`, at most one dispatch after `Abort`. -/
theorem vm_compiled_for_loop_cancellable (bc : Bytecode') (hbc : compileFile forSrc [] = .ok bc)
    (globals : Array Value) (allocs : Int) (g : GSt) (h : St) (pre : Bool) (s : State)
    (hr : Reach (behOf (loaded bc).1 allocs (startCfg bc globals g h)) pre s) (hc : s.cancelled = true)
    (σ : Nat → Choice) (hf : C07.Fair σ) :
    ∃ n, (Conc.run (behOf (loaded bc).1 allocs (startCfg bc globals g h)) σ s n).cpc = .returned .ctxErr ∧
      (Conc.run (behOf (loaded bc).1 allocs (startCfg bc globals g h)) σ s n).instrAfterAbort ≤ 1 :=
  vm_inf_cancellable _ _ _ (compiled_for_loop_never_ends bc hbc globals allocs g h) pre s hr hc σ hf

/-- compiled unbounded self tail recursion through RunContext. -/
theorem vm_compiled_tail_rec_cancellable (bc : Bytecode') (hbc : compileFile tailSrc [] = .ok bc)
    (globals : Array Value) (hg : bc.maxGlobals ≤ globals.size) (allocs : Int) (g : GSt) (h : St)
    (pre : Bool) (s : State)
    (hr : Reach (behOf (loaded bc).1 allocs (startCfg bc globals g h)) pre s) (hc : s.cancelled = true)
    (σ : Nat → Choice) (hf : C07.Fair σ) :
    ∃ n, (Conc.run (behOf (loaded bc).1 allocs (startCfg bc globals g h)) σ s n).cpc = .returned .ctxErr ∧
      (Conc.run (behOf (loaded bc).1 allocs (startCfg bc globals g h)) σ s n).instrAfterAbort ≤ 1 :=
  vm_inf_cancellable _ _ _ (compiled_tail_rec_never_ends bc hbc globals hg allocs g h) pre s hr hc σ hf

/-! ### Non-vacuity -/

/-- The compile hypotheses hold: the compiler model emits `JMP 0; SUSPEND` for `for {}` … -/
example : compileFile forSrc [] = .ok ⟨[12, 0, 0, 0, 0, 41], [], 0⟩ := for_compiles

/-- … and `CONST 0; SETG 0; GETG 0; CALL 0 0; POP; SUSPEND` with the function constant `GETG 0; CALL 0 0; RET 1`
(one global) for the self-recursive function. -/
example : compileFile tailSrc [] =
    .ok ⟨[0, 0, 0, 23, 0, 0, 22, 0, 0, 20, 0, 0, 2, 41], [.fn [22, 0, 0, 20, 0, 0, 21, 1] 0 0 false], 1⟩ :=
  tail_compiles

/-- The globals hypothesis: one undefined slot is enough (the harness and `Script.Compile` give 1024 / `MaxSymbols`). -/
example : tailBc.maxGlobals ≤ (#[Value.undef] : Array Value).size := by decide

/-- `compiled_tail_rec_aborts` instantiated: aborted after 100 dispatches, from `initCore` over `#[undefined]`. -/
example (a : Int) (g : GSt) (h : St) :
    ∃ c l, runAbort (loaded tailBc).1 0 (some 100) 100 a (startCfg tailBc #[.undef] g h) {} = (.aborted c, l) ∧
      l.steps = 100 := by
  obtain ⟨c, l, h1, h2, _⟩ := compiled_tail_rec_aborts tailBc tail_compiles #[.undef] (by decide) a g h 0 100 100
    (Nat.le_refl _) {}
  exact ⟨c, l, h1, by simpa using h2⟩

/-- `compiled_for_loop_aborts` instantiated with no globals at all. -/
example (a : Int) (g : GSt) (h : St) :
    ∃ c l, runAbort (loaded forBc).1 0 (some 7) 9 a (startCfg forBc #[] g h) {} = (.aborted c, l) ∧ l.steps = 7 := by
  obtain ⟨c, l, h1, h2, _⟩ := compiled_for_loop_aborts forBc for_compiles #[] a g h 0 7 9 (by decide) {}
  exact ⟨c, l, h1, by simpa using h2⟩

/-- The protocol hypotheses of `vm_compiled_for_loop_cancellable` are reachable: the state of `C07VM.exAbortPoint`
(cancelled while instruction 0 is dispatched, runner at the loop head with the flag set) on the behaviour of the
compiled `for {}`. -/
example (a : Int) (g : GSt) (h : St) :
    Reach (behOf (loaded forBc).1 a (startCfg forBc #[] g h)) false exAbortPoint ∧ exAbortPoint.cancelled = true := by
  rw [neverEnds_beh _ _ _ (compiled_for_loop_never_ends forBc for_compiles #[] a g h)]
  exact ⟨runList_reach _ Reach.init, by decide⟩

end Tengo.Props.C07VMCompiled

import Tengo.Props.C05
import Tengo.Props.C07VM
/-!
C05 on the WHOLE-VM model: the protocol theorems of `Props/C05` instantiated with the behaviour `behOf` of a
configuration of `Tengo.Model.VM` (`Model/VMAbort.lean`), so that WHICH OUTCOME CLASS a dispatch has
(`ok | err | goPanic | fatal`) is derived from `VM.exec`'s outcome instead of being a free parameter.

The classes (`VMAbort.classify`): SUSPEND → ok; `v.err` (run-time error, allocation limit; unknown opcode,
CLOSURE on a non-function) → err; a Go run-time panic (`Err.gopanic`: index out of range incl. the 2048-slot
stack, failed type assertion, …; the other internal faults) → goPanic, which `recover` turns into an error;
exhausted bounded native recursion of the value model (`Err.fuel`) → fatal; cases outside the modelled language
(`unsupported`, `excluded`) → err, nothing being claimed about the real code for them.

That NOTHING ELSE is fatal is a property of the MODEL's outcome type (`vm_crash_only_by_native_depth`). The real
code's counterexample to "no script can take the host down" is known finding O9 (`a := [0]; a[0] = a; a == a`:
native recursion on a cyclic value exhausts the Go stack); its image on the model is `cycCode`/`cycCfg`, whose
single dispatch is classed fatal (`vm_fatal_witness`), so `C05_full` is false for the behaviours of the whole-VM
model too (`vm_C05_full_false`). Go-runtime fatal conditions the model does not have (out of memory, concurrent
map access from host callables) remain outside.
-/
namespace Tengo.Props.C05VM
open Tengo.Model Tengo.Model.VM Tengo.Model.Spec Tengo.Model.VMAbort Tengo.Model.Conc Tengo.Proofs.Conc
open Tengo.Proofs.C07VMLoops Tengo.Props.C07VM

/-- **RunContext returns, on the whole-VM model.** For every VM configuration none of whose dispatches exhausts
the bounded native recursion, and every fair schedule in which `VM.run` ends by itself (some fuel) or the context
is eventually cancelled: the call returns nil or an error, lock released, one send, one receive, goroutine
finished. -/
theorem vm_runContext_returns (code : Code) (keep : Nat) (allocs : Int) (cfg : Cfg) (log : Log)
    (hnd : NoNativeDepthExhaustion code allocs cfg) (pre : Bool) (σ : Nat → Choice) (hf : C05.Fair σ)
    (hend : (∃ fuel, ∀ c, (VM.run code keep fuel allocs cfg log).1 ≠ .outOfFuel c) ∨
            ∃ n0, (Conc.run (behOf code allocs cfg) σ (init pre) n0).cancelled = true) :
    ∃ n r, (Conc.run (behOf code allocs cfg) σ (init pre) n).cpc = .returned r ∧ C05.IsNilOrError r ∧
      (Conc.run (behOf code allocs cfg) σ (init pre) n).lockHeld = false ∧
      (Conc.run (behOf code allocs cfg) σ (init pre) n).sends = 1 ∧
      (Conc.run (behOf code allocs cfg) σ (init pre) n).recvs = 1 ∧
      (Conc.run (behOf code allocs cfg) σ (init pre) n).chan = none ∧
      (Conc.run (behOf code allocs cfg) σ (init pre) n).rpc = .done := by
  apply C05.runContext_returns _ pre σ (vm_no_fatal code allocs cfg hnd) hf
  rcases hend with h | h
  · exact Or.inl ((terminates_iff code keep allocs cfg log).mpr h)
  · exact Or.inr h

/-- **A Go panic raised by a dispatch of the VM model is delivered as an error value** (uncancelled run). -/
theorem vm_goPanic_becomes_error (code : Code) (keep fuel : Nat) (allocs : Int) (cfg : Cfg) (log : Log)
    (hnd : NoNativeDepthExhaustion code allocs cfg) (msg : String) (at_ : Cfg)
    (hp : (VM.run code keep fuel allocs cfg log).1 = .failed (.gopanic msg) at_)
    (σ : Nat → Choice) (hf : C05.Fair σ) (hnever : ∀ n, σ n ≠ .cancel) :
    ∃ n, (Conc.run (behOf code allocs cfg) σ (init false) n).cpc = .returned (.res .panicErr) := by
  have hend : ∀ c, (VM.run code keep fuel allocs cfg log).1 ≠ .outOfFuel c := by rw [hp]; simp
  obtain ⟨i, _, hfin⟩ := finishesAt_of_run code keep fuel allocs cfg log hend
  rw [hp] at hfin
  exact C05.goPanic_becomes_error _ i hfin (vm_no_fatal code allocs cfg hnd) σ hf hnever

/-- A run-time error of the VM model (`v.err`) is returned as the run's error (uncancelled run). -/
theorem vm_runtime_error_returned (code : Code) (keep fuel : Nat) (allocs : Int) (cfg : Cfg) (log : Log)
    (hnd : NoNativeDepthExhaustion code allocs cfg) (msg : String) (at_ : Cfg)
    (hp : (VM.run code keep fuel allocs cfg log).1 = .failed (.runtime msg) at_)
    (σ : Nat → Choice) (hf : C05.Fair σ) (hnever : ∀ n, σ n ≠ .cancel) :
    ∃ n, (Conc.run (behOf code allocs cfg) σ (init false) n).cpc = .returned (.res .runErr) := by
  have hend : ∀ c, (VM.run code keep fuel allocs cfg log).1 ≠ .outOfFuel c := by rw [hp]; simp
  have h := vm_rc_uncancelled_result code keep fuel allocs cfg log hnd hend σ hf hnever
  rw [hp] at h
  exact h

/-- **Host survives (partial: needs `NoNativeDepthExhaustion`).** No schedule loses the process. -/
theorem vm_host_survives_partial (code : Code) (allocs : Int) (cfg : Cfg)
    (hnd : NoNativeDepthExhaustion code allocs cfg) (pre : Bool) (s : State)
    (hr : Reach (behOf code allocs cfg) pre s) : s.rpc ≠ .crashed :=
  C05.host_survives_partial _ pre s (vm_no_fatal code allocs cfg hnd) hr

/-- **The only way the whole-VM model loses the process**: some dispatch fails with the exhausted native
recursion of the value model. A property of the model's outcome type (see the header). -/
theorem vm_crash_only_by_native_depth (code : Code) (keep : Nat) (allocs : Int) (cfg : Cfg) (log : Log) (pre : Bool)
    (s : State) (hr : Reach (behOf code allocs cfg) pre s) (hc : s.rpc = .crashed) :
    ∃ fuel at_, (VM.run code keep fuel allocs cfg log).1 = .failed .fuel at_ :=
  (reachesFatal_iff code keep allocs cfg log).mp (C07.crashed_only_fatal _ pre s hr hc)

/-- **The compiled object stays usable** after a call on the whole-VM model returned. -/
theorem vm_compiled_reusable (code : Code) (allocs : Int) (cfg : Cfg) (pre : Bool) (s : State)
    (hr : Reach (behOf code allocs cfg) pre s) (r : Ret) (hret : s.cpc = .returned r) (pre' : Bool) :
    s.lockHeld = false ∧ s.rpc = .done ∧ s.chan = none ∧ nextCall s pre' = init pre' :=
  C05.compiled_reusable _ pre s hr r hret pre'

/-- The image of O9 on the whole-VM model reaches the fatal class … -/
theorem vm_fatal_witness (a : Int) : ReachesFatal (behOf cycCode a cycCfg) :=
  (reachesFatal_iff cycCode 0 a cycCfg {}).mpr ⟨1, cycCfg, cyc_run 0 a {}⟩

/-- … so the process can be lost with the caller inside `RunContext` holding the lock … -/
theorem vm_fatal_takes_host_down (a : Int) :
    ∃ s, Reach (behOf cycCode a cycCfg) false s ∧ s.rpc = .crashed ∧ Terminal (behOf cycCode a cycCfg) s ∧
      s.cpc = .waiting ∧ s.lockHeld = true :=
  C05.fatal_takes_host_down _ (vm_fatal_witness a)

/-- The behaviours of the whole-VM model. -/
def VMBehaviour (b : Beh) : Prop := ∃ code allocs cfg, b = behOf code allocs cfg

/-- … and `C05_full` is false for the behaviours of the whole-VM model. -/
theorem vm_C05_full_false : ¬ C05.C05_full VMBehaviour :=
  C05.C05_full_false_of_witness VMBehaviour _ ⟨cycCode, 0, cycCfg, rfl⟩ (vm_fatal_witness 0)

/-! ### Non-vacuity -/

theorem panic_noNativeDepth (a : Int) : NoNativeDepthExhaustion panicCode a okStart := by
  intro fuel at_ h
  have hend : ∀ c, (VM.run panicCode 0 2 a okStart {}).1 ≠ .outOfFuel c := by rw [panic_run 0 a {}]; simp
  rcases Nat.lt_or_ge fuel 2 with hlt | hge
  · by_cases hk : ∀ c, (VM.run panicCode 0 fuel a okStart {}).1 ≠ .outOfFuel c
    · rw [← run_ended_ge panicCode 0 (show fuel ≤ 2 by omega) a okStart {} hk, panic_run 0 a {}] at h
      cases h
    · apply hk
      intro c hc
      rw [hc] at h
      cases h
  · rw [run_ended_ge panicCode 0 hge a okStart {} hend, panic_run 0 a {}] at h
    cases h

theorem rt_noNativeDepth (a : Int) : NoNativeDepthExhaustion rtCode a okStart := by
  intro fuel at_ h
  have hend : ∀ c, (VM.run rtCode 0 2 a okStart {}).1 ≠ .outOfFuel c := by rw [rt_run 0 a {}]; simp
  rcases Nat.lt_or_ge fuel 2 with hlt | hge
  · by_cases hk : ∀ c, (VM.run rtCode 0 fuel a okStart {}).1 ≠ .outOfFuel c
    · rw [← run_ended_ge rtCode 0 (show fuel ≤ 2 by omega) a okStart {} hk, rt_run 0 a {}] at h
      cases h
    · apply hk
      intro c hc
      rw [hc] at h
      cases h
  · rw [run_ended_ge rtCode 0 hge a okStart {} hend, rt_run 0 a {}] at h
    cases h

/-- vm_goPanic_becomes_error: `TRUE; ITERNEXT` panics at its second dispatch; RunContext returns an error. -/
example (a : Int) : ∃ n, (Conc.run (behOf panicCode a okStart) C05.noCancel (init false) n).cpc = .returned (.res .panicErr) :=
  vm_goPanic_becomes_error panicCode 0 2 a okStart {} (panic_noNativeDepth a) _ _ (panic_run 0 a {})
    C05.noCancel C05.noCancel_fair.1 C05.noCancel_fair.2

/-- vm_runtime_error_returned: `-true`. -/
example (a : Int) : ∃ n, (Conc.run (behOf rtCode a okStart) C05.noCancel (init false) n).cpc = .returned (.res .runErr) :=
  vm_runtime_error_returned rtCode 0 2 a okStart {} (rt_noNativeDepth a) _ _ (rt_run 0 a {})
    C05.noCancel C05.noCancel_fair.1 C05.noCancel_fair.2

/-- vm_runContext_returns: a terminating run (left disjunct) … -/
example (a : Int) : ∃ n r, (Conc.run (behOf okCode a okStart) C05.noCancel (init false) n).cpc = .returned r ∧
    C05.IsNilOrError r :=
  let ⟨n, r, h, hr, _⟩ := vm_runContext_returns okCode 0 a okStart {} (ok_noNativeDepth a) false C05.noCancel
    C05.noCancel_fair.1 (Or.inl ⟨3, by rw [(ok_run 0 a {}).1]; simp⟩)
  ⟨n, r, h, hr⟩

/-- … and a never-ending run whose context is cancelled (right disjunct): `for {}` under round-robin. -/
example (a : Int) (g : GSt) (h : St) :
    ∃ n r, (Conc.run (behOf forCode a (forCfg g h)) C07.roundRobin (init false) n).cpc = .returned r ∧
      C05.IsNilOrError r :=
  let ⟨n, r, hh, hr, _⟩ := vm_runContext_returns forCode 0 a (forCfg g h) {}
    (neverEnds_noNativeDepth _ _ _ (for_loop_never_ends a g h)) false C07.roundRobin C07.roundRobin_fair
    (Or.inr ⟨3, by rw [neverEnds_beh _ _ _ (for_loop_never_ends a g h)]; decide⟩)
  ⟨n, r, hh, hr⟩

/-- vm_crash_only_by_native_depth / vm_fatal_takes_host_down: the crashed state exists for the O9 image. -/
example : ∃ s, Reach (behOf cycCode 0 cycCfg) false s ∧ s.rpc = .crashed :=
  let ⟨s, h1, h2, _⟩ := vm_fatal_takes_host_down 0
  ⟨s, h1, h2⟩

end Tengo.Props.C05VM

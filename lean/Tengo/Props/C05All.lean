import Tengo.Props.C05
import Tengo.Props.C05VM
import Tengo.Props.C05Acyclic
import Tengo.Props.C05Faults
/-! C05: the protocol theorems over `Model/Conc` (`C05`) and their instantiation with the behaviour of a
configuration of the whole-VM model, whose outcome classes are derived from `VM.exec` (`C05VM`), and
`no_fatal_acyclic`: no fatal class on values/stacks of bounded nesting depth (`C05Acyclic`), and the run-time fault-site inventory with
its cover and classification (`C05Faults`) — as one module for the checker. -/

import Tengo.Props.C05
import Tengo.Props.C05VM
/-! C05: the protocol theorems over `Model/Conc` (`C05`) and their instantiation with the behaviour of a
configuration of the whole-VM model, whose outcome classes are derived from `VM.exec` (`C05VM`) — as one module
for the checker. -/

import Tengo.Model.Value
import Tengo.Gen.BinaryOpArms
/-!
C10 — Value equality, ordering, truthiness, copy and conversion obey their laws.

Theorems about `Tengo.Model.Value` for ALL values (unbounded nesting, structural induction). The
model is tied to objects.go / tengo.go / builtins.go by the exhaustive pair correspondence of
`harness/cmd/c10` and by the regenerated `BinaryOp` arm inventory.
-/
namespace Tengo.Props.C10
open Tengo.Model.Val
open Tengo.Model.Val.F64 (cmpInt)

/-! ### the regenerated tables -/

theorem binop_arms_match : Tengo.Gen.BinaryOpArms.arms = Tengo.Model.Val.binaryOpArms := by decide
theorem method_overrides_match : Tengo.Gen.BinaryOpArms.overrides = Tengo.Model.Val.methodOverrides := by decide

/-! ### orderings -/

theorem cmpInt_swap (x y : Int) : cmpInt y x = (cmpInt x y).swap := by
  unfold cmpInt
  rcases Int.lt_trichotomy x y with h | h | h
  · have h1 : ¬ y < x := by omega
    have h2 : ¬ y = x := by omega
    simp [h, h1, h2, Ordering.swap]
  · subst h; simp [Ordering.swap]
  · have h1 : ¬ x < y := by omega
    have h2 : ¬ x = y := by omega
    simp [h, h1, h2, Ordering.swap]

theorem cmpInt_eq_iff (x y : Int) : cmpInt x y = .eq ↔ x = y := by
  unfold cmpInt
  rcases Int.lt_trichotomy x y with h | h | h
  · have h2 : ¬ x = y := by omega
    simp [h, h2]
  · subst h; simp
  · have h1 : ¬ x < y := by omega
    have h2 : ¬ x = y := by omega
    simp [h1, h2]

theorem cmpBytes_swap : ∀ s t : Bytes, cmpBytes t s = (cmpBytes s t).swap
  | [], [] => rfl
  | [], _ :: _ => rfl
  | _ :: _, [] => rfl
  | a :: as, b :: bs => by
    simp only [cmpBytes]
    rw [cmpInt_swap (a.toNat : Int) b.toNat]
    cases h : cmpInt (a.toNat : Int) b.toNat <;> simp [Ordering.swap, cmpBytes_swap as bs]

theorem cmpBytes_eq_iff : ∀ s t : Bytes, cmpBytes s t = .eq ↔ s = t
  | [], [] => by simp [cmpBytes]
  | [], _ :: _ => by simp [cmpBytes]
  | _ :: _, [] => by simp [cmpBytes]
  | a :: as, b :: bs => by
    simp only [cmpBytes]
    by_cases hab : a = b
    · subst hab
      have h : cmpInt (a.toNat : Int) a.toNat = .eq := (cmpInt_eq_iff _ _).mpr rfl
      simp [h, cmpBytes_eq_iff as bs]
    · have hne : cmpInt (a.toNat : Int) b.toNat ≠ .eq := fun h =>
        hab (UInt8.toNat_inj.mp (by have := (cmpInt_eq_iff _ _).mp h; omega))
      cases h : cmpInt (a.toNat : Int) b.toNat <;> simp_all

def optSwap : Option Ordering → Option Ordering
  | none => none
  | some o => some o.swap

theorem f64cmp_swap (a b : BitVec 64) : F64.cmp b a = optSwap (F64.cmp a b) := by
  unfold F64.cmp
  cases F64.isNaN a <;> cases F64.isNaN b <;> simp [optSwap, cmpInt_swap (F64.key a) (F64.key b)]

def Ord3.swap : Ord3 → Ord3
  | .invalid => .invalid
  | .unordered => .unordered
  | .ord o => .ord o.swap

theorem ofFloat_swap (x : Option Ordering) : Ord3.ofFloat (optSwap x) = Ord3.swap (Ord3.ofFloat x) := by
  cases x <;> rfl

theorem ordOf_swap (a b : Value) : ordOf b a = Ord3.swap (ordOf a b) := by
  cases a <;> cases b <;> simp only [ordOf] <;>
    first
      | rfl
      | (rw [cmpInt_swap]; rfl)
      | (rw [cmpBytes_swap]; rfl)
      | (rw [f64cmp_swap, ofFloat_swap])

theorem holds_swap (o : Ordering) :
    CmpOp.holds .gt o.swap = CmpOp.holds .lt o ∧ CmpOp.holds .ge o.swap = CmpOp.holds .le o := by
  cases o <;> simp [CmpOp.holds, Ordering.swap]

/-- `a < b` is exactly `b > a` — the same boolean, or an invalid-operator error on both sides. -/
theorem lt_gt_dual (a b : Value) : binaryCmp .lt a b = binaryCmp .gt b a := by
  unfold binaryCmp
  rw [ordOf_swap a b]
  cases ordOf a b <;> simp [Ord3.swap, Ord3.result, (holds_swap _).1]

/-- `a <= b` is exactly `b >= a`. -/
theorem le_ge_dual (a b : Value) : binaryCmp .le a b = binaryCmp .ge b a := by
  unfold binaryCmp
  rw [ordOf_swap a b]
  cases ordOf a b <;> simp [Ord3.swap, Ord3.result, (holds_swap _).2]

/-- error ↔ error in particular -/
theorem invalid_dual (op op' : CmpOp) (a b : Value) : binaryCmp op a b = none ↔ binaryCmp op' b a = none := by
  unfold binaryCmp
  rw [ordOf_swap a b]
  cases ordOf a b <;> simp [Ord3.swap, Ord3.result]

example : binaryCmp .lt (.int 3#64) (.char 100#32) = some true ∧ binaryCmp .gt (.char 100#32) (.int 3#64) = some true := by decide
example : binaryCmp .lt (.str [1]) (.int 3#64) = none ∧ binaryCmp .gt (.int 3#64) (.str [1]) = none := by decide

/-! ### == is symmetric, != is its negation -/

theorem f64eq_symm (a b : BitVec 64) : F64.eq a b = F64.eq b a := by
  unfold F64.eq
  rw [f64cmp_swap a b]
  cases h : F64.cmp a b with
  | none => rfl
  | some o => cases o <;> rfl

theorem isNil_eqList_nil : ∀ ys : VList, ys.isNil = eqList ys .nil
  | .nil => by simp [VList.isNil, eqList]
  | .cons _ _ => by simp [VList.isNil, eqList]

theorem isNil_eqMap_nil : ∀ fs : VMap, fs.isNil = eqMap fs .nil
  | .nil => by simp [VMap.isNil, eqMap]
  | .cons _ _ _ => by simp [VMap.isNil, eqMap]

theorem errEq_symm (i j : Nat) : (i == j && i != 0) = (j == i && j != 0) := by
  by_cases h : i = j
  · subst h; rfl
  · have h' : ¬ j = i := fun e => h e.symm
    rw [beq_eq_false_iff_ne.mpr h, beq_eq_false_iff_ne.mpr h']; rfl

/-- closes the scalar cases of `eq_symm` -/
local macro "eq_scalar" : tactic =>
  `(tactic| first
    | rfl
    | exact BEq.comm
    | exact f64eq_symm _ _
    | exact errEq_symm _ _)

mutual
  /-- `==` is symmetric, for all values. -/
  theorem eq_symm : ∀ a b : Value, equals a b = equals b a
    | .arr xs, b => by cases b <;> simp only [equals] <;> first | rfl | exact eqList_symm xs _
    | .imarr xs, b => by cases b <;> simp only [equals] <;> first | rfl | exact eqList_symm xs _
    | .map es, b => by cases b <;> simp only [equals] <;> first | rfl | exact eqMap_symm es _
    | .immap es, b => by cases b <;> simp only [equals] <;> first | rfl | exact eqMap_symm es _
    | .undef, b => by cases b <;> simp only [equals]
    | .bool _, b => by cases b <;> simp only [equals] <;> eq_scalar
    | .int _, b => by cases b <;> simp only [equals] <;> eq_scalar
    | .float _, b => by cases b <;> simp only [equals] <;> eq_scalar
    | .char _, b => by cases b <;> simp only [equals] <;> eq_scalar
    | .str _, b => by cases b <;> simp only [equals] <;> eq_scalar
    | .bytes _, b => by cases b <;> simp only [equals] <;> eq_scalar
    | .err _ _, b => by cases b <;> simp only [equals] <;> eq_scalar
    | .time _, b => by cases b <;> simp only [equals] <;> eq_scalar
    | .fn, b => by cases b <;> simp only [equals]
    | .builtin _, b => by cases b <;> simp only [equals]
    | .userfn, b => by cases b <;> simp only [equals]
  theorem eqList_symm : ∀ xs ys : VList, eqList xs ys = eqList ys xs
    | .nil, ys => by simp only [eqList, isNil_eqList_nil]
    | .cons x xs, .nil => by simp only [eqList, VList.isNil]
    | .cons x xs, .cons y ys => by simp only [eqList, eq_symm x y, eqList_symm xs ys]
  theorem eqMap_symm : ∀ xs ys : VMap, eqMap xs ys = eqMap ys xs
    | .nil, ys => by simp only [eqMap, isNil_eqMap_nil]
    | .cons _ _ _, .nil => by simp only [eqMap, VMap.isNil]
    | .cons k x xs, .cons k' y ys => by
      simp only [eqMap, eq_symm x y, eqMap_symm xs ys, BEq.comm (a := k)]
end

/-- vm.go: `!=` pushes the negation of what `==` pushes. -/
theorem ne_is_not_eq (a b : Value) : opNotEqual a b = !opEqual a b := by
  unfold opNotEqual opEqual; cases equals a b <;> rfl

theorem opEqual_symm (a b : Value) : opEqual a b = opEqual b a := by
  unfold opEqual; rw [eq_symm]

example : opEqual (.arr (.cons (.int 1#64) .nil)) (.imarr (.cons (.float (F64.ofInt 1)) .nil)) = true := by decide

/-! ### float64(int64) is never NaN -/

theorem ofNatMag_le (m : Nat) (h0 : 0 < m) (h1 : m ≤ 2 ^ 63) : F64.ofNatMag m ≤ 1087 * 2 ^ 52 := by
  have hm : m ≠ 0 := by omega
  have he : m.log2 < 64 := (Nat.log2_lt hm).mpr (by omega)
  have hlt : m < 2 ^ (m.log2 + 1) := Nat.lt_log2_self
  unfold F64.ofNatMag
  simp only
  split
  · rename_i hle
    have h2 : m * 2 ^ (52 - m.log2) < 2 ^ (m.log2 + 1) * 2 ^ (52 - m.log2) :=
      Nat.mul_lt_mul_of_lt_of_le hlt (Nat.le_refl _) (Nat.two_pow_pos _)
    rw [← Nat.pow_add] at h2
    have h3 : m.log2 + 1 + (52 - m.log2) = 53 := by omega
    rw [h3] at h2
    have h4 : (m.log2 + 1022) * 2 ^ 52 ≤ 1074 * 2 ^ 52 := Nat.mul_le_mul_right _ (by omega)
    have key : ∀ B A : Nat, B ≤ 1074 * 2 ^ 52 → A < 2 ^ 53 → B + A ≤ 1087 * 2 ^ 52 := by
      intro B A hB hA; omega
    exact key _ _ h4 h2
  · rename_i hgt
    have hq : m / 2 ^ (m.log2 - 52) < 2 ^ 53 := by
      rw [Nat.div_lt_iff_lt_mul (Nat.two_pow_pos _), ← Nat.pow_add]
      have h3 : 53 + (m.log2 - 52) = m.log2 + 1 := by omega
      rw [h3]; exact hlt
    have h4 : (m.log2 + 1022) * 2 ^ 52 ≤ 1085 * 2 ^ 52 := Nat.mul_le_mul_right _ (by omega)
    have key : ∀ B Q : Nat, B ≤ 1085 * 2 ^ 52 → Q < 2 ^ 53 →
        B + (Q + 1) ≤ 1087 * 2 ^ 52 ∧ B + Q ≤ 1087 * 2 ^ 52 := by
      intro B Q hB hQ; omega
    split
    · exact (key _ _ h4 hq).1
    · exact (key _ _ h4 hq).2

/-- `float64(n)` of an int64 is never NaN. -/
theorem ofInt_not_nan (x : BitVec 64) : F64.isNaN (F64.ofInt x.toInt) = false := by
  have hlo := BitVec.le_toInt x
  have hhi := @BitVec.toInt_lt 64 x
  unfold F64.ofInt
  split
  · decide
  · split
    · rename_i h0 hpos
      have hb := ofNatMag_le x.toInt.toNat (by omega) (by omega)
      simp only [F64.isNaN, F64.magOf, F64.infMag, BitVec.toNat_ofNat, decide_eq_false_iff_not]
      omega
    · rename_i h0 hpos
      have hb := ofNatMag_le (-x.toInt).toNat (by omega) (by omega)
      simp only [F64.isNaN, F64.magOf, F64.infMag, BitVec.toNat_ofNat, decide_eq_false_iff_not]
      omega

/-! ### trichotomy -/

/-- two values of the same ordered type: int, char, string, time, non-NaN float -/
def SameOrdered : Value → Value → Prop
  | .int _, .int _ => True
  | .char _, .char _ => True
  | .str _, .str _ => True
  | .time _, .time _ => True
  | .float f, .float g => F64.isNaN f = false ∧ F64.isNaN g = false
  | _, _ => False

/-- an int/float pair (either order) whose float is not NaN; the int is taken as a float -/
def IntFloat : Value → Value → Prop
  | .int _, .float f => F64.isNaN f = false
  | .float f, .int _ => F64.isNaN f = false
  | _, _ => False

theorem isEq_cmpInt_bv {w : Nat} (x y : BitVec w) : (x == y) = (cmpInt x.toInt y.toInt).isEq := by
  by_cases h : x = y
  · subst h; simp [(cmpInt_eq_iff x.toInt x.toInt).mpr rfl, Ordering.isEq]
  · have hne : cmpInt x.toInt y.toInt ≠ .eq := fun e => h (BitVec.toInt_inj.mp ((cmpInt_eq_iff _ _).mp e))
    rw [beq_eq_false_iff_ne.mpr h]
    cases hc : cmpInt x.toInt y.toInt <;> simp_all [Ordering.isEq]

theorem isEq_cmpInt (x y : Int) : (x == y) = (cmpInt x y).isEq := by
  by_cases h : x = y
  · subst h; simp [(cmpInt_eq_iff x x).mpr rfl, Ordering.isEq]
  · have hne : cmpInt x y ≠ .eq := fun e => h ((cmpInt_eq_iff _ _).mp e)
    rw [beq_eq_false_iff_ne.mpr h]
    cases hc : cmpInt x y <;> simp_all [Ordering.isEq]

theorem isEq_cmpBytes (s t : Bytes) : (s == t) = (cmpBytes s t).isEq := by
  by_cases h : s = t
  · subst h; simp [(cmpBytes_eq_iff s s).mpr rfl, Ordering.isEq]
  · have hne : cmpBytes s t ≠ .eq := fun e => h ((cmpBytes_eq_iff _ _).mp e)
    rw [beq_eq_false_iff_ne.mpr h]
    cases hc : cmpBytes s t <;> simp_all [Ordering.isEq]

theorem f64_ordered (f g : BitVec 64) (hf : F64.isNaN f = false) (hg : F64.isNaN g = false) :
    ∃ o, Ord3.ofFloat (F64.cmp f g) = .ord o ∧ F64.eq f g = o.isEq := by
  refine ⟨cmpInt (F64.key f) (F64.key g), ?_, ?_⟩
  · simp [F64.cmp, hf, hg, Ord3.ofFloat]
  · simp only [F64.eq, F64.cmp, hf, hg, Bool.or_self, Bool.false_eq_true, if_false]
    cases cmpInt (F64.key f) (F64.key g) <;> rfl

/-- On the pairs the property names the operands are ordered, and `==` says whether the order is `eq`. -/
theorem ordered_pair (a b : Value) (h : SameOrdered a b ∨ IntFloat a b) :
    ∃ o, ordOf a b = .ord o ∧ equals a b = o.isEq := by
  cases a <;> cases b <;> simp only [SameOrdered, IntFloat, or_self, or_false, false_or] at h <;>
    first
      | exact h.elim
      | exact ⟨_, rfl, isEq_cmpInt_bv _ _⟩
      | exact ⟨_, rfl, isEq_cmpInt _ _⟩
      | exact ⟨_, rfl, isEq_cmpBytes _ _⟩
      | exact f64_ordered _ _ h.1 h.2
      | exact f64_ordered _ _ (ofInt_not_nan _) h
      | exact f64_ordered _ _ h (ofInt_not_nan _)

/-- Exactly one of `<`, `==`, `>` holds for two values of the same ordered type and for int/float pairs. -/
theorem trichotomy (a b : Value) (h : SameOrdered a b ∨ IntFloat a b) :
    (binaryCmp .lt a b = some true ∧ equals a b = false ∧ binaryCmp .gt a b = some false) ∨
    (binaryCmp .lt a b = some false ∧ equals a b = true ∧ binaryCmp .gt a b = some false) ∨
    (binaryCmp .lt a b = some false ∧ equals a b = false ∧ binaryCmp .gt a b = some true) := by
  obtain ⟨o, ho, he⟩ := ordered_pair a b h
  unfold binaryCmp
  rw [ho, he]
  cases o <;> simp [Ord3.result, CmpOp.holds, Ordering.isEq]

/-- `<=` means `<` or `==`; `>=` means `>` or `==` (same pairs). -/
theorem le_is_lt_or_eq (a b : Value) (h : SameOrdered a b ∨ IntFloat a b) :
    binaryCmp .le a b = some ((binaryCmp .lt a b).getD false || equals a b) ∧
    binaryCmp .ge a b = some ((binaryCmp .gt a b).getD false || equals a b) := by
  obtain ⟨o, ho, he⟩ := ordered_pair a b h
  unfold binaryCmp
  rw [ho, he]
  cases o <;> simp [Ord3.result, CmpOp.holds, Ordering.isEq]

example : SameOrdered (.str [1, 2]) (.str [1, 3]) ∨ IntFloat (.str [1, 2]) (.str [1, 3]) := Or.inl trivial
example : SameOrdered (.int 3#64) (.float (F64.ofInt 3)) ∨ IntFloat (.int 3#64) (.float (F64.ofInt 3)) :=
  Or.inr (by show F64.isNaN (F64.ofInt 3) = false; decide)
example : binaryCmp .lt (.str [1, 2]) (.str [1, 3]) = some true := by decide
example : equals (.int 3#64) (.float (F64.ofInt 3)) = true := by decide

/-- int/char pairs are ordered by code point (the char's int32 value as an int64) and never equal. -/
theorem int_char_order (op : CmpOp) (x : BitVec 64) (c : BitVec 32) :
    binaryCmp op (.int x) (.char c) = some (op.holds (cmpInt x.toInt c.toInt)) ∧
    binaryCmp op (.char c) (.int x) = some (op.holds (cmpInt c.toInt x.toInt)) ∧
    equals (.int x) (.char c) = false ∧ equals (.char c) (.int x) = false := by
  simp [binaryCmp, ordOf, equals, Ord3.result]

example : binaryCmp .lt (.int 97#64) (.char 98#32) = some true ∧ equals (.int 97#64) (.char 97#32) = false := by decide

/-- A NaN operand makes `<`, `<=`, `>`, `>=` and `==` false against every float and int, both ways. -/
theorem nan_unordered (op : CmpOp) (f : BitVec 64) (hf : F64.isNaN f = true) (b : Value)
    (hb : b.kind = .float ∨ b.kind = .int) :
    binaryCmp op (.float f) b = some false ∧ binaryCmp op b (.float f) = some false ∧
    equals (.float f) b = false ∧ equals b (.float f) = false := by
  cases b <;> simp [Value.kind] at hb <;>
    simp [binaryCmp, ordOf, equals, F64.eq, F64.cmp, hf, Ord3.ofFloat, Ord3.result]

example : F64.isNaN (BitVec.ofNat 64 0x7FF8000000000001) = true := by decide

/-! ### truthiness: the table of docs/runtime-types.md, stated outright -/

def VList.length : VList → Nat
  | .nil => 0
  | .cons _ tl => VList.length tl + 1

def VMap.length : VMap → Nat
  | .nil => 0
  | .cons _ _ tl => VMap.length tl + 1

/-- docs/runtime-types.md "Object.IsFalsy()"; functions are not listed there (ObjectImpl: never falsy). -/
def falsyTable : Value → Bool
  | .int n => n.toInt == 0                 -- Int: n == 0
  | .str s => s.length == 0                -- String: len(s) == 0
  | .float f => F64.isNaN f                -- Float: isNaN(f)
  | .bool b => !b                          -- Bool: !b
  | .char c => c.toInt == 0                -- Char: c == 0
  | .bytes s => s.length == 0              -- Bytes: len(bytes) == 0
  | .arr xs => VList.length xs == 0        -- Array: len(arr) == 0
  | .imarr xs => VList.length xs == 0
  | .map es => VMap.length es == 0         -- Map: len(map) == 0
  | .immap es => VMap.length es == 0
  | .time n => n == zeroTimeNs             -- Time: Time.IsZero()
  | .err _ _ => true                       -- Error: true
  | .undef => true                         -- Undefined: true
  | .fn => false
  | .builtin _ => false
  | .userfn => false

theorem bv_zero_iff {w : Nat} (x : BitVec w) : (x == 0#w) = (x.toInt == 0) := by
  by_cases h : x = 0#w
  · subst h; simp
  · have h' : x.toInt ≠ 0 := fun e => h (BitVec.toInt_inj.mp (by simpa using e))
    rw [beq_eq_false_iff_ne.mpr h, beq_eq_false_iff_ne.mpr h']

theorem falsy_table (v : Value) : isFalsy v = falsyTable v := by
  cases v <;> simp only [isFalsy, falsyTable]
  case int n => exact bv_zero_iff n
  case char c => exact bv_zero_iff c
  case str s => cases s <;> rfl
  case bytes s => cases s <;> rfl
  case arr xs => cases xs <;> rfl
  case imarr xs => cases xs <;> rfl
  case map es => cases es <;> rfl
  case immap es => cases es <;> rfl

/-- `!x` (vm.go OpLNot) pushes `isFalsy x`; `bool(x)` is its negation. -/
theorem bool_conv (v : Value) : conv .bool v none = .ok (.bool (!falsyTable v)) := by
  rw [← falsy_table]
  cases v <;> simp [conv, Tengo.Model.Val.toBool, isFalsy]

example : isFalsy (.float (F64.ofInt 0)) = false ∧ isFalsy (.int 0#64) = true ∧
    isFalsy (.time zeroTimeNs) = true ∧ isFalsy (.err 1 (.int 1#64)) = true := by decide

/-! ### copy -/

mutual
  /-- no error, function or NaN anywhere inside: the values on which `==` is reflexive -/
  def eqComparable : Value → Bool
    | .float f => !F64.isNaN f
    | .arr xs => eqComparableL xs
    | .imarr xs => eqComparableL xs
    | .map es => eqComparableM es
    | .immap es => eqComparableM es
    | .err _ _ => false
    | .fn => false
    | .builtin _ => false
    | .userfn => false
    | .undef => true
    | .bool _ => true
    | .int _ => true
    | .char _ => true
    | .str _ => true
    | .bytes _ => true
    | .time _ => true
  def eqComparableL : VList → Bool
    | .nil => true
    | .cons v tl => eqComparable v && eqComparableL tl
  def eqComparableM : VMap → Bool
    | .nil => true
    | .cons _ v tl => eqComparable v && eqComparableM tl
end

theorem f64eq_refl (f : BitVec 64) (h : F64.isNaN f = false) : F64.eq f f = true := by
  simp [F64.eq, F64.cmp, h, (cmpInt_eq_iff (F64.key f) (F64.key f)).mpr rfl]

mutual
  /-- `copy(v) == v` for every value without an error, a function or NaN inside. -/
  theorem copy_eq_partial : ∀ v : Value, eqComparable v = true → equals (copy v) v = true
    | .arr xs, h => by simp only [copy, equals]; exact copyList_eq xs (by simpa [eqComparable] using h)
    | .imarr xs, h => by simp only [copy, equals]; exact copyList_eq xs (by simpa [eqComparable] using h)
    | .map es, h => by simp only [copy, equals]; exact copyMap_eq es (by simpa [eqComparable] using h)
    | .immap es, h => by simp only [copy, equals]; exact copyMap_eq es (by simpa [eqComparable] using h)
    | .float f, h => by
      simp only [copy, equals]; exact f64eq_refl f (by simpa [eqComparable] using h)
    | .err _ _, h => by simp [eqComparable] at h
    | .fn, h => by simp [eqComparable] at h
    | .builtin _, h => by simp [eqComparable] at h
    | .userfn, h => by simp [eqComparable] at h
    | .undef, _ => by simp [copy, equals]
    | .bool _, _ => by simp [copy, equals]
    | .int _, _ => by simp [copy, equals]
    | .char _, _ => by simp [copy, equals]
    | .str _, _ => by simp [copy, equals]
    | .bytes _, _ => by simp [copy, equals]
    | .time _, _ => by simp [copy, equals]
  theorem copyList_eq : ∀ xs : VList, eqComparableL xs = true → eqList (copyList xs) xs = true
    | .nil, _ => by simp [copyList, eqList, VList.isNil]
    | .cons v tl, h => by
      simp only [eqComparableL, Bool.and_eq_true] at h
      simp [copyList, eqList, copy_eq_partial v h.1, copyList_eq tl h.2]
  theorem copyMap_eq : ∀ es : VMap, eqComparableM es = true → eqMap (copyMap es) es = true
    | .nil, _ => by simp [copyMap, eqMap, VMap.isNil]
    | .cons k v tl, h => by
      simp only [eqComparableM, Bool.and_eq_true] at h
      simp [copyMap, eqMap, copy_eq_partial v h.1, copyMap_eq tl h.2]
end

/-- The unrestricted law "copy yields an equal value" is FALSE of the code: an error value equals
only itself (pointer identity), a function equals nothing, NaN equals nothing. -/
theorem copy_eq_full_false : ¬ ∀ v : Value, equals (copy v) v = true := by
  intro h
  have := h (.err 1 (.int 1#64))
  simp [copy, equals] at this

theorem copy_eq_false_witnesses :
    equals (copy (.err 1 (.int 1#64))) (.err 1 (.int 1#64)) = false ∧
    equals (copy .fn) .fn = false ∧
    equals (copy (.float (BitVec.ofNat 64 0x7FF8000000000001))) (.float (BitVec.ofNat 64 0x7FF8000000000001)) = false := by
  decide

example : eqComparable (.imarr (.cons (.map (.cons [97] (.float (F64.ofInt 2)) .nil)) (.cons (.str []) .nil))) = true := by
  decide

mutual
  /-- no immutable container anywhere inside -/
  def allMutable : Value → Bool
    | .imarr _ => false
    | .immap _ => false
    | .arr xs => allMutableL xs
    | .map es => allMutableM es
    | .err _ v => allMutable v
    | _ => true
  def allMutableL : VList → Bool
    | .nil => true
    | .cons v tl => allMutable v && allMutableL tl
  def allMutableM : VMap → Bool
    | .nil => true
    | .cons _ v tl => allMutable v && allMutableM tl
end

mutual
  /-- A copy holds no immutable container at any depth. -/
  theorem copy_all_mutable : ∀ v : Value, allMutable (copy v) = true
    | .arr xs => by simp only [copy, allMutable]; exact copyList_all_mutable xs
    | .imarr xs => by simp only [copy, allMutable]; exact copyList_all_mutable xs
    | .map es => by simp only [copy, allMutable]; exact copyMap_all_mutable es
    | .immap es => by simp only [copy, allMutable]; exact copyMap_all_mutable es
    | .err _ v => by simp only [copy, allMutable]; exact copy_all_mutable v
    | .undef => rfl
    | .bool _ => rfl
    | .int _ => rfl
    | .float _ => rfl
    | .char _ => rfl
    | .str _ => rfl
    | .bytes _ => rfl
    | .time _ => rfl
    | .fn => rfl
    | .builtin _ => rfl
    | .userfn => rfl
  theorem copyList_all_mutable : ∀ xs : VList, allMutableL (copyList xs) = true
    | .nil => rfl
    | .cons v tl => by simp [copyList, allMutableL, copy_all_mutable v, copyList_all_mutable tl]
  theorem copyMap_all_mutable : ∀ es : VMap, allMutableM (copyMap es) = true
    | .nil => rfl
    | .cons _ v tl => by simp [copyMap, allMutableM, copy_all_mutable v, copyMap_all_mutable tl]
end

/-- The copy of an immutable container is the mutable container; every other type is kept. -/
theorem copy_kind (v : Value) : (copy v).kind =
    match v.kind with
    | .immutableArray => .array
    | .immutableMap => .map
    | k => k := by
  cases v <;> rfl

/-! ### conversions: the table of docs/runtime-types.md, stated outright -/

inductive Cell where
  | same      -- "-"
  | conv      -- a conversion exists
  | X         -- no conversion
  deriving DecidableEq, Repr

/-- rows: source type, columns: Int String Float Bool Char Bytes Time of the documented table.
`none`: the type has no row in the document (immutable variants, functions). -/
def convTable : Kind → ConvKind → Option Cell
  | .int, .int => some .same | .int, .string => some .conv | .int, .float => some .conv
  | .int, .bool => some .conv | .int, .char => some .conv | .int, .bytes => some .X | .int, .time => some .conv
  | .string, .int => some .conv | .string, .string => some .same | .string, .float => some .conv
  | .string, .bool => some .conv | .string, .char => some .X | .string, .bytes => some .conv | .string, .time => some .X
  | .float, .int => some .conv | .float, .string => some .conv | .float, .float => some .same
  | .float, .bool => some .conv | .float, .char => some .X | .float, .bytes => some .X | .float, .time => some .X
  | .bool, .int => some .conv | .bool, .string => some .conv | .bool, .float => some .X
  | .bool, .bool => some .same | .bool, .char => some .X | .bool, .bytes => some .X | .bool, .time => some .X
  | .char, .int => some .conv | .char, .string => some .conv | .char, .float => some .X
  | .char, .bool => some .conv | .char, .char => some .same | .char, .bytes => some .X | .char, .time => some .X
  | .bytes, .int => some .X | .bytes, .string => some .conv | .bytes, .float => some .X
  | .bytes, .bool => some .conv | .bytes, .char => some .X | .bytes, .bytes => some .same | .bytes, .time => some .X
  | .array, .string => some .conv | .array, .bool => some .conv | .array, _ => some .X
  | .map, .string => some .conv | .map, .bool => some .conv | .map, _ => some .X
  | .time, .string => some .conv | .time, .bool => some .conv | .time, .time => some .same | .time, _ => some .X
  | .error, .string => some .conv | .error, .bool => some .conv | .error, _ => some .X
  | .undefined, .bool => some .conv | .undefined, _ => some .X
  | _, _ => none

/-- "X": the builtin returns the supplied default, else undefined. The one documented exception is the
special case `bytes(N)` for an int `N` (see `bytes_of_int`). -/
theorem conv_table_X (k : ConvKind) (v : Value) (dflt : Option Value)
    (hX : convTable v.kind k = some .X) (hsp : ¬ (v.kind = .int ∧ k = .bytes)) :
    conv k v dflt = .ok (dflt.getD .undef) := by
  cases v <;> cases k <;> simp [Value.kind, convTable] at hX hsp <;>
    simp [conv, fallback, toInt64, toFloat64, toRune, toByteSlice, toTime, toStringV]

/-- "-": the value itself is returned (`bool` takes no default argument). -/
theorem conv_table_same (k : ConvKind) (v : Value) (dflt : Option Value)
    (hS : convTable v.kind k = some .same) (hb : k ≠ .bool ∨ dflt = none) :
    conv k v dflt = .ok v := by
  cases v <;> cases k <;> simp [Value.kind, convTable] at hS <;> simp [conv, toByteSlice]
  cases hb with
  | inl h => exact absurd rfl h
  | inr h => subst h; rfl

def okKind (r : ConvRes) (k : Kind) (strFallback : Option Value) : Prop :=
  match r with
  | .ok w => w.kind = k ∨ strFallback = some w
  | .unsupported _ => True
  | _ => False

theorem okKind_mono (r : ConvRes) (k : Kind) (fb : Option Value) (h : okKind r k none) : okKind r k fb := by
  cases r <;> simp_all [okKind]

theorem map_some_ne {α : Type} (o : Option α) : o.map some ≠ some none := by
  cases o <;> simp

theorem toStringV_ne (v : Value) (h : v.kind ≠ .undefined) : toStringV v ≠ some none := by
  cases v <;>
    first
      | exact absurd rfl h
      | (simp [toStringV]; done)
      | exact map_some_ne _

/-- `string(x)` of anything but undefined is a string (or left to the external text function). -/
theorem conv_string_kind (v : Value) (dflt : Option Value) (h : v.kind ≠ .undefined) :
    okKind (conv .string v dflt) .string none := by
  have hne := toStringV_ne v h
  cases v <;> simp only [conv] <;>
    first
      | (simp [okKind, Value.kind]; done)
      | (revert hne
         generalize toStringV _ = t
         intro hne
         match t, hne with
         | none, _ => simp [okKind]
         | some (some s), _ => simp [okKind, Value.kind]
         | some none, hne => exact absurd rfl hne)

/-- a conversion cell: the result has the target type (or the model leaves the text to the external
function); only a string that does not parse falls back to the default/undefined. -/
theorem conv_table_conv (k : ConvKind) (v : Value) (dflt : Option Value)
    (hC : convTable v.kind k = some .conv) (hb : k ≠ .bool) :
    okKind (conv k v dflt) k.target (if v.kind = .string then some (dflt.getD .undef) else none) := by
  cases k
  case string =>
    exact okKind_mono _ _ _ (conv_string_kind v dflt (by intro h; rw [h] at hC; simp [convTable] at hC))
  case bool => exact absurd rfl hb
  all_goals
    cases v <;> simp [Value.kind, convTable] at hC <;>
      simp only [conv, toInt64, toFloat64, toRune, toByteSlice, toTime] <;>
      first
        | (simp [okKind, Value.kind, ConvKind.target]; done)
        | (split <;> simp [okKind, Value.kind, ConvKind.target, fallback] <;> done)

theorem bool_takes_no_default (v d : Value) : conv .bool v (some d) = .err "wrongNumArgs" := rfl

/-- the documented special case `bytes(N)` -/
theorem bytes_of_int (n : BitVec 64) (dflt : Option Value) (h0 : 0 ≤ n.toInt) (h1 : n.toInt ≤ 65536) :
    conv .bytes (.int n) dflt = .ok (.bytes (List.replicate n.toInt.toNat 0)) := by
  have h2 : ¬ maxBytesLen < n.toInt := by unfold maxBytesLen; omega
  have h3 : ¬ n.toInt < 0 := by omega
  have h4 : ¬ 65536 < n.toInt := by omega
  simp [conv, h2, h3, h4]

/-- the cells' values, as documented -/
theorem conv_values (n : BitVec 64) (f : BitVec 64) (c : BitVec 32) (b : Bool) (s : Bytes) (d : Option Value) :
    conv .int (.bool b) d = .ok (.int (if b then 1#64 else 0#64)) ∧          -- 1 / 0
    conv .int (.char c) d = .ok (.int (BitVec.ofInt 64 c.toInt)) ∧           -- int64(c)
    conv .int (.float f) d = .ok (.int (F64.toI64 f)) ∧                      -- int64(f)
    conv .float (.int n) d = .ok (.float (F64.ofInt n.toInt)) ∧              -- float64(v)
    conv .char (.int n) d = .ok (.char (n.setWidth 32)) ∧                    -- rune(v)
    conv .bytes (.str s) d = .ok (.bytes s) ∧                                -- []byte(s)
    conv .time (.int n) d = .ok (.time (timeOfUnix n.toInt)) ∧               -- time.Unix(v, 0)
    conv .string (.int n) d = .ok (.str (decimal n.toInt)) ∧                 -- strconv
    conv .string (.bool b) d = .ok (.str (asciiBytes (if b then "true" else "false"))) ∧
    conv .string (.char c) d = .ok (.str (utf8 c.toInt)) ∧                   -- string(c)
    conv .string (.bytes s) d = .ok (.str s) ∧                               -- string(y)
    conv .int (.str s) d = (match parseInt s with | some m => .ok (.int m) | none => .ok (d.getD .undef)) := by
  refine ⟨rfl, rfl, rfl, rfl, rfl, rfl, rfl, rfl, rfl, rfl, rfl, ?_⟩
  simp only [conv, toInt64, fallback]
  cases parseInt s <;> rfl

example : conv .int (.str (asciiBytes "-12")) none = .ok (.int (BitVec.ofInt 64 (-12))) := by decide
example : conv .int (.str (asciiBytes "1x")) (some (.int 7#64)) = .ok (.int 7#64) := by decide
example : conv .char (.str [97]) none = .ok .undef := by decide
example : convTable (Value.str [97]).kind .char = some .X := by decide
example : conv .float (.int 3#64) none = .ok (.float (BitVec.ofNat 64 0x4008000000000000)) := by decide
example : conv .int (.float (BitVec.ofNat 64 0x7FF8000000000001)) none = .ok (.int F64.minInt64) := by decide

/-! ### the model's comparison arms are exactly the comparison arms of the regenerated table -/

/-- the operand type pairs with `< <= > >=` (docs/operators.md) -/
def orderedPairs : List (Kind × Kind) :=
  [(.char, .char), (.char, .int), (.float, .float), (.float, .int), (.int, .int), (.int, .float),
   (.int, .char), (.string, .string), (.time, .time)]

/-- objects.go has comparison arms for exactly these pairs, and all four tokens for each. -/
theorem cmp_arms_of_table :
    Tengo.Gen.BinaryOpArms.arms.filter (fun t => cmp4.contains t.2.2) =
      orderedPairs.flatMap (fun p => cmp4.map (fun t => (p.1.goName, p.2.goName, t))) := by decide

/-- `a op b` is a valid comparison in the model for exactly these pairs, whatever the token. -/
theorem cmp_valid_iff (op : CmpOp) (a b : Value) :
    (binaryCmp op a b).isSome = orderedPairs.contains (a.kind, b.kind) := by
  have hv : ∀ x, ((Ord3.ofFloat x).result op).isSome = true := by
    intro x; cases x <;> rfl
  cases a <;> cases b <;> simp only [binaryCmp, ordOf, Value.kind] <;>
    first
      | decide
      | (rw [hv]; decide)
      | (simp only [Ord3.result, Option.isSome]; decide)

end Tengo.Props.C10

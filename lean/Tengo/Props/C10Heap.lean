import Tengo.Proofs.C10HeapDec
import Tengo.Proofs.C10HeapEq
/-!
C10 — "a copy shares no mutable state with its original", over the heap model of C09
(`Tengo.Model.Heap9`: object headers, backing arrays, Go maps, references, immutable flag).

`copyVal` / `copyValCaps` (`Tengo.Model.HeapCopy`) is `Object.Copy()` as the Go methods behave now: arrays and
maps of either mutability become NEW mutable containers over NEW stores holding the copies of the elements,
error values new error values over the copied payload, scalars stay. It runs `Heap9.copyN`, the definition the
C09 driver replays against the real `Copy` on every `copy` operation of the objops/exhaustive streams.

Cells (`Cell`): object headers, backing arrays, Go maps. `Reach h v c`: cell `c` is reachable from value `v`.

* `copy_fresh`       every cell reachable from the copy was allocated by the copy (`IsNew h`)
* `copy_disjoint`    … hence the copy shares no cell with the original or with any other value of the old heap
* `copy_frame`       the old heap is unchanged at every old address; old values reach exactly what they reached
* `writes_through_copy_keep_original`, `writes_through_original_keep_copy`
                     any sequence of element writes (selector assignments of any depth) through one of the two
                     leaves every cell reachable from the other — and its deep snapshot — unchanged
* `ops_away_keep`    the same for EVERY operation of the C09 model (`Heap9.step`: selector assignment, append, splice,
                     delete, immutable, slice, +, copy, freeze, iterate, …): a sequence none of whose mutating operations is
                     aimed at a value reaching a cell of `b` leaves every cell reachable from `b` unchanged;
                     `copy_handle_sep`: the handle pushed by the `copy` operation is such a value for every old `b`;
                     `ops_through_original_keep_copy`: vice versa
* `copy_equal`, `copy_equalsN`   the copy is equal to the original (relation `Eqv` and executable `equalsN`)
                     for values without error values and NaN (known finding C10-K1 outside)

Hypotheses: `Closed h` (headers' stores allocated), `RefsOk h` (no dangling reference) where old values are
followed in the new heap, `isData h v` (decidable: acyclic — cyclic values make Go's `Copy` recurse forever,
finding O9 —, no retired object, NO FUNCTION VALUE inside: in Go a copied closure shares its captured cells with
the original, known finding C10-K2, and the heap model has no cells for them).
-/
namespace Tengo.Props.C10Heap
open Tengo.Model.Heap9 Tengo.Model.HeapCopy Tengo.Props.C09 Tengo.Proofs.C09Eq Tengo.Proofs.C10Heap

/-- On data values `copyValCaps` is `copyN` with the model's fuel: it does not run out. -/
theorem copyVal_runs {h : Heap} {v : Val} {strict : Bool} (c : Closed h) (d : dataN strict h.fuel h v = true) (caps : List Nat) :
    ∃ caps', copyN h.fuel h caps v = some ((copyValCaps caps h v).1, caps', (copyValCaps caps h v).2) := by
  obtain ⟨h', caps', v', e⟩ := copyN_succeeds h.fuel h v caps c d
  exact ⟨caps', by simp [copyValCaps, e]⟩

/-- A data value is not a dangling reference. -/
theorem data_old {h : Heap} {v : Val} {strict : Bool} {n : Nat} (d : dataN strict n h v = true) : OldVal h v := by
  intro r e
  subst e
  cases n with
  | zero => simp [dataN] at d
  | succ n =>
    simp only [dataN] at d
    cases ho : h.obj r with
    | dead => rw [ho] at d; simp at d
    | arr m s off len cap => exact lt_of_lookup (obj_some ho (by simp))
    | map m s => exact lt_of_lookup (obj_some ho (by simp))
    | err p => exact lt_of_lookup (obj_some ho (by simp))

/-- (a) Everything reachable from the copy — headers, backing arrays, Go maps, at any depth — was allocated by the
copy; and the copy is the same scalar or a new reference. For every choice of capacities. -/
theorem copy_fresh {h : Heap} {v : Val} (c : Closed h) (d : isData h v = true) (caps : List Nat) :
    (∀ x, Reach (copyValCaps caps h v).1 (copyValCaps caps h v).2 x → IsNew h x) ∧
    CopyRel h v (copyValCaps caps h v).2 := by
  obtain ⟨caps', e⟩ := copyVal_runs c d caps
  obtain ⟨g, r⟩ := copyN_grow h _ _ _ _ _ _ _ e (Grow.refl h)
  exact ⟨fun x rx => reach_new g rx r.newVal, r⟩

/-- (a) … hence no cell of the copy is a cell of anything in the old heap (the original included). -/
theorem copy_disjoint_old {h : Heap} {v : Val} (c : Closed h) (d : isData h v = true) (caps : List Nat) (w : Val) (x : Cell) :
    Reach (copyValCaps caps h v).1 (copyValCaps caps h v).2 x → ¬ Reach h w x :=
  fun rx rw => reach_old c rw ((copy_fresh c d caps).1 x rx)

/-- (a) The same in the heap after the copy: the copy shares no cell with any old value `w` (the original, any
other handle of the program). -/
theorem copy_disjoint {h : Heap} {v : Val} (c : Closed h) (ro : RefsOk h) (d : isData h v = true) (caps : List Nat)
    {w : Val} (ow : OldVal h w) : Sep (copyValCaps caps h v).1 (copyValCaps caps h v).2 w := by
  obtain ⟨caps', e⟩ := copyVal_runs c d caps
  intro x rx rw
  exact copy_disjoint_old c d caps w x rx (reach_ext_old (copyN_ext _ _ _ _ _ _ _ e) c ro rw ow)

/-- (b) The old heap is unchanged at every old address (object table, backing arrays, Go maps), and every old value
reaches after the copy exactly the cells it reached before. -/
theorem copy_frame {h : Heap} {v : Val} (c : Closed h) (d : isData h v = true) (caps : List Nat) :
    Ext h (copyValCaps caps h v).1 ∧
    ∀ (w : Val), RefsOk h → OldVal h w → ∀ x, Reach (copyValCaps caps h v).1 w x ↔ Reach h w x := by
  obtain ⟨caps', e⟩ := copyVal_runs c d caps
  have x := copyN_ext _ _ _ _ _ _ _ e
  exact ⟨x, fun w ro ow y => ⟨fun r => reach_ext_old x c ro r ow, fun r => reach_mono x c r⟩⟩

/-- (b) Any sequence of element writes through the copy (`copy[i]…[k] = src`, any depth, any index values, failing
ones included), storing values that share nothing with `w` at the moment they are stored, leaves every cell
reachable from the old value `w` — in particular the original — unchanged, so also its deep snapshot at every
depth; and the two stay disjoint. -/
theorem writes_through_copy_keep_original {h : Heap} {v : Val} (c : Closed h) (ro : RefsOk h) (d : isData h v = true)
    (caps : List Nat) {w : Val} (ow : OldVal h w) (ws : List Write)
    (ok : WritesOk w (copyValCaps caps h v).1 (copyValCaps caps h v).2 ws) :
    Kept (copyValCaps caps h v).1 (writes (copyValCaps caps h v).1 (copyValCaps caps h v).2 ws) w ∧
    (∀ n, snapN n (writes (copyValCaps caps h v).1 (copyValCaps caps h v).2 ws) w = snapN n (copyValCaps caps h v).1 w) ∧
    Sep (writes (copyValCaps caps h v).1 (copyValCaps caps h v).2 ws) (copyValCaps caps h v).2 w := by
  obtain ⟨k, s⟩ := writes_frame ws _ (copy_disjoint c ro d caps ow) ok
  exact ⟨k, fun n => Kept.snap n w k, s⟩

/-- (b) Vice versa: writes through an old value `w` (the original) leave the copy unchanged. -/
theorem writes_through_original_keep_copy {h : Heap} {v : Val} (c : Closed h) (ro : RefsOk h) (d : isData h v = true)
    (caps : List Nat) {w : Val} (ow : OldVal h w) (ws : List Write)
    (ok : WritesOk (copyValCaps caps h v).2 (copyValCaps caps h v).1 w ws) :
    Kept (copyValCaps caps h v).1 (writes (copyValCaps caps h v).1 w ws) (copyValCaps caps h v).2 ∧
    (∀ n, snapN n (writes (copyValCaps caps h v).1 w ws) (copyValCaps caps h v).2 =
      snapN n (copyValCaps caps h v).1 (copyValCaps caps h v).2) ∧
    Sep (writes (copyValCaps caps h v).1 w ws) w (copyValCaps caps h v).2 := by
  obtain ⟨k, s⟩ := writes_frame ws _ (copy_disjoint c ro d caps ow).symm ok
  exact ⟨k, fun n => Kept.snap n _ k, s⟩

/-! ### (b) for every operation of the C09 model -/

theorem keptF_of_ext {h h' : Heap} (e : Ext h h') (b : Val) : KeptF h h' b :=
  ⟨fun r o _ x => e.objs r o x, fun s st _ x => e.astores s st x, fun s st _ x => e.mstores s st x⟩

/-- (b) Any operation sequence — all sixteen operations of `Heap9.step`, results pushed as new handles and usable
by later operations — none of whose mutating operations (selector assignment, append, splice, delete, immutable) is
aimed at a value that at that moment reaches a cell of `b`, leaves every object header, backing array and Go map
reachable from `b` unchanged; with no dangling references in the initial heap, the deep snapshot of `b` is the same
at every depth. -/
theorem ops_away_keep {h : Heap} {b : Val} (c : Closed h) (ops : List Op) (ok : OpsAway b h ops) :
    KeptF h (run h ops) b ∧ (RefsOk h → OldVal h b → ∀ n, snapN n (run h ops) b = snapN n h b) :=
  ⟨ops_frame c ops ok, fun ro ob n => KeptF.snap c ro n b ob (ops_frame c ops ok)⟩

theorem copyN_regs : ∀ (n : Nat) (h : Heap) (caps : List Nat) (v : Val) (h' : Heap) (caps' : List Nat) (v' : Val),
    copyN n h caps v = some (h', caps', v') → ∀ rs, h.regs = rs → h'.regs = rs := by
  intro n
  induction n with
  | zero => intro h caps v h' caps' v' e; simp [copyN] at e
  | succ n ih =>
    intro h caps v h' caps' v' e rs hr
    unfold copyN at e
    repeat' split at e
    all_goals first
      | (cases e; done)
      | (injection e with e; injection e with e1 e2; rw [← e1]; first
          | exact hr
          | (simp only [Heap.newArr, Heap.newMap]
             exact foldVals_pres (P := fun h => h.regs = rs) _ (fun _ _ _ _ _ _ e p => ih _ _ _ _ _ _ e rs p) _ _ _ _ _ _ (by assumption) hr)
          | (simp only [Heap.allocObj]; exact ih _ _ _ _ _ _ (by assumption) rs hr))

/-- The `copy` operation of the C09 model is `copyValCaps`: on a data value it pushes the copy as a new handle. -/
theorem step_copy_eq {h : Heap} {x : Nat} {v : Val} (hx : h.regs[x]? = some v) (c : Closed h) (d : isData h v = true)
    (caps : List Nat) :
    step h (.copy x caps) = ((copyValCaps caps h v).1.push (copyValCaps caps h v).2, .pushed 1) ∧
    (step h (.copy x caps)).1.regs[h.regs.length]? = some (copyValCaps caps h v).2 := by
  obtain ⟨caps', e⟩ := copyVal_runs c d caps
  have hr := copyN_regs _ _ _ _ _ _ _ e _ rfl
  simp only [step, hx, e, Heap.push, hr]
  exact ⟨trivial, by simp⟩

theorem sep_push {h : Heap} {a b u : Val} (s : Sep h a b) : Sep (h.push u) a b := by
  have ka : Kept h (h.push u) a := ⟨rfl, fun _ _ => rfl, fun _ _ => rfl⟩
  have kb : Kept h (h.push u) b := ⟨rfl, fun _ _ => rfl, fun _ _ => rfl⟩
  intro x ra rb
  exact s x ((ka.reach_iff x).mp ra) ((kb.reach_iff x).mp rb)

/-- (b) After `c := copy(x)` the value in the new handle shares no cell with any old value `w`: the first mutating
operation aimed at `c` meets the condition of `ops_away_keep` for `b := w` (later ones as long as nothing reaching `w`
has been stored into `c`), and operations aimed at `w` meet it for `b := c`. -/
theorem copy_handle_sep {h : Heap} {x : Nat} {v : Val} (hx : h.regs[x]? = some v) (c : Closed h) (ro : RefsOk h)
    (d : isData h v = true) (caps : List Nat) {w : Val} (ow : OldVal h w) :
    (step h (.copy x caps)).2 = .pushed 1 ∧
    (step h (.copy x caps)).1.regs[h.regs.length]? = some (copyValCaps caps h v).2 ∧
    Sep (step h (.copy x caps)).1 (copyValCaps caps h v).2 w := by
  obtain ⟨e1, e2⟩ := step_copy_eq hx c d caps
  refine ⟨by rw [e1], e2, ?_⟩
  rw [e1]
  exact sep_push (copy_disjoint c ro d caps ow)

/-- (b) Vice versa: after `c := copy(x)`, any operation sequence with no mutating operation aimed at a value reaching
a cell of the copy (operations on the original, on other old values, on new values built from them) leaves every cell
of the copy and its deep snapshot unchanged. -/
theorem ops_through_original_keep_copy {h : Heap} {x : Nat} {v : Val} (hx : h.regs[x]? = some v) (c : Closed h)
    (ro : RefsOk h) (d : isData h v = true) (caps : List Nat) (ops : List Op)
    (ok : OpsAway (copyValCaps caps h v).2 (step h (.copy x caps)).1 ops) :
    KeptF (step h (.copy x caps)).1 (run (step h (.copy x caps)).1 ops) (copyValCaps caps h v).2 ∧
    ∀ n, snapN n (run (step h (.copy x caps)).1 ops) (copyValCaps caps h v).2 =
      snapN n (step h (.copy x caps)).1 (copyValCaps caps h v).2 := by
  obtain ⟨caps', e⟩ := copyVal_runs c d caps
  obtain ⟨e1, _⟩ := step_copy_eq hx c d caps
  have c1 : Closed (copyValCaps caps h v).1 := copyN_closed _ _ _ _ _ _ _ e c
  obtain ⟨ro1, o1⟩ := copyN_refsOk _ _ _ _ _ _ _ e ro (data_old d)
  rw [e1] at ok ⊢
  have c2 : Closed ((copyValCaps caps h v).1.push (copyValCaps caps h v).2) := fun o ho => c1 o ho
  have ro2 : RefsOk ((copyValCaps caps h v).1.push (copyValCaps caps h v).2) := ⟨ro1.arrs, ro1.maps, ro1.errs⟩
  have k := ops_frame c2 ops ok
  exact ⟨k, fun n => KeptF.snap c2 ro2 n _ o1 k⟩

/-- (c) The copy is equal to the original (relation `Eqv` = `Equals`) for values without error values inside. -/
theorem copy_equal {h : Heap} {v : Val} (c : Closed h) (d : isPlain h v = true) (caps : List Nat) :
    Eqv (copyValCaps caps h v).1 (copyValCaps caps h v).2 v := by
  obtain ⟨caps', e⟩ := copyVal_runs c d caps
  exact copyN_eqv _ _ _ _ _ _ _ e c d

/-- (c) … and the executable `Equals` of the model answers `true` on them (fuel of the `eq` operation). -/
theorem copy_equalsN {h : Heap} {v : Val} (c : Closed h) (w : HdrOk h) (d : isPlain h v = true) (caps : List Nat) :
    equalsN (copyValCaps caps h v).1.fuel (copyValCaps caps h v).1 (copyValCaps caps h v).2 v = some true := by
  obtain ⟨caps', e⟩ := copyVal_runs c d caps
  have q := copyN_eqv _ _ _ _ _ _ _ e c d
  have x := copyN_ext _ _ _ _ _ _ _ e
  have c' := copyN_closed _ _ _ _ _ _ _ e c
  have w' := copyN_hdrOk _ _ _ _ _ _ _ e w
  have fv : Fin (copyValCaps caps h v).1 h.fuel v := fin_ext x c (dataN_fin _ _ d)
  have fv' := fin_of_eqv fv q
  obtain ⟨_, r⟩ := copyN_grow h _ _ _ _ _ _ _ e (Grow.refl h)
  rcases r with ⟨hs, ev⟩ | ⟨r0, r', _, ev, hl⟩
  · rw [ev]
    cases v with
    | undef => rfl
    | int i => simp [equalsN, Heap.fuel]
    | str s => simp [equalsN, Heap.fuel]
    | opq s =>
      have : opqComparable s = true := by simpa [isPlain, Heap.fuel, dataN] using d
      simp [equalsN, Heap.fuel, this]
    | ref r => exact absurd rfl (hs r)
  · have hlt : h.fuel < (copyValCaps caps h v).1.fuel := by
      rw [ev] at q
      cases q with
      | arr ho _ _ _ _ _ => have := lt_of_lookup ho; simp only [Heap.fuel]; omega
      | map ho _ _ _ _ _ => have := lt_of_lookup ho; simp only [Heap.fuel]; omega
      | err ho => have := lt_of_lookup ho; simp only [Heap.fuel]; omega
    obtain ⟨b, hb⟩ := equalsN_total fv' fv _ hlt
    cases b with
    | true => exact hb
    | false => exact absurd q (equalsN_false_sound w' _ _ _ hb)

/-! ### Non-vacuity -/

/-- `x := [[1, 2], immutable([3]), error([4])]` in handle @10 (`[1, 2]` in @2, the immutable array in @5). -/
def exH : Heap := run {} [.lit (.int 1), .lit (.int 2), .mkArr [0, 1] 2, .lit (.int 3), .mkArr [3] 1, .immutable false 4,
  .lit (.int 4), .mkArr [6] 1, .mkErr 7, .lit (.int 9), .mkArr [2, 5, 8] 3]

theorem exH_closed : Closed exH := by decide
theorem exH_hdrOk : HdrOk exH := by decide
theorem exH_regs : exH.regs[10]? = some (.ref 5) ∧ exH.regs[2]? = some (.ref 0) := by decide
theorem exH_data : isData exH (.ref 5) = true := by decide
/-- … it holds an error value, so it is not plain; its first element is. -/
theorem exH_plain : isPlain exH (.ref 5) = false ∧ isPlain exH (.ref 0) = true := by decide

theorem exH_refsOk : RefsOk exH := refsOk_of_B (by decide)

/-- The copy: `[[1, 2], [3], error([4])]`, all containers mutable, over new stores 4…7. -/
example : (copyVal exH (.ref 5)).2 = .ref 10 ∧
    (copyVal exH (.ref 5)).1.objs.drop 6 = [.arr true 4 0 2 2, .arr true 5 0 1 1, .arr true 6 0 1 1, .err (.ref 8),
      .arr true 7 0 3 3] ∧ (copyVal exH (.ref 5)).1.astores.drop 4 =
      [[.int 1, .int 2], [.int 3], [.int 4], [.ref 6, .ref 7, .ref 9]] := by decide

/-- `copy_fresh`, `copy_disjoint`, `copy_frame` apply to it. -/
example := copy_fresh exH_closed exH_data []
example := copy_disjoint exH_closed exH_refsOk exH_data [] (w := .ref 5) (data_old exH_data)

/-- A concrete write sequence through the copy: `c[0][1] = 7; c[2].value[0] = 8; c[1][0] = c[0]`
(the last one stores a part of the copy). The original prints the same afterwards. -/
def exWs : List Write := [([.int 0, .int 1], .int 7), ([.int 2, .str (hexStr "value"), .int 0], .int 8),
  ([.int 1, .int 0], .ref 6)]

example : ∀ n, snapN n (writes (copyVal exH (.ref 5)).1 (copyVal exH (.ref 5)).2 exWs) (.ref 5) =
    snapN n (copyVal exH (.ref 5)).1 (.ref 5) :=
  (writes_through_copy_keep_original exH_closed exH_refsOk exH_data [] (data_old exH_data) exWs
    (writesOk_of_B (n := 12) _ _ _ (by decide))).2.1

/-- … while the copy did change (the writes are real): element 1 of its first array and the payload of its error. -/
example : (writes (copyVal exH (.ref 5)).1 (copyVal exH (.ref 5)).2 exWs).astores.drop 4 =
    [[.int 1, .int 7], [.ref 6], [.int 8], [.ref 6, .ref 7, .ref 9]] ∧
    (writes (copyVal exH (.ref 5)).1 (copyVal exH (.ref 5)).2 exWs).astores.take 4 = exH.astores := by decide

/-- `writes_through_original_keep_copy`: the same writes through the original (the one into the immutable element
would fail; the others succeed) leave the copy as it was. -/
example := writes_through_original_keep_copy exH_closed exH_refsOk exH_data [] (data_old exH_data) (exWs.take 2)
  (writesOk_scalars _ _ _ (by decide))

/-- Operations of the C09 model after `c := copy(x)` (handle @11): `c[0][1] = 7`, `e := c[0]`, `append(e, 5)` in a
new handle, `splice(c, 1, 1)`, `immutable(e)`, a slice of `e` written through, `freeze(c)`, a `delete` that fails.
None of the mutating ones is aimed at something reaching the original: checked by evaluation (`opsAwayB`). -/
def exOps : List Op := [.copy 10 [], .lit (.int 7), .lit (.int 0), .lit (.int 1), .setSel 11 [13, 14] 12, .idxGet 11 13,
  .append 15 [12] 4, .splice 11 [14, 14] 0 0, .immutable false 15, .lit .undef, .slice 15 13 19 0, .setSel 20 [13] 12,
  .freeze 11, .delete 11 12]

theorem exOps_away : OpsAway (.ref 5) exH exOps := opsAway_of_B (n := 12) _ _ (by decide)

/-- `ops_away_keep`: the original prints the same after the whole sequence, all its cells are as they were … -/
example : ∀ n, snapN n (run exH exOps) (.ref 5) = snapN n exH (.ref 5) :=
  (ops_away_keep exH_closed exOps exOps_away).2 exH_refsOk (data_old exH_data)

/-- … while the sequence did write: the copy's first array (store 4) and the copy itself (header 10) changed. -/
example : (run exH exOps).astores[4]? = some [.int 7, .int 7] ∧ (run exH [.copy 10 []]).astores[4]? = some [.int 1, .int 2] ∧
    (run exH exOps).objs[10]? = some (.arr true 7 0 2 3) ∧ (run exH [.copy 10 []]).objs[10]? = some (.arr true 7 0 3 3) ∧
    (run exH exOps).astores.take 4 = exH.astores ∧ (run exH exOps).objs.take 6 = exH.objs := by decide

/-- `copy_handle_sep` and `ops_through_original_keep_copy`: writes aimed at the original keep the copy. -/
example := copy_handle_sep (x := 10) exH_regs.1 exH_closed exH_refsOk exH_data [] (data_old exH_data)
example := ops_through_original_keep_copy (x := 10) exH_regs.1 exH_closed exH_refsOk exH_data []
  [.lit (.int 7), .lit (.int 0), .setSel 10 [13, 13] 12, .splice 10 [13] 0 0]
  (opsAway_of_B (n := 12) _ _ (by decide))

/-- `copy_equal` / `copy_equalsN` on the plain element `[1, 2]`. -/
example : Eqv (copyVal exH (.ref 0)).1 (copyVal exH (.ref 0)).2 (.ref 0) := copy_equal exH_closed exH_plain.2 []
example : equalsN (copyVal exH (.ref 0)).1.fuel (copyVal exH (.ref 0)).1 (copyVal exH (.ref 0)).2 (.ref 0) = some true :=
  copy_equalsN exH_closed exH_hdrOk exH_plain.2 []

/-- Known finding C10-K1 in the heap model: the copy of the value holding an error is NOT equal to it. -/
example : equalsN (copyVal exH (.ref 5)).1.fuel (copyVal exH (.ref 5)).1 (copyVal exH (.ref 5)).2 (.ref 5) = some false := by
  decide

/-- Values holding a function are excluded (known finding C10-K2), cyclic ones too (finding O9). -/
example : isData exH (.opq "(fn@3)") = false := by decide +kernel
example : let h : Heap := { objs := [.arr true 0 0 1 1], astores := [[.ref 0]] }
    isData h (.ref 0) = false ∧ copyVal h (.ref 0) = (h, .ref 0) := by decide

/-- Why the stored values must not reach the other side (`WritesOk`): storing the original inside the copy and then
writing through the copy does change the original. -/
example : let h' := (copyVal exH (.ref 0)).1
    let c := (copyVal exH (.ref 0)).2
    (writes h' c [([.int 0], .ref 0), ([.int 0, .int 0], .int 5)]).content 0 0 2 = [.int 5, .int 2] ∧
    h'.content 0 0 2 = [.int 1, .int 2] := by decide

end Tengo.Props.C10Heap

import Tengo.Proofs.C11PlaceVMEx
import Tengo.Props.C11Place
import Tengo.Proofs.C11PlaceIife
/-!
C11 — PLACEMENT global ↦ local on fragment F3, the variables as locals of an IMMEDIATELY INVOKED function literal.

`P` in the class `g2Ss n` (see `Tengo.Props.C11Place`); the IIFE placement `progI n L P` is

  `(func() { x_0 := r_0; …; x_{n-1} := r_{n-1};  P;  r_0 = x_0; …; r_{n-1} = x_{n-1} })()`

— a single call site, the function literal (constant `L`) is the callee expression itself: NO global slot holds the
function (main is `CONST L; CALL 0; POP`), the globals are exactly `r_0 … r_{n-1}` plus whatever else was there.

* `placement_global_vs_iife_fragment3_sem` (reference semantics `F3.exec`, any data semantics): the IIFE placement
  ends with globals `g''` iff the global placement ends with some `g'` and `g'' = mkG n g g'` (`g'` on the slots
  `< n`, the START globals `g` elsewhere — nothing else is written); run-time errors, `bad` and divergence
  correspond.
* `placement_global_vs_iife_fragment3_vm_partial` (`VM.run`): PARTIAL — stated over ANY VM code `CodeRel3`-related
  to the FRAGMENT compiler's output `F3.compProg` for the two programs, not over `Compiler.compileFile`: the compile
  bridge `compileFile_fragment3_partial` covers function literals only as statements `global = func…`, not as the
  callee expression of a call. `ProgOk` of both programs is DERIVED from the class (`progG_ok`, `progI_ok`).
-/
set_option linter.unusedVariables false
namespace Tengo.Props.C11PlaceIife
open Tengo.Model Tengo.Model.F3
open Tengo.Model.F0 (Sem upd)
open Tengo.Model.Spec (Value GSt Err)
open Tengo.Model.VM (Core Code Cfg Log)
open Tengo.Proofs.C11Place
open Tengo.Proofs.C01BridgeF3 (DataRel GlobRel3 CodeRel3 Rel3)
open Tengo.Props.C01F3Bridge (WithinVM vm_computes_fragment3)

/-! ### reference semantics -/

/-- **Placement global ↦ local of an immediately invoked function literal, reference semantics of F3.** `E` any
data semantics in which constant `L` is the function value of function constant `L` (`hfn`), `body` in the class,
`g` any start globals:
1. the IIFE placement ends with globals `g''` (some fuel) iff the global placement ends with some `g'` (some fuel)
   and `g'' = mkG n g g'` (`g'` on the slots `< n`, the start globals `g` elsewhere);
2. run-time errors correspond; 3. `bad` (a `break` / `continue` outside a loop) corresponds;
4. divergence (out of fuel for every fuel) corresponds. -/
theorem placement_global_vs_iife_fragment3_sem {V : Type} (E : Env V) (n L : Nat) (body : Stms)
    (hc : g2Ss n body = true) (hfn : E.asFn (E.cs L) = some L) (g : Nat → V) :
    (∀ g'', (∃ F, F3.exec E (progI n L body) F g = .done g'') ↔
      ∃ f g', F3.exec E (progG body) f g = .done g' ∧ g'' = mkG n g g') ∧
    ((∃ F, F3.exec E (progI n L body) F g = .err) ↔ ∃ f, F3.exec E (progG body) f g = .err) ∧
    ((∃ F, F3.exec E (progI n L body) F g = .bad) ↔ ∃ f, F3.exec E (progG body) f g = .bad) ∧
    ((∀ F, F3.exec E (progI n L body) F g = .out) ↔ ∀ f, F3.exec E (progG body) f g = .out) := by
  refine ⟨fun g'' => ⟨?_, ?_⟩, ⟨?_, ?_⟩, ⟨?_, ?_⟩, ⟨?_, ?_⟩⟩
  · rintro ⟨F, hF⟩
    obtain ⟨f, r, hr, hne, heq⟩ := placementI_backward n L body hc hfn F g _ hF (by simp)
    cases r with
    | done g' => simp only [tP, PRes.done.injEq] at heq; exact ⟨f, g', hr, heq⟩
    | err => cases heq
    | out => cases heq
    | bad => cases heq
  · rintro ⟨f, g', hf, rfl⟩
    exact placementI_forward n L body hc hfn f g _ hf (by simp)
  · rintro ⟨F, hF⟩
    obtain ⟨f, r, hr, hne, heq⟩ := placementI_backward n L body hc hfn F g _ hF (by simp)
    cases r with
    | done g' => cases heq
    | err => exact ⟨f, hr⟩
    | out => cases heq
    | bad => cases heq
  · rintro ⟨f, hf⟩
    exact placementI_forward n L body hc hfn f g _ hf (by simp)
  · rintro ⟨F, hF⟩
    obtain ⟨f, r, hr, hne, heq⟩ := placementI_backward n L body hc hfn F g _ hF (by simp)
    cases r with
    | done g' => cases heq
    | err => cases heq
    | out => cases heq
    | bad => exact ⟨f, hr⟩
  · rintro ⟨f, hf⟩
    exact placementI_forward n L body hc hfn f g _ hf (by simp)
  · intro h f
    cases hr : F3.exec E (progG body) f g with
    | out => rfl
    | done g' =>
      obtain ⟨F, hF⟩ := placementI_forward n L body hc hfn f g _ hr (by simp)
      rw [h F] at hF; cases hF
    | err =>
      obtain ⟨F, hF⟩ := placementI_forward n L body hc hfn f g _ hr (by simp)
      rw [h F] at hF; cases hF
    | bad =>
      obtain ⟨F, hF⟩ := placementI_forward n L body hc hfn f g _ hr (by simp)
      rw [h F] at hF; cases hF
  · intro h F
    cases hr : F3.exec E (progI n L body) F g with
    | out => rfl
    | done g' =>
      obtain ⟨f, hf⟩ := placementI_progress n L body hc hfn F g (by rw [hr]; simp)
      exact absurd (h f) hf
    | err =>
      obtain ⟨f, hf⟩ := placementI_progress n L body hc hfn F g (by rw [hr]; simp)
      exact absurd (h f) hf
    | bad =>
      obtain ⟨f, hf⟩ := placementI_progress n L body hc hfn F g (by rw [hr]; simp)
      exact absurd (h f) hf

namespace Example
open Tengo.Props.C11Place.Example (body2 natEnv ends negBody natEnv0 isErr eq_err_of_isErr)

/-- **Non-vacuity of `placement_global_vs_iife_fragment3_sem`**: the global placement of `body2` (two variables, a
loop with a `break`) ends with `x0 = 3, x1 = 3` (fuel 30), so — by the theorem — the IIFE placement ends with the
globals `r0 = 3, r1 = 3` and slot 2 (where `progL` would store the function) UNTOUCHED (= the start value 7);
checked directly as well (fuel 40). -/
example : ∃ F g'', F3.exec natEnv (progI 2 4 body2) F (fun i => if i = 2 then 7 else 0) = .done g'' ∧
    g'' 0 = 3 ∧ g'' 1 = 3 ∧ g'' 2 = 7 := by
  have hG : ends 3 3 (F3.exec natEnv (progG body2) 30 (fun i => if i = 2 then 7 else 0)) = true := by decide
  cases he : F3.exec natEnv (progG body2) 30 (fun i => if i = 2 then 7 else 0) with
  | done g' =>
    rw [he] at hG
    simp only [ends, Bool.and_eq_true, beq_iff_eq] at hG
    obtain ⟨F, hF⟩ := ((placement_global_vs_iife_fragment3_sem natEnv 2 4 body2 (by decide) (by decide)
      (fun i => if i = 2 then 7 else 0)).1 _).2 ⟨30, g', he, rfl⟩
    exact ⟨F, _, hF, by simp only [mkG]; exact hG.1, by simp only [mkG]; exact hG.2, by simp [mkG]⟩
  | err => rw [he] at hG; cases hG
  | out => rw [he] at hG; cases hG
  | bad => rw [he] at hG; cases hG

example : ends 3 3 (F3.exec natEnv (progI 2 4 body2) 40 (fun _ => 0)) = true := by decide

/-- … and a run-time error corresponds (by the theorem, and checked directly). -/
example : ∃ F, F3.exec natEnv0 (progI 1 0 negBody) F (fun _ => 0) = .err :=
  ((placement_global_vs_iife_fragment3_sem natEnv0 1 0 negBody (by decide) (by decide) (fun _ => 0)).2.1).2
    ⟨5, eq_err_of_isErr (by decide)⟩

example : isErr (F3.exec natEnv0 (progI 1 0 negBody) 12 (fun _ => 0)) = true := by decide

end Example

/-! ### `VM.run` (over the fragment compiler's code; `Compiler.compileFile` NOT covered for this shape) -/

/-- **Placement global ↦ IIFE-local on `VM.run` — PARTIAL.** `body` in the class. `codeG` / `codeI`: ANY VM code
related (`CodeRel3`) to the FRAGMENT compiler's programs `F3.compProg (progG body)` / `F3.compProg (progI n L body)`
(GETG/SETG main vs `CONST L; CALL 0; POP` main + DEFL/GETL/SETL function constant), `cG` / `cI` cores related to
the initial states over the same start globals `g`, data semantics related to the VM's operations (`DataRel`), both
fragment-machine runs within the VM's fixed sizes (`WithinVM`). `ProgOk` of both programs is derived from the class.
If the reference semantics of the global placement ends with globals `g'` (fuel `f`), BOTH `VM.run`s halt (every
fuel from some point on, heap untouched) with an empty stack, the global placement's globals related to `g'`, the
IIFE placement's to `mkG n g g'` — hence (for `n ≤ NG`, `n ≤ NI`) the SAME value `val (g' i)` in every slot `i < n`
of both; if it ends in a run-time error, both end `failed` with an error that is not `fuel`.

MISSING (hence `_partial`): `Compiler.compileFile` on the source of the IIFE shape — the compile bridge
`compileFile_fragment3_partial` has function literals only as statements `global = func…`; so `codeI` is not shown
to be what the compiler emits for `(func() {…})()`, it is any code in relation `CodeRel3` to `F3.compProg`. -/
theorem placement_global_vs_iife_fragment3_vm_partial {V : Type} (E : Env V) (val : V → Value)
    (refG refI : Nat → Nat) (n L : Nat) (body : Stms) (hc : g2Ss n body = true)
    {KG NG KI NI : Nat} (hnG : n ≤ NG) (hnI : n ≤ NI) {codeG codeI : Code}
    (hcodeG : CodeRel3 (compProg (progG body)) KG NG E val refG codeG)
    (hcodeI : CodeRel3 (compProg (progI n L body)) KI NI E val refI codeI)
    (hD : DataRel E.S val) (g stkG stkI : Nat → V) {cG cI : Core}
    (hrelG : Rel3 (compProg (progG body)) NG val refG (St.init stkG g) cG)
    (hrelI : Rel3 (compProg (progI n L body)) NI val refI (St.init stkI g) cI)
    (hWG : WithinVM E (compProg (progG body)) (St.init stkG g))
    (hWI : WithinVM E (compProg (progI n L body)) (St.init stkI g))
    (keep : Nat) (allocs : Int) (ha : allocs ≤ 0) (logG logI : Log) (gst : GSt) (heap : Spec.St) :
    (∀ f g', F3.exec E (progG body) f g = .done g' →
      ∃ (cG' cI' : Core) (mG mI : Nat),
        (∀ k, (VM.run codeG keep (mG + 1 + k) allocs ⟨cG, gst, heap⟩ logG).1 = .halted ⟨cG', gst, heap⟩) ∧
        (∀ k, (VM.run codeI keep (mI + 1 + k) allocs ⟨cI, gst, heap⟩ logI).1 = .halted ⟨cI', gst, heap⟩) ∧
        cG'.regs.sp = 0 ∧ cI'.regs.sp = 0 ∧
        GlobRel3 NG val g' cG'.regs.globals ∧ GlobRel3 NI val (mkG n g g') cI'.regs.globals ∧
        ∀ i, i < n → cG'.regs.globals.getD i .undef = val (g' i) ∧ cI'.regs.globals.getD i .undef = val (g' i)) ∧
    (∀ f, F3.exec E (progG body) f g = .err →
      ∃ (eG eI : Err) (atG atI : Cfg) (mG mI : Nat), eG ≠ Err.fuel ∧ eI ≠ Err.fuel ∧
        (∀ k, (VM.run codeG keep (mG + 1 + k) allocs ⟨cG, gst, heap⟩ logG).1 = .failed eG atG) ∧
        (∀ k, (VM.run codeI keep (mI + 1 + k) allocs ⟨cI, gst, heap⟩ logI).1 = .failed eI atI)) := by
  have hfn : E.asFn (E.cs L) = some L := by
    cases h : E.asFn (E.cs L) with
    | some k =>
      have h1 := hcodeI.asFn_some _ _ h
      have hfnL : (compProg (progI n L body)).fns L = some (compFn (fnDef n body)) := by
        simp only [compProg, progI, if_true, Option.map_some]
      have h2 := hcodeI.csfn L _ hfnL
      rw [h1] at h2
      injection h2 with h2
      rw [hcodeI.inj _ _ h2]
    | none =>
      have h1 := hcodeI.asFn_none _ h
      have hfnL : (compProg (progI n L body)).fns L = some (compFn (fnDef n body)) := by
        simp only [compProg, progI, if_true, Option.map_some]
      have h2 := hcodeI.csfn L _ hfnL
      rw [h2] at h1
      exact absurd h1 (by simp [Tengo.Proofs.C01BridgeF3.NotCallable])
  have hPG := progG_ok n body hc
  have hPI := progI_ok n L body hc
  constructor
  · intro f g' hf
    obtain ⟨F, hF⟩ := placementI_forward n L body hc hfn f g _ hf (by simp)
    obtain ⟨cG', mG, hglG, hspG, hrunG⟩ :=
      (vm_computes_fragment3 E (progG body) hPG f g stkG hcodeG hD hrelG hWG keep allocs logG gst heap ha).1 g' hf
    obtain ⟨cI', mI, hglI, hspI, hrunI⟩ :=
      (vm_computes_fragment3 E (progI n L body) hPI F g stkI hcodeI hD hrelI hWI keep allocs logI gst heap ha).1 _ hF
    refine ⟨cG', cI', mG, mI, hrunG, hrunI, hspG, hspI, hglG, hglI, fun i hi => ⟨hglG.2 i (by omega), ?_⟩⟩
    have := hglI.2 i (by omega)
    simp only [mkG, if_pos hi] at this
    exact this
  · intro f hf
    obtain ⟨F, hF⟩ := placementI_forward n L body hc hfn f g _ hf (by simp)
    obtain ⟨eG, atG, mG, hneG, hrunG⟩ :=
      (vm_computes_fragment3 E (progG body) hPG f g stkG hcodeG hD hrelG hWG keep allocs logG gst heap ha).2 hf
    obtain ⟨eI, atI, mI, hneI, hrunI⟩ :=
      (vm_computes_fragment3 E (progI n L body) hPI F g stkI hcodeI hD hrelI hWI keep allocs logI gst heap ha).2 hF
    exact ⟨eG, eI, atG, atI, mG, mI, hneG, hneI, hrunG, hrunI⟩

/-! ### non-vacuity of the VM-level theorem -/

namespace ExampleVM
open Tengo.Model Tengo.Model.F3
open Tengo.Model.Spec (Value GSt Err)
open Tengo.Model.VM (Core Code Cfg Log)
open Tengo.Proofs.C11Place
open Tengo.Proofs.C01BridgeF3 (FV sem3 env3 dataRel3 fnOf rel_init3 CodeRel3)
open Tengo.Props.C11Place.ExampleVM (bodyV vRefs vUnref vCs hWG)
open Tengo.Props.C01F3Bridge (WithinVM withinVM_of_check)

theorem vRefs_inj : ∀ a b, vRefs a = vRefs b → a = b := by
  intro a b h
  simp only [vRefs] at h
  split at h <;> split at h <;> omega

theorem vUnref_ref : ∀ r k, vUnref r = some k → r = vRefs k := by
  intro r k h
  simp only [vUnref] at h
  by_cases hr : r = 0
  · rw [if_pos hr] at h; injection h with h; subst h; exact hr
  · rw [if_neg hr] at h; cases h

def poolG : Array VM.Const := #[.val (.int 0), .val (.int 2), .val (.int 1)]
def poolI : Array VM.Const :=
  #[.val (.int 0), .val (.int 2), .val (.int 1), .fn (fnOf (compFn (fnDef 1 bodyV))) 0]

theorem codeRelG : CodeRel3 (compProg (progG bodyV)) 3 1 (env3 vUnref vCs) Subtype.val vRefs
    (codeOf (compProg (progG bodyV)) poolG) :=
  codeRel_of _ 3 1 3 none vRefs poolG (fun k => by simp [compProg, progG])
    (fun cf h => by cases h)
    (fun k hk _ => by
      match k, hk with
      | 0, _ => rfl
      | 1, _ => rfl
      | 2, _ => rfl)
    vRefs_inj vUnref_ref (by decide) (fun cf h => by cases h)

theorem codeRelI : CodeRel3 (compProg (progI 1 3 bodyV)) 4 1 (env3 vUnref vCs) Subtype.val vRefs
    (codeOf (compProg (progI 1 3 bodyV)) poolI) :=
  codeRel_of _ 4 1 3 (some (compFn (fnDef 1 bodyV))) vRefs poolI
    (fun k => by
      by_cases hk : k = 3
      · subst hk; rfl
      · simp only [compProg, progI, if_neg hk, Option.map_none])
    (fun cf h => by injection h with h; subst h; exact ⟨rfl, rfl⟩)
    (fun k hk hf => by
      match k, hk with
      | 0, _ => rfl
      | 1, _ => rfl
      | 2, _ => rfl
      | 3, _ => simp [compProg, progI] at hf)
    vRefs_inj vUnref_ref (by decide) (fun cf h => by injection h with h; subst h; decide)

theorem hWI : WithinVM (env3 vUnref vCs) (compProg (progI 1 3 bodyV))
    (St.init (fun _ => (env3 vUnref vCs).S.undef) (fun _ => (sem3 vUnref).undef)) :=
  withinVM_of_check 60 _ (by decide)

def x0is2 : PRes (FV vUnref) → Bool
  | .done g => (match (g 0).1 with
    | .int 2 => true
    | _ => false)
  | _ => false

/-- **Non-vacuity of `placement_global_vs_iife_fragment3_vm_partial`**: for `x0 = 0; for x0 < 2 { x0 = x0 + 1 }`, the
concrete data semantics `env3`, the byte encodings of the fragment compiler's output for both placements (`codeOf`)
and `VM.initCore`, every hypothesis holds; both `VM.run`s halt with the integer 2 in global slot 0. -/
example (keep : Nat) (allocs : Int) (ha : allocs ≤ 0) (log : Log) (gst : GSt) (heap : Spec.St) :
    ∃ (cG' cI' : Core) (mG mI : Nat),
      (∀ k, (VM.run (codeOf (compProg (progG bodyV)) poolG) keep (mG + 1 + k) allocs
        ⟨VM.initCore #[.undef] #[], gst, heap⟩ log).1 = .halted ⟨cG', gst, heap⟩) ∧
      (∀ k, (VM.run (codeOf (compProg (progI 1 3 bodyV)) poolI) keep (mI + 1 + k) allocs
        ⟨VM.initCore #[.undef] #[(3, [])], gst, heap⟩ log).1 = .halted ⟨cI', gst, heap⟩) ∧
      cG'.regs.globals.getD 0 .undef = .int 2 ∧ cI'.regs.globals.getD 0 .undef = .int 2 := by
  have hrelG := rel_init3 (M := compProg (progG bodyV)) (ref := vRefs) (val := (Subtype.val : FV vUnref → Value))
    #[.undef] #[] (fun _ => (env3 vUnref vCs).S.undef) (fun _ => (sem3 vUnref).undef) rfl
    (fun i hi => by
      have hi1 : i < 1 := hi
      have : i = 0 := by omega
      subst this; rfl)
    (fun _ _ => rfl) (fun k cf h => by simp [compProg, progG] at h)
  have hrelI := rel_init3 (M := compProg (progI 1 3 bodyV)) (ref := vRefs)
    (val := (Subtype.val : FV vUnref → Value))
    #[.undef] #[(3, [])] (fun _ => (env3 vUnref vCs).S.undef) (fun _ => (sem3 vUnref).undef) rfl
    (fun i hi => by
      have hi1 : i < 1 := hi
      have : i = 0 := by omega
      subst this; rfl)
    (fun _ _ => rfl) (fun k cf h => by
      by_cases hk : k = 3
      · subst hk; rfl
      · simp only [compProg, progI, if_neg hk, Option.map_none] at h; cases h)
  obtain ⟨hdone, _⟩ := placement_global_vs_iife_fragment3_vm_partial (env3 vUnref vCs) Subtype.val vRefs vRefs 1 3
    bodyV (by decide) (Nat.le_refl 1) (Nat.le_refl 1) codeRelG codeRelI (dataRel3 vUnref)
    (fun _ => (sem3 vUnref).undef) _ _ hrelG hrelI hWG hWI keep allocs ha log log gst heap
  have hev : x0is2 (F3.exec (env3 vUnref vCs) (progG bodyV) 20 (fun _ => (sem3 vUnref).undef)) = true := by decide
  cases he : F3.exec (env3 vUnref vCs) (progG bodyV) 20 (fun _ => (sem3 vUnref).undef) with
  | done g' =>
    rw [he] at hev
    obtain ⟨cG', cI', mG, mI, hrG, hrI, _, _, _, _, hval⟩ := hdone 20 g' he
    have hv : (g' 0).1 = .int 2 := by
      simp only [x0is2] at hev
      split at hev
      · assumption
      · cases hev
    exact ⟨cG', cI', mG, mI, hrG, hrI, by rw [(hval 0 (by decide)).1, hv], by rw [(hval 0 (by decide)).2, hv]⟩
  | err => rw [he] at hev; cases hev
  | out => rw [he] at hev; cases hev
  | bad => rw [he] at hev; cases hev

end ExampleVM

end Tengo.Props.C11PlaceIife

import Tengo.Props.C11Place
import Tengo.Proofs.C11PlaceParRun
import Tengo.Proofs.C11PlaceParWf
/-!
C11 — **PLACEMENT global ↦ parameter, on fragment F3**: the variant of `Tengo.Props.C11Place` in which the variables
reach the function as PARAMETERS instead of a `:=` prologue:

  `progP n L P`:  `f = func(x_0, …, x_{n-1}) { P[x_i local];  r_0 = x_0; …; r_{n-1} = x_{n-1} };  f(r_0, …, r_{n-1})`

(`r_i` = global slot `i`, `f` = global slot `n`, the function literal is constant `L`; the variables are the first `n`
local slots of the frame, filled by `CALL n`; inside `P` every write is `x_i = e`: `SETL`, every read `GETL`).

Theorems:
* `placement_global_vs_param_fragment3_sem` (reference semantics `F3.exec`, any data semantics): the four-part
  correspondence of `placement_global_vs_local_fragment3_sem`, for `progP`.
* `placement_global_vs_param_fragment3` (and `…_from_param`): lifted through `source_to_vm_fragment3` to
  `Compiler.compileFile` + `VM.run` on both compiled programs, as `placement_global_vs_local_fragment3`; `n ≤ 255`
  (a call has at most 255 arguments).
-/
set_option linter.unusedVariables false
namespace Tengo.Props.C11PlacePar
open Tengo.Model Tengo.Model.F3
open Tengo.Model.F0 (Sem upd)
open Tengo.Model.Spec (Value GSt Err)
open Tengo.Model.VM (Core Code Cfg Log FnObj)
open Tengo.Proofs.C11Place
open Tengo.Proofs.C01BridgeF3 (DataRel GlobRel3)
open Tengo.Proofs.C01BridgeF3Comp (NamesOK toAstProg budMain nlitsMain nlitsSs3 budSs3)
open Tengo.Proofs.C01Bridge (inputsOf)
open Tengo.Proofs.C02Compile (toCodeR)
open Tengo.Proofs.C01F3Opt (SrcOk EnvOk)
open Tengo.Props.C01F3Bridge (WithinVM)
open Tengo.Props.C01F3Source (source_to_vm_fragment3)
open Tengo.Props.C11Place (namesOK_restrict)

/-! ### reference semantics -/

/-- **Placement global ↦ parameter, reference semantics of F3.** `E` any data semantics in which constant `L` is the
function value of function constant `L` (`hfn`), `body` in the class, `g` any start globals. With
`gL = upd g n (E.cs L)` (the start globals with the function stored in slot `n`):
1. the parameter placement ends with globals `g''` (some fuel) iff the global placement ends with some `g'` (some
   fuel) and `g'' = mkG n gL g'` (`g'` on the slots `< n`, `gL` elsewhere);
2. run-time errors correspond; 3. `bad` (a `break` / `continue` outside a loop) corresponds;
4. divergence (out of fuel for every fuel) corresponds. -/
theorem placement_global_vs_param_fragment3_sem {V : Type} (E : Env V) (n L : Nat) (body : Stms)
    (hc : g2Ss n body = true) (hfn : E.asFn (E.cs L) = some L) (g : Nat → V) :
    (∀ g'', (∃ F, F3.exec E (progP n L body) F g = .done g'') ↔
      ∃ f g', F3.exec E (progG body) f g = .done g' ∧ g'' = mkG n (upd g n (E.cs L)) g') ∧
    ((∃ F, F3.exec E (progP n L body) F g = .err) ↔ ∃ f, F3.exec E (progG body) f g = .err) ∧
    ((∃ F, F3.exec E (progP n L body) F g = .bad) ↔ ∃ f, F3.exec E (progG body) f g = .bad) ∧
    ((∀ F, F3.exec E (progP n L body) F g = .out) ↔ ∀ f, F3.exec E (progG body) f g = .out) := by
  refine ⟨fun g'' => ⟨?_, ?_⟩, ⟨?_, ?_⟩, ⟨?_, ?_⟩, ⟨?_, ?_⟩⟩
  · rintro ⟨F, hF⟩
    obtain ⟨f, r, hr, hne, heq⟩ := placementP_backward n L body hc hfn F g _ hF (by simp)
    cases r with
    | done g' => simp only [tP, PRes.done.injEq] at heq; exact ⟨f, g', hr, heq⟩
    | err => cases heq
    | out => cases heq
    | bad => cases heq
  · rintro ⟨f, g', hf, rfl⟩
    exact placementP_forward n L body hc hfn f g _ hf (by simp)
  · rintro ⟨F, hF⟩
    obtain ⟨f, r, hr, hne, heq⟩ := placementP_backward n L body hc hfn F g _ hF (by simp)
    cases r with
    | done g' => cases heq
    | err => exact ⟨f, hr⟩
    | out => cases heq
    | bad => cases heq
  · rintro ⟨f, hf⟩
    exact placementP_forward n L body hc hfn f g _ hf (by simp)
  · rintro ⟨F, hF⟩
    obtain ⟨f, r, hr, hne, heq⟩ := placementP_backward n L body hc hfn F g _ hF (by simp)
    cases r with
    | done g' => cases heq
    | err => cases heq
    | out => cases heq
    | bad => exact ⟨f, hr⟩
  · rintro ⟨f, hf⟩
    exact placementP_forward n L body hc hfn f g _ hf (by simp)
  · intro h f
    cases hr : F3.exec E (progG body) f g with
    | out => rfl
    | done g' =>
      obtain ⟨F, hF⟩ := placementP_forward n L body hc hfn f g _ hr (by simp)
      rw [h F] at hF; cases hF
    | err =>
      obtain ⟨F, hF⟩ := placementP_forward n L body hc hfn f g _ hr (by simp)
      rw [h F] at hF; cases hF
    | bad =>
      obtain ⟨F, hF⟩ := placementP_forward n L body hc hfn f g _ hr (by simp)
      rw [h F] at hF; cases hF
  · intro h F
    cases hr : F3.exec E (progP n L body) F g with
    | out => rfl
    | done g' =>
      obtain ⟨f, hf⟩ := placementP_progress n L body hc hfn F g (by rw [hr]; simp)
      exact absurd (h f) hf
    | err =>
      obtain ⟨f, hf⟩ := placementP_progress n L body hc hfn F g (by rw [hr]; simp)
      exact absurd (h f) hf
    | bad =>
      obtain ⟨f, hf⟩ := placementP_progress n L body hc hfn F g (by rw [hr]; simp)
      exact absurd (h f) hf

/-! ### lifted to `Compiler.compileFile` + `VM.run` -/

/-- The data side of the global placement from that of the parameter one. -/
theorem envOk_progG_par {V : Type} {E : Env V} {val : V → Value} {refs : Nat → Nat} {ctab : Nat → F0.Const} {n : Nat}
    {body : Stms} (hE : EnvOk (progP n (nlitsSs3 body) body) ctab E val refs) :
    EnvOk (progG body) ctab E val refs where
  vals := by
    intro k hk _
    have hk : k < nlitsMain (progG body) body := hk
    rw [nlitsMain_progG] at hk
    refine hE.vals k (by rw [nlitsMain_progP]; omega) ?_
    have : ¬ k = nlitsSs3 body := by omega
    simp only [progP, if_neg this]
  inj := hE.inj
  csfn := by intro k fd h; simp [progG] at h
  asFn_some := hE.asFn_some
  asFn_none := hE.asFn_none

/-- In such a data semantics constant `L` is callable and denotes function constant `L`. -/
theorem asFn_of_envOk_par {V : Type} {E : Env V} {val : V → Value} {refs : Nat → Nat} {ctab : Nat → F0.Const} {n L : Nat}
    {body : Stms} (hE : EnvOk (progP n L body) ctab E val refs) : E.asFn (E.cs L) = some L := by
  have hcs := hE.csfn L (parDef n body) (by simp only [progP, if_true])
  cases h : E.asFn (E.cs L) with
  | none => exact absurd hcs ((hE.asFn_none _ h).1 (refs L))
  | some k =>
    have h2 := hE.asFn_some _ k h
    rw [hcs] at h2
    injection h2 with h2
    rw [hE.inj L k h2]

/-- **Placement global ↦ parameter on fragment F3, on `Compiler.compileFile` + `VM.run`.**

`body` is in the class `g2Ss n` and the global placement is `SrcOk` (constants numbered in compilation order,
`break` / `continue` inside loops, operand widths); `n ≤ 255` (at most 255 arguments per call), two size bounds and the
traversal budget for the bigger program; one naming (`n + 1` global names, local names) and one data semantics
`E` / `val` / `refs` for both programs (`hD`, `hE`; `L = nlitsSs3 body` is the function constant); both VMs start
with the same values `g i` in the slots `i < n` (the parameter placement has the extra slot `n` for `f`); `fobjs`
holds the function object of the function constant; both runs stay within the VM's sizes (`hWG`, `hWL`).

Then `compileFile` compiles both embedded programs (`bcG`: GETG/SETG code; `bcL`: the function constant with
GETL/SETL code on its parameters, stored by main and called with the globals as arguments), and for every fuel `f` of the reference semantics:
* if the global placement's reference run ends with globals `g'`: BOTH `VM.run`s halt (every fuel from some point
  on, heap untouched, empty stack), and every slot `i < n` holds `val (g' i)` in BOTH final cores — the same values
  wherever the variables live;
* if it ends in a run-time error: BOTH `VM.run`s end `failed` with an error other than `fuel` (same class:
  a run-time error of the VM, not a fault, not the allocation limit, not out of fuel). -/
theorem placement_global_vs_param_fragment3 {V : Type} (E : Env V) (val : V → Value) (refs : Nat → Nat)
    (names lnames : Nat → String) (ctab : Nat → F0.Const) (n : Nat) (body : Stms)
    (hN : NamesOK names lnames (n + 1)) (hb : ∀ i, lnames i ∉ Spec.builtinNames)
    (hc : g2Ss n body = true) (hs : SrcOk (progG body) n) (hn : n ≤ 255)
    (hsz : F3.sssize body + 10 * n < 4294967296) (hp : nlitsSs3 body < 65536)
    (hbud : budSs3 body + 2 * n + 12 ≤ Compiler.fuel)
    (hD : DataRel E.S val) (hE : EnvOk (progP n (nlitsSs3 body) body) ctab E val refs)
    (g : Nat → V) (globalsG globalsL : Array Value) (fobjs : Array FnObj)
    (hgsG : globalsG.size = n) (hgG : ∀ i, i < n → globalsG.getD i .undef = val (g i))
    (hgsL : globalsL.size = n + 1) (hgL : ∀ i, i < n + 1 → globalsL.getD i .undef = val (g i))
    (hfo : fobjs[refs (nlitsSs3 body)]? = some (nlitsSs3 body, []))
    (hWG : WithinVM E (compProg (progG body)) (St.init (fun _ => E.S.undef) g))
    (hWL : WithinVM E (compProg (progP n (nlitsSs3 body) body)) (St.init (fun _ => E.S.undef) g))
    (keep : Nat) (allocs : Int) (ha : allocs ≤ 0) (gst : GSt) (heap : Spec.St) :
    ∃ bcG bcL,
      Compiler.compileFile (toAstProg names lnames ctab (progG body)) (inputsOf names n) = .ok bcG ∧
      Compiler.compileFile (toAstProg names lnames ctab (progP n (nlitsSs3 body) body)) (inputsOf names (n + 1)) =
        .ok bcL ∧
      (∀ f g', F3.exec E (progG body) f g = .done g' →
        ∃ (cG cL : Core) (mG mL : Nat),
          (∀ k, (VM.run (toCodeR refs bcG) keep (mG + 1 + k) allocs ⟨VM.initCore globalsG fobjs, gst, heap⟩ {}).1 =
            .halted ⟨cG, gst, heap⟩) ∧
          (∀ k, (VM.run (toCodeR refs bcL) keep (mL + 1 + k) allocs ⟨VM.initCore globalsL fobjs, gst, heap⟩ {}).1 =
            .halted ⟨cL, gst, heap⟩) ∧
          cG.regs.sp = 0 ∧ cL.regs.sp = 0 ∧
          ∀ i, i < n → cG.regs.globals.getD i .undef = val (g' i) ∧ cL.regs.globals.getD i .undef = val (g' i)) ∧
      (∀ f, F3.exec E (progG body) f g = .err →
        ∃ (eG eL : Err) (atG atL : Cfg) (mG mL : Nat), eG ≠ Err.fuel ∧ eL ≠ Err.fuel ∧
          (∀ k, (VM.run (toCodeR refs bcG) keep (mG + 1 + k) allocs ⟨VM.initCore globalsG fobjs, gst, heap⟩ {}).1 =
            .failed eG atG) ∧
          (∀ k, (VM.run (toCodeR refs bcL) keep (mL + 1 + k) allocs ⟨VM.initCore globalsL fobjs, gst, heap⟩ {}).1 =
            .failed eL atL)) := by
  have hfn := asFn_of_envOk_par hE
  have hsL := srcOk_progP hs hc hn hsz hp
  have hbG : budMain (progG body) (progG body).main ≤ Compiler.fuel := by
    show budMain (progG body) body ≤ Compiler.fuel
    rw [budMain_progG]; omega
  have hbL : budMain (progP n (nlitsSs3 body) body) (progP n (nlitsSs3 body) body).main ≤ Compiler.fuel :=
    Nat.le_trans (budMain_progP n body) hbud
  obtain ⟨bcG, hcG, hG1, hG2⟩ := source_to_vm_fragment3 E val refs names lnames ctab n (progG body)
    (namesOK_restrict hN) hb hs hbG hD (envOk_progG_par hE) 0 g globalsG fobjs hgsG hgG
    (fun k fd h => by simp [progG] at h) hWG keep allocs ha gst heap
  obtain ⟨bcL, hcL, hL1, hL2⟩ := source_to_vm_fragment3 E val refs names lnames ctab (n + 1)
    (progP n (nlitsSs3 body) body) hN hb hsL hbL hD hE 0 g globalsL fobjs hgsL hgL
    (fun k fd h => by
      have hk : k = nlitsSs3 body := by
        by_cases hk : k = nlitsSs3 body
        · exact hk
        · simp only [progP, if_neg hk] at h; cases h
      subst hk; exact hfo) hWL keep allocs ha gst heap
  -- the statements of `source_to_vm_fragment3` are for one fuel; redo them for the fuels needed
  refine ⟨bcG, bcL, hcG, hcL, ?_, ?_⟩
  · intro f g' hf
    obtain ⟨bcG', hcG', hG1', _⟩ := source_to_vm_fragment3 E val refs names lnames ctab n (progG body)
      (namesOK_restrict hN) hb hs hbG hD (envOk_progG_par hE) f g globalsG fobjs hgsG hgG
      (fun k fd h => by simp [progG] at h) hWG keep allocs ha gst heap
    rw [hcG] at hcG'; injection hcG' with hcG'; subst hcG'
    obtain ⟨F, hF⟩ := placementP_forward n (nlitsSs3 body) body hc hfn f g _ hf (by simp)
    obtain ⟨bcL', hcL', hL1', _⟩ := source_to_vm_fragment3 E val refs names lnames ctab (n + 1)
      (progP n (nlitsSs3 body) body) hN hb hsL hbL hD hE F g globalsL fobjs hgsL hgL
      (fun k fd h => by
        have hk : k = nlitsSs3 body := by
          by_cases hk : k = nlitsSs3 body
          · exact hk
          · simp only [progP, if_neg hk] at h; cases h
        subst hk; exact hfo) hWL keep allocs ha gst heap
    rw [hcL] at hcL'; injection hcL' with hcL'; subst hcL'
    obtain ⟨cG, mG, hglG, hspG, hrunG⟩ := hG1' g' hf
    obtain ⟨cL, mL, hglL, hspL, hrunL⟩ := hL1' _ hF
    refine ⟨cG, cL, mG, mL, hrunG, hrunL, hspG, hspL, fun i hi => ⟨hglG.2 i hi, ?_⟩⟩
    rw [hglL.2 i (by omega)]
    simp only [mkG, hi, if_true]
  · intro f hf
    obtain ⟨bcG', hcG', _, hG2'⟩ := source_to_vm_fragment3 E val refs names lnames ctab n (progG body)
      (namesOK_restrict hN) hb hs hbG hD (envOk_progG_par hE) f g globalsG fobjs hgsG hgG
      (fun k fd h => by simp [progG] at h) hWG keep allocs ha gst heap
    rw [hcG] at hcG'; injection hcG' with hcG'; subst hcG'
    obtain ⟨F, hF⟩ := placementP_forward n (nlitsSs3 body) body hc hfn f g _ hf (by simp)
    obtain ⟨bcL', hcL', _, hL2'⟩ := source_to_vm_fragment3 E val refs names lnames ctab (n + 1)
      (progP n (nlitsSs3 body) body) hN hb hsL hbL hD hE F g globalsL fobjs hgsL hgL
      (fun k fd h => by
        have hk : k = nlitsSs3 body := by
          by_cases hk : k = nlitsSs3 body
          · exact hk
          · simp only [progP, if_neg hk] at h; cases h
        subst hk; exact hfo) hWL keep allocs ha gst heap
    rw [hcL] at hcL'; injection hcL' with hcL'; subst hcL'
    obtain ⟨eG, atG, mG, hneG, hrunG⟩ := hG2' hf
    obtain ⟨eL, atL, mL, hneL, hrunL⟩ := hL2' hF
    exact ⟨eG, eL, atG, atL, mG, mL, hneG, hneL, hrunG, hrunL⟩

/-- **The same, with the PARAMETER placement's reference run as the termination witness** (corollary of the theorem
above and of the backward direction of `placement_global_vs_param_fragment3_sem`): if the reference semantics of the
parameter placement ends with globals `g''` (ends in a run-time error), both `VM.run`s halt with `val (g'' i)` in every
slot `i < n` of both final cores (both end `failed`, not `fuel`). -/
theorem placement_global_vs_param_fragment3_from_param {V : Type} (E : Env V) (val : V → Value) (refs : Nat → Nat)
    (names lnames : Nat → String) (ctab : Nat → F0.Const) (n : Nat) (body : Stms)
    (hN : NamesOK names lnames (n + 1)) (hb : ∀ i, lnames i ∉ Spec.builtinNames)
    (hc : g2Ss n body = true) (hs : SrcOk (progG body) n) (hn : n ≤ 255)
    (hsz : F3.sssize body + 10 * n < 4294967296) (hp : nlitsSs3 body < 65536)
    (hbud : budSs3 body + 2 * n + 12 ≤ Compiler.fuel)
    (hD : DataRel E.S val) (hE : EnvOk (progP n (nlitsSs3 body) body) ctab E val refs)
    (g : Nat → V) (globalsG globalsL : Array Value) (fobjs : Array FnObj)
    (hgsG : globalsG.size = n) (hgG : ∀ i, i < n → globalsG.getD i .undef = val (g i))
    (hgsL : globalsL.size = n + 1) (hgL : ∀ i, i < n + 1 → globalsL.getD i .undef = val (g i))
    (hfo : fobjs[refs (nlitsSs3 body)]? = some (nlitsSs3 body, []))
    (hWG : WithinVM E (compProg (progG body)) (St.init (fun _ => E.S.undef) g))
    (hWL : WithinVM E (compProg (progP n (nlitsSs3 body) body)) (St.init (fun _ => E.S.undef) g))
    (keep : Nat) (allocs : Int) (ha : allocs ≤ 0) (gst : GSt) (heap : Spec.St) :
    ∃ bcG bcL,
      Compiler.compileFile (toAstProg names lnames ctab (progG body)) (inputsOf names n) = .ok bcG ∧
      Compiler.compileFile (toAstProg names lnames ctab (progP n (nlitsSs3 body) body)) (inputsOf names (n + 1)) =
        .ok bcL ∧
      (∀ F g'', F3.exec E (progP n (nlitsSs3 body) body) F g = .done g'' →
        ∃ (cG cL : Core) (mG mL : Nat),
          (∀ k, (VM.run (toCodeR refs bcG) keep (mG + 1 + k) allocs ⟨VM.initCore globalsG fobjs, gst, heap⟩ {}).1 =
            .halted ⟨cG, gst, heap⟩) ∧
          (∀ k, (VM.run (toCodeR refs bcL) keep (mL + 1 + k) allocs ⟨VM.initCore globalsL fobjs, gst, heap⟩ {}).1 =
            .halted ⟨cL, gst, heap⟩) ∧
          cG.regs.sp = 0 ∧ cL.regs.sp = 0 ∧
          ∀ i, i < n → cG.regs.globals.getD i .undef = val (g'' i) ∧ cL.regs.globals.getD i .undef = val (g'' i)) ∧
      (∀ F, F3.exec E (progP n (nlitsSs3 body) body) F g = .err →
        ∃ (eG eL : Err) (atG atL : Cfg) (mG mL : Nat), eG ≠ Err.fuel ∧ eL ≠ Err.fuel ∧
          (∀ k, (VM.run (toCodeR refs bcG) keep (mG + 1 + k) allocs ⟨VM.initCore globalsG fobjs, gst, heap⟩ {}).1 =
            .failed eG atG) ∧
          (∀ k, (VM.run (toCodeR refs bcL) keep (mL + 1 + k) allocs ⟨VM.initCore globalsL fobjs, gst, heap⟩ {}).1 =
            .failed eL atL)) := by
  obtain ⟨bcG, bcL, hcG, hcL, h1, h2⟩ := placement_global_vs_param_fragment3 E val refs names lnames ctab n body hN hb hc
    hs hn hsz hp hbud hD hE g globalsG globalsL fobjs hgsG hgG hgsL hgL hfo hWG hWL keep allocs ha gst heap
  have hsem := placement_global_vs_param_fragment3_sem E n (nlitsSs3 body) body hc (asFn_of_envOk_par hE) g
  refine ⟨bcG, bcL, hcG, hcL, ?_, ?_⟩
  · intro F g'' hF
    obtain ⟨f, g', hf, rfl⟩ := (hsem.1 g'').1 ⟨F, hF⟩
    obtain ⟨cG, cL, mG, mL, hrG, hrL, hsG, hsL, hval⟩ := h1 f g' hf
    refine ⟨cG, cL, mG, mL, hrG, hrL, hsG, hsL, fun i hi => ?_⟩
    have : mkG n (upd g n (E.cs (nlitsSs3 body))) g' i = g' i := by simp only [mkG, hi, if_true]
    rw [this]; exact hval i hi
  · intro F hF
    obtain ⟨f, hf⟩ := hsem.2.1.1 ⟨F, hF⟩
    exact h2 f hf

/-! ### non-vacuity -/

namespace Example
open Tengo.Props.C11Place.Example (body2 natEnv ends negBody natEnv0 isErr eq_err_of_isErr)

/-- **Non-vacuity of `placement_global_vs_param_fragment3_sem`**: the global placement of
`x1 = 0; for x0 < 3 { x1 = x1 + x0; x0 = x0 + 1; if x1 == 100 { break } }` ends with `x0 = 3, x1 = 3` (fuel 30), so —
by the theorem — the parameter placement ends with the globals `r0 = 3, r1 = 3`; checked directly as well (fuel 40). -/
example : ∃ F g'', F3.exec natEnv (progP 2 4 body2) F (fun _ => 0) = .done g'' ∧ g'' 0 = 3 ∧ g'' 1 = 3 := by
  have hG : ends 3 3 (F3.exec natEnv (progG body2) 30 (fun _ => 0)) = true := by decide
  cases he : F3.exec natEnv (progG body2) 30 (fun _ => 0) with
  | done g' =>
    rw [he] at hG
    simp only [ends, Bool.and_eq_true, beq_iff_eq] at hG
    obtain ⟨F, hF⟩ := ((placement_global_vs_param_fragment3_sem natEnv 2 4 body2 (by decide) (by decide)
      (fun _ => 0)).1 _).2 ⟨30, g', he, rfl⟩
    exact ⟨F, _, hF, by simp only [mkG]; exact hG.1, by simp only [mkG]; exact hG.2⟩
  | err => rw [he] at hG; cases hG
  | out => rw [he] at hG; cases hG
  | bad => rw [he] at hG; cases hG

example : ends 3 3 (F3.exec natEnv (progP 2 4 body2) 40 (fun _ => 0)) = true := by decide

/-- … and a run-time error corresponds (by the theorem, and checked directly). -/
example : ∃ F, F3.exec natEnv0 (progP 1 0 negBody) F (fun _ => 0) = .err :=
  ((placement_global_vs_param_fragment3_sem natEnv0 1 0 negBody (by decide) (by decide) (fun _ => 0)).2.1).2
    ⟨5, eq_err_of_isErr (by decide)⟩

example : isErr (F3.exec natEnv0 (progP 1 0 negBody) 12 (fun _ => 0)) = true := by decide

end Example

namespace ExampleVM
open Tengo.Proofs.C01BridgeF3 (FV sem3 env3 dataRel3 asFn3_some asFn3_none)
open Tengo.Proofs.C01BridgeF3Comp (gname lname demo_builtin)
open Tengo.Props.C01F3Source.Example (exD_names fnCode)
open Tengo.Props.C11Place.ExampleVM (bodyV vCtab vRefs vUnref vCs bodyV_src x0is2 hWG)

theorem progP_fns {k : Nat} {fd : FnDef} (h : (progP 1 (nlitsSs3 bodyV) bodyV).fns k = some fd) : k = 3 := by
  by_cases hk : k = 3
  · exact hk
  · have : ¬ k = nlitsSs3 bodyV := hk
    simp only [progP, if_neg this] at h; cases h

theorem bodyV_envP : EnvOk (progP 1 (nlitsSs3 bodyV) bodyV) vCtab (env3 vUnref vCs) Subtype.val vRefs where
  vals := by
    intro k hk hf
    have hk4 : k < 4 := hk
    match k, hk4 with
    | 0, _ => rfl
    | 1, _ => rfl
    | 2, _ => rfl
    | 3, _ => simp [progP, nlitsSs3, bodyV, Tengo.Proofs.C01BridgeF3Comp.nlitsS3, Tengo.Proofs.C01BridgeF3Comp.nlitsE3] at hf
  inj := by
    intro a b h
    simp only [vRefs] at h
    split at h <;> split at h <;> omega
  csfn := by
    intro k fd h
    have := progP_fns h
    subst this
    rfl
  asFn_some := asFn3_some vUnref vRefs (fun r k h => by
    simp only [vUnref] at h
    by_cases hr : r = 0
    · rw [if_pos hr] at h; injection h with h; subst h; exact hr
    · rw [if_neg hr] at h; cases h) vCs
  asFn_none := asFn3_none vUnref vCs

set_option maxRecDepth 4000 in
theorem hWP : WithinVM (env3 vUnref vCs) (compProg (progP 1 (nlitsSs3 bodyV) bodyV))
    (St.init (fun _ => (env3 vUnref vCs).S.undef) (fun _ => (sem3 vUnref).undef)) :=
  Tengo.Props.C01F3Bridge.withinVM_of_check 60 _ (by decide)

/-- **Non-vacuity of `placement_global_vs_param_fragment3`**: every hypothesis is discharged for
`x0 = 0; for x0 < 2 { x0 = x0 + 1 }` (one variable, `n = 1`), the concrete data semantics `env3` and the initial
configurations `VM.Run` sets up; so both placements compile, and `VM.run` on both — the loop on GETG/SETG in main,
resp. on GETL/SETL on the parameter of the function constant called with `r0` as its argument — halts with an empty
stack and the integer 2 in global slot 0. -/
example (keep : Nat) (allocs : Int) (ha : allocs ≤ 0) (gst : GSt) (heap : Spec.St) :
    ∃ bcG bcL,
      Compiler.compileFile (toAstProg gname lname vCtab (progG bodyV)) (inputsOf gname 1) = .ok bcG ∧
      Compiler.compileFile (toAstProg gname lname vCtab (progP 1 (nlitsSs3 bodyV) bodyV)) (inputsOf gname 2) =
        .ok bcL ∧
      -- the function constant: CONST 0; SETL 0; GETL 0; CONST 1; BINOP <; JMPF 31; GETL 0; CONST 2; BINOP +; SETL 0;
      -- JMP 5; GETL 0; SETG 0; RET 0 (no prologue: the parameter is local slot 0)
      fnCode bcL.consts[3]? = [0, 0, 0, 26, 0, 25, 0, 0, 0, 1, 40, 38, 9, 0, 0, 0, 31, 25, 0, 0, 0, 2,
        40, 11, 26, 0, 12, 0, 0, 0, 5, 25, 0, 23, 0, 0, 21, 0] ∧
      ∃ (cG cL : Core) (mG mL : Nat),
        (∀ k, (VM.run (toCodeR vRefs bcG) keep (mG + 1 + k) allocs ⟨VM.initCore #[.undef] #[(3, [])], gst, heap⟩ {}).1 =
          .halted ⟨cG, gst, heap⟩) ∧
        (∀ k, (VM.run (toCodeR vRefs bcL) keep (mL + 1 + k) allocs
          ⟨VM.initCore #[.undef, .undef] #[(3, [])], gst, heap⟩ {}).1 = .halted ⟨cL, gst, heap⟩) ∧
        cG.regs.sp = 0 ∧ cL.regs.sp = 0 ∧
        cG.regs.globals.getD 0 .undef = .int 2 ∧ cL.regs.globals.getD 0 .undef = .int 2 := by
  obtain ⟨bcG, bcL, hcG, hcL, hdone, _⟩ := placement_global_vs_param_fragment3 (env3 vUnref vCs) Subtype.val vRefs
    gname lname vCtab 1 bodyV exD_names demo_builtin (by decide) bodyV_src (by decide) (by decide) (by decide)
    (by decide) (dataRel3 vUnref) bodyV_envP (fun _ => (sem3 vUnref).undef) #[.undef] #[.undef, .undef] #[(3, [])]
    rfl (by intro i hi; match i, hi with
      | 0, _ => rfl)
    rfl (by intro i hi; match i, hi with
      | 0, _ => rfl
      | 1, _ => rfl)
    rfl hWG hWP keep allocs ha gst heap
  have hcG' := Tengo.Props.C01F3Source.compileFile_srcOk gname lname vCtab 1 (progG bodyV)
    (namesOK_restrict exD_names) demo_builtin bodyV_src (by decide)
  have hcL' := Tengo.Props.C01F3Source.compileFile_srcOk gname lname vCtab 2 (progP 1 (nlitsSs3 bodyV) bodyV)
    exD_names demo_builtin (srcOk_progP bodyV_src (by decide) (by decide) (by decide) (by decide)) (by decide)
  rw [hcG'] at hcG; injection hcG with hcG; subst hcG
  rw [hcL'] at hcL; injection hcL with hcL; subst hcL
  refine ⟨_, _, hcG', hcL', by decide, ?_⟩
  have hev : x0is2 (F3.exec (env3 vUnref vCs) (progG bodyV) 20 (fun _ => (sem3 vUnref).undef)) = true := by decide
  cases he : F3.exec (env3 vUnref vCs) (progG bodyV) 20 (fun _ => (sem3 vUnref).undef) with
  | done g' =>
    rw [he] at hev
    obtain ⟨cG, cL, mG, mL, hrG, hrL, hsG, hsL, hval⟩ := hdone 20 g' he
    have hv : (g' 0).1 = .int 2 := by
      simp only [x0is2] at hev
      split at hev
      · assumption
      · cases hev
    refine ⟨cG, cL, mG, mL, hrG, hrL, hsG, hsL, ?_, ?_⟩
    · rw [(hval 0 (by decide)).1, hv]
    · rw [(hval 0 (by decide)).2, hv]
  | err => rw [he] at hev; cases hev
  | out => rw [he] at hev; cases hev
  | bad => rw [he] at hev; cases hev

/-- … and the hypotheses of `placement_global_vs_param_fragment3_from_param` (the same list) hold for it as well. -/
example (keep : Nat) (allocs : Int) (ha : allocs ≤ 0) (gst : GSt) (heap : Spec.St) :=
  placement_global_vs_param_fragment3_from_param (env3 vUnref vCs) Subtype.val vRefs
    gname lname vCtab 1 bodyV exD_names demo_builtin (by decide) bodyV_src (by decide) (by decide) (by decide)
    (by decide) (dataRel3 vUnref) bodyV_envP (fun _ => (sem3 vUnref).undef) #[.undef] #[.undef, .undef] #[(3, [])]
    rfl (by intro i hi; match i, hi with
      | 0, _ => rfl)
    rfl (by intro i hi; match i, hi with
      | 0, _ => rfl
      | 1, _ => rfl)
    rfl hWG hWP keep allocs ha gst heap

end ExampleVM

end Tengo.Props.C11PlacePar
